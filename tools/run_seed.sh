#!/bin/bash
# usage: run_seed.sh <seeded dir> <check id>...   applies the patch to /repo, runs the quick checks, reverts
D=$(cd "$1" && pwd); shift
cd /verif; R=${VERIF_REPO:-/repo}
if ! git -C $R apply --check $D/patch.diff; then echo "patch does not apply"; exit 2; fi
git -C $R apply $D/patch.diff
rm -rf /tmp/verif_evidence_keep && cp -r /verif/evidence /tmp/verif_evidence_keep   # evidence must come from clean-tree runs
for id in "$@"; do
  out=$(bin/check $id 2>&1 | grep -E "VIOLATION|KNOWN|OK|FAILED" | head -4)
  echo "[$id] $out" | cut -c1-400
  f=$(echo "$out" | grep -o 'replay=[^ ]*' | head -1 | cut -d= -f2)
  if [ -n "$f" ]; then python3 -c "import json;d=json.load(open('$f'));print('      ->', d.get('kind'), d.get('what','')[:300])"; fi
done
git -C $R checkout -- .
rm -rf /verif/evidence && mv /tmp/verif_evidence_keep /verif/evidence
git -C $R status --short | head -3
