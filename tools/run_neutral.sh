#!/bin/bash
# usage: tools/run_neutral.sh <dir with N*/patch.diff>...   (run from the verif directory)
# Behaviour-preserving changes: every quick check is expected to stay quiet.  Applies each patch to /repo,
# runs the 20 quick checks, reverts.  Evidence is restored afterwards (it must come from clean-tree runs).
V=$(pwd); R=${VERIF_REPO:-/repo}
for D in "$@"; do
  D=$(cd "$D" && pwd)
  if ! git -C $R apply --check $D/patch.diff; then echo "[$D] patch does not apply"; continue; fi
  git -C $R apply $D/patch.diff
  rm -rf $V/.evidence_keep && cp -r $V/evidence $V/.evidence_keep
  res=""
  for id in C01 C02 C03 C04 C05 C06 C07 C08 C09 C10 C11 C12 C13 C14 C15 C16 C17 C18 C19 C20; do
    out=$(bin/check $id 2>&1); rc=$?
    if [ $rc -ne 0 ] || echo "$out" | grep -q VIOLATION; then
      res="$res $id:ALARM"
      echo "$out" | grep -E "VIOLATION" | head -2 | cut -c1-300
      f=$(echo "$out" | grep -o 'replay=[^ ]*' | head -1 | cut -d= -f2)
      if [ -n "$f" ]; then python3 -c "import json;d=json.load(open('$f'));print('      ->', d.get('kind'), str(d.get('what',''))[:400])"; fi
    fi
  done
  git -C $R checkout -- .
  rm -rf $V/evidence && mv $V/.evidence_keep $V/evidence
  echo "[$D] $(cat $D/meta.json | cut -c1-160) => ${res:- quiet}"
done
