#!/usr/bin/env python3
"""Regenerates MANIFEST.json from the table below (claimed checks) + properties.jsonl."""
import json, os
V = os.path.dirname(os.path.dirname(os.path.abspath(__file__)))
props = [json.loads(l) for l in open(os.path.join(V, "properties.jsonl"))]

NOTE = ("Trusted: Coq 8.16.1 kernel; the hand-written Gallina model (tied to /repo by the "
        "correspondence run on every check, sampled not proved); extraction (ExtrOcamlBasic only) and "
        "the OCaml/Go/Python harness; models of strconv/utf8/bufio/reflect/gomap behaviour; go1.23.5 amd64. "
        "No axioms: Print Assumptions of every property theorem is recorded in the evidence.")

CLAIMED = {
 "C01": ("Theorem C01_encode_loads_partial (Props/C01.v): for every Go value in the domain of PyVal.pyval_of (the documented type table), protocols 0..5, both StrictUnicode settings, Encode succeeds, its bytes are the assembly of one instruction program, and the CPython machine PyVM.pyload loads that program to exactly pyval_of c v (numbers, text, byte payloads, dict assignment under Python equality, nesting) - structural induction over the value, one lemma per encoder function. Partial: the domain leaves out protocol-0 text forms of strings/floats and payloads >= 2^31/2^32 bytes (decided by the run only). Both specifications (PyVM, pyval_of) are compared with CPython 3.11's own unpickler on every run; outside the domain every encoder output is loaded by CPython and compared with the documented value computed independently. Two known findings.",
         "proof (induction over the value universe against a Coq model of CPython's unpickler) + that model and the type table compared with CPython itself on every run", "5 (C01)"),
 "C02": ("No Coq model of CPython's picklers (by design) and no simulation theorem yet (partial). Decided on every run: Python objects over the documented types incl. every LONG1 length and DAG sharing, pickled by the C pickler, the pure-Python pickler and pickletools.optimize at protocols 0..5, decoded in 4 configs and compared structurally with CPython's own reading; decoder model = implementation. Known finding stale_list_view (shared non-empty list).",
         "executable Coq decoder model tied to the code + CPython picklers/unpickler as the reference (theorem pending)", "5 (C02)"),
 "C05": ("Theorem C05_redecode_partial (Props/C05.v): whatever Decode returned (any input, any configuration, any well-typed prior state), if the result has no heap objects (maps, Dicts) or PersistentLoad objects and protocol c has a covered opcode form for each leaf (fits_proto), then Encode of it succeeds and Decode of that output gives the same content; uses C16 typing to discharge int64 / ByteString side conditions. Partial: results with maps/Dicts and protocol-0 text leaves are decided by the run only: the fuzz invariant itself on the C04 input stream (re-encode at 6 protocols, decode again) on implementation and both models; the model chain decode->reify->encode is compared byte for byte with the implementation's re-encoding.",
         "proof (composition of the C03 round trip with the C16 typing invariant) + decode/encode/decode chain on implementation and models", "5 (C05)"),
 "C06": ("Simulation theorem GoVM ~ PyVM not yet proved, PyVM not yet modelled in Coq (partial). Decided on every run against CPython's pickle._Unpickler read per decoder mode: typed-grammar programs with every opcode variant, exhaustive short programs, a sharing matrix (second reference by memo in every key width or DUP, taken while empty / half / full, every fill opcode, sizes 0..20), x 4 configs; decoder model = implementation. Known finding stale_list_view.",
         "executable Coq decoder model tied to the code + CPython unpickler as the reference (simulation theorem pending)", "5 (C06)"),
 "C09": ("Restriction of C06 to dict opcodes + C07/C08 theorems about the Dict; the composition is not yet a theorem (partial). Decided on every run: dict programs over a colliding key alphabet in every opcode form, nested and re-reached through the memo, x 4 configs, against the dict CPython builds (PyDict: entry count, key classes, final value per class; default: Go key identity from CPython's assignment trace, error iff a key cannot be a Go map key).",
         "Coq Dict theorems (C07/C08) + executable decoder model + CPython as the reference (composition pending)", "5 (C09)"),
 "C14": ("L1 (bufio-level) reader model and the refinement theorem are not yet written (partial; totality only). Decided on every run metamorphically on the implementation: every input x schedules {1-byte, every single split point, zero-length reads, data+EOF, 4095/4096/4097 chunks, random multi-way splits} must give the same (value, error) sequence as a single Read; the stream-level decoder model = implementation on the single-Read run.",
         "metamorphic chunking sweep on the implementation + stream-level decoder model (L1 refinement theorem pending)", "5 (C14)"),
 "C18": ("Theorems (Props/C18.v): Decode calls PersistentLoad exactly once per PERSID/BINPERSID executed, in stream order, with the Ref built from the popped id, and no other opcode calls it (log theorems over every handler); what the hook returns (object / nil / error) determines the pushed value or the error exactly as documented; Encode consults PersistentRef only for pointers to structs and emits the returned Ref's encoding instead of the pointee. Tie: call logs compared with CPython's persistent_load sequence and with the model under hook behaviours keep / replace / fail / partial; PersistentRef consultation counts for pointers in every position.",
         "proof (hook-call log as ghost state of the decoder model, per-handler lemmas) + call-log comparison against CPython and the traversal", "5 (C18)"),
 "C20": ("PARTIAL by nature. Theorem C20_no_mutable_package_state over Gen/Globals.v, regenerated from the source on every run: every package-level variable is an errors.New value never assigned / address-taken. Interleavings are not modelled; the dynamic part runs the harness under the Go race detector (N up to 64 goroutines, own Encoders/Decoders or one shared decoded value) and compares results with the sequential ones.",
         "proof over facts regenerated from the source (no mutable package state) + race-detector runs", "5 (C20)"),
 "C11": ("Theorems (Props/C11.v): framing (Decode consumes exactly its pickle: decode on p ++ rest leaves rest, for every accepted p), no carry-over (the result does not depend on the stack or protocol number a previous call left behind), and the stream theorem (decode_all over p1 ++ ... ++ pn = the chain of single decodes threaded through the memo/heap state). Tie: streams of 1..8 self-contained pickles (mixed protocols, hand-assembled programs leaving operands / marks / protocol / buffered bytes behind, pickles failing at their last byte) x 4 configs, each call compared with the pickle decoded alone and with the model threaded through the stream.",
         "proof (prefix-extension lemma of the reader monad lifted through the loop, induction over the stream) + stream differential on the implementation", "5 (C11)"),
 "C16": ("Theorem C16 (Props/C16.v): typing invariant - from any well-typed decoder state, for any bytes and configuration (PersistentLoad returning documented values or opaque objects), a successful result, the memo, the heap and every Ref handed to PersistentLoad consist only of the types the mode documents (int64 ints, ByteString only under StrictUnicode, map vs Dict by PyDict, no mark, no uint/complex); proved per handler and lifted through the loop and through streams. Tie: walk of every successful implementation result and hook argument against the whitelist over the C04 stream + MARK under every consuming opcode + exhaustive opcode x small-stack sweep x 4 configs x 4 hook behaviours.",
         "proof (state invariant preserved by every opcode handler, induction on fuel and over streams) + whitelist walk of implementation results", "5 (C16)"),
 "C03": ("Theorem C03_round_trip_partial (Props/C03.v): for every value with Norm.norm c v = Some t (None, bool, every int/uint width, big.Int, floats, all string kinds, Bytes, []byte, Tuple, lists/typed slices/arrays, Class, Call, Ref, pointers, nil, nested to any depth; protocol >= 1 for text/float leaves), every protocol 0..5, StrictUnicode, PyDict, prior decoder state and trailing bytes: Encode succeeds and Decode of its output returns a value whose content is t (identity for canonical values, ByteString as string with StrictUnicode off, documented normal form otherwise), trailing bytes untouched. Proof: fuel-free exec relation, one lemma per opcode form (decimal / two's-complement / UTF-8 latin-1 lemmas), induction over the value. Partial: maps, Dicts, structs and protocol-0 text leaves are outside norm and decided by the run. norm's prediction is compared with the implementation's Decode(Encode(v)) on every run, plus the independent Python normal-form oracle and before/after dumps.",
         "proof (per-opcode lemmas + structural induction: decoder model on encoder model output) + prediction compared with the implementation + independent normal-form oracle", "5 (C03)"),
 "C12": ("Theorems (Props/C12.v): a protocol outside 0..5 is rejected before any Write; C12_conformance: whenever Encode succeeds its bytes are exactly asm_all (program c v) where program = [PROTO p iff p >= 2] ++ body ++ [STOP], body contains no PROTO/STOP, every instruction's opcode was introduced in a protocol <= p (Insn.iproto) and the program respects the stack discipline over {mark, object} ending with one object (Insn.sd_run) - three structural inductions over the value. The instruction table (bytes, introducing protocol, stack effect) is compared with CPython's pickletools.opcodes on the implementation's own output on every run; additionally pickletools.dis and a Python 2.7 load for protocol <= 2.",
         "proof (disassembly of the encoder model's output into an instruction program + protocol bound + stack discipline, by induction) + instruction table checked against pickletools + Python 2 load", "5 (C12)"),
 "C13": ("Theorem C13_write_failure (Props/C13.v): for every configuration, value and k, if the k-th Write fails Encode returns the Writer's error and the Writes made are exactly the first k+1 of the unfailed run - a generic lemma of the writer monad the encoder model is written in. Tie: a Writer failing exactly at call k, for every k, over gate-matrix and random values x 6 protocols, plus buffering Writers.",
         "proof (generic writer-monad lemma by induction) + exhaustive write-index sweep on the implementation", "5 (C13)"),
 "C15": ("Theorem C15_no_panic (Props/C15.v): for every value of the reflect-level universe, every configuration and Writer behaviour, the encoder model never panics (induction over the value, every helper). Tie: values of types built with reflect.StructOf/ArrayOf/SliceOf/MapOf/pointers, a zoo of declared types with unexported/embedded/tagged fields, byte arrays by value, typed nil pointers, unsupported kinds, depth <= 4, x 6 protocols; outcome class compared with the model; TypeError kind checked.",
         "proof (structural induction over the value universe) + reflect-generated type zoo differential", "5 (C15)"),
 "C19": ("Theorems (Props/C19.v, 8): AsString / AsBytes / AsInt64 accept exactly the documented types and return the payload unchanged; decodeLong = two's complement for every byte string; every integer opcode form (INT, LONG text, BININT1/2, BININT, LONG1) decodes to the integer it denotes (decimal print/parse round trip for every Z, ParseInt overflow handling). Tie: exhaustive -2^12..2^12 (thorough 2^16), lattice to 2^70, LONG1 of every length 0..255, x every opcode form; payloads x 9 opcodes x StrictUnicode.",
         "proof (arithmetic lemmas on decimal and two's-complement codecs, per-opcode lemmas) + exhaustive small-integer / every-LONG1-length sweep", "5 (C19)"),
 "C07": ("Theorems (Props/C07.v), for keys whose numbers are integers of any Go integer type / *big.Int / bool, the three string kinds, Tuples, None, Class, Call, Ref: equal() = Python's == ; equal keys feed identical bytes to maphash (any seed, any hash function); a Dict holding a finds it under b iff a == b for every slot order. Keys with float/complex parts: decided by the correspondence run only (partial). Tie: ~6*10^4 ordered pairs of a boundary lattice against the model AND against CPython's own ==, plus black-box lookups in up to 4096 freshly seeded Dicts.",
         "proof (structural induction over keys, exact integer arithmetic) + lattice differential against model and CPython + seeded black-box lookups", "5 (C07)"),
 "C08": ("Theorems (Props/C08.v), integer-fragment keys, every slot order: after ANY history the Dict model's entry list equals the reference dictionary's (Set/Del remove every equal entry, Len/Iter), no two stored keys equal, Get = reference Get when at most one stored key equals the query and otherwise the value of some equal entry; the full 'most recent' statement is refuted by a vm_compute witness (known finding nontransitive_multi_match). Tie: exhaustive histories over the 10-key colliding alphabet (length <=3 quick, <=4 thorough) and long random histories against extracted RefDict and Dict model.",
         "proof (refinement to a reference dictionary by induction over histories) + exhaustive short histories + long random histories", "5 (C08)"),
 "C17": ("Theorems (Props/C17.v): for every Dict state, slot order and key the hash rejects, Get/Set/Del panic before reading or writing any entry (also on the empty Dict); decoder half: SETITEM / SETITEMS / DICT with a key the mode cannot hold return an error (never panic, never drop) in the decoder model, for every state. Tie: generated programs (unhashable object at depth 0..3 in Tuple/Call/Ref x DICT/SETITEM/SETITEMS x 4 configs) and direct API calls with before/after comparison.",
         "proof on the Dict and decoder models + generated unhashable-key programs and direct API calls", "5 (C17)"),
 "C04": ("Theorems (Props/C04.v): for every byte string, configuration and decoder state the model of Decode never panics, never exhausts fuel length+1 (each loop iteration consumes a byte), reports every undispatched opcode byte as OpcodeError{byte,index} and PROTO>5 as ErrInvalidPickleVersion. Tie: outcome classes of model and implementation compared on corpus, grammar programs, mutations, opcode soup, length bombs, all 256 bytes x4 configs; direct oracle on the implementation: recover, timeout, TotalAlloc envelope. The memory clause is partial: it is measured on the implementation (envelope 1 KiB/byte + 2 MiB), not proved.",
         "proof over the decoder model (induction on fuel / free-monad structure) + differential correspondence + allocation metering", "5 (C04)"),
 "C10": ("Theorem C10_truncation (Props/C10.v): for every config, state, accepted pickle p and proper prefix q, the model's Decode on q yields io.EOF (q empty) or io.ErrUnexpectedEOF, no value, all of q consumed - by a generic prefix-monotonicity lemma of the reader monad lifted through the instruction loop. Tie and direct oracle: every cut of generated/valid corpus pickles x4 configs on the implementation, classes compared with the model.",
         "proof (prefix-monotonicity of the free reader monad, induction on fuel) + all-cuts sweep on the implementation", "5 (C10)"),
}

checks = []
for p in props:
    pid = p["id"]
    if pid in CLAIMED:
        text, tech, ref = CLAIMED[pid]
        checks.append({
            "property_id": pid,
            "quick_cmd": "bin/check %s --tier quick" % pid,
            "thorough_cmd": "bin/check %s --tier thorough" % pid,
            "evidence_file": "/verif/evidence/%s.json" % pid,
            "replay_cmd_template": "bin/replay {path}",
            "engine": "coq-model+correspondence",
            "level_claimed": {"category": "proof", "text": text, "design_ref": "DESIGN.md section " + ref},
            "level_note": NOTE,
            "technique": tech})
na = [{"property_id": p["id"], "reason": "check not built yet in this session (work in progress; will be claimed)"}
      for p in props if p["id"] not in CLAIMED]
hooks_commits = []
try:
    import subprocess
    out = subprocess.run(["git", "-C", "/repo", "log", "--format=%H %s"], capture_output=True, text=True).stdout
    hooks_commits = [l.split()[0] for l in out.splitlines() if " verif:" in l]
except Exception:
    pass
m = {"version": 1, "setup_cmd": "bin/setup",
     "hooks": {"guard": "verif (Go build tag)", "enable": "go build -tags verif (harness module ogverif: replace github.com/kisielk/og-rek => /repo)",
               "baseline_off_cmd": "cd /repo && GOFLAGS=-mod=mod GOPROXY=off go test -vet=off -count=1 ./...",
               "source_commits": hooks_commits, "add_only": True},
     "engines": [{"name": "coq-model+correspondence", "path": "coq/ ocaml/ harness/",
                  "serves_properties": sorted(CLAIMED), "kind_free_text": "Coq 8.16 theorems about a hand-written executable model; OCaml extraction; Go/Python differential harness"}],
     "checks": checks,
     "notes": "see DESIGN.md; known findings in known_findings.txt",
     "not_applicable": na}
json.dump(m, open(os.path.join(V, "MANIFEST.json"), "w"), indent=1)
print("claimed:", sorted(CLAIMED), "unclaimed:", len(na))
