#!/usr/bin/env python3
"""Regenerates MANIFEST.json from the table below (claimed checks) + properties.jsonl."""
import json, os
V = os.path.dirname(os.path.dirname(os.path.abspath(__file__)))
props = [json.loads(l) for l in open(os.path.join(V, "properties.jsonl"))]

NOTE = ("Trusted: Coq 8.16.1 kernel; the hand-written Gallina model (tied to /repo by the "
        "correspondence run on every check, sampled not proved); extraction (ExtrOcamlBasic only) and "
        "the OCaml/Go/Python harness; models of strconv/utf8/bufio/reflect/gomap behaviour; go1.23.5 amd64. "
        "No axioms: Print Assumptions of every property theorem is recorded in the evidence.")

CLAIMED = {
 "C07": ("Theorems (Props/C07.v), for keys whose numbers are integers of any Go integer type / *big.Int / bool, the three string kinds, Tuples, None, Class, Call, Ref: equal() = Python's == ; equal keys feed identical bytes to maphash (any seed, any hash function); a Dict holding a finds it under b iff a == b for every slot order. Keys with float/complex parts: decided by the correspondence run only (partial). Tie: ~6*10^4 ordered pairs of a boundary lattice against the model AND against CPython's own ==, plus black-box lookups in up to 4096 freshly seeded Dicts.",
         "proof (structural induction over keys, exact integer arithmetic) + lattice differential against model and CPython + seeded black-box lookups", "5 (C07)"),
 "C08": ("Theorems (Props/C08.v), integer-fragment keys, every slot order: after ANY history the Dict model's entry list equals the reference dictionary's (Set/Del remove every equal entry, Len/Iter), no two stored keys equal, Get = reference Get when at most one stored key equals the query and otherwise the value of some equal entry; the full 'most recent' statement is refuted by a vm_compute witness (known finding nontransitive_multi_match). Tie: exhaustive histories over the 10-key colliding alphabet (length <=3 quick, <=4 thorough) and long random histories against extracted RefDict and Dict model.",
         "proof (refinement to a reference dictionary by induction over histories) + exhaustive short histories + long random histories", "5 (C08)"),
 "C17": ("Theorem C17_api (Props/C17.v): for every Dict state, slot order and key the hash rejects, Get/Set/Del panic before reading or writing any entry (also on the empty Dict). Decode half: decided by generated programs (unhashable object at depth 0..3 in Tuple/Call/Ref x DICT/SETITEM/SETITEMS x 4 configs) on implementation and model; the decoder-side theorem is part of C04 (no panic) - an explicit 'returns an error' theorem for the three handlers is not yet stated (partial).",
         "proof on the Dict model + generated unhashable-key programs and direct API calls with before/after comparison", "5 (C17)"),
 "C04": ("Theorems (Props/C04.v): for every byte string, configuration and decoder state the model of Decode never panics, never exhausts fuel length+1 (each loop iteration consumes a byte), reports every undispatched opcode byte as OpcodeError{byte,index} and PROTO>5 as ErrInvalidPickleVersion. Tie: outcome classes of model and implementation compared on corpus, grammar programs, mutations, opcode soup, length bombs, all 256 bytes x4 configs; direct oracle on the implementation: recover, timeout, TotalAlloc envelope. The memory clause is partial: it is measured on the implementation (envelope 1 KiB/byte + 2 MiB), not proved.",
         "proof over the decoder model (induction on fuel / free-monad structure) + differential correspondence + allocation metering", "5 (C04)"),
 "C10": ("Theorem C10_truncation (Props/C10.v): for every config, state, accepted pickle p and proper prefix q, the model's Decode on q yields io.EOF (q empty) or io.ErrUnexpectedEOF, no value, all of q consumed - by a generic prefix-monotonicity lemma of the reader monad lifted through the instruction loop. Tie and direct oracle: every cut of generated/valid corpus pickles x4 configs on the implementation, classes compared with the model.",
         "proof (prefix-monotonicity of the free reader monad, induction on fuel) + all-cuts sweep on the implementation", "5 (C10)"),
}

checks = []
for p in props:
    pid = p["id"]
    if pid in CLAIMED:
        text, tech, ref = CLAIMED[pid]
        checks.append({
            "property_id": pid,
            "quick_cmd": "bin/check %s --tier quick" % pid,
            "thorough_cmd": "bin/check %s --tier thorough" % pid,
            "evidence_file": "/verif/evidence/%s.json" % pid,
            "replay_cmd_template": "bin/replay {path}",
            "engine": "coq-model+correspondence",
            "level_claimed": {"category": "proof", "text": text, "design_ref": "DESIGN.md section " + ref},
            "level_note": NOTE,
            "technique": tech})
na = [{"property_id": p["id"], "reason": "check not built yet in this session (work in progress; will be claimed)"}
      for p in props if p["id"] not in CLAIMED]
hooks_commits = []
try:
    import subprocess
    out = subprocess.run(["git", "-C", "/repo", "log", "--format=%H %s"], capture_output=True, text=True).stdout
    hooks_commits = [l.split()[0] for l in out.splitlines() if " verif:" in l]
except Exception:
    pass
m = {"version": 1, "setup_cmd": "bin/setup",
     "hooks": {"guard": "verif (Go build tag)", "enable": "go build -tags verif (harness module ogverif: replace github.com/kisielk/og-rek => /repo)",
               "baseline_off_cmd": "cd /repo && GOFLAGS=-mod=mod GOPROXY=off go test -vet=off -count=1 ./...",
               "source_commits": hooks_commits, "add_only": True},
     "engines": [{"name": "coq-model+correspondence", "path": "coq/ ocaml/ harness/",
                  "serves_properties": sorted(CLAIMED), "kind_free_text": "Coq 8.16 theorems about a hand-written executable model; OCaml extraction; Go/Python differential harness"}],
     "checks": checks,
     "notes": "see DESIGN.md; known findings in known_findings.txt",
     "not_applicable": na}
json.dump(m, open(os.path.join(V, "MANIFEST.json"), "w"), indent=1)
print("claimed:", sorted(CLAIMED), "unclaimed:", len(na))
