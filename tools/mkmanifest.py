#!/usr/bin/env python3
"""Regenerates MANIFEST.json from the table below (claimed checks) + properties.jsonl."""
import json, os
V = os.path.dirname(os.path.dirname(os.path.abspath(__file__)))
props = [json.loads(l) for l in open(os.path.join(V, "properties.jsonl"))]

NOTE = ("Trusted: Coq 8.16.1 kernel; the hand-written Gallina model (tied to /repo by the "
        "correspondence run on every check, sampled not proved); extraction (ExtrOcamlBasic only) and "
        "the OCaml/Go/Python harness; models of strconv/utf8/bufio/reflect/gomap behaviour; go1.23.5 amd64. "
        "No axioms: Print Assumptions of every property theorem is recorded in the evidence.")

CLAIMED = {
 "C01": ("No Coq model of CPython yet: the theorem file holds only totality of both models (partial). Decided on every run by loading every encoder output (gate matrix + random trees x 6 protocols x StrictUnicode) with CPython's own pickle._Unpickler (symbolic classes / persistent ids, py2 str kept distinct) and comparing structurally with the documented Python value computed independently; encoder model = implementation on the bytes. Two known findings (non-UTF-8 text emitted as unicode; protocol-0 PERSID with non-ASCII id).",
         "executable Coq encoder model tied to the code + CPython itself as the reference (theorem pending)", "5 (C01)"),
 "C02": ("No Coq model of CPython's picklers (by design) and no simulation theorem yet (partial). Decided on every run: Python objects over the documented types incl. every LONG1 length and DAG sharing, pickled by the C pickler, the pure-Python pickler and pickletools.optimize at protocols 0..5, decoded in 4 configs and compared structurally with CPython's own reading; decoder model = implementation. Known finding stale_list_view (shared non-empty list).",
         "executable Coq decoder model tied to the code + CPython picklers/unpickler as the reference (theorem pending)", "5 (C02)"),
 "C05": ("Corollary of C16 (typed results) and C03 (round trip), both pending: theorem file holds totality only (partial). Decided on every run by the fuzz invariant itself on the C04 input stream: every successful result re-encoded at 6 protocols and decoded again, on the implementation and on both models.",
         "executable Coq models of decoder and encoder composed, tied to the code by differential runs (theorem pending)", "5 (C05)"),
 "C06": ("Simulation theorem GoVM ~ PyVM not yet proved, PyVM not yet modelled in Coq (partial). Decided on every run against CPython's pickle._Unpickler read per decoder mode: typed-grammar programs with every opcode variant, exhaustive short programs, a sharing matrix (second reference by memo in every key width or DUP, taken while empty / half / full, every fill opcode, sizes 0..20), x 4 configs; decoder model = implementation. Known finding stale_list_view.",
         "executable Coq decoder model tied to the code + CPython unpickler as the reference (simulation theorem pending)", "5 (C06)"),
 "C09": ("Restriction of C06 to dict opcodes + C07/C08 theorems about the Dict; the composition is not yet a theorem (partial). Decided on every run: dict programs over a colliding key alphabet in every opcode form, nested and re-reached through the memo, x 4 configs, against the dict CPython builds (PyDict: entry count, key classes, final value per class; default: Go key identity from CPython's assignment trace, error iff a key cannot be a Go map key).",
         "Coq Dict theorems (C07/C08) + executable decoder model + CPython as the reference (composition pending)", "5 (C09)"),
 "C14": ("L1 (bufio-level) reader model and the refinement theorem are not yet written (partial; totality only). Decided on every run metamorphically on the implementation: every input x schedules {1-byte, every single split point, zero-length reads, data+EOF, 4095/4096/4097 chunks, random multi-way splits} must give the same (value, error) sequence as a single Read; the stream-level decoder model = implementation on the single-Read run.",
         "metamorphic chunking sweep on the implementation + stream-level decoder model (L1 refinement theorem pending)", "5 (C14)"),
 "C18": ("Hook-log theorems not yet stated (partial; totality only). Decided on every run: Decode - PersistentLoad call log compared with CPython's persistent_load sequence and with the model under hook behaviours keep / replace / fail / partial; Encode - number of PersistentRef consultations and hits compared with the traversal for pointers in every position (incl. **T chains), output decoded again with the inverse hook.",
         "executable Coq models with the hooks as parameters + call-log comparison against CPython and the traversal (theorems pending)", "5 (C18)"),
 "C20": ("PARTIAL by nature. Theorem C20_no_mutable_package_state over Gen/Globals.v, regenerated from the source on every run: every package-level variable is an errors.New value never assigned / address-taken. Interleavings are not modelled; the dynamic part runs the harness under the Go race detector (N up to 64 goroutines, own Encoders/Decoders or one shared decoded value) and compares results with the sequential ones.",
         "proof over facts regenerated from the source (no mutable package state) + race-detector runs", "5 (C20)"),
 "C11": ("Stream theorem not yet proved (partial; Props/C11.v holds only totality). Decided on every run by: streams of 1..8 self-contained pickles (mixed protocols, hand-assembled programs leaving operands / marks / protocol number / buffer contents behind, pickles failing at their last byte, all ordered pairs of those) x 4 configs, each call compared with the same pickle decoded alone and with the decoder model threaded through the stream; earlier results re-dumped after the last call.",
         "executable decoder model threaded through streams + metamorphic comparison with stand-alone decoding (theorem pending)", "5 (C11)"),
 "C16": ("Typing invariant not yet proved (partial; Props/C16.v holds only totality). Decided on every run by walking every successful result and every Ref handed to PersistentLoad against the mode's type whitelist, over the C04 stream + MARK under every consuming opcode in every operand position + exhaustive opcode x small-stack sweep, x 4 configs x 4 PersistentLoad behaviours; full observations compared with the decoder model.",
         "executable decoder model + type-whitelist walk of implementation results (theorem pending)", "5 (C16)"),
 "C03": ("Round-trip theorem over all values: NOT yet proved (Props/C03.v holds only the encoder-outcome theorem and computed examples at all six protocols) - partial. The property is decided on every run by: encoder model = implementation on the bytes (order of dict entries normalised with pickletools), decoder model = implementation on those bytes, and the direct oracle Decode(Encode(v)) = documented normal form computed independently in Python, over canonical values and their non-canonical relatives x 6 protocols x StrictUnicode x PyDict, plus a before/after dump for 'Encode never modifies its argument'.",
         "executable Coq models of encoder and decoder tied to the code by differential runs + independent normal-form oracle (theorem pending)", "5 (C03)"),
 "C12": ("Theorems (Props/C12.v): a protocol outside 0..5 is rejected before any Write, for every value and Writer; a successful output is [PROTO p iff p>=2] body STOP. That body uses only opcodes of protocol <= p with a balanced stack is NOT yet a theorem (partial): it is decided on every run by scanning implementation and model output with CPython's pickletools (independent opcode table: introducing protocol, argument layout, stack effect; dis) for the gate matrix + random values x protocols -1..7 x StrictUnicode, and by loading protocol<=2 output under Python 2.7.",
         "proof of framing / rejection on the encoder model + independent opcode-table scan (pickletools) + Python 2 load", "5 (C12)"),
 "C13": ("Theorem C13_write_failure (Props/C13.v): for every configuration, value and k, if the k-th Write fails Encode returns the Writer's error and the Writes made are exactly the first k+1 of the unfailed run - a generic lemma of the writer monad the encoder model is written in. Tie: a Writer failing exactly at call k, for every k, over gate-matrix and random values x 6 protocols, plus buffering Writers.",
         "proof (generic writer-monad lemma by induction) + exhaustive write-index sweep on the implementation", "5 (C13)"),
 "C15": ("Theorem C15_no_panic (Props/C15.v): for every value of the reflect-level universe, every configuration and Writer behaviour, the encoder model never panics (induction over the value, every helper). Tie: values of types built with reflect.StructOf/ArrayOf/SliceOf/MapOf/pointers, a zoo of declared types with unexported/embedded/tagged fields, byte arrays by value, typed nil pointers, unsupported kinds, depth <= 4, x 6 protocols; outcome class compared with the model; TypeError kind checked.",
         "proof (structural induction over the value universe) + reflect-generated type zoo differential", "5 (C15)"),
 "C19": ("Theorem C19_helpers_by_type (Props/C19.v): AsString / AsBytes / AsInt64 accept exactly the documented result types and return the payload unchanged. That every integer opcode form decodes to a value with the right AsInt64 (decodeLong = two's complement, decimal parsing) is not yet a theorem (partial): decided by the run - exhaustive -2^12..2^12 (thorough 2^16), lattice to 2^70, LONG1 of every length 0..255, x every opcode form; payloads x 9 opcodes x StrictUnicode; two representations of one integer as Dict keys.",
         "proof on the typeconv model + exhaustive small-integer / every-LONG1-length sweep against model and expectation", "5 (C19)"),
 "C07": ("Theorems (Props/C07.v), for keys whose numbers are integers of any Go integer type / *big.Int / bool, the three string kinds, Tuples, None, Class, Call, Ref: equal() = Python's == ; equal keys feed identical bytes to maphash (any seed, any hash function); a Dict holding a finds it under b iff a == b for every slot order. Keys with float/complex parts: decided by the correspondence run only (partial). Tie: ~6*10^4 ordered pairs of a boundary lattice against the model AND against CPython's own ==, plus black-box lookups in up to 4096 freshly seeded Dicts.",
         "proof (structural induction over keys, exact integer arithmetic) + lattice differential against model and CPython + seeded black-box lookups", "5 (C07)"),
 "C08": ("Theorems (Props/C08.v), integer-fragment keys, every slot order: after ANY history the Dict model's entry list equals the reference dictionary's (Set/Del remove every equal entry, Len/Iter), no two stored keys equal, Get = reference Get when at most one stored key equals the query and otherwise the value of some equal entry; the full 'most recent' statement is refuted by a vm_compute witness (known finding nontransitive_multi_match). Tie: exhaustive histories over the 10-key colliding alphabet (length <=3 quick, <=4 thorough) and long random histories against extracted RefDict and Dict model.",
         "proof (refinement to a reference dictionary by induction over histories) + exhaustive short histories + long random histories", "5 (C08)"),
 "C17": ("Theorem C17_api (Props/C17.v): for every Dict state, slot order and key the hash rejects, Get/Set/Del panic before reading or writing any entry (also on the empty Dict). Decode half: decided by generated programs (unhashable object at depth 0..3 in Tuple/Call/Ref x DICT/SETITEM/SETITEMS x 4 configs) on implementation and model; the decoder-side theorem is part of C04 (no panic) - an explicit 'returns an error' theorem for the three handlers is not yet stated (partial).",
         "proof on the Dict model + generated unhashable-key programs and direct API calls with before/after comparison", "5 (C17)"),
 "C04": ("Theorems (Props/C04.v): for every byte string, configuration and decoder state the model of Decode never panics, never exhausts fuel length+1 (each loop iteration consumes a byte), reports every undispatched opcode byte as OpcodeError{byte,index} and PROTO>5 as ErrInvalidPickleVersion. Tie: outcome classes of model and implementation compared on corpus, grammar programs, mutations, opcode soup, length bombs, all 256 bytes x4 configs; direct oracle on the implementation: recover, timeout, TotalAlloc envelope. The memory clause is partial: it is measured on the implementation (envelope 1 KiB/byte + 2 MiB), not proved.",
         "proof over the decoder model (induction on fuel / free-monad structure) + differential correspondence + allocation metering", "5 (C04)"),
 "C10": ("Theorem C10_truncation (Props/C10.v): for every config, state, accepted pickle p and proper prefix q, the model's Decode on q yields io.EOF (q empty) or io.ErrUnexpectedEOF, no value, all of q consumed - by a generic prefix-monotonicity lemma of the reader monad lifted through the instruction loop. Tie and direct oracle: every cut of generated/valid corpus pickles x4 configs on the implementation, classes compared with the model.",
         "proof (prefix-monotonicity of the free reader monad, induction on fuel) + all-cuts sweep on the implementation", "5 (C10)"),
}

checks = []
for p in props:
    pid = p["id"]
    if pid in CLAIMED:
        text, tech, ref = CLAIMED[pid]
        checks.append({
            "property_id": pid,
            "quick_cmd": "bin/check %s --tier quick" % pid,
            "thorough_cmd": "bin/check %s --tier thorough" % pid,
            "evidence_file": "/verif/evidence/%s.json" % pid,
            "replay_cmd_template": "bin/replay {path}",
            "engine": "coq-model+correspondence",
            "level_claimed": {"category": "proof", "text": text, "design_ref": "DESIGN.md section " + ref},
            "level_note": NOTE,
            "technique": tech})
na = [{"property_id": p["id"], "reason": "check not built yet in this session (work in progress; will be claimed)"}
      for p in props if p["id"] not in CLAIMED]
hooks_commits = []
try:
    import subprocess
    out = subprocess.run(["git", "-C", "/repo", "log", "--format=%H %s"], capture_output=True, text=True).stdout
    hooks_commits = [l.split()[0] for l in out.splitlines() if " verif:" in l]
except Exception:
    pass
m = {"version": 1, "setup_cmd": "bin/setup",
     "hooks": {"guard": "verif (Go build tag)", "enable": "go build -tags verif (harness module ogverif: replace github.com/kisielk/og-rek => /repo)",
               "baseline_off_cmd": "cd /repo && GOFLAGS=-mod=mod GOPROXY=off go test -vet=off -count=1 ./...",
               "source_commits": hooks_commits, "add_only": True},
     "engines": [{"name": "coq-model+correspondence", "path": "coq/ ocaml/ harness/",
                  "serves_properties": sorted(CLAIMED), "kind_free_text": "Coq 8.16 theorems about a hand-written executable model; OCaml extraction; Go/Python differential harness"}],
     "checks": checks,
     "notes": "see DESIGN.md; known findings in known_findings.txt",
     "not_applicable": na}
json.dump(m, open(os.path.join(V, "MANIFEST.json"), "w"), indent=1)
print("claimed:", sorted(CLAIMED), "unclaimed:", len(na))
