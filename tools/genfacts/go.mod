module genfacts
go 1.18
