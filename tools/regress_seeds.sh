#!/bin/bash
# usage: tools/regress_seeds.sh [seeded/<id>-k ...]   (run from the verif directory; all seeds when none is named)
# Applies each stored seeded change to the repository (VERIF_REPO, default /repo), runs the quick check of its own
# property and reports whether a VIOLATION was raised.  The repository is reverted after each one.
V=$(pwd); R=${VERIF_REPO:-/repo}
[ $# -eq 0 ] && set -- seeded/*/
det=0; miss=0
rm -rf $V/.evidence_keep && cp -r $V/evidence $V/.evidence_keep
for D in "$@"; do
  D=${D%/}; id=$(basename $D | cut -d- -f1)
  if ! git -C $R apply --check $V/$D/patch.diff 2>/dev/null; then echo "$D: patch does not apply"; continue; fi
  git -C $R apply $V/$D/patch.diff
  out=$(bin/check $id 2>&1)
  git -C $R checkout -- .
  if echo "$out" | grep -q "^VIOLATION"; then det=$((det+1)); echo "$D: detected"; else miss=$((miss+1)); echo "$D: MISSED"; fi
done
rm -rf $V/evidence && mv $V/.evidence_keep $V/evidence
echo "$det detected, $miss missed"
