#!/bin/bash
# usage: verify_seed.sh <dir with patch.diff + demo_test.go>
# In a scratch worktree of /repo HEAD: suite passes with the patch; demo fails with it, passes without.
set -u
D=$1
export GOFLAGS=-mod=mod GOPROXY=off GOSUMDB=off GOTOOLCHAIN=local
WT=/tmp/vseed_$$
git -C /repo worktree add -q --detach $WT HEAD || exit 2
cd $WT
res=""
if ! git apply --check $D/patch.diff 2>/dev/null; then echo "PATCH-DOES-NOT-APPLY"; git -C /repo worktree remove --force $WT; exit 3; fi
cp $D/demo_test.go $WT/zz_demo_test.go
name=$(grep -o 'func Test[A-Za-z0-9_]*' $D/demo_test.go | head -1 | sed 's/func //')
go test -vet=off -count=1 -run "^${name}\$" . >/tmp/vseed_$$.out0 2>&1; r0=$?
git apply $D/patch.diff
go test -vet=off -count=1 -run "^${name}\$" . >/tmp/vseed_$$.out1 2>&1; r1=$?
rm -f $WT/zz_demo_test.go
go test -vet=off -count=1 ./... >/tmp/vseed_$$.out2 2>&1; r2=$?
echo "demo_without_patch=$r0 demo_with_patch=$r1 suite_with_patch=$r2 test=$name"
tail -3 /tmp/vseed_$$.out1 | cut -c1-200
cd /; git -C /repo worktree remove --force $WT; rm -f /tmp/vseed_$$.out*
[ $r0 -eq 0 ] && [ $r1 -ne 0 ] && [ $r2 -eq 0 ]
