(* modelrun — driver around the code extracted from the Coq model (model.ml).
   Reads one case per line on stdin, prints one observation per line on stdout.
   Only glue lives here: hex and decimal I/O, the value syntax parser, dispatch. *)
open Model
type string = Stdlib.String.t
type nat = Model.nat

(* ---- numbers ------------------------------------------------------------ *)
let rec pos_of_int (i : int) : positive =
  if i = 1 then XH
  else if i land 1 = 0 then XO (pos_of_int (i lsr 1))
  else XI (pos_of_int (i lsr 1))
let n_of_int (i : int) : n = if i = 0 then N0 else Npos (pos_of_int i)
let rec int_of_pos (p : positive) : int =
  match p with XH -> 1 | XO q -> 2 * int_of_pos q | XI q -> 2 * int_of_pos q + 1
let int_of_n (x : n) : int = match x with N0 -> 0 | Npos p -> int_of_pos p
let rec nat_of_int (i : int) : nat = if i <= 0 then O else S (nat_of_int (i - 1))
let rec int_of_nat (x : nat) : int = match x with O -> 0 | S y -> 1 + int_of_nat y

let z_ten = Zpos (pos_of_int 10)
let z_of_int (i : int) : z =
  if i = 0 then Z0 else if i > 0 then Zpos (pos_of_int i) else Zneg (pos_of_int (- i))
(* decimal text -> Z, arbitrary size *)
let z_of_dec (s : string) : z =
  let neg = String.length s > 0 && s.[0] = '-' in
  let start = if neg || (String.length s > 0 && s.[0] = '+') then 1 else 0 in
  let acc = ref Z0 in
  for i = start to String.length s - 1 do
    let d = Char.code s.[i] - 48 in
    if d < 0 || d > 9 then failwith ("bad decimal: " ^ s);
    acc := Z.add (Z.mul !acc z_ten) (z_of_int d)
  done;
  if neg then Z.opp !acc else !acc
let n_of_dec (s : string) : n = Z.to_N (z_of_dec s)

(* ---- bytes -------------------------------------------------------------- *)
let byte_tab : byte array = Array.init 256 (fun i -> n2b (n_of_int i))
let byte_of_char (c : char) : byte = byte_tab.(Char.code c)
let char_of_byte (b : byte) : char = Char.chr (int_of_n (b2N b))
let bytes_of_string (s : string) : byte list =
  let r = ref [] in
  for i = String.length s - 1 downto 0 do r := byte_of_char s.[i] :: !r done; !r
let string_of_bytes (l : byte list) : string =
  let b = Buffer.create 64 in
  List.iter (fun x -> Buffer.add_char b (char_of_byte x)) l; Buffer.contents b
let hexval c =
  match c with
  | '0'..'9' -> Char.code c - 48
  | 'a'..'f' -> Char.code c - 87
  | 'A'..'F' -> Char.code c - 55
  | _ -> failwith "bad hex"
let unhex_string (s : string) : string =
  let n = String.length s / 2 in
  String.init n (fun i -> Char.chr (hexval s.[2*i] * 16 + hexval s.[2*i+1]))
let bytes_of_hex (s : string) : byte list = bytes_of_string (unhex_string s)
let hex_of_blist (l : byte list) : string =
  let b = Buffer.create 64 in
  List.iter (fun x -> Buffer.add_string b (Printf.sprintf "%02x" (int_of_n (b2N x)))) l;
  Buffer.contents b
(* 64-bit patterns do not fit OCaml's 63-bit int: go through hex -> N via bytes *)
let n_of_hex (s : string) : n =
  let acc = ref N0 in
  String.iter (fun c -> acc := N.add (N.mul !acc (n_of_int 16)) (n_of_int (hexval c))) s; !acc

(* ---- value syntax --------------------------------------------------------- *)
(* tokens are whitespace separated; see harness/README for the grammar *)
let split_ws (s : string) : string list =
  List.filter (fun x -> x <> "") (String.split_on_char ' ' s)

let after (tok : string) (pfx : string) : string =
  String.sub tok (String.length pfx) (String.length tok - String.length pfx)
let starts (tok : string) (pfx : string) : bool =
  String.length tok >= String.length pfx && String.sub tok 0 (String.length pfx) = pfx

let next_id = ref 1000000
let fresh_id () = incr next_id; n_of_int !next_id

(* heap built while parsing m{ } / d{ } literals *)
let parse_heap : heap ref = ref []

let rec parse_val (toks : string list) : val0 * string list =
  match toks with
  | [] -> failwith "value expected"
  | t :: rest ->
    if t = "N" then (VNone, rest)
    else if t = "T" then (VBool true, rest)
    else if t = "F" then (VBool false, rest)
    else if t = "MARK" then (VMark, rest)
    else if t = "NIL" then (VMark, rest)   (* a nil Dict value: opaque to the Dict; printed as MARK, mapped back by the harness *)
    else if starts t "i:" then (VInt (z_of_dec (after t "i:")), rest)
    else if starts t "i8:" then (VInt (z_of_dec (after t "i8:")), rest)
    else if starts t "i16:" then (VInt (z_of_dec (after t "i16:")), rest)
    else if starts t "i32:" then (VInt (z_of_dec (after t "i32:")), rest)
    else if starts t "i0:" then (VInt (z_of_dec (after t "i0:")), rest)
    else if starts t "u:" then (VUint (z_of_dec (after t "u:")), rest)
    else if starts t "u8:" then (VUint (z_of_dec (after t "u8:")), rest)
    else if starts t "u16:" then (VUint (z_of_dec (after t "u16:")), rest)
    else if starts t "u32:" then (VUint (z_of_dec (after t "u32:")), rest)
    else if starts t "u0:" then (VUint (z_of_dec (after t "u0:")), rest)
    else if starts t "L:" then (VBig (fresh_id (), z_of_dec (after t "L:")), rest)
    else if starts t "f:" then (VFloat (n_of_hex (after t "f:")), rest)
    else if starts t "f32:" then (VFloat (f32_to_f64 (n_of_hex (after t "f32:"))), rest)
    else if starts t "x:" then begin
      match String.split_on_char ',' (after t "x:") with
      | [a; b] -> (VComplex (n_of_hex a, n_of_hex b), rest)
      | _ -> failwith "bad complex" end
    else if starts t "x32:" then begin
      match String.split_on_char ',' (after t "x32:") with
      | [a; b] -> (VComplex (f32_to_f64 (n_of_hex a), f32_to_f64 (n_of_hex b)), rest)
      | _ -> failwith "bad complex64" end
    else if starts t "s:" then (VStr (bytes_of_hex (after t "s:")), rest)
    else if starts t "z:" then (VBStr (bytes_of_hex (after t "z:")), rest)
    else if starts t "b:" then (VBytes (bytes_of_hex (after t "b:")), rest)
    else if starts t "a:" then (VBArr (bytes_of_hex (after t "a:")), rest)
    else if starts t "U:" then (VUser (n_of_dec (after t "U:")), rest)
    else if starts t "g:" then begin
      match String.split_on_char ':' t with
      | [_; m; nm] -> (VClass (bytes_of_hex m, bytes_of_hex nm), rest)
      | _ -> failwith "bad class" end
    else if t = "l[" then
      let (items, rest') = parse_until "]" rest in (VList (fresh_id (), items), rest')
    else if t = "tnil" then (VTuple [], rest)
    else if t = "t(" then
      let (items, rest') = parse_until ")" rest in (VTuple items, rest')
    else if t = "m{" || t = "d{" then begin
      let (items, rest') = parse_until "}" rest in
      let rec pairs l = match l with
        | k :: v :: tl -> (k, v) :: pairs tl | [] -> [] | _ -> failwith "odd map literal" in
      let id = fresh_id () in
      let es = pairs items in
      if t = "m{" then begin
        parse_heap := heap_set !parse_heap id (HMap es); (VMap id, rest') end
      else begin
        parse_heap := heap_set !parse_heap id (HDict es); (VDict id, rest') end end
    else if t = "C(" then begin
      let (c, r1) = parse_val rest in
      let (a, r2) = parse_val r1 in
      match c, a, r2 with
      | VClass (m, nm), VTuple args, ")" :: r3 -> (VCall (m, nm, args), r3)
      | _ -> failwith "bad call" end
    else if t = "R(" then begin
      let (p, r1) = parse_val rest in
      match r1 with ")" :: r2 -> (VRef p, r2) | _ -> failwith "bad ref" end
    else failwith ("bad token: " ^ t)
and parse_until (close : string) (toks : string list) : val0 list * string list =
  match toks with
  | [] -> failwith ("missing " ^ close)
  | t :: rest when t = close -> ([], rest)
  | _ -> let (v, r1) = parse_val toks in
         let (vs, r2) = parse_until close r1 in (v :: vs, r2)

(* ---- encoder-side values (rval) ---------------------------------------------------------- *)
let is_struct_rval (v : rval) : bool =
  match v with
  | RNone | RClass _ | RCall _ | RRef _ | RBig _ | RStruct _ | RDict _ -> true
  | _ -> false

let sfield name exported tag v = SField (bytes_of_string name, exported, bytes_of_string tag, v)
let rint i = RInt (z_of_int i)

let rec parse_rval (toks : string list) : rval * string list =
  match toks with
  | [] -> failwith "rvalue expected"
  | t :: rest ->
    let hexarg pfx = bytes_of_hex (after t pfx) in
    if t = "NIL" then (RInvalid, rest)
    else if t = "N" then (RNone, rest)
    else if t = "T" then (RBool true, rest)
    else if t = "F" then (RBool false, rest)
    else if t = "chan" then (RUnsup UChan, rest)
    else if t = "func" then (RUnsup UFunc, rest)
    else if t = "uptr" then (RUnsup UUintptr, rest)
    else if t = "unsafeptr" then (RUnsup UUnsafePointer, rest)
    else if starts t "x32:" then (RUnsup UComplex64, rest)
    else if starts t "x:" then (RUnsup UComplex128, rest)
    else if starts t "i:" || starts t "i8:" || starts t "i16:" || starts t "i32:" || starts t "i0:" then
      (RInt (z_of_dec (List.nth (String.split_on_char ':' t) 1)), rest)
    else if starts t "u:" || starts t "u8:" || starts t "u16:" || starts t "u32:" || starts t "u0:" then
      (RUint (z_of_dec (List.nth (String.split_on_char ':' t) 1)), rest)
    else if starts t "f32:" then (RFloat (f32_to_f64 (n_of_hex (after t "f32:"))), rest)
    else if starts t "f:" then (RFloat (n_of_hex (after t "f:")), rest)
    else if starts t "ns:" then (RStr (SNamed, hexarg "ns:"), rest)
    else if starts t "s:" then (RStr (SPlain, hexarg "s:"), rest)
    else if starts t "y:" then (RStr (SUnicode, hexarg "y:"), rest)
    else if starts t "b:" then (RStr (SBytes, hexarg "b:"), rest)
    else if starts t "z:" then (RStr (SByteString, hexarg "z:"), rest)
    else if starts t "na:" then (RByteSeq (hexarg "na:"), rest)
    else if starts t "nb:" then (RByteSeq (hexarg "nb:"), rest)
    else if starts t "a:" then (RByteSeq (hexarg "a:"), rest)
    else if starts t "A:" then (RByteSeq (hexarg "A:"), rest)
    else if starts t "Lv:" then (RBig (z_of_dec (after t "Lv:")), rest)
    else if starts t "L:" then (RPtr (true, None, RBig (z_of_dec (after t "L:"))), rest)
    else if starts t "nilp:" then (RNilPtr, rest)
    else if starts t "g:" then begin
      match String.split_on_char ':' t with
      | [_; m; nm] -> (RClass (bytes_of_hex m, bytes_of_hex nm), rest)
      | _ -> failwith "bad class" end
    else if starts t "U:" then
      (* harness type UserObj{Tag int}: an ordinary struct with one exported field *)
      (RStruct [sfield "Tag" true "" (RInt (z_of_dec (after t "U:")))], rest)
    else if t = "tnil" then (RTuple [], rest)
    else if t = "t(" then let (l, r) = parse_rvals ")" rest in (RTuple l, r)
    else if t = "l[" || t = "ar[" || t = "ts[" then let (l, r) = parse_rvals "]" rest in (RList l, r)
    else if t = "m{" || t = "tm{" || t = "d{" then begin
      let (l, r) = parse_rvals "}" rest in
      let rec pairs l = match l with
        | k :: v :: tl -> (k, v) :: pairs tl | [] -> [] | _ -> failwith "odd map literal" in
      ((if t = "d{" then RDict (pairs l) else RMap (pairs l)), r) end
    else if t = "C(" then begin
      let (c, r1) = parse_rval rest in
      let (a, r2) = parse_rval r1 in
      match c, a, r2 with
      | RClass (m, nm), RTuple args, ")" :: r3 -> (RCall (m, nm, args), r3)
      | _ -> failwith "bad call" end
    else if t = "R(" then begin
      let (p, r1) = parse_rval rest in
      match r1 with ")" :: r2 -> (RRef p, r2) | _ -> failwith "bad ref" end
    else if t = "st{" then begin
      let rec fields toks =
        match toks with
        | "}" :: r -> ([], r)
        | "F" :: name :: tag :: r ->
          let (v, r1) = parse_rval r in
          let (fs, r2) = fields r1 in
          let dash x = if x = "-" then [] else bytes_of_hex x in
          (SField (dash name, true, dash tag, v) :: fs, r2)
        | _ -> failwith "bad struct literal" in
      let (fs, r) = fields rest in (RStruct fs, r) end
    else if starts t "zoo:" then parse_zoo (after t "zoo:") rest
    else if t = "p&(" then begin
      let (v, r1) = parse_rval rest in
      match r1 with ")" :: r2 -> (RPtr (is_struct_rval v, None, v), r2) | _ -> failwith "bad ptr" end
    else if t = "P&(" then begin
      let (pid, r0) = parse_rval rest in
      let (v, r1) = parse_rval r0 in
      match r1 with ")" :: r2 -> (RPtr (is_struct_rval v, Some pid, v), r2) | _ -> failwith "bad Ptr" end
    else failwith ("bad rvalue token: " ^ t)
and parse_rvals (close : string) (toks : string list) : rval list * string list =
  match toks with
  | [] -> failwith ("missing " ^ close)
  | t :: rest when t = close -> ([], rest)
  | _ -> let (v, r1) = parse_rval toks in
         let (vs, r2) = parse_rvals close r1 in (v :: vs, r2)
and parse_zoo (name : string) (toks : string list) : rval * string list =
  let toks = (match toks with "(" :: r -> r | _ -> failwith "zoo: ( expected") in
  let (args, rest) = parse_rvals ")" toks in
  let nth i = List.nth args i in
  let zooD v = RStruct [sfield "V" true "" v] in
  let zooB x y z = RStruct [sfield "X" true "" x; sfield "y" false "" y; sfield "Z" true "" z] in
  let nil_to d v = (match v with RInvalid -> d | _ -> v) in
  let pad2 v = (match v with
      | RStr (_, s) -> let l = List.length s in
        let s2 = (if l >= 2 then [List.nth s 0; List.nth s 1] else s @ (if l = 1 then [n2b N0] else [n2b N0; n2b N0])) in
        RByteSeq s2
      | _ -> failwith "zoo F: g") in
  let v = (match name with
    | "A" -> RStruct [sfield "a" false "a" (nth 0); sfield "B" true "b" (nth 1)]
    | "B" -> zooB (nth 0) (nth 1) (nth 2)
    | "C" -> RStruct [sfield "zooB" false "" (zooB (nth 0) (nth 1) (nth 2)); sfield "W" true "" (nth 3)]
    | "E" -> RStruct [sfield "ZooD" true "" (zooD (nth 0)); sfield "U" true "" (nth 1)]
    | "F" -> RStruct [sfield "a" false "a" (nil_to (RList []) (nth 0));
                      sfield "b" false "b" (RPtr (true, None, zooD (nth 1)));
                      sfield "c" false "c" (nil_to (RMap []) (nth 2));
                      sfield "d" false "d" (zooD (nth 3));
                      sfield "e" false "e" (nth 4);
                      sfield "f" false "f" (nil_to (RTuple []) (nth 5));
                      sfield "g" false "g" (pad2 (nth 6))]
    | "G" -> RStruct [sfield "A" true "k" (nth 0); sfield "B" true "k" (nth 1); sfield "C" true "" (nth 2)]
    | "H" -> RStruct [sfield "a" false "a" (nth 0); sfield "b" false "b" (nth 1); sfield "c" false "c" (nth 2);
                      sfield "d" false "d" (nth 3);
                      sfield "e" false "e" (match nth 4 with RStr (_, s) -> RStr (SNamed, s) | x -> x)]
    | "L1" -> RStruct [sfield "x" false "a" (nth 0); sfield "Y" true "b" (nth 1)]
    | "L2" -> RStruct [sfield "P" true "" (nth 0); sfield "Q" true "" (nth 1); sfield "R" true "" (nth 2);
                       sfield "Y" true "b" (nth 3); sfield "x" false "a" (nth 4)]
    | _ -> failwith ("unknown zoo type " ^ name)) in
  (v, rest)

(* oracles read once from files named in the environment *)
let isprint_ranges : (int * int) array =
  match Sys.getenv_opt "VERIF_ISPRINT" with
  | None -> [||]
  | Some path ->
    let ic = open_in path in
    let line = (try input_line ic with End_of_file -> "") in
    close_in ic;
    Array.of_list (List.filter_map (fun r ->
        match String.split_on_char '-' r with
        | [a; b] -> Some (int_of_string a, int_of_string b)
        | _ -> None) (String.split_on_char ',' line))
let is_print_hi (r : n) : bool =
  let x = int_of_n r in
  let lo = ref 0 and hi = ref (Array.length isprint_ranges - 1) and res = ref false in
  while !lo <= !hi do
    let mid = (!lo + !hi) / 2 in
    let (a, b) = isprint_ranges.(mid) in
    if x < a then hi := mid - 1 else if x > b then lo := mid + 1 else (res := true; lo := !hi + 1)
  done; !res
let fmtg_tab : (string, string) Hashtbl.t =
  let h = Hashtbl.create 64 in
  (match Sys.getenv_opt "VERIF_FMTG" with
   | None -> ()
   | Some path ->
     let ic = open_in path in
     (try while true do
          let l = input_line ic in
          match String.split_on_char ' ' l with
          | [bits; txt] -> Hashtbl.replace h bits (unhex_string txt)
          | _ -> ()
        done with End_of_file -> ());
     close_in ic);
  h
let fmt_g (bits : n) : byte list =
  let key = hex_of_blist (be_encode (nat_of_int 8) bits) in
  match Hashtbl.find_opt fmtg_tab key with
  | Some s -> bytes_of_string s
  | None -> bytes_of_string ("<no-fmtg-" ^ key ^ ">")

let eerr_class (e : eerr) : string =
  match e with
  | ETypeErr k -> "type:" ^ (match k with
      | UChan -> "chan" | UFunc -> "func" | UComplex64 -> "complex64" | UComplex128 -> "complex128"
      | UUintptr -> "uintptr" | UUnsafePointer -> "unsafe.Pointer")
  | EP0Unicode -> "p0unicode" | EP0Persid -> "p0persid" | EP0123Global -> "p0123global"
  | EBadProto -> "other"

let run_enc (proto : string) (su : string) (failat : string) (toks : string list) : string =
  let (v, _) = parse_rval toks in
  let cfg = { e_proto = z_of_dec proto; e_strict = (su = "1"); e_isprint = is_print_hi; e_fmtg = fmt_g } in
  let fa = (if failat = "-" then None else Some (nat_of_int (int_of_string failat))) in
  let (ws, r) = run_w (encode cfg v) fa in
  let all = List.concat ws in
  let tail = Printf.sprintf " #writes=%d" (List.length ws) in
  match r with
  | EOk -> "ok " ^ hex_of_blist all ^ tail
  | EErr e -> "err " ^ eerr_class e ^ " " ^ hex_of_blist all ^ tail
  | EWriteErr -> "writeerr returned=1" ^ tail
  | EPanic -> "panic" ^ tail

(* the round-trip theorem's prediction: norm c v, printed like a decoded value *)
let run_norm (proto : string) (su : string) (toks : string list) : string =
  let (v, _) = parse_rval toks in
  let cfg = { e_proto = z_of_dec proto; e_strict = (su = "1"); e_isprint = is_print_hi; e_fmtg = fmt_g } in
  match norm cfg v with
  | None -> "NA"
  | Some t ->
    (match dump_val_capped [] (unerase t) with
     | None -> "ok TOOBIG"
     | Some d -> "ok " ^ string_of_bytes d)

(* the round-trip theorem with maps / Dicts / structs (NormMaps.norm2): the predicted content is
   materialised as a value over a fresh heap (ids only name the objects) and printed like a
   decoded value *)
let materialise (cvl : cv) : val0 * heap =
  let heap = ref [] and next = ref 0 in
  let rec go (x : cv) : val0 =
    match x with
    | CLeaf t -> unerase t
    | CList l -> VList (n_of_int 0, List.map go l)
    | CTuple l -> VTuple (List.map go l)
    | CCall (m, n, l) -> VCall (m, n, List.map go l)
    | CMap es ->
      let id = n_of_int !next in incr next;
      let es' = List.map (fun (k, v) -> (go k, go v)) es in
      heap := heap_set !heap id (HMap es'); VMap id
    | CDict es ->
      let id = n_of_int !next in incr next;
      let es' = List.map (fun (k, v) -> (go k, go v)) es in
      heap := heap_set !heap id (HDict es'); VDict id in
  let v = go cvl in (v, !heap)

let run_norm2 (proto : string) (pd : string) (su : string) (hook : bool) (toks : string list) : string =
  let (v, _) = parse_rval toks in
  let cfg = { e_proto = z_of_dec proto; e_strict = (su = "1"); e_isprint = is_print_hi; e_fmtg = fmt_g } in
  match norm2 cfg (pd = "1") (if hook then inv_g else (fun t -> TRef t)) v with
  | None -> "NA"
  | Some cvl ->
    let (x, h) = materialise cvl in
    (match dump_val_capped h x with
     | None -> "ok TOOBIG"
     | Some d -> "ok " ^ string_of_bytes d)

(* C18's theorem: what Decode with the registry hook returns for Encode's output *)
let run_normh (proto : string) (su : string) (toks : string list) : string =
  let (v, _) = parse_rval toks in
  let cfg = { e_proto = z_of_dec proto; e_strict = (su = "1"); e_isprint = is_print_hi; e_fmtg = fmt_g } in
  match norm cfg v with
  | None -> "NA"
  | Some t ->
    (match dump_val_capped [] (unerase (hmap inv_g t)) with
     | None -> "ok TOOBIG"
     | Some d -> "ok " ^ string_of_bytes d)

(* C05's theorem: decode, reify the result, encode it again (NA outside the theorem's fragment) *)
let run_reenc (proto : string) (pd : string) (su : string) (hex : string) : string =
  let ecfg = { e_proto = z_of_dec proto; e_strict = (su = "1"); e_isprint = is_print_hi; e_fmtg = fmt_g } in
  let dcfg = { c_pydict = (pd = "1"); c_strict = (su = "1"); c_load = None } in
  match decode dcfg init_state (bytes_of_hex hex) with
  | ((Ok v, _), _) ->
    (match erase v, reify v with
     | Some t, Some r when fits_proto ecfg t ->
       let (ws, res) = run_w (encode ecfg r) None in
       (match res with
        | EOk -> "ok " ^ hex_of_blist (List.concat ws)
        | _ -> "encfail")
     | _ -> "NA")
  | _ -> "NA"

(* C05 with maps (Props/C05.v, C05_redecode_with_maps_computed): decode, reflect the result through the
   heap with every map iterated in the REVERSE of the stored order (a reflection that differs from
   insertion order), norm2 of that reflection, printed like a decoded value.
   NA: decode failed, the result is cyclic / too deep, or norm2 is undefined at this protocol *)
let reflect_rev (h : heap) (v : val0) : rval option =
  (* NormMaps.reflect, extracted: reverse stored order, nesting depth <= 60 (ReflectFacts.reflect_sound) *)
  reflect (nat_of_int 60) true h v

let run_reenc2 (proto : string) (pd : string) (su : string) (hex : string) : string =
  let ecfg = { e_proto = z_of_dec proto; e_strict = (su = "1"); e_isprint = is_print_hi; e_fmtg = fmt_g } in
  let dcfg = { c_pydict = (pd = "1"); c_strict = (su = "1"); c_load = None } in
  match decode dcfg init_state (bytes_of_hex hex) with
  | ((Ok v, st1), _) ->
    (match reflect_rev st1.d_heap v with
     | None -> "NA"
     | Some r ->
       (match norm2 ecfg (pd = "1") (fun t -> TRef t) r with
        | None -> "NA"
        | Some cvl ->
          let (x, h) = materialise cvl in
          (match dump_val_capped h x with
           | None -> "ok TOOBIG"
           | Some d -> "ok " ^ string_of_bytes d)))
  | _ -> "NA"

(* C12: the instruction list of Encode's output: per instruction  asmhex:iproto:delta:need
   delta / need describe sd_step: need = objects required below (or "mark"), delta = net effect *)
let int_of_z (z : z) : int = match z with Z0 -> 0 | Zpos p -> int_of_pos p | Zneg p -> - (int_of_pos p)
let insn_sig (i : insn) : string =
  let rec falses k = if k = 0 then [] else false :: falses (k - 1) in
  let rec need k = if k > 4 then None else
      (match sd_step i (falses k) with Some s -> Some (k, List.length s - k) | None -> need (k + 1)) in
  match i with
  | IStop -> "1:-1"
  | _ ->
    match need 0 with
    | Some (k, d) -> Printf.sprintf "%d:%d" k d
    | None ->
      (match sd_step i (false :: false :: true :: false :: []) with
       | Some s -> Printf.sprintf "mark:%d" (List.length s)   (* [obj; obj; mark; obj] -> ? *)
       | None -> "never")
let run_prog (proto : string) (su : string) (toks : string list) : string =
  let (v, _) = parse_rval toks in
  let cfg = { e_proto = z_of_dec proto; e_strict = (su = "1"); e_isprint = is_print_hi; e_fmtg = fmt_g } in
  let (_, r) = run_w (encode cfg v) None in
  match r with
  | EOk ->
    let pr = program cfg v in
    "ok " ^ String.concat " " (List.map (fun i ->
        Printf.sprintf "%s:%d:%s" (hex_of_blist (asm i)) (int_of_z (iproto i)) (insn_sig i)) pr)
    ^ (if sd_run pr [] then " #wf" else " #illformed")
  | _ -> "NA"

(* C01: the documented Python value (PyVal.pyval_of) and what the CPython machine (PyVM.pyload)
   loads from the program of Encode's output, in the harness value syntax *)
let rec dump_pv (b : Buffer.t) (v : pv) : unit =
  let tok s = Buffer.add_string b s; Buffer.add_char b ' ' in
  match v with
  | PNone -> tok "N"
  | PBool true -> tok "T" | PBool false -> tok "F"
  | PInt z -> tok ("i:" ^ string_of_bytes (dec_of_Z z))
  | PFloat f -> tok ("f:" ^ hex_of_blist (be_encode (nat_of_int 8) f))
  | PUni s -> tok ("s:" ^ hex_of_blist s)
  | PStr s -> tok ("z:" ^ hex_of_blist s)
  | PBytes s -> tok ("b:" ^ hex_of_blist s)
  | PBArr s -> tok ("a:" ^ hex_of_blist s)
  | PTuple l -> tok "t("; List.iter (dump_pv b) l; tok ")"
  | PList l -> tok "l["; List.iter (dump_pv b) l; tok "]"
  | PDict tr -> tok "d{"; List.iter (fun (k, x) -> dump_pv b k; dump_pv b x) (pd_merge tr); tok "}"
  | PGlobal (m, n) -> tok ("g:" ^ hex_of_blist m ^ ":" ^ hex_of_blist n)
  | PCall (f, args) -> tok "C("; dump_pv b f; tok "t("; List.iter (dump_pv b) args; tok ")"; tok ")"
  | PPers p -> tok "R("; dump_pv b p; tok ")"
let show_pv (v : pv) : string = let b = Buffer.create 64 in dump_pv b v; String.trim (Buffer.contents b)
let run_pyload (proto : string) (su : string) (toks : string list) : string =
  let (v, _) = parse_rval toks in
  let cfg = { e_proto = z_of_dec proto; e_strict = (su = "1"); e_isprint = is_print_hi; e_fmtg = fmt_g } in
  match pyval_of cfg v with
  | None -> "NA"
  | Some x ->
    let loaded = (match pyload (program cfg v) with Some y -> show_pv y | None -> "FAIL") in
    let doc = show_pv x in
    if loaded = doc then "ok " ^ doc else "THEOREM-MISMATCH documented=" ^ doc ^ " loaded=" ^ loaded

let parse_one (toks : string list) : val0 * string list =
  parse_val toks

(* ---- observations ----------------------------------------------------------- *)
let err_class (e : err) : string =
  match e with
  | EEOF -> "eof" | EUnexpectedEOF -> "ueof"
  | EOpcode (b, pos) -> Printf.sprintf "opcode:%d:%d" (int_of_n (b2N b)) (int_of_n pos)
  | EBadVersion -> "badversion" | EUnderflow -> "underflow" | ENoMarker -> "nomarker"
  | EMarkUse -> "markuse" | ESyntax -> "syntax" | ENumError -> "numerror" | EOther -> "other"

let show_res (show : 'a -> string) (r : 'a res) : string =
  match r with
  | Ok a -> "ok " ^ show a
  | Err e -> "err " ^ err_class e
  | Panic -> "panic"
  | OutOfFuel -> "oof"

(* PersistentLoad scripts shared with implrun.  The hook is an OCaml closure: it also records
   the Refs it is called with, so that the call log is observable even when Decode later fails
   in the reader (the model drops its state on that path). *)
let load_calls : val0 list ref = ref []
let load_hook (mode : int) : (n -> val0 -> load_result) option =
  let logged f = Some (fun idx pid -> load_calls := VRef pid :: !load_calls; f idx pid) in
  match mode with
  | 0 -> None
  | 1 -> logged (fun _ _ -> LNil)
  | 2 -> logged (fun idx _ -> LObj (VUser idx))
  | 3 -> logged (fun idx _ ->
           match int_of_n idx mod 3 with 0 -> LObj (VUser idx) | 1 -> LNil | _ -> LErr)
  | 4 -> logged (fun idx pid -> match pid with VStr _ -> LObj (VUser idx) | _ -> LNil)
  | 6 -> logged (fun idx _ -> if int_of_n idx mod 2 = 1 then LErr else LObj (VUser idx))   (* an object AND an error: the error counts *)
  | 5 -> logged inv_load        (* the registry hook of Model/Norm.v (hook_spec proved: inv_hook_ok) *)
  | _ -> failwith "bad load mode"

let cfg_of (pd : string) (su : string) (lm : string) : dconfig =
  { c_pydict = (pd = "1"); c_strict = (su = "1"); c_load = load_hook (int_of_string lm) }

let b01 b = if b then "1" else "0"

(* final: every value is printed as it is after the LAST call (as implrun does: it dumps after the
   run), which differs from the value at return time only when a later pickle reaches an earlier
   map / Dict through the shared memo *)
let run_dec ?(final = false) (pd : string) (su : string) (lm : string) (hex : string) : string =
  load_calls := [];
  let cfg = cfg_of pd su lm in
  let inp = bytes_of_hex hex in
  let results = decode_stream cfg inp in
  let stale_app = ref false in
  let end_heap = (match List.rev results with (_, st) :: _ -> st.d_heap | [] -> []) in
  let parts = List.map (fun (r, st) ->
      if st.d_stale then stale_app := true;
      match r with
      | Ok v ->
        (match dump_val_capped (if final then end_heap else st.d_heap) v with
         | None -> "ok TOOBIG"
         | Some d ->
           let s = "ok " ^ string_of_bytes d in
           if has_stale st v then s ^ " ~stale" else s)
      | _ -> show_res (fun _ -> "") r) results in
  let last_heap = (match List.rev results with (_, st) :: _ -> st.d_heap | [] -> []) in
  let log = List.rev_map (fun v ->
      match dump_val_capped last_heap v with
      | None -> "TOOBIG" | Some d -> string_of_bytes d) !load_calls in
  String.concat " | " parts
  ^ (if !stale_app then " #staleappend" else "")
  ^ (if lm <> "0" then " #log " ^ String.concat " ; " log else "")

(* C14: the same stream decoded through the bufio machine (Model/Bufio.v), the input cut into the
   chunks of the schedule (a size 0 is a zero-length Read result: an empty chunk) *)
let run_dec_chunk (pd : string) (su : string) (sched : string) (hex : string) : string =
  let cfg = cfg_of pd su "0" in
  let data = bytes_of_hex hex in
  let eofw = String.length sched > 0 && sched.[String.length sched - 1] = 'E' in
  let sched = if eofw then String.sub sched 0 (String.length sched - 1) else sched in
  let repeat = String.length sched > 0 && sched.[String.length sched - 1] = '*' in
  let sched = if repeat then String.sub sched 0 (String.length sched - 1) else sched in
  let sizes = List.filter_map (fun x -> if x = "" then None else Some (int_of_string x)) (String.split_on_char ',' sched) in
  let rec take k l = if k = 0 then ([], l) else match l with [] -> ([], []) | x :: t -> let (a, r) = take (k - 1) t in (x :: a, r) in
  let rec cut sizes last l =
    match l with
    | [] -> []
    | _ ->
      (match sizes with
       | 0 :: t -> [] :: cut t last l
       | k :: t -> let (a, r) = take k l in a :: cut t k r
       | [] -> if repeat && last > 0 then (let (a, r) = take last l in a :: cut [] last r) else [l]) in
  let src = cut sizes 0 data in
  let b = { b_buf = []; b_err = false; b_src = src; b_eofw = eofw } in
  (* request sizes: any policy with 1 <= ask need <= need is covered by the theorem; sizes are
     capped so that a length bomb never becomes a unary number *)
  let small (need : n) (cap : int) : int =
    if N.ltb (n_of_int cap) need then cap else int_of_n need in
  let ask_full (need : n) : nat = nat_of_int (small need 65536) in
  let ask_copy (need : n) : nat = nat_of_int (small need 512) in
  let fuel = nat_of_int (List.length data + 2) in
  let (results, _) = decode_all1 (nat_of_int 4096) ask_full ask_copy fuel cfg init_state b in
  let parts = List.map (fun (r, st) ->
      match r with
      | Ok v ->
        (match dump_val_capped st.d_heap v with
         | None -> "ok TOOBIG"
         | Some d -> "ok " ^ string_of_bytes d)
      | _ -> show_res (fun _ -> "") r) results in
  String.concat " | " parts

(* C06: disassemble with the extracted Dis.dis (which re-assembles and compares, so it needs no
   trust), then run the CPython machine PyVM2.qload *)
(* the object graph as a tree, with a node budget: shared / cyclic graphs may unfold
   exponentially (printing only; the theorems do not involve this) *)
let show_qv (st : qstate) (v : qv) : string =
  let budget = ref 20000 in
  let exception Deep in
  let rec unf (d : int) (v : qv) : pv =
    decr budget; if !budget < 0 || d > 400 then raise Deep;
    match v with
    | QNone -> PNone | QBool b -> PBool b | QInt z -> PInt z | QFloat f -> PFloat f
    | QUni s -> PUni s | QStr s -> PStr s | QBytes s -> PBytes s | QBArr s -> PBArr s
    | QTuple l -> PTuple (List.map (unf (d + 1)) l)
    | QRef id ->
      (match qheap_get st.q_heap id with
       | Some (OList0 l) -> PList (List.map (unf (d + 1)) l)
       | Some (ODict0 tr) -> PDict (List.map (fun (k, x) -> (unf (d + 1) k, unf (d + 1) x)) tr)
       | None -> raise Deep)
    | QGlobal (m, n) -> PGlobal (m, n)
    | QCall (g, a) -> PCall (unf (d + 1) g, List.map (unf (d + 1)) a)
    | QPers p -> PPers (unf (d + 1) p) in
  match (try Some (unf 0 v) with Deep -> None) with
  | None -> "DEEP"
  | Some t -> "ok " ^ show_pv t

let run_qload (hex : string) : string =
  match dis (bytes_of_hex hex) with
  | None -> "NODIS"
  | Some (prog, _) ->
    (match qload prog with
     | None -> "GIVEUP"
     | Some (v, st) -> show_qv st v)

(* C11: successive load() calls on one Unpickler (PyVM2.qload_all), one pickle per argument *)
let run_qloads (hexes : string list) : string =
  let progs = List.map (fun h -> dis (bytes_of_hex h)) hexes in
  if List.exists (fun p -> match p with Some (_, []) -> false | _ -> true) progs then "NODIS"
  else
    let progs = List.map (fun p -> match p with Some (pr, _) -> pr | None -> []) progs in
    match qload_all progs q_init with
    | None -> "GIVEUP"
    | Some xs ->
      (* printed in the final heap, as the reference prints CPython's objects after the last load() *)
      let last = (match List.rev xs with (_, st) :: _ -> st | [] -> q_init) in
      String.concat " | " (List.map (fun (v, _) -> show_qv last v) xs)

let show_opt_hin (v : val0) : string = b01 (hashable v)

let dumps (v : val0) : string = string_of_bytes (dump_val !parse_heap v)

let show_entries (es : (val0 * val0) list) : string =
  let items = List.sort compare (List.map (fun (k, v) -> dumps k ^ " " ^ dumps v) es) in
  Printf.sprintf "iter(%d)={ %s }" (List.length es) (String.concat " ; " items)

(* a history of Dict operations: the Dict model (choose_first) and the RefDict specification
   side by side; multi = indices of Get operations whose key equals several stored keys *)
let run_dict (toks : string list) : string =
  parse_heap := [];
  let es = ref [] and rs = ref [] in
  let out = ref [] and rout = ref [] and multi = ref [] in
  let idx = ref 0 in
  let rec loop toks =
    match toks with
    | [] -> ()
    | "S" :: rest ->
      let (k, r1) = parse_val rest in
      let (v, r2) = parse_val r1 in
      (match dict_set choose_first k v !es with
       | Some es' -> es := es'; rs := ref_set k v !rs; out := "S:ok" :: !out; rout := "S:ok" :: !rout
       | None -> out := "S:unhashable" :: !out; rout := "S:unhashable" :: !rout);
      incr idx; loop r2
    | "D" :: rest ->
      let (k, r1) = parse_val rest in
      (match dict_del choose_first k !es with
       | Some es' -> es := es'; rs := ref_del k !rs; out := "D:ok" :: !out; rout := "D:ok" :: !rout
       | None -> out := "D:unhashable" :: !out; rout := "D:unhashable" :: !rout);
      incr idx; loop r1
    | "G" :: rest ->
      let (k, r1) = parse_val rest in
      (match dict_get choose_first k !es with
       | Some (Some v) -> out := ("G:" ^ dumps v) :: !out
       | Some None -> out := "G:none" :: !out
       | None -> out := "G:unhashable" :: !out);
      (if not (hashable k) then rout := "G:unhashable" :: !rout
       else match ref_get k !rs with
         | Some v -> rout := ("G:" ^ dumps v) :: !rout
         | None -> rout := "G:none" :: !rout);
      if List.length (List.filter (fun (k', _) -> py_eq k k') !rs) > 1 then
        multi := string_of_int !idx :: !multi;
      incr idx; loop r1
    | "L" :: rest ->
      out := ("L:" ^ string_of_int (List.length !es)) :: !out;
      rout := ("L:" ^ string_of_int (List.length !rs)) :: !rout;
      incr idx; loop rest
    | "I" :: rest ->
      out := show_entries !es :: !out; rout := show_entries !rs :: !rout;
      incr idx; loop rest
    | t :: _ -> failwith ("bad dict op " ^ t) in
  loop toks;
  String.concat " | " (List.rev !out) ^ " ## " ^ String.concat " | " (List.rev !rout)
  ^ " ## multi=" ^ String.concat "," (List.rev !multi)

let run_lookup (n : string) (toks : string list) : string =
  parse_heap := [];
  let (a, r1) = parse_val toks in
  let (b, _) = parse_val r1 in
  match dict_set choose_first a (VInt (z_of_int 1)) [] with
  | None -> "set:unhashable"
  | Some es ->
    match dict_get choose_first b es with
    | None -> "get:unhashable"
    | Some (Some _) -> Printf.sprintf "found=%s/%s" n n
    | Some None -> Printf.sprintf "found=0/%s" n

let handle (line : string) : string =
  match split_ws line with
  | [] -> ""
  | "dec" :: pd :: su :: lm :: rest ->
    run_dec pd su lm (match rest with [h] -> h | [] -> "" | _ -> failwith "dec args")
  | "decfinal" :: pd :: su :: lm :: rest ->
    run_dec ~final:true pd su lm (match rest with [h] -> h | [] -> "" | _ -> failwith "dec args")
  | "eq" :: rest ->
    parse_heap := [];
    let (a, r1) = parse_one rest in
    let (b, _) = parse_one r1 in
    (* equal, hashable a, hashable b, same hash input, python == (specification) *)
    Printf.sprintf "eq=%s ha=%s hb=%s samehash=%s pyeq=%s"
      (b01 (go_equal a b)) (b01 (hashable a)) (b01 (hashable b))
      (b01 (hash_same a b)) (b01 (py_eq a b))
  | "conv" :: su :: rest ->
    (* decode one pickle (PyDict off), then AsInt64 / AsString / AsBytes on the result *)
    let hex = (match rest with [h] -> h | _ -> "") in
    let cfg = cfg_of "0" su "0" in
    (match decode cfg init_state (bytes_of_hex hex) with
     | ((Ok v, st), _) ->
       let i = (match as_int64 v with Some z -> "ok:" ^ string_of_bytes (dec_of_Z z) | None -> "err") in
       let s = (match as_string v with Some b -> "ok:" ^ hex_of_blist b | None -> "err") in
       let b = (match as_bytes v with Some b -> "ok:" ^ hex_of_blist b | None -> "err") in
       Printf.sprintf "v=%s int=%s str=%s bytes=%s" (string_of_bytes (dump_val st.d_heap v)) i s b
     | ((r, _), _) -> "decode " ^ show_res (fun _ -> "") r)
  | "enc" :: proto :: su :: failat :: rest -> run_enc proto su failat rest
  | "norm" :: proto :: su :: rest -> run_norm proto su rest
  | "normh" :: proto :: su :: rest -> run_normh proto su rest
  | "norm2" :: proto :: pd :: su :: rest -> run_norm2 proto pd su false rest
  | "norm2h" :: proto :: pd :: su :: rest -> run_norm2 proto pd su true rest
  | "qload" :: rest -> run_qload (match rest with [h] -> h | _ -> "")
  | "qloads" :: rest -> run_qloads rest
  | "memofree" :: pd :: su :: rest ->
    (* C11: for each Decode call of the stream (one pickle per argument, decoded through one
       decoder), does it execute no memo opcode (AloneFacts.memo_freeb, the hypothesis of
       C11_memo_of_earlier_pickles_is_irrelevant / C11_earlier_values_not_altered)? *)
    let cfg = cfg_of pd su "0" in
    let st = ref init_state in
    String.concat " " (List.map (fun h ->
        let inp = bytes_of_hex h in
        let f = memo_freeb cfg !st inp and g = self_containedb cfg !st inp in
        (match decode cfg !st inp with ((_, st'), _) -> st := st');
        b01 f ^ b01 g) rest)
  | "decchunk" :: pd :: su :: _ :: sched :: rest -> run_dec_chunk pd su sched (match rest with [h] -> h | _ -> "")
  | "prog" :: proto :: su :: rest -> run_prog proto su rest
  | "pyload" :: proto :: su :: rest -> run_pyload proto su rest
  | "reenc" :: proto :: pd :: su :: rest -> run_reenc proto pd su (match rest with [h] -> h | _ -> "")
  | "reenc2" :: proto :: pd :: su :: rest -> run_reenc2 proto pd su (match rest with [h] -> h | _ -> "")
  | "dict" :: rest -> run_dict rest
  | "lookup" :: n :: rest -> run_lookup n rest
  | "declong" :: rest ->
    let h = match rest with [h] -> h | _ -> "" in
    string_of_bytes (dec_of_Z (decode_long (bytes_of_hex h)))
  | "pyquote" :: _ -> failwith "pyquote needs the IsPrint table (see isprint command)"
  | "unesc" :: rest ->
    let h = match rest with [h] -> h | _ -> "" in
    show_res hex_of_blist (pydecode_string_escape (bytes_of_hex h))
  | "rueenc" :: rest ->
    let h = match rest with [h] -> h | _ -> "" in
    (match pyencode_raw_unicode_escape (bytes_of_hex h) with
     | Some o -> "ok " ^ hex_of_blist o | None -> "err invalidutf8")
  | "ruedec" :: rest ->
    let h = match rest with [h] -> h | _ -> "" in
    show_res hex_of_blist (pydecode_raw_unicode_escape (bytes_of_hex h))
  | "parsefloat" :: rest ->
    let h = match rest with [h] -> h | _ -> "" in
    (match parse_float (bytes_of_hex h) with
     | PFok b -> Printf.sprintf "ok %s" (hex_of_blist (Model.be_encode (nat_of_int 8) b))
     | PFrange -> "range" | PFsyntax -> "syntax")
  | cmd :: _ -> failwith ("unknown command: " ^ cmd)

let () =
  (try
     while true do
       let line = input_line stdin in
       let out = (try handle line with
           | Failure m -> "DRIVER-ERROR " ^ m
           | Stack_overflow -> "DRIVER-ERROR stack overflow"
           | Not_found -> "DRIVER-ERROR not found") in
       print_string out; print_char '\n'; flush stdout
     done
   with End_of_file -> ());
  flush stdout
