(* Extraction of every executable definition of the model.  ExtrOcamlBasic only:
   bool, option, list, prod, unit, sumbool map to OCaml's; N, Z, positive, nat, byte stay
   the extracted inductives. *)
From Coq Require Extraction.
From Coq Require Import ExtrOcamlBasic.
From Coq Require Import List ZArith NArith.
From Coq.Strings Require Import Byte.
From OgRek Require Import Base Utf8 GoStrconv PyQuote Float Value PyEq Dict Reader Decoder Typeconv Encoder Norm NormMaps Insn EncProg PyVM PyVal Bufio DecodeL1 PyVM2 Dis.
From OgRek Require AloneFacts.
Extraction Language OCaml.
Extraction "model.ml"
  Byte.of_N Byte.to_N b2N N2b
  dec_of_N dec_of_Z hex_of_bytes
  utf8_decode utf8_encode utf8_valid f32_to_f64
  parse_float parse_int64 pyquote pydecode_string_escape
  pyencode_raw_unicode_escape pydecode_raw_unicode_escape decode_long be_encode heap_set
  dump_val dump_val_capped go_equal go_hash hash_same hashable py_eq go_key_eq go_unhashable
  dict_get dict_set dict_del dict_len choose_first ref_get ref_set ref_del
  init_state decode decode_stream has_stale Build_dconfig as_int64 as_bytes as_string
  encode run_w output Build_econfig norm unerase reify erase fits_proto
  asm iproto sd_step sd_run program pyload pyval_of decode_all1 Build_bst pd_merge qload qheap_get asm_all dis
  hmap inv_load inv_g qload_all q_init AloneFacts.memo_freeb AloneFacts.self_containedb norm2 reflect.
