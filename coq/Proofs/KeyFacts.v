(* KeyFacts.v — the keys an object of the decoder's heap holds are pairwise unequal:
   builtin maps under Go's interface ==, Dicts under Python's ==.  The invariant is part of the
   typing invariant of TypingFacts.v (obj_ok); this file has the per-assignment steps. *)
From Coq Require Import List ZArith NArith Bool Lia.
From Coq.Strings Require Import Byte.
From OgRek Require Import Base Float Value PyEq Dict BaseFacts PyEqFacts DictFacts.
Import ListNotations.
Open Scope N_scope.

(* ---- Go's == on interface keys is a partial equivalence (NaN is the only irreflexive key) ---- *)

Lemma f_eq_sym : forall a b, f_eq a b = f_eq b a.
Proof.
  intros a b. unfold f_eq. rewrite (orb_comm (f_is_nan a)). destruct (f_is_nan b || f_is_nan a); [reflexivity|].
  rewrite (andb_comm (f_is_zero a)). destruct (f_is_zero b && f_is_zero a); [reflexivity|]. apply N.eqb_sym.
Qed.

Lemma f_eq_trans : forall a b c, f_eq a b = true -> f_eq b c = true -> f_eq a c = true.
Proof.
  intros a b c. unfold f_eq.
  destruct (f_is_nan a) eqn:Na; [discriminate|]. destruct (f_is_nan b) eqn:Nb; [discriminate|].
  destruct (f_is_nan c) eqn:Nc; [cbn; discriminate|]. cbn [orb].
  destruct (f_is_zero a) eqn:Za; destruct (f_is_zero b) eqn:Zb; destruct (f_is_zero c) eqn:Zc; cbn [andb];
    intros H1 H2; try reflexivity;
    try (apply N.eqb_eq in H1); try (apply N.eqb_eq in H2); subst; try congruence.
  apply N.eqb_refl.
Qed.

Lemma go_key_eq_sym : forall a b, go_key_eq a b = go_key_eq b a.
Proof.
  induction a using val_ind'; intros y; destruct y; cbn [go_key_eq]; try reflexivity.
  - destruct b, b0; reflexivity.
  - apply Z.eqb_sym.
  - apply Z.eqb_sym.
  - apply N.eqb_sym.
  - apply f_eq_sym.
  - rewrite (f_eq_sym re), (f_eq_sym im). reflexivity.
  - apply eq_true_iff_eq. rewrite !bytes_eqb_eq. split; congruence.
  - apply eq_true_iff_eq. rewrite !bytes_eqb_eq. split; congruence.
  - apply eq_true_iff_eq. rewrite !bytes_eqb_eq. split; congruence.
  - apply N.eqb_sym.
  - apply eq_true_iff_eq. rewrite !andb_true_iff, !bytes_eqb_eq. split; intros [? ?]; split; congruence.
  - apply IHa.
  - apply N.eqb_sym.
Qed.

Lemma go_key_eq_trans : forall a b c, go_key_eq a b = true -> go_key_eq b c = true -> go_key_eq a c = true.
Proof.
  induction a using val_ind'; intros y w; destruct y; cbn [go_key_eq]; try discriminate;
    destruct w; cbn [go_key_eq]; try discriminate; intros H1 H2.
  - reflexivity.
  - apply Bool.eqb_prop in H1. apply Bool.eqb_prop in H2. subst. apply Bool.eqb_reflx.
  - apply Z.eqb_eq in H1. apply Z.eqb_eq in H2. subst. apply Z.eqb_refl.
  - apply Z.eqb_eq in H1. apply Z.eqb_eq in H2. subst. apply Z.eqb_refl.
  - apply N.eqb_eq in H1. apply N.eqb_eq in H2. subst. apply N.eqb_refl.
  - eapply f_eq_trans; eassumption.
  - apply andb_true_iff in H1. apply andb_true_iff in H2. destruct H1, H2.
    apply andb_true_iff. split; eapply f_eq_trans; eassumption.
  - apply bytes_eqb_eq in H1. apply bytes_eqb_eq in H2. subst. apply bytes_eqb_refl.
  - apply bytes_eqb_eq in H1. apply bytes_eqb_eq in H2. subst. apply bytes_eqb_refl.
  - apply bytes_eqb_eq in H1. apply bytes_eqb_eq in H2. subst. apply bytes_eqb_refl.
  - apply N.eqb_eq in H1. apply N.eqb_eq in H2. subst. apply N.eqb_refl.
  - apply andb_true_iff in H1. apply andb_true_iff in H2. destruct H1 as [A1 B1], H2 as [A2 B2].
    apply bytes_eqb_eq in A1, B1, A2, B2. subst. rewrite !bytes_eqb_refl. reflexivity.
  - eapply IHa; eassumption.
  - apply N.eqb_eq in H1. apply N.eqb_eq in H2. subst. apply N.eqb_refl.
  - reflexivity.
Qed.

(* ---- builtin maps ---------------------------------------------------------------------------- *)

Definition gapart (a b : val * val) : Prop := go_key_eq (fst a) (fst b) = false.

Fixpoint gdistinct (es : list (val * val)) : Prop :=
  match es with
  | [] => True
  | e :: t => Forall (gapart e) t /\ gdistinct t
  end.

Lemma gapart_sym : forall a b, gapart a b -> gapart b a.
Proof. intros a b H. unfold gapart in *. rewrite go_key_eq_sym. exact H. Qed.

(* replacing a key by one that == it keeps it apart from whatever the old one was apart from *)
Lemma gapart_replace : forall k' k v v' x, go_key_eq k' k = true -> gapart (k', v') x -> gapart (k, v) x.
Proof.
  intros k' k v v' x E H. unfold gapart in *. cbn [fst] in *.
  destruct (go_key_eq k (fst x)) eqn:G; [|reflexivity].
  rewrite (go_key_eq_trans k' k (fst x) E G) in H. discriminate.
Qed.

Lemma gomap_assign_apart : forall es k v x,
  Forall (gapart x) es -> gapart x (k, v) -> Forall (gapart x) (gomap_assign es k v).
Proof.
  induction es as [|[k' v'] t IH]; intros k v x H Hx; cbn [gomap_assign].
  - constructor; [exact Hx|constructor].
  - inversion H as [|? ? H1 H2]; subst. destruct (go_key_eq k' k) eqn:E.
    + constructor; [exact Hx|exact H2].
    + constructor; [exact H1|apply IH; assumption].
Qed.

Lemma gomap_assign_distinct : forall es k v, gdistinct es -> gdistinct (gomap_assign es k v).
Proof.
  induction es as [|[k' v'] t IH]; intros k v H; cbn [gomap_assign].
  - cbn. split; [constructor|exact I].
  - destruct H as [Hf Hd]. destruct (go_key_eq k' k) eqn:E.
    + cbn [gdistinct]. split; [|exact Hd].
      eapply Forall_impl; [|exact Hf]. intros x Hx. eapply gapart_replace; eassumption.
    + cbn [gdistinct]. split; [|apply IH; exact Hd].
      apply gomap_assign_apart; [exact Hf|exact E].
Qed.

(* ---- Dicts -------------------------------------------------------------------------------------- *)

Lemma dict_set_keys : forall ch k v es es', nf_key k = true -> nf_entries es -> distinct es ->
  dict_set ch k v es = Some es' -> nf_entries es' /\ distinct es'.
Proof.
  intros ch k v es es' Hk He Hd S. rewrite (dict_set_is_ref ch k v es Hk He) in S. injection S as <-.
  split.
  - apply (ref_step_nf es (OpSet k v)); assumption.
  - apply (ref_step_distinct es (OpSet k v)); assumption.
Qed.

(* ---- what the heap objects guarantee ----------------------------------------------------------- *)

Definition obj_keys (o : hobj) : Prop :=
  match o with
  | HMap es => gdistinct es
  | HDict es => nf_entries es /\ distinct es
  end.

(* distinctness does not depend on the order of the entries *)
From Coq Require Import Permutation.

Lemma gdistinct_perm : forall es es', Permutation es es' -> gdistinct es -> gdistinct es'.
Proof.
  intros es es' P. induction P as [|x l l' P IH|x y l|l l' l'' P1 IH1 P2 IH2]; intros H.
  - exact I.
  - destruct H as [Hf Hd]. split; [eapply Permutation_Forall; eassumption|apply IH; exact Hd].
  - destruct H as [Hy [Hx Hd]]. inversion Hy as [|? ? Hyx Hyl]; subst. cbn [gdistinct].
    split; [constructor; [apply gapart_sym; exact Hyx|exact Hx]|]. split; [exact Hyl|exact Hd].
  - apply IH2. apply IH1. exact H.
Qed.

Lemma apart_sym : forall a b, apart a b -> apart b a.
Proof. intros a b [H1 H2]. split; assumption. Qed.

Lemma distinct_perm : forall es es', Permutation es es' -> distinct es -> distinct es'.
Proof.
  intros es es' P. induction P as [|x l l' P IH|x y l|l l' l'' P1 IH1 P2 IH2]; intros H.
  - exact I.
  - destruct H as [Hf Hd]. split; [eapply Permutation_Forall; eassumption|apply IH; exact Hd].
  - destruct H as [Hy [Hx Hd]]. inversion Hy as [|? ? Hyx Hyl]; subst. cbn [distinct].
    split; [constructor; [apply apart_sym; exact Hyx|exact Hx]|]. split; [exact Hyl|exact Hd].
  - apply IH2. apply IH1. exact H.
Qed.

Lemma nf_entries_perm : forall es es', Permutation es es' -> nf_entries es -> nf_entries es'.
Proof. intros es es' P H. unfold nf_entries in *. eapply Permutation_Forall; eassumption. Qed.
