(* ParseFloatFacts.v — every float the decoder can produce is a 64-bit pattern:
   strconv.ParseFloat's model (FLOAT opcode) and the 8 big-endian bytes of BINFLOAT. *)
From Coq Require Import List ZArith NArith Bool Lia.
From Coq.Strings Require Import Byte.
From OgRek Require Import Base GoStrconv PyEq BaseFacts.
Import ListNotations.
Open Scope N_scope.

Definition two64 : N := 18446744073709551616.

Lemma log2_lt_pow2' : forall a n, 0 < n -> a < 2 ^ n -> N.log2 a < n.
Proof.
  intros a n Hn Ha. destruct (N.eq_dec a 0) as [->|Na]; [exact Hn|].
  apply N.log2_lt_pow2; [apply N.neq_0_lt_0; exact Na|exact Ha].
Qed.

Lemma lor_lt_pow2 : forall a b n, a < 2 ^ n -> b < 2 ^ n -> N.lor a b < 2 ^ n.
Proof.
  intros a b n Ha Hb. destruct (N.eq_dec n 0) as [->|Nn].
  - cbn in *. assert (a = 0) by lia. assert (b = 0) by lia. subst. cbn. lia.
  - assert (Hn : 0 < n) by lia.
    destruct (N.eq_dec (N.lor a b) 0) as [E|E]; [rewrite E; apply N.neq_0_lt_0; apply N.pow_nonzero; discriminate|].
    apply N.log2_lt_pow2; [apply N.neq_0_lt_0; exact E|].
    rewrite N.log2_lor. apply N.max_lub_lt; apply log2_lt_pow2'; assumption.
Qed.

Lemma shr_sticky_lt : forall m s n, 0 < n -> m < 2 ^ (n + s) -> shr_sticky m s < 2 ^ n.
Proof.
  intros m s n Hn H. unfold shr_sticky.
  assert (Q : N.shiftr m s < 2 ^ n).
  { rewrite N.shiftr_div_pow2. apply N.div_lt_upper_bound; [apply N.pow_nonzero; discriminate|].
    rewrite <- N.pow_add_r. rewrite N.add_comm. exact H. }
  destruct (N.shiftl (N.shiftr m s) s =? m); [exact Q|].
  apply lor_lt_pow2; [exact Q|]. apply (N.lt_le_trans _ (2 ^ 1)); [cbn; lia|]. apply N.pow_le_mono_r; lia.
Qed.

Lemma lt_pow2_log2 : forall m, m <> 0 -> m < 2 ^ (N.log2 m + 1).
Proof. intros m H. rewrite N.add_1_r. apply N.log2_spec. apply N.neq_0_lt_0. exact H. Qed.

Lemma round_to_f64_wf : forall neg m e st, fst (round_to_f64 neg m e st) < two64.
Proof.
  intros neg m e st. unfold round_to_f64.
  set (sign := if neg then 9223372036854775808 else 0).
  assert (Hs : sign <= 9223372036854775808) by (unfold sign; destruct neg; lia).
  destruct (m =? 0) eqn:Em; [cbn [fst]; unfold two64; lia|].
  apply N.eqb_neq in Em.
  set (b := (Z.of_N (N.log2 m) + 1)%Z).
  (* m1 < 2^55 *)
  assert (M1 : forall m1 e1,
    (if (55 <? b)%Z then (shr_sticky m (Z.to_N (b - 55)%Z), (e + (b - 55))%Z)
     else (N.shiftl m (Z.to_N (55 - b)%Z), (e - (55 - b))%Z)) = (m1, e1) -> m1 < 2 ^ 55).
  { intros m1 e1 E. destruct (55 <? b)%Z eqn:Hb.
    - injection E as <- _. apply Z.ltb_lt in Hb. apply shr_sticky_lt; [lia|].
      replace (55 + Z.to_N (b - 55)) with (N.log2 m + 1) by (unfold b in *; lia).
      apply lt_pow2_log2. exact Em.
    - injection E as <- _. apply Z.ltb_ge in Hb. rewrite N.shiftl_mul_pow2.
      apply (N.lt_le_trans _ (2 ^ (N.log2 m + 1) * 2 ^ Z.to_N (55 - b))).
      + apply N.mul_lt_mono_pos_r; [apply N.neq_0_lt_0; apply N.pow_nonzero; discriminate|apply lt_pow2_log2; exact Em].
      + rewrite <- N.pow_add_r. apply N.pow_le_mono_r; [discriminate|]. unfold b in *. lia. }
  destruct (if (55 <? b)%Z then _ else _) as [m1 e1] eqn:E1. specialize (M1 m1 e1 eq_refl).
  set (m1' := if st then N.lor m1 1 else m1).
  assert (M1' : m1' < 2 ^ 55).
  { unfold m1'. destruct st; [|exact M1]. apply lor_lt_pow2; [exact M1|]. cbn. lia. }
  assert (M2 : forall m2 e2,
    (if (e1 <? -1076)%Z then (shr_sticky m1' (Z.to_N (Z.min (-1076 - e1) 60)), (-1076)%Z) else (m1', e1)) = (m2, e2) ->
    m2 < 2 ^ 55).
  { intros m2 e2 E. destruct (e1 <? -1076)%Z.
    - injection E as <- _. apply shr_sticky_lt; [lia|].
      apply (N.lt_le_trans _ _ _ M1'). apply N.pow_le_mono_r; [discriminate|lia].
    - injection E as <- _. exact M1'. }
  destruct (if (e1 <? -1076)%Z then _ else _) as [m2 e2] eqn:E2. specialize (M2 m2 e2 eq_refl).
  set (r := N.lor (N.land m2 3) (N.land (N.shiftr m2 2) 1)).
  set (m3 := N.shiftr m2 2).
  assert (M3 : m3 < 9007199254740992).
  { unfold m3. rewrite N.shiftr_div_pow2. apply N.div_lt_upper_bound; [discriminate|].
    change (2 ^ 2 * 9007199254740992) with (2 ^ 55). exact M2. }
  set (m4 := if r =? 3 then m3 + 1 else m3).
  assert (M4 : m4 <= 9007199254740992) by (unfold m4; destruct (r =? 3); lia).
  destruct (m4 =? 9007199254740992) eqn:E4.
  - apply N.eqb_eq in E4. rewrite E4. change (N.shiftr 9007199254740992 1) with 4503599627370496.
    cbn [N.ltb N.compare Pos.compare Pos.compare_cont].
    change (4503599627370496 <? 4503599627370496) with false. cbv beta iota.
    destruct (2046 <? e2 + 2 + 1 + 52 + 1023)%Z eqn:Ho.
    + cbn [fst]. unfold f64_inf_bits, two64. destruct neg; lia.
    + cbn [fst]. apply Z.ltb_ge in Ho. rewrite N.sub_diag, N.add_0_r.
      assert (Z.to_N (e2 + 2 + 1 + 52 + 1023) <= 2046) by lia.
      unfold two64. nia.
  - apply N.eqb_neq in E4. assert (M5 : m4 < 9007199254740992) by lia.
    destruct (m4 <? 4503599627370496) eqn:E5.
    + cbn [fst]. apply N.ltb_lt in E5. unfold two64. lia.
    + apply N.ltb_ge in E5. destruct (2046 <? e2 + 2 + 52 + 1023)%Z eqn:Ho.
      * cbn [fst]. unfold f64_inf_bits, two64. destruct neg; lia.
      * cbn [fst]. apply Z.ltb_ge in Ho. assert (Z.to_N (e2 + 2 + 52 + 1023) <= 2046) by lia.
        unfold two64. nia.
Qed.

Lemma round_ratio_f64_wf : forall neg p q, fst (round_ratio_f64 neg p q) < two64.
Proof. intros. unfold round_ratio_f64. destruct (p =? 0); apply round_to_f64_wf. Qed.

Lemma pf_special_wf : forall s b n, pf_special s = Some (b, n) -> b < two64.
Proof.
  intros s b n H. unfold pf_special in H. destruct s as [|c t]; [discriminate|].
  repeat match type of H with
  | (if ?c then _ else _) = _ => destruct c
  | (let n := _ in _) = _ => cbv zeta in H
  end; try discriminate; injection H as <- _; unfold f64_inf_bits, f64_nan_bits, two64; lia.
Qed.

Lemma parse_float_wf : forall s b, parse_float s = PFok b -> b < two64.
Proof.
  intros s b H. unfold parse_float in H.
  destruct (pf_special s) as [[bits n]|] eqn:Sp.
  - destruct (Nat.eqb n (length s)); [|discriminate]. injection H as <-. exact (pf_special_wf _ _ _ Sp).
  - destruct (split_sign s) as [neg r0].
    repeat match type of H with
    | (let '(_, _) := ?x in _) = _ => destruct x eqn:?
    | match ?x with _ => _ end = _ =>
        lazymatch x with
        | round_to_f64 _ _ _ _ => fail
        | round_ratio_f64 _ _ _ => fail
        | (if _ then round_to_f64 _ _ _ _ else _) => fail
        | _ => destruct x eqn:?
        end
    | (if ?x then _ else _) = _ => destruct x eqn:?
    end; try discriminate.
    all: try (injection H as <-; apply round_to_f64_wf).
    all: try match type of H with
      | match ?x with _ => _ end = _ =>
          let W := fresh "W" in
          assert (W : fst x < two64) by (first [apply round_to_f64_wf | apply round_ratio_f64_wf
                                               | match goal with |- fst (if ?c then _ else _) < _ => destruct c; [apply round_to_f64_wf|apply round_ratio_f64_wf] end]);
          destruct x as [bits ovf]; destruct ovf; [discriminate|injection H as <-; exact W]
      end.
all: injection H as H; subst b; try apply round_to_f64_wf.
    all: try (destruct neg; unfold two64; lia).
    all: match goal with E : ?x = (?n, _) |- ?n < _ => replace n with (fst x) by (rewrite E; reflexivity) end.
    all: first [apply round_to_f64_wf | apply round_ratio_f64_wf
               | match goal with |- fst (if ?c then _ else _) < _ => destruct c; [apply round_to_f64_wf|apply round_ratio_f64_wf] end].
Qed.

Lemma wfb_parse_float : forall s b, parse_float s = PFok b -> wfb b = true.
Proof. intros s b H. unfold wfb. apply N.ltb_lt. exact (parse_float_wf s b H). Qed.

Lemma wfb_be_decode8 : forall l, Nlen l = 8 -> wfb (be_decode l) = true.
Proof.
  intros l H. unfold wfb, be_decode. apply N.ltb_lt. pose proof (le_decode_bound (rev l)) as B.
  rewrite rev_length in B. unfold Nlen in H. rewrite H in B. exact B.
Qed.
