(* ExecFacts.v — a fuel-free big-step view of the instruction loop (exec), the byte output of the
   writer monad, and the lemma connecting exec + STOP to Decode.  Basis of the round-trip proofs. *)
From Coq Require Import Ascii String.
From Coq Require Import List ZArith NArith Bool Lia.
From Coq.Strings Require Import Byte.
From OgRek Require Import Base Value Reader Decoder Encoder.
From OgRek Require Import BaseFacts ReaderFacts DecoderFacts EncoderFacts.
Import ListNotations.
Open Scope N_scope.

(* ---- exec: the machine runs some instructions (none of them STOP) ------------------------------- *)

Inductive exec (cfg : dconfig) : N -> dstate -> bytes -> N -> dstate -> bytes -> Prop :=
| exec_refl : forall i st inp, exec cfg i st inp i st inp
| exec_step : forall i st key inp op st1 rest i' st' inp',
    opcode_of_byte key = Some op -> is_stop op = false ->
    run (handler cfg op key (i + 1) st) inp = (Ok (HOk st1), rest) ->
    exec cfg (i + 1) st1 rest i' st' inp' ->
    exec cfg i st (key :: inp) i' st' inp'.

Lemma exec_trans : forall cfg i1 s1 b1 i2 s2 b2 i3 s3 b3,
  exec cfg i1 s1 b1 i2 s2 b2 -> exec cfg i2 s2 b2 i3 s3 b3 -> exec cfg i1 s1 b1 i3 s3 b3.
Proof.
  intros cfg i1 s1 b1 i2 s2 b2 i3 s3 b3 H. induction H as [|? ? ? ? ? ? ? ? ? ? Ho Hs Hr He IH]; intros Hx; [exact Hx|].
  eapply exec_step; [exact Ho|exact Hs|exact Hr|apply IH; exact Hx].
Qed.

Lemma exec_one : forall cfg i st key inp op st1 rest,
  opcode_of_byte key = Some op -> is_stop op = false ->
  run (handler cfg op key (i + 1) st) inp = (Ok (HOk st1), rest) ->
  exec cfg i st (key :: inp) (i + 1) st1 rest.
Proof. intros. eapply exec_step; eauto. apply exec_refl. Qed.

(* exec followed by whatever the loop does next = the loop from the start, for enough fuel *)
Lemma exec_run : forall cfg i st inp i' st' inp',
  exec cfg i st inp i' st' inp' ->
  forall f r rest, run (decode_loop f cfg i' st') inp' = (r, rest) -> r <> OutOfFuel ->
  exists f0, forall f1, (f0 <= f1)%nat -> run (decode_loop f1 cfg i st) inp = (r, rest).
Proof.
  intros cfg i st inp i' st' inp' H.
  induction H as [|? ? ? ? ? ? ? ? ? ? Ho Hs Hr He IH]; intros f r rest0 R NR.
  - exists f. intros f1 Hf. eapply loop_fuel_mono; eauto.
  - destruct (IH f r rest0 R NR) as [f0 Hf0]. exists (S f0). intros f1 Hf1.
    destruct f1 as [|f1]; [lia|]. rewrite decode_loop_S. cbn [run].
    rewrite Ho, Hs, run_bind, Hr. apply Hf0. lia.
Qed.

(* exec up to a STOP that finds exactly the value on top of the stack: Decode returns it *)
Theorem exec_decode : forall cfg st inp i st' v t rest,
  exec cfg 0 (start_state st) inp i st' (x2e :: rest) ->
  d_stack st' = v :: t -> is_mark v = false ->
  decode cfg st inp = ((Ok v, set_stack st' t), rest).
Proof.
  intros cfg st inp i st' v t rest E Hs M.
  assert (R : run (decode_loop 1 cfg i st') (x2e :: rest) = (Ok (Ok v, set_stack st' t), rest)).
  { rewrite decode_loop_S. cbn [run]. change (opcode_of_byte x2e) with (Some OStop). cbn [is_stop].
    unfold pop_user. rewrite Hs, M. reflexivity. }
  destruct (exec_run _ _ _ _ _ _ _ E 1%nat _ _ R ltac:(discriminate)) as [f0 Hf0].
  unfold decode.
  pose proof (loop_safe (Datatypes.S (length inp)) cfg 0 (start_state st) inp ltac:(lia)) as LS.
  destruct (run (decode_loop (Datatypes.S (length inp)) cfg 0 (start_state st)) inp) as [r0 rest0] eqn:R0.
  cbn [fst] in LS.
  assert (Hm : run (decode_loop (max f0 (Datatypes.S (length inp))) cfg 0 (start_state st)) inp = (r0, rest0)).
  { eapply loop_fuel_mono; [|exact R0|]; [lia|]. intro C. apply LS. right. exact C. }
  rewrite (Hf0 (max f0 (Datatypes.S (length inp))) ltac:(lia)) in Hm. inversion Hm; subst. reflexivity.
Qed.

(* ---- the bytes a writer program produces -------------------------------------------------------- *)

Definition wok (p : wprog) : Prop := snd (run_w p None) = EOk.
Definition wout (p : wprog) : bytes := concat (fst (run_w p None)).

Lemma wok_emit : forall b, wok (emit b).
Proof. intros. reflexivity. Qed.
Lemma wout_emit : forall b, wout (emit b) = b.
Proof. intros. unfold wout. cbn. apply app_nil_r. Qed.

Lemma wseq_ok : forall p q, wok p -> wok q -> wok (wseq p q) /\ wout (wseq p q) = wout p ++ wout q.
Proof.
  intros p q Hp Hq. unfold wok, wout in *. rewrite run_w_wseq.
  destruct (run_w p None) as [w1 r1]. cbn in Hp. subst r1.
  destruct (run_w q None) as [w2 r2]. cbn in Hq. subst r2. cbn. split; [reflexivity|apply concat_app].
Qed.

Lemma wok_wseq : forall p q, wok p -> wok q -> wok (wseq p q).
Proof. intros. apply wseq_ok; assumption. Qed.
Lemma wout_wseq : forall p q, wok p -> wok q -> wout (wseq p q) = wout p ++ wout q.
Proof. intros. apply wseq_ok; assumption. Qed.

Lemma wok_WDone : wok WDone. Proof. reflexivity. Qed.
Lemma wout_WDone : wout WDone = []. Proof. reflexivity. Qed.

(* exec up to an instruction whose handler fails without reading: Decode returns that error *)
Theorem exec_decode_err : forall cfg st inp i st' key op st'' e rest,
  exec cfg 0 (start_state st) inp i st' (key :: rest) ->
  opcode_of_byte key = Some op -> is_stop op = false ->
  handler cfg op key (i + 1) st' = fail st'' e ->
  decode cfg st inp = ((Err e, st''), rest).
Proof.
  intros cfg st inp i st' key op st'' e rest E Ho Hs Hh.
  assert (R : run (decode_loop 1 cfg i st') (key :: rest) = (Ok (Err e, st''), rest)).
  { rewrite decode_loop_S. cbn [run]. rewrite Ho, Hs, run_bind, Hh. reflexivity. }
  destruct (exec_run _ _ _ _ _ _ _ E 1%nat _ _ R ltac:(discriminate)) as [f0 Hf0].
  unfold decode.
  pose proof (loop_safe (Datatypes.S (length inp)) cfg 0 (start_state st) inp ltac:(lia)) as LS.
  destruct (run (decode_loop (Datatypes.S (length inp)) cfg 0 (start_state st)) inp) as [r0 rest0] eqn:R0.
  cbn [fst] in LS.
  assert (Hm : run (decode_loop (max f0 (Datatypes.S (length inp))) cfg 0 (start_state st)) inp = (r0, rest0)).
  { eapply loop_fuel_mono; [|exact R0|]; [lia|]. intro C. apply LS. right. exact C. }
  rewrite (Hf0 (max f0 (Datatypes.S (length inp))) ltac:(lia)) in Hm. inversion Hm; subst. reflexivity.
Qed.
