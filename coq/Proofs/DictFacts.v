(* DictFacts.v — lookups in the Dict model follow Python equality (C07), unhashable keys
   panic and leave the Dict unchanged (C17). *)
From Coq Require Import Ascii String.
From Coq Require Import List ZArith NArith Bool Lia.
From Coq.Strings Require Import Byte.
From OgRek Require Import Base Float Value PyEq Dict BaseFacts PyEqFacts.
Import ListNotations.
Open Scope N_scope.

Lemma map_opt_some_nf : forall l,
  Forall (fun x => nf_key x = true -> exists h, go_hash x = Some h) l ->
  forallb nf_key l = true -> exists ps, map_opt go_hash l = Some ps.
Proof.
  intros l H. induction H as [|x t Hx Ht IH]; intros Hl; cbn.
  - exists []. reflexivity.
  - cbn in Hl. apply andb_true_iff in Hl. destruct Hl as [Px Pt].
    destruct (Hx Px) as [h Eh]. destruct (IH Pt) as [ps Eps]. rewrite Eh, Eps. eexists. reflexivity.
Qed.

Lemma nf_hashable : forall a, nf_key a = true -> exists h, go_hash a = Some h.
Proof.
  induction a using val_ind'; intros Ha; cbn in Ha; try discriminate; cbn [go_hash];
    try (eexists; reflexivity).
  - destruct (in_int64 z || in_uint64 z); [eexists; reflexivity|].
    destruct (Z_to_f64_exact z); eexists; reflexivity.
  - destruct (map_opt_some_nf l H Ha) as [ps E]. rewrite E. eexists. reflexivity.
  - destruct (map_opt_some_nf l H Ha) as [ps E]. rewrite E. eexists. reflexivity.
  - destruct (IHa Ha) as [h E]. rewrite E. eexists. reflexivity.
Qed.

Lemma nf_hashable_b : forall a, nf_key a = true -> hashable a = true.
Proof. intros a H. unfold hashable. destruct (nf_hashable a H) as [h E]. rewrite E. reflexivity. Qed.

(* gomap finds the entry exactly when Python's == holds (integer-fragment keys) *)
Lemma gm_match_py_eq : forall a b v,
  nf_key a = true -> nf_key b = true -> gm_match b (a, v) = py_eq b a.
Proof.
  intros a b v Ha Hb. unfold gm_match. cbn [fst].
  rewrite <- (go_equal_py_eq_nf b a Hb Ha).
  destruct (go_equal b a) eqn:E; [|apply andb_false_r].
  rewrite (hash_agree_same b a (hash_respects_equal_nf b a Hb Ha E)). reflexivity.
Qed.

Lemma dict_set_empty : forall ch a v, hashable a = true -> dict_set ch a v [] = Some [(a, v)].
Proof.
  intros ch a v H. unfold dict_set, dict_del. rewrite H. reflexivity.
Qed.

Lemma dict_get_single : forall ch a b v, hashable b = true ->
  dict_get ch b [(a, v)] = Some (if gm_match b (a, v) then Some v else None).
Proof.
  intros ch a b v H. unfold dict_get. rewrite H. f_equal.
  unfold gm_get, gm_find_pos. cbn [match_positions].
  destruct (gm_match b (a, v)); [|reflexivity].
  destruct (existsb (Nat.eqb (ch [0%nat])) [0%nat]) eqn:E.
  - cbn in E. rewrite orb_false_r in E. apply Nat.eqb_eq in E. rewrite E. reflexivity.
  - reflexivity.
Qed.

(* C07: a Dict that holds a finds it under b exactly when Python's a == b, whatever slot
   order the hash table uses (the chooser) *)
Theorem lookup_follows_py_eq : forall ch a b v,
  nf_key a = true -> nf_key b = true ->
  exists es, dict_set ch a v [] = Some es /\
             dict_get ch b es = Some (if py_eq b a then Some v else None).
Proof.
  intros ch a b v Ha Hb. exists [(a, v)]. split.
  - apply dict_set_empty. apply nf_hashable_b. exact Ha.
  - rewrite dict_get_single by (apply nf_hashable_b; exact Hb).
    rewrite (gm_match_py_eq a b v Ha Hb). reflexivity.
Qed.

(* C17 (API): an unhashable key makes Get / Set / Del panic, contents untouched (the model
   returns None = panic before any entry is read or written) *)
Theorem unhashable_panics : forall ch k v es,
  hashable k = false ->
  dict_get ch k es = None /\ dict_set ch k v es = None /\ dict_del ch k es = None.
Proof.
  intros ch k v es H. unfold dict_set, dict_del, dict_get. rewrite H. repeat split.
Qed.
