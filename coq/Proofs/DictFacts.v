(* DictFacts.v — lookups in the Dict model follow Python equality (C07), unhashable keys
   panic and leave the Dict unchanged (C17). *)
From Coq Require Import Ascii String.
From Coq Require Import List ZArith NArith Bool Lia.
From Coq.Strings Require Import Byte.
From OgRek Require Import Base Float Value PyEq Dict BaseFacts PyEqFacts.
Import ListNotations.
Open Scope N_scope.

Lemma map_opt_some_nf : forall l,
  Forall (fun x => nf_key x = true -> exists h, go_hash x = Some h) l ->
  forallb nf_key l = true -> exists ps, map_opt go_hash l = Some ps.
Proof.
  intros l H. induction H as [|x t Hx Ht IH]; intros Hl; cbn.
  - exists []. reflexivity.
  - cbn in Hl. apply andb_true_iff in Hl. destruct Hl as [Px Pt].
    destruct (Hx Px) as [h Eh]. destruct (IH Pt) as [ps Eps]. rewrite Eh, Eps. eexists. reflexivity.
Qed.

Lemma nf_hashable : forall a, nf_key a = true -> exists h, go_hash a = Some h.
Proof.
  induction a using val_ind'; intros Ha; cbn in Ha; try discriminate; cbn [go_hash];
    try (eexists; reflexivity).
  - destruct (in_int64 z || in_uint64 z); [eexists; reflexivity|].
    destruct (Z_to_f64_exact z); eexists; reflexivity.
  - destruct (map_opt_some_nf l H Ha) as [ps E]. rewrite E. eexists. reflexivity.
  - destruct (map_opt_some_nf l H Ha) as [ps E]. rewrite E. eexists. reflexivity.
  - destruct (IHa Ha) as [h E]. rewrite E. eexists. reflexivity.
Qed.

Lemma nf_hashable_b : forall a, nf_key a = true -> hashable a = true.
Proof. intros a H. unfold hashable. destruct (nf_hashable a H) as [h E]. rewrite E. reflexivity. Qed.

(* gomap finds the entry exactly when Python's == holds (integer-fragment keys) *)
Lemma gm_match_py_eq : forall a b v,
  nf_key a = true -> nf_key b = true -> gm_match b (a, v) = py_eq b a.
Proof.
  intros a b v Ha Hb. unfold gm_match. cbn [fst].
  rewrite <- (go_equal_py_eq_nf b a Hb Ha).
  destruct (go_equal b a) eqn:E; [|apply andb_false_r].
  rewrite (hash_agree_same b a (hash_respects_equal_nf b a Hb Ha E)). reflexivity.
Qed.

Lemma dict_set_empty : forall ch a v, hashable a = true -> dict_set ch a v [] = Some [(a, v)].
Proof.
  intros ch a v H. unfold dict_set, dict_del. rewrite H. reflexivity.
Qed.

Lemma dict_get_single : forall ch a b v, hashable b = true ->
  dict_get ch b [(a, v)] = Some (if gm_match b (a, v) then Some v else None).
Proof.
  intros ch a b v H. unfold dict_get. rewrite H. f_equal.
  unfold gm_get, gm_find_pos. cbn [match_positions].
  destruct (gm_match b (a, v)); [|reflexivity].
  destruct (existsb (Nat.eqb (ch [0%nat])) [0%nat]) eqn:E.
  - cbn in E. rewrite orb_false_r in E. apply Nat.eqb_eq in E. rewrite E. reflexivity.
  - reflexivity.
Qed.

(* C07: a Dict that holds a finds it under b exactly when Python's a == b, whatever slot
   order the hash table uses (the chooser) *)
Theorem lookup_follows_py_eq : forall ch a b v,
  nf_key a = true -> nf_key b = true ->
  exists es, dict_set ch a v [] = Some es /\
             dict_get ch b es = Some (if py_eq b a then Some v else None).
Proof.
  intros ch a b v Ha Hb. exists [(a, v)]. split.
  - apply dict_set_empty. apply nf_hashable_b. exact Ha.
  - rewrite dict_get_single by (apply nf_hashable_b; exact Hb).
    rewrite (gm_match_py_eq a b v Ha Hb). reflexivity.
Qed.

(* C17 (API): an unhashable key makes Get / Set / Del panic, contents untouched (the model
   returns None = panic before any entry is read or written) *)
Theorem unhashable_panics : forall ch k v es,
  hashable k = false ->
  dict_get ch k es = None /\ dict_set ch k v es = None /\ dict_del ch k es = None.
Proof.
  intros ch k v es H. unfold dict_set, dict_del, dict_get. rewrite H. repeat split.
Qed.

(* ---- the Dict model computes exactly the reference dictionary's entry list (C08) ------- *)

Section DelLoop.
  Variable ch : chooser.
  Variable k : val.

  Let P (e : val * val) : bool := gm_match k e.

  Lemma match_positions_spec : forall es i p,
    In p (match_positions k es i) ->
    exists e, nth_error es (p - i) = Some e /\ P e = true /\ (i <= p)%nat.
  Proof.
    induction es as [|e t IH]; intros i p H; cbn in H; [contradiction|].
    fold (P e) in H. destruct (P e) eqn:Pe.
    - destruct H as [H|H].
      + subst. exists e. rewrite Nat.sub_diag. cbn. repeat split; [exact Pe|lia].
      + apply IH in H. destruct H as [e' [N [Pe' L]]]. exists e'.
        replace (p - i)%nat with (S (p - S i)) by lia. cbn. repeat split; [exact N|exact Pe'|lia].
    - apply IH in H. destruct H as [e' [N [Pe' L]]]. exists e'.
      replace (p - i)%nat with (S (p - S i)) by lia. cbn. repeat split; [exact N|exact Pe'|lia].
  Qed.

  Lemma match_positions_nil : forall es i,
    match_positions k es i = [] <-> forallb (fun e => negb (P e)) es = true.
  Proof.
    induction es as [|e t IH]; intros i; cbn; [split; reflexivity|].
    fold (P e). destruct (P e); cbn.
    - split; discriminate.
    - apply IH.
  Qed.

  Lemma filter_id : forall es, forallb (fun e => negb (P e)) es = true ->
    filter (fun e => negb (P e)) es = es.
  Proof.
    induction es as [|e t IH]; cbn; intros H; [reflexivity|].
    apply andb_true_iff in H. destruct H as [H1 H2]. rewrite H1. f_equal. apply IH. exact H2.
  Qed.

  Fixpoint count (es : entries) : nat :=
    match es with [] => O | e :: t => (if P e then 1 else 0) + count t end.

  Lemma count_zero : forall es, count es = O <-> forallb (fun e => negb (P e)) es = true.
  Proof.
    induction es as [|e t IH]; cbn; [split; reflexivity|].
    destruct (P e); cbn; [split; [lia|discriminate]|apply IH].
  Qed.

  Lemma remove_match : forall es p e,
    nth_error es p = Some e -> P e = true ->
    filter (fun e => negb (P e)) (remove_nth p es) = filter (fun e => negb (P e)) es
    /\ S (count (remove_nth p es)) = count es.
  Proof.
    induction es as [|x t IH]; intros p e N Pe; [destruct p; discriminate|].
    destruct p as [|p]; cbn in N.
    - inversion N; subst. cbn. rewrite Pe. cbn. split; reflexivity.
    - destruct (IH p e N Pe) as [F Cn]. cbn. rewrite F. split; [reflexivity|].
      destruct (P x); lia.
  Qed.

  Lemma find_pos_cases : forall es,
    (gm_find_pos ch k es = None /\ forallb (fun e => negb (P e)) es = true)
    \/ (exists p e, gm_find_pos ch k es = Some p /\ nth_error es p = Some e /\ P e = true).
  Proof.
    intros es. unfold gm_find_pos. destruct (match_positions k es 0) as [|p0 ps] eqn:M.
    - left. split; [reflexivity|]. apply (match_positions_nil es 0%nat). exact M.
    - right.
      assert (Hin : forall p, In p (p0 :: ps) -> exists e, nth_error es p = Some e /\ P e = true).
      { intros p Hp. rewrite <- M in Hp. apply match_positions_spec in Hp.
        destruct Hp as [e [N [Pe _]]]. rewrite Nat.sub_0_r in N. exists e. split; assumption. }
      destruct (existsb (Nat.eqb (ch (p0 :: ps))) (p0 :: ps)) eqn:E.
      + apply existsb_exists in E. destruct E as [x [Ix Ex]]. apply Nat.eqb_eq in Ex. subst x.
        destruct (Hin _ Ix) as [e [N Pe]]. exists (ch (p0 :: ps)), e. repeat split; assumption.
      + destruct (Hin p0 (or_introl eq_refl)) as [e [N Pe]]. exists p0, e. repeat split; assumption.
  Qed.

  Lemma gm_get_none_iff : forall es,
    gm_get ch k es = None <-> forallb (fun e => negb (P e)) es = true.
  Proof.
    intros es. unfold gm_get. destruct (find_pos_cases es) as [[F A]|[p [e [F [N Pe]]]]]; rewrite F.
    - split; [intros _; exact A|reflexivity].
    - rewrite N. split; [discriminate|].
      intros A. exfalso. rewrite forallb_forall in A.
      apply nth_error_In in N. apply A in N. rewrite Pe in N. discriminate.
  Qed.

  Lemma del_loop_filter : forall fuel es, (count es < fuel)%nat ->
    dict_del_loop fuel ch k es = filter (fun e => negb (P e)) es.
  Proof.
    induction fuel as [|f IH]; intros es Hc; [lia|].
    cbn [dict_del_loop]. unfold gm_delete.
    destruct (find_pos_cases es) as [[F A]|[p [e [F [N Pe]]]]]; rewrite F.
    - (* nothing matches *)
      destruct (gm_get ch k es) eqn:G.
      + exfalso. apply gm_get_none_iff in A. congruence.
      + symmetry. apply filter_id. exact A.
    - destruct (remove_match es p e N Pe) as [Fl Cn].
      destruct (gm_get ch k (remove_nth p es)) eqn:G.
      + rewrite IH by lia. exact Fl.
      + apply gm_get_none_iff in G. rewrite <- Fl. symmetry. apply filter_id. exact G.
  Qed.

  Lemma count_le_length : forall es, (count es <= length es)%nat.
  Proof. induction es as [|e t IH]; cbn; [lia|]. destruct (P e); lia. Qed.
End DelLoop.

Definition nf_entries (es : entries) : Prop := Forall (fun e => nf_key (fst e) = true) es.

Lemma filter_ext_nf : forall k es, nf_key k = true -> nf_entries es ->
  filter (fun e => negb (gm_match k e)) es = ref_remove k es.
Proof.
  intros k es Hk H. unfold ref_remove. induction H as [|[a v] t Ha Ht IH]; cbn; [reflexivity|].
  cbn in Ha. rewrite (gm_match_py_eq a k v Ha Hk). rewrite IH. reflexivity.
Qed.

Lemma ref_remove_nf : forall k es, nf_entries es -> nf_entries (ref_remove k es).
Proof.
  intros k es H. unfold ref_remove, nf_entries in *. rewrite Forall_forall in *.
  intros e He. apply filter_In in He. destruct He as [He _]. apply H. exact He.
Qed.

(* Del and Set of the model = Del and Set of the reference dictionary, for every slot order *)
Theorem dict_del_is_ref : forall ch k es, nf_key k = true -> nf_entries es ->
  dict_del ch k es = Some (ref_del k es).
Proof.
  intros ch k es Hk He. unfold dict_del. rewrite (nf_hashable_b k Hk). f_equal.
  rewrite del_loop_filter by (pose proof (count_le_length k es); lia).
  apply filter_ext_nf; assumption.
Qed.

Lemma ref_remove_nomatch : forall k es, nf_key k = true -> nf_entries es ->
  forallb (fun e => negb (gm_match k e)) (ref_remove k es) = true.
Proof.
  intros k es Hk He. apply forallb_forall. intros [a v] Hin.
  unfold ref_remove in Hin. apply filter_In in Hin. destruct Hin as [Hin Hn]. cbn [fst] in Hn.
  unfold nf_entries in He. rewrite Forall_forall in He. pose proof (He _ Hin) as Ha. cbn in Ha.
  rewrite (gm_match_py_eq a k v Ha Hk). exact Hn.
Qed.

Theorem dict_set_is_ref : forall ch k v es, nf_key k = true -> nf_entries es ->
  dict_set ch k v es = Some (ref_set k v es).
Proof.
  intros ch k v es Hk He. unfold dict_set. rewrite (dict_del_is_ref ch k es Hk He).
  f_equal. unfold gm_set, ref_set, ref_del.
  destruct (find_pos_cases ch k (ref_remove k es)) as [[F A]|[p [e [F [N Pe]]]]]; rewrite F.
  - reflexivity.
  - exfalso. pose proof (ref_remove_nomatch k es Hk He) as A. rewrite forallb_forall in A.
    apply nth_error_In in N. apply A in N. rewrite Pe in N. discriminate.
Qed.

Lemma filter_nil : forall A (f : A -> bool) l, (forall x, In x l -> f x = false) -> filter f l = [].
Proof.
  intros A f l. induction l as [|x t IH]; intros H; cbn; [reflexivity|].
  rewrite (H x (or_introl eq_refl)). apply IH. intros y Hy. apply H. right. exact Hy.
Qed.

(* Get returns the value of SOME stored entry whose key equals the query, and reports
   absence exactly when the reference dictionary does *)
Theorem dict_get_sound : forall ch k es, nf_key k = true -> nf_entries es ->
  match dict_get ch k es with
  | Some (Some v) => exists a, In (a, v) es /\ py_eq k a = true
  | Some None => ref_get k es = None
  | None => False
  end.
Proof.
  intros ch k es Hk He. unfold dict_get. rewrite (nf_hashable_b k Hk).
  unfold nf_entries in He. rewrite Forall_forall in He.
  unfold gm_get. destruct (find_pos_cases ch k es) as [[F A]|[p [[a v] [F [N Pe]]]]]; rewrite F.
  - unfold ref_get. rewrite filter_nil; [reflexivity|].
    intros [a v] Hin. apply in_rev in Hin. cbn [fst].
    pose proof (He _ Hin) as Ha. cbn in Ha.
    rewrite <- (gm_match_py_eq a k v Ha Hk).
    rewrite forallb_forall in A. apply A in Hin. apply negb_true_iff in Hin. exact Hin.
  - rewrite N. cbn [snd]. exists a. split; [apply nth_error_In in N; exact N|].
    pose proof (He _ (nth_error_In _ _ N)) as Ha. cbn in Ha.
    rewrite <- (gm_match_py_eq a k v Ha Hk). exact Pe.
Qed.

(* when at most one stored key equals the query, Get is the reference dictionary's Get *)
Definition unique_match (k : val) (es : entries) : Prop :=
  (length (filter (fun e => py_eq k (fst e)) es) <= 1)%nat.

Theorem dict_get_is_ref : forall ch k es, nf_key k = true -> nf_entries es ->
  unique_match k es -> dict_get ch k es = Some (ref_get k es).
Proof.
  intros ch k es Hk He U.
  pose proof (dict_get_sound ch k es Hk He) as S.
  destruct (dict_get ch k es) as [[v|]|] eqn:G; [|rewrite S; reflexivity|contradiction].
  destruct S as [a [Hin Pa]]. f_equal. unfold ref_get, unique_match in *.
  (* the filtered list has exactly one element, (a, v) *)
  assert (Hf : In (a, v) (filter (fun e => py_eq k (fst e)) es)).
  { apply filter_In. split; [exact Hin|exact Pa]. }
  destruct (filter (fun e => py_eq k (fst e)) es) as [|x [|y t]] eqn:Fe; cbn in U; try lia; [contradiction|].
  destruct Hf as [Hf|[]]. subst x.
  assert (Hr : filter (fun e => py_eq k (fst e)) (rev es) = [(a, v)]).
  { clear - Fe. revert Fe. generalize (fun e : val * val => py_eq k (fst e)). intros f Fe.
    assert (R : forall l, filter f (rev l) = rev (filter f l)).
    { induction l as [|x t IH]; cbn; [reflexivity|].
      rewrite filter_app, IH. cbn. destruct (f x); cbn; [reflexivity|apply app_nil_r]. }
    rewrite R, Fe. reflexivity. }
  rewrite Hr. reflexivity.
Qed.

(* ---- histories ------------------------------------------------------------------------- *)

Definition op_key (o : dop) : val := match o with OpSet k _ | OpDel k | OpGet k => k end.

(* the model Dict after one operation (None = panic) *)
Definition dict_step (ch : chooser) (es : entries) (o : dop) : option entries :=
  match o with
  | OpSet k v => dict_set ch k v es
  | OpDel k => dict_del ch k es
  | OpGet k => match dict_get ch k es with Some _ => Some es | None => None end
  end.
Definition ref_step (es : entries) (o : dop) : entries :=
  match o with
  | OpSet k v => ref_set k v es
  | OpDel k => ref_del k es
  | OpGet _ => es
  end.

Lemma ref_step_nf : forall es o, nf_key (op_key o) = true -> nf_entries es -> nf_entries (ref_step es o).
Proof.
  intros es o Hk He. destruct o as [k v|k|k]; cbn [ref_step op_key] in *.
  - unfold ref_set. apply Forall_app. split; [apply ref_remove_nf; exact He|].
    constructor; [exact Hk|constructor].
  - apply ref_remove_nf. exact He.
  - exact He.
Qed.

(* C08: after ANY history of Set / Del / Get with hashable (integer-fragment) keys, for ANY
   slot order, the model Dict holds exactly the reference dictionary's entries *)
Theorem history_refines : forall ch ops es,
  Forall (fun o => nf_key (op_key o) = true) ops -> nf_entries es ->
  fold_left (fun acc o => match acc with Some e => dict_step ch e o | None => None end) ops (Some es)
  = Some (fold_left ref_step ops es) /\ nf_entries (fold_left ref_step ops es).
Proof.
  intros ch ops. induction ops as [|o t IH]; intros es Ho He; cbn [fold_left].
  - split; [reflexivity|exact He].
  - inversion Ho as [|? ? Hk Ht]; subst.
    assert (E : dict_step ch es o = Some (ref_step es o)).
    { destruct o as [k v|k|k]; cbn [dict_step ref_step op_key] in *.
      - apply dict_set_is_ref; assumption.
      - apply dict_del_is_ref; assumption.
      - pose proof (dict_get_sound ch k es Hk He) as S.
        destruct (dict_get ch k es); [reflexivity|contradiction]. }
    rewrite E. apply IH; [exact Ht|apply ref_step_nf; assumption].
Qed.

(* no two stored keys are equal to each other, after any history *)
Definition apart (a b : val * val) : Prop :=
  py_eq (fst a) (fst b) = false /\ py_eq (fst b) (fst a) = false.

Fixpoint distinct (es : entries) : Prop :=
  match es with
  | [] => True
  | e :: t => Forall (apart e) t /\ distinct t
  end.

Lemma Forall_filter : forall A (P : A -> Prop) f l, Forall P l -> Forall P (filter f l).
Proof.
  intros A P f l H. induction H as [|x t Hx Ht IH]; cbn; [constructor|].
  destruct (f x); [constructor; assumption|exact IH].
Qed.

Lemma distinct_filter : forall f es, distinct es -> distinct (filter f es).
Proof.
  intros f es. induction es as [|e t IH]; cbn; intros H; [exact I|].
  destruct H as [Hf Hd]. destruct (f e); cbn.
  - split; [apply Forall_filter; exact Hf|apply IH; exact Hd].
  - apply IH. exact Hd.
Qed.

Lemma distinct_snoc : forall es x, distinct es -> Forall (fun e => apart e x) es -> distinct (es ++ [x]).
Proof.
  induction es as [|e t IH]; intros x Hd Hx; cbn.
  - split; [constructor|exact I].
  - destruct Hd as [Hf Hd]. inversion Hx as [|? ? Hex Htx]; subst. split.
    + apply Forall_app. split; [exact Hf|constructor; [exact Hex|constructor]].
    + apply IH; assumption.
Qed.

Lemma ref_step_distinct : forall es o, nf_key (op_key o) = true -> nf_entries es ->
  distinct es -> distinct (ref_step es o).
Proof.
  intros es o Hk He Hd. destruct o as [k v|k|k]; cbn [ref_step op_key] in *.
  - unfold ref_set. apply distinct_snoc.
    + unfold ref_remove. apply distinct_filter. exact Hd.
    + apply Forall_forall. intros [a w] Hin. unfold ref_remove in Hin. apply filter_In in Hin.
      destruct Hin as [Hin Hn]. cbn [fst] in Hn. apply negb_true_iff in Hn.
      unfold nf_entries in He. rewrite Forall_forall in He. pose proof (He _ Hin) as Ha. cbn in Ha.
      unfold apart. cbn [fst]. split; [rewrite (py_eq_sym_nf a k Ha Hk); exact Hn|exact Hn].
  - unfold ref_del, ref_remove. apply distinct_filter. exact Hd.
  - exact Hd.
Qed.

Theorem history_distinct : forall ops es,
  Forall (fun o => nf_key (op_key o) = true) ops -> nf_entries es -> distinct es ->
  distinct (fold_left ref_step ops es).
Proof.
  induction ops as [|o t IH]; intros es Ho He Hd; cbn [fold_left]; [exact Hd|].
  inversion Ho as [|? ? Hk Ht]; subst.
  apply IH; [exact Ht|apply ref_step_nf; assumption|apply ref_step_distinct; assumption].
Qed.

(* the Del loop needs at most (number of equal entries + 1) rounds: it terminates *)
Theorem del_loop_terminates : forall ch k es fuel, (length es < fuel)%nat ->
  dict_del_loop fuel ch k es = dict_del_loop (S (length es)) ch k es.
Proof.
  intros ch k es fuel H.
  rewrite !del_loop_filter; [reflexivity| |]; pose proof (count_le_length k es); lia.
Qed.

(* ---- C17, decoder half: a key the target cannot hold makes the assignment fail --------------- *)
From OgRek Require Import Reader Decoder.

Definition key_rejected (m k : val) : Prop :=
  match m with
  | VMap _ => go_unhashable k = true
  | VDict _ => hashable k = false
  | _ => True
  end.

Lemma try_assign_rejects : forall h m k v, key_rejected m k -> try_assign h m k v = None.
Proof.
  intros h m k v R. unfold try_assign. destruct m; try reflexivity; cbn in R.
  - destruct (heap_get h id) as [[es|es]|]; try reflexivity. rewrite R. reflexivity.
  - destruct (heap_get h id) as [[es|es]|]; try reflexivity.
    unfold dict_set, dict_del. rewrite R. reflexivity.
Qed.

(* keys sit at the even positions of the items k1 v1 k2 v2 ... *)
Fixpoint keys_of (items : list val) : list val :=
  match items with
  | k :: _ :: t => k :: keys_of t
  | _ => []
  end.

Lemma assign_pairs_rejects_n : forall n items h m, (length items <= n)%nat ->
  (exists k, In k (keys_of items) /\ key_rejected m k) -> snd (assign_pairs h m items) = false.
Proof.
  induction n as [|n IH]; intros items h m Hl [k [Hin R]].
  - destruct items; [contradiction|cbn in Hl; lia].
  - destruct items as [|k0 [|v0 t]]; try contradiction.
    cbn [assign_pairs]. cbn [keys_of] in Hin.
    destruct (try_assign h m k0 v0) as [h1|] eqn:T; [|reflexivity].
    destruct Hin as [E|Hin].
    + subst k0. rewrite (try_assign_rejects h m k v0 R) in T. discriminate.
    + apply IH; [cbn in Hl; lia|]. exists k. split; assumption.
Qed.

Lemma assign_pairs_rejects : forall items h m,
  (exists k, In k (keys_of items) /\ key_rejected m k) -> snd (assign_pairs h m items) = false.
Proof. intros items h m. apply (assign_pairs_rejects_n (length items)). lia. Qed.

(* SETITEM: error, not panic, not success; nothing is assigned *)
Theorem setitem_rejects : forall cfg key insn st v k m t,
  d_stack st = v :: k :: m :: t -> is_mark k = false -> is_mark v = false ->
  (exists id, m = VMap id \/ m = VDict id) -> key_rejected m k ->
  handler cfg OSetitem key insn st = Ret (HErr (set_stack st (m :: t)) EOther).
Proof.
  intros cfg key insn st v k m t E Mk Mv [id [-> | ->]] R; cbn [handler]; rewrite E, Mk, Mv; cbn [orb];
    rewrite (try_assign_rejects _ _ k v R); reflexivity.
Qed.

(* SETITEMS: error as soon as the rejected key is reached; the Decode call fails *)
Theorem setitems_rejects : forall cfg key insn st above m t,
  split_mark (d_stack st) = Some (above, m :: t) -> Nat.odd (length above) = false ->
  (exists id, m = VMap id \/ m = VDict id) ->
  (exists k, In k (keys_of (rev above)) /\ key_rejected m k) ->
  exists h, handler cfg OSetitems key insn st = Ret (HErr (set_heap st h) EOther).
Proof.
  intros cfg key insn st above m t S O [id Hm] K. cbn [handler]. rewrite S, O.
  pose proof (assign_pairs_rejects (rev above) (d_heap st) m K) as A.
  destruct (assign_pairs (d_heap st) m (rev above)) as [h b] eqn:P. cbn in A. subst b.
  exists h. destruct Hm as [-> | ->]; reflexivity.
Qed.

(* DICT: the fresh map / Dict is discarded and the Decode call fails *)
Theorem dict_rejects : forall cfg key insn st above below,
  split_mark (d_stack st) = Some (above, below) -> Nat.odd (length above) = false ->
  (exists k, In k (keys_of (rev above)) /\
             (if c_pydict cfg then hashable k = false else go_unhashable k = true)) ->
  handler cfg ODict key insn st = Ret (HErr st EOther).
Proof.
  intros cfg key insn st above below S O [k [Hin R]]. cbn [handler]. rewrite S, O.
  unfold new_dict_obj. cbn [fresh]. destruct (c_pydict cfg) eqn:P.
  - match goal with |- context[assign_pairs ?h ?m ?i] =>
      pose proof (assign_pairs_rejects i h m (ex_intro _ k (conj Hin R))) as A;
      destruct (assign_pairs h m i) as [h' b] end. cbn in A. subst b. reflexivity.
  - match goal with |- context[assign_pairs ?h ?m ?i] =>
      pose proof (assign_pairs_rejects i h m (ex_intro _ k (conj Hin R))) as A;
      destruct (assign_pairs h m i) as [h' b] end. cbn in A. subst b. reflexivity.
Qed.
