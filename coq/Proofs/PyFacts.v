(* PyFacts.v — C01: the instruction program of Encode's output, run by the CPython machine of
   Model/PyVM.v, loads the Python value the documented table assigns to the Go value. *)
From Coq Require Import Ascii String.
From Coq Require Import List ZArith NArith Bool Lia.
From Coq.Strings Require Import Byte.
From OgRek Require Import Base Utf8 GoStrconv PyQuote Float Value PyEq Encoder Norm Insn EncProg PyVM PyVal.
From OgRek Require Import BaseFacts IntFacts EncoderFacts ExecFacts ProgFacts Utf8Facts QuoteFacts RueFacts.
Import ListNotations.
Open Scope N_scope.

Lemma pseq_app : forall pr a b s s', pseq pr a s = Some s' -> pseq pr (a ++ b) s = pseq pr b s'.
Proof.
  induction a as [|i r IH]; intros b s s' H; cbn in *.
  - inversion H; reflexivity.
  - destruct (pstep pr i s) as [s1|]; [|discriminate]. apply IH. exact H.
Qed.

Lemma ppop_mark_app : forall xs tail acc,
  ppop_mark (rev (map PObj xs) ++ tail) acc = ppop_mark tail (xs ++ acc).
Proof.
  induction xs as [|x r IH]; intros tail acc; [reflexivity|].
  cbn [map rev]. rewrite <- app_assoc. rewrite IH. reflexivity.
Qed.

Section PY.
  Variable c : econfig.
  Definition pr : N := if (2 <=? e_proto c)%Z then Z.to_N (e_proto c) else 0.

  Definition pgood (p : wprog) (l : list insn) (x : pv) : Prop :=
    wok p /\ forall s, pseq pr l s = Some (PObj x :: s).
  Definition pgood_many (p : wprog) (l : list insn) (xs : list pv) : Prop :=
    wok p /\ forall s, pseq pr l s = Some (rev (map PObj xs) ++ s).

  Lemma pg_one : forall p i x, wok p -> (forall s, pstep pr i s = Some (PObj x :: s)) -> pgood p [i] x.
  Proof. intros p i x W H. split; [exact W|]. intros s. cbn. rewrite H. reflexivity. Qed.

  Lemma pg_many_nil : pgood_many WDone [] [].
  Proof. split; [apply wok_WDone|]. intros s. reflexivity. Qed.

  Lemma pg_many_cons : forall p l x q m xs,
    pgood p l x -> pgood_many q m xs -> pgood_many (wseq p q) (l ++ m) (x :: xs).
  Proof.
    intros p l x q m xs [Wp Hp] [Wq Hq]. split; [apply wok_wseq; assumption|].
    intros s. rewrite (pseq_app _ _ _ _ _ (Hp s)). rewrite Hq. cbn [map rev]. rewrite <- app_assoc. reflexivity.
  Qed.

  Lemma pg_many_one : forall p l x, pgood p l x -> pgood_many p l [x].
  Proof. intros p l x [W H]. split; [exact W|]. intros s. rewrite H. reflexivity. Qed.

  (* ---- leaves ------------------------------------------------------------------------------ *)

  Lemma py_bool : forall b, pgood (enc_bool c b) (p_bool c b) (PBool b).
  Proof.
    intros b. unfold enc_bool, p_bool. destruct (2 <=? e_proto c)%Z; apply pg_one; try apply wok_emit;
      intros s; destruct b; reflexivity.
  Qed.

  Lemma int_text_step : forall z s, pstep pr (IInt (fmt_d z)) s = Some (PObj (PInt z) :: s).
  Proof.
    intros z s. cbn [pstep]. unfold fmt_d. destruct (dec_of_Z_not_bool z) as [N0 N1].
    unfold int_text. rewrite N0, N1, parse_dec_Z_dec_of_Z, bytes_eqb_refl. reflexivity.
  Qed.

  Lemma py_int : forall z, pgood (enc_int c z) (p_int c z) (PInt z).
  Proof.
    intros z. unfold enc_int, p_int.
    destruct ((1 <=? e_proto c)%Z && (0 <=? z)%Z && (z <=? 255)%Z) eqn:E1.
    { apply pg_one; [apply wok_emit|]. intros s. cbn [pstep]. unfold push1. repeat f_equal.
      apply andb_true_iff in E1. destruct E1 as [E1 E3]. apply andb_true_iff in E1. destruct E1 as [_ E2].
      apply Z.leb_le in E2, E3. rewrite N.mod_small by lia. lia. }
    destruct ((1 <=? e_proto c)%Z && (0 <=? z)%Z && (z <=? 65535)%Z) eqn:E2.
    { apply pg_one; [apply wok_emit|]. intros s. cbn [pstep]. unfold push1. repeat f_equal.
      apply andb_true_iff in E2. destruct E2 as [E2 E4]. apply andb_true_iff in E2. destruct E2 as [_ E3].
      apply Z.leb_le in E3, E4. rewrite N.mod_small by lia. lia. }
    destruct ((1 <=? e_proto c)%Z && (-2147483648 <=? z)%Z && (z <=? 2147483647)%Z) eqn:E3.
    { apply pg_one; [apply wok_emit|]. intros s. cbn [pstep]. unfold push1. repeat f_equal.
      apply andb_true_iff in E3. destruct E3 as [E3 E5]. apply andb_true_iff in E3. destruct E3 as [_ E4].
      apply Z.leb_le in E4, E5. unfold wrap_u. change (Z.of_N (2 ^ 32)) with 4294967296%Z.
      assert (M : (0 <= z mod 4294967296 < 4294967296)%Z) by (apply Z.mod_pos_bound; lia).
      rewrite N.mod_small by lia.
      destruct (Z.to_N (z mod 4294967296) <? 2147483648) eqn:L.
      - apply N.ltb_lt in L. rewrite Z2N.id by lia.
        destruct (Z_lt_le_dec z 0) as [Hn|Hp].
        + exfalso. assert (z mod 4294967296 = z + 4294967296)%Z.
          { symmetry. apply Z.mod_unique with (q := (-1)%Z); lia. } lia.
        + apply Z.mod_small. lia.
      - apply N.ltb_ge in L. rewrite Z2N.id by lia.
        destruct (Z_lt_le_dec z 0) as [Hn|Hp].
        + assert (z mod 4294967296 = z + 4294967296)%Z.
          { symmetry. apply Z.mod_unique with (q := (-1)%Z); lia. } lia.
        + exfalso. rewrite Z.mod_small in L by lia. lia. }
    apply pg_one; [apply wok_emit|]. apply int_text_step.
  Qed.

  Lemma py_uint : forall z, pgood (enc_uint c z) (p_uint c z) (PInt z).
  Proof.
    intros z. unfold enc_uint, p_uint. destruct (z <=? int64_max)%Z; [apply py_int|].
    apply pg_one; [apply wok_emit|]. apply int_text_step.
  Qed.

  Lemma py_long : forall z, pgood (enc_long z) (p_long z) (PInt z).
  Proof.
    intros z. apply pg_one; [apply wok_emit|]. intros s. cbn [pstep]. unfold fmt_d, int_text.
    rewrite parse_dec_Z_dec_of_Z, bytes_eqb_refl. reflexivity.
  Qed.

  Lemma py_float : forall f x,
    (if (1 <=? e_proto c)%Z then (if f <? 2 ^ 64 then Some (PFloat f) else None)
     else match float_text (e_fmtg c f) with
          | Some b => if b =? f then Some (PFloat f) else None
          | None => None
          end) = Some x ->
    pgood (enc_float c f) (p_float c f) x.
  Proof.
    intros f x H. unfold enc_float, p_float. destruct (1 <=? e_proto c)%Z.
    - destruct (f <? 2 ^ 64) eqn:Hf; [|discriminate]. inversion H; subst. apply N.ltb_lt in Hf.
      apply pg_one; [apply wok_emit|]. intros s. cbn [pstep]. rewrite N.mod_small by exact Hf. reflexivity.
    - destruct (float_text (e_fmtg c f)) as [b|] eqn:T; [|discriminate].
      destruct (b =? f) eqn:E; [|discriminate]. inversion H; subst. apply N.eqb_eq in E. subst b.
      apply pg_one; [apply wok_emit|]. intros s. cbn [pstep]. rewrite T. reflexivity.
  Qed.

  Lemma wok_emit2 : forall a b, wok (wseq (emit a) (emit b)).
  Proof. intros. apply wok_wseq; apply wok_emit. Qed.

  Lemma py_bytestring : forall s x, pv_bytestring c s = Some x ->
    pgood (enc_bytestring c s) (p_bytestring c s) x.
  Proof.
    intros s x H. unfold pv_bytestring in H. unfold enc_bytestring, p_bytestring. cbv zeta.
    destruct (1 <=? e_proto c)%Z eqn:E1.
    - destruct (Nlen s <? 2147483648) eqn:E2; [|discriminate]. inversion H; subst.
      destruct (Nlen s <? 256) eqn:L; (apply pg_one; [apply wok_emit2|]); intros st; cbn [pstep].
      + rewrite L. reflexivity.
      + rewrite E2. reflexivity.
    - inversion H; subst. apply pg_one; [apply wok_emit|]. intros st. cbn [pstep].
      unfold pyquote. set (body := pyquote_loop (e_isprint c) (length s) s).
      rewrite lastb_app_one. change (beqb """"%byte """"%byte) with true.
      change (beqb """"%byte "'"%byte || beqb """"%byte """"%byte) with true. cbn [andb].
      pose proof (nolf_pyquote (e_isprint c) s) as NL. unfold pyquote in NL. fold body in NL.
      unfold nolf, IntFacts.no_lf in NL. unfold PyVM.no_lf. rewrite NL.
      rewrite removelast_last. unfold body. rewrite pydecode_string_escape_pyquote_body. reflexivity.
  Qed.

  Lemma py_unicode : forall s x, pv_unicode c s = Some x -> pgood (enc_unicode c s) (p_unicode c s) x.
  Proof.
    intros s x H. unfold pv_unicode, uni_ok in H. unfold enc_unicode, p_unicode. cbv zeta.
    destruct (1 <=? e_proto c)%Z eqn:E1.
    - destruct (len32 s && utf8_valid s) eqn:E; [|discriminate]. inversion H; subst.
      apply andb_true_iff in E. destruct E as [E2 E3].
      destruct ((Nlen s <? 256) && (4 <=? e_proto c)%Z) eqn:L; (apply pg_one; [apply wok_emit2|]); intros st; cbn [pstep].
      + apply andb_true_iff in L. destruct L as [L _]. rewrite L, E3. reflexivity.
      + unfold len32 in E2. rewrite E2, E3. reflexivity.
    - destruct (pyencode_raw_unicode_escape s) as [e|] eqn:E; [|discriminate]. inversion H; subst.
      destruct (rue_roundtrip s e E) as [D Nl]. apply pg_one; [apply wok_emit|]. intros st. cbn [pstep].
      rewrite D. unfold IntFacts.no_lf in Nl. unfold PyVM.no_lf. rewrite Nl. reflexivity.
  Qed.

  Lemma py_string : forall s x, pv_string c s = Some x -> pgood (enc_string c s) (p_string c s) x.
  Proof.
    intros s x H. unfold pv_string in H. unfold enc_string, p_string.
    destruct (e_strict c || (3 <=? e_proto c)%Z); [apply py_unicode|apply py_bytestring]; exact H.
  Qed.

  Lemma has_lf_no_lf : forall s, PyVM.no_lf s = negb (has_lf s).
  Proof.
    induction s as [|b t IH]; [reflexivity|]. unfold PyVM.no_lf, has_lf in *. cbn. rewrite IH.
    destruct (beqb b x0a); reflexivity.
  Qed.

  Lemma py_class : forall m n, pv_class_ok c m n = true -> pgood (enc_class c m n) (p_class c m n) (PGlobal m n).
  Proof.
    intros m n H. unfold pv_class_ok in H. unfold enc_class, p_class. destruct (4 <=? e_proto c)%Z eqn:E4.
    - apply andb_true_iff in H. destruct H as [Hm Hn].
      assert (Pm : pv_unicode c m = Some (PUni m)) by (unfold pv_unicode; rewrite Hm; reflexivity).
      assert (Pn : pv_unicode c n = Some (PUni n)) by (unfold pv_unicode; rewrite Hn; reflexivity).
      assert (Sm : pgood (enc_string c m) (p_string c m) (PUni m)).
      { unfold enc_string, p_string. destruct (e_strict c || (3 <=? e_proto c)%Z) eqn:E; [apply py_unicode; exact Pm|].
        exfalso. apply orb_false_iff in E. destruct E as [_ E]. apply Z.leb_le in E4. apply Z.leb_gt in E. lia. }
      assert (Sn : pgood (enc_string c n) (p_string c n) (PUni n)).
      { unfold enc_string, p_string. destruct (e_strict c || (3 <=? e_proto c)%Z) eqn:E; [apply py_unicode; exact Pn|].
        exfalso. apply orb_false_iff in E. destruct E as [_ E]. apply Z.leb_le in E4. apply Z.leb_gt in E. lia. }
      destruct Sm as [Wm Hm']. destruct Sn as [Wn Hn'].
      split; [apply wok_wseq; [exact Wm|apply wok_wseq; [exact Wn|apply wok_emit]]|].
      intros s. rewrite (pseq_app _ _ _ _ _ (Hm' s)). rewrite (pseq_app _ _ _ _ _ (Hn' _)). reflexivity.
    - apply andb_true_iff in H. destruct H as [H Vn]. apply andb_true_iff in H. destruct H as [H Vm].
      apply andb_true_iff in H. destruct H as [Lm Ln].
      assert (HL : has_lf m || has_lf n = false).
      { rewrite has_lf_no_lf in Lm, Ln. apply negb_true_iff in Lm, Ln. rewrite Lm, Ln. reflexivity. }
      rewrite HL. apply pg_one; [apply wok_emit|]. intros s. cbn [pstep]. rewrite Lm, Ln, Vm, Vn. reflexivity.
  Qed.

  (* ---- composites -------------------------------------------------------------------------- *)

  Lemma py_tuple : forall items l xs n, length xs = n -> pgood_many items l xs ->
    pgood (wrap_tuple c n items) (p_tuple c n l) (PTuple xs).
  Proof.
    intros items l xs n Hn [W H]. unfold wrap_tuple, p_tuple.
    destruct ((2 <=? e_proto c)%Z && Nat.leb 1 n && Nat.leb n 3) eqn:E.
    { apply andb_true_iff in E. destruct E as [E E3]. apply andb_true_iff in E. destruct E as [_ E1].
      apply Nat.leb_le in E1, E3. split; [apply wok_wseq; [exact W|apply wok_emit]|].
      intros s. rewrite (pseq_app _ _ _ _ _ (H s)).
      destruct xs as [|a [|b [|d [|e r]]]]; cbn [length] in Hn; subst n; try lia; reflexivity. }
    destruct ((1 <=? e_proto c)%Z && Nat.eqb n 0) eqn:E0.
    { apply andb_true_iff in E0. destruct E0 as [_ E0]. apply Nat.eqb_eq in E0. subst n.
      destruct xs; [|discriminate]. apply pg_one; [apply wok_emit|]. reflexivity. }
    split; [apply wok_wseq; [apply wok_emit|apply wok_wseq; [exact W|apply wok_emit]]|].
    intros s. cbn [pseq pstep]. rewrite (pseq_app _ _ _ _ _ (H (PMark :: s))).
    cbn [pseq pstep]. rewrite ppop_mark_app. cbn [ppop_mark]. rewrite app_nil_r. reflexivity.
  Qed.

  Lemma py_call_plain : forall m n k args l xs,
    pv_class_ok c m n = true -> plain_classb m n = true -> length xs = k -> pgood_many args l xs ->
    pgood (wrap_call c m n k args) (p_call c m n k l) (PCall (PGlobal m n) xs).
  Proof.
    intros m n k args l xs Hc Hp Hk Ha. unfold wrap_call, p_call.
    destruct (py_class m n Hc) as [Wc Pc]. destruct (py_tuple args l xs k Hk Ha) as [Wt Pt].
    split; [apply wok_wseq; [exact Wc|apply wok_wseq; [exact Wt|apply wok_emit]]|].
    intros s. rewrite (pseq_app _ _ _ _ _ (Pc s)). rewrite (pseq_app _ _ _ _ _ (Pt _)).
    cbn [pseq pstep]. unfold py_call.
    unfold plain_classb in Hp. apply andb_true_iff in Hp. destruct Hp as [H1 H2]. apply negb_true_iff in H1, H2.
    rewrite H1, H2. cbn [andb]. rewrite andb_false_r. reflexivity.
  Qed.

  Lemma class_ok_const : forall m n, uni_ok c m = true \/ (4 <=? e_proto c)%Z = false ->
    uni_ok c n = true \/ (4 <=? e_proto c)%Z = false ->
    PyVM.no_lf m = true -> PyVM.no_lf n = true -> utf8_valid m = true -> utf8_valid n = true ->
    pv_class_ok c m n = true.
  Proof.
    intros m n Hm Hn Lm Ln Vm Vn. unfold pv_class_ok. destruct (4 <=? e_proto c)%Z.
    - destruct Hm as [Hm|Hm]; [|discriminate]. destruct Hn as [Hn|Hn]; [|discriminate]. rewrite Hm, Hn. reflexivity.
    - rewrite Lm, Ln, Vm, Vn. reflexivity.
  Qed.

  Lemma uni_ok_small : forall s, (1 <= e_proto c)%Z -> Nlen s < 4294967296 -> utf8_valid s = true -> uni_ok c s = true.
  Proof.
    intros s Hp Hl Hv. unfold uni_ok, len32. apply Z.leb_le in Hp. apply N.ltb_lt in Hl. rewrite Hp, Hl, Hv. reflexivity.
  Qed.

  Lemma py_bytes : forall s x, pv_bytes c s = Some x -> pgood (enc_bytes c s) (p_bytes c s) x.
  Proof.
    intros s x H. unfold pv_bytes in H. destruct (bytes_ok c s) eqn:B; [|discriminate]. inversion H; subst.
    unfold bytes_ok in B. unfold enc_bytes, p_bytes. cbv zeta. destruct (3 <=? e_proto c)%Z eqn:E3.
    - unfold len32 in B. destruct (Nlen s <? 256) eqn:L; (apply pg_one; [apply wok_emit2|]); intros st; cbn [pstep].
      + rewrite L. reflexivity.
      + rewrite B. reflexivity.
    - assert (PU : pv_unicode c (latin1_to_utf8 s) = Some (PUni (latin1_to_utf8 s))).
      { unfold pv_unicode, uni_ok. unfold uni_fits in B. destruct (1 <=? e_proto c)%Z.
        - rewrite B. change (latin1_to_utf8 s) with (l1 s). rewrite utf8_valid_latin1. reflexivity.
        - destruct (pyencode_raw_unicode_escape (latin1_to_utf8 s)); [reflexivity|discriminate]. }
      assert (PB : pv_bytestring c (bs "latin1") = Some (PStr (bs "latin1"))).
      { unfold pv_bytestring. destruct (1 <=? e_proto c)%Z; reflexivity. }
      pose proof (py_unicode _ _ PU) as GU. pose proof (py_bytestring _ _ PB) as GB.
      assert (GM : pgood_many (wseq (enc_unicode c (latin1_to_utf8 s)) (enc_bytestring c (bs "latin1")))
                              (p_unicode c (latin1_to_utf8 s) ++ p_bytestring c (bs "latin1"))
                              [PUni (latin1_to_utf8 s); PStr (bs "latin1")]).
      { rewrite <- (app_nil_r (p_bytestring c (bs "latin1"))).
        replace (enc_bytestring c (bs "latin1")) with (wseq (enc_bytestring c (bs "latin1")) WDone).
        2:{ generalize (enc_bytestring c (bs "latin1")). induction w; cbn; congruence. }
        apply pg_many_cons; [exact GU|]. apply pg_many_cons; [exact GB|apply pg_many_nil]. }
      assert (CO : pv_class_ok c (bs "_codecs") (bs "encode") = true).
      { apply class_ok_const; try reflexivity; right; apply Z.leb_gt; apply Z.leb_gt in E3; lia. }
      unfold wrap_call, p_call.
      destruct (py_class _ _ CO) as [Wc Pc].
      destruct (py_tuple _ _ [PUni (latin1_to_utf8 s); PStr (bs "latin1")] 2%nat eq_refl GM) as [Wt Pt].
      split; [apply wok_wseq; [exact Wc|apply wok_wseq; [exact Wt|apply wok_emit]]|].
      intros st. rewrite (pseq_app _ _ _ _ _ (Pc st)). rewrite (pseq_app _ _ _ _ _ (Pt _)).
      cbn [pseq pstep]. unfold py_call. rewrite !bytes_eqb_refl. cbn [length Nat.eqb nth andb is_text].
      rewrite bytes_eqb_refl. change (latin1_to_utf8 s) with (l1 s).
      rewrite utf8_valid_latin1, utf8_runes_latin1.
      assert (F : forallb (fun r => r <? 256) (map b2N s) = true).
      { apply forallb_forall. intros r Hr. apply in_map_iff in Hr. destruct Hr as [b [<- _]]. apply N.ltb_lt. apply b2N_lt. }
      rewrite F. cbn [andb]. rewrite map_map.
      replace (map (fun x => N2b (b2N x)) s) with s; [reflexivity|].
      rewrite <- (map_id s) at 1. apply map_ext. intros b. symmetry. apply N2b_b2N.
  Qed.

  Lemma builtin_agree : (if pr <=? 2 then bs "__builtin__" else bs "builtins") = pybuiltin_mod c.
  Proof.
    unfold pr, pybuiltin_mod.
    destruct (2 <=? e_proto c)%Z eqn:E2; destruct (e_proto c <=? 2)%Z eqn:E3.
    - assert (e_proto c = 2%Z) by lia. rewrite H. reflexivity.
    - assert (L : (Z.to_N (e_proto c) <=? 2) = false) by (apply N.leb_gt; lia). rewrite L. reflexivity.
    - reflexivity.
    - lia.
  Qed.

  Lemma py_bytearray : forall s x, pv_bytearray c s = Some x -> pgood (enc_bytearray c s) (p_bytearray c s) x.
  Proof.
    intros s x H. unfold pv_bytearray in H. destruct (barr_ok c s) eqn:B; [|discriminate]. inversion H; subst.
    unfold barr_ok in B. unfold enc_bytearray, p_bytearray. destruct (5 <=? e_proto c)%Z eqn:E5.
    - apply pg_one; [apply wok_emit2|]. intros st. cbn [pstep]. rewrite B. reflexivity.
    - assert (PB : pv_bytes c s = Some (PBytes s)) by (unfold pv_bytes; rewrite B; reflexivity).
      pose proof (pg_many_one _ _ _ (py_bytes s _ PB)) as GM.
      assert (CO : pv_class_ok c (pybuiltin_mod c) (bs "bytearray") = true).
      { unfold pybuiltin_mod. destruct (e_proto c <=? 2)%Z eqn:E2.
        - apply class_ok_const; try reflexivity; right; apply Z.leb_gt; apply Z.leb_le in E2; lia.
        - apply Z.leb_gt in E2. apply class_ok_const; try reflexivity; (left; apply uni_ok_small; [lia|reflexivity|reflexivity]). }
      unfold wrap_call, p_call.
      destruct (py_class _ _ CO) as [Wc Pc].
      destruct (py_tuple _ _ [PBytes s] 1%nat eq_refl GM) as [Wt Pt].
      split; [apply wok_wseq; [exact Wc|apply wok_wseq; [exact Wt|apply wok_emit]]|].
      intros st. rewrite (pseq_app _ _ _ _ _ (Pc st)). rewrite (pseq_app _ _ _ _ _ (Pt _)).
      cbn [pseq pstep]. unfold py_call.
      assert (NC : bytes_eqb (pybuiltin_mod c) (bs "_codecs") = false)
        by (unfold pybuiltin_mod; destruct (e_proto c <=? 2)%Z; reflexivity).
      rewrite NC. cbn [andb]. rewrite builtin_agree, !bytes_eqb_refl. reflexivity.
  Qed.

  Lemma py_ref : forall pid p l pidv x, pv_ref c pid pidv = Some x ->
    (forall y, pidv = Some y -> pgood p l y) -> pgood (enc_ref c pid p) (p_ref c pid l) x.
  Proof.
    intros pid p l pidv x H G. unfold pv_ref in H. unfold enc_ref, p_ref. destruct (e_proto c =? 0)%Z.
    - destruct pid; try discriminate. destruct ty; try discriminate.
      destruct (PyVM.no_lf s && ascii_only s) eqn:E; [|discriminate]. inversion H; subst.
      apply andb_true_iff in E. destruct E as [E1 E2].
      assert (HL : has_lf s = false) by (rewrite has_lf_no_lf in E1; apply negb_true_iff in E1; exact E1).
      rewrite HL. apply pg_one; [apply wok_emit|]. intros st. cbn [pstep]. rewrite E1, E2. reflexivity.
    - destruct pidv as [y|]; [|discriminate]. inversion H; subst. destruct (G y eq_refl) as [W P].
      split; [apply wok_wseq; [exact W|apply wok_emit]|].
      intros st. rewrite (pseq_app _ _ _ _ _ (P st)). reflexivity.
  Qed.

  (* MARK items DICT *)
  Lemma py_dict_marked : forall items l xs es, pgood_many items l xs -> pd_of_items xs [] = Some es ->
    pgood (wseq (emit [x28]) (wseq items (emit [x64]))) (IMark :: l ++ [IDict]) (PDict es).
  Proof.
    intros items l xs es [W H] D.
    split; [apply wok_wseq; [apply wok_emit|apply wok_wseq; [exact W|apply wok_emit]]|].
    intros s. cbn [pseq pstep]. rewrite (pseq_app _ _ _ _ _ (H (PMark :: s))).
    cbn [pseq pstep]. rewrite ppop_mark_app. cbn [ppop_mark]. rewrite app_nil_r, D. reflexivity.
  Qed.

  Lemma pd_of_items_nil_inv : forall xs es, pd_of_items xs [] = Some es -> length xs = 0%nat -> es = [].
  Proof. intros xs es H L. destruct xs; [inversion H; reflexivity|discriminate]. Qed.

  Lemma map_opt_len' : forall A B (f : A -> option B) l r, map_opt f l = Some r -> length r = length l.
  Proof.
    intros A B f. induction l as [|x t IH]; intros r H; cbn in H.
    - inversion H. reflexivity.
    - destruct (f x); [|discriminate]. destruct (map_opt f t) eqn:E; [|discriminate].
      inversion H; subst. cbn. f_equal. apply IH. reflexivity.
  Qed.

  Lemma py_dict_like : forall (es : list (rval * rval)) items l xs d,
    pgood_many items l xs -> (length es = 0%nat -> xs = []) -> pd_of_items xs [] = Some d ->
    pgood (if (1 <=? e_proto c)%Z && Nat.eqb (length es) 0 then emit [x7d]
           else wseq (emit [x28]) (wseq items (emit [x64])))
          (if (1 <=? e_proto c)%Z && Nat.eqb (length es) 0 then [IEmptyDict] else IMark :: l ++ [IDict])
          (PDict d).
  Proof.
    intros es items l xs d G E0 D. destruct ((1 <=? e_proto c)%Z && Nat.eqb (length es) 0) eqn:E.
    - apply andb_true_iff in E. destruct E as [_ E]. apply Nat.eqb_eq in E. rewrite (E0 E) in D.
      inversion D; subst. apply pg_one; [apply wok_emit|]. reflexivity.
    - eapply py_dict_marked; eassumption.
  Qed.

  (* the value: the program of its encoding loads the documented Python value *)
  Theorem py_enc : forall v x, pyval_of c v = Some x -> pgood (enc c v) (body c v) x.
  Proof.
    fix IH 1. intros v x H.
    destruct v as [ | |b|z|z|f|k|ty s|s|l|l|es|es| |m n|m n args|pid|z|fields|ts ref y];
      cbn [pyval_of] in H; cbn [enc body]; try discriminate.
    - inversion H; subst. apply pg_one; [apply wok_emit|reflexivity].
    - inversion H; subst. apply pg_one; [apply wok_emit|reflexivity].
    - inversion H; subst. apply py_bool.
    - inversion H; subst. apply py_int.
    - destruct (0 <=? z)%Z; [|discriminate]. inversion H; subst. apply py_uint.
    - apply py_float. exact H.
    - destruct ty; [apply py_string|apply py_string|apply py_unicode|apply py_bytes|apply py_bytestring]; exact H.
    - apply py_bytearray. exact H.
    - (* Tuple *)
      destruct (map_opt (pyval_of c) l) as [xs|] eqn:E; [|discriminate]. inversion H; subst.
      apply py_tuple; [apply (map_opt_len' _ _ _ _ _ E)|].
      clear H. revert xs E. induction l as [|a r IHl]; intros xs0 E0; cbn in E0;
        [inversion E0; subst; apply pg_many_nil|].
      destruct (pyval_of c a) as [xa|] eqn:Ea; [|discriminate].
      destruct (map_opt (pyval_of c) r) as [xr|] eqn:Er; [|discriminate]. inversion E0; subst.
      apply pg_many_cons; [apply IH; exact Ea|apply IHl; reflexivity].
    - (* List *)
      destruct (map_opt (pyval_of c) l) as [xs|] eqn:E; [|discriminate]. inversion H; subst. clear H.
      assert (G : pgood_many ((fix enc_list (l0 : list rval) : wprog :=
                                 match l0 with [] => WDone | x0 :: t => wseq (enc c x0) (enc_list t) end) l)
                             ((fix p_list (l0 : list rval) : list insn :=
                                 match l0 with [] => [] | x0 :: t => body c x0 ++ p_list t end) l) xs).
      { revert xs E. induction l as [|a r IHl]; intros xs0 E0; cbn in E0;
          [inversion E0; subst; apply pg_many_nil|].
        destruct (pyval_of c a) as [xa|] eqn:Ea; [|discriminate].
        destruct (map_opt (pyval_of c) r) as [xr|] eqn:Er; [|discriminate]. inversion E0; subst.
        apply pg_many_cons; [apply IH; exact Ea|apply IHl; reflexivity]. }
      destruct ((1 <=? e_proto c)%Z && Nat.eqb (length l) 0) eqn:E0.
      + apply andb_true_iff in E0. destruct E0 as [_ E0]. apply Nat.eqb_eq in E0.
        destruct l; [|discriminate]. cbn in E. inversion E; subst. apply pg_one; [apply wok_emit|reflexivity].
      + destruct G as [W P].
        split; [apply wok_wseq; [apply wok_emit|apply wok_wseq; [exact W|apply wok_emit]]|].
        intros st. cbn [pseq pstep]. rewrite (pseq_app _ _ _ _ _ (P (PMark :: st))).
        cbn [pseq pstep]. rewrite ppop_mark_app. cbn [ppop_mark]. rewrite app_nil_r. reflexivity.
    - (* Map *)
      match type of H with match ?F with _ => _ end = _ => destruct F as [xs|] eqn:E; [|discriminate] end.
      destruct (pd_of_items xs []) as [d|] eqn:D; [|discriminate]. inversion H; subst. clear H.
      eapply py_dict_like; [|intros L; destruct es; [cbn in E; inversion E; reflexivity|discriminate]|exact D].
      clear D. revert xs E. induction es as [|[k0 v0] r IHl]; intros xs0 E0; cbn in E0;
        [inversion E0; subst; apply pg_many_nil|].
      destruct (pyval_of c k0) as [xk|] eqn:Ek; [|discriminate].
      destruct (pyval_of c v0) as [xv|] eqn:Ev; [|discriminate].
      match type of E0 with match ?F with _ => _ end = _ => destruct F as [xr|] eqn:Er; [|discriminate] end.
      inversion E0; subst.
      apply pg_many_cons; [apply IH; exact Ek|]. apply pg_many_cons; [apply IH; exact Ev|].
      apply (IHl xr eq_refl).
    - (* Dict *)
      match type of H with match ?F with _ => _ end = _ => destruct F as [xs|] eqn:E; [|discriminate] end.
      destruct (pd_of_items xs []) as [d|] eqn:D; [|discriminate]. inversion H; subst. clear H.
      eapply py_dict_like; [|intros L; destruct es; [cbn in E; inversion E; reflexivity|discriminate]|exact D].
      clear D. revert xs E. induction es as [|[k0 v0] r IHl]; intros xs0 E0; cbn in E0;
        [inversion E0; subst; apply pg_many_nil|].
      destruct (pyval_of c k0) as [xk|] eqn:Ek; [|discriminate].
      destruct (pyval_of c v0) as [xv|] eqn:Ev; [|discriminate].
      match type of E0 with match ?F with _ => _ end = _ => destruct F as [xr|] eqn:Er; [|discriminate] end.
      inversion E0; subst.
      apply pg_many_cons; [apply IH; exact Ek|]. apply pg_many_cons; [apply IH; exact Ev|].
      apply (IHl xr eq_refl).
    - inversion H; subst. apply pg_one; [apply wok_emit|reflexivity].
    - (* Class *) destruct (pv_class_ok c m n) eqn:E; [|discriminate]. inversion H; subst. apply py_class. exact E.
    - (* Call *)
      destruct (pv_class_ok c m n && plain_classb m n) eqn:E; [|discriminate].
      destruct (map_opt (pyval_of c) args) as [xs|] eqn:Ea; [|discriminate]. inversion H; subst. clear H.
      apply andb_true_iff in E. destruct E as [E1 E2].
      apply py_call_plain; try assumption; [apply (map_opt_len' _ _ _ _ _ Ea)|].
      revert xs Ea. induction args as [|a r IHl]; intros xs0 E0; cbn in E0;
        [inversion E0; subst; apply pg_many_nil|].
      destruct (pyval_of c a) as [xa|] eqn:Exa; [|discriminate].
      destruct (map_opt (pyval_of c) r) as [xr|] eqn:Er; [|discriminate]. inversion E0; subst.
      apply pg_many_cons; [apply IH; exact Exa|apply IHl; reflexivity].
    - (* Ref *) eapply py_ref; [exact H|]. intros y Hy. apply IH. exact Hy.
    - (* big.Int *) inversion H; subst. apply py_long.
    - (* Struct *)
      match type of H with match ?F with _ => _ end = _ => destruct F as [xs|] eqn:E; [|discriminate] end.
      destruct (pd_of_items xs []) as [d|] eqn:D; [|discriminate]. inversion H; subst. clear H.
      eapply py_dict_marked; [|exact D]. clear D.
      revert xs E. generalize (existsb (fun f => negb (Nat.eqb (length (sf_tag f)) 0)) fields). intros ut.
      induction fields as [|[nm ex tg a] r IHl]; intros xs0 E0; cbn beta iota zeta in E0 |- *;
        [inversion E0; subst; apply pg_many_nil|].
      destruct (if ut then negb (Nat.eqb (length tg) 0) && negb (tag_later tg r) else ex).
      + destruct (pv_string c (if ut then tg else nm)) as [xk|] eqn:Ek; [|discriminate].
        destruct (pyval_of c a) as [xv|] eqn:Ev; [|discriminate].
        match type of E0 with match ?F with _ => _ end = _ => destruct F as [xr|] eqn:Er; [|discriminate] end.
        inversion E0; subst.
        apply pg_many_cons; [apply py_string; exact Ek|]. apply pg_many_cons; [apply IH; exact Ev|].
        apply (IHl xr eq_refl).
      + apply IHl. exact E0.
    - (* Ptr *)
      destruct ts; [destruct ref as [pid|]|].
      + eapply py_ref; [exact H|]. intros y0 Hy. apply IH. exact Hy.
      + apply IH. exact H.
      + apply IH. exact H.
  Qed.
End PY.

Lemma prun_app : forall pr0 a b s s',
  Forall (fun i => is_frame i = false) a -> pseq pr0 a s = Some s' -> prun pr0 (a ++ b) s = prun pr0 b s'.
Proof.
  induction a as [|i r IH]; intros b s s' F H; cbn [app pseq] in *.
  - inversion H; reflexivity.
  - inversion F as [|i0 r0 Fi Fr]; subst.
    destruct (pstep pr0 i s) as [s1|] eqn:E; [|discriminate].
    destruct i; try discriminate; cbn [prun]; rewrite E; apply IH; assumption.
Qed.

(* C01: Encode succeeds; what it wrote is the assembly of program c v; the CPython machine loads
   program c v without error and the object is the documented Python value *)
Theorem encode_loads : forall c v x,
  (0 <= e_proto c <= 5)%Z -> pyval_of c v = Some x ->
  exists ws, run_w (encode c v) None = (ws, EOk) /\
             concat ws = asm_all (program c v) /\
             pyload (program c v) = Some x.
Proof.
  intros c v x Hp Hv. destruct (py_enc c v x Hv) as [W P].
  assert (WE : wok (encode c v)).
  { unfold encode.
    assert (E : negb ((0 <=? e_proto c)%Z && (e_proto c <=? 5)%Z) = false).
    { apply negb_false_iff. apply andb_true_iff. split; apply Z.leb_le; lia. }
    rewrite E. apply wok_wseq; [destruct (2 <=? e_proto c)%Z; [apply wok_emit|apply wok_WDone]|].
    apply wok_wseq; [exact W|apply wok_emit]. }
  destruct (run_w (encode c v) None) as [ws r] eqn:R.
  assert (r = EOk) by (unfold wok in WE; rewrite R in WE; exact WE). subst r.
  exists ws. split; [reflexivity|]. split; [exact (encode_is_program c v ws R)|].
  unfold pyload, program. pose proof (body_noframe c v) as NF. specialize (P []).
  unfold pr in P. destruct (2 <=? e_proto c)%Z eqn:E2.
  - cbn [app prun]. assert (L : (Z.to_N (e_proto c) <=? 5) = true) by (apply N.leb_le; lia). rewrite L.
    rewrite (prun_app _ _ _ _ _ NF P). reflexivity.
  - cbn [app]. rewrite (prun_app _ _ _ _ _ NF P). reflexivity.
Qed.
