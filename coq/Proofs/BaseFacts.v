(* BaseFacts.v — bytes <-> numbers, little endian, decimal. *)
From Coq Require Import Ascii String.
From Coq Require Import List ZArith NArith Bool Lia.
From Coq.Strings Require Import Byte.
From OgRek Require Import Base.
Import ListNotations.
Open Scope N_scope.

Lemma b2N_inj : forall a b, b2N a = b2N b -> a = b.
Proof.
  intros a b H. unfold b2N in H.
  pose proof (Byte.of_to_N a) as Ha. pose proof (Byte.of_to_N b) as Hb.
  rewrite H in Ha. rewrite Ha in Hb. inversion Hb. reflexivity.
Qed.

Lemma b2N_lt : forall b, b2N b < 256.
Proof. intros b. unfold b2N. pose proof (Byte.to_N_bounded b). lia. Qed.

Lemma beqb_eq : forall a b, beqb a b = true <-> a = b.
Proof.
  intros a b. unfold beqb. rewrite N.eqb_eq. split; [apply b2N_inj|intros ->; reflexivity].
Qed.

Lemma beqb_refl : forall a, beqb a a = true.
Proof. intros a. apply beqb_eq. reflexivity. Qed.

Lemma beqb_neq : forall a b, beqb a b = false <-> a <> b.
Proof.
  intros a b. split.
  - intros H E. apply beqb_eq in E. congruence.
  - intros H. destruct (beqb a b) eqn:E; [apply beqb_eq in E; contradiction|reflexivity].
Qed.

Lemma b2N_N2b : forall n, n < 256 -> b2N (N2b n) = n.
Proof.
  intros n H. unfold N2b, b2N. rewrite N.mod_small by exact H.
  destruct (Byte.of_N n) as [b|] eqn:E.
  - apply Byte.to_of_N. exact E.
  - apply Byte.of_N_None_iff in E. lia.
Qed.

Lemma b2N_N2b_mod : forall n, b2N (N2b n) = n mod 256.
Proof.
  intros n. unfold N2b. assert (H : n mod 256 < 256) by (apply N.mod_lt; lia).
  destruct (Byte.of_N (n mod 256)) as [b|] eqn:E.
  - unfold b2N. apply Byte.to_of_N. exact E.
  - apply Byte.of_N_None_iff in E. lia.
Qed.

Lemma N2b_b2N : forall b, N2b (b2N b) = b.
Proof.
  intros b. apply b2N_inj. rewrite b2N_N2b; [reflexivity|apply b2N_lt].
Qed.

Lemma bytes_eqb_eq : forall a b, bytes_eqb a b = true <-> a = b.
Proof.
  induction a as [|x a IH]; destruct b as [|y b]; cbn; split; intros H; try reflexivity; try discriminate.
  - apply andb_true_iff in H. destruct H as [H1 H2]. apply beqb_eq in H1. apply IH in H2. congruence.
  - inversion H; subst. apply andb_true_iff. split; [apply beqb_refl|apply IH; reflexivity].
Qed.

Lemma bytes_eqb_refl : forall a, bytes_eqb a a = true.
Proof. intros a. apply bytes_eqb_eq. reflexivity. Qed.

(* all 256 bytes, for finite sweeps *)
Definition all_bytes : list byte := map N2b (map N.of_nat (seq 0 256)).

Lemma all_bytes_complete : forall b, In b all_bytes.
Proof.
  intros b. unfold all_bytes. rewrite <- (N2b_b2N b). apply in_map. 
  apply in_map_iff. exists (N.to_nat (b2N b)). split; [apply N2Nat.id|].
  apply in_seq. pose proof (b2N_lt b). lia.
Qed.

Lemma forall_bytes : forall (P : byte -> bool), forallb P all_bytes = true -> forall b, P b = true.
Proof.
  intros P H b. rewrite forallb_forall in H. apply H. apply all_bytes_complete.
Qed.

(* ---- little endian -------------------------------------------------------------- *)

Lemma le_decode_bound : forall l, le_decode l < 256 ^ (N.of_nat (length l)).
Proof.
  induction l as [|b t IH]; cbn [le_decode length].
  - cbn. lia.
  - rewrite Nat2N.inj_succ, N.pow_succ_r by lia. pose proof (b2N_lt b). lia.
Qed.

Lemma le_encode_decode : forall n v, v < 256 ^ (N.of_nat n) -> le_decode (le_encode n v) = v.
Proof.
  induction n as [|n IH]; intros v H; cbn [le_encode le_decode].
  - cbn in H. lia.
  - rewrite Nat2N.inj_succ, N.pow_succ_r in H by lia.
    rewrite b2N_N2b_mod. rewrite IH.
    + pose proof (N.div_mod v 256 ltac:(lia)). lia.
    + apply N.div_lt_upper_bound; lia.
Qed.

Lemma le_encode_length : forall n v, length (le_encode n v) = n.
Proof. induction n; intros; cbn; [reflexivity|f_equal; apply IHn]. Qed.
