(* Utf8Facts.v — decoding what utf8_encode produced. *)
From Coq Require Import Ascii String.
From Coq Require Import List ZArith NArith Bool Lia.
From Coq.Strings Require Import Byte.
From Coq Require Import ZifyBool ZifyN ZifyNat.
From OgRek Require Import Base Utf8 BaseFacts.
Import ListNotations.
Open Scope N_scope.
Ltac Zify.zify_post_hook ::= Z.div_mod_to_equations.

Lemma utf8_first_ascii : forall r, r < 128 -> utf8_first r = (1, 0, 0).
Proof. intros r H. unfold utf8_first. apply N.ltb_lt in H. rewrite H. reflexivity. Qed.

Lemma utf8_first_2 : forall s0, 194 <= s0 < 224 -> utf8_first s0 = (2, 128, 191).
Proof.
  intros s0 H. unfold utf8_first.
  assert (E1 : (s0 <? 128) = false) by (apply N.ltb_ge; lia).
  assert (E2 : (s0 <? 194) = false) by (apply N.ltb_ge; lia).
  assert (E3 : (s0 <? 224) = true) by (apply N.ltb_lt; lia).
  rewrite E1, E2, E3. reflexivity.
Qed.

Lemma utf8_decode_encode_1 : forall r rest, r < 128 ->
  utf8_decode (utf8_encode r ++ rest) = (r, 1%nat).
Proof.
  intros r rest H. unfold utf8_encode. pose proof H as H'. apply N.ltb_lt in H'. rewrite H'.
  cbn [app utf8_decode]. rewrite b2N_N2b by lia. rewrite utf8_first_ascii by exact H. reflexivity.
Qed.

Lemma utf8_decode_encode_2 : forall r rest, 128 <= r < 2048 ->
  utf8_decode (utf8_encode r ++ rest) = (r, 2%nat).
Proof.
  intros r rest H. unfold utf8_encode.
  assert (E1 : (r <? 128) = false) by (apply N.ltb_ge; lia).
  assert (E2 : (r <? 2048) = true) by (apply N.ltb_lt; lia).
  rewrite E1, E2. cbn [app utf8_decode].
  assert (Q : 2 <= r / 64 < 32) by (split; [apply N.div_le_lower_bound; lia|apply N.div_lt_upper_bound; lia]).
  assert (M : r mod 64 < 64) by (apply N.mod_lt; lia).
  rewrite !b2N_N2b by lia. rewrite utf8_first_2 by lia.
  change (2 =? 1) with false. change (2 =? 0) with false. change (2 =? 2) with true. cbv iota.
  assert (R : in_range 128 191 (128 + r mod 64) = true).
  { unfold in_range. apply andb_true_iff. split; apply N.leb_le; lia. }
  rewrite R. cbn [negb]. f_equal.
  assert (A : (192 + r / 64) mod 32 = r / 64).
  { replace (192 + r / 64) with (r / 64 + 6 * 32) by lia. rewrite N.mod_add by lia. apply N.mod_small. lia. }
  assert (B : (128 + r mod 64) mod 64 = r mod 64).
  { replace (128 + r mod 64) with (r mod 64 + 2 * 64) by lia. rewrite N.mod_add by lia. apply N.mod_small. lia. }
  rewrite A, B. pose proof (N.div_mod r 64 ltac:(lia)). lia.
Qed.

Lemma utf8_encode_nonempty : forall r, utf8_encode r <> [].
Proof.
  intros r. unfold utf8_encode.
  destruct (r <? 128); [discriminate|]. destruct (r <? 2048); [discriminate|].
  destruct (negb (valid_rune r)); [discriminate|]. destruct (r <? 65536); discriminate.
Qed.

(* latin-1 text: one rune per byte *)
Definition l1 (s : bytes) : bytes := flat_map (fun b => utf8_encode (b2N b)) s.

Lemma l1_decode_head : forall b rest,
  exists w, utf8_decode (utf8_encode (b2N b) ++ rest) = (b2N b, w) /\ length (utf8_encode (b2N b)) = w.
Proof.
  intros b rest. pose proof (b2N_lt b) as L. destruct (N.lt_ge_cases (b2N b) 128) as [H|H].
  - exists 1%nat. split; [apply utf8_decode_encode_1; exact H|].
    unfold utf8_encode. apply N.ltb_lt in H. rewrite H. reflexivity.
  - exists 2%nat. split; [apply utf8_decode_encode_2; lia|].
    unfold utf8_encode. assert (E1 : (b2N b <? 128) = false) by (apply N.ltb_ge; lia).
    assert (E2 : (b2N b <? 2048) = true) by (apply N.ltb_lt; lia). rewrite E1, E2. reflexivity.
Qed.

Lemma skipn_length_app : forall A (a b : list A), skipn (length a) (a ++ b) = b.
Proof. intros A a b. induction a as [|x t IH]; [reflexivity|exact IH]. Qed.

Lemma utf8_runes_fuel_S : forall f s, s <> [] ->
  utf8_runes_fuel (S f) s = fst (utf8_decode s) :: utf8_runes_fuel f (skipn (snd (utf8_decode s)) s).
Proof.
  intros f s H. destruct s as [|h tl]; [contradiction|]. cbn [utf8_runes_fuel].
  destruct (utf8_decode (h :: tl)). reflexivity.
Qed.

Lemma utf8_runes_l1 : forall s f, (length s <= f)%nat -> utf8_runes_fuel f (l1 s) = map b2N s.
Proof.
  induction s as [|b t IH]; intros f Hf.
  - destruct f; reflexivity.
  - destruct f as [|f]; [cbn in Hf; lia|]. cbn [l1 flat_map map].
    destruct (l1_decode_head b (flat_map (fun b0 => utf8_encode (b2N b0)) t)) as [w [D W]].
    rewrite utf8_runes_fuel_S.
    2:{ intro E. apply app_eq_nil in E. destruct E as [E _]. exact (utf8_encode_nonempty _ E). }
    rewrite D. cbn [fst snd]. f_equal. rewrite <- W, skipn_length_app. apply IH. cbn in Hf. lia.
Qed.

Lemma l1_length_ge : forall s, (length s <= length (l1 s))%nat.
Proof.
  induction s as [|b t IH]; [cbn; lia|]. cbn [l1 flat_map]. rewrite app_length. fold (l1 t).
  pose proof (utf8_encode_nonempty (b2N b)) as NE. destruct (utf8_encode (b2N b)); [contradiction|]. cbn. lia.
Qed.

Theorem utf8_runes_latin1 : forall s, utf8_runes (l1 s) = map b2N s.
Proof. intros s. unfold utf8_runes. apply utf8_runes_l1. apply l1_length_ge. Qed.

(* latin-1 text is valid UTF-8 *)
Lemma utf8_valid_fuel_S : forall f s, s <> [] ->
  utf8_valid_fuel (S f) s =
  if (fst (utf8_decode s) =? rune_error) && Nat.eqb (snd (utf8_decode s)) 1 then false
  else utf8_valid_fuel f (skipn (snd (utf8_decode s)) s).
Proof.
  intros f s H. destruct s as [|h tl]; [contradiction|]. cbn [utf8_valid_fuel].
  destruct (utf8_decode (h :: tl)). reflexivity.
Qed.

Lemma utf8_valid_fuel_nil : forall f, utf8_valid_fuel f [] = true.
Proof. destruct f; reflexivity. Qed.

Lemma utf8_valid_l1_fuel : forall s f, (length s <= f)%nat -> utf8_valid_fuel f (l1 s) = true.
Proof.
  induction s as [|b t IH]; intros f Hf.
  - apply utf8_valid_fuel_nil.
  - destruct f as [|f]; [cbn in Hf; lia|]. cbn [l1 flat_map].
    destruct (l1_decode_head b (flat_map (fun b0 => utf8_encode (b2N b0)) t)) as [w [D W]].
    rewrite utf8_valid_fuel_S.
    2:{ intro E. apply app_eq_nil in E. destruct E as [E _]. exact (utf8_encode_nonempty _ E). }
    rewrite D. cbn [fst snd].
    assert (NE : (b2N b =? rune_error) = false).
    { apply N.eqb_neq. pose proof (b2N_lt b). unfold rune_error. lia. }
    rewrite NE. cbn [andb]. rewrite <- W, skipn_length_app. apply IH. cbn in Hf. lia.
Qed.

Theorem utf8_valid_latin1 : forall s, utf8_valid (l1 s) = true.
Proof. intros s. unfold utf8_valid. apply utf8_valid_l1_fuel. apply l1_length_ge. Qed.
