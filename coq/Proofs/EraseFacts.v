(* EraseFacts.v — the key functions of maps and Dicts (Python equality, Go interface equality,
   hashability) do not look at the identities that erase forgets: a decoded key behaves like the
   representative unerase gives for its content. *)
From Coq Require Import Ascii String.
From Coq Require Import List ZArith NArith Bool Lia.
From Coq.Strings Require Import Byte.
From OgRek Require Import Base Float Value PyEq Dict Decoder Encoder Norm NormMaps BaseFacts.
Import ListNotations.
Open Scope N_scope.

Ltac inv_erase :=
  repeat match goal with
  | H : erase _ = Some _ |- _ => progress cbn [erase] in H
  | H : option_map _ ?e = Some _ |- _ => destruct e eqn:?; cbn [option_map] in H; [|discriminate H]
  | H : Some _ = Some _ |- _ => injection H as H; try subst
  | H : None = Some _ |- _ => discriminate H
  end.

(* ---- unary functions ------------------------------------------------------------------------- *)

Lemma forallb_erase : forall (F : val -> bool) l ts,
  Forall (fun x => forall t, erase x = Some t -> F x = F (unerase t)) l ->
  map_opt erase l = Some ts -> forallb F l = forallb F (map unerase ts).
Proof.
  intros F l. induction l as [|x r IH]; intros ts H E; cbn in E.
  - inversion E; subst. reflexivity.
  - inversion H as [|? ? Hx Hr]; subst.
    destruct (erase x) as [t|] eqn:Ex; [|discriminate]. destruct (map_opt erase r) as [tr|] eqn:Er; [|discriminate].
    inversion E; subst. cbn. rewrite (Hx t eq_refl), (IH tr Hr eq_refl). reflexivity.
Qed.

Lemma existsb_erase : forall (F : val -> bool) l ts,
  Forall (fun x => forall t, erase x = Some t -> F x = F (unerase t)) l ->
  map_opt erase l = Some ts -> existsb F l = existsb F (map unerase ts).
Proof.
  intros F l. induction l as [|x r IH]; intros ts H E; cbn in E.
  - inversion E; subst. reflexivity.
  - inversion H as [|? ? Hx Hr]; subst.
    destruct (erase x) as [t|] eqn:Ex; [|discriminate]. destruct (map_opt erase r) as [tr|] eqn:Er; [|discriminate].
    inversion E; subst. cbn. rewrite (Hx t eq_refl), (IH tr Hr eq_refl). reflexivity.
Qed.

Lemma nf_key_erase : forall x t, erase x = Some t -> nf_key x = nf_key (unerase t).
Proof.
  induction x using val_ind'; intros tx E; inv_erase; cbn [unerase nf_key]; try reflexivity.
  - apply (forallb_erase nf_key); assumption.
  - apply (forallb_erase nf_key); assumption.
  - apply IHx. reflexivity.
Qed.

Lemma go_unhashable_erase : forall x t, erase x = Some t -> go_unhashable x = go_unhashable (unerase t).
Proof.
  induction x using val_ind'; intros tx E; inv_erase; cbn [unerase go_unhashable]; try reflexivity.
  apply IHx. reflexivity.
Qed.

Lemma erase_unerase : forall t, erase (unerase t) = Some t.
Proof.
  fix IH 1. intros t.
  assert (L : forall l, map_opt erase (map unerase l) = Some l).
  { induction l as [|a r IHl]; [reflexivity|]. cbn. rewrite IH, IHl. reflexivity. }
  destruct t; cbn [unerase erase]; try reflexivity; try (rewrite L; reflexivity).
  rewrite IH. reflexivity.
Qed.

(* ---- binary functions -------------------------------------------------------------------------- *)

Lemma all2_erase : forall (F : val -> val -> bool) l1 ts1,
  Forall (fun x => forall y tx ty, erase x = Some tx -> erase y = Some ty -> F x y = F (unerase tx) (unerase ty)) l1 ->
  map_opt erase l1 = Some ts1 ->
  forall l2 ts2, map_opt erase l2 = Some ts2 ->
  all2 F l1 l2 = all2 F (map unerase ts1) (map unerase ts2).
Proof.
  intros F l1. induction l1 as [|x r IH]; intros ts1 H E1 l2 ts2 E2; cbn in E1.
  - injection E1 as <-. destruct l2 as [|y r2]; cbn in E2.
    + injection E2 as <-. reflexivity.
    + destruct (erase y); [|discriminate]. destruct (map_opt erase r2); [|discriminate]. injection E2 as <-. reflexivity.
  - destruct (erase x) as [t|] eqn:Ex; [|discriminate]. destruct (map_opt erase r) as [tr|] eqn:Er; [|discriminate].
    injection E1 as <-. inversion H as [|? ? Hx Hr]; subst.
    destruct l2 as [|y r2]; cbn in E2.
    + injection E2 as <-. reflexivity.
    + destruct (erase y) as [ty|] eqn:Ey; [|discriminate]. destruct (map_opt erase r2) as [tr2|] eqn:Er2; [|discriminate].
      injection E2 as <-. cbn. rewrite (Hx y t ty Ex Ey), (IH tr Hr eq_refl r2 tr2 Er2). reflexivity.
Qed.

Lemma py_eq_erase : forall x y tx ty, erase x = Some tx -> erase y = Some ty ->
  py_eq x y = py_eq (unerase tx) (unerase ty).
Proof.
  induction x using val_ind'; intros y tx ty Ex Ey; inv_erase; destruct y; inv_erase; cbn [unerase]; try reflexivity.
  - cbn [py_eq]. eapply (all2_erase py_eq); eassumption.
  - cbn [py_eq]. f_equal. eapply (all2_erase py_eq); eassumption.
  - cbn [py_eq]. eapply IHx; [reflexivity|eassumption].
Qed.

Lemma go_key_eq_erase : forall x y tx ty, erase x = Some tx -> erase y = Some ty -> has_big tx = false ->
  go_key_eq x y = go_key_eq (unerase tx) (unerase ty).
Proof.
  induction x using val_ind'; intros y tx ty Ex Ey Hb; inv_erase; destruct y; inv_erase; cbn [unerase]; try reflexivity.
  - discriminate Hb.
  - cbn [go_key_eq]. cbn [has_big] in Hb. eapply IHx; [reflexivity|eassumption|exact Hb].
Qed.
