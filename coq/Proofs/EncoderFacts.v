(* EncoderFacts.v — the writer monad: a failing Write aborts Encode with that error and no
   later Write (C13); Encode never panics (C15); framing facts (C12). *)
From Coq Require Import Ascii String.
From Coq Require Import List ZArith NArith Bool Lia.
From Coq.Strings Require Import Byte.
From OgRek Require Import Base Utf8 GoStrconv PyQuote Float Encoder BaseFacts.
Import ListNotations.
Open Scope N_scope.

(* ---- generic facts about the writer monad ---------------------------------------------- *)

Lemma run_w_fail_at : forall p k ws r,
  run_w p None = (ws, r) -> (k < length ws)%nat ->
  run_w p (Some k) = (firstn (S k) ws, EWriteErr).
Proof.
  induction p as [| e | | b p IH]; intros k ws r H Hk; cbn in H.
  - inversion H; subst. cbn in Hk. lia.
  - inversion H; subst. cbn in Hk. lia.
  - inversion H; subst. cbn in Hk. lia.
  - destruct (run_w p None) as [ws' r'] eqn:R. inversion H; subst. cbn [run_w].
    destruct k as [|k]; [reflexivity|].
    cbn in Hk. rewrite (IH k ws' r eq_refl ltac:(lia)). reflexivity.
Qed.

(* a failure at or beyond the last Write changes nothing *)
Lemma run_w_fail_late : forall p k ws r,
  run_w p None = (ws, r) -> (length ws <= k)%nat -> run_w p (Some k) = (ws, r).
Proof.
  induction p as [| e | | b p IH]; intros k ws r H Hk; cbn in H |- *; try exact H.
  destruct (run_w p None) as [ws' r'] eqn:R. inversion H; subst. cbn in Hk.
  destruct k as [|k]; [lia|]. rewrite (IH k ws' r eq_refl ltac:(lia)). reflexivity.
Qed.

Lemma run_w_wseq : forall p q,
  run_w (wseq p q) None =
  match run_w p None with
  | (w1, EOk) => let '(w2, r2) := run_w q None in (w1 ++ w2, r2)
  | (w1, r1) => (w1, r1)
  end.
Proof.
  induction p as [| e | | b p IH]; intros q; cbn.
  - destruct (run_w q None); reflexivity.
  - reflexivity.
  - reflexivity.
  - rewrite IH. destruct (run_w p None) as [w1 r1]. destruct r1; try reflexivity.
    destruct (run_w q None); reflexivity.
Qed.

(* ---- no panic ---------------------------------------------------------------------------- *)

Fixpoint no_wpanic (p : wprog) : Prop :=
  match p with
  | WPanic => False
  | WWrite _ k => no_wpanic k
  | _ => True
  end.

Lemma no_wpanic_wseq : forall p q, no_wpanic p -> no_wpanic q -> no_wpanic (wseq p q).
Proof. induction p; cbn; intros; auto. Qed.

Lemma no_wpanic_run : forall p fa, no_wpanic p -> snd (run_w p fa) <> EPanic.
Proof.
  induction p as [| e | | b p IH]; intros fa H; cbn in *; try discriminate; try contradiction.
  destruct fa as [[|n]|].
  - cbn. discriminate.
  - specialize (IH (Some n) H). destruct (run_w p (Some n)). exact IH.
  - specialize (IH None H). destruct (run_w p None). exact IH.
Qed.

Ltac np :=
  repeat match goal with
  | |- no_wpanic (wseq _ _) => apply no_wpanic_wseq
  | |- no_wpanic (emit _) => exact I
  | |- no_wpanic WDone => exact I
  | |- no_wpanic (WFail _) => exact I
  | |- no_wpanic (if ?x then _ else _) => destruct x
  | |- no_wpanic (match ?x with _ => _ end) => destruct x
  end.

Section NoPanic.
  Variable c : econfig.

  Lemma np_bool : forall b, no_wpanic (enc_bool c b). Proof. intros. unfold enc_bool. np. Qed.
  Lemma np_int : forall z, no_wpanic (enc_int c z). Proof. intros. unfold enc_int. np. Qed.
  Lemma np_uint : forall z, no_wpanic (enc_uint c z). Proof. intros. unfold enc_uint. np. apply np_int. Qed.
  Lemma np_float : forall f, no_wpanic (enc_float c f). Proof. intros. unfold enc_float. np. Qed.
  Lemma np_bytestring : forall s, no_wpanic (enc_bytestring c s). Proof. intros. unfold enc_bytestring. np. Qed.
  Lemma np_unicode : forall s, no_wpanic (enc_unicode c s). Proof. intros. unfold enc_unicode. np. Qed.
  Lemma np_string : forall s, no_wpanic (enc_string c s).
  Proof. intros. unfold enc_string. np; [apply np_unicode|apply np_bytestring]. Qed.
  Lemma np_class : forall m n, no_wpanic (enc_class c m n).
  Proof. intros. unfold enc_class. np; apply np_string. Qed.
  Lemma np_wrap_tuple : forall n p, no_wpanic p -> no_wpanic (wrap_tuple c n p).
  Proof. intros. unfold wrap_tuple. np; assumption. Qed.
  Lemma np_wrap_call : forall m n k p, no_wpanic p -> no_wpanic (wrap_call c m n k p).
  Proof. intros. unfold wrap_call. np; [apply np_class|apply np_wrap_tuple; assumption]. Qed.
  Lemma np_bytes : forall s, no_wpanic (enc_bytes c s).
  Proof. intros. unfold enc_bytes. np. apply np_wrap_call. np; [apply np_unicode|apply np_bytestring]. Qed.
  Lemma np_bytearray : forall s, no_wpanic (enc_bytearray c s).
  Proof. intros. unfold enc_bytearray. np. apply np_wrap_call. apply np_bytes. Qed.
  Lemma np_ref : forall pid p, no_wpanic p -> no_wpanic (enc_ref c pid p).
  Proof. intros. unfold enc_ref. np; assumption. Qed.

  Lemma enc_no_panic : forall v, no_wpanic (enc c v).
  Proof.
    fix IH 1. intros v.
    destruct v as [ | |b|z|z|f|k|ty s|s|l|l|es|es| |m n|m n args|pid|z|fields|ts ref x]; cbn [enc]; np;
      try apply np_bool; try apply np_int; try apply np_uint; try apply np_float;
      try apply np_string; try apply np_unicode; try apply np_bytes; try apply np_bytestring;
      try apply np_bytearray; try apply np_class.
    - (* Tuple *) apply np_wrap_tuple. induction l as [|x t IHl]; [exact I|]. np; [apply IH|exact IHl].
    - (* List *) induction l as [|x t IHl]; [exact I|]. np; [apply IH|exact IHl].
    - (* Map *) induction es as [|[k x] t IHl]; [exact I|]. np; [apply IH|apply IH|exact IHl].
    - (* Dict *) induction es as [|[k x] t IHl]; [exact I|]. np; [apply IH|apply IH|exact IHl].
    - (* Call *) apply np_wrap_call. induction args as [|x t IHl]; [exact I|]. np; [apply IH|exact IHl].
    - (* Ref *) apply np_ref. apply IH.
    - (* big.Int *) exact I.
    - (* Struct *)
      match goal with |- no_wpanic (_ ?ut fields) => generalize ut end. intros ut.
      induction fields as [|[nm ex tg x] t IHl]; [exact I|].
      np; try apply np_string; try apply IH; exact IHl.
    - (* Ptr with a persistent reference *) apply np_ref. apply IH.
    - apply IH.
    - apply IH.
  Qed.

  Theorem encode_no_panic : forall v fa, snd (run_w (encode c v) fa) <> EPanic.
  Proof.
    intros v fa. apply no_wpanic_run. unfold encode. np; apply enc_no_panic.
  Qed.
End NoPanic.

(* ---- framing (C12, structural part) -------------------------------------------------------- *)

Theorem encode_bad_protocol : forall c v fa,
  (e_proto c < 0 \/ 5 < e_proto c)%Z -> run_w (encode c v) fa = ([], EErr EBadProto).
Proof.
  intros c v fa H. unfold encode.
  assert (E : ((0 <=? e_proto c)%Z && (e_proto c <=? 5)%Z) = false).
  { apply andb_false_iff. destruct H; [left; apply Z.leb_gt; lia|right; apply Z.leb_gt; lia]. }
  rewrite E. reflexivity.
Qed.

Theorem encode_framing : forall c v ws,
  run_w (encode c v) None = (ws, EOk) ->
  exists body, concat ws = (if (2 <=? e_proto c)%Z then [x80; Z2b (e_proto c)] else []) ++ body ++ [x2e].
Proof.
  intros c v ws H. unfold encode in H.
  destruct (negb ((0 <=? e_proto c)%Z && (e_proto c <=? 5)%Z)); [discriminate|].
  rewrite run_w_wseq in H.
  destruct (2 <=? e_proto c)%Z; cbn [run_w emit] in H.
  - rewrite run_w_wseq in H. destruct (run_w (enc c v) None) as [w1 r1].
    destruct r1; try discriminate. cbn in H. inversion H; subst.
    exists (concat w1). cbn. rewrite concat_app. cbn. rewrite ?app_nil_r. reflexivity.
  - rewrite run_w_wseq in H. destruct (run_w (enc c v) None) as [w1 r1].
    destruct r1; try discriminate. cbn in H. inversion H; subst.
    exists (concat w1). cbn. rewrite concat_app. cbn. rewrite ?app_nil_r. reflexivity.
Qed.
