(* AloneFacts.v — C11: a pickle that executes no memo opcode decodes the same whatever memo
   earlier pickles of the stream left behind. *)
From Coq Require Import Ascii String.
From Coq Require Import List ZArith NArith Bool Lia.
From Coq.Strings Require Import Byte.
From OgRek Require Import Base Value PyEq Dict Reader Decoder BaseFacts ReaderFacts DecoderFacts TypingFacts.
Import ListNotations.
Open Scope N_scope.

Definition memo_op (op : opcode) : bool :=
  match op with
  | OPut | OBinput | OLongBinput | OMemoize | OGet | OBinget | OLongBinget => true
  | _ => false
  end.

(* two reader programs that read the same way and end in related leaves *)
Fixpoint rel2 {A} (Q : A -> A -> Prop) (p q : prog A) : Prop :=
  match p, q with
  | Ret a, Ret b => Q a b
  | Fail e, Fail e' => e = e'
  | PanicP, PanicP => True
  | OOF, OOF => True
  | RdByte e k, RdByte e' k' => e = e' /\ forall b, rel2 Q (k b) (k' b)
  | RdN h n k, RdN h' n' k' => h = h' /\ n = n' /\ forall l, rel2 Q (k l) (k' l)
  | RdLine k, RdLine k' => forall l, rel2 Q (k l) (k' l)
  | _, _ => False
  end.

Definition res_rel {A} (Q : A -> A -> Prop) (r1 r2 : res A) : Prop :=
  match r1, r2 with
  | Ok a, Ok b => Q a b
  | Err e, Err e' => e = e'
  | Panic, Panic => True
  | OutOfFuel, OutOfFuel => True
  | _, _ => False
  end.

Lemma rel2_run : forall A (Q : A -> A -> Prop) (p q : prog A), rel2 Q p q ->
  forall inp, res_rel Q (fst (run p inp)) (fst (run q inp)) /\ snd (run p inp) = snd (run q inp).
Proof.
  intros A Q p. induction p as [a|e| | |eof k IH|how n k IH|k IH]; intros q H inp; destruct q; cbn in H; try contradiction.
  - cbn. split; [exact H|reflexivity].
  - subst. cbn. split; reflexivity.
  - cbn. split; [exact I|reflexivity].
  - cbn. split; [exact I|reflexivity].
  - destruct H as [-> H]. cbn. destruct inp as [|b t]; [split; reflexivity|]. apply IH. apply H.
  - destruct H as [-> [-> H]]. cbn. destruct (take_n inp n0) as [[x r]|]; [apply IH; apply H|split; reflexivity].
  - cbn. destruct (split_line inp) as [[x r]|]; [apply IH; apply H|split; reflexivity].
Qed.

Definition out_memo (m : list (bytes * val)) (o : hout) : hout :=
  match o with HOk st => HOk (set_memo st m) | HErr st e => HErr (set_memo st m) e end.

Ltac norm2 :=
  cbn [handler set_memo set_stack set_heap set_proto push fresh add_log set_len new_dict_obj cur_len
       d_stack d_memo d_heap d_next d_proto d_log d_lens d_stale fst snd].

Ltac brk2 :=
  repeat (norm2; match goal with
  | |- forall _, _ => intro
  | |- context [if c_pydict ?c then _ else _] => destruct (c_pydict c) eqn:?
  | |- _ /\ _ => split
  | |- @eq rdkind _ _ => reflexivity
  | |- @eq N _ _ => reflexivity
  | |- @eq err _ _ => reflexivity
  | |- rel2 _ (RdLine _) (RdLine _) => cbn [rel2]
  | |- rel2 _ (RdN _ _ _) (RdN _ _ _) => cbn [rel2]
  | |- rel2 _ (RdByte _ _) (RdByte _ _) => cbn [rel2]
  | |- rel2 _ (ok _) (ok _) => cbn [rel2 ok out_memo set_memo]
  | |- rel2 _ (fail _ _) (fail _ _) => cbn [rel2 fail out_memo set_memo]
  | |- rel2 _ (Ret _) (Ret _) => cbn [rel2 out_memo set_memo]
  | |- rel2 _ PanicP PanicP => exact I
  | |- rel2 _ OOF OOF => exact I
  | |- rel2 _ (if ?c then _ else _) _ => destruct c eqn:?
  | |- rel2 _ (match ?x with _ => _ end) _ => destruct x eqn:?
  end).

Lemma handler_memo : forall cfg op key insn st m,
  memo_op op = false ->
  rel2 (fun o1 o2 => o2 = out_memo m o1) (handler cfg op key insn st) (handler cfg op key insn (set_memo st m)).
Proof.
  intros cfg op key insn st m Hop. destruct st as [stk mem heap next proto log lens stale].
  destruct op; try discriminate Hop; cbn [handler];
    try unfold tuple_n, do_reduce, handle_ref, push_bytestring.
  all: brk2.
  all: try reflexivity.
  all: try (destruct (c_strict cfg); reflexivity).
Qed.


(* ---- the loop ---------------------------------------------------------------------------------- *)

(* the Decode call on inp from state st executes no memo opcode (PUT / BINPUT / LONG_BINPUT / MEMOIZE /
   GET / BINGET / LONG_BINGET): a property of the run, whatever way it ends *)
Fixpoint nm (fuel : nat) (cfg : dconfig) (i : N) (st : dstate) (inp : bytes) : Prop :=
  match fuel with
  | O => True
  | S f =>
      match inp with
      | [] => True
      | key :: rest =>
          match opcode_of_byte key with
          | None => True
          | Some op =>
              if is_stop op then True
              else memo_op op = false /\
                   match run (handler cfg op key (i + 1) st) rest with
                   | (Ok (HOk st'), rest') => nm f cfg (i + 1) st' rest'
                   | _ => True
                   end
          end
      end
  end.

(* the same as a computable test *)
Fixpoint nmb (fuel : nat) (cfg : dconfig) (i : N) (st : dstate) (inp : bytes) : bool :=
  match fuel with
  | O => true
  | S f =>
      match inp with
      | [] => true
      | key :: rest =>
          match opcode_of_byte key with
          | None => true
          | Some op =>
              if is_stop op then true
              else negb (memo_op op) &&
                   match run (handler cfg op key (i + 1) st) rest with
                   | (Ok (HOk st'), rest') => nmb f cfg (i + 1) st' rest'
                   | _ => true
                   end
          end
      end
  end.

Lemma nmb_nm : forall fuel cfg i st inp, nmb fuel cfg i st inp = true -> nm fuel cfg i st inp.
Proof.
  induction fuel as [|f IH]; intros cfg i st inp H; [exact I|]. cbn [nmb nm] in *.
  destruct inp as [|key rest]; [exact I|]. destruct (opcode_of_byte key) as [op|]; [|exact I].
  destruct (is_stop op); [exact I|]. apply andb_true_iff in H. destruct H as [H1 H2].
  split; [apply negb_true_iff; exact H1|].
  destruct (run (handler cfg op key (i + 1) st) rest) as [[[st'|st' e]|e| |] rest']; try exact I.
  apply IH. exact H2.
Qed.

Definition memo_freeb (cfg : dconfig) (st : dstate) (inp : bytes) : bool :=
  nmb (S (length inp)) cfg 0 (start_state st) inp.

Definition dres_memo (m : list (bytes * val)) (a b : dresult) : Prop := b = (fst a, set_memo (snd a) m).

Lemma pop_user_memo : forall st m, dres_memo m (pop_user st) (pop_user (set_memo st m)).
Proof.
  intros st m. unfold pop_user, dres_memo. cbn [set_memo d_stack]. destruct (d_stack st) as [|v t]; [reflexivity|].
  destruct (is_mark v); reflexivity.
Qed.

Lemma loop_memo : forall fuel cfg i st inp m, nm fuel cfg i st inp ->
  res_rel (dres_memo m) (fst (run (decode_loop fuel cfg i st) inp)) (fst (run (decode_loop fuel cfg i (set_memo st m)) inp)) /\
  snd (run (decode_loop fuel cfg i st) inp) = snd (run (decode_loop fuel cfg i (set_memo st m)) inp).
Proof.
  induction fuel as [|f IH]; intros cfg i st inp m H; [cbn; split; [exact I|reflexivity]|].
  rewrite !decode_loop_S. cbn [run]. destruct inp as [|key rest]; [cbn; split; reflexivity|].
  cbn [nm] in H. destruct (opcode_of_byte key) as [op|]; [|cbn; split; reflexivity].
  destruct (is_stop op); [cbn; split; [apply pop_user_memo|reflexivity]|].
  destruct H as [Hop H]. rewrite !run_bind.
  destruct (rel2_run _ _ _ _ (handler_memo cfg op key (i + 1) st m Hop) rest) as [Rr Rs].
  destruct (run (handler cfg op key (i + 1) st) rest) as [r1 rest1].
  destruct (run (handler cfg op key (i + 1) (set_memo st m)) rest) as [r2 rest2].
  cbn [fst snd] in Rr, Rs. subst rest2.
  destruct r1 as [o1|e1| |]; destruct r2 as [o2|e2| |]; cbn [res_rel] in Rr; try contradiction.
  - subst o2. destruct o1 as [st'|st' e]; cbn [out_memo].
    + apply IH. exact H.
    + cbn. split; reflexivity.
  - subst e2. cbn. split; reflexivity.
  - cbn. split; [exact I|reflexivity].
  - cbn. split; [exact I|reflexivity].
Qed.

(* Decode: same result, same bytes consumed; the final states differ in the memo only *)
Definition memo_free (cfg : dconfig) (st : dstate) (inp : bytes) : Prop :=
  nm (S (length inp)) cfg 0 (start_state st) inp.

Theorem decode_memo_independent : forall cfg st inp m,
  memo_free cfg st inp ->
  decode cfg (set_memo st m) inp =
  (fst (fst (decode cfg st inp)), set_memo (snd (fst (decode cfg st inp))) m, snd (decode cfg st inp)).
Proof.
  intros cfg st inp m H. unfold decode, memo_free in *.
  change (start_state (set_memo st m)) with (set_memo (start_state st) m).
  destruct (loop_memo _ _ _ _ _ m H) as [Rr Rs].
  destruct (run (decode_loop (S (length inp)) cfg 0 (start_state st)) inp) as [r1 rest1].
  destruct (run (decode_loop (S (length inp)) cfg 0 (set_memo (start_state st) m)) inp) as [r2 rest2].
  cbn [fst snd] in Rr, Rs. subst rest2.
  destruct r1 as [[a s]|e1| |]; destruct r2 as [[b s']|e2| |]; cbn [res_rel] in Rr; try contradiction.
  - unfold dres_memo in Rr. cbn [fst snd] in *. inversion Rr; subst. reflexivity.
  - subst e2. reflexivity.
  - reflexivity.
  - reflexivity.
Qed.

(* ================================================================================================ *)
(* Part 2: a Decode call that executes no memo opcode never writes a map / Dict that existed before  *)
(* the call ("values already returned are not altered by later Decode calls")                        *)
(* ================================================================================================ *)

(* a map / Dict standing directly on the operand stack was allocated at or after n0.  (Shallow on
   purpose: no opcode takes a container apart, so what is nested inside a value never comes back to
   the top level.) *)
Definition top_ok (n0 : N) (v : val) : Prop :=
  match v with VMap id | VDict id => n0 <= id | _ => True end.

Record fresh_inv (n0 : N) (h0 : heap) (st : dstate) : Prop := {
  fi_next : n0 <= d_next st;
  fi_stack : Forall (top_ok n0) (d_stack st);
  fi_frame : forall g, g < n0 -> heap_get (d_heap st) g = heap_get h0 g }.

(* what a PersistentLoad hook hands back is not one of the decoder's own earlier maps / Dicts *)
Definition hook_fresh (cfg : dconfig) (n0 : N) : Prop :=
  forall f, c_load cfg = Some f -> forall i p o, f i p = LObj o -> top_ok n0 o.

Definition st_of (o : hout) : dstate := match o with HOk st | HErr st _ => st end.

Lemma heap_get_set_other : forall h id o j, j <> id -> heap_get (heap_set h id o) j = heap_get h j.
Proof.
  induction h as [|[i x] t IH]; intros id o j Hne; cbn.
  - destruct (id =? j) eqn:E; [apply N.eqb_eq in E; congruence|reflexivity].
  - destruct (i =? id) eqn:E; cbn.
    + apply N.eqb_eq in E. subst i. destruct (id =? j) eqn:E2; [apply N.eqb_eq in E2; congruence|reflexivity].
    + destruct (i =? j); [reflexivity|]. apply IH. exact Hne.
Qed.

Lemma try_assign_frame : forall n0 h m k v h', try_assign h m k v = Some h' -> top_ok n0 m ->
  forall g, g < n0 -> heap_get h' g = heap_get h g.
Proof.
  intros n0 h m k v h' H T g Hg. unfold try_assign in H. destruct m; try discriminate; cbn [top_ok] in T.
  - destruct (heap_get h id) as [[es|es]|]; try discriminate. destruct (go_unhashable k); [discriminate|].
    inversion H; subst. apply heap_get_set_other. lia.
  - destruct (heap_get h id) as [[es|es]|]; try discriminate.
    destruct (dict_set choose_first k v es); [|discriminate]. inversion H; subst. apply heap_get_set_other. lia.
Qed.

Lemma assign_pairs_frame : forall n0 m, top_ok n0 m -> forall n items h h' b, (length items <= n)%nat ->
  assign_pairs h m items = (h', b) -> forall g, g < n0 -> heap_get h' g = heap_get h g.
Proof.
  intros n0 m T. induction n as [|n IH]; intros items h h' b L H g Hg.
  - destruct items; [|cbn in L; lia]. cbn in H. inversion H; subst. reflexivity.
  - destruct items as [|k [|v t]]; cbn in H; try (inversion H; subst; reflexivity).
    destruct (try_assign h m k v) as [h1|] eqn:E; [|inversion H; subst; reflexivity].
    rewrite (IH t h1 h' b ltac:(cbn in L; lia) H g Hg). eapply try_assign_frame; eassumption.
Qed.

Lemma split_mark_forall : forall (P : val -> Prop) s above below,
  Forall P s -> split_mark s = Some (above, below) -> Forall P above /\ Forall P below.
Proof.
  intros P s. induction s as [|v t IH]; intros above below H S; cbn in S; [discriminate|].
  inversion H as [|? ? Hv Ht]; subst. destruct (is_mark v).
  - inversion S; subst. split; [constructor|exact Ht].
  - destruct (split_mark t) as [[a b]|] eqn:St; [|discriminate]. inversion S; subst.
    destruct (IH a below Ht eq_refl) as [A B]. split; [constructor; assumption|exact B].
Qed.

Lemma Forall_skipn : forall A (P : A -> Prop) n l, Forall P l -> Forall P (skipn n l).
Proof.
  intros A P n. induction n as [|n IH]; intros l H; [exact H|]. destruct l; [constructor|].
  inversion H; subst. cbn. apply IH. assumption.
Qed.

Section Fresh.
  Variable cfg : dconfig.
  Variable n0 : N.
  Variable h0 : heap.
  Hypothesis HF : hook_fresh cfg n0.
  Notation FI := (fresh_inv n0 h0).

  Lemma fi_set_stack : forall st s, FI st -> Forall (top_ok n0) s -> FI (set_stack st s).
  Proof. intros st s [A B C] H. constructor; cbn; assumption. Qed.
  Lemma fi_push : forall st v, FI st -> top_ok n0 v -> FI (push v st).
  Proof. intros st v H T. apply fi_set_stack; [exact H|]. constructor; [exact T|apply (fi_stack _ _ _ H)]. Qed.
  Lemma fi_set_proto : forall st p, FI st -> FI (set_proto st p).
  Proof. intros st p [A B C]. constructor; cbn; assumption. Qed.
  Lemma fi_set_len : forall st a b c, FI st -> FI (set_len st a b c).
  Proof. intros st a b c [A B C]. constructor; cbn; assumption. Qed.
  Lemma fi_add_log : forall st r, FI st -> FI (add_log st r).
  Proof. intros st r [A B C]. constructor; cbn; assumption. Qed.
  Lemma fi_fresh : forall st, FI st -> FI (snd (fresh st)).
  Proof. intros st [A B C]. constructor; cbn; try assumption. lia. Qed.
  Lemma fi_set_heap : forall st h, FI st -> (forall g, g < n0 -> heap_get h g = heap_get (d_heap st) g) -> FI (set_heap st h).
  Proof. intros st h [A B C] H. constructor; cbn; try assumption. intros g Hg. rewrite (H g Hg). apply C. exact Hg. Qed.

  Definition out_ok (o : hout) : Prop := FI (st_of o).

  Lemma new_dict_obj_fresh : forall st m st', FI st -> new_dict_obj cfg st = (m, st') -> FI st' /\ top_ok n0 m.
  Proof.
    intros st m st' H N. unfold new_dict_obj in N. cbn in N. pose proof (fi_next _ _ _ H) as Hn.
    destruct (c_pydict cfg); inversion N; subst; (split; [|cbn; exact Hn]);
      (apply fi_set_heap; [exact (fi_fresh _ H)|]); intros g Hg; cbn; apply heap_get_set_other; lia.
  Qed.

  Lemma tuple_n_fresh : forall st n, FI st -> leaves out_ok (tuple_n st n).
  Proof.
    intros st n H. unfold tuple_n. destruct (Nat.ltb _ _); [exact H|].
    destruct (existsb is_mark (firstn n (d_stack st))); [exact H|]. cbn. unfold out_ok. cbn [st_of].
    apply fi_set_stack; [exact H|]. constructor; [exact I|]. apply Forall_skipn. apply (fi_stack _ _ _ H).
  Qed.

  Lemma do_reduce_fresh : forall st m n argv, FI st -> leaves out_ok (do_reduce st m n argv).
  Proof.
    intros st m n argv H. unfold do_reduce.
    repeat match goal with
    | |- leaves _ (if ?c then _ else _) => destruct c
    | |- leaves _ (match ?x with _ => _ end) => destruct x
    end; cbn; try exact H; try (apply fi_push; [exact H|exact I]).
  Qed.

  Lemma handle_ref_fresh : forall st pid, FI st -> leaves out_ok (handle_ref cfg st pid).
  Proof.
    intros st pid H. unfold handle_ref. destruct (c_load cfg) as [f|] eqn:E.
    - pose proof (fi_add_log _ (VRef pid) H) as Hl.
      destruct (f (Nlen (d_log st)) pid) as [| o |] eqn:F; cbn.
      + apply fi_push; [exact Hl|exact I].
      + apply fi_push; [exact Hl|]. exact (HF f E _ _ _ F).
      + exact Hl.
    - cbn. apply fi_push; [exact H|exact I].
  Qed.

  Ltac brk :=
    repeat match goal with
    | |- forall _, _ => intro
    | |- leaves _ (RdLine _) => cbn [leaves]
    | |- leaves _ (RdN _ _ _) => cbn [leaves]
    | |- leaves _ (RdByte _ _) => cbn [leaves]
    | |- leaves _ (ok _) => cbn [leaves ok out_ok st_of]
    | |- leaves _ (fail _ _) => cbn [leaves fail out_ok st_of]
    | |- leaves _ PanicP => exact I
    | |- leaves _ OOF => exact I
    | |- leaves _ (if ?c then _ else _) => destruct c eqn:?
    | |- leaves _ (match ?x with _ => _ end) => destruct x eqn:?
    | |- leaves _ (let '(_, _) := ?x in _) => destruct x eqn:?
    end.

  (* what is known about the items of the stack *)
  Ltac prep :=
    match goal with H : FI ?st |- _ =>
      let S := fresh "HS" in pose proof (fi_stack n0 h0 st H) as S;
      repeat match goal with
      | E : d_stack st = _ |- _ => rewrite E in S
      | E : split_mark (d_stack st) = Some (_, _) |- _ =>
          let A := fresh "HA" in let B := fresh "HB" in
          destruct (split_mark_forall _ _ _ _ S E) as [A B]; clear E
      end
    end;
    repeat match goal with
    | E : ?l = _ :: _ |- _ => is_var l; subst l
    | E : ?l = [] |- _ => is_var l; subst l
    end;
    repeat match goal with
    | S : Forall (top_ok n0) (_ :: _) |- _ =>
        let a := fresh "Hi" in let b := fresh "Ht" in inversion S as [|? ? a b]; subst; clear S
    end.

  Ltac stk :=
    repeat match goal with
    | |- Forall (top_ok n0) (_ :: _) => constructor; [first [assumption|exact I]|]
    | |- Forall (top_ok n0) [] => constructor
    | |- Forall (top_ok n0) _ => assumption
    end.

  Ltac sok :=
    match goal with
    | |- FI (set_stack _ _) => apply fi_set_stack; [sok|stk]
    | |- FI (push _ _) => apply fi_push; [sok|first [assumption|exact I]]
    | |- FI (set_len _ _ _ _) => apply fi_set_len; sok
    | |- FI (set_proto _ _) => apply fi_set_proto; sok
    | |- FI ?d =>
        first [ assumption
              | match goal with E : fresh ?st = (_, d) |- _ =>
                  replace d with (snd (fresh st)) by (rewrite E; reflexivity); apply fi_fresh; sok end ]
    end.

  Lemma handler_fresh : forall op key insn st, FI st -> memo_op op = false ->
    leaves out_ok (handler cfg op key insn st).
  Proof.
    intros op key insn st H Hop.
    destruct op; try discriminate Hop; cbn [handler];
      try (apply tuple_n_fresh; exact H).
    all: brk.
    all: try (apply do_reduce_fresh).
    all: try (apply handle_ref_fresh).
    all: unfold out_ok; cbn [st_of].
    all: try (unfold push_bytestring; destruct (c_strict cfg)).
    all: try (prep; sok).
    (* the opcodes that write the heap *)
    all: prep.
    all: try match goal with E : new_dict_obj cfg ?s = (_, _), HI : FI ?s |- _ =>
               destruct (new_dict_obj_fresh _ _ _ HI E) as [Hd Hv] end.
    all: try (apply fi_push; assumption).
    all: repeat match goal with
         | |- FI (set_stack _ _) => apply fi_set_stack; [|stk]
         | |- FI (set_heap ?x _) => apply fi_set_heap; [first [assumption|sok]|]
         end.
    all: intros g Hg; cbn [set_stack d_heap] in *.
    all: try (eapply try_assign_frame; [eassumption| |exact Hg]; assumption).
    all: try (eapply assign_pairs_frame; [|apply le_n|eassumption|exact Hg]; assumption).
  Qed.

  Lemma loop_fresh : forall fuel i st inp, FI st -> nm fuel cfg i st inp ->
    match fst (run (decode_loop fuel cfg i st) inp) with
    | Ok (_, st') => FI st'
    | _ => True
    end.
  Proof.
    induction fuel as [|f IH]; intros i st inp H Hn; [exact I|].
    rewrite decode_loop_S. cbn [run]. destruct inp as [|key rest]; [exact I|].
    cbn [nm] in Hn. destruct (opcode_of_byte key) as [op|]; [|cbn; exact H].
    destruct (is_stop op).
    - cbn. unfold pop_user. destruct (d_stack st) as [|v t] eqn:E; [exact H|].
      pose proof (fi_stack _ _ _ H) as S. rewrite E in S. inversion S; subst.
      destruct (is_mark v); cbn; apply fi_set_stack; assumption.
    - destruct Hn as [Hop Hn]. rewrite run_bind.
      pose proof (handler_fresh op key (i + 1) st H Hop) as L.
      destruct (run (handler cfg op key (i + 1) st) rest) as [r rest'] eqn:R.
      destruct r as [o|e| |]; try exact I.
      pose proof (leaves_run _ _ _ L _ _ _ R) as Ho. unfold out_ok in Ho.
      destruct o as [st'|st' e]; cbn [st_of] in Ho; [apply IH; assumption|cbn; exact Ho].
  Qed.
End Fresh.

(* Decode: every map / Dict that existed when the call started is unchanged when it returns,
   whatever the call returns *)
Theorem decode_keeps_old_objects : forall cfg st inp r st' rest,
  hook_fresh cfg (d_next st) -> memo_free cfg st inp ->
  decode cfg st inp = ((r, st'), rest) ->
  forall g, g < d_next st -> heap_get (d_heap st') g = heap_get (d_heap st) g.
Proof.
  intros cfg st inp r st' rest HF Hn D g Hg. unfold decode, memo_free in *.
  assert (H0 : fresh_inv (d_next st) (d_heap st) (start_state st)).
  { constructor; cbn; [lia|constructor|reflexivity]. }
  pose proof (loop_fresh cfg (d_next st) (d_heap st) HF _ _ _ _ H0 Hn) as L.
  destruct (run (decode_loop (S (length inp)) cfg 0 (start_state st)) inp) as [r1 rest1].
  cbn [fst] in L. destruct r1 as [[a s]|e| |]; inversion D; subst; try reflexivity.
  apply (fi_frame _ _ _ L). exact Hg.
Qed.


Lemma memo_freeb_ok : forall cfg st inp, memo_freeb cfg st inp = true -> memo_free cfg st inp.
Proof. intros. apply nmb_nm. assumption. Qed.

(* ================================================================================================ *)
(* Part 3: self-contained pickles - every GET reads a key that a PUT of the same call wrote           *)
(* (MEMOIZE's key is the size of the shared memo, in CPython too: not self-contained in a stream)     *)
(* ================================================================================================ *)

(* the memo key a PUT / GET opcode is about to use, read from the input (and what follows it) *)
Definition memo_key (op : opcode) (rest : bytes) : option (bytes * bytes) :=
  match op with
  | OPut | OGet => split_line rest
  | OBinput | OBinget => match rest with b :: r => Some (itoa (b2N b), r) | [] => None end
  | OLongBinput | OLongBinget =>
      match take_n rest 4 with Some (b, r) => Some (itoa (le_decode b), r) | None => None end
  | _ => None
  end.

Definition is_put (op : opcode) : bool := match op with OPut | OBinput | OLongBinput => true | _ => false end.
Definition is_get (op : opcode) : bool := match op with OGet | OBinget | OLongBinget => true | _ => false end.

(* the set W of keys written so far by this call: None = the opcode is not allowed *)
Definition sc_step (op : opcode) (W : list bytes) (rest : bytes) : option (list bytes) :=
  match op with
  | OMemoize => None
  | _ =>
      if is_put op then
        match memo_key op rest with Some (k, _) => Some (k :: W) | None => Some W end
      else if is_get op then
        match memo_key op rest with
        | Some (k, _) => if existsb (bytes_eqb k) W then Some W else None
        | None => Some W
        end
      else Some W
  end.

Fixpoint scb (fuel : nat) (cfg : dconfig) (W : list bytes) (i : N) (st : dstate) (inp : bytes) : bool :=
  match fuel with
  | O => true
  | S f =>
      match inp with
      | [] => true
      | key :: rest =>
          match opcode_of_byte key with
          | None => true
          | Some op =>
              if is_stop op then true
              else match sc_step op W rest with
                   | None => false
                   | Some W' =>
                       match run (handler cfg op key (i + 1) st) rest with
                       | (Ok (HOk st'), rest') => scb f cfg W' (i + 1) st' rest'
                       | _ => true
                       end
                   end
          end
      end
  end.

(* the Decode call on inp from state st is self-contained *)
Definition self_containedb (cfg : dconfig) (st : dstate) (inp : bytes) : bool :=
  scb (S (length inp)) cfg [] 0 (start_state st) inp.
Definition self_contained (cfg : dconfig) (st : dstate) (inp : bytes) : Prop :=
  self_containedb cfg st inp = true.

Definition get_k (st : dstate) (k : bytes) : prog hout :=
  match memo_get (d_memo st) k with Some v => ok (push v st) | None => fail st EOther end.

Lemma handler_put_run : forall cfg op key i st rest, is_put op = true ->
  run (handler cfg op key i st) rest =
  match memo_key op rest with Some (k, r) => run (memo_top st k) r | None => (Err EUnexpectedEOF, []) end.
Proof.
  intros cfg op key i st rest H. destruct op; try discriminate H; cbn [handler memo_key run].
  - destruct (split_line rest) as [[l r]|]; reflexivity.
  - destruct rest; reflexivity.
  - destruct (take_n rest 4) as [[b r]|]; reflexivity.
Qed.

Lemma handler_get_run : forall cfg op key i st rest, is_get op = true ->
  run (handler cfg op key i st) rest =
  match memo_key op rest with Some (k, r) => run (get_k st k) r | None => (Err EUnexpectedEOF, []) end.
Proof.
  intros cfg op key i st rest H. destruct op; try discriminate H; cbn [handler memo_key run]; unfold get_k.
  - destruct (split_line rest) as [[l r]|]; reflexivity.
  - destruct rest; reflexivity.
  - destruct (take_n rest 4) as [[b r]|]; reflexivity.
Qed.

Lemma memo_get_set : forall m k v k', memo_get (memo_set m k v) k' = if bytes_eqb k k' then Some v else memo_get m k'.
Proof.
  induction m as [|[a x] t IH]; intros k v k'; cbn.
  - reflexivity.
  - destruct (bytes_eqb a k) eqn:E; cbn.
    + apply bytes_eqb_eq in E. subst a. destruct (bytes_eqb k k'); reflexivity.
    + rewrite IH. destruct (bytes_eqb a k') eqn:E2; [|reflexivity].
      apply bytes_eqb_eq in E2. subst a. destruct (bytes_eqb k k') eqn:E3; [|reflexivity].
      apply bytes_eqb_eq in E3. subst k'. rewrite bytes_eqb_refl in E. discriminate.
Qed.

(* two decoder states that differ in the memo only, and there only outside W *)
Definition magree (W : list bytes) (m1 m2 : list (bytes * val)) : Prop :=
  forall k, In k W -> memo_get m1 k = memo_get m2 k.
Definition st_rel (W : list bytes) (s1 s2 : dstate) : Prop :=
  s2 = set_memo s1 (d_memo s2) /\ magree W (d_memo s1) (d_memo s2).
Definition same_but_memo (s1 s2 : dstate) : Prop := s2 = set_memo s1 (d_memo s2).
Definition hout_rel (W : list bytes) (o1 o2 : hout) : Prop :=
  match o1, o2 with
  | HOk a, HOk b => st_rel W a b
  | HErr a e, HErr b e' => e = e' /\ same_but_memo a b          (* the call ends here *)
  | _, _ => False
  end.

Lemma set_memo_self : forall st, set_memo st (d_memo st) = st.
Proof. destruct st; reflexivity. Qed.

Lemma existsb_bytes_In : forall k W, existsb (bytes_eqb k) W = true -> In k W.
Proof.
  intros k W H. apply existsb_exists in H. destruct H as [x [Hx E]]. apply bytes_eqb_eq in E. subst x. exact Hx.
Qed.

Lemma memo_top_rel : forall W s1 s2 k, st_rel W s1 s2 ->
  exists o1 o2, memo_top s1 k = Ret o1 /\ memo_top s2 k = Ret o2 /\ hout_rel (k :: W) o1 o2.
Proof.
  intros W s1 s2 k [E A]. unfold memo_top. rewrite E. cbn [set_memo d_stack d_memo].
  destruct (d_stack s1) as [|v t].
  - eexists; eexists. split; [reflexivity|split; [reflexivity|]]. cbn. split; [reflexivity|]. reflexivity.
  - destruct (is_mark v).
    + eexists; eexists. split; [reflexivity|split; [reflexivity|]]. cbn. split; reflexivity.
    + eexists; eexists. split; [reflexivity|split; [reflexivity|]]. cbn. split; [reflexivity|].
      intros k0 Hk. cbn [d_memo set_memo]. rewrite !memo_get_set. destruct (bytes_eqb k k0) eqn:Ek; [reflexivity|].
      destruct Hk as [->|Hk]; [rewrite bytes_eqb_refl in Ek; discriminate|]. apply A. exact Hk.
Qed.

Lemma get_k_rel : forall W s1 s2 k, In k W -> st_rel W s1 s2 ->
  exists o1 o2, get_k s1 k = Ret o1 /\ get_k s2 k = Ret o2 /\ hout_rel W o1 o2.
Proof.
  intros W s1 s2 k Hk [E A]. unfold get_k. rewrite <- (A k Hk).
  destruct (memo_get (d_memo s1) k) as [v|]; rewrite E; cbn [set_memo d_memo].
  - eexists; eexists. split; [reflexivity|split; [reflexivity|]]. cbn. split; [reflexivity|exact A].
  - eexists; eexists. split; [reflexivity|split; [reflexivity|]]. cbn. split; reflexivity.
Qed.

(* an opcode outside the memo family leaves the memo alone *)
Lemma handler_keeps_memo : forall cfg op key i st rest o rest', memo_op op = false ->
  run (handler cfg op key i st) rest = (Ok o, rest') -> d_memo (st_of o) = d_memo st.
Proof.
  intros cfg op key i st rest o rest' Hop R.
  pose proof (rel2_run _ _ _ _ (handler_memo cfg op key i st (d_memo st) Hop) rest) as [Rr _].
  rewrite set_memo_self in Rr. rewrite R in Rr. cbn in Rr. rewrite Rr at 1. destruct o; reflexivity.
Qed.

Lemma handler_sc : forall cfg op key i s1 s2 W W' rest,
  sc_step op W rest = Some W' -> st_rel W s1 s2 ->
  res_rel (hout_rel W') (fst (run (handler cfg op key i s1) rest)) (fst (run (handler cfg op key i s2) rest)) /\
  snd (run (handler cfg op key i s1) rest) = snd (run (handler cfg op key i s2) rest).
Proof.
  intros cfg op key i s1 s2 W W' rest Hs R. unfold sc_step in Hs.
  destruct (is_put op) eqn:Hp; [|destruct (is_get op) eqn:Hg].
  - (* PUT family *)
    rewrite !(handler_put_run cfg op key i _ rest Hp).
    assert (Hs' : match memo_key op rest with Some (k, _) => Some (k :: W) | None => Some W end = Some W')
      by (destruct op; try discriminate Hp; exact Hs).
    destruct (memo_key op rest) as [[k r]|]; [|cbn; split; reflexivity]. inversion Hs'; subst W'.
    destruct (memo_top_rel W s1 s2 k R) as [o1 [o2 [E1 [E2 H]]]]. rewrite E1, E2. cbn. split; [exact H|reflexivity].
  - (* GET family *)
    rewrite !(handler_get_run cfg op key i _ rest Hg).
    assert (Hs' : match memo_key op rest with
                  | Some (k, _) => if existsb (bytes_eqb k) W then Some W else None
                  | None => Some W end = Some W')
      by (destruct op; try discriminate Hg; exact Hs).
    destruct (memo_key op rest) as [[k r]|]; [|cbn; split; reflexivity].
    destruct (existsb (bytes_eqb k) W) eqn:Ex; [|discriminate]. inversion Hs'; subst W'.
    destruct (get_k_rel W s1 s2 k (existsb_bytes_In _ _ Ex) R) as [o1 [o2 [E1 [E2 H]]]].
    rewrite E1, E2. cbn. split; [exact H|reflexivity].
  - (* every other opcode *)
    assert (Hop : memo_op op = false) by (destruct op; try reflexivity; discriminate).
    assert (HW : W' = W) by (destruct op; try discriminate Hop; inversion Hs; reflexivity). subst W'.
    destruct R as [E A].
    destruct (rel2_run _ _ _ _ (handler_memo cfg op key i s1 (d_memo s2) Hop) rest) as [Rr Rs].
    rewrite <- E in Rr, Rs. split; [|exact Rs].
    destruct (run (handler cfg op key i s1) rest) as [r1 rest1] eqn:R1.
    destruct (run (handler cfg op key i s2) rest) as [r2 rest2] eqn:R2. cbn [fst snd] in *.
    destruct r1 as [o1|e1| |]; destruct r2 as [o2|e2| |]; cbn [res_rel] in Rr |- *; try contradiction; try assumption.
    subst o2. pose proof (handler_keeps_memo cfg op key i s1 rest o1 rest1 Hop R1) as K.
    destruct o1 as [a|a e]; cbn [out_memo hout_rel st_of] in *.
    + split; [reflexivity|]. cbn [set_memo d_memo]. rewrite K. exact A.
    + split; reflexivity.
Qed.

(* ---- the loop, for both statements --------------------------------------------------------- *)

Definition dres_rel (a b : dresult) : Prop := fst b = fst a /\ same_but_memo (snd a) (snd b).

Lemma loop_sc : forall fuel cfg W i s1 s2 inp, scb fuel cfg W i s1 inp = true -> st_rel W s1 s2 ->
  res_rel dres_rel (fst (run (decode_loop fuel cfg i s1) inp)) (fst (run (decode_loop fuel cfg i s2) inp)) /\
  snd (run (decode_loop fuel cfg i s1) inp) = snd (run (decode_loop fuel cfg i s2) inp).
Proof.
  induction fuel as [|f IH]; intros cfg W i s1 s2 inp H R; [cbn; split; [exact I|reflexivity]|].
  rewrite !decode_loop_S. cbn [run]. destruct inp as [|key rest]; [cbn; split; reflexivity|].
  cbn [scb] in H. destruct (opcode_of_byte key) as [op|].
  2:{ cbn. split; [|reflexivity]. split; [reflexivity|apply R]. }
  destruct (is_stop op).
  - cbn. split; [|reflexivity]. destruct R as [E A]. unfold pop_user. rewrite E. cbn [set_memo d_stack].
    destruct (d_stack s1) as [|v t]; [split; reflexivity|]. destruct (is_mark v); split; reflexivity.
  - destruct (sc_step op W rest) as [W'|] eqn:Hs; [|discriminate]. rewrite !run_bind.
    destruct (handler_sc cfg op key (i + 1) s1 s2 W W' rest Hs R) as [Rr Rs].
    destruct (run (handler cfg op key (i + 1) s1) rest) as [r1 rest1].
    destruct (run (handler cfg op key (i + 1) s2) rest) as [r2 rest2].
    cbn [fst snd] in Rr, Rs. subst rest2.
    destruct r1 as [o1|e1| |]; destruct r2 as [o2|e2| |]; cbn [res_rel] in Rr; try contradiction.
    + destruct o1 as [a|a e]; destruct o2 as [b|b e']; cbn [hout_rel] in Rr; try contradiction.
      * apply IH with (W := W'); assumption.
      * destruct Rr as [-> Rr]. cbn. split; [|reflexivity]. split; [reflexivity|exact Rr].
    + subst e2. cbn. split; reflexivity.
    + cbn. split; [exact I|reflexivity].
    + cbn. split; [exact I|reflexivity].
Qed.

(* Decode of a self-contained pickle: the same value or error, the same bytes consumed, and final
   states that differ in the memo only - whatever memo earlier pickles left behind *)
Theorem decode_self_contained : forall cfg st inp m,
  self_contained cfg st inp ->
  fst (fst (decode cfg (set_memo st m) inp)) = fst (fst (decode cfg st inp)) /\
  snd (decode cfg (set_memo st m) inp) = snd (decode cfg st inp) /\
  same_but_memo (snd (fst (decode cfg st inp))) (snd (fst (decode cfg (set_memo st m) inp))).
Proof.
  intros cfg st inp m H. unfold decode, self_contained, self_containedb in *.
  change (start_state (set_memo st m)) with (set_memo (start_state st) m).
  assert (R : st_rel [] (start_state st) (set_memo (start_state st) m)).
  { split; [reflexivity|]. intros k []. }
  destruct (loop_sc _ _ _ _ _ _ _ H R) as [Rr Rs].
  destruct (run (decode_loop (S (length inp)) cfg 0 (start_state st)) inp) as [r1 rest1].
  destruct (run (decode_loop (S (length inp)) cfg 0 (set_memo (start_state st) m)) inp) as [r2 rest2].
  cbn [fst snd] in Rr, Rs. subst rest2.
  destruct r1 as [[a s]|e1| |]; destruct r2 as [[b s']|e2| |]; cbn [res_rel] in Rr; try contradiction; cbn [fst snd].
  - destruct Rr as [Ra Rb]. cbn [fst snd] in *. subst b. repeat split. exact Rb.
  - subst e2. repeat split.
  - repeat split.
  - repeat split.
Qed.

(* ---- self-contained calls do not write earlier maps / Dicts either ------------------------------- *)
Section FreshSC.
  Variable cfg : dconfig.
  Variable n0 : N.
  Variable h0 : heap.
  Hypothesis HF : hook_fresh cfg n0.
  Notation FI := (fresh_inv n0 h0).

  (* what this call stored in the memo came from its own stack *)
  Definition memo_ok (W : list bytes) (st : dstate) : Prop :=
    forall k v, In k W -> memo_get (d_memo st) k = Some v -> top_ok n0 v.

  Lemma fi_set_memo : forall st m, FI st -> FI (set_memo st m).
  Proof. intros st m [A B C]. constructor; cbn; assumption. Qed.

  Lemma handler_fresh_sc : forall op key i st W W' rest o rest',
    FI st -> memo_ok W st -> sc_step op W rest = Some W' ->
    run (handler cfg op key i st) rest = (Ok o, rest') ->
    FI (st_of o) /\ (forall st', o = HOk st' -> memo_ok W' st').
  Proof.
    intros op key i st W W' rest o rest' H M Hs R. unfold sc_step in Hs.
    destruct (is_put op) eqn:Hp; [|destruct (is_get op) eqn:Hg].
    - rewrite (handler_put_run cfg op key i st rest Hp) in R.
      assert (Hs' : match memo_key op rest with Some (k, _) => Some (k :: W) | None => Some W end = Some W')
        by (destruct op; try discriminate Hp; exact Hs).
      destruct (memo_key op rest) as [[k r]|]; [|discriminate]. inversion Hs'; subst W'.
      unfold memo_top in R. pose proof (fi_stack _ _ _ H) as S.
      destruct (d_stack st) as [|v t]; [cbn in R; inversion R; subst; split; [exact H|intros; discriminate]|].
      inversion S as [|? ? Hv Ht]; subst.
      destruct (is_mark v); cbn in R; inversion R; subst; cbn [st_of]; (split; [|intros st' Eo; inversion Eo; subst st']).
      + exact H.
      + apply fi_set_memo. exact H.
      + intros k0 v0 Hk G. cbn [set_memo d_memo] in G. rewrite memo_get_set in G.
        destruct (bytes_eqb k k0) eqn:Ek; [inversion G; subst; exact Hv|].
        destruct Hk as [->|Hk]; [rewrite bytes_eqb_refl in Ek; discriminate|]. eapply M; eassumption.
    - rewrite (handler_get_run cfg op key i st rest Hg) in R.
      assert (Hs' : match memo_key op rest with
                    | Some (k, _) => if existsb (bytes_eqb k) W then Some W else None
                    | None => Some W end = Some W')
        by (destruct op; try discriminate Hg; exact Hs).
      destruct (memo_key op rest) as [[k r]|]; [|discriminate].
      destruct (existsb (bytes_eqb k) W) eqn:Ex; [|discriminate]. inversion Hs'; subst W'.
      unfold get_k in R. destruct (memo_get (d_memo st) k) as [v|] eqn:G; cbn in R; inversion R; subst; cbn [st_of].
      + split; [apply fi_push; [exact H|eapply M; [apply existsb_bytes_In; exact Ex|exact G]]|].
        intros st' Eo. inversion Eo; subst st'. exact M.
      + split; [exact H|intros; discriminate].
    - assert (Hop : memo_op op = false) by (destruct op; try reflexivity; discriminate).
      assert (HW : W' = W) by (destruct op; try discriminate Hop; inversion Hs; reflexivity). subst W'.
      pose proof (leaves_run _ _ _ (handler_fresh cfg n0 h0 HF op key i st H Hop) _ _ _ R) as Ho.
      split; [exact Ho|]. intros st' Eo. subst o.
      pose proof (handler_keeps_memo cfg op key i st rest _ rest' Hop R) as K. cbn [st_of] in K.
      unfold memo_ok. rewrite K. exact M.
  Qed.

  Lemma loop_fresh_sc : forall fuel W i st inp, FI st -> memo_ok W st -> scb fuel cfg W i st inp = true ->
    match fst (run (decode_loop fuel cfg i st) inp) with
    | Ok (_, st') => FI st'
    | _ => True
    end.
  Proof.
    induction fuel as [|f IH]; intros W i st inp H M Hn; [exact I|].
    rewrite decode_loop_S. cbn [run]. destruct inp as [|key rest]; [exact I|].
    cbn [scb] in Hn. destruct (opcode_of_byte key) as [op|]; [|cbn; exact H].
    destruct (is_stop op).
    - cbn. unfold pop_user. destruct (d_stack st) as [|v t] eqn:E; [exact H|].
      pose proof (fi_stack _ _ _ H) as S. rewrite E in S. inversion S; subst.
      destruct (is_mark v); cbn; apply fi_set_stack; assumption.
    - destruct (sc_step op W rest) as [W'|] eqn:Hs; [|discriminate]. rewrite run_bind.
      destruct (run (handler cfg op key (i + 1) st) rest) as [r rest'] eqn:R.
      destruct r as [o|e| |]; try exact I.
      destruct (handler_fresh_sc op key (i + 1) st W W' rest o rest' H M Hs R) as [Ho Hm].
      destruct o as [st'|st' e]; cbn [st_of] in Ho; [|cbn; exact Ho].
      eapply IH; [exact Ho|apply Hm; reflexivity|exact Hn].
  Qed.
End FreshSC.

Theorem decode_sc_keeps_old_objects : forall cfg st inp r st' rest,
  hook_fresh cfg (d_next st) -> self_contained cfg st inp ->
  decode cfg st inp = ((r, st'), rest) ->
  forall g, g < d_next st -> heap_get (d_heap st') g = heap_get (d_heap st) g.
Proof.
  intros cfg st inp r st' rest HF Hn D g Hg. unfold decode, self_contained, self_containedb in *.
  assert (H0 : fresh_inv (d_next st) (d_heap st) (start_state st)).
  { constructor; cbn; [lia|constructor|reflexivity]. }
  assert (M0 : memo_ok (d_next st) [] (start_state st)) by (intros k v []).
  pose proof (loop_fresh_sc cfg (d_next st) (d_heap st) HF _ _ _ _ _ H0 M0 Hn) as L.
  destruct (run (decode_loop (S (length inp)) cfg 0 (start_state st)) inp) as [r1 rest1].
  cbn [fst] in L. destruct r1 as [[a s]|e| |]; inversion D; subst; try reflexivity.
  apply (fi_frame _ _ _ L). exact Hg.
Qed.

(* a call that executes no memo opcode is self-contained *)
Lemma nmb_scb : forall fuel cfg W i st inp, nmb fuel cfg i st inp = true -> scb fuel cfg W i st inp = true.
Proof.
  induction fuel as [|f IH]; intros cfg W i st inp H; [reflexivity|]. cbn [nmb scb] in *.
  destruct inp as [|key rest]; [reflexivity|]. destruct (opcode_of_byte key) as [op|]; [|reflexivity].
  destruct (is_stop op); [reflexivity|]. apply andb_true_iff in H. destruct H as [H1 H2].
  apply negb_true_iff in H1.
  assert (Hs : sc_step op W rest = Some W) by (destruct op; try discriminate H1; reflexivity). rewrite Hs.
  destruct (run (handler cfg op key (i + 1) st) rest) as [[[st'|st' e]|e| |] rest']; try reflexivity.
  apply IH. exact H2.
Qed.

Lemma memo_free_self_contained : forall cfg st inp, memo_freeb cfg st inp = true -> self_contained cfg st inp.
Proof. intros cfg st inp H. apply nmb_scb. exact H. Qed.
