(* RoundTripMaps.v — C03 / C05 / C18 for values that hold maps, Dicts and structs: Encode then
   Decode returns a value whose content (heap objects read through the decoder's heap) is the
   normal form NormMaps.norm2. *)
From Coq Require Import Ascii String.
From Coq Require Import List ZArith NArith Bool Lia.
From Coq.Strings Require Import Byte.
From OgRek Require Import Base Float Value PyEq Dict Reader Decoder Encoder Norm NormMaps.
From OgRek Require Import BaseFacts ReaderFacts DecoderFacts TypingFacts IntFacts ExecFacts RoundTrip.
Import ListNotations.
Open Scope N_scope.

(* ---- content of a decoded value, read through the heap ------------------------------------------ *)

Inductive content (h : heap) : val -> cv -> Prop :=
| ct_leaf : forall x t, erase x = Some t -> content h x (CLeaf t)
| ct_list : forall lid l cs, Forall2 (content h) l cs -> content h (VList lid l) (CList cs)
| ct_tuple : forall l cs, Forall2 (content h) l cs -> content h (VTuple l) (CTuple cs)
| ct_call : forall m n l cs, Forall2 (content h) l cs -> content h (VCall m n l) (CCall m n cs)
| ct_map : forall id es ces, heap_get h id = Some (HMap es) ->
    Forall2 (fun e ce => content h (fst e) (fst ce) /\ content h (snd e) (snd ce)) es ces ->
    content h (VMap id) (CMap ces)
| ct_dict : forall id es ces, heap_get h id = Some (HDict es) ->
    Forall2 (fun e ce => content h (fst e) (fst ce) /\ content h (snd e) (snd ce)) es ces ->
    content h (VDict id) (CDict ces).

(* objects, once allocated, stay as they are *)
Definition gext (h h' : heap) : Prop := forall id o, heap_get h id = Some o -> heap_get h' id = Some o.

Lemma gext_refl : forall h, gext h h.
Proof. intros h id o H. exact H. Qed.
Lemma gext_trans : forall a b c, gext a b -> gext b c -> gext a c.
Proof. intros a b c H1 H2 id o H. apply H2, H1, H. Qed.

Lemma content_mono : forall h h', gext h h' -> forall x c, content h x c -> content h' x c.
Proof.
  intros h h' He. fix IH 3. intros x c H.
  assert (L : forall l cs, Forall2 (content h) l cs -> Forall2 (content h') l cs).
  { fix go 3. intros l cs F. destruct F as [|a b l' cs' Hab F']; constructor; [apply IH; exact Hab|apply go; exact F']. }
  assert (P : forall es ces,
             Forall2 (fun e ce => content h (fst e) (fst ce) /\ content h (snd e) (snd ce)) es ces ->
             Forall2 (fun e ce => content h' (fst e) (fst ce) /\ content h' (snd e) (snd ce)) es ces).
  { fix go 3. intros es ces F. destruct F as [|a b l' cs' [Hk Hv] F']; constructor;
      [split; apply IH; assumption|apply go; exact F']. }
  destruct H as [x t E|lid l cs F|l cs F|m n l cs F|id es ces G F|id es ces G F].
  - apply ct_leaf. exact E.
  - apply ct_list. apply L. exact F.
  - apply ct_tuple. apply L. exact F.
  - apply ct_call. apply L. exact F.
  - eapply ct_map; [apply He; exact G|apply P; exact F].
  - eapply ct_dict; [apply He; exact G|apply P; exact F].
Qed.

Lemma content_not_mark : forall h x c, content h x c -> is_mark x = false.
Proof. intros h x c H. destruct H; try reflexivity. eapply erase_not_mark. eassumption. Qed.

(* ---- allocation --------------------------------------------------------------------------------- *)

Definition heap_bound (st : dstate) : Prop :=
  forall id o, heap_get (d_heap st) id = Some o -> id < d_next st.

Definition st_of (o : hout) : dstate := match o with HOk st | HErr st _ => st end.

Lemma handler_next_mono : forall cfg op key insn st,
  leaves (fun o => d_next st <= d_next (st_of o)) (handler cfg op key insn st).
Proof.
  intros cfg op key insn st. destruct st as [stk mem heap next proto log lens stale].
  destruct op; cbn [handler];
    try unfold tuple_n, do_reduce, handle_ref, push_bytestring, memo_top, new_dict_obj.
  all: repeat (cbn [handler set_memo set_stack set_heap set_proto push fresh add_log set_len cur_len
                    d_stack d_memo d_heap d_next d_proto d_log d_lens d_stale fst snd st_of leaves ok fail];
               match goal with
               | |- forall _, _ => intro
               | |- context [if c_pydict ?c then _ else _] => destruct (c_pydict c) eqn:?
               | |- leaves _ PanicP => exact I
               | |- leaves _ OOF => exact I
               | |- leaves _ (if ?c then _ else _) => destruct c eqn:?
               | |- leaves _ (match ?x with _ => _ end) => destruct x eqn:?
               | |- leaves _ (let '(_, _) := ?x in _) => destruct x eqn:?
               end).
  all: cbn [leaves ok fail st_of d_next set_memo set_stack set_heap set_proto push add_log set_len] in *; try lia.
  all: try (destruct (c_strict cfg); cbn; lia).
Qed.

Lemma exec_next_mono : forall cfg i st inp i' st' inp',
  exec cfg i st inp i' st' inp' -> d_next st <= d_next st'.
Proof.
  intros cfg i st inp i' st' inp' E. induction E as [|? ? ? ? ? ? ? ? ? ? Ho Hs Hr He IH]; [lia|].
  pose proof (leaves_run _ _ _ (handler_next_mono cfg op key (i + 1) st) _ _ _ Hr) as L. cbn [st_of] in L. lia.
Qed.

(* ---- one pushed value, with heap objects ---------------------------------------------------------- *)

Definition cpushes (cfg : dconfig) (pr : N) (bytes_ : bytes) (c : cv) : Prop :=
  forall i st rest, d_proto st = pr -> heap_bound st ->
    exists i' st' x,
      exec cfg i st (bytes_ ++ rest) i' st' rest /\
      d_stack st' = x :: d_stack st /\ content (d_heap st') x c /\
      d_memo st' = d_memo st /\ d_proto st' = d_proto st /\
      gext (d_heap st) (d_heap st') /\ heap_bound st'.

Definition cpushes_many (cfg : dconfig) (pr : N) (bytes_ : bytes) (cs : list cv) : Prop :=
  forall i st rest, d_proto st = pr -> heap_bound st ->
    exists i' st' xs,
      exec cfg i st (bytes_ ++ rest) i' st' rest /\
      d_stack st' = rev xs ++ d_stack st /\ Forall2 (content (d_heap st')) xs cs /\
      d_memo st' = d_memo st /\ d_proto st' = d_proto st /\
      gext (d_heap st) (d_heap st') /\ heap_bound st'.

(* what RoundTrip.v proves for heap-free values carries over *)
Lemma cpushes_of_pushes_at : forall cfg pr b t, pushes_at cfg pr b t -> cpushes cfg pr b (CLeaf t).
Proof.
  intros cfg pr b t H i st rest Hpr Hb.
  destruct (H i st rest Hpr) as [i' [st' [x [E [S [T [M [P Hh]]]]]]]].
  exists i', st', x. split; [exact E|]. split; [exact S|]. split; [apply ct_leaf; exact T|].
  split; [exact M|]. split; [exact P|]. split; [rewrite Hh; apply gext_refl|].
  intros id o G. rewrite Hh in G. pose proof (exec_next_mono _ _ _ _ _ _ _ E). specialize (Hb id o G). lia.
Qed.

Lemma cpushes_many_nil : forall cfg pr, cpushes_many cfg pr [] [].
Proof.
  intros cfg pr i st rest _ Hb. exists i, st, []. split; [apply exec_refl|].
  repeat split; try reflexivity; [constructor|apply gext_refl|exact Hb].
Qed.

Lemma Forall2_content_mono : forall h h' xs cs, gext h h' ->
  Forall2 (content h) xs cs -> Forall2 (content h') xs cs.
Proof. intros h h' xs cs He F. induction F; constructor; [eapply content_mono; eassumption|assumption]. Qed.

Lemma cpushes_many_cons : forall cfg pr b c bs cs,
  cpushes cfg pr b c -> cpushes_many cfg pr bs cs -> cpushes_many cfg pr (b ++ bs) (c :: cs).
Proof.
  intros cfg pr b c bs cs Hb Hbs i st rest Hpr Hbd.
  rewrite <- app_assoc.
  destruct (Hb i st (bs ++ rest) Hpr Hbd) as [i1 [st1 [x [E1 [S1 [T1 [M1 [P1 [H1 B1]]]]]]]]].
  destruct (Hbs i1 st1 rest (eq_trans P1 Hpr) B1) as [i2 [st2 [xs [E2 [S2 [T2 [M2 [P2 [H2 B2]]]]]]]]].
  exists i2, st2, (x :: xs). split; [eapply exec_trans; eassumption|].
  split; [rewrite S2, S1; cbn [rev]; rewrite <- app_assoc; reflexivity|].
  split; [constructor; [eapply content_mono; eassumption|exact T2]|].
  split; [congruence|]. split; [congruence|]. split; [eapply gext_trans; eassumption|exact B2].
Qed.

Lemma Forall2_content_no_mark : forall h xs cs, Forall2 (content h) xs cs -> existsb is_mark xs = false.
Proof.
  intros h xs cs F. induction F as [|x c xs cs Hx F IH]; [reflexivity|]. cbn.
  rewrite (content_not_mark _ _ _ Hx), IH. reflexivity.
Qed.

Lemma Forall2_length' : forall A B (P : A -> B -> Prop) l l', Forall2 P l l' -> length l = length l'.
Proof. intros A B P l l' F. induction F; cbn; congruence. Qed.

(* ---- containers -------------------------------------------------------------------------------------- *)

Lemma cpush_mark_tuple : forall cfg pr bs cs,
  cpushes_many cfg pr bs cs -> cpushes cfg pr (x28 :: bs ++ [x74]) (CTuple cs).
Proof.
  intros cfg pr bs cs H i st rest Hpr Hb. cbn [app]. rewrite <- app_assoc. cbn [app].
  destruct (H (i + 1) (push VMark st) (x74 :: rest) Hpr Hb) as [i1 [st1 [xs [E1 [S1 [T1 [M1 [P1 [H1 B1]]]]]]]]].
  pose proof (Forall2_content_no_mark _ _ _ T1) as NM.
  assert (SM : split_mark (d_stack st1) = Some (rev xs, d_stack st)).
  { rewrite S1. cbn [push set_stack d_stack]. apply split_mark_app. rewrite existsb_rev. exact NM. }
  eexists; eexists; eexists. split.
  - eapply exec_step; [reflexivity|reflexivity|reflexivity|].
    eapply exec_trans; [exact E1|]. eapply exec_one; [reflexivity|reflexivity|].
    cbn [handler]. rewrite SM. reflexivity.
  - cbn [set_stack d_stack d_memo d_proto d_heap d_next]. rewrite rev_involutive.
    repeat split; try assumption. apply ct_tuple. exact T1.
Qed.

Lemma cpush_tuple_n : forall cfg pr bs cs n op,
  (n = 1%nat /\ op = x85) \/ (n = 2%nat /\ op = x86) \/ (n = 3%nat /\ op = x87) ->
  length cs = n -> cpushes_many cfg pr bs cs -> cpushes cfg pr (bs ++ [op]) (CTuple cs).
Proof.
  intros cfg pr bs cs n op Hn Hl H i st rest Hpr Hb. rewrite <- app_assoc. cbn [app].
  destruct (H i st (op :: rest) Hpr Hb) as [i1 [st1 [xs [E1 [S1 [T1 [M1 [P1 [H1 B1]]]]]]]]].
  pose proof (Forall2_length' _ _ _ _ _ T1) as L. pose proof (Forall2_content_no_mark _ _ _ T1) as NM.
  assert (R : forall k, k = n ->
            run (tuple_n st1 k) rest = (Ok (HOk (set_stack st1 (VTuple xs :: d_stack st))), rest)).
  { intros k ->. unfold tuple_n. rewrite S1. rewrite <- Hl, <- L.
    assert (Lt : Nat.ltb (length (rev xs ++ d_stack st)) (length xs) = false).
    { apply Nat.ltb_ge. rewrite app_length, rev_length. lia. }
    rewrite Lt, firstn_rev_app, skipn_rev_app, existsb_rev, NM, rev_involutive. reflexivity. }
  eexists; eexists; eexists. split.
  - eapply exec_trans; [exact E1|].
    destruct Hn as [[-> ->]|[[-> ->]|[-> ->]]]; (eapply exec_one; [reflexivity|reflexivity|]; cbn [handler]; apply R; reflexivity).
  - cbn [set_stack d_stack d_memo d_proto d_heap d_next]. repeat split; try assumption. apply ct_tuple. exact T1.
Qed.

Lemma cpush_mark_list : forall cfg pr bs cs,
  cpushes_many cfg pr bs cs -> cpushes cfg pr (x28 :: bs ++ [x6c]) (CList cs).
Proof.
  intros cfg pr bs cs H i st rest Hpr Hb. cbn [app]. rewrite <- app_assoc. cbn [app].
  destruct (H (i + 1) (push VMark st) (x6c :: rest) Hpr Hb) as [i1 [st1 [xs [E1 [S1 [T1 [M1 [P1 [H1 B1]]]]]]]]].
  pose proof (Forall2_content_no_mark _ _ _ T1) as NM.
  assert (SM : split_mark (d_stack st1) = Some (rev xs, d_stack st)).
  { rewrite S1. cbn [push set_stack d_stack]. apply split_mark_app. rewrite existsb_rev. exact NM. }
  eexists; eexists; eexists. split.
  - eapply exec_step; [reflexivity|reflexivity|reflexivity|].
    eapply exec_trans; [exact E1|]. eapply exec_one; [reflexivity|reflexivity|].
    cbn [handler]. rewrite SM. reflexivity.
  - cbn [fresh set_len set_stack d_stack d_memo d_proto d_heap d_next]. rewrite rev_involutive.
    split; [reflexivity|]. split; [apply ct_list; exact T1|]. split; [exact M1|]. split; [exact P1|].
    split; [exact H1|]. intros id o G. specialize (B1 id o G). cbn [d_next set_stack set_len]. lia.
Qed.

(* ---- assignments: the decoder's heap object against the normal form's entry list ----------------- *)

From OgRek Require Import PyEqFacts DictFacts EraseFacts SimFacts.

Definition pairc (h : heap) (e : val * val) (ce : cv * cv) : Prop :=
  content h (fst e) (fst ce) /\ content h (snd e) (snd ce).

Definition key_ok (pd : bool) (ce : cv * cv) : Prop :=
  exists tk, fst ce = CLeaf tk /\ (if pd then nf_key (unerase tk) = true else has_big tk = false).

Definition mk_obj (pd : bool) (es : list (val * val)) : hobj := if pd then HDict es else HMap es.

Lemma content_leaf_inv : forall h x t, content h x (CLeaf t) -> erase x = Some t.
Proof. intros h x t H. inversion H; subst. assumption. Qed.

Lemma Forall2_filter : forall A B (R : A -> B -> Prop) (P : A -> bool) (Q : B -> bool) l l',
  Forall2 (fun a b => R a b /\ P a = Q b) l l' -> Forall2 R (filter P l) (filter Q l').
Proof.
  intros A B R P Q l l' F. induction F as [|a b l l' [Hr Hp] F IH]; cbn; [constructor|].
  rewrite <- Hp. destruct (P a); [constructor; assumption|assumption].
Qed.

Lemma Forall2_and : forall A B (R S : A -> B -> Prop) l l',
  Forall2 R l l' -> (forall a b, In a l -> In b l' -> R a b -> S a b) -> Forall2 (fun a b => R a b /\ S a b) l l'.
Proof.
  intros A B R S l l' F. induction F as [|a b l l' Hr F IH]; intros H; constructor.
  - split; [exact Hr|apply H; [left; reflexivity|left; reflexivity|exact Hr]].
  - apply IH. intros a' b' Ia Ib Hr'. apply H; [right; exact Ia|right; exact Ib|exact Hr'].
Qed.

Lemma cassign_rel : forall pd h es ces kx vx k v ces',
  Forall2 (pairc h) es ces -> Forall (key_ok pd) ces ->
  content h kx k -> content h vx v -> cassign pd ces k v = Some ces' ->
  exists es', obj_assign (mk_obj pd es) kx vx = Some (mk_obj pd es') /\
              Forall2 (pairc h) es' ces' /\ Forall (key_ok pd) ces'.
Proof.
  intros pd h es ces kx vx k v ces' F K Ck Cv A. unfold cassign in A.
  destruct (cv_key k) as [tk|] eqn:Ek; [|discriminate].
  destruct k as [t| | | | |]; try discriminate Ek. cbn in Ek. injection Ek as ->.
  pose proof (content_leaf_inv _ _ _ Ck) as Ekx.
  destruct pd; cbn [mk_obj obj_assign].
  - (* Dict *)
    destruct (nf_key (unerase tk)) eqn:Nk; [|discriminate]. injection A as <-.
    assert (Nkx : nf_key kx = true) by (rewrite (nf_key_erase kx tk Ekx); exact Nk).
    assert (Ne : nf_entries es).
    { unfold nf_entries. clear - F K. induction F as [|e ce es ces [Hk Hv] F IH]; constructor.
      - inversion K as [|? ? [tk' [E1 E2]] K']; subst. rewrite E1 in Hk.
        rewrite (nf_key_erase _ _ (content_leaf_inv _ _ _ Hk)). exact E2.
      - apply IH. inversion K; assumption. }
    rewrite (dict_set_is_ref choose_first kx vx es Nkx Ne). eexists. split; [reflexivity|].
    unfold ref_set, ref_remove. split.
    + apply Forall2_app; [|constructor; [split; assumption|constructor]].
      apply Forall2_filter. apply Forall2_and; [exact F|].
      intros e ce Ie Ice [Hk Hv]. rewrite Forall_forall in K. destruct (K ce Ice) as [tk' [E1 E2]].
      rewrite E1 in Hk |- *. cbn [ukey cv_key fst]. f_equal.
      apply py_eq_erase; [exact Ekx|exact (content_leaf_inv _ _ _ Hk)].
    + apply Forall_app. split.
      * rewrite Forall_forall in *. intros ce Hc. apply filter_In in Hc. apply K. apply Hc.
      * constructor; [|constructor]. exists tk. split; [reflexivity|exact Nk].
  - (* builtin map *)
    destruct (go_unhashable (unerase tk) || has_big tk) eqn:U; [discriminate|]. injection A as <-.
    apply orb_false_iff in U. destruct U as [U Hb].
    rewrite (go_unhashable_erase kx tk Ekx), U. eexists. split; [reflexivity|].
    clear - F K Ck Cv Ekx Hb. induction F as [|e ce es ces [Hk Hv] F IH]; cbn [gomap_assign].
    + split; [constructor; [split; assumption|constructor]|]. constructor; [|constructor].
      exists tk. split; [reflexivity|exact Hb].
    + inversion K as [|? ? [tk' [E1 E2]] K']; subst. destruct e as [k' v']. destruct ce as [ck' cv']. cbn [fst snd] in *.
      subst ck'. cbn [ukey cv_key].
      rewrite (go_key_eq_erase k' kx tk' tk (content_leaf_inv _ _ _ Hk) Ekx E2).
      destruct (go_key_eq (unerase tk') (unerase tk)).
      * split; [constructor; [split; assumption|exact F]|]. constructor; [exists tk; split; [reflexivity|exact Hb]|exact K'].
      * destruct (IH K') as [I1 I2]. split; [constructor; [split; assumption|exact I1]|].
        constructor; [exists tk'; split; [reflexivity|exact E2]|exact I2].
Qed.

Fixpoint cflatten (ps : list (cv * cv)) : list cv :=
  match ps with [] => [] | (k, v) :: t => k :: v :: cflatten t end.

Lemma unflatten : forall h cps xs, Forall2 (content h) xs (cflatten cps) ->
  exists vtr, xs = flatten vtr /\ Forall2 (pairc h) vtr cps.
Proof.
  intros h cps. induction cps as [|[ck cvv] t IH]; intros xs F; cbn [cflatten] in F.
  - inversion F; subst. exists []. split; [reflexivity|constructor].
  - inversion F as [|k ? xs1 ? Hk F1]; subst. inversion F1 as [|v ? xs2 ? Hv F2]; subst.
    destruct (IH xs2 F2) as [vtr [-> Fv]]. exists ((k, v) :: vtr). split; [reflexivity|].
    constructor; [split; assumption|exact Fv].
Qed.

Lemma flatten_even : forall vtr, Nat.odd (length (flatten vtr)) = false.
Proof.
  induction vtr as [|[k v] t IH]; [reflexivity|]. cbn [flatten length].
  rewrite Nat.odd_succ, <- Nat.negb_odd, Nat.odd_succ, <- Nat.negb_odd, IH. reflexivity.
Qed.

Lemma cassign_all_rel : forall pd h cps vtr es ces ces',
  Forall2 (pairc h) vtr cps -> Forall2 (pairc h) es ces -> Forall (key_ok pd) ces ->
  cassign_all pd ces cps = Some ces' ->
  exists es', obj_assign_all (mk_obj pd es) vtr = Some (mk_obj pd es') /\
              Forall2 (pairc h) es' ces' /\ Forall (key_ok pd) ces'.
Proof.
  intros pd h cps. induction cps as [|[ck cvv] t IH]; intros vtr es ces ces' Fv Fe K A; cbn [cassign_all] in A.
  - inversion Fv; subst. injection A as <-. exists es. repeat split; assumption.
  - inversion Fv as [|[kx vx] ? vtr' ? [Hk Hv] Fv']; subst. cbn [fst snd] in *.
    destruct (cassign pd ces ck cvv) as [ces1|] eqn:A1; [|discriminate].
    destruct (cassign_rel pd h es ces kx vx ck cvv ces1 Fe K Hk Hv A1) as [es1 [O1 [F1 K1]]].
    destruct (IH vtr' es1 ces1 ces' Fv' F1 K1 A) as [es' [O2 [F2 K2]]].
    exists es'. cbn [obj_assign_all]. rewrite O1. repeat split; assumption.
Qed.

Lemma content_mk_dict : forall pd h id es ces, heap_get h id = Some (mk_obj pd es) ->
  Forall2 (pairc h) es ces -> content h (dict_val pd id) (mk_dict pd ces).
Proof.
  intros pd h id es ces G F. unfold dict_val, mk_dict, mk_obj in *. destruct pd.
  - eapply ct_dict; [exact G|exact F].
  - eapply ct_map; [exact G|exact F].
Qed.

Lemma mk_obj_inj : forall pd a b, mk_obj pd a = mk_obj pd b -> a = b.
Proof. intros pd a b H. destruct pd; inversion H; reflexivity. Qed.

(* MARK k1 v1 ... kn vn DICT *)
Lemma cpush_dict : forall pd su load pr bs cps ces,
  cpushes_many (Build_dconfig pd su load) pr bs (cflatten cps) -> cassign_all pd [] cps = Some ces ->
  cpushes (Build_dconfig pd su load) pr (x28 :: bs ++ [x64]) (mk_dict pd ces).
Proof.
  intros pd su load pr bs cps ces H A i st rest Hpr Hb. cbn [app]. rewrite <- app_assoc. cbn [app].
  destruct (H (i + 1) (push VMark st) (x64 :: rest) Hpr Hb) as [i1 [st1 [xs [E1 [S1 [T1 [M1 [P1 [H1 B1]]]]]]]]].
  pose proof (Forall2_content_no_mark _ _ _ T1) as NM.
  assert (SM : split_mark (d_stack st1) = Some (rev xs, d_stack st)).
  { rewrite S1. cbn [push set_stack d_stack]. apply split_mark_app. rewrite existsb_rev. exact NM. }
  set (id := d_next st1).
  set (h0 := heap_set (d_heap st1) id (empty_obj pd)).
  assert (Hx0 : gext (d_heap st1) h0).
  { intros j o G. unfold h0. rewrite heap_get_set_other; [exact G|]. specialize (B1 j o G). unfold id. lia. }
  (* the assignments *)
  assert (X : exists h' es', assign_pairs h0 (dict_val pd id) xs = (h', true) /\
                             heap_get h' id = Some (mk_obj pd es') /\ Forall2 (pairc h') es' ces /\
                             (forall j, j <> id -> heap_get h' j = heap_get h0 j)).
  { pose proof (Forall2_content_mono _ _ _ _ Hx0 T1) as T0.
    destruct (unflatten h0 cps xs T0) as [vtr [-> Fv]].
    destruct (cassign_all_rel pd h0 cps vtr [] [] ces Fv (Forall2_nil _) (Forall_nil _) A) as [es' [O _]].
    pose proof (assign_pairs_spec pd vtr h0 id (empty_obj pd) (heap_get_set_same _ _ _) (kind_empty pd)) as Sp.
    change (mk_obj pd []) with (empty_obj pd) in O. rewrite O in Sp. destruct Sp as [h' [Q1 [Q2 Q3]]].
    exists h', es'. split; [exact Q1|]. split; [exact Q2|]. split; [|exact Q3].
    assert (Hx' : gext (d_heap st1) h').
    { intros j o G. assert (Ne : j <> id) by (specialize (B1 j o G); unfold id; lia).
      rewrite (Q3 j Ne). apply Hx0. exact G. }
    pose proof (Forall2_content_mono _ _ _ _ Hx' T1) as T'.
    destruct (unflatten h' cps (flatten vtr) T') as [vtr' [Ev Fv']].
    destruct (cassign_all_rel pd h' cps vtr' [] [] ces Fv' (Forall2_nil _) (Forall_nil _) A) as [es'' [O' [Fe' _]]].
    assert (vtr' = vtr).
    { clear - Ev. revert vtr' Ev. induction vtr as [|[k v] t IH]; intros [|[k' v'] t'] E; cbn in E; try discriminate; [reflexivity|].
      injection E as -> -> E. f_equal. apply IH. exact E. }
    subst vtr'. change (mk_obj pd []) with (empty_obj pd) in O'. rewrite O in O'. injection O' as O'.
    apply mk_obj_inj in O'. subst es''. exact Fe'. }
  destruct X as [h' [es' [Q1 [Q2 [Fe Q3]]]]].
  assert (Hx' : gext (d_heap st1) h').
  { intros j o G. assert (Ne : j <> id) by (specialize (B1 j o G); unfold id; lia).
    rewrite (Q3 j Ne). apply Hx0. exact G. }
  eexists; eexists; eexists. split.
  - eapply exec_step; [reflexivity|reflexivity|reflexivity|].
    eapply exec_trans; [exact E1|]. eapply exec_one; [reflexivity|reflexivity|].
    cbn [handler]. rewrite SM. rewrite rev_length.
    assert (Od : Nat.odd (length xs) = false).
    { destruct (unflatten _ _ _ T1) as [vtr [-> _]]. apply flatten_even. }
    rewrite Od. unfold new_dict_obj. cbn [fresh c_pydict]. rewrite rev_involutive.
    destruct pd; cbn [set_heap d_heap];
      change (heap_set (d_heap st1) (d_next st1) _) with h0; fold id;
      [change (VDict id) with (dict_val true id)|change (VMap id) with (dict_val false id)];
      rewrite Q1; reflexivity.
  - destruct pd; cbn [set_stack set_heap d_stack d_memo d_proto d_heap d_next];
      (split; [reflexivity|]); (split; [eapply (content_mk_dict _ h' id es' ces); [exact Q2|exact Fe]|]);
      (split; [exact M1|]); (split; [exact P1|]);
      (split; [eapply gext_trans; [exact H1|exact Hx']|]);
      intros j o G; cbn [set_stack set_heap d_heap d_next] in *;
      (destruct (N.eq_dec j id) as [->|Ne]; [unfold id; lia|]);
      rewrite (Q3 j Ne) in G; unfold h0 in G; rewrite heap_get_set_other in G by exact Ne;
      specialize (B1 j o G); lia.
Qed.

Lemma cpush_empty_dict : forall pd su load pr, cpushes (Build_dconfig pd su load) pr [x7d] (mk_dict pd []).
Proof.
  intros pd su load pr i st rest Hpr Hb. cbn [app].
  destruct pd; (eexists; eexists; eexists; split;
    [eapply exec_one; [reflexivity|reflexivity|]; cbn [handler]; unfold new_dict_obj; cbn [fresh c_pydict]; reflexivity|]);
    cbn [push set_stack set_heap d_stack d_memo d_proto d_heap d_next];
      (split; [reflexivity|]);
      (split; [first [eapply ct_dict|eapply ct_map]; [apply heap_get_set_same|apply Forall2_nil]|]);
      (split; [reflexivity|]); (split; [reflexivity|]);
      (split; [intros j o G; rewrite heap_get_set_other; [exact G|specialize (Hb j o G); lia]|]);
      intros j o G; cbn [push set_stack set_heap d_heap d_next] in *;
      (destruct (N.eq_dec j (d_next st)) as [->|Ne]; [lia|]);
      rewrite heap_get_set_other in G by exact Ne; specialize (Hb j o G); lia.
Qed.

Lemma content_class_inv : forall h x m n, content h x (CLeaf (TClass m n)) -> x = VClass m n.
Proof. intros h x m n H. apply erase_class_inv. eapply content_leaf_inv. exact H. Qed.

Lemma content_tuple_inv : forall h x cs, content h x (CTuple cs) -> exists l, x = VTuple l /\ Forall2 (content h) l cs.
Proof. intros h x cs H. inversion H; subst. eexists. split; [reflexivity|assumption]. Qed.

(* GLOBAL / STACK_GLOBAL, argument tuple, REDUCE: a Call of a class the decoder does not interpret *)
Lemma cpush_reduce : forall cfg pr bc m n bt cs,
  plain_class m n -> cpushes cfg pr bc (CLeaf (TClass m n)) -> cpushes cfg pr bt (CTuple cs) ->
  cpushes cfg pr (bc ++ bt ++ [x52]) (CCall m n cs).
Proof.
  intros cfg pr bc m n bt cs [PC1 PC2] Hc Ht i st rest Hpr Hb. rewrite <- !app_assoc. cbn [app].
  destruct (Hc i st (bt ++ x52 :: rest) Hpr Hb) as [i1 [st1 [xc [E1 [S1 [T1 [M1 [P1 [H1 B1]]]]]]]]].
  destruct (Ht i1 st1 (x52 :: rest) (eq_trans P1 Hpr) B1) as [i2 [st2 [xt [E2 [S2 [T2 [M2 [P2 [H2 B2]]]]]]]]].
  apply content_class_inv in T1. subst xc.
  apply content_tuple_inv in T2. destruct T2 as [l [-> Fl]].
  eexists; eexists; eexists. split.
  - eapply exec_trans; [exact E1|]. eapply exec_trans; [exact E2|].
    eapply exec_one; [reflexivity|reflexivity|].
    cbn [handler]. rewrite S2, S1. cbv beta iota zeta. unfold do_reduce. rewrite PC1, PC2, andb_false_r. reflexivity.
  - cbn [push set_stack d_stack d_memo d_proto d_heap d_next]. split; [reflexivity|].
    split; [apply ct_call; exact Fl|]. split; [congruence|]. split; [congruence|].
    split; [eapply gext_trans; eassumption|exact B2].
Qed.

(* ---- the encoder's output ---------------------------------------------------------------------- *)

Section RT2.
  Variable c : econfig.
  Variable pd : bool.
  Variable load : option (N -> val -> load_result).
  Variable g : tval -> tval.
  Hypothesis HL : hook_spec load g.
  Let cfg := dcfg_h c pd load.
  Let pr := dproto_of c.

  Definition good2 (p : wprog) (t : cv) : Prop := wok p /\ cpushes cfg pr (wout p) t.
  Definition good_many2 (p : wprog) (ts : list cv) : Prop := wok p /\ cpushes_many cfg pr (wout p) ts.

  Lemma good2_of_good : forall p t, good c pd load p t -> good2 p (CLeaf t).
  Proof. intros p t [W P]. split; [exact W|]. apply cpushes_of_pushes_at. exact P. Qed.

  Lemma good2_emit : forall b t, cpushes cfg pr b t -> good2 (emit b) t.
  Proof. intros b t H. split; [apply wok_emit|rewrite wout_emit; exact H]. Qed.

  Lemma good2_seq3 : forall p q r bp bq br t,
    wok p -> wok q -> wok r -> wout p = bp -> wout q = bq -> wout r = br ->
    cpushes cfg pr (bp ++ bq ++ br) t -> good2 (wseq p (wseq q r)) t.
  Proof.
    intros p q r bp bq br t Hp Hq Hr Ep Eq Er H. split.
    - apply wok_wseq; [assumption|apply wok_wseq; assumption].
    - rewrite wout_wseq; [|assumption|apply wok_wseq; assumption]. rewrite wout_wseq by assumption.
      rewrite Ep, Eq, Er. exact H.
  Qed.

  (* the empty containers, in the spelled-out form *)
  Lemma cpush_empty_tuple : cpushes cfg pr [x29] (CTuple []).
  Proof.
    intros i st rest Hpr Hb.
    destruct (cpushes_of_pushes_at cfg pr _ _ (pushes_any cfg pr _ _ (push_empty_tuple cfg)) i st rest Hpr Hb)
      as [i' [st' [x [E [S [T R]]]]]].
    exists i', st', x. split; [exact E|]. split; [exact S|]. split; [|exact R].
    apply content_leaf_inv in T. apply erase_tuple_inv in T. destruct T as [l [-> El]].
    destruct l; [|cbn in El; destruct (erase v); [destruct (map_opt erase l)|]; discriminate].
    apply ct_tuple. constructor.
  Qed.

  Lemma cpush_empty_list : cpushes cfg pr [x5d] (CList []).
  Proof.
    intros i st rest Hpr Hb.
    destruct (cpushes_of_pushes_at cfg pr _ _ (pushes_any cfg pr _ _ (push_empty_list cfg)) i st rest Hpr Hb)
      as [i' [st' [x [E [S [T R]]]]]].
    exists i', st', x. split; [exact E|]. split; [exact S|]. split; [|exact R].
    apply content_leaf_inv in T. destruct x; cbn in T; try discriminate;
      try (match type of T with option_map _ ?e = _ => destruct e eqn:El; try discriminate end).
    injection T as T. destruct l; [apply ct_list; constructor|].
    cbn in El. destruct (erase v); [destruct (map_opt erase l)|]; try discriminate. injection El as El. subst. discriminate.
  Qed.

  Lemma rt_wrap_tuple2 : forall items cs n, length cs = n -> good_many2 items cs ->
    good2 (wrap_tuple c n items) (CTuple cs).
  Proof.
    intros items cs n Hl [W P]. unfold wrap_tuple.
    destruct ((2 <=? e_proto c)%Z && Nat.leb 1 n && Nat.leb n 3) eqn:E.
    { apply andb_true_iff in E. destruct E as [E E3]. apply andb_true_iff in E. destruct E as [_ E1].
      apply Nat.leb_le in E1, E3. split; [apply wok_wseq; [exact W|apply wok_emit]|].
      rewrite wout_wseq; [|exact W|apply wok_emit]. rewrite wout_emit.
      eapply cpush_tuple_n; [|exact Hl|exact P].
      destruct n as [|[|[|[|n]]]]; try lia; [left|right; left|right; right]; split; reflexivity. }
    destruct ((1 <=? e_proto c)%Z && Nat.eqb n 0) eqn:E0.
    { apply andb_true_iff in E0. destruct E0 as [_ E0]. apply Nat.eqb_eq in E0. subst n.
      destruct cs; [|discriminate]. apply good2_emit. apply cpush_empty_tuple. }
    apply (good2_seq3 _ _ _ _ _ _ _ (wok_emit _) W (wok_emit _) (wout_emit _) eq_refl (wout_emit _)).
    cbn [app]. apply cpush_mark_tuple. exact P.
  Qed.

  Lemma rt_wrap_call2 : forall m n k args cs,
    class_ok c m n = true -> plain_classb m n = true -> length cs = k -> good_many2 args cs ->
    good2 (wrap_call c m n k args) (CCall m n cs).
  Proof.
    intros m n k args cs Hc Hp Hl Ha. unfold wrap_call.
    destruct (good2_of_good _ _ (rt_class c pd load m n Hc)) as [Wc Pc].
    destruct (rt_wrap_tuple2 args cs k Hl Ha) as [Wt Pt].
    apply (good2_seq3 _ _ _ _ _ _ _ Wc Wt (wok_emit _) eq_refl eq_refl (wout_emit _)).
    apply cpush_reduce; try assumption.
    unfold plain_classb in Hp. apply andb_true_iff in Hp. destruct Hp as [H1 H2].
    apply negb_true_iff in H1, H2. split; assumption.
  Qed.

  Lemma rt_list_nil2 : good_many2 (encl c []) [].
  Proof. change (encl c []) with WDone. split; [apply wok_WDone|rewrite wout_WDone; apply cpushes_many_nil]. Qed.

  Lemma rt_list_cons2 : forall x r t ts, good2 (enc c x) t -> good_many2 (encl c r) ts ->
    good_many2 (encl c (x :: r)) (t :: ts).
  Proof.
    intros x r t ts [W1 P1] [W2 P2]. change (encl c (x :: r)) with (wseq (enc c x) (encl c r)).
    split; [apply wok_wseq; assumption|]. rewrite wout_wseq by assumption. apply cpushes_many_cons; assumption.
  Qed.

  (* the pairs of a map / Dict and the emitted fields of a struct, as the encoder writes them *)
  Definition encp : list (rval * rval) -> wprog :=
    fix enc_pairs (es : list (rval * rval)) : wprog :=
      match es with
      | [] => WDone
      | (k, x) :: t => wseq (enc c k) (wseq (enc c x) (enc_pairs t))
      end.
  Definition encf : bool -> list sfield -> wprog :=
    fix enc_fields (use_tag : bool) (fs : list sfield) : wprog :=
      match fs with
      | [] => WDone
      | SField name exported tag x :: t =>
          let emitted :=
            if use_tag then negb (Nat.eqb (length tag) 0) && negb (tag_later tag t) else exported in
          if emitted then
            wseq (enc_string c (if use_tag then tag else name)) (wseq (enc c x) (enc_fields use_tag t))
          else enc_fields use_tag t
      end.

  Lemma good_many2_nil : good_many2 WDone [].
  Proof. split; [apply wok_WDone|rewrite wout_WDone; apply cpushes_many_nil]. Qed.

  Lemma good_many2_cons2 : forall p q r a b cs, good2 p a -> good2 q b -> good_many2 r cs ->
    good_many2 (wseq p (wseq q r)) (a :: b :: cs).
  Proof.
    intros p q r a b cs [W1 P1] [W2 P2] [W3 P3].
    assert (Wqr : wok (wseq q r)) by (apply wok_wseq; assumption).
    split; [apply wok_wseq; assumption|]. rewrite wout_wseq by assumption. rewrite wout_wseq by assumption.
    apply cpushes_many_cons; [exact P1|]. apply cpushes_many_cons; assumption.
  Qed.

  Lemma rt_dict_like : forall ps cps ces, good_many2 ps (cflatten cps) -> cassign_all pd [] cps = Some ces ->
    good2 (wseq (emit [x28]) (wseq ps (emit [x64]))) (mk_dict pd ces).
  Proof.
    intros ps cps ces [W P] A.
    apply (good2_seq3 _ _ _ _ _ _ _ (wok_emit _) W (wok_emit _) (wout_emit _) eq_refl (wout_emit _)).
    cbn [app]. unfold cfg, dcfg_h in *. eapply cpush_dict; eassumption.
  Qed.

  (* norm2's local helpers, named *)
  Definition npairs : list (rval * rval) -> option (list (cv * cv)) :=
    fix pairs (es : list (rval * rval)) : option (list (cv * cv)) :=
      match es with
      | [] => Some []
      | (k, x) :: t =>
          match norm2 c pd g k, norm2 c pd g x, pairs t with
          | Some a, Some b, Some r => Some ((a, b) :: r)
          | _, _, _ => None
          end
      end.
  Definition nfields : bool -> list sfield -> option (list (cv * cv)) :=
    fix fields (use_tag : bool) (fs : list sfield) : option (list (cv * cv)) :=
      match fs with
      | [] => Some []
      | SField name exported tag x :: t =>
          let emitted :=
            if use_tag then negb (Nat.eqb (length tag) 0) && negb (tag_later tag t) else exported in
          if emitted then
            match norm c (RStr SPlain (if use_tag then tag else name)), norm2 c pd g x, fields use_tag t with
            | Some tk, Some b, Some r => Some ((CLeaf (hmap g tk), b) :: r)
            | _, _, _ => None
            end
          else fields use_tag t
      end.
  Definition dict_of (ps : option (list (cv * cv))) : option cv :=
    match ps with
    | Some l => option_map (mk_dict pd) (cassign_all pd [] l)
    | None => None
    end.

  Lemma norm2_leaf : forall v t, norm c v = Some t -> norm2 c pd g v = Some (CLeaf (hmap g t)).
  Proof. intros v t H. destruct v; cbn [norm2]; rewrite H; reflexivity. Qed.

  Lemma dict_of_inv : forall ps cvl, dict_of ps = Some cvl ->
    exists cps ces, ps = Some cps /\ cassign_all pd [] cps = Some ces /\ cvl = mk_dict pd ces.
  Proof.
    intros ps cvl H. unfold dict_of in H. destruct ps as [cps|]; [|discriminate].
    destruct (cassign_all pd [] cps) as [ces|] eqn:A; [|discriminate]. injection H as <-.
    exists cps, ces. repeat split. exact A.
  Qed.

  Lemma map_opt_len2 : forall A B (f : A -> option B) l r, map_opt f l = Some r -> length r = length l.
  Proof.
    intros A B f. induction l as [|x t IH]; intros r H; cbn in H.
    - inversion H. reflexivity.
    - destruct (f x); [|discriminate]. destruct (map_opt f t) eqn:E; [|discriminate].
      inversion H; subst. cbn. f_equal. apply IH. reflexivity.
  Qed.

  (* Encode's bytes make the decoder push a value whose content is norm2's prediction *)
  Theorem rt_enc2 : forall v cvl, norm2 c pd g v = Some cvl -> good2 (enc c v) cvl.
  Proof.
    fix IH 1. intros v cvl H.
    destruct (norm c v) as [t|] eqn:N.
    { rewrite (norm2_leaf v t N) in H. injection H as <-. apply good2_of_good. apply rt_enc; assumption. }
    destruct v as [ | |b|z|z|f|k|ty s|s|l|l|es|es| |m n|m n args|pid|z|fields|ts ref x];
      cbn [norm2] in H; rewrite N in H; try discriminate H.
    - (* Tuple *)
      destruct (map_opt (norm2 c pd g) l) as [cs|] eqn:E; [|discriminate]. injection H as <-.
      cbn [enc]. change (good2 (wrap_tuple c (length l) (encl c l)) (CTuple cs)).
      apply rt_wrap_tuple2; [apply (map_opt_len2 _ _ _ _ _ E)|].
      clear N. revert cs E. induction l as [|x r IHl]; intros cs E; cbn in E.
      + injection E as <-. apply rt_list_nil2.
      + destruct (norm2 c pd g x) as [cx|] eqn:Ex; [|discriminate].
        destruct (map_opt (norm2 c pd g) r) as [cr|] eqn:Er; [|discriminate]. injection E as <-.
        apply rt_list_cons2; [apply IH; exact Ex|apply IHl; reflexivity].
    - (* List *)
      destruct (map_opt (norm2 c pd g) l) as [cs|] eqn:E; [|discriminate]. injection H as <-.
      cbn [enc]. change (good2 (if (1 <=? e_proto c)%Z && Nat.eqb (length l) 0 then emit [x5d]
                                else wseq (emit [x28]) (wseq (encl c l) (emit [x6c]))) (CList cs)).
      assert (G : good_many2 (encl c l) cs).
      { clear N. revert cs E. induction l as [|x r IHl]; intros cs E; cbn in E.
        + injection E as <-. apply rt_list_nil2.
        + destruct (norm2 c pd g x) as [cx|] eqn:Ex; [|discriminate].
          destruct (map_opt (norm2 c pd g) r) as [cr|] eqn:Er; [|discriminate]. injection E as <-.
          apply rt_list_cons2; [apply IH; exact Ex|apply IHl; reflexivity]. }
      destruct ((1 <=? e_proto c)%Z && Nat.eqb (length l) 0) eqn:E0.
      + apply andb_true_iff in E0. destruct E0 as [_ E0]. apply Nat.eqb_eq in E0.
        destruct l; [|discriminate]. cbn in E. injection E as <-. apply good2_emit. apply cpush_empty_list.
      + destruct G as [W P].
        apply (good2_seq3 _ _ _ _ _ _ _ (wok_emit _) W (wok_emit _) (wout_emit _) eq_refl (wout_emit _)).
        cbn [app]. apply cpush_mark_list. exact P.
    - (* Map *)
      change (dict_of (npairs es) = Some cvl) in H.
      destruct (dict_of_inv _ _ H) as [cps [ces [Ep [A ->]]]].
      cbn [enc]. change (good2 (if (1 <=? e_proto c)%Z && Nat.eqb (length es) 0 then emit [x7d]
                                else wseq (emit [x28]) (wseq (encp es) (emit [x64]))) (mk_dict pd ces)).
      assert (G : good_many2 (encp es) (cflatten cps)).
      { clear N H A. revert cps Ep. induction es as [|[k x] r IHl]; intros cps E; cbn [npairs] in E.
        + injection E as <-. apply good_many2_nil.
        + destruct (norm2 c pd g k) as [ck|] eqn:Ek; [|discriminate].
          destruct (norm2 c pd g x) as [cx|] eqn:Ex; [|discriminate].
          destruct (npairs r) as [cr|] eqn:Er; [|discriminate]. injection E as <-.
          cbn [encp cflatten]. apply good_many2_cons2; [apply IH; exact Ek|apply IH; exact Ex|apply IHl; reflexivity]. }
      destruct ((1 <=? e_proto c)%Z && Nat.eqb (length es) 0) eqn:E0.
      + apply andb_true_iff in E0. destruct E0 as [_ E0]. apply Nat.eqb_eq in E0.
        destruct es; [|discriminate]. cbn in Ep. injection Ep as <-. cbn in A. injection A as <-.
        apply good2_emit. unfold cfg, dcfg_h. apply cpush_empty_dict.
      + eapply rt_dict_like; eassumption.
    - (* Dict *)
      change (dict_of (npairs es) = Some cvl) in H.
      destruct (dict_of_inv _ _ H) as [cps [ces [Ep [A ->]]]].
      cbn [enc]. change (good2 (if (1 <=? e_proto c)%Z && Nat.eqb (length es) 0 then emit [x7d]
                                else wseq (emit [x28]) (wseq (encp es) (emit [x64]))) (mk_dict pd ces)).
      assert (G : good_many2 (encp es) (cflatten cps)).
      { clear N H A. revert cps Ep. induction es as [|[k x] r IHl]; intros cps E; cbn [npairs] in E.
        + injection E as <-. apply good_many2_nil.
        + destruct (norm2 c pd g k) as [ck|] eqn:Ek; [|discriminate].
          destruct (norm2 c pd g x) as [cx|] eqn:Ex; [|discriminate].
          destruct (npairs r) as [cr|] eqn:Er; [|discriminate]. injection E as <-.
          cbn [encp cflatten]. apply good_many2_cons2; [apply IH; exact Ek|apply IH; exact Ex|apply IHl; reflexivity]. }
      destruct ((1 <=? e_proto c)%Z && Nat.eqb (length es) 0) eqn:E0.
      + apply andb_true_iff in E0. destruct E0 as [_ E0]. apply Nat.eqb_eq in E0.
        destruct es; [|discriminate]. cbn in Ep. injection Ep as <-. cbn in A. injection A as <-.
        apply good2_emit. unfold cfg, dcfg_h. apply cpush_empty_dict.
      + eapply rt_dict_like; eassumption.
    - (* Call *)
      destruct (class_ok c m n && plain_classb m n) eqn:E; [|discriminate].
      destruct (map_opt (norm2 c pd g) args) as [cs|] eqn:Ea; [|discriminate]. injection H as <-.
      apply andb_true_iff in E. destruct E as [E1 E2].
      cbn [enc]. change (good2 (wrap_call c m n (length args) (encl c args)) (CCall m n cs)).
      apply rt_wrap_call2; try assumption; [apply (map_opt_len2 _ _ _ _ _ Ea)|].
      clear N. revert cs Ea. induction args as [|x r IHl]; intros cs E; cbn in E.
      + injection E as <-. apply rt_list_nil2.
      + destruct (norm2 c pd g x) as [cx|] eqn:Ex; [|discriminate].
        destruct (map_opt (norm2 c pd g) r) as [cr|] eqn:Er; [|discriminate]. injection E as <-.
        apply rt_list_cons2; [apply IH; exact Ex|apply IHl; reflexivity].
    - (* Struct *)
      set (ut := existsb (fun f => negb (Nat.eqb (length (sf_tag f)) 0)) fields) in *.
      change (dict_of (nfields ut fields) = Some cvl) in H.
      destruct (dict_of_inv _ _ H) as [cps [ces [Ep [A ->]]]].
      cbn [enc]. change (good2 (wseq (emit [x28]) (wseq (encf ut fields) (emit [x64]))) (mk_dict pd ces)).
      eapply rt_dict_like; [|exact A].
      clear N H A. clearbody ut. revert cps Ep.
      induction fields as [|[name exported tag x] r IHl]; intros cps E; cbn [nfields] in E.
      + injection E as <-. apply good_many2_nil.
      + cbn [encf]. cbv zeta in E |- *.
        destruct (if ut then negb (Nat.eqb (length tag) 0) && negb (tag_later tag r) else exported).
        * destruct (norm c (RStr SPlain (if ut then tag else name))) as [tk|] eqn:Ek; [|discriminate].
          destruct (norm2 c pd g x) as [cx|] eqn:Ex; [|discriminate].
          destruct (nfields ut r) as [cr|] eqn:Er; [|discriminate]. injection E as <-.
          cbn [cflatten]. apply good_many2_cons2; [|apply IH; exact Ex|apply IHl; reflexivity].
          apply good2_of_good. exact (rt_enc c pd load g HL (RStr SPlain (if ut then tag else name)) tk Ek).
        * apply IHl. exact E.
    - (* Ptr *)
      cbn [enc]. destruct ts; [destruct ref as [pid|]|].
      + discriminate H.
      + apply IH. exact H.
      + apply IH. exact H.
  Qed.
End RT2.

(* ---- Encoder.Encode then Decoder.Decode ---------------------------------------------------------- *)

Lemma heap_bound_init : heap_bound init_state.
Proof. intros id o H. discriminate H. Qed.

(* For every value in the domain of norm2 - the round-trip fragment of C03 with maps, Dicts and
   structs anywhere inside - every protocol 0..5, both PyDict and StrictUnicode settings, every
   PersistentLoad hook meeting hook_spec, any prior decoder state whose heap is well-formed, and
   any bytes following the pickle: Encode succeeds, and Decode of its output returns a value whose
   content, read through the decoder's heap, is norm2's prediction; exactly the following bytes
   are left; objects that existed before are untouched; the heap stays well-formed. *)
Theorem encode_decode_maps : forall c pd load g v cvl st rest,
  hook_spec load g ->
  (0 <= e_proto c <= 5)%Z -> norm2 c pd g v = Some cvl -> heap_bound st ->
  snd (run_w (encode c v) None) = EOk /\
  exists x st',
    decode (dcfg_h c pd load) st (output (encode c v) ++ rest) = ((Ok x, st'), rest) /\
    content (d_heap st') x cvl /\ gext (d_heap st) (d_heap st') /\ heap_bound st'.
Proof.
  intros c pd load g v cvl st rest HL Hp Hn Hb.
  destruct (rt_enc2 c pd load g HL v cvl Hn) as [W P].
  unfold encode.
  assert (E : negb ((0 <=? e_proto c)%Z && (e_proto c <=? 5)%Z) = false).
  { apply negb_false_iff. apply andb_true_iff. split; apply Z.leb_le; lia. }
  rewrite E.
  set (pre := if (2 <=? e_proto c)%Z then emit [x80; Z2b (e_proto c)] else WDone).
  assert (Wpre : wok pre) by (unfold pre; destruct (2 <=? e_proto c)%Z; [apply wok_emit|apply wok_WDone]).
  assert (Wtail : wok (wseq (enc c v) (emit [x2e]))) by (apply wok_wseq; [exact W|apply wok_emit]).
  split; [exact (wok_wseq _ _ Wpre Wtail)|].
  rewrite output_is_wout, (wout_wseq _ _ Wpre Wtail), (wout_wseq _ _ W (wok_emit _)), wout_emit.
  assert (X : exists i1 st1,
            exec (dcfg_h c pd load) 0 (start_state st)
                 (wout pre ++ (wout (enc c v) ++ [x2e]) ++ rest) i1 st1
                 ((wout (enc c v) ++ [x2e]) ++ rest) /\ d_stack st1 = [] /\ d_proto st1 = dproto_of c /\
            d_heap st1 = d_heap st /\ d_next st1 = d_next st).
  { unfold pre. destruct (2 <=? e_proto c)%Z eqn:E2.
    - rewrite wout_emit. eexists; eexists. split.
      + cbn [app]. eapply exec_one; [reflexivity|reflexivity|].
        cbn [handler run]. rewrite b2N_Z2b_small by lia.
        assert (L : (5 <? Z.to_N (e_proto c)) = false) by (apply N.ltb_ge; lia).
        rewrite L. reflexivity.
      + unfold dproto_of. rewrite E2. repeat split; reflexivity.
    - rewrite wout_WDone. eexists; eexists. split; [apply exec_refl|]. unfold dproto_of. rewrite E2. repeat split; reflexivity. }
  destruct X as [i1 [st1 [X1 [S1 [PR1 [Hh1 Hn1]]]]]].
  assert (B1 : heap_bound st1) by (intros id o G; rewrite Hh1 in G; rewrite Hn1; exact (Hb id o G)).
  rewrite <- !app_assoc in *.
  destruct (P i1 st1 ([x2e] ++ rest) PR1 B1) as [i2 [st2 [x [E2 [S2 [T2 [_ [_ [H2 B2]]]]]]]]].
  exists x, (set_stack st2 []). split; [|split; [exact T2|split; [rewrite <- Hh1; exact H2|exact B2]]].
  eapply exec_decode.
  - eapply exec_trans; [exact X1|exact E2].
  - rewrite S2, S1. reflexivity.
  - exact (content_not_mark _ _ _ T2).
Qed.

(* ---- the heap stays well-formed under every Decode call (so heap_bound holds of every state a
   Decoder can reach from init_state) -------------------------------------------------------------- *)

Definition hbound (h : heap) (n : N) : Prop := forall id o, heap_get h id = Some o -> id < n.

Lemma hbound_set : forall h n id o, hbound h n -> id < n -> hbound (heap_set h id o) n.
Proof.
  intros h n id o Hb Hi j o' G. destruct (N.eq_dec j id) as [->|Ne]; [exact Hi|].
  rewrite heap_get_set_other in G by exact Ne. exact (Hb j o' G).
Qed.

Lemma hbound_mono : forall h n m, hbound h n -> n <= m -> hbound h m.
Proof. intros h n m Hb L j o G. specialize (Hb j o G). lia. Qed.

Lemma try_assign_bound : forall h n m k v h', hbound h n -> try_assign h m k v = Some h' -> hbound h' n.
Proof.
  intros h n m k v h' Hb H. unfold try_assign in H. destruct m; try discriminate.
  - destruct (heap_get h id) as [[es|es]|] eqn:G; try discriminate. destruct (go_unhashable k); [discriminate|].
    injection H as <-. apply hbound_set; [exact Hb|exact (Hb id _ G)].
  - destruct (heap_get h id) as [[es|es]|] eqn:G; try discriminate.
    destruct (dict_set choose_first k v es); [|discriminate]. injection H as <-.
    apply hbound_set; [exact Hb|exact (Hb id _ G)].
Qed.

Lemma assign_pairs_bound : forall n m k items h h' b, (length items <= k)%nat -> hbound h n ->
  assign_pairs h m items = (h', b) -> hbound h' n.
Proof.
  intros n m k. induction k as [|k IH]; intros items h h' b L Hb H.
  - destruct items; [|cbn in L; lia]. cbn in H. injection H as <- _. exact Hb.
  - destruct items as [|x [|y t]]; cbn in H; try (injection H as <- _; exact Hb).
    destruct (try_assign h m x y) as [h1|] eqn:E; [|injection H as <- _; exact Hb].
    eapply (IH t h1 h' b); [cbn in L; lia|eapply try_assign_bound; eassumption|exact H].
Qed.

Lemma handler_heap_bound : forall cfg op key insn st, hbound (d_heap st) (d_next st) ->
  leaves (fun o => hbound (d_heap (st_of o)) (d_next (st_of o))) (handler cfg op key insn st).
Proof.
  intros cfg op key insn st Hb. destruct st as [stk mem heap next proto log lens stale].
  cbn [d_heap d_next] in Hb.
  destruct op; cbn [handler];
    try unfold tuple_n, do_reduce, handle_ref, push_bytestring, memo_top, new_dict_obj.
  all: repeat (cbn [handler set_memo set_stack set_heap set_proto push fresh add_log set_len cur_len
                    d_stack d_memo d_heap d_next d_proto d_log d_lens d_stale fst snd st_of leaves ok fail];
               match goal with
               | |- forall _, _ => intro
               | |- context [if c_pydict ?c then _ else _] => destruct (c_pydict c) eqn:?
               | |- leaves _ PanicP => exact I
               | |- leaves _ OOF => exact I
               | |- leaves _ (if ?c then _ else _) => destruct c eqn:?
               | |- leaves _ (match ?x with _ => _ end) => destruct x eqn:?
               | |- leaves _ (let '(_, _) := ?x in _) => destruct x eqn:?
               end).
  all: cbn [leaves ok fail st_of d_next d_heap set_memo set_stack set_heap set_proto push add_log set_len fresh fst snd] in *.
  all: try (destruct (c_strict cfg); cbn [push set_stack d_heap d_next]).
  all: try exact I.
  all: try assumption.
  all: try (eapply hbound_mono; [eassumption|lia]).
  all: try (apply hbound_set; [eapply hbound_mono; [eassumption|lia]|lia]).
  all: try (eapply try_assign_bound; eassumption).
  all: try (eapply assign_pairs_bound; [apply le_n| |eassumption]; try assumption;
            apply hbound_set; [eapply hbound_mono; [eassumption|lia]|lia]).
  all: try (eapply assign_pairs_bound; [apply le_n|eassumption|eassumption]).
Qed.

Lemma loop_heap_bound : forall fuel cfg i st inp, heap_bound st ->
  match fst (run (decode_loop fuel cfg i st) inp) with
  | Ok (_, st') => heap_bound st'
  | _ => True
  end.
Proof.
  induction fuel as [|f IH]; intros cfg i st inp Hb; [exact I|].
  rewrite decode_loop_S. cbn [run]. destruct inp as [|key rest]; [exact I|].
  destruct (opcode_of_byte key) as [op|]; [|cbn; exact Hb].
  destruct (is_stop op).
  - cbn. unfold pop_user. destruct (d_stack st) as [|v t]; [exact Hb|]. destruct (is_mark v); exact Hb.
  - rewrite run_bind.
    pose proof (handler_heap_bound cfg op key (i + 1) st Hb) as L.
    destruct (run (handler cfg op key (i + 1) st) rest) as [r rest'] eqn:R.
    destruct r as [o|e| |]; try exact I.
    pose proof (leaves_run _ _ _ L _ _ _ R) as Ho.
    destruct o as [st'|st' e]; cbn [st_of] in Ho; [apply IH; exact Ho|cbn; exact Ho].
Qed.

(* every state a Decoder reaches keeps its heap well-formed: whatever the input *)
Theorem decode_heap_bound : forall cfg st inp r st' rest,
  heap_bound st -> decode cfg st inp = ((r, st'), rest) -> heap_bound st'.
Proof.
  intros cfg st inp r st' rest Hb D. unfold decode in D.
  assert (H0 : heap_bound (start_state st)) by exact Hb.
  pose proof (loop_heap_bound (S (length inp)) cfg 0 (start_state st) inp H0) as L.
  destruct (run (decode_loop (S (length inp)) cfg 0 (start_state st)) inp) as [r1 rest1].
  cbn [fst] in L. destruct r1 as [[a s]|e| |]; inversion D; subst; try exact H0. exact L.
Qed.

(* ---- streams of encodings (C11): each Decode call returns the content of its own pickle, whatever
   the Decoder decoded before, and leaves what it returned earlier as it was --------------------- *)

(* one stream element: the encoder configuration used for it (protocols may differ from pickle to
   pickle), the value, and the content norm2 predicts *)
Definition sitem := (econfig * rval * cv)%type.

Definition sbytes (it : sitem) : bytes := let '(c, v, _) := it in output (encode c v).

Inductive enc_stream (cfg : dconfig) : dstate -> bytes -> list sitem -> list (val * cv) -> dstate -> bytes -> Prop :=
| es_nil : forall st inp, enc_stream cfg st inp [] [] st inp
| es_cons : forall st inp it its x st1 rest1 xs stf restf,
    decode cfg st inp = ((Ok x, st1), rest1) ->
    content (d_heap st1) x (snd it) -> gext (d_heap st) (d_heap st1) ->
    enc_stream cfg st1 rest1 its xs stf restf ->
    enc_stream cfg st inp (it :: its) ((x, snd it) :: xs) stf restf.

Lemma enc_stream_gext : forall cfg st inp its xs stf restf,
  enc_stream cfg st inp its xs stf restf -> gext (d_heap st) (d_heap stf).
Proof.
  intros cfg st inp its xs stf restf H. induction H; [apply gext_refl|]. eapply gext_trans; eassumption.
Qed.

(* everything returned along the way still has its content in the final heap *)
Lemma enc_stream_contents : forall cfg st inp its xs stf restf,
  enc_stream cfg st inp its xs stf restf -> Forall (fun xc => content (d_heap stf) (fst xc) (snd xc)) xs.
Proof.
  intros cfg st inp its xs stf restf H. induction H; constructor; [|assumption].
  cbn [fst snd]. eapply content_mono; [eapply enc_stream_gext; eassumption|assumption].
Qed.

Theorem decode_stream_of_encodings : forall pd su load g its st rest,
  hook_spec load g -> heap_bound st ->
  Forall (fun it : sitem => let '(c, v, cvl) := it in
            e_strict c = su /\ (0 <= e_proto c <= 5)%Z /\ norm2 c pd g v = Some cvl) its ->
  exists xs stf,
    enc_stream (Build_dconfig pd su load) st (concat (map sbytes its) ++ rest) its xs stf rest /\
    heap_bound stf.
Proof.
  intros pd su load g its. induction its as [|[[c v] cvl] r IH]; intros st rest HL Hb F.
  - exists [], st. split; [apply es_nil|exact Hb].
  - inversion F as [|? ? Hx F']; subst. cbv beta iota in Hx. destruct Hx as [Es [Hp Hn]].
    cbn [map concat sbytes]. rewrite <- app_assoc.
    destruct (encode_decode_maps c pd load g v cvl st (concat (map sbytes r) ++ rest) HL Hp Hn Hb)
      as [_ [x [st1 [D [C1 [G1 B1]]]]]].
    destruct (IH st1 rest HL B1 F') as [xs [stf [S Bf]]].
    exists ((x, cvl) :: xs), stf. split; [|exact Bf].
    eapply (es_cons _ st _ (c, v, cvl)); [unfold dcfg_h in D; rewrite Es in D; exact D|exact C1|exact G1|exact S].
Qed.
