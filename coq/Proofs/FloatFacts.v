(* FloatFacts.v — float64 bit patterns and their exact values: what equal() and hash() in dict.go
   rely on when a key has a float or complex component (C07). *)
From Coq Require Import Ascii String.
From Coq Require Import List ZArith NArith Bool Lia.
From Coq Require Import ZifyBool ZifyN ZifyNat.
From OgRek Require Import Base Float Value PyEq BaseFacts.
Import ListNotations.
Open Scope N_scope.

Definition wf_float (b : N) : Prop := b < 18446744073709551616.

(* ---- the three fields determine the bits ----------------------------------------------------- *)

Lemma divmod3 : forall b P Q, 0 < P -> 0 < Q ->
  b = (b / P / Q) * (P * Q) + ((b / P) mod Q) * P + b mod P.
Proof.
  intros b P Q HP HQ.
  pose proof (N.div_mod b P ltac:(lia)) as E1.
  pose proof (N.div_mod (b / P) Q ltac:(lia)) as E2.
  rewrite E1 at 1. rewrite E2 at 1. ring.
Qed.

Lemma two63_eq : two63 = two52 * 2048.
Proof. reflexivity. Qed.

Lemma f_top : forall b, wf_float b -> b / two52 / 2048 = if f_sign b then 1 else 0.
Proof.
  intros b H. unfold wf_float in H. unfold f_sign.
  assert (M : b mod (2 * two63) = b) by (apply N.mod_small; exact H). rewrite M.
  rewrite N.div_div by (unfold two52; lia). change (two52 * 2048) with two63.
  destruct (two63 <=? b) eqn:E.
  - apply N.leb_le in E. symmetry. apply (N.div_unique b two63 1 (b - two63)); unfold two63 in *; lia.
  - apply N.leb_gt in E. apply N.div_small. exact E.
Qed.

Lemma f_parts : forall b, wf_float b ->
  b = (if f_sign b then two63 else 0) + f_exp b * two52 + f_mant b.
Proof.
  intros b H. pose proof (divmod3 b two52 2048 ltac:(unfold two52; lia) ltac:(lia)) as D.
  rewrite (f_top b H) in D. unfold f_exp, f_mant. change (two52 * 2048) with two63 in D.
  destruct (f_sign b); lia.
Qed.

Lemma f_mant_lt : forall b, f_mant b < two52.
Proof. intros b. unfold f_mant. apply N.mod_lt. unfold two52. lia. Qed.
Lemma f_exp_lt : forall b, f_exp b < 2048.
Proof. intros b. unfold f_exp. apply N.mod_lt. lia. Qed.

(* two well-formed patterns with the same fields are the same pattern *)
Lemma f_fields_inj : forall x y, wf_float x -> wf_float y ->
  f_sign x = f_sign y -> f_exp x = f_exp y -> f_mant x = f_mant y -> x = y.
Proof.
  intros x y Hx Hy S E M. rewrite (f_parts x Hx), (f_parts y Hy), S, E, M. reflexivity.
Qed.

(* ---- canonical (m, e): what f_exact returns -------------------------------------------------- *)

Open Scope Z_scope.

Definition p52 : Z := 4503599627370496.
Definition p53 : Z := 9007199254740992.

Definition canon (m e : Z) : Prop :=
  Z.abs m < p53 /\ -1074 <= e <= 971 /\ (-1074 < e -> p52 <= Z.abs m).

Lemma pow2_ge2 : forall k, 1 <= k -> 2 <= 2 ^ k.
Proof.
  intros k H. replace k with (1 + (k - 1)) by lia. rewrite Z.pow_add_r by lia.
  change (2 ^ 1) with 2. pose proof (Z.pow_pos_nonneg 2 (k - 1) ltac:(lia) ltac:(lia)). lia.
Qed.

Lemma canon_scale_lt : forall m1 m2 k, p52 <= Z.abs m2 -> Z.abs m1 < p53 -> 1 <= k -> m1 <> m2 * 2 ^ k.
Proof.
  intros m1 m2 k H2 H1 Hk E. pose proof (pow2_ge2 k Hk) as P.
  assert (A : Z.abs m1 = Z.abs m2 * 2 ^ k) by (rewrite E, Z.abs_mul, (Z.abs_eq (2 ^ k)); lia).
  unfold p52, p53 in *. nia.
Qed.

Lemma canon_unique : forall m1 e1 m2 e2, canon m1 e1 -> canon m2 e2 -> m1 <> 0 ->
  m1 * 2 ^ (e1 - Z.min e1 e2) = m2 * 2 ^ (e2 - Z.min e1 e2) -> m1 = m2 /\ e1 = e2.
Proof.
  intros m1 e1 m2 e2 [A1 [B1 C1]] [A2 [B2 C2]] Hn E.
  destruct (Z.lt_trichotomy e1 e2) as [L|[L|L]].
  - rewrite Z.min_l in E by lia. rewrite Z.sub_diag, Z.pow_0_r, Z.mul_1_r in E.
    exfalso. eapply (canon_scale_lt m1 m2 (e2 - e1)); [apply C2; lia|exact A1|lia|exact E].
  - subst e2. rewrite Z.min_id, Z.sub_diag, Z.pow_0_r, !Z.mul_1_r in E. split; [exact E|reflexivity].
  - rewrite Z.min_r in E by lia. rewrite Z.sub_diag, Z.pow_0_r, Z.mul_1_r in E.
    assert (m2 <> 0).
    { intro Z0. subst m2. pose proof (Z.pow_pos_nonneg 2 (e1 - e2) ltac:(lia) ltac:(lia)). nia. }
    exfalso. eapply (canon_scale_lt m2 m1 (e1 - e2)); [apply C1; lia|exact A2|lia|symmetry; exact E].
Qed.

(* the value equality of rnum_eqb does not depend on the common exponent chosen *)
Lemma scale_eq : forall m1 e1 m2 e2 E, E <= e1 -> E <= e2 ->
  (m1 * 2 ^ (e1 - E) =? m2 * 2 ^ (e2 - E)) = (m1 * 2 ^ (e1 - Z.min e1 e2) =? m2 * 2 ^ (e2 - Z.min e1 e2)).
Proof.
  intros m1 e1 m2 e2 E H1 H2. set (mn := Z.min e1 e2).
  assert (Hm : E <= mn) by (unfold mn; lia).
  replace (e1 - E) with ((e1 - mn) + (mn - E)) by lia. replace (e2 - E) with ((e2 - mn) + (mn - E)) by lia.
  rewrite !Z.pow_add_r by (unfold mn; lia). rewrite !Z.mul_assoc.
  pose proof (Z.pow_pos_nonneg 2 (mn - E) ltac:(lia) ltac:(lia)) as P.
  destruct (Z.eqb_spec (m1 * 2 ^ (e1 - mn)) (m2 * 2 ^ (e2 - mn))) as [Q|Q].
  - rewrite Q. apply Z.eqb_refl.
  - apply Z.eqb_neq. intro C. apply Q. apply Z.mul_cancel_r in C; [exact C|lia].
Qed.

Lemma f_exact_spec : forall b m e, f_exact b = Some (m, e) ->
  f_exp b <> 2047%N /\
  m = (if f_sign b then -1 else 1) * Z.of_N (if (f_exp b =? 0)%N then f_mant b else (two52 + f_mant b)%N) /\
  e = (if (f_exp b =? 0)%N then -1074 else Z.of_N (f_exp b) - 1075).
Proof.
  intros b m e H. unfold f_exact, f_is_finite in H.
  destruct (f_exp b =? 2047)%N eqn:E; cbn [negb] in H; [discriminate|]. apply N.eqb_neq in E.
  pose proof (f_equal (fun o => match o with Some (x, _) => x | None => 0 end) H) as Hm.
  pose proof (f_equal (fun o => match o with Some (_, y) => y | None => 0 end) H) as He.
  cbv beta iota zeta in Hm, He. subst m e. split; [exact E|]. split; [destruct (f_sign b); ring|reflexivity].
Qed.

(* the same with the case distinctions made *)
Lemma f_exact_cases : forall b m e, f_exact b = Some (m, e) ->
  exists (s : Z) (m0 : Z), (s = 1 \/ s = -1) /\ (f_sign b = true <-> s = -1) /\ m = s * m0 /\
    ((f_exp b = 0%N /\ m0 = Z.of_N (f_mant b) /\ e = -1074) \/
     (f_exp b <> 0%N /\ m0 = p52 + Z.of_N (f_mant b) /\ e = Z.of_N (f_exp b) - 1075)) /\
    0 <= Z.of_N (f_mant b) < p52 /\ 0 <= Z.of_N (f_exp b) < 2047.
Proof.
  intros b m e H. destruct (f_exact_spec b m e H) as [E [Hm He]].
  pose proof (f_mant_lt b) as ML. pose proof (f_exp_lt b) as EL.
  assert (T : Z.of_N two52 = p52) by reflexivity.
  exists (if f_sign b then -1 else 1).
  exists (Z.of_N (if (f_exp b =? 0)%N then f_mant b else (two52 + f_mant b)%N)).
  split; [destruct (f_sign b); auto|]. split; [destruct (f_sign b); split; intro; try discriminate; try reflexivity; lia|].
  split; [exact Hm|]. split.
  - destruct (f_exp b =? 0)%N eqn:Z0.
    + left. apply N.eqb_eq in Z0. repeat split; assumption.
    + right. apply N.eqb_neq in Z0. split; [exact Z0|]. split; [rewrite N2Z.inj_add, T; reflexivity|exact He].
  - split; [|lia]. rewrite <- T. lia.
Qed.

Lemma f_exact_canon : forall b m e, f_exact b = Some (m, e) -> canon m e.
Proof.
  intros b m e H. destruct (f_exact_cases b m e H) as [s [m0 [Hs [_ [Hm [C [ML EL]]]]]]].
  unfold canon. unfold p52, p53 in *.
  destruct C as [[E0 [M0 E1]]|[E0 [M0 E1]]]; destruct Hs as [-> | ->]; subst m m0 e; lia.
Qed.

Lemma f_exact_zero : forall b m e, f_exact b = Some (m, e) -> (m = 0 <-> f_is_zero b = true).
Proof.
  intros b m e H. destruct (f_exact_cases b m e H) as [s [m0 [Hs [_ [Hm [C [ML EL]]]]]]].
  unfold f_is_zero. unfold p52 in *.
  destruct C as [[E0 [M0 E1]]|[E0 [M0 E1]]].
  - rewrite E0. cbn [N.eqb andb]. destruct (f_mant b =? 0)%N eqn:Z0;
      [apply N.eqb_eq in Z0|apply N.eqb_neq in Z0]; destruct Hs as [-> | ->]; subst m m0; split; intros; try discriminate; try reflexivity; lia.
  - apply N.eqb_neq in E0. rewrite E0. cbn [andb].
    destruct Hs as [-> | ->]; subst m m0; split; intros; try discriminate; lia.
Qed.

Lemma f_exact_inj : forall x y m e, wf_float x -> wf_float y ->
  f_exact x = Some (m, e) -> f_exact y = Some (m, e) -> m <> 0 -> x = y.
Proof.
  intros x y m e Wx Wy Hx Hy Hm.
  destruct (f_exact_cases x m e Hx) as [s [m0 [Hs [Sx [Mx [Cx [MLx ELx]]]]]]].
  destruct (f_exact_cases y m e Hy) as [s' [m0' [Hs' [Sy [My [Cy [MLy ELy]]]]]]].
  unfold p52 in *.
  assert (A : s = s' /\ m0 = m0').
  { destruct Cx as [[_ [-> _]]|[_ [-> _]]]; destruct Cy as [[_ [-> _]]|[_ [-> _]]];
      destruct Hs as [-> | ->]; destruct Hs' as [-> | ->]; lia. }
  destruct A as [<- <-].
  apply f_fields_inj; try assumption.
  - destruct (f_sign x) eqn:S1; destruct (f_sign y) eqn:S2; try reflexivity.
    + assert (K : s = -1) by (apply Sx; reflexivity). apply Sy in K. discriminate.
    + assert (K : s = -1) by (apply Sy; reflexivity). apply Sx in K. discriminate.
  - destruct Cx as [[X0 [X1 X2]]|[X0 [X1 X2]]]; destruct Cy as [[Y0 [Y1 Y2]]|[Y0 [Y1 Y2]]]; lia.
  - destruct Cx as [[X0 [X1 X2]]|[X0 [X1 X2]]]; destruct Cy as [[Y0 [Y1 Y2]]|[Y0 [Y1 Y2]]]; lia.
Qed.

(* ---- IEEE == on bit patterns is equality of the exact values ---------------------------------- *)

Lemma f_exact_finite : forall b, f_exp b <> 2047%N -> exists m e, f_exact b = Some (m, e).
Proof.
  intros b H. unfold f_exact, f_is_finite. apply N.eqb_neq in H. rewrite H. cbn [negb]. eexists; eexists; reflexivity.
Qed.

Lemma f_exact_none : forall b, f_exp b = 2047%N -> f_exact b = None.
Proof. intros b H. unfold f_exact, f_is_finite. rewrite H. reflexivity. Qed.

Lemma rnum_eqb_fin : forall m1 e1 m2 e2,
  rnum_eqb (RFin m1 e1) (RFin m2 e2) = (m1 * 2 ^ (e1 - Z.min e1 e2) =? m2 * 2 ^ (e2 - Z.min e1 e2)).
Proof. reflexivity. Qed.

Lemma rnum_eqb_fin_sym : forall m1 e1 m2 e2,
  rnum_eqb (RFin m1 e1) (RFin m2 e2) = rnum_eqb (RFin m2 e2) (RFin m1 e1).
Proof. intros. rewrite !rnum_eqb_fin, (Z.min_comm e2 e1). apply Z.eqb_sym. Qed.

Lemma fin_eq_inj : forall x y m1 e1 m2 e2, wf_float x -> wf_float y ->
  f_exact x = Some (m1, e1) -> f_exact y = Some (m2, e2) -> m1 <> 0 ->
  rnum_eqb (RFin m1 e1) (RFin m2 e2) = true -> x = y.
Proof.
  intros x y m1 e1 m2 e2 Wx Wy Hx Hy Hn E. rewrite rnum_eqb_fin in E. apply Z.eqb_eq in E.
  destruct (canon_unique m1 e1 m2 e2 (f_exact_canon _ _ _ Hx) (f_exact_canon _ _ _ Hy) Hn E) as [-> ->].
  eapply f_exact_inj; eassumption.
Qed.

Theorem f_eq_value : forall x y, wf_float x -> wf_float y ->
  f_eq x y = rnum_eqb (rnum_of_float x) (rnum_of_float y).
Proof.
  intros x y Wx Wy. unfold f_eq, rnum_of_float.
  destruct (f_is_nan x) eqn:Nx; [reflexivity|].
  destruct (f_is_nan y) eqn:Ny; [cbn [orb]; destruct (f_is_inf x); [reflexivity|destruct (f_exact x) as [[? ?]|]; reflexivity]|].
  cbn [orb].
  (* classify both *)
  unfold f_is_nan, f_is_inf, f_is_zero in *.
  destruct (N.eqb_spec (f_exp x) 2047) as [Ex|Ex]; destruct (N.eqb_spec (f_exp y) 2047) as [Ey|Ey]; cbn [andb] in *.
  - (* inf, inf *)
    apply negb_false_iff in Nx, Ny. rewrite Nx, Ny. rewrite Ex, Ey. cbn [N.eqb andb].
    apply N.eqb_eq in Nx, Ny. cbn [rnum_eqb].
    destruct (N.eqb_spec x y) as [->|Hne]; [symmetry; apply eqb_reflx|].
    destruct (f_sign x) eqn:Sx; destruct (f_sign y) eqn:Sy; cbn; try reflexivity;
      exfalso; apply Hne; apply f_fields_inj; congruence.
  - (* inf, finite *)
    apply negb_false_iff in Nx. rewrite Nx. rewrite Ex. cbn [N.eqb andb].
    destruct (f_exact_finite y Ey) as [m2 [e2 Hy]]. rewrite Hy. cbn [rnum_eqb].
    apply N.eqb_neq. intro; subst. congruence.
  - (* finite, inf *)
    apply negb_false_iff in Ny. rewrite Ny.
    destruct (f_exact_finite x Ex) as [m1 [e1 Hx]]. rewrite Hx.
    replace ((f_exp x =? 0)%N && (f_mant x =? 0)%N && ((f_exp y =? 0)%N && true)) with false
      by (rewrite Ey; cbn; rewrite andb_false_r; reflexivity).
    cbn [rnum_eqb]. apply N.eqb_neq. intro; subst. congruence.
  - (* finite, finite *)
    destruct (f_exact_finite x Ex) as [m1 [e1 Hx]]. destruct (f_exact_finite y Ey) as [m2 [e2 Hy]].
    rewrite Hx, Hy.
    pose proof (f_exact_zero x m1 e1 Hx) as Zx. pose proof (f_exact_zero y m2 e2 Hy) as Zy. unfold f_is_zero in Zx, Zy.
    destruct ((f_exp x =? 0)%N && (f_mant x =? 0)%N) eqn:Z1; destruct ((f_exp y =? 0)%N && (f_mant y =? 0)%N) eqn:Z2; cbn [andb].
    + assert (m1 = 0) by (apply Zx; reflexivity). assert (m2 = 0) by (apply Zy; reflexivity). subst.
      rewrite rnum_eqb_fin. reflexivity.
    + assert (M1 : m1 = 0) by (apply Zx; reflexivity).
      assert (M2 : m2 <> 0) by (intro K; apply Zy in K; discriminate).
      destruct (N.eqb_spec x y) as [->|Hne]; [rewrite Z1 in Z2; discriminate|].
      symmetry. apply not_true_is_false. intro E. rewrite rnum_eqb_fin_sym in E.
      apply Hne. symmetry. eapply fin_eq_inj; eassumption.
    + assert (M1 : m1 <> 0) by (intro K; apply Zx in K; discriminate).
      destruct (N.eqb_spec x y) as [->|Hne]; [rewrite Z1 in Z2; discriminate|].
      symmetry. apply not_true_is_false. intro E. apply Hne. eapply fin_eq_inj; eassumption.
    + assert (M1 : m1 <> 0) by (intro K; apply Zx in K; discriminate).
      destruct (N.eqb_spec x y) as [->|Hne].
      * rewrite Hx in Hy. inversion Hy; subst. rewrite rnum_eqb_fin. symmetry. apply Z.eqb_refl.
      * symmetry. apply not_true_is_false. intro E. apply Hne. eapply fin_eq_inj; eassumption.
Qed.

(* ---- integers against floats ------------------------------------------------------------------- *)

Lemma f_int_value_spec : forall b m e a, f_exact b = Some (m, e) ->
  match f_int_value b with Some z => (z =? a) | None => false end = rnum_eqb (RFin a 0) (RFin m e).
Proof.
  intros b m e a H. unfold f_int_value. rewrite H. rewrite rnum_eqb_fin.
  destruct (Z.leb_spec 0 e) as [L|L].
  - rewrite Z.min_l by lia. rewrite !Z.sub_0_r, Z.pow_0_r, Z.mul_1_r. apply Z.eqb_sym.
  - rewrite Z.min_r by lia. replace (e - e) with 0 by lia. replace (0 - e) with (- e) by lia. rewrite Z.pow_0_r, Z.mul_1_r.
    pose proof (Z.pow_pos_nonneg 2 (- e) ltac:(lia) ltac:(lia)) as P.
    destruct (Z.eqb_spec (m mod 2 ^ (- e)) 0) as [M|M].
    + pose proof (Z.div_mod m (2 ^ (- e)) ltac:(lia)) as D. rewrite M, Z.add_0_r in D.
      destruct (Z.eqb_spec (m / 2 ^ (- e)) a) as [Q|Q]; symmetry; [apply Z.eqb_eq; nia|apply Z.eqb_neq; nia].
    + symmetry. apply Z.eqb_neq. intro Q. apply M. rewrite <- Q. apply Z.mod_mul. lia.
Qed.

Lemma rnum_float_cases : forall b,
  (rnum_of_float b = RNaN) \/ (exists s, rnum_of_float b = RInf s) \/
  (exists m e, f_exact b = Some (m, e) /\ rnum_of_float b = RFin m e).
Proof.
  intros b. unfold rnum_of_float. destruct (f_is_nan b) eqn:Nn; [left; reflexivity|].
  destruct (f_is_inf b) eqn:In; [right; left; eexists; reflexivity|].
  destruct (f_exact b) as [[m e]|] eqn:E; [right; right; exists m, e; split; reflexivity|left; reflexivity].
Qed.

Lemma f_int_value_none : forall b, f_exact b = None -> f_int_value b = None.
Proof. intros b H. unfold f_int_value. rewrite H. reflexivity. Qed.

Lemma rnum_nonfin_exact : forall b, (rnum_of_float b = RNaN \/ exists s, rnum_of_float b = RInf s) -> f_int_value b = None \/ exists m e, f_exact b = Some (m, e) /\ rnum_of_float b = RFin m e.
Proof.
  intros b H. destruct (f_exact b) as [[m e]|] eqn:E; [|left; apply f_int_value_none; exact E].
  right. exists m, e. split; [reflexivity|]. unfold rnum_of_float.
  assert (F : f_exp b <> 2047%N) by (intro K; rewrite (f_exact_none b K) in E; discriminate).
  unfold f_is_nan, f_is_inf. apply N.eqb_neq in F. rewrite F. cbn [andb]. rewrite E. reflexivity.
Qed.

Theorem eq_int_float_value : forall a f, in_int64 a = true ->
  eq_Int_Float a f = rnum_eqb (RFin a 0) (rnum_of_float f).
Proof.
  intros a f Ha. unfold eq_Int_Float.
  destruct (rnum_float_cases f) as [R|[[s R]|[m [e [E R]]]]].
  - destruct (rnum_nonfin_exact f (or_introl R)) as [N0|[m [e [E R']]]]; [rewrite N0, R; reflexivity|congruence].
  - destruct (rnum_nonfin_exact f (or_intror (ex_intro _ s R))) as [N0|[m [e [E R']]]]; [rewrite N0, R; reflexivity|congruence].
  - rewrite R, <- (f_int_value_spec f m e a E). destruct (f_int_value f) as [z|]; [|reflexivity].
    destruct (Z.eqb_spec z a) as [->|]; [rewrite Ha; reflexivity|apply andb_false_r].
Qed.

Theorem eq_uint_float_value : forall a f, in_uint64 a = true ->
  eq_Uint_Float a f = rnum_eqb (RFin a 0) (rnum_of_float f).
Proof.
  intros a f Ha. unfold eq_Uint_Float.
  destruct (rnum_float_cases f) as [R|[[s R]|[m [e [E R]]]]].
  - destruct (rnum_nonfin_exact f (or_introl R)) as [N0|[m [e [E R']]]]; [rewrite N0, R; reflexivity|congruence].
  - destruct (rnum_nonfin_exact f (or_intror (ex_intro _ s R))) as [N0|[m [e [E R']]]]; [rewrite N0, R; reflexivity|congruence].
  - rewrite R, <- (f_int_value_spec f m e a E). destruct (f_int_value f) as [z|]; [|reflexivity].
    destruct (Z.eqb_spec z a) as [->|]; [rewrite Ha; reflexivity|apply andb_false_r].
Qed.

(* ---- big integers against floats: big.Int.Float64() with accuracy Exact ------------------------ *)

Open Scope N_scope.

Lemma ctz_pos_split : forall p, Npos p = (Npos p / 2 ^ ctz_pos p) * 2 ^ ctz_pos p /\ (Npos p / 2 ^ ctz_pos p) mod 2 = 1.
Proof.
  induction p as [q IH|q IH|]; cbn [ctz_pos].
  - rewrite N.pow_0_r, N.div_1_r, N.mul_1_r. split; [reflexivity|].
    change (N.pos q~1) with (2 * N.pos q + 1). rewrite N.add_comm, N.mul_comm, N.mod_add by lia. reflexivity.
  - destruct IH as [IH1 IH2].
    assert (E : N.pos q~0 = 2 * N.pos q) by reflexivity.
    assert (P : 2 ^ (1 + ctz_pos q) = 2 * 2 ^ ctz_pos q) by (rewrite N.pow_add_r; reflexivity).
    rewrite P, E.
    assert (D : 2 * N.pos q / (2 * 2 ^ ctz_pos q) = N.pos q / 2 ^ ctz_pos q).
    { rewrite N.div_mul_cancel_l; [reflexivity| |lia]. apply N.pow_nonzero. lia. }
    rewrite D. split; [|exact IH2]. rewrite IH1 at 1. ring.
  - rewrite N.pow_0_r. split; reflexivity.
Qed.

(* a = odd * 2^(ctz a) *)
Lemma ctz_split : forall a, 0 < a -> a = (a / 2 ^ ctz a) * 2 ^ ctz a /\ (a / 2 ^ ctz a) mod 2 = 1.
Proof. intros [|p] H; [lia|]. apply ctz_pos_split. Qed.

Lemma ctz_double : forall n, 0 < n -> ctz (2 * n) = 1 + ctz n.
Proof. intros [|p] H; [lia|]. reflexivity. Qed.

Lemma ctz_mul_pow2 : forall k n, 0 < n -> ctz (n * 2 ^ k) = ctz n + k.
Proof.
  intros k. induction k as [|k IH] using N.peano_ind; intros n H.
  - rewrite N.pow_0_r, N.mul_1_r. lia.
  - rewrite N.pow_succ_r by lia. replace (n * (2 * 2 ^ k)) with (2 * (n * 2 ^ k)) by ring.
    assert (0 < n * 2 ^ k) by (apply N.mul_pos_pos; [exact H|apply N.neq_0_lt_0; apply N.pow_nonzero; lia]).
    rewrite ctz_double by assumption. rewrite IH by exact H. lia.
Qed.

(* l - t is the bit length of the odd part, minus one *)
Lemma log2_ctz : forall a, 0 < a -> N.log2 a = ctz a + N.log2 (a / 2 ^ ctz a).
Proof.
  intros a H. destruct (ctz_split a H) as [E O]. rewrite E at 1.
  apply N.log2_mul_pow2; [|lia]. destruct (a / 2 ^ ctz a); [discriminate|lia].
Qed.

Lemma odd_part_pos : forall a, 0 < a -> 0 < a / 2 ^ ctz a.
Proof. intros a H. destruct (ctz_split a H) as [E O]. destruct (a / 2 ^ ctz a); [discriminate|lia]. Qed.

Lemma to_f64_none : forall z, z <> 0%Z -> Z_to_f64_exact z = None ->
  53 <= N.log2 (Z.to_N (Z.abs z)) - ctz (Z.to_N (Z.abs z)) \/ 1023 < N.log2 (Z.to_N (Z.abs z)).
Proof.
  intros z Hz H. unfold Z_to_f64_exact in H. apply Z.eqb_neq in Hz. rewrite Hz in H.
  cbv zeta in H.
  destruct (53 <=? N.log2 (Z.to_N (Z.abs z)) - ctz (Z.to_N (Z.abs z))) eqn:A; [left; apply N.leb_le; exact A|].
  destruct (1023 <? N.log2 (Z.to_N (Z.abs z))) eqn:B; [right; apply N.ltb_lt; exact B|discriminate].
Qed.

Lemma log2_lt_53 : forall M, 0 < M -> M < 2 ^ 53 -> N.log2 M < 53.
Proof. intros M H L. apply N.log2_lt_pow2; assumption. Qed.

Lemma no_float_for_inexact : forall z m e, z <> 0%Z -> Z_to_f64_exact z = None -> canon m e ->
  rnum_eqb (RFin m e) (RFin z 0) = false.
Proof.
  intros z m e Hz Hn [A [B C]]. apply not_true_is_false. intro V. rewrite rnum_eqb_fin in V. apply Z.eqb_eq in V.
  set (a := Z.to_N (Z.abs z)) in *.
  assert (Ha : 0 < a) by (unfold a; lia).
  destruct (to_f64_none z Hz Hn) as [K|K]; fold a in K.
  - (* too many significant bits *)
    destruct (Z.leb_spec 0 e) as [L|L].
    + rewrite Z.min_r in V by lia. rewrite Z.sub_0_r, Z.sub_diag, Z.pow_0_r, Z.mul_1_r in V.
      set (M := Z.to_N (Z.abs m)). set (k := Z.to_N e).
      assert (Ea : a = M * 2 ^ k).
      { unfold a, M, k. rewrite <- V, Z.abs_mul, (Z.abs_eq (2 ^ e)) by (apply Z.pow_nonneg; lia).
        rewrite Z2N.inj_mul by (try apply Z.abs_nonneg; apply Z.pow_nonneg; lia).
        rewrite Z2N.inj_pow by lia. reflexivity. }
      assert (HM : 0 < M) by (destruct (N.eq_0_gt_0_cases M) as [Z0|P]; [rewrite Z0 in Ea; lia|exact P]).
      assert (LM : M < 2 ^ 53) by (unfold M, p53 in *; change (2 ^ 53) with 9007199254740992; lia).
      rewrite Ea in K. rewrite (N.log2_mul_pow2 M k HM ltac:(lia)), (ctz_mul_pow2 k M HM) in K.
      pose proof (log2_lt_53 M HM LM). lia.
    + rewrite Z.min_l in V by lia. rewrite Z.sub_diag, Z.pow_0_r, Z.mul_1_r in V.
      assert (La : a < 2 ^ 53).
      { pose proof (Z.pow_pos_nonneg 2 (0 - e) ltac:(lia) ltac:(lia)) as P.
        assert (Z.abs m = Z.abs z * 2 ^ (0 - e))%Z by (rewrite V, Z.abs_mul, (Z.abs_eq (2 ^ (0 - e))); lia).
        unfold a, p53 in *. change (2 ^ 53) with 9007199254740992. nia. }
      pose proof (log2_lt_53 a Ha La). lia.
  - (* too large *)
    destruct (Z.leb_spec 0 e) as [L|L].
    + rewrite Z.min_r in V by lia. rewrite Z.sub_0_r, Z.sub_diag, Z.pow_0_r, Z.mul_1_r in V.
      set (M := Z.to_N (Z.abs m)). set (k := Z.to_N e).
      assert (Ea : a = M * 2 ^ k).
      { unfold a, M, k. rewrite <- V, Z.abs_mul, (Z.abs_eq (2 ^ e)) by (apply Z.pow_nonneg; lia).
        rewrite Z2N.inj_mul by (try apply Z.abs_nonneg; apply Z.pow_nonneg; lia).
        rewrite Z2N.inj_pow by lia. reflexivity. }
      assert (HM : 0 < M) by (destruct (N.eq_0_gt_0_cases M) as [Z0|P]; [rewrite Z0 in Ea; lia|exact P]).
      assert (LM : M < 2 ^ 53) by (unfold M, p53 in *; change (2 ^ 53) with 9007199254740992; lia).
      rewrite Ea in K. rewrite (N.log2_mul_pow2 M k HM ltac:(lia)) in K.
      pose proof (log2_lt_53 M HM LM). unfold k in K. lia.
    + rewrite Z.min_l in V by lia. rewrite Z.sub_diag, Z.pow_0_r, Z.mul_1_r in V.
      assert (La : a < 2 ^ 53).
      { pose proof (Z.pow_pos_nonneg 2 (0 - e) ltac:(lia) ltac:(lia)) as P.
        assert (Z.abs m = Z.abs z * 2 ^ (0 - e))%Z by (rewrite V, Z.abs_mul, (Z.abs_eq (2 ^ (0 - e))); lia).
        unfold a, p53 in *. change (2 ^ 53) with 9007199254740992. nia. }
      pose proof (log2_lt_53 a Ha La). lia.
Qed.

(* assembling a pattern from its fields *)
Lemma mk_float_fields : forall (s : bool) ex mt, ex < 2048 -> mt < two52 ->
  let b := (if s then two63 else 0) + ex * two52 + mt in
  wf_float b /\ f_sign b = s /\ f_exp b = ex /\ f_mant b = mt.
Proof.
  intros s ex mt He Hm b.
  assert (T : 0 < two52) by (unfold two52; lia).
  assert (E63 : two63 = 2048 * two52) by reflexivity.
  assert (Q : b / two52 = (if s then 2048 else 0) + ex).
  { symmetry. apply (N.div_unique b two52 _ mt); [exact Hm|]. unfold b. destruct s; rewrite ?E63; ring. }
  assert (W : wf_float b).
  { unfold wf_float. change 18446744073709551616 with (2 * two63). unfold b. rewrite E63. destruct s; nia. }
  split; [exact W|]. split; [|split].
  - unfold f_sign. rewrite N.mod_small by exact W. unfold b. rewrite E63. destruct s.
    + apply N.leb_le. nia.
    + apply N.leb_gt. nia.
  - unfold f_exp. rewrite Q. destruct s.
    + rewrite N.add_comm. replace (ex + 2048) with (ex + 1 * 2048) by ring. rewrite N.mod_add by lia. apply N.mod_small. exact He.
    + rewrite N.add_0_l. apply N.mod_small. exact He.
  - unfold f_mant. symmetry. apply (N.mod_unique b two52 ((if s then 2048 else 0) + ex) mt); [exact Hm|].
    unfold b. destruct s; rewrite ?E63; ring.
Qed.

Lemma two52_pow : two52 = 2 ^ 52.
Proof. reflexivity. Qed.

Lemma frac_value : forall a, 0 < a -> N.log2 a - ctz a < 53 ->
  let l := N.log2 a in
  let frac := if l <=? 52 then (a - 2 ^ l) * 2 ^ (52 - l) else (a - 2 ^ l) / 2 ^ (l - 52) in
  frac < two52 /\
  (if l <=? 52 then two52 + frac = a * 2 ^ (52 - l) else (two52 + frac) * 2 ^ (l - 52) = a).
Proof.
  intros a Ha Hb l frac. destruct (N.log2_spec a Ha) as [L1 L2]. fold l in L1, L2.
  rewrite N.pow_succ_r' in L2. unfold frac. clear frac.
  remember two52 as T eqn:HT.
  destruct (N.leb_spec l 52) as [C|C].
  - set (c := 2 ^ (52 - l)).
    assert (P : T = 2 ^ l * c) by (unfold c; rewrite <- N.pow_add_r, HT, two52_pow; f_equal; lia).
    assert (Q : 0 < c) by (apply N.neq_0_lt_0; apply N.pow_nonzero; lia).
    set (p := 2 ^ l) in *. rewrite P. split.
    + apply N.mul_lt_mono_pos_r; [exact Q|lia].
    + rewrite <- N.mul_add_distr_r. f_equal. lia.
  - set (d := 2 ^ (l - 52)).
    assert (Hd : 0 < d) by (apply N.neq_0_lt_0; apply N.pow_nonzero; lia).
    assert (P : 2 ^ l = T * d) by (unfold d; rewrite HT, two52_pow, <- N.pow_add_r; f_equal; lia).
    (* d divides a: the lowest set bit of a is at or above l - 52 *)
    destruct (ctz_split a Ha) as [E _]. set (t := ctz a) in *. set (o := a / 2 ^ t) in *.
    assert (Ht : l - 52 <= t) by (unfold l, t in *; lia).
    assert (Da : a = (o * 2 ^ (t - (l - 52))) * d).
    { rewrite E at 1. unfold d. rewrite <- N.mul_assoc, <- N.pow_add_r. do 2 f_equal. lia. }
    set (q := o * 2 ^ (t - (l - 52))) in *.
    rewrite P in L1, L2. rewrite P.
    assert (Q1 : T <= q) by (apply (N.mul_le_mono_pos_r _ _ d Hd); rewrite <- Da; exact L1).
    assert (Q2 : q < 2 * T) by (apply (N.mul_lt_mono_pos_r d _ _ Hd); rewrite <- Da, <- N.mul_assoc; exact L2).
    assert (Dr : a - T * d = (q - T) * d) by (rewrite Da at 1; rewrite N.mul_sub_distr_r; reflexivity).
    assert (Fr : (a - T * d) / d = q - T) by (rewrite Dr; apply N.div_mul; lia).
    rewrite Fr. split; [lia|]. transitivity (q * d); [f_equal; lia|symmetry; exact Da].
Qed.

Open Scope Z_scope.

Theorem to_f64_some_value : forall z bf, z <> 0 -> Z_to_f64_exact z = Some bf ->
  wf_float bf /\ exists m e, f_exact bf = Some (m, e) /\ m <> 0 /\ rnum_eqb (RFin m e) (RFin z 0) = true.
Proof.
  intros z bf Hz H. unfold Z_to_f64_exact in H. apply Z.eqb_neq in Hz. rewrite Hz in H. apply Z.eqb_neq in Hz.
  cbv zeta in H.
  set (a := Z.to_N (Z.abs z)) in *. set (l := N.log2 a) in *.
  destruct (53 <=? l - ctz a)%N eqn:A; [discriminate|]. apply N.leb_gt in A.
  destruct (1023 <? l)%N eqn:B; [discriminate|]. apply N.ltb_ge in B.
  assert (Ha : (0 < a)%N) by (unfold a; lia).
  destruct (frac_value a Ha A) as [F1 F2]. fold l in F1, F2.
  set (frac := (if (l <=? 52)%N then ((a - 2 ^ l) * 2 ^ (52 - l))%N else ((a - 2 ^ l) / 2 ^ (l - 52))%N)) in *.
  injection H as H. 
  destruct (mk_float_fields (z <? 0) (l + 1023)%N frac ltac:(lia) F1) as [W [Fs [Fe Fm]]].
  rewrite H in W, Fs, Fe, Fm. split; [exact W|].
  (* the exact value of bf *)
  assert (X : f_exact bf = Some ((if (z <? 0) then - Z.of_N (two52 + frac) else Z.of_N (two52 + frac)), Z.of_N (l + 1023) - 1075)).
  { unfold f_exact, f_is_finite. rewrite Fs, Fe, Fm.
    assert (E1 : ((l + 1023 =? 2047) = false)%N) by (apply N.eqb_neq; lia).
    assert (E2 : ((l + 1023 =? 0) = false)%N) by (apply N.eqb_neq; lia).
    rewrite E1, E2. reflexivity. }
  eexists; eexists. split; [exact X|].
  assert (T : (0 < two52)%N) by (unfold two52; lia).
  split; [destruct (z <? 0); lia|].
  rewrite rnum_eqb_fin. apply Z.eqb_eq.
  assert (Zs : z = (if z <? 0 then -1 else 1) * Z.of_N a) by (unfold a; destruct (Z.ltb_spec z 0); lia).
  set (sg := if z <? 0 then -1 else 1) in *.
  assert (Ms : (if z <? 0 then - Z.of_N (two52 + frac) else Z.of_N (two52 + frac)) = sg * Z.of_N (two52 + frac))
    by (unfold sg; destruct (z <? 0); lia).
  rewrite Ms. rewrite Zs at 1. clear Ms.
  destruct (N.leb_spec l 52) as [C|C].
  - rewrite Z.min_l by lia. rewrite Z.sub_diag, Z.pow_0_r, Z.mul_1_r. rewrite F2.
    rewrite N2Z.inj_mul, N2Z.inj_pow, <- Z.mul_assoc. do 3 f_equal. lia.
  - rewrite Z.min_r by lia. rewrite Z.sub_0_r, Z.sub_diag, Z.pow_0_r, Z.mul_1_r.
    transitivity (sg * Z.of_N ((two52 + frac) * 2 ^ (l - 52))); [|rewrite F2; reflexivity].
    rewrite N2Z.inj_mul, N2Z.inj_pow, <- Z.mul_assoc. do 3 f_equal. lia.
Qed.

Lemma rnum_of_exact : forall b m e, f_exact b = Some (m, e) -> rnum_of_float b = RFin m e.
Proof.
  intros b m e E. unfold rnum_of_float.
  assert (F : f_exp b <> 2047%N) by (intro K; rewrite (f_exact_none b K) in E; discriminate).
  unfold f_is_nan, f_is_inf. apply N.eqb_neq in F. rewrite F. cbn [andb]. rewrite E. reflexivity.
Qed.

Lemma rnum_eqb_subst_r : forall m e z, rnum_eqb (RFin m e) (RFin z 0) = true ->
  forall r, rnum_eqb r (RFin m e) = rnum_eqb r (RFin z 0).
Proof.
  intros m e z H r. destruct r as [|s|m' e']; try reflexivity.
  set (E := Z.min e' (Z.min e 0)).
  rewrite rnum_eqb_fin in H. rewrite <- (scale_eq m e z 0 E) in H by (unfold E; lia). apply Z.eqb_eq in H.
  rewrite !rnum_eqb_fin.
  rewrite <- (scale_eq m' e' m e E) by (unfold E; lia). rewrite <- (scale_eq m' e' z 0 E) by (unfold E; lia).
  rewrite H. reflexivity.
Qed.

Theorem eq_float_big_value : forall f z, wf_float f ->
  eq_Float_BigInt f z = rnum_eqb (rnum_of_float f) (RFin z 0).
Proof.
  intros f z W. unfold eq_Float_BigInt.
  destruct (Z.eq_dec z 0) as [->|Hz].
  - change (match Z_to_f64_exact 0 with Some bf => f_eq f bf | None => false end) with (f_eq f 0%N).
    rewrite (f_eq_value f 0%N W) by (unfold wf_float; lia).
    change (rnum_of_float 0) with (RFin 0 (-1074)). apply rnum_eqb_subst_r. reflexivity.
  - destruct (Z_to_f64_exact z) as [bf|] eqn:E.
    + destruct (to_f64_some_value z bf Hz E) as [Wb [m [e [X [_ V]]]]].
      rewrite (f_eq_value f bf W Wb), (rnum_of_exact bf m e X). apply rnum_eqb_subst_r. exact V.
    + destruct (rnum_float_cases f) as [R|[[s R]|[m [e [X R]]]]]; rewrite R; try reflexivity.
      symmetry. apply no_float_for_inexact; [exact Hz|exact E|]. eapply f_exact_canon. exact X.
Qed.

Lemma rnum_eqb_sym : forall x y, rnum_eqb x y = rnum_eqb y x.
Proof.
  intros [|s|m e] [|s'|m' e']; try reflexivity.
  - cbn. destruct s, s'; reflexivity.
  - apply rnum_eqb_fin_sym.
Qed.

(* imag(c) == 0 *)
Lemma f_zero_value : forall im, wf_float im -> f_is_zero_eq im = rnum_eqb (rnum_of_float im) (RFin 0 0).
Proof.
  intros im W. unfold f_is_zero_eq. rewrite (f_eq_value im 0%N W) by (unfold wf_float; lia).
  change (rnum_of_float 0) with (RFin 0 (-1074)). apply rnum_eqb_subst_r. reflexivity.
Qed.

Lemma wf_float_b : forall f, (f <? 18446744073709551616)%N = true -> wf_float f.
Proof. intros f H. apply N.ltb_lt in H. exact H. Qed.

(* ---- hash_Float respects == -------------------------------------------------------------------- *)

Lemma f_int_value_zero : forall b, f_is_zero b = true -> f_int_value b = Some 0.
Proof.
  intros b Hz. unfold f_is_zero in Hz. apply andb_true_iff in Hz. destruct Hz as [E M].
  apply N.eqb_eq in E. destruct (f_exact_finite b ltac:(rewrite E; discriminate)) as [m [e X]].
  assert (m = 0) by (apply (f_exact_zero b m e X); unfold f_is_zero; rewrite E, M; reflexivity). subst m.
  unfold f_int_value. rewrite X. destruct (Z.leb_spec 0 e) as [L|L]; [reflexivity|].
  assert (P : 2 ^ (- e) <> 0) by (apply Z.pow_nonzero; lia).
  rewrite Z.mod_0_l, Z.div_0_l by exact P. reflexivity.
Qed.

Lemma hash_float_eq : forall x y, f_eq x y = true -> hash_float x = hash_float y.
Proof.
  intros x y H. unfold f_eq in H. destruct (f_is_nan x || f_is_nan y); [discriminate|].
  destruct (f_is_zero x && f_is_zero y) eqn:Z0.
  - apply andb_true_iff in Z0. destruct Z0 as [Zx Zy]. unfold hash_float.
    rewrite (f_int_value_zero x Zx), (f_int_value_zero y Zy). reflexivity.
  - apply N.eqb_eq in H. subst. reflexivity.
Qed.

Lemma f_zero_eq_congr : forall x y, f_eq x y = true -> f_is_zero_eq x = f_is_zero_eq y.
Proof.
  intros x y H. unfold f_is_zero_eq. unfold f_eq in *. destruct (f_is_nan x) eqn:Nx; [discriminate|].
  destruct (f_is_nan y) eqn:Ny; [discriminate|]. cbn [orb] in *.
  change (f_is_nan 0) with false. cbn [orb]. change (f_is_zero 0) with true. rewrite !andb_true_r.
  destruct (f_is_zero x) eqn:Zx; destruct (f_is_zero y) eqn:Zy; cbn [andb] in H; try reflexivity.
  - apply N.eqb_eq in H. subst. congruence.
  - apply N.eqb_eq in H. subst. congruence.
  - apply N.eqb_eq in H. subst. reflexivity.
Qed.

Lemma hash_int_float : forall a f, eq_Int_Float a f = true -> hash_float f = u64be a.
Proof.
  intros a f H. unfold eq_Int_Float in H. unfold hash_float. destruct (f_int_value f) as [z|]; [|discriminate].
  apply andb_true_iff in H. destruct H as [I E]. apply Z.eqb_eq in E. subst. rewrite I. reflexivity.
Qed.

Lemma hash_uint_float : forall a f, eq_Uint_Float a f = true -> hash_float f = u64be a.
Proof.
  intros a f H. unfold eq_Uint_Float in H. unfold hash_float. destruct (f_int_value f) as [z|]; [|discriminate].
  apply andb_true_iff in H. destruct H as [I E]. apply Z.eqb_eq in E. subst. rewrite I, orb_true_r. reflexivity.
Qed.

Lemma f_int_value_of_exact : forall z bf, Z_to_f64_exact z = Some bf -> f_int_value bf = Some z.
Proof.
  intros z bf H. destruct (Z.eq_dec z 0) as [->|Hz].
  - change (Z_to_f64_exact 0) with (Some 0%N) in H. inversion H; subst. reflexivity.
  - destruct (to_f64_some_value z bf Hz H) as [W [m [e [X [_ V]]]]].
    pose proof (f_int_value_spec bf m e z X) as S. rewrite rnum_eqb_sym, V in S.
    destruct (f_int_value bf) as [z'|]; [|discriminate]. apply Z.eqb_eq in S. subst. reflexivity.
Qed.

Lemma hash_float_big : forall f i z, eq_Float_BigInt f z = true -> go_hash (VFloat f) = go_hash (VBig i z).
Proof.
  intros f i z H. unfold eq_Float_BigInt in H. destruct (Z_to_f64_exact z) as [bf|] eqn:E; [|discriminate].
  cbn [go_hash]. rewrite (hash_float_eq f bf H). rewrite E.
  destruct (in_int64 z || in_uint64 z) eqn:R; [|reflexivity].
  unfold hash_float. rewrite (f_int_value_of_exact z bf E), R. reflexivity.
Qed.
