(* CodecFacts.v — totality facts about the text codecs: the escape decoders never panic and
   never run out of model fuel. *)
From Coq Require Import Ascii String.
From Coq Require Import List ZArith NArith Bool Lia.
From Coq.Strings Require Import Byte.
From OgRek Require Import Base Utf8 GoStrconv PyQuote BaseFacts.
Import ListNotations.
Open Scope N_scope.

Ltac break_match_goal :=
  match goal with
  | |- context[match ?x with _ => _ end] => destruct x eqn:?
  end.
Ltac break_match_hyp H :=
  match type of H with
  | context[match ?x with _ => _ end] => destruct x eqn:?
  end.

Lemma utf8_decode_width_pos : forall s, s <> [] -> (1 <= snd (utf8_decode s))%nat.
Proof.
  intros s Hs. destruct s as [|b0 t]; [contradiction|].
  unfold utf8_decode. destruct (utf8_first (b2N b0)) as [[sz lo] hi].
  repeat (break_match_goal; cbn [snd]; try lia).
Qed.

Lemma utf8_decode_width_le4 : forall s, (snd (utf8_decode s) <= 4)%nat.
Proof.
  intros s. destruct s as [|b0 t]; [cbn; lia|].
  unfold utf8_decode. destruct (utf8_first (b2N b0)) as [[sz lo] hi].
  repeat (break_match_goal; cbn [snd]; try lia).
Qed.

Lemma unhex_lt : forall c x, unhex c = Some x -> x < 16.
Proof.
  intros c x H. unfold unhex in H.
  repeat (break_match_hyp H; try discriminate); inversion H; subst;
  repeat match goal with
  | E : (_ && _) = true |- _ => apply andb_true_iff in E; destruct E
  | E : (_ <=? _) = true |- _ => apply N.leb_le in E
  end; lia.
Qed.

Lemma hex_value_spec : forall n s acc v t,
  hex_value n s acc = Some (v, t) ->
  v < (acc + 1) * 16 ^ N.of_nat n /\ (length s = n + length t)%nat.
Proof.
  induction n as [|n IH]; intros s acc v t H; cbn [hex_value] in H.
  - inversion H; subst. cbn. split; lia.
  - destruct s as [|c s']; [discriminate|].
    destruct (unhex c) as [x|] eqn:U; [|discriminate].
    apply IH in H. destruct H as [H1 H2]. apply unhex_lt in U.
    rewrite Nat2N.inj_succ, N.pow_succ_r by lia. split; [nia|cbn; lia].
Qed.

(* what og-rek's string-escape decoder lets through to UnquoteChar yields one byte *)
Definition se_escape (c : byte) : bool :=
  let n := b2N c in
  (n =? 98) || (n =? 102) || (n =? 116) || (n =? 110) || (n =? 114)
  || (n =? 118) || (n =? 97) || is_octal c || (n =? 120).

Lemma unquote_char_tail : forall s v t, unquote_char s = Some (v, t) -> (length t < length s)%nat.
Proof.
  intros s v t H. unfold unquote_char in H.
  destruct s as [|bsl [|c rest]]; try discriminate.
  repeat (break_match_hyp H; try discriminate);
    try (inversion H; subst; cbn; lia);
    try (apply hex_value_spec in H; cbn; lia);
    try (match goal with E : hex_value _ _ _ = Some _ |- _ => apply hex_value_spec in E end;
         inversion H; subst; cbn; lia).
Qed.

Lemma unquote_char_byte : forall bsl c rest v t,
  se_escape c = true -> unquote_char (bsl :: c :: rest) = Some (v, t) -> v <= 255.
Proof.
  intros bsl c rest v t Hc H. unfold unquote_char in H. unfold se_escape in Hc.
  repeat (break_match_hyp H; try discriminate);
    try (inversion H; subst; lia);
    try (apply hex_value_spec in H; cbn in H; lia);
    repeat match goal with
    | E : (_ =? _) = true |- _ => apply N.eqb_eq in E
    | E : (_ =? _) = false |- _ => apply N.eqb_neq in E
    | E : (_ <? _) = false |- _ => apply N.ltb_ge in E
    end;
    try (inversion H; subst; lia).
  all: try (exfalso; unfold is_octal in *;
    repeat match goal with
    | E : (_ || _) = true |- _ => apply orb_true_iff in E; destruct E
    | E : (_ && _) = true |- _ => apply andb_true_iff in E; destruct E
    | E : (_ =? _) = true |- _ => apply N.eqb_eq in E
    | E : (_ <=? _) = true |- _ => apply N.leb_le in E
    end; try lia; try congruence).
Qed.

Definition good {A} (r : res A) : Prop := r <> Panic /\ r <> OutOfFuel.

Lemma pyunescape_good : forall fuel s, (length s <= fuel)%nat -> good (pyunescape_loop fuel s).
Proof.
  induction fuel as [|f IH]; intros s Hl.
  - destruct s; [|cbn in Hl; lia]. cbn. split; discriminate.
  - cbn [pyunescape_loop]. destruct s as [|b0 s'] eqn:Es; [split; discriminate|].
    rewrite <- Es in *. assert (Hne : s <> []) by (subst; discriminate).
    assert (Hlen : (1 <= length s)%nat) by (rewrite Es; cbn; lia).
    destruct (utf8_decode s) as [r w] eqn:D.
    pose proof (utf8_decode_width_pos s Hne) as Hw. rewrite D in Hw. cbn in Hw.
    assert (Hrec : forall rest, (length rest < length s)%nat ->
                     forall out, good (match pyunescape_loop f rest with
                                       | Ok t' => Ok (out ++ t') | e => e end)).
    { intros rest Hr out. destruct (IH rest ltac:(lia)) as [G1 G2].
      destruct (pyunescape_loop f rest); split; try discriminate; try contradiction. }
    destruct (negb (r =? 92)).
    + apply Hrec. rewrite skipn_length. lia.
    + subst s. destruct s' as [|c t]; [split; discriminate|].
      repeat match goal with
      | |- good (match pyunescape_loop _ _ with _ => _ end) => apply Hrec
      | |- good (Err _) => split; discriminate
      | |- good Panic => exfalso
      | |- context[match ?x with _ => _ end] => destruct x eqn:?
      end.
      all: try (cbn; lia).
      * (* the Panic branch: unreachable *)
        match goal with E : unquote_char _ = Some _ |- _ =>
          eapply unquote_char_byte in E end.
        -- match goal with E : (255 <? _) = true |- _ => apply N.ltb_lt in E end. lia.
        -- unfold se_escape.
           repeat match goal with
           | E : _ = true |- _ => rewrite E
           | E : _ = false |- _ => rewrite E
           end; cbn; try reflexivity; rewrite ?orb_true_r; reflexivity.
      * match goal with E : unquote_char _ = Some _ |- _ => apply unquote_char_tail in E end.
        cbn in *. lia.
Qed.

Lemma pydecode_string_escape_good : forall s, good (pydecode_string_escape s).
Proof. intros s. apply pyunescape_good. lia. Qed.

Lemma rue_decode_good : forall fuel ne s, (length s <= fuel)%nat -> good (rue_decode_loop fuel ne s).
Proof.
  induction fuel as [|f IH]; intros ne s Hl.
  - destruct s; [|cbn in Hl; lia]. cbn. split; discriminate.
  - cbn [rue_decode_loop]. destruct s as [|c t]; [split; discriminate|].
    assert (Hrec : forall ne' rest, (length rest <= f)%nat ->
                     forall r, good (match rue_decode_loop f ne' rest with
                                     | Ok l => Ok (r :: l) | e => e end)).
    { intros ne' rest Hr r. destruct (IH ne' rest Hr) as [G1 G2].
      destruct (rue_decode_loop f ne' rest); split; try discriminate; try contradiction. }
    cbn in Hl.
    repeat match goal with
    | |- good (match rue_decode_loop _ _ _ with _ => _ end) => apply Hrec
    | |- good (Err _) => split; discriminate
    | |- context[match ?x with _ => _ end] => destruct x eqn:?
    end.
    all: try (cbn in *; lia).
    match goal with E : unquote_char _ = Some _ |- _ => apply unquote_char_tail in E end.
    cbn in *. lia.
Qed.

Lemma pydecode_raw_unicode_escape_good : forall s, good (pydecode_raw_unicode_escape s).
Proof.
  intros s. unfold pydecode_raw_unicode_escape.
  destruct (rue_decode_good (length s) 0 s ltac:(lia)) as [G1 G2].
  destruct (rue_decode_loop (length s) 0 s); split; try discriminate; try contradiction.
Qed.
