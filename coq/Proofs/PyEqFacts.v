(* PyEqFacts.v — equal() is Python's ==, and hash respects equal (C07), for every hashable key:
   integers of every Go type, *big.Int, bool, float64 / float32 (widened), complex, the three
   string kinds, Tuples, None, Class, Call, Ref.  The float facts are in FloatFacts.v. *)
From Coq Require Import Ascii String.
From Coq Require Import List ZArith NArith Bool Lia.
From Coq.Strings Require Import Byte.
From OgRek Require Import Base Float Value PyEq BaseFacts FloatFacts.
Import ListNotations.
Open Scope N_scope.

Lemma all2_ext : forall (P : val -> bool) (f g : val -> val -> bool) l1,
  Forall (fun x => forall y, P x = true -> P y = true -> f x y = g x y) l1 ->
  forall l2, forallb P l1 = true -> forallb P l2 = true -> all2 f l1 l2 = all2 g l1 l2.
Proof.
  intros P f g l1 H. induction H as [|x t Hx Ht IH]; intros l2 H1 H2; destruct l2 as [|y t2]; cbn; try reflexivity.
  cbn in H1, H2. apply andb_true_iff in H1. apply andb_true_iff in H2.
  destruct H1 as [Px Pt]. destruct H2 as [Py Pt2].
  rewrite (Hx y Px Py). rewrite (IH t2 Pt Pt2). reflexivity.
Qed.

Lemma rnum_eqb_int : forall x y, rnum_eqb (RFin x 0) (RFin y 0) = (x =? y)%Z.
Proof.
  intros x y. cbn. rewrite !Z.mul_1_r. reflexivity.
Qed.

Ltac bool_hyps :=
  repeat match goal with
  | H : (_ && _) = true |- _ => apply andb_true_iff in H; destruct H
  | H : (_ <=? _)%Z = true |- _ => apply Z.leb_le in H
  | H : in_int64 _ = true |- _ => unfold in_int64, int64_min, int64_max in H
  | H : in_uint64 _ = true |- _ => unfold in_uint64, uint64_max in H
  end.

Ltac zcases :=
  repeat match goal with
  | |- context[(?a =? ?b)%Z] => destruct (Z.eqb_spec a b)
  | |- context[(?a <=? ?b)%Z] => destruct (Z.leb_spec a b)
  end; cbn; try reflexivity; try lia.

Lemma bint_range : forall b, (0 <= bint b <= 1)%Z.
Proof. destruct b; cbn; lia. Qed.

(* ---- numbers: the eq_* matrix against exact values ------------------------------------------ *)

Definition is_num (v : val) : bool :=
  match v with VBool _ | VInt _ | VUint _ | VFloat _ | VComplex _ _ | VBig _ _ => true | _ => false end.

Lemma py_eq_num : forall a b, is_num a = true -> is_num b = true ->
  py_eq a b = match pynum_of a, pynum_of b with
              | Some (r1, i1), Some (r2, i2) => rnum_eqb r1 r2 && rnum_eqb i1 i2
              | _, _ => false
              end.
Proof. intros a b Ha Hb. destruct a; try discriminate Ha; destruct b; try discriminate Hb; reflexivity. Qed.

Lemma py_eq_num_sym : forall a b, is_num a = true -> is_num b = true -> py_eq a b = py_eq b a.
Proof.
  intros a b Ha Hb. rewrite (py_eq_num a b Ha Hb), (py_eq_num b a Hb Ha).
  destruct (pynum_of a) as [[r1 i1]|]; destruct (pynum_of b) as [[r2 i2]|]; try reflexivity.
  rewrite (rnum_eqb_sym r1 r2), (rnum_eqb_sym i1 i2). reflexivity.
Qed.

Lemma in_int64_bint : forall b, in_int64 (bint b) = true.
Proof. destruct b; reflexivity. Qed.

Lemma rnum_zero_refl : rnum_eqb (RFin 0 0) (RFin 0 0) = true.
Proof. reflexivity. Qed.

Ltac wf_hyps :=
  repeat match goal with
  | H : (_ && _) = true |- _ => apply andb_true_iff in H; destruct H
  | H : wfb _ = true |- _ => apply wf_float_b in H
  end.

Lemma eq_num_ordered_py : forall a b, is_num a = true -> is_num b = true ->
  nf_key a = true -> nf_key b = true ->
  (kind_rank (kind_of a) <=? kind_rank (kind_of b))%N = true ->
  eq_num_ordered a b = py_eq a b.
Proof.
  intros a b Na Nb Ha Hb R. rewrite (py_eq_num a b Na Nb).
  destruct a; try discriminate Na; destruct b; try discriminate Nb; try discriminate R;
    cbn [nf_key] in Ha, Hb; cbn [eq_num_ordered pynum_of]; rewrite ?rnum_zero_refl, ?andb_true_r.
  (* integer / integer pairs *)
  all: try (rewrite ?rnum_eqb_int;
            unfold eq_Int_Uint, eq_Int_BigInt, eq_Uint_BigInt, in_int64, in_uint64, int64_min, int64_max, uint64_max in *;
            bool_hyps; repeat match goal with b : bool |- _ => destruct b end; cbn [bint]; zcases; fail).
  all: wf_hyps.
  - (* bool, float *) apply eq_int_float_value. apply in_int64_bint.
  - (* bool, complex *) unfold eq_Int_Complex. rewrite eq_int_float_value by apply in_int64_bint.
    rewrite f_zero_value by assumption. rewrite (rnum_eqb_sym (RFin 0 0)). apply andb_comm.
  - (* int, float *) apply eq_int_float_value. exact Ha.
  - (* int, complex *) unfold eq_Int_Complex. rewrite eq_int_float_value by exact Ha.
    rewrite f_zero_value by assumption. rewrite (rnum_eqb_sym (RFin 0 0)). apply andb_comm.
  - (* uint, float *) apply eq_uint_float_value. exact Ha.
  - (* uint, complex *) unfold eq_Uint_Complex. rewrite eq_uint_float_value by exact Ha.
    rewrite f_zero_value by assumption. rewrite (rnum_eqb_sym (RFin 0 0)). apply andb_comm.
  - (* float, big *) apply eq_float_big_value. assumption.
  - (* float, float *) apply f_eq_value; assumption.
  - (* float, complex *) unfold eq_Float_Complex. rewrite f_eq_value by assumption.
    rewrite f_zero_value by assumption. rewrite (rnum_eqb_sym (RFin 0 0)). reflexivity.
  - (* complex, big *) unfold eq_Complex_BigInt. rewrite eq_float_big_value by assumption.
    rewrite f_zero_value by assumption. apply andb_comm.
  - (* complex, complex *) rewrite !f_eq_value by assumption. reflexivity.
Qed.

Lemma eq_num_py : forall a b, is_num a = true -> is_num b = true ->
  nf_key a = true -> nf_key b = true -> eq_num a b = py_eq a b.
Proof.
  intros a b Na Nb Ha Hb. unfold eq_num.
  assert (S : is_stringish b = false) by (destruct b; try discriminate Nb; reflexivity). rewrite S.
  destruct (N.leb_spec (kind_rank (kind_of a)) (kind_rank (kind_of b))) as [L|L].
  - apply eq_num_ordered_py; try assumption. apply N.leb_le. exact L.
  - rewrite (py_eq_num_sym a b Na Nb). apply eq_num_ordered_py; try assumption. apply N.leb_le. lia.
Qed.

Theorem go_equal_py_eq_nf : forall a b,
  nf_key a = true -> nf_key b = true -> go_equal a b = py_eq a b.
Proof.
  induction a using val_ind'; intros b0 Ha Hb; cbn in Ha; try discriminate;
    destruct b0; cbn in Hb; try discriminate; cbn [go_equal py_eq slice_items];
    try reflexivity;
    try (apply eq_num_py; [reflexivity|reflexivity|first [reflexivity|exact Ha]|first [reflexivity|exact Hb]]).
  - (* Tuple / Tuple *)
    apply (all2_ext nf_key); assumption.
  - (* Call / Call *)
    f_equal. apply (all2_ext nf_key); assumption.
  - (* Ref / Ref *)
    apply IHa; assumption.
Qed.

(* ---- hash respects equal (integer fragment) ----------------------------------------- *)

Definition hash_agree (a b : val) : Prop :=
  exists ha hb, go_hash a = Some ha /\ go_hash b = Some hb /\ hin_eqb ha hb = true.

Lemma hin_eqb_norm : forall x y, hin_eqb x y = true -> hin_eqb (hin_norm x) (hin_norm y) = true.
Proof.
  intros x y H. destruct x, y; cbn in *; try discriminate; try exact H.
  rewrite H. reflexivity.
Qed.

Lemma hash_agree_same : forall a b, hash_agree a b -> hash_same a b = true.
Proof.
  intros a b [ha [hb [Ea [Eb E]]]]. unfold hash_same. rewrite Ea, Eb. apply hin_eqb_norm. exact E.
Qed.

Lemma parts_agree : forall l1,
  Forall (fun x => forall y, nf_key x = true -> nf_key y = true -> go_equal x y = true -> hash_agree x y) l1 ->
  forall l2, forallb nf_key l1 = true -> forallb nf_key l2 = true -> all2 go_equal l1 l2 = true ->
  exists p1 p2, map_opt go_hash l1 = Some p1 /\ map_opt go_hash l2 = Some p2 /\ all2 hin_eqb p1 p2 = true.
Proof.
  intros l1 H. induction H as [|x t Hx Ht IH]; intros l2 H1 H2 E; destruct l2 as [|y t2]; cbn in E; try discriminate.
  - exists [], []. cbn. repeat split.
  - cbn in H1, H2. apply andb_true_iff in H1. apply andb_true_iff in H2. apply andb_true_iff in E.
    destruct H1 as [Px Pt]. destruct H2 as [Py Pt2]. destruct E as [Exy Et].
    destruct (Hx y Px Py Exy) as [hx [hy [Ex [Ey Eh]]]].
    destruct (IH t2 Pt Pt2 Et) as [p1 [p2 [E1 [E2 Ep]]]].
    exists (hx :: p1), (hy :: p2). cbn. rewrite Ex, Ey, E1, E2. repeat split.
    rewrite Eh, Ep. reflexivity.
Qed.

Ltac solve_agree :=
  eexists; eexists; split; [reflexivity|split; [reflexivity|]]; cbn [hin_eqb all2];
  rewrite ?bytes_eqb_refl; reflexivity.

Lemma big_hash_refl : forall i j z, hash_agree (VBig i z) (VBig j z).
Proof.
  intros i j z. unfold hash_agree. cbn [go_hash].
  destruct (in_int64 z || in_uint64 z); [solve_agree|].
  destruct (Z_to_f64_exact z); solve_agree.
Qed.

Lemma u64_agree : forall x y, x = y -> hin_eqb (HN [HB (u64be x)]) (HN [HB (u64be y)]) = true.
Proof. intros x y ->. cbn [hin_eqb all2]. rewrite bytes_eqb_refl. reflexivity. Qed.

Lemma go_hash_big_small : forall i z,
  in_int64 z || in_uint64 z = true -> go_hash (VBig i z) = Some (HN [HB (u64be z)]).
Proof. intros i z H. cbn [go_hash]. rewrite H. reflexivity. Qed.

Ltac agree_small :=
  unfold hash_agree; rewrite ?go_hash_big_small by (rewrite ?orb_true_iff; auto);
  cbn [go_hash]; eexists; eexists; split; [reflexivity|split; [reflexivity|]];
  apply u64_agree; congruence.

(* ---- numbers with a float or complex part ------------------------------------------------------ *)

Definition is_fl (v : val) : bool := match v with VFloat _ | VComplex _ _ => true | _ => false end.

Lemma num_hash_self : forall a, is_num a = true -> exists h, go_hash a = Some h /\ hin_eqb h h = true.
Proof.
  intros a H. destruct a; try discriminate H; cbn [go_hash].
  all: try (eexists; split; [reflexivity|cbn [hin_eqb all2]; rewrite ?bytes_eqb_refl; reflexivity]).
  - destruct (in_int64 z || in_uint64 z); [|destruct (Z_to_f64_exact z)];
      (eexists; split; [reflexivity|cbn [hin_eqb all2]; rewrite ?bytes_eqb_refl; reflexivity]).
  - destruct (f_is_zero_eq im); (eexists; split; [reflexivity|cbn [hin_eqb all2]; rewrite ?bytes_eqb_refl; reflexivity]).
Qed.

Lemma hash_eq_agree : forall a b, is_num a = true -> go_hash a = go_hash b -> hash_agree a b.
Proof.
  intros a b Na E. destruct (num_hash_self a Na) as [h [H1 H2]]. exists h, h. split; [exact H1|]. split; [rewrite <- E; exact H1|exact H2].
Qed.

Lemma hash_num_ordered_eq : forall a b, is_num a = true -> is_num b = true -> is_fl a || is_fl b = true ->
  (kind_rank (kind_of a) <=? kind_rank (kind_of b))%N = true ->
  eq_num_ordered a b = true -> go_hash a = go_hash b.
Proof.
  intros a b Na Nb Fl R E.
  destruct a; try discriminate Na; destruct b; try discriminate Nb; try discriminate R; try discriminate Fl;
    cbn [eq_num_ordered] in E; cbn [go_hash].
  - (* bool, float *) rewrite (hash_int_float _ _ E). reflexivity.
  - (* bool, complex *) unfold eq_Int_Complex in E. apply andb_true_iff in E. destruct E as [Z0 E].
    rewrite Z0, (hash_int_float _ _ E). reflexivity.
  - (* int, float *) rewrite (hash_int_float _ _ E). reflexivity.
  - (* int, complex *) unfold eq_Int_Complex in E. apply andb_true_iff in E. destruct E as [Z0 E].
    rewrite Z0, (hash_int_float _ _ E). reflexivity.
  - (* uint, float *) rewrite (hash_uint_float _ _ E). reflexivity.
  - (* uint, complex *) unfold eq_Uint_Complex in E. apply andb_true_iff in E. destruct E as [Z0 E].
    rewrite Z0, (hash_uint_float _ _ E). reflexivity.
  - (* float, big *) apply (hash_float_big _ id _ E).
  - (* float, float *) rewrite (hash_float_eq _ _ E). reflexivity.
  - (* float, complex *) unfold eq_Float_Complex in E. apply andb_true_iff in E. destruct E as [E Z0].
    rewrite Z0, (hash_float_eq _ _ E). reflexivity.
  - (* complex, big *) unfold eq_Complex_BigInt in E. apply andb_true_iff in E. destruct E as [Z0 E].
    rewrite Z0. apply (hash_float_big _ id _ E).
  - (* complex, complex *) apply andb_true_iff in E. destruct E as [E1 E2].
    rewrite (hash_float_eq _ _ E1), (f_zero_eq_congr _ _ E2), (hash_float_eq _ _ E2). reflexivity.
Qed.

Lemma hash_num_float : forall a b, is_num a = true -> is_num b = true -> is_fl a || is_fl b = true ->
  eq_num a b = true -> hash_agree a b.
Proof.
  intros a b Na Nb Fl E. unfold eq_num in E.
  assert (S : is_stringish b = false) by (destruct b; try discriminate Nb; reflexivity). rewrite S in E.
  apply hash_eq_agree; [exact Na|].
  destruct (N.leb_spec (kind_rank (kind_of a)) (kind_rank (kind_of b))) as [L|L].
  - apply hash_num_ordered_eq; try assumption. apply N.leb_le. exact L.
  - symmetry. apply hash_num_ordered_eq; try assumption; [rewrite orb_comm; exact Fl|apply N.leb_le; lia].
Qed.

Theorem hash_respects_equal_nf : forall a b,
  nf_key a = true -> nf_key b = true -> go_equal a b = true -> hash_agree a b.
Proof.
  induction a using val_ind'; intros b0 Ha Hb E; cbn in Ha; try discriminate;
    destruct b0; cbn in Hb; try discriminate; cbn [go_equal slice_items] in E; try discriminate.
  all: try (cbn in E; apply bytes_eqb_eq in E; subst; solve_agree).
  all: try solve_agree.
  all: try (apply hash_num_float; [reflexivity|reflexivity|reflexivity|exact E]).
  all: try (cbn in E; unfold eq_Int_Uint, eq_Int_BigInt, eq_Uint_BigInt in E;
            repeat match goal with
            | H : (_ && _) = true |- _ => apply andb_true_iff in H; destruct H
            | H : (_ =? _)%Z = true |- _ => apply Z.eqb_eq in H
            end;
            first [ agree_small | subst; apply big_hash_refl ]).
  - (* Tuple / Tuple *)
    destruct (parts_agree l H l0 Ha Hb E) as [p1 [p2 [E1 [E2 Ep]]]].
    unfold hash_agree. cbn [go_hash]. rewrite E1, E2.
    eexists; eexists; split; [reflexivity|split; [reflexivity|]].
    cbn [hin_eqb all2]. rewrite bytes_eqb_refl, Ep. reflexivity.
  - (* Class / Class *)
    apply andb_true_iff in E. destruct E as [E1 E2].
    apply bytes_eqb_eq in E1. apply bytes_eqb_eq in E2. subst. solve_agree.
  - (* Call / Call *)
    apply andb_true_iff in E. destruct E as [E12 E3]. apply andb_true_iff in E12. destruct E12 as [E1 E2].
    apply bytes_eqb_eq in E1. apply bytes_eqb_eq in E2. subst.
    destruct (parts_agree l H args Ha Hb E3) as [p1 [p2 [Ep1 [Ep2 Ep]]]].
    unfold hash_agree. cbn [go_hash]. rewrite Ep1, Ep2.
    eexists; eexists; split; [reflexivity|split; [reflexivity|]].
    cbn [hin_eqb all2]. rewrite !bytes_eqb_refl, Ep. reflexivity.
  - (* Ref / Ref *)
    destruct (IHa b0 Ha Hb E) as [ha [hb [Ea [Eb Eh]]]].
    unfold hash_agree. cbn [go_hash]. rewrite Ea, Eb.
    eexists; eexists; split; [reflexivity|split; [reflexivity|]].
    cbn [hin_eqb all2]. rewrite bytes_eqb_refl, Eh. reflexivity.
  - (* User / User *)
    apply N.eqb_eq in E. subst. solve_agree.
Qed.

(* ---- Python equality is symmetric on the integer fragment -------------------------------- *)

Lemma all2_sym_ext : forall (P : val -> bool) (f : val -> val -> bool) l1,
  Forall (fun x => forall y, P x = true -> P y = true -> f x y = f y x) l1 ->
  forall l2, forallb P l1 = true -> forallb P l2 = true -> all2 f l1 l2 = all2 f l2 l1.
Proof.
  intros P f l1 H. induction H as [|x t Hx Ht IH]; intros l2 H1 H2; destruct l2 as [|y t2]; cbn; try reflexivity.
  cbn in H1, H2. apply andb_true_iff in H1. apply andb_true_iff in H2.
  destruct H1 as [Px Pt]. destruct H2 as [Py Pt2].
  rewrite (Hx y Px Py). rewrite (IH t2 Pt Pt2). reflexivity.
Qed.

Lemma bytes_eqb_sym : forall a b, bytes_eqb a b = bytes_eqb b a.
Proof.
  intros a b. destruct (bytes_eqb a b) eqn:E.
  - apply bytes_eqb_eq in E. subst. symmetry. apply bytes_eqb_refl.
  - destruct (bytes_eqb b a) eqn:E2; [|reflexivity].
    apply bytes_eqb_eq in E2. subst. rewrite bytes_eqb_refl in E. discriminate.
Qed.

Theorem py_eq_sym_nf : forall a b, nf_key a = true -> nf_key b = true -> py_eq a b = py_eq b a.
Proof.
  induction a using val_ind'; intros b0 Ha Hb; cbn in Ha; try discriminate;
    destruct b0; cbn in Hb; try discriminate;
    try (apply py_eq_num_sym; reflexivity); cbn [py_eq];
    try reflexivity; try apply bytes_eqb_sym;
    try (cbn; rewrite ?rnum_eqb_int, ?andb_true_r; apply Z.eqb_sym).
  - apply (all2_sym_ext nf_key); assumption.
  - rewrite (bytes_eqb_sym m m0), (bytes_eqb_sym n n0). reflexivity.
  - rewrite (bytes_eqb_sym m m0), (bytes_eqb_sym n n0).
    rewrite (all2_sym_ext nf_key py_eq l H args Ha Hb). reflexivity.
  - apply IHa; assumption.
  - apply N.eqb_sym.
Qed.
