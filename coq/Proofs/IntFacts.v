(* IntFacts.v — decimal text and two's-complement LONG bytes (C19, and the numeric leaves of
   C01 / C03). *)
From Coq Require Import Ascii String.
From Coq Require Import List ZArith NArith Bool Lia.
From Coq.Strings Require Import Byte.
From OgRek Require Import Base GoStrconv BaseFacts.
Import ListNotations.
Open Scope N_scope.

(* ---- decimal --------------------------------------------------------------------------------- *)

Definition dchar (d : N) : byte := N2b (48 + d).

Lemma dchar_digit : forall d, d < 10 -> is_digit (dchar d) = true /\ digit_val (dchar d) = d.
Proof.
  intros d H. unfold is_digit, digit_val, dchar. rewrite b2N_N2b by lia.
  split; [apply andb_true_iff; split; apply N.leb_le; lia|lia].
Qed.

Lemma dec_value_acc_app : forall l1 l2 a, dec_value_acc (l1 ++ l2) a = dec_value_acc l2 (dec_value_acc l1 a).
Proof. induction l1 as [|b t IH]; intros l2 a; cbn; [reflexivity|apply IH]. Qed.

Lemma dec_digits_fuel_spec : forall fuel n acc,
  (0 < fuel)%nat -> n < 2 ^ N.of_nat fuel ->
  exists ds, dec_digits_fuel fuel n acc = ds ++ acc /\ forallb is_digit ds = true /\ ds <> [] /\
             dec_value ds = n.
Proof.
  induction fuel as [|f IH]; intros n acc Hf Hn; [lia|].
  cbn [dec_digits_fuel]. assert (Hd : n mod 10 < 10) by (apply N.mod_lt; lia).
  destruct (dchar_digit (n mod 10) Hd) as [D1 D2]. fold (dchar (n mod 10)).
  destruct (n / 10 =? 0) eqn:E.
  - apply N.eqb_eq in E. exists [dchar (n mod 10)]. cbn. rewrite D1, D2. repeat split; try discriminate.
    pose proof (N.div_mod n 10 ltac:(lia)). lia.
  - apply N.eqb_neq in E.
    assert (Hq : n / 10 < 2 ^ N.of_nat f).
    { rewrite Nat2N.inj_succ, N.pow_succ_r in Hn by lia.
      apply N.div_lt_upper_bound; [lia|]. lia. }
    assert (Hf' : (0 < f)%nat).
    { destruct f; [|lia]. change (2 ^ N.of_nat 0) with 1 in Hq. exfalso. apply E. apply N.lt_1_r. exact Hq. }
    destruct (IH (n / 10) (dchar (n mod 10) :: acc) Hf' Hq) as [ds [E1 [E2 [E3 E4]]]].
    exists (ds ++ [dchar (n mod 10)]). rewrite E1. rewrite <- app_assoc. cbn [app].
    repeat split.
    + rewrite forallb_app, E2. cbn. rewrite D1. reflexivity.
    + destruct ds; discriminate.
    + unfold dec_value in *. rewrite dec_value_acc_app, E4. cbn [dec_value_acc]. rewrite D2.
      pose proof (N.div_mod n 10 ltac:(lia)). lia.
Qed.

Lemma dec_of_N_spec : forall n,
  forallb is_digit (dec_of_N n) = true /\ dec_of_N n <> [] /\ dec_value (dec_of_N n) = n.
Proof.
  intros n. unfold dec_of_N.
  destruct (dec_digits_fuel_spec (S (N.to_nat (N.log2 n))) n [] ltac:(lia)) as [ds [E1 [E2 [E3 E4]]]].
  - rewrite Nat2N.inj_succ, N2Nat.id. destruct n as [|p]; [cbn; lia|]. apply N.log2_spec. lia.
  - rewrite E1, app_nil_r. repeat split; assumption.
Qed.

Lemma digit_not_sign : forall b, is_digit b = true -> beqb b "-"%byte = false /\ beqb b "+"%byte = false.
Proof.
  intros b H. unfold is_digit in H. apply andb_true_iff in H. destruct H as [H1 H2].
  apply N.leb_le in H1. apply N.leb_le in H2. unfold beqb. split; apply N.eqb_neq; cbn; lia.
Qed.

Lemma split_sign_digits : forall b t, is_digit b = true -> split_sign (b :: t) = (false, b :: t).
Proof.
  intros b t H. destruct (digit_not_sign b H) as [N1 N2]. cbn [split_sign]. rewrite N1, N2. reflexivity.
Qed.

Lemma split_sign_minus : forall l, split_sign ("-"%byte :: l) = (true, l).
Proof. reflexivity. Qed.

Lemma parse_dec_Z_dec_of_Z : forall z, parse_dec_Z (dec_of_Z z) = Some z.
Proof.
  intros z. unfold parse_dec_Z, dec_of_Z.
  destruct z as [|p|p].
  - reflexivity.
  - destruct (dec_of_N_spec (Npos p)) as [D1 [D2 D3]].
    destruct (dec_of_N (Npos p)) as [|b t] eqn:E; [contradiction|].
    assert (Db : is_digit b = true) by (cbn in D1; apply andb_true_iff in D1; apply D1).
    rewrite (split_sign_digits b t Db). rewrite D1, D3. reflexivity.
  - destruct (dec_of_N_spec (Npos p)) as [D1 [D2 D3]].
    rewrite split_sign_minus.
    destruct (dec_of_N (Npos p)) as [|b t] eqn:E; [contradiction|].
    rewrite D1, D3. reflexivity.
Qed.

Lemma digit_prefix_all : forall l, forallb is_digit l = true -> digit_prefix l = l.
Proof.
  induction l as [|b t IH]; cbn; intros H; [reflexivity|].
  apply andb_true_iff in H. destruct H as [Hb Ht]. rewrite Hb. f_equal. apply IH. exact Ht.
Qed.

(* strconv.ParseInt on fmt's %d output *)
Lemma parse_int64_dec_of_Z : forall z,
  parse_int64 (dec_of_Z z) = if in_int64 z then PIok z else PIrange.
Proof.
  intros z. unfold parse_int64, dec_of_Z.
  destruct z as [|p|p].
  - reflexivity.
  - destruct (dec_of_N_spec (Npos p)) as [D1 [D2 D3]].
    destruct (dec_of_N (Npos p)) as [|b t] eqn:E; [contradiction|].
    assert (Db : is_digit b = true) by (cbn in D1; apply andb_true_iff in D1; apply D1).
    rewrite (split_sign_digits b t Db).
    rewrite (digit_prefix_all _ D1), Nat.eqb_refl, D3. reflexivity.
  - destruct (dec_of_N_spec (Npos p)) as [D1 [D2 D3]].
    rewrite split_sign_minus.
    destruct (dec_of_N (Npos p)) as [|b t] eqn:E; [contradiction|].
    rewrite (digit_prefix_all _ D1), Nat.eqb_refl, D3. reflexivity.
Qed.

(* ---- decodeLong computes the two's-complement value ------------------------------------------ *)
From OgRek Require Import Value PyEq Reader Decoder.

Lemma pow_pos : forall a b, 0 < a -> 0 < a ^ b.
Proof. intros a b H. pose proof (N.pow_nonzero a b ltac:(lia)). lia. Qed.

Lemma le_decode_app : forall l1 l2,
  le_decode (l1 ++ l2) = le_decode l1 + 256 ^ N.of_nat (length l1) * le_decode l2.
Proof.
  induction l1 as [|b t IH]; intros l2; cbn [app le_decode length].
  - change (N.of_nat 0) with 0. rewrite N.pow_0_r. lia.
  - rewrite IH, Nat2N.inj_succ, N.pow_succ_r by lia. lia.
Qed.

Lemma lastb_split : forall l b, lastb l = Some b -> exists l', l = l' ++ [b].
Proof.
  induction l as [|x t IH]; intros b H; [discriminate|].
  destruct t as [|y t'].
  - cbn in H. inversion H; subst. exists []. reflexivity.
  - change (lastb (x :: y :: t')) with (lastb (y :: t')) in H.
    destruct (IH b H) as [l' E]. exists (x :: l'). rewrite E. reflexivity.
Qed.

Lemma lastb_some : forall l, l <> [] -> exists b, lastb l = Some b.
Proof.
  induction l as [|x t IH]; intros H; [contradiction|].
  destruct t as [|y t']; [exists x; reflexivity|].
  change (lastb (x :: y :: t')) with (lastb (y :: t')). apply IH. discriminate.
Qed.

Lemma le_encode_rev_bytes : forall k fuel n acc,
  n < 256 ^ N.of_nat k -> (k <= fuel)%nat -> (k = 0%nat \/ 256 ^ N.of_nat (k - 1) <= n) ->
  N_bytes_be_fuel fuel n acc = rev (le_encode k n) ++ acc.
Proof.
  induction k as [|k IH]; intros fuel n acc Hn Hf Hk.
  - cbn in Hn. assert (n = 0) by lia. subst. destruct fuel; reflexivity.
  - destruct fuel as [|f]; [lia|]. cbn [N_bytes_be_fuel].
    assert (Hpos : 256 ^ N.of_nat k <= n).
    { destruct Hk as [Hk|Hk]; [discriminate|]. replace (S k - 1)%nat with k in Hk by lia. exact Hk. }
    assert (P : 0 < 256 ^ N.of_nat k) by (apply pow_pos; lia).
    destruct (n =? 0) eqn:E; [apply N.eqb_eq in E; lia|].
    rewrite (IH f (n / 256) (N2b n :: acc)).
    + cbn [le_encode rev]. rewrite <- app_assoc. reflexivity.
    + rewrite Nat2N.inj_succ, N.pow_succ_r in Hn by lia. apply N.div_lt_upper_bound; lia.
    + lia.
    + destruct k as [|k']; [left; reflexivity|right].
      replace (S k' - 1)%nat with k' by lia.
      rewrite Nat2N.inj_succ, N.pow_succ_r in Hpos by lia.
      apply N.div_le_lower_bound; lia.
Qed.

Lemma le_decode_flip : forall l,
  le_decode (map (fun b => N2b (255 - b2N b)) l) + le_decode l + 1 = 256 ^ N.of_nat (length l).
Proof.
  induction l as [|b t IH]; cbn [map le_decode length].
  - reflexivity.
  - pose proof (b2N_lt b). rewrite b2N_N2b by lia.
    rewrite Nat2N.inj_succ, N.pow_succ_r by lia. lia.
Qed.

Definition msb_set (data : bytes) : bool :=
  match lastb data with Some b => 127 <? b2N b | None => false end.

(* the specification: little-endian two's complement *)
Definition twos_complement (data : bytes) : Z :=
  if msb_set data then (Z.of_N (le_decode data) - Z.of_N (256 ^ N.of_nat (length data)))%Z
  else Z.of_N (le_decode data).

Lemma log2_ge_pow256 : forall k a, 256 ^ N.of_nat k <= a -> (k <= N.to_nat (N.log2 a))%nat.
Proof.
  intros k a H.
  assert (E : 256 ^ N.of_nat k = 2 ^ (8 * N.of_nat k)).
  { change 256 with (2 ^ 8). rewrite <- N.pow_mul_r. reflexivity. }
  rewrite E in H.
  assert (P : 0 < 2 ^ (8 * N.of_nat k)) by (apply pow_pos; lia).
  assert (L : 8 * N.of_nat k <= N.log2 a) by (apply N.log2_le_pow2; [lia|exact H]).
  lia.
Qed.

Theorem decode_long_spec : forall data, decode_long data = twos_complement data.
Proof.
  intros data. unfold decode_long, twos_complement, msb_set.
  destruct data as [|b0 t] eqn:Ed; [reflexivity|]. rewrite <- Ed.
  destruct (lastb data) as [bl|] eqn:L.
  2:{ destruct (lastb_some data) as [b Hb]; [subst data; discriminate|]. congruence. }
  destruct (127 <? b2N bl) eqn:M; [|reflexivity].
  apply N.ltb_lt in M.
  destruct (lastb_split _ _ L) as [l' El].
  set (n := length data). set (v := le_decode data).
  assert (Hlen : n = S (length l')) by (unfold n; rewrite El, app_length; cbn; lia).
  assert (Hv : v = le_decode l' + 256 ^ N.of_nat (length l') * b2N bl).
  { unfold v. rewrite El, le_decode_app. cbn [le_decode]. lia. }
  pose proof (le_decode_bound l') as B1. pose proof (b2N_lt bl) as B2.
  assert (P : 0 < 256 ^ N.of_nat (length l')) by (apply pow_pos; lia).
  assert (Hlo : 256 ^ N.of_nat (length l') <= v - 1) by nia.
  assert (Hhi : v - 1 < 256 ^ N.of_nat n).
  { rewrite Hlen, Nat2N.inj_succ, N.pow_succ_r by lia. nia. }
  unfold big_bytes.
  replace (Z.to_N (Z.abs (Z.of_N (v - 1)))) with (v - 1) by (rewrite Z.abs_eq by lia; rewrite N2Z.id; reflexivity).
  rewrite (le_encode_rev_bytes n _ (v - 1) []).
  - rewrite app_nil_r. unfold be_decode. rewrite <- map_rev, rev_involutive.
    pose proof (le_decode_flip (le_encode n (v - 1))) as F.
    rewrite le_encode_length in F. rewrite (le_encode_decode n (v - 1) Hhi) in F.
    lia.
  - exact Hhi.
  - pose proof (log2_ge_pow256 (length l') (v - 1) Hlo). lia.
  - right. rewrite Hlen. replace (S (length l') - 1)%nat with (length l') by lia. exact Hlo.
Qed.

(* ---- every integer opcode form yields a value AsInt64 maps back to the integer (C19) ---------- *)
From OgRek Require Import Typeconv ReaderFacts.

Lemma take_n_exact : forall a rest, take_n (a ++ rest) (Nlen a) = Some (a, rest).
Proof.
  induction a as [|b t IH]; intros rest.
  - cbn [app Nlen length]. destruct rest; reflexivity.
  - cbn [app take_n]. unfold Nlen in *. cbn [length]. rewrite Nat2N.inj_succ.
    destruct (N.succ (N.of_nat (length t)) =? 0) eqn:E; [apply N.eqb_eq in E; lia|].
    rewrite N.pred_succ. rewrite IH. reflexivity.
Qed.

Definition no_lf (l : bytes) : Prop := forallb (fun b => negb (beqb b x0a)) l = true.

Lemma split_line_exact : forall l rest, no_lf l -> split_line (l ++ x0a :: rest) = Some (l, rest).
Proof.
  induction l as [|b t IH]; intros rest H; cbn [app split_line].
  - rewrite beqb_refl. reflexivity.
  - unfold no_lf in H. cbn in H. apply andb_true_iff in H. destruct H as [Hb Ht].
    apply negb_true_iff in Hb. rewrite Hb. rewrite (IH rest Ht). reflexivity.
Qed.

Lemma digits_no_lf : forall l, forallb is_digit l = true -> no_lf l.
Proof.
  intros l H. unfold no_lf. rewrite forallb_forall in *. intros b Hb. specialize (H b Hb).
  unfold is_digit in H. apply andb_true_iff in H. destruct H as [H1 H2].
  apply N.leb_le in H1. apply negb_true_iff. unfold beqb. apply N.eqb_neq. cbn. lia.
Qed.

Lemma dec_of_Z_no_lf : forall z, no_lf (dec_of_Z z).
Proof.
  intros z. destruct z as [|p|p]; cbn [dec_of_Z].
  - reflexivity.
  - apply digits_no_lf. apply dec_of_N_spec.
  - unfold no_lf. cbn [forallb]. change (negb (beqb "-" x0a)) with true. cbn [andb].
    apply digits_no_lf. apply dec_of_N_spec.
Qed.

(* the decimal text of an integer is never the bool spellings "00" / "01" *)
Lemma dec_of_Z_not_bool : forall z,
  bytes_eqb (dec_of_Z z) (bs "00") = false /\ bytes_eqb (dec_of_Z z) (bs "01") = false.
Proof.
  intros z.
  assert (H : forall s, (s = bs "00" \/ s = bs "01") -> dec_of_Z z <> s).
  { intros s Hs E. pose proof (parse_dec_Z_dec_of_Z z) as P. rewrite E in P.
    destruct Hs as [-> | ->]; cbn in P; inversion P as [Pz]; subst z; cbn in E; discriminate. }
  split.
  - destruct (bytes_eqb (dec_of_Z z) (bs "00")) eqn:E; [|reflexivity].
    apply bytes_eqb_eq in E. exfalso. eapply H; [left; reflexivity|exact E].
  - destruct (bytes_eqb (dec_of_Z z) (bs "01")) eqn:E; [|reflexivity].
    apply bytes_eqb_eq in E. exfalso. eapply H; [right; reflexivity|exact E].
Qed.

Definition as_int64_ok (v : val) (z : Z) : Prop :=
  as_int64 v = if in_int64 z then Some z else None.

(* INT <decimal>\n *)
Theorem int_text_form : forall cfg key insn st z rest,
  exists v st', run (handler cfg OInt key insn st) (dec_of_Z z ++ x0a :: rest) = (Ok (HOk (push v st')), rest)
                /\ as_int64_ok v z.
Proof.
  intros cfg key insn st z rest. cbn [handler run].
  rewrite (split_line_exact _ rest (dec_of_Z_no_lf z)).
  destruct (dec_of_Z_not_bool z) as [N0 N1]. rewrite N0, N1.
  rewrite parse_int64_dec_of_Z. unfold as_int64_ok.
  destruct (in_int64 z) eqn:R.
  - exists (VInt z), st. split; [reflexivity|]. cbn. reflexivity.
  - rewrite parse_dec_Z_dec_of_Z. cbn. eexists. eexists. split; [reflexivity|]. cbn. rewrite R. reflexivity.
Qed.

(* LONG <decimal>L\n *)
Lemma lastb_app_one : forall l b, lastb (l ++ [b]) = Some b.
Proof.
  induction l as [|x t IH]; intros b; [reflexivity|].
  cbn [app]. destruct (t ++ [b]) eqn:E; [destruct t; discriminate|]. rewrite <- E.
  change (lastb (x :: t ++ [b])) with (match t ++ [b] with [] => Some x | _ => lastb (t ++ [b]) end).
  rewrite E. rewrite <- E. apply IH.
Qed.

Theorem long_text_form : forall cfg key insn st z rest,
  exists v st', run (handler cfg OLong key insn st) (dec_of_Z z ++ x4c :: x0a :: rest) = (Ok (HOk (push v st')), rest)
                /\ as_int64_ok v z.
Proof.
  intros cfg key insn st z rest. cbn [handler run].
  replace (dec_of_Z z ++ x4c :: x0a :: rest) with ((dec_of_Z z ++ [x4c]) ++ x0a :: rest)
    by (rewrite <- app_assoc; reflexivity).
  rewrite split_line_exact.
  2:{ unfold no_lf. rewrite forallb_app. rewrite (dec_of_Z_no_lf z). reflexivity. }
  rewrite lastb_app_one. change (negb (beqb x4c "L")) with false. cbn match.
  rewrite removelast_last, parse_dec_Z_dec_of_Z. cbn.
  eexists. eexists. split; [reflexivity|]. unfold as_int64_ok. cbn. destruct (in_int64 z); reflexivity.
Qed.

(* BININT1 / BININT2 / BININT *)
Theorem binint1_form : forall cfg key insn st n rest, n < 256 ->
  run (handler cfg OBinint1 key insn st) (N2b n :: rest) = (Ok (HOk (push (VInt (Z.of_N n)) st)), rest).
Proof.
  intros cfg key insn st n rest H. cbn [handler run]. unfold b2Z. rewrite b2N_N2b by exact H. reflexivity.
Qed.

Theorem binint2_form : forall cfg key insn st n rest, n < 65536 ->
  run (handler cfg OBinint2 key insn st) (le_encode 2 n ++ rest) = (Ok (HOk (push (VInt (Z.of_N n)) st)), rest).
Proof.
  intros cfg key insn st n rest H. cbn [handler run].
  change 2 with (Nlen (le_encode 2 n)). rewrite take_n_exact.
  cbn [run ok]. rewrite le_encode_decode by (cbn; lia). reflexivity.
Qed.

Lemma wrap_s32_roundtrip : forall z, (-2147483648 <= z <= 2147483647)%Z ->
  wrap_s 32 (Z.of_N (Z.to_N (wrap_u 32 z))) = z.
Proof.
  intros z H. unfold wrap_s, wrap_u. change (Z.of_N (2 ^ 32)) with 4294967296%Z.
  pose proof (Z.mod_pos_bound z 4294967296 ltac:(lia)) as B.
  rewrite Z2N.id by lia. rewrite Z.mod_mod by lia.
  destruct (z mod 4294967296 <? 4294967296 / 2)%Z eqn:E.
  - apply Z.ltb_lt in E. change (4294967296 / 2)%Z with 2147483648%Z in E.
    destruct (Z_lt_le_dec z 0) as [Neg|Pos].
    + assert (z mod 4294967296 = z + 4294967296)%Z.
      { symmetry. apply (Z.mod_unique z 4294967296 (-1) (z + 4294967296)); lia. }
      lia.
    + apply Z.mod_small. lia.
  - apply Z.ltb_ge in E. change (4294967296 / 2)%Z with 2147483648%Z in E.
    destruct (Z_lt_le_dec z 0) as [Neg|Pos].
    + assert (z mod 4294967296 = z + 4294967296)%Z.
      { symmetry. apply (Z.mod_unique z 4294967296 (-1) (z + 4294967296)); lia. }
      lia.
    + rewrite Z.mod_small in E by lia. lia.
Qed.

Theorem binint_form : forall cfg key insn st z rest, (-2147483648 <= z <= 2147483647)%Z ->
  run (handler cfg OBinint key insn st) (le_encode 4 (Z.to_N (wrap_u 32 z)) ++ rest)
  = (Ok (HOk (push (VInt z) st)), rest).
Proof.
  intros cfg key insn st z rest H. cbn [handler run].
  change 4 with (Nlen (le_encode 4 (Z.to_N (wrap_u 32 z)))). rewrite take_n_exact. cbn [run ok].
  rewrite le_encode_decode.
  - rewrite wrap_s32_roundtrip by exact H. reflexivity.
  - unfold wrap_u. change (Z.of_N (2 ^ 32)) with 4294967296%Z.
    pose proof (Z.mod_pos_bound z 4294967296 ltac:(lia)). change (256 ^ N.of_nat 4) with 4294967296. lia.
Qed.

(* LONG1 <n> <n bytes>: the value is the two's complement reading of the bytes *)
Theorem long1_form : forall cfg key insn st data rest, Nlen data < 256 ->
  exists st', run (handler cfg OLong1 key insn st) (N2b (Nlen data) :: data ++ rest)
              = (Ok (HOk (push (VBig (d_next st) (twos_complement data)) st')), rest)
              /\ as_int64_ok (VBig (d_next st) (twos_complement data)) (twos_complement data).
Proof.
  intros cfg key insn st data rest H. cbn [handler run].
  rewrite b2N_N2b by exact H. rewrite take_n_exact. cbn [run]. rewrite decode_long_spec.
  eexists. split; [reflexivity|]. unfold as_int64_ok. cbn. destruct (in_int64 _); reflexivity.
Qed.
