(* DecoderFacts.v — the decoder never panics, always makes progress, reports unsupported
   opcodes, and is prefix-monotone (C04, C10). *)
From Coq Require Import Ascii String.
From Coq Require Import List ZArith NArith Bool Lia.
From Coq.Strings Require Import Byte.
From OgRek Require Import Base Utf8 GoStrconv PyQuote Float Value PyEq Dict Reader Decoder.
From OgRek Require Import BaseFacts ReaderFacts CodecFacts.
Import ListNotations.
Open Scope N_scope.

(* ---- every handler is panic-free and reports short input as ErrUnexpectedEOF ------------ *)

Ltac prog_cases P :=
  repeat match goal with
  | |- forall _, _ => intro
  | |- _ /\ _ => split
  | |- P _ (match ?x with _ => _ end) => destruct x
  | |- P _ (let '(_, _) := ?x in _) => destruct x
  | |- P _ (RdLine _) => cbn [P]
  | |- P _ (RdN _ _ _) => cbn [P]
  | |- P _ (RdByte _ _) => cbn [P]
  | |- P _ (Ret _) => exact I
  | |- P _ (ok _) => exact I
  | |- P _ (fail _ _) => exact I
  | |- EUnexpectedEOF = EUnexpectedEOF => reflexivity
  end.

Lemma memo_top_nopanic : forall st k, nopanic (memo_top st k).
Proof. intros. unfold memo_top. prog_cases @nopanic. Qed.
Lemma tuple_n_nopanic : forall st n, nopanic (tuple_n st n).
Proof. intros. unfold tuple_n. prog_cases @nopanic. Qed.
Lemma do_reduce_nopanic : forall st m n a, nopanic (do_reduce st m n a).
Proof. intros. unfold do_reduce. prog_cases @nopanic. Qed.
Lemma handle_ref_nopanic : forall cfg st p, nopanic (handle_ref cfg st p).
Proof. intros. unfold handle_ref. prog_cases @nopanic. Qed.

Lemma memo_top_ueof : forall st k, ueof_only (memo_top st k).
Proof. intros. unfold memo_top. prog_cases @ueof_only. Qed.
Lemma tuple_n_ueof : forall st n, ueof_only (tuple_n st n).
Proof. intros. unfold tuple_n. prog_cases @ueof_only. Qed.
Lemma do_reduce_ueof : forall st m n a, ueof_only (do_reduce st m n a).
Proof. intros. unfold do_reduce. prog_cases @ueof_only. Qed.
Lemma handle_ref_ueof : forall cfg st p, ueof_only (handle_ref cfg st p).
Proof. intros. unfold handle_ref. prog_cases @ueof_only. Qed.

Ltac helper_np :=
  first [ apply memo_top_nopanic | apply tuple_n_nopanic | apply do_reduce_nopanic
        | apply handle_ref_nopanic ].
Ltac helper_ue :=
  first [ apply memo_top_ueof | apply tuple_n_ueof | apply do_reduce_ueof
        | apply handle_ref_ueof ].

Lemma handler_nopanic : forall cfg op key insn st, nopanic (handler cfg op key insn st).
Proof.
  intros cfg op key insn st.
  destruct op; cbn [handler]; try solve [prog_cases @nopanic; try helper_np].
  - (* STRING: the escape decoder cannot panic *)
    cbn [nopanic]. intros line.
    repeat match goal with
    | |- nopanic (match pydecode_string_escape ?x with _ => _ end) =>
        destruct (pydecode_string_escape_good x) as [G1 G2];
        destruct (pydecode_string_escape x); try contradiction; exact I
    | |- nopanic (match ?x with _ => _ end) => destruct x
    | |- nopanic (fail _ _) => exact I
    end.
  - (* UNICODE *)
    cbn [nopanic]. intros line.
    destruct (pydecode_raw_unicode_escape_good line) as [G1 G2].
    destruct (pydecode_raw_unicode_escape line); try contradiction; exact I.
Qed.

Lemma handler_ueof : forall cfg op key insn st, ueof_only (handler cfg op key insn st).
Proof.
  intros cfg op key insn st.
  destruct op; cbn [handler]; prog_cases @ueof_only; try helper_ue; try exact I.
Qed.

(* ---- the instruction loop -------------------------------------------------------------- *)

Lemma decode_loop_S : forall f cfg insn st,
  decode_loop (S f) cfg insn st =
  RdByte (if insn =? 0 then EEOF else EUnexpectedEOF) (fun key =>
    match opcode_of_byte key with
    | None => Ret (Err (EOpcode key (insn + 1)), st)
    | Some op =>
        if is_stop op then Ret (pop_user st)
        else bind (handler cfg op key (insn + 1) st) (fun o =>
               match o with
               | HOk st' => decode_loop f cfg (insn + 1) st'
               | HErr st' e => Ret (Err e, st')
               end)
    end).
Proof. reflexivity. Qed.

(* C04: no panic, and fuel (length inp + 1) is never exhausted *)
Lemma loop_safe : forall fuel cfg insn st inp,
  (length inp < fuel)%nat -> ~ bad_outcome (fst (run (decode_loop fuel cfg insn st) inp)).
Proof.
  induction fuel as [|f IH]; intros cfg insn st inp Hl; [lia|].
  rewrite decode_loop_S. cbn [run]. destruct inp as [|key t]; cbn [fst].
  - intros [C|C]; discriminate.
  - destruct (opcode_of_byte key) as [op|]; [|cbn; intros [C|C]; discriminate].
    destruct (is_stop op); [cbn; intros [C|C]; discriminate|].
    rewrite run_bind.
    pose proof (nopanic_run _ _ (handler_nopanic cfg op key (insn + 1) st) t) as NP.
    destruct (run (handler cfg op key (insn + 1) st) t) as [r rest] eqn:R. cbn [fst] in NP.
    destruct r as [o|e| |].
    + destruct o as [st'|st' e]; [|cbn; intros [C|C]; discriminate].
      apply IH. apply run_len in R. cbn in Hl. lia.
    + cbn; intros [C|C]; discriminate.
    + exfalso. apply NP. left. reflexivity.
    + exfalso. apply NP. right. reflexivity.
Qed.

Lemma loop_fuel_mono : forall f1 f2 cfg insn st inp r rest,
  (f1 <= f2)%nat -> run (decode_loop f1 cfg insn st) inp = (r, rest) -> r <> OutOfFuel ->
  run (decode_loop f2 cfg insn st) inp = (r, rest).
Proof.
  induction f1 as [|f1 IH]; intros f2 cfg insn st inp r rest Hle H Hr.
  - cbn in H. inversion H; subst. contradiction.
  - destruct f2 as [|f2]; [lia|]. rewrite decode_loop_S in *. cbn [run] in *.
    destruct inp as [|key t]; [exact H|].
    destruct (opcode_of_byte key) as [op|]; [|exact H].
    destruct (is_stop op); [exact H|].
    rewrite run_bind in *.
    destruct (run (handler cfg op key (insn + 1) st) t) as [[o|e| |] rest0]; try exact H.
    destruct o as [st'|st' e]; [|exact H].
    apply IH; [lia|exact H|exact Hr].
Qed.

Definition is_nil {A} (l : list A) : bool := match l with [] => true | _ => false end.

(* C10: prefix-monotonicity of the whole loop *)
Lemma loop_prefix : forall fuel cfg insn st q t r rest,
  run (decode_loop fuel cfg insn st) (q ++ t) = (r, rest) ->
  (exists rest', run (decode_loop fuel cfg insn st) q = (r, rest') /\ rest = rest' ++ t)
  \/ run (decode_loop fuel cfg insn st) q =
       (Err (if (insn =? 0) && is_nil q then EEOF else EUnexpectedEOF), []).
Proof.
  induction fuel as [|f IH]; intros cfg insn st q t r rest H.
  - cbn in *. inversion H; subst. left. exists q. split; reflexivity.
  - rewrite decode_loop_S in *. cbn [run] in *.
    destruct q as [|key q']; cbn [app is_nil] in *.
    + right. rewrite andb_true_r. reflexivity.
    + rewrite andb_false_r.
      destruct (opcode_of_byte key) as [op|].
      2:{ cbn in *. inversion H; subst. left. exists q'. split; reflexivity. }
      destruct (is_stop op).
      { cbn in *. inversion H; subst. left. exists q'. split; reflexivity. }
      rewrite run_bind in *.
      destruct (run (handler cfg op key (insn + 1) st) (q' ++ t)) as [rh resth] eqn:R.
      destruct (run_prefix _ _ (handler_ueof cfg op key (insn + 1) st) _ _ _ _ R)
        as [[rest2 [R2 E2]]|R2]; rewrite R2.
      * subst resth. destruct rh as [o|e| |].
        -- destruct o as [st'|st' e].
           ++ apply IH in H. destruct H as [H|H]; [left; exact H|].
              right. rewrite H.
              assert (E : (insn + 1 =? 0) = false) by (apply N.eqb_neq; lia).
              rewrite E. reflexivity.
           ++ cbn in *. inversion H; subst. left. exists rest2. split; reflexivity.
        -- inversion H; subst. left. exists rest2. split; reflexivity.
        -- inversion H; subst. left. exists rest2. split; reflexivity.
        -- inversion H; subst. left. exists rest2. split; reflexivity.
      * right. reflexivity.
Qed.

(* ---- Decode ------------------------------------------------------------------------------ *)

Definition val_or_err (r : res val) : Prop := (exists v, r = Ok v) \/ (exists e, r = Err e).

Lemma pop_user_shape : forall st, val_or_err (fst (pop_user st)).
Proof.
  intros st. unfold pop_user. destruct (d_stack st) as [|v t]; cbn.
  - right. eexists. reflexivity.
  - destruct (is_mark v); cbn; [right|left]; eexists; reflexivity.
Qed.

(* the loop's own result is a value or an error (Panic / OutOfFuel only arise in run) *)
Lemma loop_shape : forall fuel cfg insn st inp r st' rest,
  run (decode_loop fuel cfg insn st) inp = (Ok (r, st'), rest) -> val_or_err r.
Proof.
  induction fuel as [|f IH]; intros cfg insn st inp r st' rest H.
  - cbn in H. discriminate.
  - rewrite decode_loop_S in H. cbn [run] in H. destruct inp as [|key t]; [discriminate|].
    destruct (opcode_of_byte key) as [op|].
    2:{ cbn in H. inversion H; subst. right. eexists. reflexivity. }
    destruct (is_stop op).
    { cbn in H. inversion H. pose proof (pop_user_shape st) as P.
      destruct (pop_user st) as [r0 s0]. cbn in *. inversion H1; subst. exact P. }
    rewrite run_bind in H.
    destruct (run (handler cfg op key (insn + 1) st) t) as [[o|e| |] rest0]; try discriminate.
    destruct o as [st1|st1 e].
    + eapply IH. exact H.
    + cbn in H. inversion H; subst. right. eexists. reflexivity.
Qed.

Lemma decode_safe : forall cfg st inp,
  fst (fst (decode cfg st inp)) <> Panic /\ fst (fst (decode cfg st inp)) <> OutOfFuel.
Proof.
  intros cfg st inp. unfold decode.
  pose proof (loop_safe (S (length inp)) cfg 0 (start_state st) inp ltac:(lia)) as LS.
  destruct (run (decode_loop (S (length inp)) cfg 0 (start_state st)) inp) as [[[r st']|e| |] rest] eqn:R;
    cbn [fst] in *.
  - apply loop_shape in R. destruct R as [[v ->]|[e ->]]; split; discriminate.
  - split; discriminate.
  - exfalso. apply LS. left. reflexivity.
  - exfalso. apply LS. right. reflexivity.
Qed.

(* an unsupported opcode byte is reported as OpcodeError{byte, instruction index} *)
Lemma loop_unknown_opcode : forall f cfg insn st b rest,
  opcode_of_byte b = None ->
  run (decode_loop (S f) cfg insn st) (b :: rest) = (Ok (Err (EOpcode b (insn + 1)), st), rest).
Proof. intros. rewrite decode_loop_S. cbn [run]. rewrite H. reflexivity. Qed.

Definition not_implemented (op : opcode) : bool :=
  match op with OPopMark | OBuild | OInst | OObj => true | _ => false end.

Lemma loop_not_implemented : forall f cfg insn st b op rest,
  opcode_of_byte b = Some op -> not_implemented op = true ->
  run (decode_loop (S f) cfg insn st) (b :: rest) = (Ok (Err (EOpcode b (insn + 1)), st), rest).
Proof.
  intros f cfg insn st b op rest H N. rewrite decode_loop_S. cbn [run]. rewrite H.
  destruct op; try discriminate; reflexivity.
Qed.

Lemma loop_bad_proto : forall f cfg insn st v rest,
  5 < b2N v ->
  run (decode_loop (S f) cfg insn st) (x80 :: v :: rest) = (Ok (Err EBadVersion, st), rest).
Proof.
  intros f cfg insn st v rest H. rewrite decode_loop_S. cbn [run].
  change (opcode_of_byte x80) with (Some OProto). cbn [is_stop handler bind run].
  apply N.ltb_lt in H. rewrite H. reflexivity.
Qed.

(* the set of opcode bytes the decoder dispatches on *)
Definition supported_bytes : list N :=
  [40;46;48;49;50;70;73;74;75;76;77;78;80;81;82;83;84;85;86;88;97;98;99;100;125;101;103;104;
   105;138;137;136;106;108;93;111;112;113;114;115;116;133;134;135;41;117;71;66;67;149;140;147;
   148;150;151;152;128].

Lemma opcode_of_byte_none_iff : forall b,
  opcode_of_byte b = None <-> ~ In (b2N b) supported_bytes.
Proof.
  assert (H : forallb (fun b => Bool.eqb (match opcode_of_byte b with None => true | _ => false end)
                                         (negb (existsb (N.eqb (b2N b)) supported_bytes)))
                      all_bytes = true) by (vm_compute; reflexivity).
  intros b. pose proof (forall_bytes _ H b) as Hb. cbn beta in Hb.
  apply Bool.eqb_prop in Hb. split.
  - intros E. rewrite E in Hb. symmetry in Hb. apply negb_true_iff in Hb.
    intros I. assert (X : existsb (N.eqb (b2N b)) supported_bytes = true).
    { apply existsb_exists. exists (b2N b). split; [exact I|apply N.eqb_refl]. }
    congruence.
  - intros NI. destruct (opcode_of_byte b); [|reflexivity]. symmetry in Hb.
    apply negb_false_iff in Hb. apply existsb_exists in Hb. destruct Hb as [x [I E]].
    apply N.eqb_eq in E. subst. contradiction.
Qed.

(* C10 at the level of Decode *)
Lemma decode_truncated : forall cfg st p v st',
  decode cfg st p = ((Ok v, st'), []) ->
  forall q t, p = q ++ t -> t <> [] ->
  exists st'', decode cfg st q = ((Err (if is_nil q then EEOF else EUnexpectedEOF), st''), []).
Proof.
  intros cfg st p v st' H q t Hp Ht. unfold decode in *.
  destruct (run (decode_loop (S (length p)) cfg 0 (start_state st)) p) as [rp restp] eqn:R.
  assert (Hrp : rp = Ok (Ok v, st') /\ restp = []).
  { destruct rp as [[r0 s0]|e| |]; inversion H; subst; split; reflexivity. }
  destruct Hrp as [-> ->]. subst p.
  destruct (loop_prefix _ _ _ _ _ _ _ _ R) as [[rest' [R' E]]|R'].
  - symmetry in E. apply app_eq_nil in E. destruct E as [_ E]. contradiction.
  - (* the same outcome with the smaller fuel Decode uses on q *)
    pose proof (loop_safe (S (length q)) cfg 0 (start_state st) q ltac:(lia)) as LS.
    destruct (run (decode_loop (S (length q)) cfg 0 (start_state st)) q) as [rq restq] eqn:Rq.
    cbn [fst] in LS.
    assert (Hmono : run (decode_loop (S (length (q ++ t))) cfg 0 (start_state st)) q = (rq, restq)).
    { eapply loop_fuel_mono; [|exact Rq|].
      - rewrite app_length. lia.
      - intro C. apply LS. right. exact C. }
    rewrite R' in Hmono. inversion Hmono; subst. cbn [N.eqb andb].
    eexists. reflexivity.
Qed.
