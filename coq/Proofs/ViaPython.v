(* ViaPython.v — Decode(Encode(v)) for every value the documented type table covers, maps, Dicts and
   structs included: Encode's program loads, on the CPython machine, to an object graph that unfolds
   to the documented Python value (C01 + LiftFacts), and Decode returns a Go value standing for that
   graph (C06 simulation; the program has no APPEND, so the stale-view case cannot arise). *)
From Coq Require Import Ascii String.
From Coq Require Import List ZArith NArith Bool Lia.
From Coq.Strings Require Import Byte.
From OgRek Require Import Base Value Reader Decoder Encoder Norm Insn EncProg PyVM PyVal PyVM2.
From OgRek Require Import BaseFacts EncoderFacts ExecFacts ProgFacts RoundTrip PyFacts SimFacts LiftFacts.
Import ListNotations.
Open Scope N_scope.

Lemma emitted_simple : forall i, emitted i = true -> is_simple i = true /\ no_append i = true.
Proof. intros i H. destruct i; try discriminate H; split; reflexivity. Qed.

Lemma forallb_of_Forall : forall A (f g : A -> bool) l, (forall a, f a = true -> g a = true) ->
  Forall (fun a => f a = true) l -> forallb g l = true.
Proof. intros A f g l H F. induction F; [reflexivity|]. cbn. rewrite (H x H0), IHF. reflexivity. Qed.

Lemma program_shape : forall c v,
  forallb prog_ok (program c v) = true /\ forallb no_append (program c v) = true.
Proof.
  intros c v. unfold program. rewrite !forallb_app.
  pose proof (body_emitted c v) as B.
  assert (B1 : forallb prog_ok (body c v) = true).
  { eapply forallb_of_Forall; [|exact B]. intros i Hi. destruct (emitted_simple i Hi) as [S _].
    unfold prog_ok. rewrite S. reflexivity. }
  assert (B2 : forallb no_append (body c v) = true).
  { eapply forallb_of_Forall; [|exact B]. intros i Hi. exact (proj2 (emitted_simple i Hi)). }
  rewrite B1, B2. destruct (2 <=? e_proto c)%Z; split; reflexivity.
Qed.

Theorem encode_decode_python : forall c pd v x rest,
  (0 <= e_proto c <= 5)%Z -> pyval_of c v = Some x ->
  exists ws q pstf,
    run_w (encode c v) None = (ws, EOk) /\
    qload (program c v) = Some (q, pstf) /\ U (q_heap pstf) x q /\
    ((exists v' st' b' after,
         decode (dcfg_of c pd) init_state (concat ws ++ rest) = ((Ok v', st'), after) /\
         R pd (e_strict c) b' (q_heap pstf) v' q /\ Core pd (e_strict c) b' st' pstf)
     \/ (pd = false /\ exists e st' after,
           decode (dcfg_of c pd) init_state (concat ws ++ rest) = ((Err e, st'), after))).
Proof.
  intros c pd v x rest Hp Hv.
  destruct (encode_loads c v x Hp Hv) as [ws [Hw [Hb Hl]]].
  destruct (program_shape c v) as [Ok1 Ok2].
  destruct (lift_load (program c v) x Ok1 Hl) as [q [pstf [Hq Hu]]].
  exists ws, q, pstf. split; [exact Hw|]. split; [exact Hq|]. split; [exact Hu|].
  rewrite Hb. unfold dcfg_of.
  exact (decode_sim_clean pd (e_strict c) (program c v) q pstf rest Ok2 Hq).
Qed.
