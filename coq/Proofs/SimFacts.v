(* SimFacts.v — C06: the decoder model on the bytes of an instruction list simulates the CPython
   machine PyVM2 on that list.  Part 1: leaf instructions. *)
From Coq Require Import Ascii String.
From Coq Require Import List ZArith NArith Bool Lia.
From Coq.Strings Require Import Byte.
From OgRek Require Import Base Utf8 GoStrconv PyQuote Float Value PyEq Dict Reader Decoder Typeconv Encoder Norm Insn PyVM PyVM2.
From OgRek Require Import BaseFacts ReaderFacts CodecFacts IntFacts DecoderFacts ExecFacts ProgFacts RoundTrip.
Import ListNotations.
Open Scope N_scope.

(* ---- leaf forms the encoder never emits -------------------------------------------------------- *)

Lemma no_lf_bool : forall s, PyVM.no_lf s = true -> IntFacts.no_lf s.
Proof. intros s H. exact H. Qed.

Lemma push_persid_leaf : forall pd su t, IntFacts.no_lf t ->
  pushes_leaf (Build_dconfig pd su None) (x50 :: t ++ [x0a]) (TRef (TStr t)).
Proof.
  intros pd su t Hn i st rest. cbn [app]. rewrite <- app_assoc. cbn [app].
  eexists; eexists; eexists. split.
  - eapply exec_one; [reflexivity|reflexivity|]. cbn [handler run]. rewrite (split_line_exact _ rest Hn). reflexivity.
  - repeat split; try reflexivity; cbn; lia.
Qed.

Lemma push_empty_tuple_leaf : forall cfg, pushes_leaf cfg [x29] (TTuple []).
Proof.
  intros cfg i st rest. eexists; eexists; eexists. split; [eapply exec_one; reflexivity|].
  repeat split; try reflexivity; cbn; lia.
Qed.

Lemma push_string_leaf : forall cfg q0 r q1 b,
  lastb r = Some q1 -> beqb q0 q1 = true -> (beqb q0 "'"%byte || beqb q0 """"%byte) = true ->
  IntFacts.no_lf (q0 :: r) -> pydecode_string_escape (removelast r) = Ok b ->
  pushes_leaf cfg (x53 :: (q0 :: r) ++ [x0a]) (bytestring_t cfg b).
Proof.
  intros cfg q0 r q1 b Hl Hq Hquote Hn Hp i st rest. cbn [app]. rewrite <- app_assoc. cbn [app].
  assert (R : run (handler cfg OString x53 (i + 1) st) (q0 :: r ++ x0a :: rest) =
              (Ok (HOk (push_bytestring cfg b st)), rest)).
  { cbn [handler run]. change (q0 :: r ++ x0a :: rest) with ((q0 :: r) ++ x0a :: rest).
    rewrite (split_line_exact _ rest Hn).
    destruct r as [|r0 r']; [discriminate|]. rewrite Hquote. cbn [negb]. rewrite Hl.
    assert (E : beqb q1 q0 = true).
    { unfold beqb in *. apply N.eqb_eq in Hq. apply N.eqb_eq. symmetry. exact Hq. }
    rewrite E. cbn [negb]. rewrite Hp. reflexivity. }
  unfold push_bytestring in R. unfold bytestring_t.
  destruct (c_strict cfg); (eexists; eexists; eexists; split;
    [eapply exec_one; [reflexivity|reflexivity|exact R]|repeat split; try reflexivity; cbn; lia]).
Qed.

(* ---- arithmetic of the fixed-width forms, for arbitrary instruction arguments ------------------- *)

Lemma le_encode_mod : forall k v, le_encode k (v mod 256 ^ N.of_nat k) = le_encode k v.
Proof.
  induction k as [|k IH]; intros v; [reflexivity|]. cbn [le_encode].
  replace (256 ^ N.of_nat (S k)) with (256 * 256 ^ N.of_nat k) by (rewrite Nat2N.inj_succ, N.pow_succ_r'; reflexivity).
  assert (P : 0 < 256 ^ N.of_nat k) by (apply N.neq_0_lt_0; apply N.pow_nonzero; discriminate).
  f_equal.
  - rewrite <- (N2b_mod (v mod (256 * 256 ^ N.of_nat k))), <- (N2b_mod v). f_equal.
    rewrite N.mod_mul_r by lia. rewrite N.mul_comm, N.mod_add by lia. apply N.mod_mod. lia.
  - rewrite <- (IH (v / 256)). f_equal.
    rewrite N.mod_mul_r by lia. rewrite N.mul_comm, N.div_add by lia.
    rewrite (N.div_small (v mod 256) 256) by (apply N.mod_lt; lia). reflexivity.
Qed.

Definition signed32 (u : N) : Z := if u <? 2147483648 then Z.of_N u else (Z.of_N u - 4294967296)%Z.

Lemma signed32_range : forall u, u < 4294967296 -> (-2147483648 <= signed32 u <= 2147483647)%Z.
Proof. intros u H. unfold signed32. destruct (u <? 2147483648) eqn:E; [apply N.ltb_lt in E|apply N.ltb_ge in E]; lia. Qed.

Lemma wrap_signed32 : forall u, u < 4294967296 -> Z.to_N (wrap_u 32 (signed32 u)) = u.
Proof.
  intros u H. unfold wrap_u, signed32. change (Z.of_N (2 ^ 32)) with 4294967296%Z.
  destruct (u <? 2147483648) eqn:E.
  - rewrite Z.mod_small by lia. lia.
  - apply N.ltb_ge in E.
    assert (M : ((Z.of_N u - 4294967296) mod 4294967296 = Z.of_N u)%Z).
    { symmetry. apply Z.mod_unique with (q := (-1)%Z); lia. }
    rewrite M. lia.
Qed.

(* ---- what a leaf instruction pushes, on both machines --------------------------------------------- *)

Definition tv_rel (cfg : dconfig) (t : tval) (v : pv) : Prop :=
  match v with
  | PNone => t = TNone
  | PBool b => t = TBool b
  | PInt z => t = TInt z \/ t = TBig z
  | PFloat f => t = TFloat f
  | PUni s => t = TStr s
  | PStr s => t = if c_strict cfg then TBStr s else TStr s
  | PBytes s => t = TBytes s
  | PBArr s => t = TBArr s
  | PTuple [] => t = TTuple []
  | PGlobal m n => t = TClass m n
  | PPers (PUni s) => t = TRef (TStr s)
  | _ => False
  end.

Lemma forallb_float_no_lf : forall t, forallb float_char t = true -> IntFacts.no_lf t.
Proof.
  intros t H. unfold IntFacts.no_lf. rewrite forallb_forall in *. intros b Hb. specialize (H b Hb).
  destruct (beqb b x0a) eqn:E; [|reflexivity].
  assert (b = x0a) by (unfold beqb in E; apply N.eqb_eq in E; apply b2N_inj; exact E). subst b. discriminate.
Qed.

Lemma bytes_eqb_true : forall a b, bytes_eqb a b = true -> a = b.
Proof. intros a b H. apply bytes_eqb_eq. exact H. Qed.

Lemma leaf_sim : forall pd su i pr v,
  is_leaf i = true -> pstep pr i [] = Some [PObj v] ->
  exists t, pushes_leaf (Build_dconfig pd su None) (asm i) t /\ tv_rel (Build_dconfig pd su None) t v.
Proof.
  intros pd su i pr v L H. set (cfg := Build_dconfig pd su None).
  destruct i; try discriminate L; cbn [pstep push1] in H; cbn [asm].
  - (* NONE *) inversion H; subst. exists TNone. split; [apply push_none_leaf|reflexivity].
  - inversion H; subst. exists (TBool true). split; [apply (push_newbool_leaf cfg true)|reflexivity].
  - inversion H; subst. exists (TBool false). split; [apply (push_newbool_leaf cfg false)|reflexivity].
  - (* INT *)
    destruct (bytes_eqb text (bs "00")) eqn:E0.
    { inversion H; subst. apply bytes_eqb_true in E0. subst text. exists (TBool false).
      split; [apply (push_textbool_leaf cfg false)|reflexivity]. }
    destruct (bytes_eqb text (bs "01")) eqn:E1.
    { inversion H; subst. apply bytes_eqb_true in E1. subst text. exists (TBool true).
      split; [apply (push_textbool_leaf cfg true)|reflexivity]. }
    unfold int_text in H. destruct (parse_dec_Z text) as [z|] eqn:P; [|discriminate].
    destruct (bytes_eqb text (dec_of_Z z)) eqn:Ec; [|discriminate]. inversion H; subst.
    apply bytes_eqb_true in Ec. subst text.
    exists (if in_int64 z then TInt z else TBig z). split; [apply push_int_text_leaf|].
    cbn. destruct (in_int64 z); [left|right]; reflexivity.
  - (* BININT1 *)
    inversion H; subst. exists (TInt (Z.of_N (n mod 256))). split; [|left; reflexivity].
    assert (B : (0 <= Z.of_N (n mod 256) <= 255)%Z) by (pose proof (N.mod_lt n 256 ltac:(lia)); lia).
    pose proof (push_binint1_leaf cfg _ B) as P.
    rewrite Z2b_N2b in P by lia. rewrite N2Z.id, N2b_mod in P. exact P.
  - (* BININT2 *)
    inversion H; subst. exists (TInt (Z.of_N (n mod 65536))). split; [|left; reflexivity].
    assert (B : (0 <= Z.of_N (n mod 65536) <= 65535)%Z) by (pose proof (N.mod_lt n 65536 ltac:(lia)); lia).
    pose proof (push_binint2_leaf cfg _ B) as P.
    rewrite !Z2b_N2b in P by (try apply Z.div_pos; lia).
    rewrite Z2N.inj_div, N2Z.id in P by lia. change (Z.to_N 256) with 256 in P.
    replace (N2b (n mod 65536)) with (N2b n) in P.
    2:{ rewrite <- (N2b_mod n), <- (N2b_mod (n mod 65536)). f_equal.
        change 65536 with (256 * 256). rewrite N.mod_mul_r by lia. rewrite N.mul_comm, N.mod_add by lia.
        rewrite N.mod_mod by lia. reflexivity. }
    replace (N2b (n mod 65536 / 256)) with (N2b (n / 256)) in P; [exact P|].
    rewrite <- (N2b_mod (n / 256)), <- (N2b_mod (n mod 65536 / 256)). f_equal.
    change 65536 with (256 * 256). rewrite N.mod_mul_r by lia. rewrite N.mul_comm, N.div_add by lia.
    rewrite (N.div_small (n mod 256) 256) by (apply N.mod_lt; lia). cbn [N.add].
    rewrite N.mod_mod by lia. reflexivity.
  - (* BININT *)
    inversion H; subst. fold (signed32 (n mod 4294967296)).
    assert (U : n mod 4294967296 < 4294967296) by (apply N.mod_lt; lia).
    exists (TInt (signed32 (n mod 4294967296))). split; [|left; reflexivity].
    pose proof (push_binint_leaf cfg _ (signed32_range _ U)) as P. rewrite (wrap_signed32 _ U) in P.
    change 4294967296 with (256 ^ N.of_nat 4) in P. rewrite le_encode_mod in P. exact P.
  - (* LONG *)
    unfold int_text in H. destruct (parse_dec_Z text) as [z|] eqn:P; [|discriminate].
    destruct (bytes_eqb text (dec_of_Z z)) eqn:Ec; [|discriminate]. inversion H; subst.
    apply bytes_eqb_true in Ec. subst text. exists (TBig z). split; [apply push_long_text_leaf|right; reflexivity].
  - (* BINFLOAT *)
    inversion H; subst. exists (TFloat (bits mod 2 ^ 64)). split; [|reflexivity].
    pose proof (push_binfloat_leaf cfg (bits mod 2 ^ 64) ltac:(apply N.mod_lt; discriminate)) as P.
    unfold be_encode in *. change (2 ^ 64) with (256 ^ N.of_nat 8) in P. rewrite le_encode_mod in P. exact P.
  - (* FLOAT *)
    unfold float_text in H.
    match type of H with match (if ?cc then _ else _) with _ => _ end = _ => destruct cc eqn:C; [|discriminate] end.
    destruct (parse_float text) as [b| |] eqn:P; try discriminate. inversion H; subst.
    exists (TFloat b). split; [|reflexivity]. apply push_float_text_leaf; [|exact P].
    repeat (apply orb_true_iff in C; destruct C as [C|C]; [|apply bytes_eqb_true in C; subst; reflexivity]).
    apply forallb_float_no_lf. exact C.
  - (* STRING *)
    destruct quoted as [|q0 r]; [discriminate|]. destruct (lastb r) as [q1|] eqn:Lb; [|discriminate].
    destruct (beqb q0 q1 && (beqb q0 "'"%byte || beqb q0 """"%byte) && PyVM.no_lf (q0 :: r)) eqn:C; [|discriminate].
    destruct (pydecode_string_escape (removelast r)) as [b| | |] eqn:D; try discriminate. inversion H; subst.
    apply andb_true_iff in C. destruct C as [C C3]. apply andb_true_iff in C. destruct C as [C1 C2].
    exists (bytestring_t cfg b). split; [eapply push_string_leaf; eassumption|].
    unfold bytestring_t. reflexivity.
  - (* SHORT_BINSTRING *)
    destruct (Nlen s <? 256) eqn:E; [|discriminate]. inversion H; subst. apply N.ltb_lt in E.
    exists (bytestring_t cfg s). split; [apply push_short_binstring_leaf; exact E|reflexivity].
  - destruct (Nlen s <? 2147483648) eqn:E; [|discriminate]. inversion H; subst. apply N.ltb_lt in E.
    exists (bytestring_t cfg s). split; [apply push_binstring_leaf; lia|reflexivity].
  - (* UNICODE *)
    destruct (pydecode_raw_unicode_escape escaped) as [u| | |] eqn:D; try discriminate.
    destruct (PyVM.no_lf escaped) eqn:Nl; [|discriminate]. inversion H; subst.
    exists (TStr u). split; [apply push_unicode_text_leaf; assumption|reflexivity].
  - destruct ((Nlen s <? 256) && utf8_valid s) eqn:E; [|discriminate]. inversion H; subst.
    apply andb_true_iff in E. destruct E as [E _]. apply N.ltb_lt in E.
    exists (TStr s). split; [apply push_short_binunicode_leaf; exact E|reflexivity].
  - destruct ((Nlen s <? 4294967296) && utf8_valid s) eqn:E; [|discriminate]. inversion H; subst.
    apply andb_true_iff in E. destruct E as [E _]. apply N.ltb_lt in E.
    exists (TStr s). split; [apply push_binunicode_leaf; exact E|reflexivity].
  - destruct (Nlen s <? 256) eqn:E; [|discriminate]. inversion H; subst. apply N.ltb_lt in E.
    exists (TBytes s). split; [apply push_short_binbytes_leaf; exact E|reflexivity].
  - destruct (Nlen s <? 4294967296) eqn:E; [|discriminate]. inversion H; subst. apply N.ltb_lt in E.
    exists (TBytes s). split; [apply push_binbytes_leaf; exact E|reflexivity].
  - destruct (Nlen s <? 2 ^ 63) eqn:E; [|discriminate]. inversion H; subst. apply N.ltb_lt in E.
    exists (TBArr s). split; [apply push_bytearray8_leaf; exact E|reflexivity].
  - (* EMPTY_TUPLE *) inversion H; subst. exists (TTuple []). split; [apply push_empty_tuple_leaf|reflexivity].
  - (* GLOBAL *)
    destruct (PyVM.no_lf m && PyVM.no_lf n && utf8_valid m && utf8_valid n) eqn:E; [|discriminate]. inversion H; subst.
    apply andb_true_iff in E. destruct E as [E _]. apply andb_true_iff in E. destruct E as [E _].
    apply andb_true_iff in E. destruct E as [E1 E2].
    exists (TClass m n). split; [apply push_global_leaf; assumption|reflexivity].
  - (* PERSID *)
    destruct (PyVM.no_lf text && ascii_only text) eqn:E; [|discriminate]. inversion H; subst.
    apply andb_true_iff in E. destruct E as [E _].
    exists (TRef (TStr text)). split; [apply push_persid_leaf; exact E|reflexivity].
Qed.

(* ================================================================================================ *)
(* Part 2: the simulation relation                                                                    *)
(* ================================================================================================ *)

Definition bij := list (N * N).        (* Go object id (list / map / Dict) <-> Python object id *)

Section Rel.
  Variable pd su : bool.
  Variable b : bij.
  Variable ph : list (N * qobj).

  (* the Go value v stands for the Python value x.  A Go list is a slice header: it shows a PREFIX
     of the Python list object it stands for (all of it unless another alias appended since). *)
  Fixpoint R (v : val) (x : qv) {struct v} : Prop :=
    let Rl := fix Rl (l : list val) (l' : list qv) {struct l} : Prop :=
      match l, l' with
      | [], [] => True
      | a :: t, a' :: t' => R a a' /\ Rl t t'
      | _, _ => False
      end in
    match v, x with
    | VNone, QNone => True
    | VBool p, QBool q => p = q
    | VInt z, QInt z' => z = z'
    | VBig _ z, QInt z' => z = z'
    | VFloat f, QFloat f' => f = f'
    | VStr s, QUni s' => s = s'
    | VStr s, QStr s' => su = false /\ s = s'
    | VBStr s, QStr s' => su = true /\ s = s'
    | VBytes s, QBytes s' => s = s'
    | VBArr s, QBArr s' => s = s'
    | VTuple l, QTuple l' => Rl l l'
    | VList lid l, QRef id =>
        In (lid, id) b /\
        exists l', qheap_get ph id = Some (OList l') /\ (length l <= length l')%nat /\ Rl l (firstn (length l) l')
    | VMap gid, QRef id => pd = false /\ In (gid, id) b /\ exists tr, qheap_get ph id = Some (ODict tr)
    | VDict gid, QRef id => pd = true /\ In (gid, id) b /\ exists tr, qheap_get ph id = Some (ODict tr)
    | VClass m n, QGlobal m' n' => m = m' /\ n = n'
    | VCall m n l, QCall (QGlobal m' n') l' => m = m' /\ n = n' /\ Rl l l'
    | VRef p, QPers p' => R p p'
    | _, _ => False
    end.

  Definition Rl : list val -> list qv -> Prop :=
    fix Rl (l : list val) (l' : list qv) {struct l} : Prop :=
      match l, l' with
      | [], [] => True
      | a :: t, a' :: t' => R a a' /\ Rl t t'
      | _, _ => False
      end.

  Lemma Rl_Forall2 : forall l l', Rl l l' <-> Forall2 R l l'.
  Proof.
    induction l as [|a t IH]; intros l'; destruct l' as [|a' t'].
    - split; intros _; [constructor|exact I].
    - split; intros H; [contradiction|inversion H].
    - split; intros H; [contradiction|inversion H].
    - change (Rl (a :: t) (a' :: t')) with (R a a' /\ Rl t t'). split.
      + intros [H1 H2]. constructor; [exact H1|apply IH; exact H2].
      + intros H. inversion H; subst. split; [assumption|apply IH; assumption].
  Qed.

  Lemma R_tuple : forall l l', R (VTuple l) (QTuple l') <-> Forall2 R l l'.
  Proof. intros. rewrite <- Rl_Forall2. reflexivity. Qed.
  Lemma R_call : forall m n l m' n' l', R (VCall m n l) (QCall (QGlobal m' n') l') <-> m = m' /\ n = n' /\ Forall2 R l l'.
  Proof. intros. rewrite <- Rl_Forall2. reflexivity. Qed.
  Lemma R_list : forall lid l id, R (VList lid l) (QRef id) <->
    In (lid, id) b /\ exists l', qheap_get ph id = Some (OList l') /\ (length l <= length l')%nat /\
                                 Forall2 R l (firstn (length l) l').
  Proof.
    intros.
    change (R (VList lid l) (QRef id)) with
      (In (lid, id) b /\ exists l', qheap_get ph id = Some (OList l') /\ (length l <= length l')%nat /\
                                   Rl l (firstn (length l) l')).
    split; intros [H1 [l' [H2 [H3 H4]]]]; (split; [exact H1|]; exists l'; split; [exact H2|]; split; [exact H3|]).
    - apply Rl_Forall2. exact H4.
    - apply Rl_Forall2 in H4. exact H4.
  Qed.

  Lemma R_not_mark : forall v x, R v x -> is_mark v = false.
  Proof. intros v x H. destruct v; try reflexivity. destruct x; contradiction. Qed.
End Rel.

(* the Python heap only ever grows: new objects, longer lists, longer dict traces *)
Definition hext (ph ph' : list (N * qobj)) : Prop :=
  forall id,
    (forall l, qheap_get ph id = Some (OList l) -> exists l2, qheap_get ph' id = Some (OList (l ++ l2))) /\
    (forall tr, qheap_get ph id = Some (ODict tr) -> exists tr', qheap_get ph' id = Some (ODict tr')).

Lemma hext_refl : forall ph, hext ph ph.
Proof.
  intros ph id. split; intros x H; [exists []; rewrite app_nil_r; exact H|exists x; exact H].
Qed.

Lemma Forall2_mono_Forall : forall A B (P Q : A -> B -> Prop) l l',
  Forall (fun a => forall x, P a x -> Q a x) l -> Forall2 P l l' -> Forall2 Q l l'.
Proof.
  intros A B P Q l l' F H. induction H as [|a x l l' Hax Hl IH]; [constructor|].
  inversion F; subst. constructor; [auto|apply IH; assumption].
Qed.

Lemma firstn_app_le : forall A (a c : list A) n, (n <= length a)%nat -> firstn n (a ++ c) = firstn n a.
Proof.
  intros A a c n H. rewrite firstn_app. replace (n - length a)%nat with 0%nat by lia. cbn. apply app_nil_r.
Qed.

Lemma R_mono : forall pd su b b' ph ph', incl b b' -> hext ph ph' ->
  forall v x, R pd su b ph v x -> R pd su b' ph' v x.
Proof.
  intros pd su b b' ph ph' Hb Hh v.
  induction v as [ |p|z|z|i z|f|re im|s|s|s|s|lid l IHl|l IHl|gid|gid|m n|m n l IHl|p IHp|tg| ] using val_ind';
    intros x H; destruct x; try exact H; try contradiction.
  - (* VList *)
    apply R_list in H. destruct H as [Hin [l' [Hg [Hlen Hf]]]]. apply R_list.
    split; [apply Hb; exact Hin|]. destruct (proj1 (Hh id) l' Hg) as [l2 Hg2].
    exists (l' ++ l2). split; [exact Hg2|]. split; [rewrite app_length; lia|].
    rewrite firstn_app_le by exact Hlen. eapply Forall2_mono_Forall; eassumption.
  - (* VTuple *)
    apply R_tuple in H. apply R_tuple. eapply Forall2_mono_Forall; eassumption.
  - (* VMap *)
    destruct H as [H1 [H2 [tr H3]]]. split; [exact H1|]. split; [apply Hb; exact H2|].
    destruct (proj2 (Hh id) tr H3) as [tr' H4]. exists tr'. exact H4.
  - (* VDict *)
    destruct H as [H1 [H2 [tr H3]]]. split; [exact H1|]. split; [apply Hb; exact H2|].
    destruct (proj2 (Hh id) tr H3) as [tr' H4]. exists tr'. exact H4.
  - (* VCall *)
    destruct x; try contradiction. apply R_call in H. destruct H as [-> [-> Hf]]. apply R_call.
    split; [reflexivity|]. split; [reflexivity|]. eapply Forall2_mono_Forall; eassumption.
  - (* VRef *) cbn in H |- *. apply IHp. exact H.
Qed.

(* ---- the state invariant ---------------------------------------------------------------------- *)

Definition obj_assign (o : hobj) (k v : val) : option hobj :=
  match o with
  | HMap es => if go_unhashable k then None else Some (HMap (gomap_assign es k v))
  | HDict es => match dict_set choose_first k v es with Some es' => Some (HDict es') | None => None end
  end.
Fixpoint obj_assign_all (o : hobj) (vtr : list (val * val)) : option hobj :=
  match vtr with
  | [] => Some o
  | (k, v) :: t => match obj_assign o k v with Some o' => obj_assign_all o' t | None => None end
  end.

Section Inv.
  Variable pd su : bool.
  Let cfg := Build_dconfig pd su None.

  Definition empty_obj : hobj := if pd then HDict [] else HMap [].
  Definition dict_val (g : N) : val := if pd then VDict g else VMap g.

  Definition item_rel (b : bij) (ph : list (N * qobj)) (v : val) (x : qitem) : Prop :=
    match x with
    | QMark => v = VMark
    | QObj x' => R pd su b ph v x'
    end.
  Definition pair_rel (b : bij) (ph : list (N * qobj)) (kv : val * val) (kx : qv * qv) : Prop :=
    R pd su b ph (fst kv) (fst kx) /\ R pd su b ph (snd kv) (snd kx).
  Definition memo_rel (b : bij) (ph : list (N * qobj)) (kv : bytes * val) (kx : N * qv) : Prop :=
    fst kv = itoa (fst kx) /\ R pd su b ph (snd kv) (snd kx).

  Record Core (b : bij) (st : dstate) (pst : qstate) : Prop := {
    c_stack : Forall2 (item_rel b (q_heap pst)) (d_stack st) (q_stack pst);
    c_memo : Forall2 (memo_rel b (q_heap pst)) (d_memo st) (q_memo pst);
    c_inj1 : forall g i1 i2, In (g, i1) b -> In (g, i2) b -> i1 = i2;
    c_inj2 : forall g1 g2 i, In (g1, i) b -> In (g2, i) b -> g1 = g2;
    c_bound : forall g i, In (g, i) b -> g < d_next st /\ i < q_next pst;
    c_pbound : forall i o, qheap_get (q_heap pst) i = Some o -> i < q_next pst;
    c_gbound : forall g o, heap_get (d_heap st) g = Some o -> g < d_next st;
    c_dicts : forall g i tr, In (g, i) b -> qheap_get (q_heap pst) i = Some (ODict tr) ->
              exists vtr o, Forall2 (pair_rel b (q_heap pst)) vtr tr /\
                            obj_assign_all empty_obj vtr = Some o /\ heap_get (d_heap st) g = Some o;
    c_lens : forall g i l', In (g, i) b -> qheap_get (q_heap pst) i = Some (OList l') ->
             cur_len st g = Nlen l';
    c_proto : d_proto st = q_proto pst;
    c_stale : d_stale st = false }.

  (* ---- generic facts ------------------------------------------------------------------------ *)

  Lemma item_rel_mono : forall b b' ph ph' v x, incl b b' -> hext ph ph' ->
    item_rel b ph v x -> item_rel b' ph' v x.
  Proof. intros b b' ph ph' v x Hb Hh H. destruct x; [exact H|]. eapply R_mono; eassumption. Qed.

  Lemma Forall2_impl : forall A B (P Q : A -> B -> Prop) l l',
    (forall a x, P a x -> Q a x) -> Forall2 P l l' -> Forall2 Q l l'.
  Proof. intros A B P Q l l' H F. induction F; constructor; auto. Qed.

  Lemma stack_mono : forall b b' ph ph' s s', incl b b' -> hext ph ph' ->
    Forall2 (item_rel b ph) s s' -> Forall2 (item_rel b' ph') s s'.
  Proof. intros. eapply Forall2_impl; [|eassumption]. intros. eapply item_rel_mono; eassumption. Qed.

  Lemma memo_mono : forall b b' ph ph' m m', incl b b' -> hext ph ph' ->
    Forall2 (memo_rel b ph) m m' -> Forall2 (memo_rel b' ph') m m'.
  Proof.
    intros until 2. eapply Forall2_impl. intros a x [K1 K2]. split; [exact K1|]. eapply R_mono; eassumption.
  Qed.

  Lemma pairs_mono : forall b b' ph ph' m m', incl b b' -> hext ph ph' ->
    Forall2 (pair_rel b ph) m m' -> Forall2 (pair_rel b' ph') m m'.
  Proof.
    intros until 2. eapply Forall2_impl. intros a x [K1 K2]. split; eapply R_mono; eassumption.
  Qed.

  (* items above the mark, on both stacks *)
  Lemma split_mark_rel : forall b ph s s' acc l t,
    Forall2 (item_rel b ph) s s' -> qpop_mark s' acc = Some (l, t) ->
    exists above below items,
      split_mark s = Some (above, below) /\ Forall2 (item_rel b ph) below t /\
      l = rev items ++ acc /\ Forall2 (R pd su b ph) above items.
  Proof.
    intros b ph s s' acc l t F. revert acc l t. induction F as [|v x s s' Hvx F IH]; intros acc l t H; cbn in H.
    - discriminate.
    - destruct x as [|x'].
      + inversion H; subst. cbn in Hvx. subst v. exists [], s, []. cbn. repeat split; [exact F|constructor].
      + destruct (IH _ _ _ H) as [above [below [items [S [Fb [El Fa]]]]]].
        exists (v :: above), below, (x' :: items). cbn [split_mark].
        cbn in Hvx. rewrite (R_not_mark _ _ _ _ _ _ Hvx), S. repeat split; [exact Fb| |constructor; assumption].
        rewrite El. cbn [rev]. rewrite <- app_assoc. reflexivity.
  Qed.
End Inv.

(* ================================================================================================ *)
(* Part 3: one instruction                                                                            *)
(* ================================================================================================ *)

Lemma exec_ret : forall cfg i st key op st' rest,
  opcode_of_byte key = Some op -> is_stop op = false ->
  handler cfg op key (i + 1) st = ok st' -> exec cfg i st (key :: rest) (i + 1) st' rest.
Proof. intros. eapply exec_one; try eassumption. rewrite H1. reflexivity. Qed.

Lemma itoa_eqb : forall a b, bytes_eqb (itoa a) (itoa b) = (a =? b).
Proof.
  intros a b. destruct (N.eqb_spec a b) as [->|Hne]; [apply bytes_eqb_refl|].
  destruct (bytes_eqb (itoa a) (itoa b)) eqn:E; [|reflexivity]. exfalso. apply Hne.
  apply bytes_eqb_eq in E. unfold itoa in E.
  destruct (dec_of_N_spec a) as [_ [_ Va]]. destruct (dec_of_N_spec b) as [_ [_ Vb]]. rewrite E in Va. congruence.
Qed.

Lemma cur_len_set_len_same : forall st lid n s, cur_len (set_len st lid n s) lid = n.
Proof. intros. unfold cur_len, set_len. cbn. rewrite N.eqb_refl. reflexivity. Qed.

Lemma assoc_filter_other : forall l lid g, g <> lid ->
  assoc_N (filter (fun p : N * N => negb (fst p =? lid)) l) g = assoc_N l g.
Proof.
  induction l as [|[k v] t IH]; intros lid g H; [reflexivity|]. cbn.
  destruct (k =? lid) eqn:E; cbn.
  - apply N.eqb_eq in E. subst k. assert (E2 : (lid =? g) = false) by (apply N.eqb_neq; congruence).
    rewrite E2. apply IH. exact H.
  - destruct (k =? g); [reflexivity|apply IH; exact H].
Qed.

Lemma cur_len_set_len_other : forall st lid n s g, g <> lid -> cur_len (set_len st lid n s) g = cur_len st g.
Proof.
  intros. unfold cur_len, set_len. cbn. assert (E : (lid =? g) = false) by (apply N.eqb_neq; congruence).
  rewrite E, assoc_filter_other by assumption. reflexivity.
Qed.

Lemma qheap_get_set_same : forall h id o, qheap_get (qheap_set h id o) id = Some o.
Proof.
  induction h as [|[i o'] t IH]; intros id o; cbn.
  - rewrite N.eqb_refl. reflexivity.
  - destruct (i =? id) eqn:E; cbn; rewrite E; [reflexivity|apply IH].
Qed.
Lemma qheap_get_set_other : forall h id o j, j <> id -> qheap_get (qheap_set h id o) j = qheap_get h j.
Proof.
  induction h as [|[i o'] t IH]; intros id o j H; cbn.
  - assert (E : (id =? j) = false) by (apply N.eqb_neq; congruence). rewrite E. reflexivity.
  - destruct (i =? id) eqn:E; cbn.
    + apply N.eqb_eq in E. subst i. assert (E2 : (id =? j) = false) by (apply N.eqb_neq; congruence). rewrite E2. reflexivity.
    + destruct (i =? j); [reflexivity|apply IH; exact H].
Qed.
Lemma heap_get_set_same : forall h id o, heap_get (heap_set h id o) id = Some o.
Proof.
  induction h as [|[i o'] t IH]; intros id o; cbn.
  - rewrite N.eqb_refl. reflexivity.
  - destruct (i =? id) eqn:E; cbn; rewrite E; [reflexivity|apply IH].
Qed.
Lemma heap_get_set_other : forall h id o j, j <> id -> heap_get (heap_set h id o) j = heap_get h j.
Proof.
  induction h as [|[i o'] t IH]; intros id o j H; cbn.
  - assert (E : (id =? j) = false) by (apply N.eqb_neq; congruence). rewrite E. reflexivity.
  - destruct (i =? id) eqn:E; cbn.
    + apply N.eqb_eq in E. subst i. assert (E2 : (id =? j) = false) by (apply N.eqb_neq; congruence). rewrite E2. reflexivity.
    + destruct (i =? j); [reflexivity|apply IH; exact H].
Qed.

(* a new Python object: the heap grows *)
Lemma hext_new : forall ph id o, qheap_get ph id = None -> hext ph (qheap_set ph id o).
Proof.
  intros ph id o Hn j. destruct (N.eq_dec j id) as [->|Hne].
  - split; intros x H; rewrite Hn in H; discriminate.
  - split; intros x H; rewrite qheap_get_set_other by exact Hne; [exists []; rewrite app_nil_r; exact H|exists x; exact H].
Qed.
(* a list object extended *)
Lemma hext_append : forall ph id l l2, qheap_get ph id = Some (OList l) -> hext ph (qheap_set ph id (OList (l ++ l2))).
Proof.
  intros ph id l l2 Hg j. destruct (N.eq_dec j id) as [->|Hne].
  - split; intros x H; rewrite Hg in H; inversion H; subst. exists l2. apply qheap_get_set_same.
  - split; intros x H; rewrite qheap_get_set_other by exact Hne; [exists []; rewrite app_nil_r; exact H|exists x; exact H].
Qed.
(* a dict object assigned to *)
Lemma hext_assign : forall ph id tr tr', qheap_get ph id = Some (ODict tr) -> hext ph (qheap_set ph id (ODict tr')).
Proof.
  intros ph id tr tr' Hg j. destruct (N.eq_dec j id) as [->|Hne].
  - split; intros x H; rewrite Hg in H; inversion H; subst. exists tr'. apply qheap_get_set_same.
  - split; intros x H; rewrite qheap_get_set_other by exact Hne; [exists []; rewrite app_nil_r; exact H|exists x; exact H].
Qed.

Section Steps.
  Variable pd su : bool.
  Let cfg := Build_dconfig pd su None.
  Notation Rr := (R pd su).
  Notation CoreI := (Core pd su).

  (* the decoder executes the instruction and the invariant holds again (or a stale append has been
     recorded: the known finding's territory, nothing more is claimed) *)
  Definition step_ok (st : dstate) (pst' : qstate) (idx : N) (bytes_ : bytes) (rest : bytes) : Prop :=
    exists b' st', exec cfg idx st (bytes_ ++ rest) (idx + 1) st' rest /\
                   ((d_stale st' = true /\ (bytes_ = [x61] \/ bytes_ = [x65])) \/ CoreI b' st' pst').

  Lemma core_stack_only : forall b st pst s s',
    CoreI b st pst -> Forall2 (item_rel pd su b (q_heap pst)) s s' ->
    CoreI b (set_stack st s) (qset_stack pst s').
  Proof. intros b st pst s s' C F. destruct C. constructor; cbn; assumption. Qed.

  (* ---- inversions ------------------------------------------------------------------------------ *)
  Lemma R_uni_inv : forall b ph v s, Rr b ph v (QUni s) -> v = VStr s.
  Proof. intros b ph v s H. destruct v; try contradiction. cbn in H. subst. reflexivity. Qed.
  Lemma R_bytes_inv : forall b ph v s, Rr b ph v (QBytes s) -> v = VBytes s.
  Proof. intros b ph v s H. destruct v; try contradiction. cbn in H. subst. reflexivity. Qed.
  Lemma R_tuple_inv : forall b ph v l', Rr b ph v (QTuple l') -> exists l, v = VTuple l /\ Forall2 (Rr b ph) l l'.
  Proof. intros b ph v l' H. destruct v; try contradiction. exists l. split; [reflexivity|apply R_tuple; exact H]. Qed.
  Lemma R_global_inv : forall b ph v m n, Rr b ph v (QGlobal m n) -> v = VClass m n.
  Proof. intros b ph v m n H. destruct v; try contradiction. cbn in H. destruct H; subst. reflexivity. Qed.
  Lemma R_ref_inv : forall b ph v id, Rr b ph v (QRef id) ->
    (exists lid l, v = VList lid l) \/ (exists g, v = dict_val pd g /\ In (g, id) b /\ exists tr, qheap_get ph id = Some (ODict tr)).
  Proof.
    intros b ph v id H. destruct v; try contradiction.
    - left. eexists; eexists; reflexivity.
    - right. destruct H as [Hp [Hi Ht]]. exists id0. unfold dict_val. rewrite Hp. repeat split; assumption.
    - right. destruct H as [Hp [Hi Ht]]. exists id0. unfold dict_val. rewrite Hp. repeat split; assumption.
  Qed.

  Lemma R_text : forall b ph v x t, Rr b ph v x -> string_eq v t = q_is_text x t.
  Proof.
    intros b ph v x t H. destruct v; destruct x; try contradiction; try reflexivity; cbn in H |- *.
    - subst. reflexivity.
    - destruct H; subst. reflexivity.
    - destruct H; subst. reflexivity.
  Qed.

  (* ---- memo ---------------------------------------------------------------------------------------- *)
  Lemma memo_get_rel : forall b ph gm pm k x,
    Forall2 (memo_rel pd su b ph) gm pm -> qmemo_get pm k = Some x ->
    exists v, memo_get gm (itoa k) = Some v /\ Rr b ph v x.
  Proof.
    intros b ph gm pm k x F. induction F as [|[kb v] [kn y] gm pm [Hk Hr] F IH]; intros H; cbn in H; [discriminate|].
    cbn [fst snd] in Hk, Hr. subst kb. cbn [memo_get]. rewrite itoa_eqb. destruct (kn =? k).
    - inversion H; subst. exists v. split; [reflexivity|exact Hr].
    - apply IH. exact H.
  Qed.

  Lemma memo_set_rel : forall b ph gm pm k v x,
    Forall2 (memo_rel pd su b ph) gm pm -> Rr b ph v x ->
    Forall2 (memo_rel pd su b ph) (memo_set gm (itoa k) v) (qmemo_set pm k x).
  Proof.
    intros b ph gm pm k v x F Hr. induction F as [|[kb v0] [kn y] gm pm [Hk Hr0] F IH].
    - cbn [memo_set qmemo_set]. constructor; [split; [reflexivity|exact Hr]|constructor].
    - cbn [fst snd] in Hk, Hr0. subst kb. cbn [memo_set qmemo_set]. rewrite itoa_eqb. destruct (kn =? k).
      + constructor; [split; [reflexivity|exact Hr]|exact F].
      + constructor; [split; [reflexivity|exact Hr0]|exact IH].
  Qed.

  Lemma memo_len_rel : forall b ph gm pm, Forall2 (memo_rel pd su b ph) gm pm -> Nlen gm = Nlen pm.
  Proof. intros b ph gm pm F. unfold Nlen. f_equal. induction F; [reflexivity|cbn; f_equal; assumption]. Qed.

  (* memoTop on both sides *)
  Lemma memo_top_sim : forall b st pst pst' k,
    CoreI b st pst -> qmemo_top pst k = Some pst' ->
    exists st', memo_top st (itoa k) = ok st' /\ CoreI b st' pst' /\ d_stale st' = d_stale st.
  Proof.
    intros b st pst pst' k C H. unfold qmemo_top in H. pose proof (c_stack _ _ _ _ _ C) as S.
    destruct (q_stack pst) as [|[|x] t] eqn:Q; try discriminate. inversion H; subst pst'. clear H.
    inversion S as [|v x0 s s' Hvx F Eg Ep]. subst x0 s'. cbn in Hvx. unfold memo_top. rewrite <- Eg.
    rewrite (R_not_mark _ _ _ _ _ _ Hvx). eexists. split; [reflexivity|]. split; [|reflexivity].
    destruct C. constructor; cbn [set_memo d_stack d_memo d_heap d_next d_proto d_lens q_stack q_memo q_heap q_next q_proto cur_len];
      try assumption.
    apply memo_set_rel; assumption.
  Qed.

  Lemma qget_sim : forall b st pst pst' k,
    CoreI b st pst -> qget pst k = Some pst' ->
    exists v, memo_get (d_memo st) (itoa k) = Some v /\ CoreI b (push v st) pst'.
  Proof.
    intros b st pst pst' k C H. unfold qget in H. destruct (qmemo_get (q_memo pst) k) as [x|] eqn:G; [|discriminate].
    inversion H; subst. destruct (memo_get_rel _ _ _ _ _ _ (c_memo _ _ _ _ _ C) G) as [v [Gv Rv]].
    exists v. split; [exact Gv|]. unfold push, qpush. apply core_stack_only; [exact C|].
    constructor; [exact Rv|exact (c_stack _ _ _ _ _ C)].
  Qed.
End Steps.

Lemma Forall2_rev' : forall A B (P : A -> B -> Prop) l l', Forall2 P l l' -> Forall2 P (rev l) (rev l').
Proof.
  intros A B P l l' F. induction F; [constructor|]. cbn. apply Forall2_app; [assumption|constructor; [assumption|constructor]].
Qed.

Section StepsA.
  Variable pd su : bool.
  Let cfg := Build_dconfig pd su None.
  Notation Rr := (R pd su).
  Notation CoreI := (Core pd su).
  Notation irel := (item_rel pd su).

  Ltac stack_inv S :=
    repeat match type of S with
           | Forall2 _ _ (_ :: _) => let v := fresh "v" in let s := fresh "s" in let Hv := fresh "Hv" in
                                     let S' := fresh "S" in
                                     inversion S as [|v ? s ? Hv S']; subst; clear S; rename S' into S
           end.

  (* MARK *)
  Lemma step_mark : forall b st pst idx rest, CoreI b st pst ->
    step_ok pd su st (qset_stack pst (QMark :: q_stack pst)) idx [x28] rest.
  Proof.
    intros b st pst idx rest C. exists b, (push VMark st). split; [apply exec_ret with (op := OMark); reflexivity|].
    right. apply core_stack_only; [exact C|]. constructor; [reflexivity|exact (c_stack _ _ _ _ _ C)].
  Qed.

  (* TUPLE *)
  Lemma step_tuple : forall b st pst idx rest l t, CoreI b st pst ->
    qpop_mark (q_stack pst) [] = Some (l, t) ->
    step_ok pd su st (qset_stack pst (QObj (QTuple l) :: t)) idx [x74] rest.
  Proof.
    intros b st pst idx rest l t C H.
    destruct (split_mark_rel pd su _ _ _ _ _ _ _ (c_stack _ _ _ _ _ C) H) as [above [below [items [Sm [Fb [El Fa]]]]]].
    exists b, (set_stack st (VTuple (rev above) :: below)). split.
    - apply exec_ret with (op := OTuple); try reflexivity. cbn [handler]. rewrite Sm. reflexivity.
    - right. apply core_stack_only; [exact C|]. constructor; [|exact Fb].
      cbn. apply R_tuple. rewrite El, app_nil_r. apply Forall2_rev'. exact Fa.
  Qed.

  (* TUPLE1 / 2 / 3 *)
  Lemma tuple_n_sim : forall b st pst n xs t,
    CoreI b st pst -> q_stack pst = map QObj (rev xs) ++ t -> length xs = n ->
    exists vs below, tuple_n st n = ok (set_stack st (VTuple vs :: below)) /\
                     Forall2 (Rr b (q_heap pst)) vs xs /\ Forall2 (irel b (q_heap pst)) below t.
  Proof.
    intros b st pst n xs t C Q Hn. pose proof (c_stack _ _ _ _ _ C) as S. rewrite Q in S.
    apply Forall2_app_inv_r in S. destruct S as [top [below [Ft [Fb Es]]]].
    assert (Lt : length top = n).
    { rewrite <- Hn. rewrite <- (rev_length xs), <- (map_length QObj (rev xs)). clear - Ft. induction Ft; cbn; congruence. }
    assert (Fr : Forall2 (Rr b (q_heap pst)) top (rev xs)).
    { clear - Ft. remember (map QObj (rev xs)) as m. revert Heqm. generalize (rev xs). induction Ft; intros l0 E.
      - destruct l0; [constructor|discriminate].
      - destruct l0; [discriminate|]. inversion E; subst. constructor; [exact H|apply IHFt; reflexivity]. }
    assert (Nm : existsb is_mark top = false).
    { clear - Fr. induction Fr; [reflexivity|]. cbn. rewrite (R_not_mark _ _ _ _ _ _ H). exact IHFr. }
    exists (rev top), below. unfold tuple_n. rewrite Es, app_length, Lt.
    assert (L : Nat.ltb (n + length below) n = false) by (apply Nat.ltb_ge; lia). rewrite L.
    rewrite <- Lt, firstn_app, Nat.sub_diag, firstn_all, skipn_app, Nat.sub_diag, skipn_all. cbn [firstn skipn app].
    rewrite app_nil_r, Nm. split; [reflexivity|]. split; [|exact Fb].
    rewrite <- (rev_involutive xs). apply Forall2_rev'. exact Fr.
  Qed.

  Lemma step_tuple1 : forall b st pst idx rest a t, CoreI b st pst -> q_stack pst = QObj a :: t ->
    step_ok pd su st (qset_stack pst (QObj (QTuple [a]) :: t)) idx [x85] rest.
  Proof.
    intros b st pst idx rest a t C Q.
    destruct (tuple_n_sim b st pst 1%nat [a] t C Q eq_refl) as [vs [below [T [Fv Fb]]]].
    exists b, (set_stack st (VTuple vs :: below)). split; [apply exec_ret with (op := OTuple1); try reflexivity; exact T|].
    right. apply core_stack_only; [exact C|]. constructor; [apply R_tuple; exact Fv|exact Fb].
  Qed.
  Lemma step_tuple2 : forall b st pst idx rest a c t, CoreI b st pst -> q_stack pst = QObj c :: QObj a :: t ->
    step_ok pd su st (qset_stack pst (QObj (QTuple [a; c]) :: t)) idx [x86] rest.
  Proof.
    intros b st pst idx rest a c t C Q.
    destruct (tuple_n_sim b st pst 2%nat [a; c] t C Q eq_refl) as [vs [below [T [Fv Fb]]]].
    exists b, (set_stack st (VTuple vs :: below)). split; [apply exec_ret with (op := OTuple2); try reflexivity; exact T|].
    right. apply core_stack_only; [exact C|]. constructor; [apply R_tuple; exact Fv|exact Fb].
  Qed.
  Lemma step_tuple3 : forall b st pst idx rest a c d t, CoreI b st pst -> q_stack pst = QObj d :: QObj c :: QObj a :: t ->
    step_ok pd su st (qset_stack pst (QObj (QTuple [a; c; d]) :: t)) idx [x87] rest.
  Proof.
    intros b st pst idx rest a c d t C Q.
    destruct (tuple_n_sim b st pst 3%nat [a; c; d] t C Q eq_refl) as [vs [below [T [Fv Fb]]]].
    exists b, (set_stack st (VTuple vs :: below)). split; [apply exec_ret with (op := OTuple3); try reflexivity; exact T|].
    right. apply core_stack_only; [exact C|]. constructor; [apply R_tuple; exact Fv|exact Fb].
  Qed.
End StepsA.

Section StepsB.
  Variable pd su : bool.
  Let cfg := Build_dconfig pd su None.
  Notation Rr := (R pd su).
  Notation CoreI := (Core pd su).
  Notation irel := (item_rel pd su).

  Lemma stack_cons_inv : forall b ph s x t,
    Forall2 (irel b ph) s (QObj x :: t) -> exists v s', s = v :: s' /\ Rr b ph v x /\ Forall2 (irel b ph) s' t.
  Proof. intros b ph s x t F. inversion F as [|v x0 s' t0 Hv F']; subst. exists v, s'. repeat split; assumption. Qed.

  (* STACK_GLOBAL *)
  Lemma step_stack_global : forall b st pst idx rest m n t, CoreI b st pst ->
    q_stack pst = QObj (QUni n) :: QObj (QUni m) :: t ->
    step_ok pd su st (qset_stack pst (QObj (QGlobal m n) :: t)) idx [x93] rest.
  Proof.
    intros b st pst idx rest m n t C Q. pose proof (c_stack _ _ _ _ _ C) as S. rewrite Q in S.
    destruct (stack_cons_inv _ _ _ _ _ S) as [v1 [s1 [E1 [R1 S1]]]].
    destruct (stack_cons_inv _ _ _ _ _ S1) as [v2 [s2 [E2 [R2 S2]]]]. subst s1.
    apply R_uni_inv in R1. apply R_uni_inv in R2. subst v1 v2.
    exists b, (push (VClass m n) (set_stack st s2)). split.
    - apply exec_ret with (op := OStackGlobal); try reflexivity. cbn [handler]. rewrite E1. reflexivity.
    - right. unfold push. cbn [set_stack d_stack]. 
      replace (set_stack (set_stack st s2) (VClass m n :: s2)) with (set_stack st (VClass m n :: s2)) by reflexivity.
      apply core_stack_only; [exact C|]. constructor; [cbn; split; reflexivity|exact S2].
  Qed.

  (* BINPERSID *)
  Lemma step_binpersid : forall b st pst idx rest p t, CoreI b st pst -> q_stack pst = QObj p :: t ->
    step_ok pd su st (qset_stack pst (QObj (QPers p) :: t)) idx [x51] rest.
  Proof.
    intros b st pst idx rest p t C Q. pose proof (c_stack _ _ _ _ _ C) as S. rewrite Q in S.
    destruct (stack_cons_inv _ _ _ _ _ S) as [v [s1 [E1 [R1 S1]]]].
    exists b, (set_stack st (VRef v :: s1)). split.
    - apply exec_ret with (op := OBinpersid); try reflexivity. cbn [handler]. rewrite E1.
      rewrite (R_not_mark _ _ _ _ _ _ R1). reflexivity.
    - right. apply core_stack_only; [exact C|]. constructor; [exact R1|exact S1].
  Qed.

  (* DUP *)
  Lemma step_dup : forall b st pst idx rest v t, CoreI b st pst -> q_stack pst = QObj v :: t ->
    step_ok pd su st (qpush v pst) idx [x32] rest.
  Proof.
    intros b st pst idx rest x t C Q. pose proof (c_stack _ _ _ _ _ C) as S. rewrite Q in S.
    destruct (stack_cons_inv _ _ _ _ _ S) as [v [s1 [E1 [R1 S1]]]].
    exists b, (push v st). split.
    - apply exec_ret with (op := ODup); try reflexivity. cbn [handler]. rewrite E1. reflexivity.
    - right. unfold push, qpush. apply core_stack_only; [exact C|]. rewrite E1, Q.
      constructor; [exact R1|]. constructor; [exact R1|exact S1].
  Qed.

  (* POP *)
  Lemma step_pop : forall b st pst idx rest x t, CoreI b st pst -> q_stack pst = x :: t ->
    step_ok pd su st (qset_stack pst t) idx [x30] rest.
  Proof.
    intros b st pst idx rest x t C Q. pose proof (c_stack _ _ _ _ _ C) as S. rewrite Q in S.
    inversion S as [|v x0 s1 t0 Hv S1 E1]; subst.
    exists b, (set_stack st s1). split.
    - apply exec_ret with (op := OPop); try reflexivity. cbn [handler]. rewrite <- E1. reflexivity.
    - right. apply core_stack_only; [exact C|exact S1].
  Qed.

  (* FRAME *)
  Lemma step_frame : forall b st pst idx rest n, CoreI b st pst ->
    step_ok pd su st pst idx (x95 :: le_encode 8 n) rest.
  Proof.
    intros b st pst idx rest n C. exists b, st. split; [|right; exact C].
    cbn [app]. eapply exec_one; [reflexivity|reflexivity|]. cbn [handler run].
    pose proof (take_n_exact (le_encode 8 n) rest) as T. unfold Nlen in T. rewrite le_encode_length in T.
    change (N.of_nat 8) with 8 in T. rewrite T. reflexivity.
  Qed.

  (* PUT family *)
  Lemma step_memo_top_ret : forall b st pst pst' k idx rest key op,
    CoreI b st pst -> qmemo_top pst k = Some pst' ->
    opcode_of_byte key = Some op -> is_stop op = false ->
    handler cfg op key (idx + 1) st = memo_top st (itoa k) ->
    step_ok pd su st pst' idx [key] rest.
  Proof.
    intros b st pst pst' k idx rest key op C H Ho Hs Hh.
    destruct (memo_top_sim _ _ _ _ _ _ _ C H) as [st' [M [C' _]]].
    exists b, st'. split; [|right; exact C'].
    apply exec_ret with (op := op); try assumption. etransitivity; [exact Hh|exact M].
  Qed.

  Lemma step_memoize : forall b st pst pst' idx rest, CoreI b st pst ->
    qmemo_top pst (Nlen (q_memo pst)) = Some pst' -> step_ok pd su st pst' idx [x94] rest.
  Proof.
    intros b st pst pst' idx rest C H.
    eapply step_memo_top_ret with (op := OMemoize); try eassumption; try reflexivity.
    cbn [handler]. rewrite (memo_len_rel _ _ _ _ _ _ (c_memo _ _ _ _ _ C)). reflexivity.
  Qed.

  Lemma step_binput : forall b st pst pst' idx rest n, CoreI b st pst ->
    qmemo_top pst (n mod 256) = Some pst' -> step_ok pd su st pst' idx [x71; N2b n] rest.
  Proof.
    intros b st pst pst' idx rest n C H.
    destruct (memo_top_sim _ _ _ _ _ _ _ C H) as [st' [M [C' _]]].
    exists b, st'. split; [|right; exact C'].
    cbn [app]. eapply exec_one; [reflexivity|reflexivity|]. cbn [handler run]. rewrite b2N_N2b_mod, M. reflexivity.
  Qed.

  Lemma step_long_binput : forall b st pst pst' idx rest n, CoreI b st pst ->
    qmemo_top pst (n mod 4294967296) = Some pst' -> step_ok pd su st pst' idx (x72 :: le_encode 4 n) rest.
  Proof.
    intros b st pst pst' idx rest n C H.
    destruct (memo_top_sim _ _ _ _ _ _ _ C H) as [st' [M [C' _]]].
    exists b, st'. split; [|right; exact C'].
    cbn [app]. eapply exec_one; [reflexivity|reflexivity|]. cbn [handler run].
    pose proof (take_n_exact (le_encode 4 n) rest) as T. unfold Nlen in T. rewrite le_encode_length in T.
    change (N.of_nat 4) with 4 in T. rewrite T.
    rewrite <- (le_encode_mod 4 n). rewrite le_encode_decode by (apply N.mod_lt; discriminate).
    change (256 ^ N.of_nat 4) with 4294967296. rewrite M. reflexivity.
  Qed.

  Lemma memo_index_spec : forall t k, memo_index t = Some k -> t = itoa k /\ IntFacts.no_lf t.
  Proof.
    intros t k H. unfold memo_index in H. destruct (parse_dec_Z t) as [z|]; [|discriminate].
    destruct ((0 <=? z)%Z && bytes_eqb t (dec_of_N (Z.to_N z))) eqn:E; [|discriminate]. inversion H; subst.
    apply andb_true_iff in E. destruct E as [_ E]. apply bytes_eqb_eq in E. split; [exact E|].
    rewrite E. apply digits_no_lf. apply dec_of_N_spec.
  Qed.

  Lemma step_put : forall b st pst pst' idx rest t k, CoreI b st pst ->
    memo_index t = Some k -> qmemo_top pst k = Some pst' -> step_ok pd su st pst' idx (x70 :: t ++ [x0a]) rest.
  Proof.
    intros b st pst pst' idx rest t k C Hk H. destruct (memo_index_spec _ _ Hk) as [Et Nl].
    destruct (memo_top_sim _ _ _ _ _ _ _ C H) as [st' [M [C' _]]].
    exists b, st'. split; [|right; exact C'].
    cbn [app]. rewrite <- app_assoc. cbn [app]. eapply exec_one; [reflexivity|reflexivity|]. cbn [handler run].
    rewrite (split_line_exact _ rest Nl), Et, M. reflexivity.
  Qed.

  (* GET family *)
  Lemma step_binget : forall b st pst pst' idx rest n, CoreI b st pst ->
    qget pst (n mod 256) = Some pst' -> step_ok pd su st pst' idx [x68; N2b n] rest.
  Proof.
    intros b st pst pst' idx rest n C H. destruct (qget_sim _ _ _ _ _ _ _ C H) as [v [G C']].
    exists b, (push v st). split; [|right; exact C'].
    cbn [app]. eapply exec_one; [reflexivity|reflexivity|]. cbn [handler run]. rewrite b2N_N2b_mod, G. reflexivity.
  Qed.

  Lemma step_long_binget : forall b st pst pst' idx rest n, CoreI b st pst ->
    qget pst (n mod 4294967296) = Some pst' -> step_ok pd su st pst' idx (x6a :: le_encode 4 n) rest.
  Proof.
    intros b st pst pst' idx rest n C H. destruct (qget_sim _ _ _ _ _ _ _ C H) as [v [G C']].
    exists b, (push v st). split; [|right; exact C'].
    cbn [app]. eapply exec_one; [reflexivity|reflexivity|]. cbn [handler run].
    pose proof (take_n_exact (le_encode 4 n) rest) as T. unfold Nlen in T. rewrite le_encode_length in T.
    change (N.of_nat 4) with 4 in T. rewrite T.
    rewrite <- (le_encode_mod 4 n). rewrite le_encode_decode by (apply N.mod_lt; discriminate).
    change (256 ^ N.of_nat 4) with 4294967296. rewrite G. reflexivity.
  Qed.

  Lemma step_get : forall b st pst pst' idx rest t k, CoreI b st pst ->
    memo_index t = Some k -> qget pst k = Some pst' -> step_ok pd su st pst' idx (x67 :: t ++ [x0a]) rest.
  Proof.
    intros b st pst pst' idx rest t k C Hk H. destruct (memo_index_spec _ _ Hk) as [Et Nl].
    destruct (qget_sim _ _ _ _ _ _ _ C H) as [v [G C']].
    exists b, (push v st). split; [|right; exact C'].
    cbn [app]. rewrite <- app_assoc. cbn [app]. eapply exec_one; [reflexivity|reflexivity|]. cbn [handler run].
    rewrite (split_line_exact _ rest Nl), Et, G. reflexivity.
  Qed.
End StepsB.

Section StepsC.
  Variable pd su : bool.
  Let cfg := Build_dconfig pd su None.
  Notation Rr := (R pd su).
  Notation CoreI := (Core pd su).
  Notation irel := (item_rel pd su).

  Ltac erase_inv H :=
    match type of H with
    | erase ?x = Some _ =>
        destruct x; cbn in H; try discriminate;
        try (match type of H with option_map _ ?e = _ => destruct e eqn:?; cbn in H; try discriminate end);
        inversion H; subst
    end.

  Lemma leaf_value_rel : forall b ph x t v,
    erase x = Some t -> tv_rel cfg t v -> Rr b ph x (inj v).
  Proof.
    intros b ph x t v He Ht. destruct v; cbn in Ht; try contradiction.
    - subst t. erase_inv He. exact I.
    - subst t. erase_inv He. reflexivity.
    - destruct Ht; subst t; erase_inv He; reflexivity.
    - subst t. erase_inv He. reflexivity.
    - subst t. erase_inv He. reflexivity.
    - cbn [c_strict cfg] in Ht. destruct su eqn:Esu; subst t; erase_inv He; cbn; split; reflexivity.
    - subst t. erase_inv He. reflexivity.
    - subst t. erase_inv He. reflexivity.
    - destruct l; [|contradiction]. subst t. erase_inv He.
      destruct l; cbn in *; [exact I|]. destruct (erase v); [destruct (map_opt erase l)|]; discriminate.
    - subst t. erase_inv He. cbn. split; reflexivity.
    - destruct v; try contradiction. subst t. erase_inv He.
      destruct x; cbn in *; try discriminate;
        try (match goal with H : option_map _ ?e = _ |- _ => destruct e; discriminate end).
      match goal with H : Some _ = Some _ |- _ => inversion H; subst end. reflexivity.
  Qed.

  (* a leaf instruction *)
  Lemma step_leaf : forall b st pst idx rest i v, CoreI b st pst ->
    is_leaf i = true -> pstep (q_proto pst) i [] = Some [PObj v] ->
    step_ok pd su st (qpush (inj v) pst) idx (asm i) rest.
  Proof.
    intros b st pst idx rest i v C L H.
    destruct (leaf_sim pd su i _ v L H) as [t [P T]].
    destruct (P idx st rest) as [i' [st' [x [E [S [Ex [M [Pp [Hh [Ll [Zz [Lg [Nn Ei]]]]]]]]]]]]].
    subst i'. exists b, st'. split; [exact E|]. right.
    destruct C. constructor.
    - rewrite S. cbn [qpush qset_stack q_stack q_heap]. constructor; [|assumption].
      eapply leaf_value_rel; eassumption.
    - rewrite M. exact c_memo0.
    - exact c_inj3.
    - exact c_inj4.
    - intros g i0 Hi. destruct (c_bound0 g i0 Hi). split; [lia|assumption].
    - exact c_pbound0.
    - rewrite Hh. intros g o Hg. pose proof (c_gbound0 g o Hg). lia.
    - rewrite Hh. exact c_dicts0.
    - intros g i0 l' Hi Hg. unfold cur_len. rewrite Ll. exact (c_lens0 g i0 l' Hi Hg).
    - rewrite Pp. exact c_proto0.
    - rewrite Zz. exact c_stale0.
  Qed.
End StepsC.

Section StepsD.
  Variable pd su : bool.
  Let cfg := Build_dconfig pd su None.
  Notation Rr := (R pd su).
  Notation CoreI := (Core pd su).
  Notation irel := (item_rel pd su).

  (* LONG1 *)
  Lemma step_long1 : forall b st pst idx rest d, CoreI b st pst -> Nlen d < 256 ->
    step_ok pd su st (qpush (QInt (decode_long d)) pst) idx (x8a :: N2b (Nlen d) :: d) rest.
  Proof.
    intros b st pst idx rest d C Hd.
    exists b, (push (VBig (d_next st) (decode_long d)) (snd (fresh st))). split.
    - cbn [app]. eapply exec_one; [reflexivity|reflexivity|]. cbn [handler run].
      rewrite b2N_N2b by exact Hd. rewrite take_n_exact. reflexivity.
    - right. destruct C. constructor; cbn [push set_stack fresh fst snd d_stack d_memo d_heap d_next d_proto d_lens qpush qset_stack q_stack q_memo q_heap q_next q_proto];
        try assumption.
      + constructor; [reflexivity|assumption].
      + intros g i0 Hi. destruct (c_bound0 g i0 Hi). split; [lia|assumption].
      + intros g o Hg. pose proof (c_gbound0 g o Hg). lia.
  Qed.

  (* REDUCE *)
  Lemma decode_latin1_rel : forall b ph a u,
    Rr b ph a (QUni u) -> decode_latin1 a = (let rs := utf8_runes u in if forallb (fun r => r <? 256) rs then Some (map N2b rs) else None).
  Proof. intros b ph a u H. apply R_uni_inv in H. subst a. reflexivity. Qed.

  Lemma step_reduce : forall b st pst idx rest args f t r, CoreI b st pst ->
    q_stack pst = QObj (QTuple args) :: QObj f :: t -> q_call (q_proto pst) f args = Some r ->
    step_ok pd su st (qset_stack pst (QObj r :: t)) idx [x52] rest.
  Proof.
    intros b st pst idx rest args f t r C Q H. pose proof (c_stack _ _ _ _ _ C) as S. rewrite Q in S.
    destruct (stack_cons_inv _ _ _ _ _ _ _ S) as [v1 [s1 [E1 [R1 S1]]]].
    destruct (stack_cons_inv _ _ _ _ _ _ _ S1) as [v2 [s2 [E2 [R2 S2]]]]. subst s1.
    apply R_tuple_inv in R1. destruct R1 as [argv [-> Fa]].
    unfold q_call in H. destruct f; try discriminate. apply R_global_inv in R2. subst v2.
    assert (Len : length argv = length args) by (clear - Fa; induction Fa; cbn; congruence).
    (* the value the decoder pushes *)
    assert (X : exists w, do_reduce (set_stack st s2) m n argv = ok (push w (set_stack st s2)) /\ Rr b (q_heap pst) w r).
    { unfold do_reduce. rewrite Len.
      assert (T1 : string_eq (nth 1 argv VNone) (bs "latin1") = q_is_text (nth 1 args QNone) (bs "latin1")).
      { destruct argv as [|a0 [|a1 ar]]; destruct args as [|x0 [|x1 xr]]; try discriminate Len; try reflexivity.
        inversion Fa as [|? ? ? ? _ Fa1]; subst. inversion Fa1 as [|? ? ? ? H1 _]; subst. cbn [nth]. eapply R_text. exact H1. }
      rewrite T1.
      destruct (bytes_eqb m (bs "_codecs") && bytes_eqb n (bs "encode") && Nat.eqb (length args) 2
                && q_is_text (nth 1 args QNone) (bs "latin1")) eqn:Cc.
      - destruct args as [|x0 xr]; [cbn in Cc; rewrite andb_false_r in Cc; discriminate|].
        destruct argv as [|a0 ar]; [discriminate Len|]. inversion Fa as [|? ? ? ? H0 _]; subst. cbn [nth] in H |- *.
        destruct x0; try discriminate. rewrite (decode_latin1_rel _ _ _ _ H0). cbv zeta.
        destruct (utf8_valid s && forallb (fun r0 => r0 <? 256) (utf8_runes s)) eqn:V; [|discriminate].
        apply andb_true_iff in V. destruct V as [_ V]. rewrite V. inversion H; subst.
        eexists. split; [reflexivity|reflexivity].
      - cbn [set_stack d_proto]. rewrite (c_proto _ _ _ _ _ C).
        change (pybuiltin_module (q_proto pst)) with (if q_proto pst <=? 2 then bs "__builtin__" else bs "builtins").
        destruct (bytes_eqb m (if q_proto pst <=? 2 then bs "__builtin__" else bs "builtins") && bytes_eqb n (bs "bytearray")) eqn:Cb.
        + destruct args as [|x0 [|x1 [|x2 xr]]]; destruct argv as [|a0 [|a1 [|a2 ar]]]; try discriminate Len.
          * inversion H; subst. eexists. split; [reflexivity|]. apply R_call. repeat split; constructor.
          * inversion Fa as [|? ? ? ? H0 _]; subst. destruct x0; try discriminate. inversion H; subst.
            apply R_bytes_inv in H0. subst a0. eexists. split; [reflexivity|reflexivity].
          * inversion Fa as [|? ? ? ? H0 Fa1]; subst. inversion Fa1 as [|? ? ? ? H1 _]; subst.
            rewrite (R_text _ _ _ _ _ _ _ H1). destruct (q_is_text x1 (bs "latin-1")).
            -- destruct x0; try discriminate. rewrite (decode_latin1_rel _ _ _ _ H0). cbv zeta.
               destruct (utf8_valid s && forallb (fun r0 => r0 <? 256) (utf8_runes s)) eqn:V; [|discriminate].
               apply andb_true_iff in V. destruct V as [_ V]. rewrite V. inversion H; subst.
               eexists. split; [reflexivity|reflexivity].
            -- assert (Er : r = QCall (QGlobal m n) [x0; x1]) by (destruct x0; inversion H; reflexivity). subst r.
               eexists. split; [reflexivity|]. apply R_call. repeat split; exact Fa.
          * assert (Er : r = QCall (QGlobal m n) (x0 :: x1 :: x2 :: xr)) by (destruct x0; inversion H; reflexivity). subst r. eexists. split; [reflexivity|]. apply R_call. repeat split; exact Fa.
        + inversion H; subst. eexists. split; [reflexivity|]. apply R_call. repeat split; exact Fa. }
    destruct X as [w [D Rw]].
    exists b, (push w (set_stack st s2)). split.
    - apply exec_ret with (op := OReduce); try reflexivity. cbn [handler]. rewrite E1. exact D.
    - right. unfold push. cbn [set_stack d_stack].
      replace (set_stack (set_stack st s2) (w :: s2)) with (set_stack st (w :: s2)) by reflexivity.
      apply core_stack_only; [exact C|]. constructor; [exact Rw|exact S2].
  Qed.
End StepsD.

(* ---- hashability ---------------------------------------------------------------------------------- *)

Lemma R_hashable : forall pd su b ph v x, R pd su b ph v x -> q_hashable x = true -> hashable v = true.
Proof.
  intros pd su b ph v.
  induction v as [ |p|z|z|i z|f|re im|s|s|s|s|lid l IHl|l IHl|gid|gid|m n|m n l IHl|p IHp|tg| ] using val_ind';
    intros x H Hq; destruct x; try contradiction; try reflexivity; unfold q_hashable, hashable in *; cbn in Hq |- *;
    try discriminate.
  - (* VBig *) destruct (in_int64 z || in_uint64 z); [reflexivity|]. destruct (Z_to_f64_exact z); reflexivity.
  - (* VTuple *)
    apply R_tuple in H. destruct (map_opt q_key l0) as [ks|] eqn:K; [|discriminate].
    assert (M : exists ps, map_opt go_hash l = Some ps).
    { clear Hq. revert l0 ks H K. induction IHl as [|a t Ha Ft IHt]; intros l0 ks H K.
      - exists []. reflexivity.
      - inversion H as [|? x0 ? t0 Hax Ht]; subst. cbn in K.
        destruct (q_key x0) eqn:Kx; [|discriminate]. destruct (map_opt q_key t0) as [kt|] eqn:Kt; [|discriminate].
        specialize (Ha x0 Hax). rewrite Kx in Ha. specialize (Ha eq_refl).
        destruct (go_hash a) eqn:Ga; [|discriminate]. destruct (IHt t0 kt Ht Kt) as [ps Ps].
        exists (h :: ps). cbn. rewrite Ga, Ps. reflexivity. }
    destruct M as [ps Ps]. rewrite Ps. reflexivity.
  - (* VCall *)
    destruct x; try contradiction. apply R_call in H. destruct H as [_ [_ H]]. cbn in Hq.
    destruct (map_opt q_key args) as [ks|] eqn:K; [|discriminate].
    assert (M : exists ps, map_opt go_hash l = Some ps).
    { clear Hq. revert args ks H K. induction IHl as [|a t Ha Ft IHt]; intros l0 ks H K.
      - exists []. reflexivity.
      - inversion H as [|? x0 ? t0 Hax Ht]; subst. cbn in K.
        destruct (q_key x0) eqn:Kx; [|discriminate]. destruct (map_opt q_key t0) as [kt|] eqn:Kt; [|discriminate].
        specialize (Ha x0 Hax). rewrite Kx in Ha. specialize (Ha eq_refl).
        destruct (go_hash a) eqn:Ga; [|discriminate]. destruct (IHt t0 kt Ht Kt) as [ps Ps].
        exists (h :: ps). cbn. rewrite Ga, Ps. reflexivity. }
    destruct M as [ps Ps]. rewrite Ps. reflexivity.
  - (* VRef *)
    cbn in H. specialize (IHp x H). destruct (q_key x); [|discriminate]. specialize (IHp eq_refl).
    destruct (go_hash p); [reflexivity|discriminate].
Qed.

Section StepsE.
  Variable pd su : bool.
  Let cfg := Build_dconfig pd su None.
  Notation Rr := (R pd su).
  Notation CoreI := (Core pd su).
  Notation irel := (item_rel pd su).

  Lemma fresh_none : forall (h : list (N * qobj)) n,
    (forall i o, qheap_get h i = Some o -> i < n) -> qheap_get h n = None.
  Proof. intros h n H. destruct (qheap_get h n) as [o|] eqn:E; [|reflexivity]. specialize (H n o E). lia. Qed.

  Lemma Forall2_len : forall A B (P : A -> B -> Prop) l l', Forall2 P l l' -> length l = length l'.
  Proof. intros A B P l l' F. induction F; cbn; congruence. Qed.

  (* a new list object with related items *)
  Lemma core_new_list : forall b st pst below t items litems,
    CoreI b st pst ->
    Forall2 (irel b (q_heap pst)) below t -> Forall2 (Rr b (q_heap pst)) items litems ->
    CoreI ((d_next st, q_next pst) :: b)
          (set_stack (set_len (snd (fresh st)) (d_next st) (Nlen items) false) (VList (d_next st) items :: below))
          (qnew pst (OList litems) t).
  Proof.
    intros b st pst below t items litems C Fb Fi.
    set (lid := d_next st). set (id := q_next pst). set (b' := (lid, id) :: b).
    set (ph' := qheap_set (q_heap pst) id (OList litems)).
    assert (Hn : qheap_get (q_heap pst) id = None) by (apply fresh_none; exact (c_pbound _ _ _ _ _ C)).
    assert (Hb : incl b b') by (intros p Hp; right; exact Hp).
    assert (Hh : hext (q_heap pst) ph') by (apply hext_new; exact Hn).
    assert (NewL : forall g i, In (g, i) b -> g <> lid /\ i <> id).
    { intros g i Hi. destruct (c_bound _ _ _ _ _ C g i Hi). unfold lid, id. split; lia. }
    destruct C. constructor;
      cbn [qnew set_stack set_len fresh fst snd d_stack d_memo d_heap d_next d_proto d_lens q_stack q_memo q_heap q_next q_proto].
    - constructor; [|eapply stack_mono; eassumption].
      cbn [item_rel]. apply R_list. split; [left; reflexivity|]. exists litems. fold id.
      split; [apply qheap_get_set_same|]. split; [rewrite (Forall2_len _ _ _ _ _ Fi); lia|].
      rewrite (Forall2_len _ _ _ _ _ Fi), firstn_all.
      eapply Forall2_impl; [|exact Fi]. intros a x Hax. eapply R_mono; eassumption.
    - eapply memo_mono; eassumption.
    - intros g i1 i2 [E1|H1] [E2|H2].
      + congruence.
      + inversion E1; subst. destruct (NewL _ _ H2). congruence.
      + inversion E2; subst. destruct (NewL _ _ H1). congruence.
      + eapply c_inj3; eassumption.
    - intros g1 g2 i [E1|H1] [E2|H2].
      + congruence.
      + inversion E1; subst. destruct (NewL _ _ H2). congruence.
      + inversion E2; subst. destruct (NewL _ _ H1). congruence.
      + eapply c_inj4; eassumption.
    - intros g i [E|H]; [inversion E; subst; unfold lid, id; split; lia|].
      destruct (c_bound0 g i H). split; lia.
    - intros i o H. fold id in H. destruct (N.eq_dec i id) as [->|Ne]; [lia|].
      rewrite qheap_get_set_other in H by exact Ne. specialize (c_pbound0 i o H). lia.
    - intros g o H. specialize (c_gbound0 g o H). lia.
    - intros g i tr [E|H] Hg; fold id in Hg.
      + inversion E; subst. rewrite qheap_get_set_same in Hg. discriminate.
      + destruct (NewL _ _ H) as [_ Ni]. rewrite qheap_get_set_other in Hg by exact Ni.
        destruct (c_dicts0 g i tr H Hg) as [vtr [o [F1 [A1 G1]]]]. exists vtr, o.
        split; [eapply pairs_mono; eassumption|]. split; assumption.
    - intros g i l' [E|H] Hg; fold id in Hg.
      + inversion E; subst. rewrite qheap_get_set_same in Hg. inversion Hg; subst.
        fold lid.
        match goal with |- cur_len (set_stack ?a ?c) _ = _ => change (cur_len (set_stack a c) lid) with (cur_len a lid) end.
        rewrite (cur_len_set_len_same _ lid). unfold Nlen. rewrite (Forall2_len _ _ _ _ _ Fi). reflexivity.
      + destruct (NewL _ _ H) as [Ng Ni]. rewrite qheap_get_set_other in Hg by exact Ni.
        fold lid. match goal with |- cur_len (set_stack ?a ?c) ?g0 = _ => change (cur_len (set_stack a c) g0) with (cur_len a g0) end.
        rewrite cur_len_set_len_other by exact Ng. exact (c_lens0 g i l' H Hg).
    - exact c_proto0.
    - cbn [set_stack set_len fresh snd d_stale]. rewrite orb_false_r. exact c_stale0.
  Qed.

  (* EMPTY_LIST *)
  Lemma step_empty_list : forall b st pst idx rest, CoreI b st pst ->
    step_ok pd su st (qnew pst (OList []) (q_stack pst)) idx [x5d] rest.
  Proof.
    intros b st pst idx rest C. eexists; eexists. split.
    - apply exec_ret with (op := OEmptyList); try reflexivity.
    - right. cbn [fresh fst snd push].
      pose proof (core_new_list b st pst (d_stack st) (q_stack pst) [] [] C (c_stack _ _ _ _ _ C) (Forall2_nil _)) as N.
      exact N.
  Qed.

  (* LIST *)
  Lemma step_list : forall b st pst idx rest l t, CoreI b st pst ->
    qpop_mark (q_stack pst) [] = Some (l, t) ->
    step_ok pd su st (qnew pst (OList l) t) idx [x6c] rest.
  Proof.
    intros b st pst idx rest l t C H.
    destruct (split_mark_rel pd su _ _ _ _ _ _ _ (c_stack _ _ _ _ _ C) H) as [above [below [items [Sm [Fb [El Fa]]]]]].
    rewrite app_nil_r in El. subst l. eexists; eexists. split.
    - apply exec_ret with (op := Decoder.OList); try reflexivity. cbn [handler]. rewrite Sm. reflexivity.
    - right. cbn [fresh fst snd].
      pose proof (core_new_list b st pst below t (rev above) (rev items) C Fb (Forall2_rev' _ _ _ _ _ Fa)) as N.
      unfold Nlen in N. rewrite rev_length in N. exact N.
  Qed.
End StepsE.

Section StepsF.
  Variable pd su : bool.
  Let cfg := Build_dconfig pd su None.
  Notation Rr := (R pd su).
  Notation CoreI := (Core pd su).
  Notation irel := (item_rel pd su).

  (* a list object extended through a view that shows all of it *)
  Lemma core_list_extend : forall b st pst lid id items l' add addp below t,
    CoreI b st pst -> In (lid, id) b -> qheap_get (q_heap pst) id = Some (OList l') ->
    Forall2 (Rr b (q_heap pst)) items l' ->
    Forall2 (Rr b (q_heap pst)) add addp -> Forall2 (irel b (q_heap pst)) below t ->
    CoreI b (set_stack (set_len st lid (Nlen items + Nlen add) false) (VList lid (items ++ add) :: below))
            (qmutate pst id (OList (l' ++ addp)) (QObj (QRef id) :: t)).
  Proof.
    intros b st pst lid id items l' add addp below t C Hin Hg Fi Fa Fb.
    set (ph' := qheap_set (q_heap pst) id (OList (l' ++ addp))).
    assert (Hh : hext (q_heap pst) ph') by (apply hext_append; exact Hg).
    assert (Hb : incl b b) by (intros p Hp; exact Hp).
    destruct C. constructor;
      cbn [qmutate set_stack set_len d_stack d_memo d_heap d_next d_proto d_lens q_stack q_memo q_heap q_next q_proto].
    - constructor; [|eapply stack_mono; eassumption].
      cbn [item_rel]. apply R_list. split; [exact Hin|]. exists (l' ++ addp).
      split; [apply qheap_get_set_same|].
      assert (L : length (items ++ add) = length (l' ++ addp)).
      { rewrite !app_length, (Forall2_len _ _ _ _ _ Fi), (Forall2_len _ _ _ _ _ Fa). reflexivity. }
      split; [lia|]. rewrite L, firstn_all. apply Forall2_app.
      + eapply Forall2_impl; [|exact Fi]. intros a x Hax. eapply R_mono; eassumption.
      + eapply Forall2_impl; [|exact Fa]. intros a x Hax. eapply R_mono; eassumption.
    - eapply memo_mono; eassumption.
    - exact c_inj3.
    - exact c_inj4.
    - exact c_bound0.
    - intros i o H. destruct (N.eq_dec i id) as [->|Ne]; [exact (c_pbound0 id _ Hg)|].
      unfold ph' in H. rewrite qheap_get_set_other in H by exact Ne. exact (c_pbound0 i o H).
    - exact c_gbound0.
    - intros g i tr Hi Hgi. destruct (N.eq_dec i id) as [->|Ne].
      + unfold ph' in Hgi. rewrite qheap_get_set_same in Hgi. discriminate.
      + unfold ph' in Hgi. rewrite qheap_get_set_other in Hgi by exact Ne.
        destruct (c_dicts0 g i tr Hi Hgi) as [vtr [o [F1 [A1 G1]]]]. exists vtr, o.
        split; [eapply pairs_mono; eassumption|]. split; assumption.
    - intros g i l2 Hi Hgi. destruct (N.eq_dec i id) as [->|Ne].
      + unfold ph' in Hgi. rewrite qheap_get_set_same in Hgi. inversion Hgi; subst.
        assert (g = lid) by (eapply c_inj4; eassumption). subst g.
        match goal with |- cur_len (set_stack ?a ?c) ?g0 = _ => change (cur_len (set_stack a c) g0) with (cur_len a g0) end.
        rewrite cur_len_set_len_same. unfold Nlen. rewrite app_length, Nat2N.inj_add.
        rewrite (Forall2_len _ _ _ _ _ Fi), (Forall2_len _ _ _ _ _ Fa). reflexivity.
      + unfold ph' in Hgi. rewrite qheap_get_set_other in Hgi by exact Ne.
        assert (Ng : g <> lid).
        { intro E. subst g. apply Ne. eapply c_inj3; eassumption. }
        match goal with |- cur_len (set_stack ?a ?c) ?g0 = _ => change (cur_len (set_stack a c) g0) with (cur_len a g0) end.
        rewrite cur_len_set_len_other by exact Ng. exact (c_lens0 g i l2 Hi Hgi).
    - exact c_proto0.
    - cbn [set_stack set_len d_stale]. rewrite orb_false_r. exact c_stale0.
  Qed.

  (* a view that shows the whole list *)
  Lemma full_view : forall b st pst lid items id,
    CoreI b st pst -> Rr b (q_heap pst) (VList lid items) (QRef id) -> Nlen items = cur_len st lid ->
    In (lid, id) b /\ exists l', qheap_get (q_heap pst) id = Some (OList l') /\ Forall2 (Rr b (q_heap pst)) items l'.
  Proof.
    intros b st pst lid items id C H E. apply R_list in H. destruct H as [Hin [l' [Hg [Hl Hf]]]].
    split; [exact Hin|]. exists l'. split; [exact Hg|].
    rewrite (c_lens _ _ _ _ _ C lid id l' Hin Hg) in E. unfold Nlen in E. apply Nat2N.inj in E.
    rewrite E, firstn_all in Hf. exact Hf.
  Qed.

  (* APPEND *)
  Lemma step_append : forall b st pst idx rest x id t l', CoreI b st pst -> d_stale st = false ->
    q_stack pst = QObj x :: QObj (QRef id) :: t -> qheap_get (q_heap pst) id = Some (OList l') ->
    step_ok pd su st (qmutate pst id (OList (l' ++ [x])) (QObj (QRef id) :: t)) idx [x61] rest.
  Proof.
    intros b st pst idx rest x id t l' C Hs Q Hg. pose proof (c_stack _ _ _ _ _ C) as S. rewrite Q in S.
    destruct (stack_cons_inv _ _ _ _ _ _ _ S) as [v [s1 [E1 [R1 S1]]]].
    destruct (stack_cons_inv _ _ _ _ _ _ _ S1) as [lv [s2 [E2 [R2 S2]]]]. subst s1.
    destruct (R_ref_inv _ _ _ _ _ _ R2) as [[lid [items ->]]|[g [-> [Hi [tr Ht]]]]].
    2:{ rewrite Hg in Ht. discriminate. }
    set (n := Nlen items).
    exists b, (set_stack (set_len (set_stack st (VList lid items :: s2)) lid (n + 1) (negb (n =? cur_len st lid)))
                         (VList lid (items ++ [v]) :: s2)).
    split.
    - apply exec_ret with (op := OAppend); try reflexivity. cbn [handler]. rewrite E1.
      rewrite (R_not_mark _ _ _ _ _ _ R1). reflexivity.
    - destruct (n =? cur_len st lid) eqn:En.
      + right. apply N.eqb_eq in En. destruct (full_view _ _ _ _ _ _ C R2 En) as [Hin [l2 [Hg2 Fi]]].
        rewrite Hg in Hg2. inversion Hg2; subst l2.
        pose proof (core_list_extend b st pst lid id items l' [v] [x] s2 t C Hin Hg Fi
                      (Forall2_cons _ _ R1 (Forall2_nil _)) S2) as N.
        exact N.
      + left. split; [cbn; rewrite Hs; reflexivity|left; reflexivity].
  Qed.

  (* APPENDS *)
  Lemma step_appends : forall b st pst idx rest items id t l', CoreI b st pst -> d_stale st = false ->
    qpop_mark (q_stack pst) [] = Some (items, QObj (QRef id) :: t) ->
    qheap_get (q_heap pst) id = Some (OList l') ->
    step_ok pd su st (qmutate pst id (OList (l' ++ items)) (QObj (QRef id) :: t)) idx [x65] rest.
  Proof.
    intros b st pst idx rest items id t l' C Hs H Hg.
    destruct (split_mark_rel pd su _ _ _ _ _ _ _ (c_stack _ _ _ _ _ C) H) as [above [below [pitems [Sm [Fb [El Fa]]]]]].
    rewrite app_nil_r in El. subst items.
    destruct (stack_cons_inv _ _ _ _ _ _ _ Fb) as [lv [s2 [E2 [R2 S2]]]]. subst below.
    destruct (R_ref_inv _ _ _ _ _ _ R2) as [[lid [gitems ->]]|[g [-> [Hi [tr Ht]]]]].
    2:{ rewrite Hg in Ht. discriminate. }
    destruct above as [|a0 ar].
    - (* nothing to append *)
      inversion Fa; subst. cbn [rev]. exists b, (set_stack st (VList lid gitems :: s2)). split.
      + apply exec_ret with (op := OAppends); try reflexivity. cbn [handler]. rewrite Sm. reflexivity.
      + right. rewrite app_nil_r.
        (* the Python heap is rewritten with the same list *)
        assert (Hh : hext (q_heap pst) (qheap_set (q_heap pst) id (OList l'))).
        { pose proof (hext_append (q_heap pst) id l' [] Hg) as X. rewrite app_nil_r in X. exact X. }
        assert (Hb : incl b b) by (intros p Hp; exact Hp).
        destruct C. constructor;
          cbn [qmutate set_stack d_stack d_memo d_heap d_next d_proto d_lens q_stack q_memo q_heap q_next q_proto].
        * constructor; [eapply (R_mono pd su b b); eassumption|eapply stack_mono; eassumption].
        * eapply memo_mono; eassumption.
        * exact c_inj3.
        * exact c_inj4.
        * exact c_bound0.
        * intros i o Hq. destruct (N.eq_dec i id) as [->|Ne]; [exact (c_pbound0 id _ Hg)|].
          rewrite qheap_get_set_other in Hq by exact Ne. exact (c_pbound0 i o Hq).
        * exact c_gbound0.
        * intros g i tr Hi Hgi. destruct (N.eq_dec i id) as [->|Ne].
          -- rewrite qheap_get_set_same in Hgi. discriminate.
          -- rewrite qheap_get_set_other in Hgi by exact Ne.
             destruct (c_dicts0 g i tr Hi Hgi) as [vtr [o [F1 [A1 G1]]]]. exists vtr, o.
             split; [eapply pairs_mono; eassumption|]. split; assumption.
        * intros g i l2 Hi Hgi. destruct (N.eq_dec i id) as [->|Ne].
          -- rewrite qheap_get_set_same in Hgi. inversion Hgi; subst l2. exact (c_lens0 g id l' Hi Hg).
          -- rewrite qheap_get_set_other in Hgi by exact Ne. exact (c_lens0 g i l2 Hi Hgi).
        * exact c_proto0.
        * exact c_stale0.
    - set (n := Nlen gitems).
      exists b, (set_stack (set_len st lid (n + Nlen (a0 :: ar)) (negb (n =? cur_len st lid)))
                           (VList lid (gitems ++ rev (a0 :: ar)) :: s2)).
      split.
      + apply exec_ret with (op := OAppends); try reflexivity. cbn [handler]. rewrite Sm. reflexivity.
      + destruct (n =? cur_len st lid) eqn:En.
        * right. apply N.eqb_eq in En. destruct (full_view _ _ _ _ _ _ C R2 En) as [Hin [l2 [Hg2 Fi]]].
          rewrite Hg in Hg2. inversion Hg2; subst l2.
          pose proof (core_list_extend b st pst lid id gitems l' (rev (a0 :: ar)) (rev pitems) s2 t C Hin Hg Fi
                        (Forall2_rev' _ _ _ _ _ Fa) S2) as N.
          unfold Nlen in N at 2. rewrite rev_length in N. exact N.
        * left. split; [cbn; rewrite Hs; reflexivity|right; reflexivity].
  Qed.
End StepsF.

Section StepsG.
  Variable pd su : bool.
  Notation Rr := (R pd su).
  Notation CoreI := (Core pd su).
  Notation irel := (item_rel pd su).
  Notation prel := (pair_rel pd su).

  Definition kind_ok (o : hobj) : Prop := match o with HMap _ => pd = false | HDict _ => pd = true end.

  Fixpoint flatten (vtr : list (val * val)) : list val :=
    match vtr with [] => [] | (k, v) :: t => k :: v :: flatten t end.

  Lemma kind_empty : kind_ok (empty_obj pd).
  Proof. unfold empty_obj, kind_ok. destruct pd; reflexivity. Qed.

  Lemma obj_assign_kind : forall o k v o', kind_ok o -> obj_assign o k v = Some o' -> kind_ok o'.
  Proof.
    intros o k v o' K H. destruct o; cbn in H.
    - destruct (go_unhashable k); inversion H; subst. exact K.
    - destruct (dict_set choose_first k v es); inversion H; subst. exact K.
  Qed.

  Lemma try_assign_spec : forall h g o k v, heap_get h g = Some o -> kind_ok o ->
    try_assign h (dict_val pd g) k v =
    match obj_assign o k v with Some o' => Some (heap_set h g o') | None => None end.
  Proof.
    intros h g o k v Hg K. unfold dict_val. destruct o; cbn in K; rewrite K; cbn [try_assign]; rewrite Hg; cbn [obj_assign].
    - destruct (go_unhashable k); reflexivity.
    - destruct (dict_set choose_first k v es); reflexivity.
  Qed.

  Lemma assign_pairs_spec : forall vtr h g o, heap_get h g = Some o -> kind_ok o ->
    match obj_assign_all o vtr with
    | Some o' => exists h', assign_pairs h (dict_val pd g) (flatten vtr) = (h', true) /\ heap_get h' g = Some o' /\
                            (forall j, j <> g -> heap_get h' j = heap_get h j)
    | None => exists h', assign_pairs h (dict_val pd g) (flatten vtr) = (h', false)
    end.
  Proof.
    induction vtr as [|[k v] t IH]; intros h g o Hg K; cbn [obj_assign_all flatten assign_pairs].
    - exists h. split; [reflexivity|]. split; [exact Hg|]. intros j _. reflexivity.
    - rewrite (try_assign_spec h g o k v Hg K). destruct (obj_assign o k v) as [o1|] eqn:A.
      + specialize (IH (heap_set h g o1) g o1 (heap_get_set_same h g o1) (obj_assign_kind _ _ _ _ K A)).
        destruct (obj_assign_all o1 t) as [o'|].
        * destruct IH as [h' [P1 [P2 P3]]]. exists h'. split; [exact P1|]. split; [exact P2|].
          intros j Hj. rewrite (P3 j Hj). apply heap_get_set_other. exact Hj.
        * exact IH.
      + exists h. reflexivity.
  Qed.

  Lemma obj_assign_all_app : forall a c o o1, obj_assign_all o a = Some o1 ->
    obj_assign_all o (a ++ c) = obj_assign_all o1 c.
  Proof.
    induction a as [|[k v] t IH]; intros c o o1 H; cbn in *.
    - inversion H; reflexivity.
    - destruct (obj_assign o k v); [|discriminate]. apply IH. exact H.
  Qed.

  (* in PyDict mode hashable keys are always accepted *)
  Lemma dict_assign_all_ok : forall vtr o, pd = true -> kind_ok o ->
    Forall (fun kv => hashable (fst kv) = true) vtr -> exists o', obj_assign_all o vtr = Some o'.
  Proof.
    induction vtr as [|[k v] t IH]; intros o Hp K F; cbn [obj_assign_all].
    - exists o. reflexivity.
    - inversion F as [|? ? Hk Ft]; subst. cbn in Hk. destruct o; cbn in K; [congruence|].
      cbn [obj_assign]. unfold dict_set, dict_del. rewrite Hk.
      apply IH; [exact Hp|exact Hp|exact Ft].
  Qed.

  Lemma q_pairs_rel_n : forall b ph n l, (length l <= n)%nat -> forall vs tr,
    Forall2 (Rr b ph) vs l -> q_pairs l = Some tr ->
    exists vtr, vs = flatten vtr /\ Forall2 (prel b ph) vtr tr /\
                Forall (fun kv => hashable (fst kv) = true) vtr /\ Nat.odd (length vs) = false.
  Proof.
    intros b ph. induction n as [|n IH]; intros l Hl vs tr F H.
    - destruct l; [|cbn in Hl; lia]. inversion F; subst. cbn in H. inversion H; subst.
      exists []. repeat split; constructor.
    - destruct l as [|x0 [|x1 t]].
      + inversion F; subst. cbn in H. inversion H; subst. exists []. repeat split; constructor.
      + cbn in H. discriminate.
      + cbn [q_pairs] in H. destruct (q_hashable x0) eqn:Hx; [|discriminate].
        destruct (q_pairs t) as [r|] eqn:Pr; [|discriminate]. inversion H; subst.
        inversion F as [|k ? vs1 ? Hk F1]; subst. inversion F1 as [|v ? vs2 ? Hv F2]; subst.
        destruct (IH t ltac:(cbn in Hl; lia) vs2 r F2 Pr) as [vtr [E [Fp [Fh Od]]]].
        exists ((k, v) :: vtr). subst vs2. split; [reflexivity|]. split; [constructor; [split; assumption|exact Fp]|].
        split; [constructor; [cbn; eapply R_hashable; eassumption|exact Fh]|].
        cbn [length]. rewrite Nat.odd_succ, Nat.even_succ. exact Od.
  Qed.

  Lemma q_pairs_rel : forall b ph vs l tr, Forall2 (Rr b ph) vs l -> q_pairs l = Some tr ->
    exists vtr, vs = flatten vtr /\ Forall2 (prel b ph) vtr tr /\
                Forall (fun kv => hashable (fst kv) = true) vtr /\ Nat.odd (length vs) = false.
  Proof. intros b ph vs l tr F H. eapply q_pairs_rel_n; [apply Nat.le_refl|exact F|exact H]. Qed.
End StepsG.

Section StepsH.
  Variable pd su : bool.
  Let cfg := Build_dconfig pd su None.
  Notation Rr := (R pd su).
  Notation CoreI := (Core pd su).
  Notation irel := (item_rel pd su).
  Notation prel := (pair_rel pd su).

  (* the decoder state after an instruction, described by its projections *)
  Definition same_but (st st' : dstate) (s : list val) (h : heap) (nx : N) : Prop :=
    d_stack st' = s /\ d_memo st' = d_memo st /\ d_heap st' = h /\ d_next st' = nx /\
    d_proto st' = d_proto st /\ d_lens st' = d_lens st /\ d_stale st' = d_stale st.

  Lemma R_dict_val : forall b ph g i tr, In (g, i) b -> qheap_get ph i = Some (ODict tr) ->
    Rr b ph (dict_val pd g) (QRef i).
  Proof.
    intros b ph g i tr Hi Hg. unfold dict_val. destruct pd eqn:E; cbn; (split; [reflexivity|]); (split; [exact Hi|]); exists tr; exact Hg.
  Qed.

  (* a new dict object holding the assignments vtr ~ tr *)
  Lemma core_new_dict : forall b st pst st' below t vtr tr o' h',
    CoreI b st pst -> Forall2 (irel b (q_heap pst)) below t -> Forall2 (prel b (q_heap pst)) vtr tr ->
    obj_assign_all (empty_obj pd) vtr = Some o' ->
    heap_get h' (d_next st) = Some o' -> (forall j, j <> d_next st -> heap_get h' j = heap_get (d_heap st) j) ->
    same_but st st' (dict_val pd (d_next st) :: below) h' (d_next st + 1) ->
    CoreI ((d_next st, q_next pst) :: b) st' (qnew pst (ODict tr) t).
  Proof.
    intros b st pst st' below t vtr tr o' h' C Fb Fp Ao Hg' Ho [Es [Em [Eh [En [Ep [El Et]]]]]].
    set (gid := d_next st) in *. set (id := q_next pst). set (b' := (gid, id) :: b).
    set (ph' := qheap_set (q_heap pst) id (ODict tr)).
    assert (Hn : qheap_get (q_heap pst) id = None) by (apply fresh_none; exact (c_pbound _ _ _ _ _ C)).
    assert (Hb : incl b b') by (intros p Hp; right; exact Hp).
    assert (Hh : hext (q_heap pst) ph') by (apply hext_new; exact Hn).
    assert (NewL : forall g i, In (g, i) b -> g <> gid /\ i <> id).
    { intros g i Hi. destruct (c_bound _ _ _ _ _ C g i Hi). unfold gid, id. split; lia. }
    destruct C. constructor; cbn [qnew q_stack q_memo q_heap q_next q_proto]; fold id; fold ph'.
    - rewrite Es. constructor; [|eapply stack_mono; eassumption].
      cbn [item_rel]. eapply R_dict_val; [left; reflexivity|apply qheap_get_set_same].
    - rewrite Em. eapply memo_mono; eassumption.
    - intros g i1 i2 [E1|H1] [E2|H2].
      + congruence.
      + inversion E1; subst. destruct (NewL _ _ H2). congruence.
      + inversion E2; subst. destruct (NewL _ _ H1). congruence.
      + eapply c_inj3; eassumption.
    - intros g1 g2 i [E1|H1] [E2|H2].
      + congruence.
      + inversion E1; subst. destruct (NewL _ _ H2). congruence.
      + inversion E2; subst. destruct (NewL _ _ H1). congruence.
      + eapply c_inj4; eassumption.
    - rewrite En. intros g i [E|H]; [inversion E; subst; unfold gid, id; split; lia|].
      destruct (c_bound0 g i H). split; lia.
    - intros i o H. destruct (N.eq_dec i id) as [->|Ne]; [lia|].
      unfold ph' in H. rewrite qheap_get_set_other in H by exact Ne. specialize (c_pbound0 i o H). lia.
    - rewrite Eh, En. intros g o H. destruct (N.eq_dec g gid) as [->|Ne]; [unfold gid; lia|].
      rewrite Ho in H by exact Ne. specialize (c_gbound0 g o H). lia.
    - rewrite Eh. intros g i tr0 [E|H] Hgi.
      + inversion E; subst g i. unfold ph' in Hgi. rewrite qheap_get_set_same in Hgi. inversion Hgi; subst tr0.
        exists vtr, o'. split; [eapply pairs_mono; eassumption|]. split; [exact Ao|exact Hg'].
      + destruct (NewL _ _ H) as [Ng Ni]. unfold ph' in Hgi. rewrite qheap_get_set_other in Hgi by exact Ni.
        destruct (c_dicts0 g i tr0 H Hgi) as [vtr0 [o [F1 [A1 G1]]]]. exists vtr0, o.
        split; [eapply pairs_mono; eassumption|]. split; [exact A1|]. rewrite Ho by exact Ng. exact G1.
    - intros g i l' [E|H] Hgi.
      + inversion E; subst g i. unfold ph' in Hgi. rewrite qheap_get_set_same in Hgi. discriminate.
      + destruct (NewL _ _ H) as [Ng Ni]. unfold ph' in Hgi. rewrite qheap_get_set_other in Hgi by exact Ni.
        unfold cur_len. rewrite El. exact (c_lens0 g i l' H Hgi).
    - rewrite Ep. exact c_proto0.
    - rewrite Et. exact c_stale0.
  Qed.

  (* an existing dict object assigned to *)
  Lemma core_dict_update : forall b st pst st' g i tr vtr o vnew new o' h' s s',
    CoreI b st pst -> In (g, i) b -> qheap_get (q_heap pst) i = Some (ODict tr) ->
    Forall2 (prel b (q_heap pst)) vtr tr -> obj_assign_all (empty_obj pd) vtr = Some o ->
    Forall2 (prel b (q_heap pst)) vnew new -> obj_assign_all o vnew = Some o' ->
    heap_get h' g = Some o' -> (forall j, j <> g -> heap_get h' j = heap_get (d_heap st) j) ->
    heap_get (d_heap st) g = Some o ->
    Forall2 (irel b (q_heap pst)) s s' ->
    same_but st st' s h' (d_next st) ->
    CoreI b st' (qmutate pst i (ODict (tr ++ new)) s').
  Proof.
    intros b st pst st' g i tr vtr o vnew new o' h' s s' C Hin Hgi Fv Ao Fn An Hg' Ho Hgo Fs [Es [Em [Eh [En [Ep [El Et]]]]]].
    set (ph' := qheap_set (q_heap pst) i (ODict (tr ++ new))).
    assert (Hh : hext (q_heap pst) ph') by (eapply hext_assign; exact Hgi).
    assert (Hb : incl b b) by (intros p Hp; exact Hp).
    destruct C. constructor; cbn [qmutate q_stack q_memo q_heap q_next q_proto]; fold ph'.
    - rewrite Es. eapply stack_mono; eassumption.
    - rewrite Em. eapply memo_mono; eassumption.
    - exact c_inj3.
    - exact c_inj4.
    - rewrite En. exact c_bound0.
    - intros j o0 H. destruct (N.eq_dec j i) as [->|Ne]; [exact (c_pbound0 i _ Hgi)|].
      unfold ph' in H. rewrite qheap_get_set_other in H by exact Ne. exact (c_pbound0 j o0 H).
    - rewrite Eh, En. intros j o0 H. destruct (N.eq_dec j g) as [->|Ne]; [exact (c_gbound0 g o Hgo)|].
      rewrite Ho in H by exact Ne. exact (c_gbound0 j o0 H).
    - rewrite Eh. intros g0 i0 tr0 Hi0 Hq. destruct (N.eq_dec i0 i) as [->|Ne].
      + assert (g0 = g) by (eapply c_inj4; eassumption). subst g0.
        unfold ph' in Hq. rewrite qheap_get_set_same in Hq. inversion Hq; subst tr0.
        exists (vtr ++ vnew), o'. split; [apply Forall2_app; eapply pairs_mono; eassumption|].
        split; [rewrite (obj_assign_all_app _ _ _ _ Ao); exact An|exact Hg'].
      + unfold ph' in Hq. rewrite qheap_get_set_other in Hq by exact Ne.
        assert (Ng : g0 <> g). { intro E. subst g0. apply Ne. eapply c_inj3; eassumption. }
        destruct (c_dicts0 g0 i0 tr0 Hi0 Hq) as [vtr0 [o0 [F1 [A1 G1]]]]. exists vtr0, o0.
        split; [eapply pairs_mono; eassumption|]. split; [exact A1|]. rewrite Ho by exact Ng. exact G1.
    - intros g0 i0 l' Hi0 Hq. destruct (N.eq_dec i0 i) as [->|Ne].
      + unfold ph' in Hq. rewrite qheap_get_set_same in Hq. discriminate.
      + unfold ph' in Hq. rewrite qheap_get_set_other in Hq by exact Ne.
        unfold cur_len. rewrite El. exact (c_lens0 g0 i0 l' Hi0 Hq).
    - rewrite Ep. exact c_proto0.
    - rewrite Et. exact c_stale0.
  Qed.
End StepsH.

Section StepsI.
  Variable pd su : bool.
  Let cfg := Build_dconfig pd su None.
  Notation Rr := (R pd su).
  Notation CoreI := (Core pd su).
  Notation irel := (item_rel pd su).
  Notation prel := (pair_rel pd su).

  (* the documented exception: default map mode, a key a Go map cannot hold: the handler fails *)
  Definition step_exn (st : dstate) (idx : N) (key : byte) : Prop :=
    pd = false /\ exists op st' e, opcode_of_byte key = Some op /\ is_stop op = false /\
                                   handler cfg op key (idx + 1) st = fail st' e.

  (* EMPTY_DICT *)
  Lemma step_empty_dict : forall b st pst idx rest, CoreI b st pst ->
    step_ok pd su st (qnew pst (ODict []) (q_stack pst)) idx [x7d] rest.
  Proof.
    intros b st pst idx rest C.
    exists ((d_next st, q_next pst) :: b).
    exists (push (dict_val pd (d_next st)) (set_heap (snd (fresh st)) (heap_set (d_heap st) (d_next st) (empty_obj pd)))).
    split.
    - apply exec_ret with (op := OEmptyDict); try reflexivity. cbn [handler]. unfold new_dict_obj, dict_val, empty_obj.
      cbn [fresh c_pydict cfg]. destruct pd; reflexivity.
    - right. eapply core_new_dict with (vtr := []) (below := d_stack st); try exact C.
      + exact (c_stack _ _ _ _ _ C).
      + constructor.
      + reflexivity.
      + apply heap_get_set_same.
      + intros j Hj. apply heap_get_set_other. exact Hj.
      + repeat split.
  Qed.

  (* DICT *)
  Lemma step_dict : forall b st pst idx rest l t tr, CoreI b st pst ->
    qpop_mark (q_stack pst) [] = Some (l, t) -> q_pairs l = Some tr ->
    step_ok pd su st (qnew pst (ODict tr) t) idx [x64] rest \/ step_exn st idx x64.
  Proof.
    intros b st pst idx rest l t tr C H Hp.
    destruct (split_mark_rel pd su _ _ _ _ _ _ _ (c_stack _ _ _ _ _ C) H) as [above [below [items [Sm [Fb [El Fa]]]]]].
    rewrite app_nil_r in El. subst l.
    destruct (q_pairs_rel pd su _ _ _ _ _ (Forall2_rev' _ _ _ _ _ Fa) Hp) as [vtr [Ev [Fp [Fh Od]]]].
    rewrite rev_length in Od.
    set (gid := d_next st). set (h0 := heap_set (d_heap st) gid (empty_obj pd)).
    pose proof (assign_pairs_spec pd vtr h0 gid (empty_obj pd) (heap_get_set_same _ _ _) (kind_empty pd)) as AP.
    assert (HD : handler cfg Decoder.ODict x64 (idx + 1) st =
                 match assign_pairs h0 (dict_val pd gid) (rev above) with
                 | (h, true) => ok (set_stack (set_heap (set_heap (snd (fresh st)) h0) h) (dict_val pd gid :: below))
                 | (_, false) => fail st EOther
                 end).
    { cbn [handler]. rewrite Sm, Od. unfold new_dict_obj, dict_val, empty_obj, h0, gid. cbn [fresh c_pydict cfg].
      destruct pd; reflexivity. }
    rewrite Ev in HD.
    destruct (obj_assign_all (empty_obj pd) vtr) as [o'|] eqn:Ao.
    - destruct AP as [h' [P1 [P2 P3]]]. rewrite P1 in HD. left.
      exists ((d_next st, q_next pst) :: b).
      exists (set_stack (set_heap (set_heap (snd (fresh st)) h0) h') (dict_val pd gid :: below)).
      split; [apply exec_ret with (op := Decoder.ODict); try reflexivity; exact HD|]. right.
      eapply core_new_dict with (vtr := vtr) (below := below); try exact C; try eassumption.
      + intros j Hj. rewrite (P3 j Hj). apply heap_get_set_other. exact Hj.
      + repeat split.
    - destruct AP as [h' P1]. rewrite P1 in HD. right. split.
      + destruct pd eqn:Epd; [|reflexivity]. exfalso.
        destruct (dict_assign_all_ok true vtr (empty_obj true) eq_refl (kind_empty true) Fh) as [o' Ho']. congruence.
      + exists Decoder.ODict, st, EOther. split; [reflexivity|]. split; [reflexivity|exact HD].
  Qed.
End StepsI.

Section StepsJ.
  Variable pd su : bool.
  Let cfg := Build_dconfig pd su None.
  Notation Rr := (R pd su).
  Notation CoreI := (Core pd su).
  Notation irel := (item_rel pd su).
  Notation prel := (pair_rel pd su).

  Lemma obj_assign_all_kind : forall vtr o o', kind_ok pd o -> obj_assign_all o vtr = Some o' -> kind_ok pd o'.
  Proof.
    induction vtr as [|[k v] t IH]; intros o o' K H; cbn in H.
    - inversion H; subst. exact K.
    - destruct (obj_assign o k v) as [o1|] eqn:A; [|discriminate]. eapply IH; [|exact H].
      eapply obj_assign_kind; eassumption.
  Qed.

  (* the dict object under a QRef whose Python object is a dict *)
  Lemma dict_view : forall b st pst m id tr,
    CoreI b st pst -> Rr b (q_heap pst) m (QRef id) -> qheap_get (q_heap pst) id = Some (ODict tr) ->
    exists g vtr o, m = dict_val pd g /\ In (g, id) b /\ Forall2 (prel b (q_heap pst)) vtr tr /\
                    obj_assign_all (empty_obj pd) vtr = Some o /\ heap_get (d_heap st) g = Some o /\ kind_ok pd o.
  Proof.
    intros b st pst m id tr C Rm Hg. destruct (R_ref_inv _ _ _ _ _ _ Rm) as [[lid [items ->]]|[g [-> [Hi _]]]].
    - apply R_list in Rm. destruct Rm as [_ [l' [Hl _]]]. rewrite Hg in Hl. discriminate.
    - destruct (c_dicts _ _ _ _ _ C g id tr Hi Hg) as [vtr [o [F [A G]]]].
      exists g, vtr, o. repeat split; try assumption. eapply obj_assign_all_kind; [apply kind_empty|exact A].
  Qed.

  (* SETITEM *)
  Lemma step_setitem : forall b st pst idx rest v k id t tr, CoreI b st pst ->
    q_stack pst = QObj v :: QObj k :: QObj (QRef id) :: t ->
    qheap_get (q_heap pst) id = Some (ODict tr) -> q_hashable k = true ->
    step_ok pd su st (qmutate pst id (ODict (tr ++ [(k, v)])) (QObj (QRef id) :: t)) idx [x73] rest
    \/ step_exn pd su st idx x73.
  Proof.
    intros b st pst idx rest xv xk id t tr C Q Hg Hk. pose proof (c_stack _ _ _ _ _ C) as S. rewrite Q in S.
    destruct (stack_cons_inv _ _ _ _ _ _ _ S) as [v [s1 [E1 [R1 S1]]]].
    destruct (stack_cons_inv _ _ _ _ _ _ _ S1) as [k [s2 [E2 [R2 S2]]]]. subst s1.
    destruct (stack_cons_inv _ _ _ _ _ _ _ S2) as [m [s3 [E3 [R3 S3]]]]. subst s2.
    destruct (dict_view _ _ _ _ _ _ C R3 Hg) as [g [vtr [o [-> [Hin [Fv [Ao [Hgo K]]]]]]]].
    assert (HD : handler cfg OSetitem x73 (idx + 1) st =
                 match obj_assign o k v with
                 | Some o' => ok (set_heap (set_stack st (dict_val pd g :: s3)) (heap_set (d_heap st) g o'))
                 | None => fail (set_stack st (dict_val pd g :: s3)) EOther
                 end).
    { cbn [handler]. rewrite E1. rewrite (R_not_mark _ _ _ _ _ _ R1), (R_not_mark _ _ _ _ _ _ R2). cbn [orb].
      pose proof (try_assign_spec pd (d_heap st) g o k v Hgo K) as T.
      cbn [set_stack d_heap]. unfold dict_val in *. destruct pd; cbn [c_pydict] in *; rewrite T; destruct (obj_assign o k v); reflexivity. }
    destruct (obj_assign o k v) as [o'|] eqn:A.
    - left. exists b, (set_heap (set_stack st (dict_val pd g :: s3)) (heap_set (d_heap st) g o')). split.
      + apply exec_ret with (op := OSetitem); try reflexivity. exact HD.
      + right.
        assert (An : obj_assign_all o [(k, v)] = Some o') by (cbn [obj_assign_all]; rewrite A; reflexivity).
        assert (Fn : Forall2 (prel b (q_heap pst)) [(k, v)] [(xk, xv)]) by (constructor; [split; assumption|constructor]).
        assert (Fs : Forall2 (irel b (q_heap pst)) (dict_val pd g :: s3) (QObj (QRef id) :: t)) by (constructor; [exact R3|exact S3]).
        refine (core_dict_update pd su b st pst _ g id tr vtr o [(k, v)] [(xk, xv)] o' (heap_set (d_heap st) g o')
                  (dict_val pd g :: s3) _ C Hin Hg Fv Ao Fn An (heap_get_set_same _ _ _) _ Hgo Fs _).
        * intros j Hj. apply heap_get_set_other. exact Hj.
        * repeat split.
    - right. split.
      + destruct pd eqn:Epd; [|reflexivity]. exfalso. destruct o; cbn in K; [discriminate|].
        cbn [obj_assign] in A. unfold dict_set, dict_del in A.
        rewrite (R_hashable _ _ _ _ _ _ R2 Hk) in A. discriminate.
      + eexists; eexists; eexists. split; [reflexivity|]. split; [reflexivity|exact HD].
  Qed.

  (* SETITEMS *)
  Lemma step_setitems : forall b st pst idx rest items id t tr new, CoreI b st pst ->
    qpop_mark (q_stack pst) [] = Some (items, QObj (QRef id) :: t) ->
    qheap_get (q_heap pst) id = Some (ODict tr) -> q_pairs items = Some new ->
    step_ok pd su st (qmutate pst id (ODict (tr ++ new)) (QObj (QRef id) :: t)) idx [x75] rest
    \/ step_exn pd su st idx x75.
  Proof.
    intros b st pst idx rest items id t tr new C H Hg Hp.
    destruct (split_mark_rel pd su _ _ _ _ _ _ _ (c_stack _ _ _ _ _ C) H) as [above [below [pitems [Sm [Fb [El Fa]]]]]].
    rewrite app_nil_r in El. subst items.
    destruct (stack_cons_inv _ _ _ _ _ _ _ Fb) as [m [s3 [E3 [R3 S3]]]]. subst below.
    destruct (dict_view _ _ _ _ _ _ C R3 Hg) as [g [vtr [o [-> [Hin [Fv [Ao [Hgo K]]]]]]]].
    destruct (q_pairs_rel pd su _ _ _ _ _ (Forall2_rev' _ _ _ _ _ Fa) Hp) as [vnew [Ev [Fp [Fh Od]]]].
    rewrite rev_length in Od.
    pose proof (assign_pairs_spec pd vnew (d_heap st) g o Hgo K) as AP.
    assert (HD : handler cfg OSetitems x75 (idx + 1) st =
                 match assign_pairs (d_heap st) (dict_val pd g) (rev above) with
                 | (h, true) => ok (set_stack (set_heap st h) (dict_val pd g :: s3))
                 | (h, false) => fail (set_heap st h) EOther
                 end).
    { cbn [handler]. rewrite Sm, Od. unfold dict_val. destruct pd; reflexivity. }
    rewrite Ev in HD.
    destruct (obj_assign_all o vnew) as [o'|] eqn:A.
    - destruct AP as [h' [P1 [P2 P3]]]. rewrite P1 in HD. left.
      exists b, (set_stack (set_heap st h') (dict_val pd g :: s3)). split.
      + apply exec_ret with (op := OSetitems); try reflexivity. exact HD.
      + right.
        assert (Fs : Forall2 (irel b (q_heap pst)) (dict_val pd g :: s3) (QObj (QRef id) :: t)) by (constructor; [exact R3|exact S3]).
        refine (core_dict_update pd su b st pst _ g id tr vtr o vnew new o' h'
                  (dict_val pd g :: s3) _ C Hin Hg Fv Ao Fp A P2 P3 Hgo Fs _).
        repeat split.
    - destruct AP as [h' P1]. rewrite P1 in HD. right. split.
      + destruct pd eqn:Epd; [|reflexivity]. exfalso.
        destruct (dict_assign_all_ok true vnew o eq_refl K Fh) as [o' Ho']. congruence.
      + eexists; eexists; eexists. split; [reflexivity|]. split; [reflexivity|exact HD].
  Qed.
End StepsJ.

(* ================================================================================================ *)
(* Part 4: any instruction, then the whole program                                                    *)
(* ================================================================================================ *)

Section Run.
  Variable pd su : bool.
  Let cfg := Build_dconfig pd su None.
  Notation CoreI := (Core pd su).

  Theorem step_sim : forall b st pst pst' idx rest i,
    CoreI b st pst -> d_stale st = false -> qstep i pst = Some pst' ->
    step_ok pd su st pst' idx (asm i) rest \/ (exists key, asm i = [key] /\ step_exn pd su st idx key).
  Proof.
    intros b st pst pst' idx rest i C Hs H. unfold qstep in H.
    destruct (is_leaf i) eqn:L.
    { destruct (pstep (q_proto pst) i []) as [[|[|v] [|? ?]]|] eqn:P; try discriminate. inversion H; subst.
      left. eapply step_leaf; eassumption. }
    destruct i; try discriminate L; try discriminate H; cbn [asm].
    - (* MARK *) inversion H; subst. left. eapply step_mark; eassumption.
    - (* TUPLE *) destruct (qpop_mark (q_stack pst) []) as [[l t]|] eqn:Pm; [|discriminate]. inversion H; subst.
      left. eapply step_tuple; eassumption.
    - (* TUPLE1 *) destruct (q_stack pst) as [|[|a] t] eqn:Q; try discriminate. inversion H; subst.
      left. eapply step_tuple1; eassumption.
    - destruct (q_stack pst) as [|[|c] [|[|a] t]] eqn:Q; try discriminate. inversion H; subst.
      left. eapply step_tuple2; eassumption.
    - destruct (q_stack pst) as [|[|d] [|[|c] [|[|a] t]]] eqn:Q; try discriminate. inversion H; subst.
      left. eapply step_tuple3; eassumption.
    - (* EMPTY_LIST *) inversion H; subst. left. eapply step_empty_list; eassumption.
    - (* LIST *) destruct (qpop_mark (q_stack pst) []) as [[l t]|] eqn:Pm; [|discriminate]. inversion H; subst.
      left. eapply step_list; eassumption.
    - (* EMPTY_DICT *) inversion H; subst. left. eapply step_empty_dict; eassumption.
    - (* DICT *) destruct (qpop_mark (q_stack pst) []) as [[l t]|] eqn:Pm; [|discriminate].
      destruct (q_pairs l) as [tr|] eqn:Qp; [|discriminate]. inversion H; subst.
      destruct (step_dict pd su b st pst idx rest l t tr C Pm Qp) as [K|K]; [left; exact K|right; exists x64; split; [reflexivity|exact K]].
    - (* STACK_GLOBAL *)
      destruct (q_stack pst) as [|[|[]] [|[|[]] t]] eqn:Q; try discriminate. inversion H; subst.
      left. eapply step_stack_global; eassumption.
    - (* REDUCE *)
      destruct (q_stack pst) as [|[|[]] [|[|f] t]] eqn:Q; try discriminate.
      destruct (q_call (q_proto pst) f l) as [r|] eqn:Qc; [|discriminate]. inversion H; subst.
      left. eapply step_reduce; eassumption.
    - (* BINPERSID *) destruct (q_stack pst) as [|[|p] t] eqn:Q; try discriminate. inversion H; subst.
      left. eapply step_binpersid; eassumption.
    - (* PUT *) destruct (memo_index text) as [k|] eqn:Mi; [|discriminate]. left. eapply step_put; eassumption.
    - left. eapply step_binput; eassumption.
    - left. eapply step_long_binput; eassumption.
    - left. eapply step_memoize; eassumption.
    - (* GET *) destruct (memo_index text) as [k|] eqn:Mi; [|discriminate]. left. eapply step_get; eassumption.
    - left. eapply step_binget; eassumption.
    - left. eapply step_long_binget; eassumption.
    - (* DUP *) destruct (q_stack pst) as [|[|v] t] eqn:Q; try discriminate. inversion H; subst.
      left. eapply step_dup; eassumption.
    - (* POP *) destruct (q_stack pst) as [|x t] eqn:Q; try discriminate. inversion H; subst.
      left. eapply step_pop; eassumption.
    - (* APPEND *)
      destruct (q_stack pst) as [|[|x] [|[|[]] t]] eqn:Q; try discriminate.
      destruct (qheap_get (q_heap pst) id) as [[l'|]|] eqn:Hg; try discriminate. inversion H; subst.
      left. eapply step_append; eassumption.
    - (* APPENDS *)
      destruct (qpop_mark (q_stack pst) []) as [[items [|[|[]] t]]|] eqn:Pm; try discriminate.
      destruct (qheap_get (q_heap pst) id) as [[l'|]|] eqn:Hg; try discriminate. inversion H; subst.
      left. eapply step_appends; eassumption.
    - (* SETITEM *)
      destruct (q_stack pst) as [|[|v] [|[|k] [|[|[]] t]]] eqn:Q; try discriminate.
      destruct (qheap_get (q_heap pst) id) as [[|tr]|] eqn:Hg; try discriminate.
      destruct (q_hashable k) eqn:Hk; [|discriminate]. inversion H; subst.
      destruct (step_setitem pd su b st pst idx rest v k id t tr C Q Hg Hk) as [K|K];
        [left; exact K|right; exists x73; split; [reflexivity|exact K]].
    - (* SETITEMS *)
      destruct (qpop_mark (q_stack pst) []) as [[items [|[|[]] t]]|] eqn:Pm; try discriminate.
      destruct (qheap_get (q_heap pst) id) as [[|tr]|] eqn:Hg; try discriminate.
      destruct (q_pairs items) as [new|] eqn:Qp; [|discriminate]. inversion H; subst.
      destruct (step_setitems pd su b st pst idx rest items id t tr new C Pm Hg Qp) as [K|K];
        [left; exact K|right; exists x75; split; [reflexivity|exact K]].
    - (* LONG1 *) destruct (Nlen data <? 256) eqn:E; [|discriminate]. inversion H; subst. apply N.ltb_lt in E.
      left. eapply step_long1; eassumption.
    - (* FRAME *) inversion H; subst. left. eapply step_frame; eassumption.
  Qed.
End Run.

Section Whole.
  Variable pd su : bool.
  Let cfg := Build_dconfig pd su None.
  Notation CoreI := (Core pd su).

  (* how the decoder's run over the bytes of the program can end *)
  Inductive outcome (x : qv) (pstf : qstate) (rest : bytes) (idx : N) (st : dstate) (inp : bytes) : Prop :=
  | O_good : forall i' st' b' v tl,
      exec cfg idx st inp i' st' (x2e :: rest) -> d_stack st' = v :: tl ->
      CoreI b' (set_stack st' tl) pstf -> R pd su b' (q_heap pstf) v x -> d_stale st' = false ->
      outcome x pstf rest idx st inp
  | O_stale : forall i' st' inp',
      exec cfg idx st inp i' st' inp' -> d_stale st' = true -> outcome x pstf rest idx st inp
  | O_exn : forall i' st' key inp',
      exec cfg idx st inp i' st' (key :: inp') -> step_exn pd su st' i' key -> outcome x pstf rest idx st inp.

  Lemma outcome_step : forall x pstf rest idx st inp i1 st1 inp1,
    exec cfg idx st inp i1 st1 inp1 -> outcome x pstf rest i1 st1 inp1 -> outcome x pstf rest idx st inp.
  Proof.
    intros x pstf rest idx st inp i1 st1 inp1 E O. destruct O as [i' st' b' v tl E' S C Rv Hs|i' st' inp' E' Hs|i' st' key inp' E' X].
    - eapply O_good; [eapply exec_trans; eassumption|eassumption..].
    - eapply O_stale; [eapply exec_trans; eassumption|assumption].
    - eapply O_exn; [eapply exec_trans; eassumption|assumption].
  Qed.

  Lemma core_proto : forall b st pst p, CoreI b st pst ->
    CoreI b (set_proto st p) {| q_stack := q_stack pst; q_memo := q_memo pst; q_heap := q_heap pst; q_next := q_next pst; q_proto := p |}.
  Proof. intros b st pst p C. destruct C. constructor; cbn; try assumption. reflexivity. Qed.

  (* what follows the first STOP of a program (nothing, for a program that ends with its STOP) *)
  Fixpoint after_stop (prog : list insn) : list insn :=
    match prog with
    | [] => []
    | IStop :: r => r
    | _ :: r => after_stop r
    end.

  Theorem run_sim : forall prog b st pst idx x pstf rest,
    CoreI b st pst -> d_stale st = false -> qrun prog pst = Some (x, pstf) ->
    outcome x pstf (asm_all (after_stop prog) ++ rest) idx st (asm_all prog ++ rest).
  Proof.
    induction prog as [|i prog IH]; intros b st pst idx x pstf rest C Hs H; [discriminate|].
    assert (Step : forall pst', qstep i pst = Some pst' -> qrun prog pst' = Some (x, pstf) ->
                   outcome x pstf (asm_all (after_stop prog) ++ rest) idx st (asm_all (i :: prog) ++ rest)).
    { intros pst' Hq Hr. unfold asm_all. cbn [flat_map]. rewrite <- app_assoc. fold (asm_all prog).
      destruct (step_sim pd su b st pst pst' idx (asm_all prog ++ rest) i C Hs Hq) as [[b' [st' [E [[St _]|C']]]]|[key [Ek X]]].
      - eapply O_stale; eassumption.
      - destruct (d_stale st') eqn:Hs'; [eapply O_stale; eassumption|].
        eapply outcome_step; [exact E|]. eapply IH; eassumption.
      - rewrite Ek. cbn [app]. eapply O_exn; [apply exec_refl|exact X]. }
    destruct i; cbn [qrun] in H;
      try (destruct (qstep _ pst) as [pst'|] eqn:Hq; [|discriminate]; eapply Step; [reflexivity|exact H]).
    - (* PROTO *)
      match type of H with (if ?q <=? 5 then _ else _) = _ => destruct (q <=? 5) eqn:Ep; [|discriminate]; apply N.leb_le in Ep;
        assert (L : (5 <? q) = false) by (apply N.ltb_ge; exact Ep) end.
      unfold asm_all. cbn [flat_map asm]. cbn [app]. fold (asm_all prog).
      eapply outcome_step.
      + eapply exec_one; [reflexivity|reflexivity|]. cbn [handler run]. rewrite b2N_N2b by lia.
        rewrite L. reflexivity.
      + eapply IH; [apply core_proto; exact C|exact Hs|exact H].
    - (* STOP *)
      destruct (q_stack pst) as [|[|v] t] eqn:Q; try discriminate. inversion H; subst x pstf.
      pose proof (c_stack _ _ _ _ _ C) as S. rewrite Q in S.
      inversion S as [|gv x0 s1 t0 Hv S1 E1]; subst. cbn [item_rel] in Hv.
      unfold asm_all. cbn [flat_map asm app].
      eapply O_good with (b' := b); [apply exec_refl|symmetry; exact E1| |exact Hv|exact Hs].
      apply core_stack_only; [exact C|exact S1].
  Qed.
End Whole.

(* ================================================================================================ *)
(* Part 5: Decode                                                                                      *)
(* ================================================================================================ *)

Section Final.
  Variable pd su : bool.
  Let cfg := Build_dconfig pd su None.

  Lemma core_init : Core pd su [] (start_state init_state) q_init.
  Proof.
    constructor; cbn; try (intros; contradiction); try (intros; discriminate); try constructor.
  Qed.

  (* C06.  For every instruction list prog over the opcodes Decode implements, if the CPython machine
     loads x from it (leaving heap q_heap pstf), then Decode on the bytes of prog, followed by
     anything, ends in one of three ways:
       (1) it returns a value v standing for x (R: same structure, numbers, text and bytes; a Go list
           shows a prefix of the Python list it stands for - all of it unless an alias appended later;
           maps / Dicts hold exactly the assignments made, C09), the invariant Core holds of the final
           states, and no append through a stale list view ever happened;
       (2) at some instruction a list was appended to through a view that another alias had already
           extended (d_stale): the territory of the recorded finding stale_list_view - no claim;
       (3) PyDict is off and a dict key the Go map cannot hold was assigned: Decode returns an error
           (the documented exception). *)
  Theorem decode_sim : forall prog x pstf rest,
    qload prog = Some (x, pstf) ->
    (exists v st' b' after,
        decode cfg init_state (asm_all prog ++ rest) = ((Ok v, st'), after) /\
        R pd su b' (q_heap pstf) v x /\ Core pd su b' st' pstf /\ d_stale st' = false)
    \/ (exists i' st' inp',
          exec cfg 0 (start_state init_state) (asm_all prog ++ rest) i' st' inp' /\ d_stale st' = true)
    \/ (pd = false /\ exists e st' after, decode cfg init_state (asm_all prog ++ rest) = ((Err e, st'), after)).
  Proof.
    intros prog x pstf rest H. unfold qload in H.
    destruct (run_sim pd su prog [] (start_state init_state) q_init 0 x pstf rest core_init eq_refl H)
      as [i' st' b' v tl E S C Rv Hs|i' st' inp' E Hs|i' st' key inp' E [Hp [op [st'' [e [Ho [Hst Hh]]]]]]].
    - left. exists v, (set_stack st' tl), b', (asm_all (after_stop prog) ++ rest). split; [|split; [exact Rv|split; [exact C|exact Hs]]].
      eapply exec_decode; [exact E|exact S|]. eapply R_not_mark. exact Rv.
    - right. left. exists i', st', inp'. split; assumption.
    - right. right. split; [exact Hp|]. exists e, st'', inp'. eapply exec_decode_err; eassumption.
  Qed.
End Final.

(* ---- streams (C11): successive Decode calls on one Decoder against successive load() calls on one
   CPython Unpickler (which keeps its memo and objects between calls, and starts each call with an
   empty stack and protocol 0, like Decode) ------------------------------------------------------- *)
Section Stream.
  Variable pd su : bool.
  Let cfg := Build_dconfig pd su None.

  Lemma core_restart : forall b st pst, Core pd su b st pst -> Core pd su b (start_state st) (qrestart pst).
  Proof.
    intros b st pst C. destruct C. constructor; cbn; try assumption; [constructor|reflexivity].
  Qed.

  (* successive Decode calls, as long as neither exception of C06 occurs: call k returns a value
     standing for the k-th loaded Python value (in the Python heap of that moment), consuming
     exactly its pickle *)
  Inductive stream_rel : dstate -> bytes -> list (qv * qstate) -> Prop :=
  | sr_nil : forall st inp, stream_rel st inp []
  | sr_good : forall st inp x pst' xs v st' after b',
      decode cfg st inp = ((Ok v, st'), after) ->
      R pd su b' (q_heap pst') v x -> Core pd su b' st' pst' -> d_stale st' = false ->
      stream_rel st' after xs -> stream_rel st inp ((x, pst') :: xs)
  | sr_stale : forall st inp x pst' xs i' st' inp',
      exec cfg 0 (start_state st) inp i' st' inp' -> d_stale st' = true ->
      stream_rel st inp ((x, pst') :: xs)
  | sr_exn : forall st inp x pst' xs e st' after,
      pd = false -> decode cfg st inp = ((Err e, st'), after) ->
      stream_rel st inp ((x, pst') :: xs).

  Theorem stream_sim : forall progs b st pst xs rest,
    Core pd su b (start_state st) (qrestart pst) -> d_stale st = false ->
    Forall (fun p => after_stop p = []) progs ->
    qload_all progs pst = Some xs ->
    stream_rel st (concat (map asm_all progs) ++ rest) xs.
  Proof.
    induction progs as [|p r IH]; intros b st pst xs rest C Hs Hf H; cbn [qload_all] in H.
    - inversion H; subst. apply sr_nil.
    - destruct (qrun p (qrestart pst)) as [[x pst']|] eqn:Hq; [|discriminate].
      destruct (qload_all r pst') as [xs'|] eqn:Hr; [|discriminate]. inversion H; subst xs.
      inversion Hf as [|p0 r0 Hp Hf']; subst.
      cbn [map concat]. rewrite <- app_assoc.
      pose proof (run_sim pd su p b (start_state st) (qrestart pst) 0 x pst' (concat (map asm_all r) ++ rest) C Hs Hq) as O.
      rewrite Hp in O. cbn [asm_all flat_map app] in O.
      destruct O as [i' st' b' v tl E S C' Rv Hs'|i' st' inp' E Hs'|i' st' key inp' E [Hpd [op [st'' [e [Ho [Hst Hh]]]]]]].
      + eapply sr_good with (v := v) (st' := set_stack st' tl) (b' := b').
        * eapply exec_decode; [exact E|exact S|]. eapply R_not_mark. exact Rv.
        * exact Rv.
        * exact C'.
        * exact Hs'.
        * eapply IH; [apply core_restart; exact C'|exact Hs'|exact Hf'|exact Hr].
      + eapply sr_stale; eassumption.
      + eapply sr_exn; [exact Hpd|]. eapply exec_decode_err; eassumption.
  Qed.

  (* from a fresh Decoder and a fresh Unpickler *)
  Corollary stream_sim_fresh : forall progs xs rest,
    Forall (fun p => after_stop p = []) progs ->
    qload_all progs q_init = Some xs ->
    stream_rel init_state (concat (map asm_all progs) ++ rest) xs.
  Proof.
    intros progs xs rest Hf H. eapply stream_sim with (b := []); [|reflexivity|exact Hf|exact H].
    exact (core_init pd su).
  Qed.
End Stream.

(* C09: what a decoded dict object holds *)
Section DictResult.
  Variable pd su : bool.
  Let cfg := Build_dconfig pd su None.

  Theorem decode_sim_dict : forall prog id tr pstf rest,
    qload prog = Some (QRef id, pstf) -> qheap_get (q_heap pstf) id = Some (ODict tr) ->
    (exists g st' b' after vtr o,
        decode cfg init_state (asm_all prog ++ rest) = ((Ok (dict_val pd g), st'), after) /\
        Forall2 (pair_rel pd su b' (q_heap pstf)) vtr tr /\
        obj_assign_all (empty_obj pd) vtr = Some o /\ heap_get (d_heap st') g = Some o)
    \/ (exists i' st' inp',
          exec cfg 0 (start_state init_state) (asm_all prog ++ rest) i' st' inp' /\ d_stale st' = true)
    \/ (pd = false /\ exists e st' after, decode cfg init_state (asm_all prog ++ rest) = ((Err e, st'), after)).
  Proof.
    intros prog id tr pstf rest H Hg.
    destruct (decode_sim pd su prog (QRef id) pstf rest H) as [[v [st' [b' [after [D [Rv [C Hs]]]]]]]|[K|K]];
      [left|right; left; exact K|right; right; exact K].
    destruct (dict_view pd su _ _ _ _ _ _ C Rv Hg) as [g [vtr [o [-> [Hin [Fv [Ao [Hgo K]]]]]]]].
    exists g, st', b', after, vtr, o. repeat split; assumption.
  Qed.
End DictResult.

(* ---- programs without APPEND / APPENDS (e.g. everything the encoder emits): no stale-view case ---- *)

Definition no_append (i : insn) : bool := match i with IAppend | IAppends => false | _ => true end.

Lemma no_append_asm : forall i, no_append i = true -> asm i <> [x61] /\ asm i <> [x65].
Proof. intros i H. destruct i; try discriminate H; cbn [asm]; split; discriminate. Qed.

Section Clean.
  Variable pd su : bool.
  Let cfg := Build_dconfig pd su None.

  Inductive outcome2 (x : qv) (pstf : qstate) (idx : N) (st : dstate) (inp : bytes) : Prop :=
  | O2_good : forall i' st' b' v tl after,
      exec cfg idx st inp i' st' (x2e :: after) -> d_stack st' = v :: tl ->
      Core pd su b' (set_stack st' tl) pstf -> R pd su b' (q_heap pstf) v x ->
      outcome2 x pstf idx st inp
  | O2_exn : forall i' st' key inp',
      exec cfg idx st inp i' st' (key :: inp') -> step_exn pd su st' i' key -> outcome2 x pstf idx st inp.

  Lemma outcome2_step : forall x pstf idx st inp i1 st1 inp1,
    exec cfg idx st inp i1 st1 inp1 -> outcome2 x pstf i1 st1 inp1 -> outcome2 x pstf idx st inp.
  Proof.
    intros x pstf idx st inp i1 st1 inp1 E O. destruct O as [i' st' b' v tl after E' S C Rv|i' st' key inp' E' X].
    - eapply O2_good; [eapply exec_trans; eassumption|eassumption..].
    - eapply O2_exn; [eapply exec_trans; eassumption|assumption].
  Qed.

  Theorem run_sim_clean : forall prog b st pst idx x pstf rest,
    forallb no_append prog = true ->
    Core pd su b st pst -> qrun prog pst = Some (x, pstf) ->
    outcome2 x pstf idx st (asm_all prog ++ rest).
  Proof.
    induction prog as [|i prog IH]; intros b st pst idx x pstf rest Hna C H; [discriminate|].
    cbn [forallb] in Hna. apply andb_true_iff in Hna. destruct Hna as [Hi Hna].
    pose proof (c_stale _ _ _ _ _ C) as Hs.
    assert (Step : forall pst', qstep i pst = Some pst' -> qrun prog pst' = Some (x, pstf) ->
                   outcome2 x pstf idx st (asm_all (i :: prog) ++ rest)).
    { intros pst' Hq Hr. unfold asm_all. cbn [flat_map]. rewrite <- app_assoc. fold (asm_all prog).
      destruct (step_sim pd su b st pst pst' idx (asm_all prog ++ rest) i C Hs Hq) as [[b' [st' [E [[St Ea]|C']]]]|[key [Ek X]]].
      - exfalso. destruct (no_append_asm i Hi) as [N1 N2]. destruct Ea; contradiction.
      - eapply outcome2_step; [exact E|]. eapply IH; eassumption.
      - rewrite Ek. cbn [app]. eapply O2_exn; [apply exec_refl|exact X]. }
    destruct i; cbn [qrun] in H;
      try (destruct (qstep _ pst) as [pst'|] eqn:Hq; [|discriminate]; eapply Step; [reflexivity|exact H]).
    - (* PROTO *)
      match type of H with (if ?q <=? 5 then _ else _) = _ => destruct (q <=? 5) eqn:Ep; [|discriminate]; apply N.leb_le in Ep;
        assert (L : (5 <? q) = false) by (apply N.ltb_ge; exact Ep) end.
      unfold asm_all. cbn [flat_map asm]. cbn [app]. fold (asm_all prog).
      eapply outcome2_step.
      + eapply exec_one; [reflexivity|reflexivity|]. cbn [handler run]. rewrite b2N_N2b by lia.
        rewrite L. reflexivity.
      + eapply IH; [exact Hna|apply core_proto; exact C|exact H].
    - (* STOP *)
      destruct (q_stack pst) as [|[|v] t] eqn:Q; try discriminate. inversion H; subst x pstf.
      pose proof (c_stack _ _ _ _ _ C) as S. rewrite Q in S.
      inversion S as [|gv x0 s1 t0 Hv S1 E1]; subst. cbn [item_rel] in Hv.
      unfold asm_all. cbn [flat_map asm app].
      eapply O2_good with (b' := b); [apply exec_refl|symmetry; exact E1| |exact Hv].
      apply core_stack_only; [exact C|exact S1].
  Qed.

  Theorem decode_sim_clean : forall prog x pstf rest,
    forallb no_append prog = true -> qload prog = Some (x, pstf) ->
    (exists v st' b' after,
        decode cfg init_state (asm_all prog ++ rest) = ((Ok v, st'), after) /\
        R pd su b' (q_heap pstf) v x /\ Core pd su b' st' pstf)
    \/ (pd = false /\ exists e st' after, decode cfg init_state (asm_all prog ++ rest) = ((Err e, st'), after)).
  Proof.
    intros prog x pstf rest Hna H. unfold qload in H.
    destruct (run_sim_clean prog [] (start_state init_state) q_init 0 x pstf rest Hna (core_init pd su) H)
      as [i' st' b' v tl after E S C Rv|i' st' key inp' E [Hp [op [st'' [e [Ho [Hst Hh]]]]]]].
    - left. exists v, (set_stack st' tl), b', after. split; [|split; [exact Rv|exact C]].
      eapply exec_decode; [exact E|exact S|]. eapply R_not_mark. exact Rv.
    - right. split; [exact Hp|]. exists e, st'', inp'. eapply exec_decode_err; eassumption.
  Qed.
End Clean.
