(* BufioFacts.v — C14: the reader programs give the same outcome on the bufio machine (L1), for every
   chunking of the input, as on the flat byte string (L0). *)
From Coq Require Import Ascii String.
From Coq Require Import List ZArith NArith Bool Lia.
From Coq.Strings Require Import Byte.
From OgRek Require Import Base Reader Bufio BaseFacts IntFacts.
Import ListNotations.

Arguments Got {A} a.
Arguments Failed {A}.
Arguments Stalled {A}.

Definition nonempty (d : bytes) : Prop := d <> [].

Record wf (st : bst) : Prop := {
  wf_err : b_err st = true -> b_src st = [] }.

(* ---- the underlying Read ------------------------------------------------------------------------ *)

Lemma firstn_nonempty : forall (d : bytes) n, d <> [] -> (1 <= n)%nat -> firstn n d <> [].
Proof. intros d n Hd Hn. destruct d; [contradiction|]. destruct n; [lia|]. discriminate. Qed.

Lemma skipn_nonempty : forall (d : bytes) n, (n < length d)%nat -> skipn n d <> [].
Proof.
  intros d n H E. pose proof (firstn_skipn n d) as FS. rewrite E, app_nil_r in FS.
  pose proof (firstn_length n d) as FL. rewrite FS in FL. lia.
Qed.

Lemma skip_empty_concat : forall src, concat (skip_empty src) = concat src.
Proof. induction src as [|d t IH]; [reflexivity|]. destruct d; [exact IH|reflexivity]. Qed.

Lemma skip_empty_head : forall src d t, skip_empty src = d :: t -> d <> [].
Proof.
  induction src as [|d0 t0 IH]; intros d t H; [discriminate|]. destruct d0; cbn in H.
  - eapply IH. exact H.
  - inversion H; subst. discriminate.
Qed.

Lemma src_read_spec : forall room src eofw d e src',
  (1 <= room)%nat -> src_read room src eofw = (d, e, src') ->
  d ++ concat src' = concat src /\ (e = true -> src' = []) /\
  (e = false -> d <> []) /\ (length d <= room)%nat.
Proof.
  intros room src eofw d e src' Hr H. unfold src_read in H. rewrite <- (skip_empty_concat src).
  destruct (skip_empty src) as [|d0 t] eqn:S.
  - inversion H; subst. repeat split; try reflexivity; try discriminate. cbn. lia.
  - pose proof (skip_empty_head _ _ _ S) as N0. destruct (Nat.leb (length d0) room) eqn:L.
    + inversion H; subst. apply Nat.leb_le in L. repeat split; try assumption.
      * intros E. apply andb_true_iff in E. destruct E as [E _]. destruct src'; [reflexivity|discriminate].
      * intros _. exact N0.
    + inversion H; subst. apply Nat.leb_gt in L. repeat split.
      * cbn [concat]. rewrite app_assoc, firstn_skipn. reflexivity.
      * discriminate.
      * intros _. apply firstn_nonempty; [exact N0|exact Hr].
      * rewrite firstn_length. apply Nat.le_min_l.
Qed.

Section Facts.
  Variable bsz : nat.
  Hypothesis BSZ : (1 <= bsz)%nat.

  Definition meas (st : bst) : nat := length (concat (b_src st)) + (if b_err st then 0 else 1).

  Lemma fill_spec : forall st, wf st -> (length (b_buf st) < bsz)%nat ->
    absl (fill bsz st) = absl st /\ wf (fill bsz st) /\
    (b_err (fill bsz st) = false -> (length (b_buf st) < length (b_buf (fill bsz st)))%nat).
  Proof.
    intros st [Fe] Hl. unfold fill.
    destruct (src_read (bsz - length (b_buf st)) (b_src st) (b_eofw st)) as [[d e] src'] eqn:R.
    assert (Hroom : (1 <= bsz - length (b_buf st))%nat) by lia.
    destruct (src_read_spec _ _ _ _ _ _ Hroom R) as [A [C [D E]]].
    unfold absl. cbn [b_buf b_src b_err]. split; [|split].
    - rewrite <- app_assoc, A. reflexivity.
    - constructor. cbn [b_err b_src]. exact C.
    - intros He. specialize (D He). rewrite app_length. destruct d; [contradiction|]. cbn. lia.
  Qed.

  Lemma fill_meas : forall st, wf st -> (length (b_buf st) < bsz)%nat -> b_err st = false ->
    (meas (fill bsz st) < meas st)%nat.
  Proof.
    intros st [Fe] Hl He. unfold meas, fill. rewrite He.
    destruct (src_read (bsz - length (b_buf st)) (b_src st) (b_eofw st)) as [[d e] src'] eqn:R.
    assert (Hroom : (1 <= bsz - length (b_buf st))%nat) by lia.
    destruct (src_read_spec _ _ _ _ _ _ Hroom R) as [A [C [D E]]].
    cbn [b_src b_err]. rewrite <- A, app_length. destruct e.
    - rewrite (C eq_refl). cbn. lia.
    - specialize (D eq_refl). destruct d; [contradiction|]. cbn [length]. lia.
  Qed.

  (* ---- ReadByte ---------------------------------------------------------------------------------- *)

  Lemma wf_with_buf : forall st b, wf st -> wf (with_buf st b).
  Proof. intros st b [A]. split; assumption. Qed.
  Lemma wf_clear_err : forall st, wf st -> wf (clear_err st).
  Proof. intros st [A]. split; discriminate. Qed.

  Lemma readbyte_spec : forall st, wf st ->
    exists st', wf st' /\
      match absl st with
      | [] => readbyte bsz st = (Failed, st') /\ absl st' = []
      | c :: r => readbyte bsz st = (Got c, st') /\ absl st' = r
      end.
  Proof.
    intros st W. unfold readbyte. cbn [readbyte_loop].
    destruct (b_buf st) as [|c t] eqn:B.
    - destruct (b_err st) eqn:E.
      + exists (clear_err st). split; [apply wf_clear_err; exact W|].
        destruct W as [Fe]. unfold absl. rewrite B, (Fe E). cbn. split; [reflexivity|].
        unfold clear_err. cbn. rewrite B, (Fe E). reflexivity.
      + assert (Hl : (length (b_buf st) < bsz)%nat) by (rewrite B; cbn; lia).
        destruct (fill_spec st W Hl) as [A [W1 P]].
        destruct (b_buf (fill bsz st)) as [|c t] eqn:B1.
        * destruct (b_err (fill bsz st)) eqn:E1.
          -- exists (clear_err (fill bsz st)). split; [apply wf_clear_err; exact W1|].
             destruct W1 as [Fe1]. rewrite <- A. unfold absl. rewrite B1, (Fe1 E1). cbn.
             split; [reflexivity|]. rewrite B1, (Fe1 E1). reflexivity.
          -- exfalso. specialize (P eq_refl). rewrite B in P. cbn in P. lia.
        * exists (with_buf (fill bsz st) t). split; [apply wf_with_buf; exact W1|].
          rewrite <- A. unfold absl at 1. rewrite B1. cbn [app]. split; reflexivity.
    - exists (with_buf st t). split; [apply wf_with_buf; exact W|].
      unfold absl at 1. rewrite B. cbn [app]. split; reflexivity.
  Qed.

  (* ---- Read ---------------------------------------------------------------------------------------- *)

  Lemma bread_spec : forall k st d e st', wf st -> (1 <= k)%nat -> bread bsz k st = (d, e, st') ->
    d ++ absl st' = absl st /\ wf st' /\ (e = true -> absl st' = []) /\ (e = false -> d <> []) /\
    (length d <= k)%nat.
  Proof.
    intros k st d e st' W Hk H. unfold bread in H. destruct W as [Fe].
    destruct (b_buf st) as [|c t] eqn:B.
    - destruct (b_err st) eqn:E.
      + inversion H; subst. unfold absl, clear_err. cbn [b_buf b_src b_err]. rewrite B, (Fe eq_refl).
        refine (conj _ (conj _ (conj _ (conj _ _)))).
        * reflexivity.
        * split; discriminate.
        * reflexivity.
        * discriminate.
        * cbn. lia.
      + destruct (Nat.leb bsz k).
        * destruct (src_read k (b_src st) (b_eofw st)) as [[d1 e1] src1] eqn:R. inversion H; subst.
          destruct (src_read_spec _ _ _ _ _ _ Hk R) as [A [C [D L]]].
          unfold absl. cbn [b_buf b_src b_err]. rewrite B. cbn [app].
          refine (conj _ (conj _ (conj _ (conj _ _)))).
          -- exact A.
          -- split; discriminate.
          -- intros E1. rewrite (C E1). reflexivity.
          -- exact D.
          -- exact L.
        * destruct (src_read bsz (b_src st) (b_eofw st)) as [[d1 e1] src1] eqn:R.
          destruct (src_read_spec _ _ _ _ _ _ BSZ R) as [A [C [D L]]].
          destruct d1 as [|c1 t1].
          -- inversion H; subst. unfold absl. cbn [b_buf b_src b_err]. rewrite B. cbn [app] in *.
             refine (conj _ (conj _ (conj _ (conj _ _)))).
             ++ exact A.
             ++ split; discriminate.
             ++ intros E1. rewrite (C E1). reflexivity.
             ++ intros E1. exfalso. exact (D E1 eq_refl).
             ++ cbn. lia.
          -- inversion H; subst. unfold absl. cbn [b_buf b_src b_err]. rewrite B. cbn [app].
             refine (conj _ (conj _ (conj _ (conj _ _)))).
             ++ rewrite app_assoc, firstn_skipn. exact A.
             ++ split; exact C.
             ++ discriminate.
             ++ intros _. apply firstn_nonempty; [discriminate|exact Hk].
             ++ rewrite firstn_length. apply Nat.le_min_l.
    - inversion H; subst. unfold absl. cbn [with_buf b_buf b_src b_err].
      refine (conj _ (conj _ (conj _ (conj _ _)))).
      + rewrite app_assoc, firstn_skipn. rewrite B. reflexivity.
      + split; exact Fe.
      + discriminate.
      + intros _. apply firstn_nonempty; [discriminate|exact Hk].
      + rewrite firstn_length. apply Nat.le_min_l.
  Qed.

  (* ---- take_n on concatenations ----------------------------------------------------------------- *)

  Lemma take_n_0 : forall l, take_n l 0 = Some ([], l).
  Proof. intros l. destruct l; reflexivity. Qed.

  Lemma take_n_cons : forall b t n, (0 < n)%N ->
    take_n (b :: t) n = match take_n t (N.pred n) with Some (a, r) => Some (b :: a, r) | None => None end.
  Proof. intros b t n H. cbn [take_n]. assert (E : (n =? 0)%N = false) by (apply N.eqb_neq; lia). rewrite E. reflexivity. Qed.

  Lemma take_n_nil : forall n, (0 < n)%N -> take_n [] n = None.
  Proof. intros n H. cbn. assert (E : (n =? 0)%N = false) by (apply N.eqb_neq; lia). rewrite E. reflexivity. Qed.

  Lemma take_n_app : forall d rest n, (N.of_nat (length d) <= n)%N ->
    take_n (d ++ rest) n =
    match take_n rest (n - N.of_nat (length d)) with Some (a, r) => Some (d ++ a, r) | None => None end.
  Proof.
    induction d as [|b t IH]; intros rest n H.
    - cbn [app length]. rewrite N.sub_0_r. destruct (take_n rest n) as [[a r]|]; reflexivity.
    - cbn [app]. rewrite take_n_cons by (cbn [length] in H; lia).
      rewrite IH by (cbn [length] in H; lia).
      replace (N.pred n - N.of_nat (length t))%N with (n - N.of_nat (length (b :: t)))%N by (cbn [length]; lia).
      destruct (take_n rest (n - N.of_nat (length (b :: t)))) as [[a r]|]; reflexivity.
  Qed.

  Lemma take_n_all : forall d n, N.of_nat (length d) = n -> take_n d n = Some (d, []).
  Proof.
    intros d n H. rewrite <- (app_nil_r d) at 1. rewrite take_n_app by lia.
    replace (n - N.of_nat (length d))%N with 0%N by lia. rewrite take_n_0, app_nil_r. reflexivity.
  Qed.

  Lemma take_n_short : forall d n, (N.of_nat (length d) < n)%N -> take_n d n = None.
  Proof.
    intros d n H. rewrite <- (app_nil_r d). rewrite take_n_app by lia. rewrite take_n_nil by lia. reflexivity.
  Qed.

  (* ---- io.ReadFull / io.CopyN ------------------------------------------------------------------- *)

  Definition ask_ok (ask : N -> nat) : Prop :=
    forall need, (0 < need)%N -> (1 <= ask need)%nat /\ (N.of_nat (ask need) <= need)%N.

  Lemma readn_loop_spec : forall ask, ask_ok ask -> forall fuel need acc st, wf st ->
    (length (absl st) < fuel)%nat ->
    exists st', wf st' /\
      match take_n (absl st) need with
      | Some (a, r) => readn_loop bsz fuel ask need acc st = (Got (acc ++ a), st') /\ absl st' = r
      | None => readn_loop bsz fuel ask need acc st = (Failed, st') /\ absl st' = []
      end.
  Proof.
    intros ask AO. induction fuel as [|f IH]; intros need acc st W Hf; [lia|].
    cbn [readn_loop]. destruct (N.eqb need 0) eqn:E0.
    - apply N.eqb_eq in E0. subst need. rewrite take_n_0. exists st. split; [exact W|]. rewrite app_nil_r. split; reflexivity.
    - apply N.eqb_neq in E0. destruct (AO need ltac:(lia)) as [A1 A2].
      destruct (bread bsz (ask need) st) as [[d e] st1] eqn:R.
      destruct (bread_spec _ _ _ _ _ W A1 R) as [Habs [W1 [He [Hd Hl]]]].
      assert (Ld : (N.of_nat (length d) <= need)%N) by lia.
      rewrite <- Habs. rewrite take_n_app by exact Ld.
      destruct e.
      + rewrite (He eq_refl). exists st1. split; [exact W1|].
        destruct (N.eqb (need - N.of_nat (length d)) 0) eqn:E1.
        * apply N.eqb_eq in E1. rewrite E1, take_n_0, app_nil_r. split; [reflexivity|exact (He eq_refl)].
        * apply N.eqb_neq in E1. rewrite take_n_nil by lia. split; [reflexivity|exact (He eq_refl)].
      + specialize (Hd eq_refl).
        assert (Hf1 : (length (absl st1) < f)%nat).
        { rewrite <- Habs, app_length in Hf. destruct d; [contradiction|]. cbn in Hf. lia. }
        destruct (IH (need - N.of_nat (length d))%N (acc ++ d) st1 W1 Hf1) as [st' [W' S]].
        exists st'. split; [exact W'|].
        destruct (take_n (absl st1) (need - N.of_nat (length d))) as [[a r]|].
        * rewrite app_assoc. exact S.
        * exact S.
  Qed.

  Lemma readn_spec : forall ask, ask_ok ask -> forall n st, wf st ->
    exists st', wf st' /\
      match take_n (absl st) n with
      | Some (a, r) => readn bsz ask n st = (Got a, st') /\ absl st' = r
      | None => readn bsz ask n st = (Failed, st') /\ absl st' = []
      end.
  Proof.
    intros ask AO n st W. unfold readn.
    destruct (readn_loop_spec ask AO (length (absl st) + 2) n [] st W ltac:(lia)) as [st' [W' S]].
    exists st'. split; [exact W'|exact S].
  Qed.

  (* ---- the ReadByte loop --------------------------------------------------------------------------- *)

  Lemma readbytes_loop_spec : forall fuel need acc st, wf st -> (length (absl st) < fuel)%nat ->
    exists st', wf st' /\
      match take_n (absl st) need with
      | Some (a, r) => readbytes_loop bsz fuel need acc st = (Got (acc ++ a), st') /\ absl st' = r
      | None => readbytes_loop bsz fuel need acc st = (Failed, st') /\ absl st' = []
      end.
  Proof.
    induction fuel as [|f IH]; intros need acc st W Hf; [lia|].
    cbn [readbytes_loop]. destruct (N.eqb need 0) eqn:E0.
    - apply N.eqb_eq in E0. subst need. rewrite take_n_0. exists st. split; [exact W|]. rewrite app_nil_r. split; reflexivity.
    - apply N.eqb_neq in E0. destruct (readbyte_spec st W) as [st1 [W1 S1]].
      destruct (absl st) as [|c r] eqn:A.
      + destruct S1 as [R1 A1]. rewrite R1. rewrite take_n_nil by lia. exists st1. split; [exact W1|]. split; [reflexivity|exact A1].
      + destruct S1 as [R1 A1]. rewrite R1. rewrite take_n_cons by lia.
        assert (Hf1 : (length (absl st1) < f)%nat) by (rewrite A1; cbn in Hf; lia).
        destruct (IH (N.pred need) (acc ++ [c]) st1 W1 Hf1) as [st' [W' S]].
        exists st'. split; [exact W'|]. rewrite A1 in S.
        destruct (take_n r (N.pred need)) as [[a r']|].
        * rewrite <- app_assoc in S. exact S.
        * exact S.
  Qed.

  Lemma readbytes_spec : forall n st, wf st ->
    exists st', wf st' /\
      match take_n (absl st) n with
      | Some (a, r) => readbytes bsz n st = (Got a, st') /\ absl st' = r
      | None => readbytes bsz n st = (Failed, st') /\ absl st' = []
      end.
  Proof.
    intros n st W. unfold readbytes.
    destruct (readbytes_loop_spec (length (absl st) + 1) n [] st W ltac:(lia)) as [st' [W' S]].
    exists st'. split; [exact W'|exact S].
  Qed.

  (* ---- ReadSlice and readLine ---------------------------------------------------------------------- *)

  Lemma index_lf_none : forall l, index_lf l = None -> no_lf l.
  Proof.
    induction l as [|b t IH]; intros H; [reflexivity|]. cbn in H. unfold no_lf. cbn.
    destruct (beqb b x0a); [discriminate|]. cbn. apply IH. destruct (index_lf t); [discriminate|reflexivity].
  Qed.

  Lemma index_lf_some : forall l i, index_lf l = Some i ->
    exists a, firstn (S i) l = a ++ [x0a] /\ no_lf a.
  Proof.
    induction l as [|b t IH]; intros i H; [discriminate|]. cbn in H. destruct (beqb b x0a) eqn:E.
    - inversion H; subst. exists []. split; [|reflexivity]. cbn. f_equal.
      unfold beqb in E. apply N.eqb_eq in E. apply b2N_inj. exact E.
    - destruct (index_lf t) as [j|] eqn:J; [|discriminate]. inversion H; subst.
      destruct (IH j eq_refl) as [a [Fa Na]]. exists (b :: a). split.
      + change (firstn (S (S j)) (b :: t)) with (b :: firstn (S j) t). rewrite Fa. reflexivity.
      + unfold no_lf in *. cbn. rewrite E. cbn. exact Na.
  Qed.

  Lemma readslice_loop_spec : forall fuel st, wf st -> (meas st <= fuel)%nat ->
    exists line status st', readslice_loop bsz fuel st = (Some (line, status), st') /\
      line ++ absl st' = absl st /\ wf st' /\
      match status with
      | SliceOk => exists a, line = a ++ [x0a] /\ no_lf a
      | SliceFull => no_lf line /\ line <> []
      | SliceEOF => no_lf line /\ absl st' = []
      end.
  Proof.
    induction fuel as [|f IH]; intros st W Hm.
    - (* no fuel: meas = 0, so the pending error is set *)
      cbn [readslice_loop]. destruct (index_lf (b_buf st)) as [i|] eqn:I.
      + destruct (index_lf_some _ _ I) as [a [Fa Na]].
        exists (firstn (S i) (b_buf st)), SliceOk, (with_buf st (skipn (S i) (b_buf st))).
        split; [reflexivity|]. split; [unfold absl; cbn [with_buf b_buf b_src]; rewrite app_assoc, firstn_skipn; reflexivity|].
        split; [apply wf_with_buf; exact W|]. exists a. split; assumption.
      + assert (E : b_err st = true) by (unfold meas in Hm; destruct (b_err st); [reflexivity|lia]).
        rewrite E. destruct W as [Fe].
        exists (b_buf st), SliceEOF, (clear_err (with_buf st [])). split; [reflexivity|].
        unfold absl. cbn [clear_err with_buf b_buf b_src b_err]. rewrite (Fe E). cbn [concat app].
        split; [reflexivity|]. split; [split; discriminate|].
        split; [apply index_lf_none; exact I|reflexivity].
    - cbn [readslice_loop]. destruct (index_lf (b_buf st)) as [i|] eqn:I.
      + destruct (index_lf_some _ _ I) as [a [Fa Na]].
        exists (firstn (S i) (b_buf st)), SliceOk, (with_buf st (skipn (S i) (b_buf st))).
        split; [reflexivity|]. split; [unfold absl; cbn [with_buf b_buf b_src]; rewrite app_assoc, firstn_skipn; reflexivity|].
        split; [apply wf_with_buf; exact W|]. exists a. split; assumption.
      + destruct (b_err st) eqn:E.
        * destruct W as [Fe].
          exists (b_buf st), SliceEOF, (clear_err (with_buf st [])). split; [reflexivity|].
          unfold absl. cbn [clear_err with_buf b_buf b_src b_err]. rewrite (Fe E). cbn [concat app].
          split; [reflexivity|]. split; [split; discriminate|].
          split; [apply index_lf_none; exact I|reflexivity].
        * destruct (Nat.leb bsz (length (b_buf st))) eqn:L.
          -- exists (b_buf st), SliceFull, (with_buf st []). split; [reflexivity|].
             split; [reflexivity|]. split; [apply wf_with_buf; exact W|].
             split; [apply index_lf_none; exact I|]. apply Nat.leb_le in L. destruct (b_buf st); [cbn in L; lia|discriminate].
          -- apply Nat.leb_gt in L. destruct (fill_spec st W L) as [A [W1 _]].
             pose proof (fill_meas st W L E) as M.
             destruct (IH (fill bsz st) W1 ltac:(lia)) as [line [status [st' [R [Hl [W' S]]]]]].
             exists line, status, st'. split; [exact R|]. split; [rewrite Hl; exact A|]. split; assumption.
  Qed.

  Lemma readslice_spec : forall st, wf st ->
    exists line status st', readslice bsz st = (Some (line, status), st') /\
      line ++ absl st' = absl st /\ wf st' /\
      match status with
      | SliceOk => exists a, line = a ++ [x0a] /\ no_lf a
      | SliceFull => no_lf line /\ line <> []
      | SliceEOF => no_lf line /\ absl st' = []
      end.
  Proof.
    intros st W. unfold readslice. apply readslice_loop_spec; [exact W|].
    unfold meas. destruct (b_err st); lia.
  Qed.

  Lemma split_line_nolf_app : forall l rest, no_lf l ->
    split_line (l ++ rest) = match split_line rest with Some (a, r) => Some (l ++ a, r) | None => None end.
  Proof.
    induction l as [|b t IH]; intros rest H.
    - cbn. destruct (split_line rest) as [[a r]|]; reflexivity.
    - unfold no_lf in H. cbn in H. apply andb_true_iff in H. destruct H as [Hb Ht].
      apply negb_true_iff in Hb. cbn [app split_line]. rewrite Hb. rewrite (IH rest Ht).
      destruct (split_line rest) as [[a r]|]; reflexivity.
  Qed.

  Lemma split_line_nolf : forall l, no_lf l -> split_line l = None.
  Proof. intros l H. rewrite <- (app_nil_r l). rewrite split_line_nolf_app by exact H. reflexivity. Qed.

  Lemma no_lf_app : forall a b, no_lf a -> no_lf b -> no_lf (a ++ b).
  Proof. intros a b Ha Hb. unfold no_lf in *. rewrite forallb_app, Ha, Hb. reflexivity. Qed.

  Lemma removelast_app_one : forall (l : bytes) x, removelast (l ++ [x]) = l.
  Proof. intros l x. rewrite removelast_app by discriminate. cbn. apply app_nil_r. Qed.

  Lemma readline_loop_spec : forall fuel acc st, wf st -> no_lf acc -> (length (absl st) < fuel)%nat ->
    exists st', wf st' /\
      match split_line (absl st) with
      | Some (l, r) => readline_loop bsz fuel acc st = (Got (acc ++ l), st') /\ absl st' = r
      | None => readline_loop bsz fuel acc st = (Failed, st') /\ absl st' = []
      end.
  Proof.
    induction fuel as [|f IH]; intros acc st W Na Hf; [lia|].
    cbn [readline_loop]. destruct (readslice_spec st W) as [line [status [st1 [R [Hl [W1 S]]]]]].
    rewrite R. destruct status.
    - (* the line ends here *)
      destruct S as [a [-> Nl]]. exists st1. split; [exact W1|].
      rewrite <- Hl, <- app_assoc. cbn [app]. rewrite (split_line_exact a (absl st1) Nl).
      split; [|reflexivity]. rewrite app_assoc, lastb_app_one.
      change (beqb x0a x0a) with true. cbv iota. rewrite removelast_app_one. reflexivity.
    - (* EOF before LF *)
      destruct S as [Nl Ae]. exists st1. split; [exact W1|].
      rewrite <- Hl, Ae, app_nil_r, (split_line_nolf line Nl). split; reflexivity.
    - (* buffer full: keep going *)
      destruct S as [Nl Ne].
      assert (Hf1 : (length (absl st1) < f)%nat).
      { rewrite <- Hl, app_length in Hf. destruct line; [contradiction|]. cbn in Hf. lia. }
      destruct (IH (acc ++ line) st1 W1 (no_lf_app _ _ Na Nl) Hf1) as [st' [W' S']].
      exists st'. split; [exact W'|]. rewrite <- Hl, (split_line_nolf_app line (absl st1) Nl).
      destruct (split_line (absl st1)) as [[l r]|].
      + rewrite app_assoc. exact S'.
      + exact S'.
  Qed.

  Lemma readline_spec : forall st, wf st ->
    exists st', wf st' /\
      match split_line (absl st) with
      | Some (l, r) => readline bsz st = (Got l, st') /\ absl st' = r
      | None => readline bsz st = (Failed, st') /\ absl st' = []
      end.
  Proof.
    intros st W. unfold readline.
    destruct (readline_loop_spec (length (absl st) + 2) [] st W eq_refl ltac:(lia)) as [st' [W' S]].
    exists st'. split; [exact W'|exact S].
  Qed.

  (* ---- the refinement ---------------------------------------------------------------------------- *)

  Variable ask_full ask_copy : N -> nat.
  Hypothesis AF : ask_ok ask_full.
  Hypothesis AC : ask_ok ask_copy.

  (* every reader program, every chunking: same outcome as on the flat input, and what remains
     unread is the flat remainder *)
  Theorem run1_refines : forall A (p : prog A) st, wf st ->
    exists st', wf st' /\
      run1 bsz ask_full ask_copy p st = (fst (run p (absl st)), st') /\
      absl st' = snd (run p (absl st)).
  Proof.
    intros A p. induction p as [a|e| | |eof k IH|how n k IH|k IH]; intros st W; cbn [run1 run].
    - exists st. split; [exact W|split; reflexivity].
    - exists st. split; [exact W|split; reflexivity].
    - exists st. split; [exact W|split; reflexivity].
    - exists st. split; [exact W|split; reflexivity].
    - destruct (readbyte_spec st W) as [st1 [W1 S]]. destruct (absl st) as [|c r].
      + destruct S as [R A1]. rewrite R. exists st1. split; [exact W1|split; [reflexivity|exact A1]].
      + destruct S as [R A1]. rewrite R. destruct (IH c st1 W1) as [st' [W' [R' A']]].
        exists st'. split; [exact W'|]. rewrite A1 in R', A'. split; assumption.
    - assert (S : exists st1, wf st1 /\
                match take_n (absl st) n with
                | Some (a, r) =>
                    match how with
                    | ByReadFull => readn bsz ask_full n st
                    | ByCopyN => readn bsz ask_copy n st
                    | ByByteLoop => readbytes bsz n st
                    end = (Got a, st1) /\ absl st1 = r
                | None =>
                    match how with
                    | ByReadFull => readn bsz ask_full n st
                    | ByCopyN => readn bsz ask_copy n st
                    | ByByteLoop => readbytes bsz n st
                    end = (Failed, st1) /\ absl st1 = []
                end).
      { destruct how; [apply readn_spec; assumption|apply readn_spec; assumption|apply readbytes_spec; assumption]. }
      destruct S as [st1 [W1 S]]. destruct (take_n (absl st) n) as [[a r]|].
      + destruct S as [R A1]. rewrite R. destruct (IH a st1 W1) as [st' [W' [R' A']]].
        exists st'. split; [exact W'|]. rewrite A1 in R', A'. split; assumption.
      + destruct S as [R A1]. rewrite R. exists st1. split; [exact W1|split; [reflexivity|exact A1]].
    - destruct (readline_spec st W) as [st1 [W1 S]]. destruct (split_line (absl st)) as [[l r]|].
      + destruct S as [R A1]. rewrite R. destruct (IH l st1 W1) as [st' [W' [R' A']]].
        exists st'. split; [exact W'|]. rewrite A1 in R', A'. split; assumption.
      + destruct S as [R A1]. rewrite R. exists st1. split; [exact W1|split; [reflexivity|exact A1]].
  Qed.
End Facts.

(* ---- Decode over the bufio machine ------------------------------------------------------------------ *)
From OgRek Require Import Value Decoder DecodeL1.

Section DecodeFacts.
  Variable bsz : nat.
  Hypothesis BSZ : (1 <= bsz)%nat.
  Variable ask_full ask_copy : N -> nat.
  Hypothesis AF : ask_ok ask_full.
  Hypothesis AC : ask_ok ask_copy.

  Theorem decode1_refines : forall cfg st b, wf b ->
    exists b', wf b' /\
      decode1 bsz ask_full ask_copy cfg st b = (fst (decode cfg st (absl b)), b') /\
      absl b' = snd (decode cfg st (absl b)).
  Proof.
    intros cfg st b W. unfold decode1, decode.
    destruct (run1_refines bsz BSZ ask_full ask_copy AF AC _
                (decode_loop (S (length (absl b))) cfg 0 (start_state st)) b W) as [b' [W' [R A]]].
    rewrite R. exists b'. split; [exact W'|].
    destruct (run (decode_loop (S (length (absl b))) cfg 0 (start_state st)) (absl b)) as [r rest].
    cbn [fst snd] in *. destruct r; split; try reflexivity; exact A.
  Qed.

  Theorem decode_all1_refines : forall fuel cfg st b, wf b ->
    decode_all1 bsz ask_full ask_copy fuel cfg st b = decode_all fuel cfg st (absl b).
  Proof.
    induction fuel as [|f IH]; intros cfg st b W; [reflexivity|].
    cbn [decode_all1 decode_all].
    destruct (decode1_refines cfg st b W) as [b' [W' [R A]]]. rewrite R.
    destruct (decode cfg st (absl b)) as [[r st'] rest]. cbn [fst snd] in *. subst rest.
    destruct (is_final r (absl b')); [reflexivity|]. rewrite (IH cfg st' b' W'). reflexivity.
  Qed.

  (* two ways of delivering the same bytes: the same values and errors, call after call *)
  Corollary chunking_irrelevant : forall fuel cfg st b1 b2, wf b1 -> wf b2 -> absl b1 = absl b2 ->
    decode_all1 bsz ask_full ask_copy fuel cfg st b1 = decode_all1 bsz ask_full ask_copy fuel cfg st b2.
  Proof.
    intros fuel cfg st b1 b2 W1 W2 E. rewrite !decode_all1_refines by assumption. rewrite E. reflexivity.
  Qed.
End DecodeFacts.
