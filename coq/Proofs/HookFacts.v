(* HookFacts.v — C18: when and with what PersistentLoad is called; what PersistentRef's answer
   makes the encoder emit. *)
From Coq Require Import Ascii String.
From Coq Require Import List ZArith NArith Bool Lia.
From Coq.Strings Require Import Byte.
From OgRek Require Import Base Value PyEq Dict Reader Decoder Encoder TypingFacts.
Import ListNotations.
Open Scope N_scope.

Definition st_of (o : hout) : dstate := match o with HOk st | HErr st _ => st end.

Definition is_persid_op (op : opcode) : bool :=
  match op with OPersid | OBinpersid => true | _ => false end.

Ltac brk_log :=
  repeat match goal with
  | |- forall _, _ => intro
  | |- leaves _ (RdLine _) => cbn [leaves]
  | |- leaves _ (RdN _ _ _) => cbn [leaves]
  | |- leaves _ (RdByte _ _) => cbn [leaves]
  | |- leaves _ (ok _) => cbn [leaves ok]
  | |- leaves _ (fail _ _) => cbn [leaves fail]
  | |- leaves _ PanicP => exact I
  | |- leaves _ OOF => exact I
  | |- leaves _ (if ?c then _ else _) => destruct c
  | |- leaves _ (match ?x with _ => _ end) => destruct x eqn:?
  end.

Lemma fresh_log : forall st n d, fresh st = (n, d) -> d_log d = d_log st.
Proof. intros st n d H. unfold fresh in H. inversion H; subst. reflexivity. Qed.

Lemma new_dict_obj_log : forall cfg st m d, new_dict_obj cfg st = (m, d) -> d_log d = d_log st.
Proof.
  intros cfg st m d H. unfold new_dict_obj in H. cbn in H.
  destruct (c_pydict cfg); inversion H; subst; reflexivity.
Qed.

(* no opcode other than PERSID / BINPERSID ever calls PersistentLoad *)
Lemma other_opcodes_keep_log : forall cfg op key insn st,
  is_persid_op op = false ->
  leaves (fun o => d_log (st_of o) = d_log st) (handler cfg op key insn st).
Proof.
  intros cfg op key insn st Hop.
  destruct op; try discriminate; cbn [handler];
    try (unfold memo_top, tuple_n, do_reduce);
    brk_log; cbn [st_of]; try reflexivity;
    try (unfold push_bytestring; destruct (c_strict cfg); reflexivity);
    try (erewrite fresh_log by eassumption; reflexivity);
    try (cbn; erewrite fresh_log by eassumption; reflexivity);
    try (cbn; erewrite new_dict_obj_log by eassumption; reflexivity).
Qed.

(* what handleRef does with the hook *)
Lemma handle_ref_spec : forall cfg st pid,
  handle_ref cfg st pid =
  match c_load cfg with
  | None => ok (push (VRef pid) st)
  | Some f =>
      let st1 := add_log st (VRef pid) in
      match f (Nlen (d_log st)) pid with
      | LErr => fail st1 EOther
      | LNil => ok (push (VRef pid) st1)
      | LObj o => ok (push o st1)
      end
  end.
Proof. reflexivity. Qed.

Lemma persid_handler : forall cfg key insn st,
  handler cfg OPersid key insn st = RdLine (fun pid => handle_ref cfg st (VStr pid)).
Proof. reflexivity. Qed.

Lemma binpersid_handler : forall cfg key insn st v t,
  d_stack st = v :: t -> is_mark v = false ->
  handler cfg OBinpersid key insn st = handle_ref cfg (set_stack st t) v.
Proof. intros cfg key insn st v t E M. cbn [handler]. rewrite E, M. reflexivity. Qed.

(* ---- encoder: a pointer to a struct for which PersistentRef answers ------------------------ *)

Lemma enc_ptr_with_ref : forall c pid x,
  enc c (RPtr true (Some pid) x) = enc_ref c pid (enc c pid).
Proof. reflexivity. Qed.

Lemma enc_ptr_without_ref : forall c b x, enc c (RPtr b None x) = enc c x.
Proof. intros c b x. destruct b; reflexivity. Qed.

Lemma enc_ptr_not_struct : forall c r x, enc c (RPtr false r x) = enc c x.
Proof. intros c r x. destruct r; reflexivity. Qed.

Lemma enc_ref_binary : forall c pid p, (1 <= e_proto c)%Z ->
  enc_ref c pid p = wseq p (emit [x51]).
Proof.
  intros c pid p H. unfold enc_ref.
  assert (E : (e_proto c =? 0)%Z = false) by (apply Z.eqb_neq; lia). rewrite E. reflexivity.
Qed.

Lemma enc_ref_p0_string : forall c s p, e_proto c = 0%Z -> has_lf s = false ->
  enc_ref c (RStr SPlain s) p = emit (x50 :: s ++ [x0a]).
Proof. intros c s p H L. unfold enc_ref. rewrite H. cbn. rewrite L. reflexivity. Qed.

Lemma enc_ref_p0_other : forall c pid p, e_proto c = 0%Z ->
  (forall s, pid = RStr SPlain s -> has_lf s = true) -> enc_ref c pid p = WFail EP0Persid.
Proof.
  intros c pid p H N. unfold enc_ref. rewrite H. cbn.
  destruct pid; try reflexivity. destruct ty; try reflexivity.
  rewrite (N s eq_refl). reflexivity.
Qed.
