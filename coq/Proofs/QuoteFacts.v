(* QuoteFacts.v — pydecodeStringEscape undoes pyquote, for every byte string and every IsPrint table. *)
From Coq Require Import Ascii String.
From Coq Require Import List ZArith NArith Bool Lia.
From Coq.Strings Require Import Byte.
From Coq Require Import ZifyBool ZifyN ZifyNat.
From OgRek Require Import Base Utf8 GoStrconv PyQuote BaseFacts CodecFacts IntFacts.
Import ListNotations.
Open Scope N_scope.

(* ---- utf8_decode only looks at the bytes it consumes --------------------------------------------- *)

Lemma utf8_decode_local : forall s Y r w, s <> [] ->
  utf8_decode s = (r, w) -> (r <> rune_error \/ w <> 1%nat) ->
  utf8_decode (firstn w s ++ Y) = (r, w).
Proof.
  intros s Y r w Hs H Hne. destruct s as [|b0 t]; [contradiction|].
  unfold utf8_decode in H |- *. destruct (utf8_first (b2N b0)) as [[sz lo] hi] eqn:F.
  destruct (sz =? 1) eqn:E1.
  { inversion H; subst. cbn [firstn app]. rewrite F, E1. reflexivity. }
  destruct (sz =? 0) eqn:E0.
  { inversion H; subst. destruct Hne as [E|E]; exfalso; apply E; reflexivity. }
  destruct t as [|b1 t1].
  { inversion H; subst. destruct Hne as [E|E]; exfalso; apply E; reflexivity. }
  destruct (negb (in_range lo hi (b2N b1))) eqn:R1.
  { inversion H; subst. destruct Hne as [E|E]; exfalso; apply E; reflexivity. }
  destruct (sz =? 2) eqn:E2.
  { inversion H; subst. cbn [firstn app]. rewrite F, E1, E0, R1, E2. reflexivity. }
  destruct t1 as [|b2 t2].
  { inversion H; subst. destruct Hne as [E|E]; exfalso; apply E; reflexivity. }
  destruct (negb (in_range 128 191 (b2N b2))) eqn:R2.
  { inversion H; subst. destruct Hne as [E|E]; exfalso; apply E; reflexivity. }
  destruct (sz =? 3) eqn:E3.
  { inversion H; subst. cbn [firstn app]. rewrite F, E1, E0, R1, E2, R2, E3. reflexivity. }
  destruct t2 as [|b3 t3].
  { inversion H; subst. destruct Hne as [E|E]; exfalso; apply E; reflexivity. }
  destruct (negb (in_range 128 191 (b2N b3))) eqn:R3.
  { inversion H; subst. destruct Hne as [E|E]; exfalso; apply E; reflexivity. }
  inversion H; subst. cbn [firstn app]. rewrite F, E1, E0, R1, E2, R2, E3, R3. reflexivity.
Qed.

(* the width never exceeds the input *)
Lemma utf8_decode_width_le : forall s r w, utf8_decode s = (r, w) -> (w <= length s)%nat.
Proof.
  intros s r w H. destruct s as [|b0 t]; [cbn in H; inversion H; cbn; lia|].
  unfold utf8_decode in H. destruct (utf8_first (b2N b0)) as [[sz lo] hi].
  destruct (sz =? 1); [inversion H; cbn; lia|]. destruct (sz =? 0); [inversion H; cbn; lia|].
  destruct t as [|b1 t1]; [inversion H; cbn; lia|].
  destruct (negb (in_range lo hi (b2N b1))); [inversion H; cbn; lia|].
  destruct (sz =? 2); [inversion H; cbn; lia|].
  destruct t1 as [|b2 t2]; [inversion H; cbn; lia|].
  destruct (negb (in_range 128 191 (b2N b2))); [inversion H; cbn; lia|].
  destruct (sz =? 3); [inversion H; cbn; lia|].
  destruct t2 as [|b3 t3]; [inversion H; cbn; lia|].
  destruct (negb (in_range 128 191 (b2N b3))); inversion H; cbn; lia.
Qed.

(* utf8_first on a lead byte that is not ASCII *)
Lemma utf8_first_sz : forall s0 sz lo hi, utf8_first s0 = (sz, lo, hi) -> (sz =? 1) = false -> 128 <= s0.
Proof.
  intros s0 sz lo hi H E. unfold utf8_first in H. destruct (s0 <? 128) eqn:L; [inversion H; subst; discriminate|].
  apply N.ltb_ge in L. exact L.
Qed.

Ltac Zify.zify_post_hook ::= Z.div_mod_to_equations.

Lemma utf8_first_cases : forall s0 sz lo hi, utf8_first s0 = (sz, lo, hi) ->
  (sz = 1 /\ s0 < 128) \/ sz = 0 \/
  (sz = 2 /\ 194 <= s0 < 224 /\ lo = 128) \/
  (sz = 3 /\ 224 <= s0 < 240 /\ 128 <= lo /\ hi <= 191 /\ (s0 = 224 -> lo = 160)) \/
  (sz = 4 /\ 240 <= s0 < 245 /\ 128 <= lo /\ hi <= 191 /\ (s0 = 240 -> lo = 144)).
Proof.
  intros s0 sz lo hi H. unfold utf8_first in H.
  destruct (s0 <? 128) eqn:A0; [inversion H; subst; left; split; [reflexivity|apply N.ltb_lt; exact A0]|]. apply N.ltb_ge in A0.
  destruct (s0 <? 194) eqn:A1; [inversion H; subst; right; left; reflexivity|]. apply N.ltb_ge in A1.
  destruct (s0 <? 224) eqn:A2; [apply N.ltb_lt in A2; inversion H; subst; right; right; left; repeat split; lia|]. apply N.ltb_ge in A2.
  destruct (s0 =? 224) eqn:A3; [apply N.eqb_eq in A3; inversion H; subst; right; right; right; left; repeat split; lia|]. apply N.eqb_neq in A3.
  destruct (s0 <? 237) eqn:A4; [apply N.ltb_lt in A4; inversion H; subst; right; right; right; left; repeat split; lia|]. apply N.ltb_ge in A4.
  destruct (s0 =? 237) eqn:A5; [apply N.eqb_eq in A5; inversion H; subst; right; right; right; left; repeat split; lia|]. apply N.eqb_neq in A5.
  destruct (s0 <? 240) eqn:A6; [apply N.ltb_lt in A6; inversion H; subst; right; right; right; left; repeat split; lia|]. apply N.ltb_ge in A6.
  destruct (s0 =? 240) eqn:A7; [apply N.eqb_eq in A7; inversion H; subst; right; right; right; right; repeat split; lia|]. apply N.eqb_neq in A7.
  destruct (s0 <? 244) eqn:A8; [apply N.ltb_lt in A8; inversion H; subst; right; right; right; right; repeat split; lia|]. apply N.ltb_ge in A8.
  destruct (s0 =? 244) eqn:A9; [apply N.eqb_eq in A9; inversion H; subst; right; right; right; right; repeat split; lia|].
  inversion H; subst. right; left; reflexivity.
Qed.

(* an ASCII result comes from a single ASCII byte *)
Lemma utf8_decode_ascii : forall s r w, utf8_decode s = (r, w) -> r < 128 ->
  exists t, s = N2b r :: t /\ w = 1%nat.
Proof.
  intros s r w H Hr. destruct s as [|b0 t]; [cbn in H; inversion H; subst; cbv in Hr; discriminate|].
  unfold utf8_decode in H. destruct (utf8_first (b2N b0)) as [[sz lo] hi] eqn:F.
  assert (RE : ~ rune_error < 128) by (cbv; discriminate).
  destruct (utf8_first_cases _ _ _ _ F) as [[-> B]|[->|[[-> [B L]]|[[-> [B [L [Lh L']]]]|[-> [B [L [Lh L']]]]]]]].
  - change (1 =? 1) with true in H. cbv iota in H. inversion H; subst. exists t. rewrite N2b_b2N. split; reflexivity.
  - change (0 =? 1) with false in H. change (0 =? 0) with true in H. cbv iota in H. inversion H; subst. exfalso; exact (RE Hr).
  - exfalso. change (2 =? 1) with false in H. change (2 =? 0) with false in H. change (2 =? 2) with true in H. cbv iota in H.
    destruct t as [|b1 t1]; [inversion H; subst; exact (RE Hr)|].
    destruct (negb (in_range lo hi (b2N b1))) eqn:R1; [inversion H; subst; exact (RE Hr)|].
    inversion H; subst. lia.
  - exfalso. change (3 =? 1) with false in H. change (3 =? 0) with false in H. change (3 =? 2) with false in H.
    change (3 =? 3) with true in H. cbv iota in H.
    destruct t as [|b1 t1]; [inversion H; subst; exact (RE Hr)|].
    destruct (negb (in_range lo hi (b2N b1))) eqn:R1; [inversion H; subst; exact (RE Hr)|].
    destruct t1 as [|b2 t2]; [inversion H; subst; exact (RE Hr)|].
    destruct (negb (in_range 128 191 (b2N b2))); [inversion H; subst; exact (RE Hr)|].
    inversion H; subst.
    apply negb_false_iff in R1. unfold in_range in R1. apply andb_true_iff in R1. destruct R1 as [Rlo Rhi].
    apply N.leb_le in Rlo, Rhi. pose proof (b2N_lt b1).
    destruct (N.eq_dec (b2N b0) 224) as [E|E]; [specialize (L' E)|]; lia.
  - exfalso. change (4 =? 1) with false in H. change (4 =? 0) with false in H. change (4 =? 2) with false in H.
    change (4 =? 3) with false in H. cbv iota in H.
    destruct t as [|b1 t1]; [inversion H; subst; exact (RE Hr)|].
    destruct (negb (in_range lo hi (b2N b1))) eqn:R1; [inversion H; subst; exact (RE Hr)|].
    destruct t1 as [|b2 t2]; [inversion H; subst; exact (RE Hr)|].
    destruct (negb (in_range 128 191 (b2N b2))); [inversion H; subst; exact (RE Hr)|].
    destruct t2 as [|b3 t3]; [inversion H; subst; exact (RE Hr)|].
    destruct (negb (in_range 128 191 (b2N b3))); [inversion H; subst; exact (RE Hr)|].
    inversion H; subst.
    apply negb_false_iff in R1. unfold in_range in R1. apply andb_true_iff in R1. destruct R1 as [Rlo Rhi].
    apply N.leb_le in Rlo, Rhi. pose proof (b2N_lt b1).
    destruct (N.eq_dec (b2N b0) 240) as [E|E]; [specialize (L' E)|]; lia.
Qed.

(* ---- one iteration of the unescape loop ------------------------------------------------------------ *)

(* for non-empty input an iteration either fails outright, whatever the fuel, or copies a piece P and
   continues on a strictly shorter X *)
Lemma unesc_unfold : forall s, s <> [] ->
  (exists e, (forall f, pyunescape_loop (S f) s = e) /\ (forall t, e <> Ok t)) \/
  (exists P X, (length X < length s)%nat /\
               forall f, pyunescape_loop (S f) s = match pyunescape_loop f X with Ok t => Ok (P ++ t) | e => e end).
Proof.
  intros s Hs. destruct s as [|c0 t0]; [contradiction|].
  cbn [pyunescape_loop]. destruct (utf8_decode (c0 :: t0)) as [r w] eqn:D.
  pose proof (utf8_decode_width_pos (c0 :: t0) ltac:(discriminate)) as Wp. rewrite D in Wp. cbn [snd] in Wp.
  destruct (negb (r =? 92)) eqn:Er.
  - right. exists (firstn w (c0 :: t0)), (skipn w (c0 :: t0)). split; [rewrite skipn_length; cbn [length]; lia|].
    intros f. reflexivity.
  - destruct t0 as [|c t].
    + left. exists (Err ESyntax). split; [reflexivity|discriminate].
    + destruct (b2N c =? 10).
      { right. exists [], t. split; [cbn; lia|]. intros f. destruct (pyunescape_loop f t); reflexivity. }
      destruct (b2N c =? 92).
      { right. exists ["\"%byte], t. split; [cbn; lia|]. intros f. reflexivity. }
      destruct ((b2N c =? 39) || (b2N c =? 34)).
      { right. exists [c], t. split; [cbn; lia|]. intros f. reflexivity. }
      destruct ((b2N c =? 98) || (b2N c =? 102) || (b2N c =? 116) || (b2N c =? 110) || (b2N c =? 114)
                || (b2N c =? 118) || (b2N c =? 97) || is_octal c || (b2N c =? 120)).
      * destruct (unquote_char (c0 :: c :: t)) as [[v tail]|] eqn:U.
        -- destruct (255 <? v).
           ++ left. exists Panic. split; [reflexivity|discriminate].
           ++ right. exists [N2b v], tail. split; [exact (unquote_char_tail _ _ _ U)|]. intros f. reflexivity.
        -- left. exists (Err ESyntax). split; [reflexivity|discriminate].
      * right. exists ["\"%byte], (c :: t). split; [cbn; lia|]. intros f. reflexivity.
Qed.

Lemma unesc_nil : forall f, pyunescape_loop f [] = Ok [].
Proof. destruct f; reflexivity. Qed.

Lemma unesc_fuel_mono : forall f s t, pyunescape_loop f s = Ok t ->
  forall f', (f <= f')%nat -> pyunescape_loop f' s = Ok t.
Proof.
  induction f as [|f IH]; intros s t H f' Hf.
  - destruct s; [|cbn in H; discriminate]. cbn in H. inversion H; subst. apply unesc_nil.
  - destruct s as [|c0 t0]; [cbn in H; inversion H; subst; apply unesc_nil|].
    destruct f' as [|f']; [lia|].
    destruct (unesc_unfold (c0 :: t0) ltac:(discriminate)) as [[e [He Hne]]|[P [X [Hl HX]]]].
    + rewrite He in H. exfalso. exact (Hne t H).
    + rewrite HX in H |- *. destruct (pyunescape_loop f X) as [tx| | |] eqn:E; try discriminate.
      rewrite (IH X tx E f' ltac:(lia)). exact H.
Qed.

(* ---- the pieces pyquote emits ----------------------------------------------------------------------- *)

Lemma unhex_hexdigit : forall d, d < 16 -> unhex (hexdigit d) = Some d.
Proof.
  intros d H. unfold hexdigit, unhex. destruct (d <? 10) eqn:E.
  - apply N.ltb_lt in E. rewrite b2N_N2b by lia.
    assert (A : ((48 <=? 48 + d) && (48 + d <=? 57)) = true) by (apply andb_true_iff; split; apply N.leb_le; lia).
    rewrite A. f_equal. lia.
  - apply N.ltb_ge in E. rewrite b2N_N2b by lia.
    assert (A : ((48 <=? 87 + d) && (87 + d <=? 57)) = false) by (apply andb_false_iff; right; apply N.leb_gt; lia).
    assert (B : ((97 <=? 87 + d) && (87 + d <=? 102)) = true) by (apply andb_true_iff; split; apply N.leb_le; lia).
    rewrite A, B. f_equal. lia.
Qed.

Lemma hex_value_byte : forall b t, hex_value 2 (hex_of_byte b ++ t) 0 = Some (b2N b, t).
Proof.
  intros b t. unfold hex_of_byte. cbn [app hex_value]. pose proof (b2N_lt b) as L.
  rewrite unhex_hexdigit by (apply N.div_lt_upper_bound; lia).
  rewrite unhex_hexdigit by (apply N.mod_lt; lia). f_equal. f_equal.
  pose proof (N.div_mod (b2N b) 16 ltac:(lia)). lia.
Qed.

(* \xHH *)
Lemma unesc_hex_escape : forall f b Y,
  pyunescape_loop (S f) (hex_escape b ++ Y) = match pyunescape_loop f Y with Ok t => Ok (b :: t) | e => e end.
Proof.
  intros f b Y. unfold hex_escape. cbn [app]. cbn [pyunescape_loop].
  change (utf8_decode ("\"%byte :: "x"%byte :: hex_of_byte b ++ Y)) with (92, 1%nat).
  change (negb (92 =? 92)) with false. cbv iota.
  change (b2N "x"%byte) with 120.
  change (120 =? 10) with false. change (120 =? 92) with false.
  change ((120 =? 39) || (120 =? 34)) with false.
  change ((120 =? 98) || (120 =? 102) || (120 =? 116) || (120 =? 110) || (120 =? 114) || (120 =? 118) || (120 =? 97) || is_octal "x"%byte || (120 =? 120)) with true.
  cbv iota. unfold unquote_char. change (negb (beqb "\"%byte "\"%byte)) with false. cbv iota.
  change (b2N "x"%byte) with 120.
  change (120 =? 97) with false. change (120 =? 98) with false. change (120 =? 102) with false.
  change (120 =? 110) with false. change (120 =? 114) with false. change (120 =? 116) with false.
  change (120 =? 118) with false. change (120 =? 120) with true. cbv iota.
  rewrite hex_value_byte. pose proof (b2N_lt b) as L.
  assert (E : (255 <? b2N b) = false) by (apply N.ltb_ge; lia). rewrite E, N2b_b2N. reflexivity.
Qed.

Lemma unesc_hex_escapes : forall chunk f Y t, pyunescape_loop f Y = Ok t ->
  pyunescape_loop (length chunk + f) (flat_map hex_escape chunk ++ Y) = Ok (chunk ++ t).
Proof.
  induction chunk as [|b r IH]; intros f Y t H; [exact H|].
  cbn [flat_map length Nat.add app]. rewrite <- app_assoc. rewrite unesc_hex_escape.
  rewrite (IH f Y t H). reflexivity.
Qed.

(* backslash and double quote *)
Lemma unesc_backslash : forall f Y t, pyunescape_loop f Y = Ok t ->
  pyunescape_loop (S f) ("\"%byte :: "\"%byte :: Y) = Ok ("\"%byte :: t).
Proof.
  intros f Y t H. cbn [pyunescape_loop].
  change (utf8_decode ("\"%byte :: "\"%byte :: Y)) with (92, 1%nat).
  change (negb (92 =? 92)) with false. cbv iota. change (b2N "\"%byte) with 92.
  change (92 =? 10) with false. change (92 =? 92) with true. cbv iota. rewrite H. reflexivity.
Qed.

Lemma unesc_dquote : forall f Y t, pyunescape_loop f Y = Ok t ->
  pyunescape_loop (S f) ("\"%byte :: """"%byte :: Y) = Ok (""""%byte :: t).
Proof.
  intros f Y t H. cbn [pyunescape_loop].
  change (utf8_decode ("\"%byte :: """"%byte :: Y)) with (92, 1%nat).
  change (negb (92 =? 92)) with false. cbv iota. change (b2N """"%byte) with 34.
  change (34 =? 10) with false. change (34 =? 92) with false. change ((34 =? 39) || (34 =? 34)) with true.
  cbv iota. rewrite H. reflexivity.
Qed.

(* a control character: one of the seven letter escapes, or \xHH *)
Lemma unesc_ctrl : forall r f Y t, r < 32 -> pyunescape_loop f Y = Ok t ->
  pyunescape_loop (S f) (quote_ctrl r ++ Y) = Ok (N2b r :: t).
Proof.
  intros r f Y t Hr H.
  assert (C : r = 7 \/ r = 8 \/ r = 12 \/ r = 10 \/ r = 13 \/ r = 9 \/ r = 11 \/
              (r <> 7 /\ r <> 8 /\ r <> 12 /\ r <> 10 /\ r <> 13 /\ r <> 9 /\ r <> 11)) by lia.
  destruct C as [->|[->|[->|[->|[->|[->|[->|C]]]]]]]; try (cbn; rewrite H; reflexivity).
  destruct C as [C1 [C2 [C3 [C4 [C5 [C6 C7]]]]]]. unfold quote_ctrl.
  apply N.eqb_neq in C1, C2, C3, C4, C5, C6, C7. rewrite C1, C2, C3, C4, C5, C6, C7.
  change ("\"%byte :: "x"%byte :: hex_of_byte (N2b r)) with (hex_escape (N2b r)).
  rewrite unesc_hex_escape, H. reflexivity.
Qed.

Lemma skipn_length_app' : forall A (a b : list A), skipn (length a) (a ++ b) = b.
Proof. intros A a b. induction a as [|x t IH]; [reflexivity|exact IH]. Qed.
Lemma firstn_length_app' : forall A (a b : list A), firstn (length a) (a ++ b) = a.
Proof. intros A a b. induction a as [|x t IH]; [reflexivity|cbn; f_equal; exact IH]. Qed.

(* a chunk copied as it is *)
Lemma unesc_plain : forall s r w f Y t, s <> [] -> utf8_decode s = (r, w) -> r <> rune_error -> r <> 92 ->
  pyunescape_loop f Y = Ok t ->
  pyunescape_loop (S f) (firstn w s ++ Y) = Ok (firstn w s ++ t).
Proof.
  intros s r w f Y t Hs D Hre Hr H.
  pose proof (utf8_decode_local s Y r w Hs D (or_introl Hre)) as L.
  pose proof (utf8_decode_width_pos s Hs) as Wp. rewrite D in Wp. cbn [snd] in Wp.
  pose proof (utf8_decode_width_le s r w D) as Wl.
  destruct (firstn w s ++ Y) as [|c0 t0] eqn:E.
  { exfalso. destruct s; [contradiction|]. destruct w; [lia|]. discriminate. }
  cbn [pyunescape_loop]. rewrite L. rewrite <- E.
  assert (Ne : negb (r =? 92) = true) by (apply negb_true_iff; apply N.eqb_neq; exact Hr). rewrite Ne.
  assert (Lf : length (firstn w s) = w) by (rewrite firstn_length; lia).
  rewrite <- Lf at 1. rewrite skipn_length_app', H. rewrite <- Lf at 1. rewrite firstn_length_app'. reflexivity.
Qed.

(* ---- pydecodeStringEscape (pyquote s without its quotes) = s ---------------------------------------- *)

Lemma hex_escape_length : forall chunk, length (flat_map hex_escape chunk) = (4 * length chunk)%nat.
Proof. induction chunk as [|b t IH]; [reflexivity|]. cbn [flat_map length app]. rewrite app_length, IH. cbn. lia. Qed.

Lemma quote_unquote_loop : forall isp fuel s, (length s <= fuel)%nat ->
  forall F, (length (pyquote_loop isp fuel s) <= F)%nat ->
  pyunescape_loop F (pyquote_loop isp fuel s) = Ok s.
Proof.
  intros isp. induction fuel as [|f IH]; intros s Hl F HF.
  - destruct s; [|cbn in Hl; lia]. apply unesc_nil.
  - destruct s as [|c0 t0]; [apply unesc_nil|].
    cbn [pyquote_loop] in HF |- *.
    set (s := c0 :: t0) in *. assert (Hs : s <> []) by discriminate.
    destruct (utf8_decode s) as [r w] eqn:D. cbv zeta in HF |- *.
    pose proof (utf8_decode_width_pos s Hs) as Wp. rewrite D in Wp. cbn [snd] in Wp.
    pose proof (utf8_decode_width_le s r w D) as Wl.
    set (chunk := firstn w s) in *. set (rest := skipn w s) in *.
    assert (Lc : length chunk = w) by (unfold chunk; rewrite firstn_length; lia).
    assert (Lr : (length rest <= f)%nat) by (unfold rest; rewrite skipn_length; lia).
    assert (Es : chunk ++ rest = s) by apply firstn_skipn.
    set (B := pyquote_loop isp f rest) in *.
    pose proof (IH rest Lr (length B) (Nat.le_refl _)) as HB.
    rewrite app_length in HF.
    (* the hex-escaped forms *)
    assert (HexCase : (4 * w + length B <= F)%nat ->
                      pyunescape_loop F (flat_map hex_escape chunk ++ B) = Ok s).
    { intros HF'. rewrite <- Es. eapply unesc_fuel_mono; [apply (unesc_hex_escapes chunk (length B) B rest HB)|lia]. }
    destruct (r =? rune_error) eqn:E1.
    { apply HexCase. rewrite hex_escape_length in HF. lia. }
    apply N.eqb_neq in E1.
    destruct ((r =? 92) || (r =? 34)) eqn:E2.
    { assert (Ra : r < 128) by (apply orb_true_iff in E2; destruct E2 as [E|E]; apply N.eqb_eq in E; lia).
      destruct (utf8_decode_ascii s r w D Ra) as [t [Est Ew]].
      assert (Ec : chunk = [N2b r]) by (unfold chunk; rewrite Ew, Est; reflexivity).
      rewrite <- Es, Ec. cbn [length] in HF. apply orb_true_iff in E2. destruct E2 as [E|E]; apply N.eqb_eq in E; subst r.
      - eapply unesc_fuel_mono; [apply (unesc_backslash (length B) B rest HB)|lia].
      - eapply unesc_fuel_mono; [apply (unesc_dquote (length B) B rest HB)|lia]. }
    apply orb_false_iff in E2. destruct E2 as [E92 E34]. apply N.eqb_neq in E92.
    destruct (is_print_with isp r) eqn:E3.
    { rewrite <- Es. fold chunk in HF. eapply unesc_fuel_mono; [apply (unesc_plain s r w (length B) B rest Hs D E1 E92 HB)|lia]. }
    destruct (r <? 32) eqn:E4.
    { apply N.ltb_lt in E4. assert (Ra : r < 128) by lia.
      destruct (utf8_decode_ascii s r w D Ra) as [t [Est Ew]].
      assert (Ec : chunk = [N2b r]) by (unfold chunk; rewrite Ew, Est; reflexivity).
      rewrite <- Es, Ec. eapply unesc_fuel_mono; [apply (unesc_ctrl r (length B) B rest E4 HB)|].
      assert (1 <= length (quote_ctrl r))%nat.
      { unfold quote_ctrl. repeat match goal with |- context [if ?c then _ else _] => destruct c end; cbn; lia. }
      lia. }
    apply HexCase. rewrite hex_escape_length in HF. lia.
Qed.

Theorem pydecode_string_escape_pyquote_body : forall isp s,
  pydecode_string_escape (pyquote_loop isp (length s) s) = Ok s.
Proof.
  intros isp s. unfold pydecode_string_escape. apply quote_unquote_loop; [apply Nat.le_refl|apply Nat.le_refl].
Qed.

(* ---- pyquote never emits a line feed ---------------------------------------------------------------- *)

Definition nolf (l : bytes) : Prop := IntFacts.no_lf l.

Lemma nolf_app : forall a b, nolf a -> nolf b -> nolf (a ++ b).
Proof. intros a b Ha Hb. unfold nolf, IntFacts.no_lf in *. rewrite forallb_app, Ha, Hb. reflexivity. Qed.

Lemma nolf_cons : forall c l, b2N c <> 10 -> nolf l -> nolf (c :: l).
Proof.
  intros c l Hc Hl. unfold nolf, IntFacts.no_lf in *. cbn. rewrite Hl.
  assert (E : beqb c x0a = false) by (unfold beqb; apply N.eqb_neq; exact Hc). rewrite E. reflexivity.
Qed.

Lemma hexdigit_high : forall d, d < 16 -> 48 <= b2N (hexdigit d).
Proof. intros d H. unfold hexdigit. destruct (d <? 10); rewrite b2N_N2b by lia; lia. Qed.

Lemma nolf_hex_escape : forall b, nolf (hex_escape b).
Proof.
  intros b. unfold hex_escape, hex_of_byte. pose proof (b2N_lt b).
  apply nolf_cons; [cbv; discriminate|]. apply nolf_cons; [cbv; discriminate|].
  apply nolf_cons; [pose proof (hexdigit_high (b2N b / 16) ltac:(apply N.div_lt_upper_bound; lia)); lia|].
  apply nolf_cons; [pose proof (hexdigit_high (b2N b mod 16) ltac:(apply N.mod_lt; lia)); lia|]. reflexivity.
Qed.

Lemma nolf_hex_escapes : forall chunk, nolf (flat_map hex_escape chunk).
Proof. induction chunk as [|b t IH]; [reflexivity|]. cbn [flat_map]. apply nolf_app; [apply nolf_hex_escape|exact IH]. Qed.

Lemma nolf_quote_ctrl : forall r, nolf (quote_ctrl r).
Proof.
  intros r. unfold quote_ctrl.
  repeat match goal with |- context [if ?c then _ else _] => destruct c end; try reflexivity.
  exact (nolf_hex_escape (N2b r)).
Qed.

(* the bytes of a multi-byte rune are all >= 128 *)
Lemma utf8_chunk_high : forall s r w, utf8_decode s = (r, w) -> 128 <= r -> r <> rune_error ->
  Forall (fun c => 128 <= b2N c) (firstn w s).
Proof.
  intros s r w H Hr Hre. destruct s as [|b0 t]; [cbn in H; inversion H; subst; constructor|].
  unfold utf8_decode in H. destruct (utf8_first (b2N b0)) as [[sz lo] hi] eqn:F.
  destruct (utf8_first_cases _ _ _ _ F) as [[-> B]|[->|[[-> [B L]]|[[-> [B [L [Lh L']]]]|[-> [B [L [Lh L']]]]]]]].
  - change (1 =? 1) with true in H. cbv iota in H. inversion H; subst. lia.
  - change (0 =? 1) with false in H. change (0 =? 0) with true in H. cbv iota in H. inversion H; subst. contradiction.
  - change (2 =? 1) with false in H. change (2 =? 0) with false in H. change (2 =? 2) with true in H. cbv iota in H.
    destruct t as [|b1 t1]; [inversion H; subst; contradiction|].
    destruct (negb (in_range lo hi (b2N b1))) eqn:R1; [inversion H; subst; contradiction|].
    inversion H; subst. apply negb_false_iff in R1. unfold in_range in R1. apply andb_true_iff in R1.
    destruct R1 as [Rlo _]. apply N.leb_le in Rlo. cbn [firstn]. repeat constructor; lia.
  - change (3 =? 1) with false in H. change (3 =? 0) with false in H. change (3 =? 2) with false in H.
    change (3 =? 3) with true in H. cbv iota in H.
    destruct t as [|b1 t1]; [inversion H; subst; contradiction|].
    destruct (negb (in_range lo hi (b2N b1))) eqn:R1; [inversion H; subst; contradiction|].
    destruct t1 as [|b2 t2]; [inversion H; subst; contradiction|].
    destruct (negb (in_range 128 191 (b2N b2))) eqn:R2; [inversion H; subst; contradiction|].
    inversion H; subst. apply negb_false_iff in R1, R2. unfold in_range in R1, R2.
    apply andb_true_iff in R1, R2. destruct R1 as [Rlo _]. destruct R2 as [Rlo2 _]. apply N.leb_le in Rlo, Rlo2.
    cbn [firstn]. repeat constructor; lia.
  - change (4 =? 1) with false in H. change (4 =? 0) with false in H. change (4 =? 2) with false in H.
    change (4 =? 3) with false in H. cbv iota in H.
    destruct t as [|b1 t1]; [inversion H; subst; contradiction|].
    destruct (negb (in_range lo hi (b2N b1))) eqn:R1; [inversion H; subst; contradiction|].
    destruct t1 as [|b2 t2]; [inversion H; subst; contradiction|].
    destruct (negb (in_range 128 191 (b2N b2))) eqn:R2; [inversion H; subst; contradiction|].
    destruct t2 as [|b3 t3]; [inversion H; subst; contradiction|].
    destruct (negb (in_range 128 191 (b2N b3))) eqn:R3; [inversion H; subst; contradiction|].
    inversion H; subst. apply negb_false_iff in R1, R2, R3. unfold in_range in R1, R2, R3.
    apply andb_true_iff in R1, R2, R3. destruct R1 as [Rlo _]. destruct R2 as [Rlo2 _]. destruct R3 as [Rlo3 _].
    apply N.leb_le in Rlo, Rlo2, Rlo3. cbn [firstn]. repeat constructor; lia.
Qed.

Lemma nolf_high : forall l, Forall (fun c => 128 <= b2N c) l -> nolf l.
Proof. intros l F. induction F as [|c t Hc Ft IH]; [reflexivity|]. apply nolf_cons; [lia|exact IH]. Qed.

Lemma nolf_pyquote_loop : forall isp fuel s, nolf (pyquote_loop isp fuel s).
Proof.
  intros isp. induction fuel as [|f IH]; intros s; [reflexivity|].
  destruct s as [|c0 t0]; [reflexivity|]. cbn [pyquote_loop].
  set (s := c0 :: t0) in *. assert (Hs : s <> []) by discriminate.
  destruct (utf8_decode s) as [r w] eqn:D. cbv zeta. apply nolf_app; [|apply IH].
  destruct (r =? rune_error) eqn:E1; [apply nolf_hex_escapes|]. apply N.eqb_neq in E1.
  destruct ((r =? 92) || (r =? 34)) eqn:E2.
  { apply orb_true_iff in E2. destruct E2 as [E|E]; apply N.eqb_eq in E; subst r; reflexivity. }
  destruct (is_print_with isp r) eqn:E3.
  { destruct (N.lt_ge_cases r 128) as [Ra|Ra].
    - destruct (utf8_decode_ascii s r w D Ra) as [t [Est Ew]]. rewrite Ew, Est. cbn [firstn].
      unfold is_print_with in E3. apply N.ltb_lt in Ra. rewrite Ra in E3. apply andb_true_iff in E3.
      destruct E3 as [E3 _]. apply N.leb_le in E3. apply N.ltb_lt in Ra.
      apply nolf_cons; [rewrite b2N_N2b by lia; lia|reflexivity].
    - apply nolf_high. eapply utf8_chunk_high; eassumption. }
  destruct (r <? 32); [apply nolf_quote_ctrl|apply nolf_hex_escapes].
Qed.

Theorem nolf_pyquote : forall isp s, nolf (pyquote isp s).
Proof.
  intros isp s. unfold pyquote. apply nolf_cons; [cbv; discriminate|].
  apply nolf_app; [apply nolf_pyquote_loop|]. apply nolf_cons; [cbv; discriminate|reflexivity].
Qed.
