(* TypingFacts.v — C16: every value the decoder produces is of a documented type, consistent
   with the decoder mode; the stack marker never reaches a result, the memo or PersistentLoad. *)
From Coq Require Import Ascii String.
From Coq Require Import List ZArith NArith Bool Lia.
From Coq.Strings Require Import Byte.
From OgRek Require Import Base Utf8 GoStrconv PyQuote Float Value PyEq Dict Reader Decoder.
From OgRek Require Import BaseFacts ReaderFacts CodecFacts DecoderFacts ParseFloatFacts PyEqFacts DictFacts KeyFacts.
Import ListNotations.
Open Scope N_scope.

(* ---- the documented result types, per mode ----------------------------------------------- *)

Fixpoint wt (cfg : dconfig) (v : val) : bool :=
  match v with
  | VNone | VBool _ | VStr _ | VBytes _ | VBArr _ | VClass _ _ | VBig _ _ => true
  | VFloat f => wfb f                             (* a float64 bit pattern *)
  | VUser _ => match c_load cfg with Some _ => true | None => false end
  | VInt z => in_int64 z
  | VBStr _ => c_strict cfg                       (* ByteString only with StrictUnicode *)
  | VList _ l => forallb (wt cfg) l
  | VTuple l => forallb (wt cfg) l
  | VCall _ _ l => forallb (wt cfg) l
  | VRef p => wt cfg p
  | VMap _ => negb (c_pydict cfg)                 (* builtin map only with PyDict off *)
  | VDict _ => c_pydict cfg                       (* Dict only with PyDict on *)
  | VUint _ | VComplex _ _ | VMark => false
  end.

Definition item_ok (cfg : dconfig) (v : val) : Prop := is_mark v = true \/ wt cfg v = true.
Definition entry_ok (cfg : dconfig) (kv : val * val) : Prop := wt cfg (fst kv) = true /\ wt cfg (snd kv) = true.
(* an object holds documented values, and its keys are pairwise unequal: under Go's == in a builtin
   map, under Python's == (and each a hashable key) in a Dict *)
Definition obj_ok (cfg : dconfig) (o : hobj) : Prop :=
  match o with HMap es | HDict es => Forall (entry_ok cfg) es end /\ obj_keys o.

Record state_ok (cfg : dconfig) (st : dstate) : Prop := {
  so_stack : Forall (item_ok cfg) (d_stack st);
  so_memo : Forall (fun kv => wt cfg (snd kv) = true) (d_memo st);
  so_heap : Forall (fun io => obj_ok cfg (snd io)) (d_heap st);
  so_log : Forall (fun r => wt cfg r = true) (d_log st) }.

(* what PersistentLoad may hand back: any documented value (or an opaque object of its own) *)
Definition load_ok (cfg : dconfig) : Prop :=
  forall f, c_load cfg = Some f -> forall i p o, f i p = LObj o -> wt cfg o = true.

Lemma state_ok_init : forall cfg, state_ok cfg init_state.
Proof. intros. constructor; constructor. Qed.

(* ---- small facts ---------------------------------------------------------------------------- *)

Lemma wt_not_mark : forall cfg v, wt cfg v = true -> is_mark v = false.
Proof. intros cfg v H. destruct v; try reflexivity. discriminate. Qed.

Lemma item_ok_wt : forall cfg v, item_ok cfg v -> is_mark v = false -> wt cfg v = true.
Proof. intros cfg v [H|H] N; [congruence|exact H]. Qed.

Lemma in_int64_wrap_s32 : forall z, in_int64 (wrap_s 32 z) = true.
Proof.
  intros z. unfold in_int64, wrap_s, int64_min, int64_max.
  change (Z.of_N (2 ^ 32)) with 4294967296%Z.
  pose proof (Z.mod_pos_bound z 4294967296 ltac:(lia)).
  destruct (z mod 4294967296 <? 4294967296 / 2)%Z; apply andb_true_iff; split; apply Z.leb_le; lia.
Qed.

Lemma in_int64_small : forall n, n < 4294967296 -> in_int64 (Z.of_N n) = true.
Proof.
  intros n H. unfold in_int64, int64_min, int64_max. apply andb_true_iff; split; apply Z.leb_le; lia.
Qed.

Lemma le_decode_2 : forall b, N.of_nat (length b) = 2 -> le_decode b < 4294967296.
Proof.
  intros b H. pose proof (le_decode_bound b) as B. rewrite H in B. cbn in B. lia.
Qed.

Lemma parse_int64_range : forall s z, parse_int64 s = PIok z -> in_int64 z = true.
Proof.
  intros s z H. unfold parse_int64 in H.
  destruct (split_sign s) as [neg ds]. destruct ds; [discriminate|].
  destruct (Nat.eqb _ _); [|destruct (_ <? _); discriminate].
  match type of H with (if ?c then _ else _) = _ => destruct c eqn:E end; [|discriminate].
  inversion H; subst. exact E.
Qed.

Lemma forallb_app_true : forall A (f : A -> bool) l1 l2,
  forallb f l1 = true -> forallb f l2 = true -> forallb f (l1 ++ l2) = true.
Proof. intros. rewrite forallb_app. rewrite H, H0. reflexivity. Qed.

Lemma Forall_forallb : forall A (f : A -> bool) l, Forall (fun x => f x = true) l -> forallb f l = true.
Proof. intros A f l H. apply forallb_forall. rewrite Forall_forall in H. exact H. Qed.

Lemma forallb_Forall : forall A (f : A -> bool) l, forallb f l = true -> Forall (fun x => f x = true) l.
Proof. intros A f l H. apply Forall_forall. apply forallb_forall. exact H. Qed.

(* items above the topmost mark contain no mark; they and the rest come from the stack *)
Lemma split_mark_ok : forall cfg s above below,
  Forall (item_ok cfg) s -> split_mark s = Some (above, below) ->
  Forall (fun v => wt cfg v = true) above /\ Forall (item_ok cfg) below.
Proof.
  intros cfg s. induction s as [|v t IH]; intros above below H S; cbn in S; [discriminate|].
  inversion H as [|? ? Hv Ht]; subst.
  destruct (is_mark v) eqn:M.
  - inversion S; subst. split; [constructor|exact Ht].
  - destruct (split_mark t) as [[a b]|] eqn:St; [|discriminate]. inversion S; subst.
    destruct (IH a below Ht eq_refl) as [A B]. split; [|exact B].
    constructor; [apply item_ok_wt; assumption|exact A].
Qed.

Lemma memo_get_ok : forall cfg m k v,
  Forall (fun kv => wt cfg (snd kv) = true) m -> memo_get m k = Some v -> wt cfg v = true.
Proof.
  intros cfg m k v H. induction H as [|[k' v'] t Hk Ht IH]; cbn; intros G; [discriminate|].
  destruct (bytes_eqb k' k); [inversion G; subst; exact Hk|apply IH; exact G].
Qed.

Lemma memo_set_ok : forall cfg m k v,
  Forall (fun kv => wt cfg (snd kv) = true) m -> wt cfg v = true ->
  Forall (fun kv => wt cfg (snd kv) = true) (memo_set m k v).
Proof.
  intros cfg m k v H Hv. induction H as [|[k' v'] t Hk Ht IH]; cbn.
  - constructor; [exact Hv|constructor].
  - destruct (bytes_eqb k' k); constructor; try assumption.
Qed.

Lemma heap_get_ok : forall cfg h id o,
  Forall (fun io => obj_ok cfg (snd io)) h -> heap_get h id = Some o -> obj_ok cfg o.
Proof.
  intros cfg h id o H. induction H as [|[i o'] t Ho Ht IH]; cbn; intros G; [discriminate|].
  destruct (i =? id); [inversion G; subst; exact Ho|apply IH; exact G].
Qed.

Lemma heap_set_ok : forall cfg h id o,
  Forall (fun io => obj_ok cfg (snd io)) h -> obj_ok cfg o ->
  Forall (fun io => obj_ok cfg (snd io)) (heap_set h id o).
Proof.
  intros cfg h id o H Ho. induction H as [|[i o'] t Hi Ht IH]; cbn.
  - constructor; [exact Ho|constructor].
  - destruct (i =? id); constructor; try assumption.
Qed.

Lemma gomap_assign_ok : forall cfg es k v,
  Forall (entry_ok cfg) es -> wt cfg k = true -> wt cfg v = true ->
  Forall (entry_ok cfg) (gomap_assign es k v).
Proof.
  intros cfg es k v H Hk Hv. induction H as [|[k' v'] t He Ht IH]; cbn.
  - constructor; [split; assumption|constructor].
  - destruct (go_key_eq k' k); constructor; try assumption. split; assumption.
Qed.

Lemma remove_nth_ok : forall A (P : A -> Prop) n l, Forall P l -> Forall P (remove_nth n l).
Proof.
  intros A P n l. revert n. induction l as [|x t IH]; intros n H; destruct n; cbn; try exact H.
  - inversion H; assumption.
  - inversion H; subst. constructor; [assumption|apply IH; assumption].
Qed.

Lemma set_nth_val_ok : forall cfg n v es,
  Forall (entry_ok cfg) es -> wt cfg v = true -> Forall (entry_ok cfg) (set_nth_val n v es).
Proof.
  intros cfg n v es. revert n. induction es as [|[k w] t IH]; intros n H Hv; destruct n; cbn; try exact H.
  - inversion H as [|? ? [Hk _] Ht]; subst. constructor; [split; assumption|exact Ht].
  - inversion H; subst. constructor; [assumption|apply IH; assumption].
Qed.

Lemma dict_del_loop_ok : forall cfg fuel ch k es,
  Forall (entry_ok cfg) es -> Forall (entry_ok cfg) (dict_del_loop fuel ch k es).
Proof.
  intros cfg fuel ch k. induction fuel as [|f IH]; intros es H; cbn; [exact H|].
  assert (D : Forall (entry_ok cfg) (gm_delete ch k es)).
  { unfold gm_delete. destruct (gm_find_pos ch k es); [apply remove_nth_ok; exact H|exact H]. }
  destruct (gm_get ch k (gm_delete ch k es)); [apply IH; exact D|exact D].
Qed.

Lemma dict_set_ok : forall cfg ch k v es es',
  Forall (entry_ok cfg) es -> wt cfg k = true -> wt cfg v = true ->
  dict_set ch k v es = Some es' -> Forall (entry_ok cfg) es'.
Proof.
  intros cfg ch k v es es' H Hk Hv Hs. unfold dict_set, dict_del in Hs.
  destruct (hashable k); [|discriminate]. inversion Hs; subst.
  pose proof (dict_del_loop_ok cfg (Datatypes.S (length es)) ch k es H) as D.
  unfold gm_set. destruct (gm_find_pos ch k _).
  - apply set_nth_val_ok; assumption.
  - apply Forall_app. split; [exact D|]. constructor; [split; assumption|constructor].
Qed.

Lemma map_opt_hash_all : forall l ps, map_opt go_hash l = Some ps -> Forall (fun x => hashable x = true) l.
Proof.
  induction l as [|x t IH]; intros ps H; [constructor|]. cbn in H.
  destruct (go_hash x) as [h|] eqn:E; [|discriminate]. destruct (map_opt go_hash t) as [pt|] eqn:Et; [|discriminate].
  constructor; [unfold hashable; rewrite E; reflexivity|eapply IH; reflexivity].
Qed.

(* a documented value that Go can hash is a well-formed key *)
Lemma wt_hashable_nf : forall cfg k, wt cfg k = true -> hashable k = true -> nf_key k = true.
Proof.
  intros cfg. induction k using val_ind'; intros W Hh; cbn [wt] in W; cbn [nf_key]; try reflexivity; try exact W;
    try discriminate W; try (unfold hashable in Hh; cbn [go_hash] in Hh; discriminate Hh).
  - unfold hashable in Hh. cbn [go_hash] in Hh. destruct (map_opt go_hash l) as [ps|] eqn:E; [|discriminate].
    pose proof (map_opt_hash_all l ps E) as A. apply forallb_forall. intros x Hx.
    rewrite Forall_forall in H, A. rewrite forallb_forall in W. apply H; [exact Hx|apply W; exact Hx|apply A; exact Hx].
  - unfold hashable in Hh. cbn [go_hash] in Hh. destruct (map_opt go_hash l) as [ps|] eqn:E; [|discriminate].
    pose proof (map_opt_hash_all l ps E) as A. apply forallb_forall. intros x Hx.
    rewrite Forall_forall in H, A. rewrite forallb_forall in W. apply H; [exact Hx|apply W; exact Hx|apply A; exact Hx].
  - apply IHk; [exact W|]. unfold hashable in *. cbn [go_hash] in Hh. destruct (go_hash k); [reflexivity|discriminate].
Qed.

Lemma try_assign_ok : forall cfg h m k v h',
  Forall (fun io => obj_ok cfg (snd io)) h -> wt cfg k = true -> wt cfg v = true ->
  try_assign h m k v = Some h' -> Forall (fun io => obj_ok cfg (snd io)) h'.
Proof.
  intros cfg h m k v h' H Hk Hv T. unfold try_assign in T.
  destruct m; try discriminate.
  - destruct (heap_get h id) as [[es|es]|] eqn:G; try discriminate.
    destruct (go_unhashable k); [discriminate|]. inversion T; subst.
    destruct (heap_get_ok cfg h id (HMap es) H G) as [Oe Ok].
    apply heap_set_ok; [exact H|]. split; cbn.
    + apply gomap_assign_ok; assumption.
    + apply gomap_assign_distinct. exact Ok.
  - destruct (heap_get h id) as [[es|es]|] eqn:G; try discriminate.
    destruct (dict_set choose_first k v es) as [es'|] eqn:D; [|discriminate]. inversion T; subst.
    destruct (heap_get_ok cfg h id (HDict es) H G) as [Oe [On Od]].
    apply heap_set_ok; [exact H|]. split; cbn.
    + apply (dict_set_ok cfg choose_first k v es es' Oe Hk Hv D).
    + assert (Hh : hashable k = true).
      { unfold dict_set, dict_del in D. destruct (hashable k); [reflexivity|discriminate]. }
      apply (dict_set_keys choose_first k v es es' (wt_hashable_nf cfg k Hk Hh) On Od D).
Qed.

Lemma assign_pairs_ok_n : forall cfg n items h m h' b, (length items <= n)%nat ->
  Forall (fun io => obj_ok cfg (snd io)) h -> Forall (fun v => wt cfg v = true) items ->
  assign_pairs h m items = (h', b) -> Forall (fun io => obj_ok cfg (snd io)) h'.
Proof.
  intros cfg n. induction n as [|n IH]; intros items h m h' b Hl H Hi A.
  - destruct items; [|cbn in Hl; lia]. cbn in A. inversion A; subst. exact H.
  - destruct items as [|k [|v t]].
    + cbn in A. inversion A; subst. exact H.
    + cbn in A. inversion A; subst. exact H.
    + cbn [assign_pairs] in A. inversion Hi as [|? ? Hk Hr]; subst. inversion Hr as [|? ? Hv Ht]; subst.
      destruct (try_assign h m k v) as [h1|] eqn:T.
      * apply (IH t h1 m h' b); [cbn in Hl; lia| |exact Ht|exact A].
        apply (try_assign_ok cfg h m k v h1 H Hk Hv T).
      * inversion A; subst. exact H.
Qed.

Lemma assign_pairs_ok : forall cfg items h m h' b,
  Forall (fun io => obj_ok cfg (snd io)) h -> Forall (fun v => wt cfg v = true) items ->
  assign_pairs h m items = (h', b) -> Forall (fun io => obj_ok cfg (snd io)) h'.
Proof. intros cfg items h m h' b. apply (assign_pairs_ok_n cfg (length items) items h m h' b). lia. Qed.

(* ---- state constructors preserve state_ok ---------------------------------------------------- *)

Lemma ok_set_stack : forall cfg st s, state_ok cfg st -> Forall (item_ok cfg) s -> state_ok cfg (set_stack st s).
Proof. intros cfg st s [A B C D] H. constructor; cbn; assumption. Qed.

Lemma ok_push : forall cfg st v, state_ok cfg st -> item_ok cfg v -> state_ok cfg (push v st).
Proof. intros cfg st v H Hv. apply ok_set_stack; [exact H|]. constructor; [exact Hv|apply (so_stack _ _ H)]. Qed.

Lemma ok_push_wt : forall cfg st v, state_ok cfg st -> wt cfg v = true -> state_ok cfg (push v st).
Proof. intros. apply ok_push; [assumption|right; assumption]. Qed.

Lemma ok_set_memo : forall cfg st m, state_ok cfg st -> Forall (fun kv => wt cfg (snd kv) = true) m -> state_ok cfg (set_memo st m).
Proof. intros cfg st m [A B C D] H. constructor; cbn; assumption. Qed.

Lemma ok_set_heap : forall cfg st h, state_ok cfg st -> Forall (fun io => obj_ok cfg (snd io)) h -> state_ok cfg (set_heap st h).
Proof. intros cfg st h [A B C D] H. constructor; cbn; assumption. Qed.

Lemma ok_set_proto : forall cfg st p, state_ok cfg st -> state_ok cfg (set_proto st p).
Proof. intros cfg st p [A B C D]. constructor; cbn; assumption. Qed.

Lemma ok_fresh : forall cfg st, state_ok cfg st -> state_ok cfg (snd (fresh st)).
Proof. intros cfg st [A B C D]. constructor; cbn; assumption. Qed.

Lemma ok_add_log : forall cfg st r, state_ok cfg st -> wt cfg r = true -> state_ok cfg (add_log st r).
Proof. intros cfg st r [A B C D] H. constructor; cbn; try assumption. constructor; assumption. Qed.

Lemma ok_set_len : forall cfg st a b c, state_ok cfg st -> state_ok cfg (set_len st a b c).
Proof. intros cfg st a b c [A B C D]. constructor; cbn; assumption. Qed.

Lemma stack_of_set_len : forall st a b c, d_stack (set_len st a b c) = d_stack st.
Proof. reflexivity. Qed.

(* ---- every leaf of a handler is a well-typed state ---------------------------------------------- *)

Fixpoint leaves {A} (P : A -> Prop) (p : prog A) : Prop :=
  match p with
  | Ret a => P a
  | Fail _ | PanicP | OOF => True
  | RdByte _ k => forall b, leaves P (k b)
  | RdN _ n k => forall l, Nlen l = n -> leaves P (k l)
  | RdLine k => forall l, leaves P (k l)
  end.

Lemma leaves_run : forall A (P : A -> Prop) (p : prog A), leaves P p ->
  forall inp a rest, run p inp = (Ok a, rest) -> P a.
Proof.
  intros A P p. induction p as [a|e| | |eof k IH|how n k IH|k IH]; intros L inp a0 rest R; cbn in *;
    try (inversion R; subst; assumption); try discriminate.
  - destruct inp as [|b t]; [discriminate|]. eapply IH; [apply L|exact R].
  - destruct (take_n inp n) as [[x r]|] eqn:T; [|discriminate]. apply take_n_spec in T.
    eapply IH; [apply L; apply T|exact R].
  - destruct (split_line inp) as [[x r]|]; [|discriminate]. eapply IH; [apply L|exact R].
Qed.

Lemma In_firstn' : forall A n (l : list A) x, In x (firstn n l) -> In x l.
Proof.
  intros A n. induction n as [|n IH]; intros l x H; destruct l; cbn in *; try contradiction.
  destruct H as [H|H]; [left; exact H|right; apply IH; exact H].
Qed.

Definition hout_ok (cfg : dconfig) (o : hout) : Prop :=
  match o with HOk st => state_ok cfg st | HErr st _ => state_ok cfg st end.

Section Handlers.
  Variable cfg : dconfig.
  Hypothesis LOK : load_ok cfg.

  Ltac stack_facts :=
    repeat match goal with
    | H : state_ok cfg ?st, E : d_stack ?st = _ |- _ =>
        let S := fresh "Hs" in pose proof (so_stack cfg st H) as S; rewrite E in S; clear E
    | H : Forall (item_ok cfg) (_ :: _) |- _ => inversion H; subst; clear H
    end.

  Lemma leaf_ok : forall st, state_ok cfg st -> leaves (hout_ok cfg) (ok st).
  Proof. intros. exact H. Qed.
  Lemma leaf_fail : forall st e, state_ok cfg st -> leaves (hout_ok cfg) (fail st e).
  Proof. intros. exact H. Qed.

  Lemma memo_top_ok : forall st k, state_ok cfg st -> leaves (hout_ok cfg) (memo_top st k).
  Proof.
    intros st k H. unfold memo_top. destruct (d_stack st) as [|v t] eqn:E; [exact H|].
    destruct (is_mark v) eqn:M; [exact H|]. cbn.
    apply ok_set_memo; [exact H|]. apply memo_set_ok; [apply (so_memo _ _ H)|].
    pose proof (so_stack _ _ H) as S. rewrite E in S. inversion S; subst. apply item_ok_wt; assumption.
  Qed.

  Lemma tuple_n_ok : forall st n, state_ok cfg st -> leaves (hout_ok cfg) (tuple_n st n).
  Proof.
    intros st n H. unfold tuple_n. destruct (Nat.ltb _ _); [exact H|].
    destruct (existsb is_mark (firstn n (d_stack st))) eqn:E; [exact H|]. cbn.
    pose proof (so_stack _ _ H) as S.
    apply ok_set_stack; [exact H|]. constructor.
    - right. cbn. rewrite forallb_forall. intros x Hx. apply in_rev in Hx.
      rewrite Forall_forall in S. apply item_ok_wt; [apply S; eapply In_firstn'; exact Hx|].
      destruct (is_mark x) eqn:Mx; [|reflexivity].
      assert (existsb is_mark (firstn n (d_stack st)) = true) by (apply existsb_exists; exists x; split; assumption).
      congruence.
    - rewrite <- (firstn_skipn n (d_stack st)) in S. apply Forall_app in S. apply S.
  Qed.

  Lemma do_reduce_ok : forall st m n argv, state_ok cfg st -> forallb (wt cfg) argv = true ->
    leaves (hout_ok cfg) (do_reduce st m n argv).
  Proof.
    intros st m n argv H Ha. unfold do_reduce.
    repeat match goal with
    | |- leaves _ (if ?c then _ else _) => destruct c
    | |- leaves _ (match ?x with _ => _ end) => destruct x
    end; cbn; try exact H; try (apply ok_push_wt; [exact H|]; cbn; try reflexivity; exact Ha).
  Qed.

  Lemma handle_ref_ok : forall st pid, state_ok cfg st -> wt cfg pid = true ->
    leaves (hout_ok cfg) (handle_ref cfg st pid).
  Proof.
    intros st pid H Hp. unfold handle_ref. destruct (c_load cfg) as [f|] eqn:E.
    - assert (Hl : state_ok cfg (add_log st (VRef pid))) by (apply ok_add_log; [exact H|exact Hp]).
      destruct (f (Nlen (d_log st)) pid) as [| o |] eqn:F; cbn.
      + apply ok_push_wt; [exact Hl|exact Hp].
      + apply ok_push_wt; [exact Hl|]. exact (LOK f E _ _ _ F).
      + exact Hl.
    - cbn. apply ok_push_wt; [exact H|exact Hp].
  Qed.

  Lemma new_dict_obj_ok : forall st m st', state_ok cfg st -> new_dict_obj cfg st = (m, st') ->
    state_ok cfg st' /\ wt cfg m = true.
  Proof.
    intros st m st' H N. unfold new_dict_obj in N. cbn in N.
    destruct (c_pydict cfg) eqn:P; inversion N; subst; split; cbn; try (rewrite P; reflexivity).
    - apply ok_set_heap; [apply (ok_fresh _ _ H)|]. apply heap_set_ok; [apply (so_heap _ _ H)|].
      split; [constructor|]. split; [constructor|exact I].
    - apply ok_set_heap; [apply (ok_fresh _ _ H)|]. apply heap_set_ok; [apply (so_heap _ _ H)|].
      split; [constructor|exact I].
  Qed.
End Handlers.

Section HandlerOK.
  Variable cfg : dconfig.
  Hypothesis LOK : load_ok cfg.

  Ltac brk :=
    repeat match goal with
    | |- forall _, _ => intro
    | |- leaves _ (RdLine _) => cbn [leaves]
    | |- leaves _ (RdN _ _ _) => cbn [leaves]
    | |- leaves _ (RdByte _ _) => cbn [leaves]
    | |- leaves _ (ok _) => cbn [leaves ok hout_ok]
    | |- leaves _ (fail _ _) => cbn [leaves fail hout_ok]
    | |- leaves _ PanicP => exact I
    | |- leaves _ OOF => exact I
    | |- leaves _ (if ?c then _ else _) => destruct c eqn:?
    | |- leaves _ (match ?x with _ => _ end) => destruct x eqn:?
    | |- leaves _ (let '(_, _) := ?x in _) => destruct x eqn:?
    end.

  Lemma push_bytestring_ok : forall st s, state_ok cfg st -> state_ok cfg (push_bytestring cfg s st).
  Proof.
    intros st s H. unfold push_bytestring. destruct (c_strict cfg) eqn:E; apply ok_push_wt; try exact H; cbn; auto.
  Qed.

  (* facts about the items popped off the stack *)
  Ltac prep :=
    match goal with H : state_ok cfg ?st |- _ =>
      let S := fresh "HS" in pose proof (so_stack cfg st H) as S;
      repeat match goal with
      | E : d_stack st = _ |- _ => rewrite E in S; clear E
      end
    end;
    repeat match goal with
    | E : ?l = _ :: _ |- _ => is_var l; subst l
    | E : ?l = [] |- _ => is_var l; subst l
    end;
    repeat match goal with
    | S : Forall (item_ok cfg) (_ :: _) |- _ =>
        let a := fresh "Hi" in let b := fresh "Ht" in inversion S as [|? ? a b]; subst; clear S
    end;
    repeat match goal with
    | M : is_mark ?v = false, I : item_ok cfg ?v |- _ =>
        let w := fresh "Hw" in pose proof (item_ok_wt cfg v I M) as w; clear I
    | M : (is_mark ?a || is_mark ?b) = false |- _ => apply orb_false_iff in M; destruct M
    end.

  Ltac itm :=
    first [ assumption | left; reflexivity | right; assumption | right; reflexivity
          | right; cbn [wt]; first [ assumption | apply in_int64_wrap_s32 ] ].

  Ltac stk :=
    repeat match goal with
    | |- Forall (item_ok cfg) (_ :: _) => constructor; [itm|]
    | |- Forall (item_ok cfg) [] => constructor
    | |- Forall (item_ok cfg) _ => assumption
    end.

  Ltac sok :=
    match goal with
    | |- state_ok cfg (set_stack _ _) => apply ok_set_stack; [sok|stk]
    | |- state_ok cfg (push _ _) => apply ok_push; [sok|itm]
    | |- state_ok cfg (set_len _ _ _ _) => apply ok_set_len; sok
    | |- state_ok cfg (set_proto _ _) => apply ok_set_proto; sok
    | |- state_ok cfg ?d =>
        first [ assumption
              | match goal with E : fresh ?st = (_, d) |- _ =>
                  replace d with (snd (fresh st)) by (rewrite E; reflexivity); apply ok_fresh; sok end ]
    end.

  Lemma handler_ok : forall op key insn st, state_ok cfg st ->
    leaves (hout_ok cfg) (handler cfg op key insn st).
  Proof.
    intros op key insn st H.
    destruct op; cbn [handler];
      try (apply memo_top_ok; exact H);
      try (apply tuple_n_ok; exact H);
      brk; try exact H;
      try (apply push_bytestring_ok; exact H);
      try (apply memo_top_ok; exact H).
    all: try solve [prep; sok].
    all: try solve [apply ok_push_wt; [exact H|]; cbn [wt]; first [eapply wfb_parse_float; eassumption | apply wfb_be_decode8; assumption]].
    - (* INT *) apply ok_push_wt; [exact H|]. cbn. eapply parse_int64_range; eassumption.
    - (* BININT1 *) apply ok_push_wt; [exact H|]. cbn. apply in_int64_small. pose proof (b2N_lt b). lia.
    - (* BININT2 *) apply ok_push_wt; [exact H|]. cbn. apply in_int64_small. apply le_decode_2. assumption.
    - (* PERSID *) apply handle_ref_ok; [exact LOK|exact H|reflexivity].
    - (* BINPERSID *) prep. apply handle_ref_ok; [exact LOK|sok|assumption].
    - (* REDUCE *) prep. apply do_reduce_ok; [sok|].
      match goal with I : item_ok cfg (VTuple _) |- _ => destruct I as [I|I]; [discriminate|exact I] end.
    - (* APPEND *) prep. apply ok_set_stack; [apply ok_set_len; sok|]. constructor; [|assumption].
      right. cbn [wt]. apply forallb_app_true.
      + match goal with I : item_ok cfg (VList _ _) |- _ => destruct I as [I|I]; [discriminate|exact I] end.
      + cbn. rewrite Hw. reflexivity.
    - (* DICT *)
      match goal with E : split_mark _ = Some _ |- _ =>
        destruct (split_mark_ok cfg _ _ _ (so_stack cfg st H) E) as [Ha Hb] end.
      match goal with E : new_dict_obj cfg st = _ |- _ => destruct (new_dict_obj_ok cfg st _ _ H E) as [Hd Hm] end.
      apply ok_set_stack.
      + apply ok_set_heap; [exact Hd|]. eapply assign_pairs_ok; [apply (so_heap cfg _ Hd)| |eassumption].
        apply Forall_rev. exact Ha.
      + constructor; [right; exact Hm|exact Hb].
    - (* EMPTY_DICT *)
      match goal with E : new_dict_obj cfg st = _ |- _ => destruct (new_dict_obj_ok cfg st _ _ H E) as [Hd Hm] end.
      apply ok_push_wt; assumption.
    - (* APPENDS, nothing above the mark *)
      match goal with E : split_mark _ = Some _ |- _ =>
        destruct (split_mark_ok cfg _ _ _ (so_stack cfg st H) E) as [Ha Hb] end.
      apply ok_set_stack; [exact H|exact Hb].
    - (* APPENDS *)
      match goal with E : split_mark _ = Some _ |- _ =>
        destruct (split_mark_ok cfg _ _ _ (so_stack cfg st H) E) as [Ha Hb] end.
      inversion Hb as [|? ? Hl Hr]; subst.
      apply ok_set_stack; [apply ok_set_len; exact H|]. constructor; [|exact Hr].
      right. cbn [wt]. apply forallb_app_true.
      + destruct Hl as [Hl|Hl]; [discriminate|exact Hl].
      + apply Forall_forallb. apply Forall_rev. exact Ha.
    - (* GET *) apply ok_push_wt; [exact H|]. eapply memo_get_ok; [apply (so_memo cfg st H)|eassumption].
    - (* BINGET *) apply ok_push_wt; [exact H|]. eapply memo_get_ok; [apply (so_memo cfg st H)|eassumption].
    - (* LONG_BINGET *) apply ok_push_wt; [exact H|]. eapply memo_get_ok; [apply (so_memo cfg st H)|eassumption].
    - (* LIST *)
      match goal with E : split_mark _ = Some _ |- _ =>
        destruct (split_mark_ok cfg _ _ _ (so_stack cfg st H) E) as [Ha Hb] end.
      apply ok_set_stack; [apply ok_set_len; sok|]. constructor; [|exact Hb].
      right. cbn [wt]. apply Forall_forallb. apply Forall_rev. exact Ha.
    - (* SETITEM, map *) prep. apply ok_set_heap; [sok|].
      eapply try_assign_ok; [apply (so_heap cfg st H)| | |eassumption]; assumption.
    - (* SETITEM, Dict *) prep. apply ok_set_heap; [sok|].
      eapply try_assign_ok; [apply (so_heap cfg st H)| | |eassumption]; assumption.
    - (* TUPLE *)
      match goal with E : split_mark _ = Some _ |- _ =>
        destruct (split_mark_ok cfg _ _ _ (so_stack cfg st H) E) as [Ha Hb] end.
      apply ok_set_stack; [exact H|]. constructor; [|exact Hb].
      right. cbn [wt]. apply Forall_forallb. apply Forall_rev. exact Ha.
    - (* SETITEMS, map, all assigned *)
      match goal with E : split_mark _ = Some _ |- _ =>
        destruct (split_mark_ok cfg _ _ _ (so_stack cfg st H) E) as [Ha Hb] end.
      apply ok_set_stack; [|exact Hb]. apply ok_set_heap; [exact H|].
      eapply assign_pairs_ok; [apply (so_heap cfg st H)| |eassumption]. apply Forall_rev. exact Ha.
    - (* SETITEMS, map, a key rejected: the assignments already made stay *)
      match goal with E : split_mark _ = Some _ |- _ =>
        destruct (split_mark_ok cfg _ _ _ (so_stack cfg st H) E) as [Ha Hb] end.
      apply ok_set_heap; [exact H|].
      eapply assign_pairs_ok; [apply (so_heap cfg st H)| |eassumption]. apply Forall_rev. exact Ha.
    - (* SETITEMS, Dict *)
      match goal with E : split_mark _ = Some _ |- _ =>
        destruct (split_mark_ok cfg _ _ _ (so_stack cfg st H) E) as [Ha Hb] end.
      apply ok_set_stack; [|exact Hb]. apply ok_set_heap; [exact H|].
      eapply assign_pairs_ok; [apply (so_heap cfg st H)| |eassumption]. apply Forall_rev. exact Ha.
    - match goal with E : split_mark _ = Some _ |- _ =>
        destruct (split_mark_ok cfg _ _ _ (so_stack cfg st H) E) as [Ha Hb] end.
      apply ok_set_heap; [exact H|].
      eapply assign_pairs_ok; [apply (so_heap cfg st H)| |eassumption]. apply Forall_rev. exact Ha.
  Qed.
End HandlerOK.

(* ---- the instruction loop and Decode ------------------------------------------------------------ *)

Section Loop.
  Variable cfg : dconfig.
  Hypothesis LOK : load_ok cfg.

  Definition result_ok (r : res val) : Prop := forall v, r = Ok v -> wt cfg v = true.

  Lemma pop_user_ok : forall st, state_ok cfg st ->
    state_ok cfg (snd (pop_user st)) /\ result_ok (fst (pop_user st)).
  Proof.
    intros st H. unfold pop_user. pose proof (so_stack cfg st H) as S.
    destruct (d_stack st) as [|v t] eqn:E; cbn.
    - split; [exact H|]. intros v Hv. discriminate.
    - inversion S as [|? ? Hv Ht]; subst.
      destruct (is_mark v) eqn:M; cbn.
      + split; [apply ok_set_stack; assumption|]. intros x Hx. discriminate.
      + split; [apply ok_set_stack; assumption|]. intros x Hx. inversion Hx; subst.
        apply item_ok_wt; assumption.
  Qed.

  Lemma loop_typed : forall fuel insn st inp r st' rest,
    state_ok cfg st -> run (decode_loop fuel cfg insn st) inp = (Ok (r, st'), rest) ->
    state_ok cfg st' /\ result_ok r.
  Proof.
    induction fuel as [|f IH]; intros insn st inp r st' rest H R.
    - cbn in R. discriminate.
    - rewrite decode_loop_S in R. cbn [run] in R. destruct inp as [|key t]; [discriminate|].
      destruct (opcode_of_byte key) as [op|].
      2:{ cbn in R. inversion R; subst. split; [exact H|]. intros v Hv. discriminate. }
      destruct (is_stop op).
      { cbn in R. inversion R as [[R1 R2]]. destruct (pop_user_ok st H) as [A B].
        destruct (pop_user st) as [r0 s0]. cbn in *. inversion R1; subst. split; assumption. }
      rewrite run_bind in R.
      destruct (run (handler cfg op key (insn + 1) st) t) as [[o|e| |] rest0] eqn:Rh; try discriminate.
      pose proof (leaves_run _ _ _ (handler_ok cfg LOK op key (insn + 1) st H) _ _ _ Rh) as Ho.
      destruct o as [st1|st1 e]; cbn in Ho.
      + eapply IH; eassumption.
      + cbn in R. inversion R; subst. split; [exact Ho|]. intros v Hv. discriminate.
  Qed.

  Lemma start_state_ok : forall st, state_ok cfg st -> state_ok cfg (start_state st).
  Proof.
    intros st H. unfold start_state. apply ok_set_proto. apply ok_set_stack; [exact H|constructor].
  Qed.

  (* C16: whatever bytes come in, from any well-typed decoder state: a successful result and the
     state left behind (memo, heap, Refs handed to PersistentLoad) are well typed *)
  Theorem decode_typed : forall st inp r st' rest,
    state_ok cfg st -> decode cfg st inp = ((r, st'), rest) ->
    state_ok cfg st' /\ result_ok r.
  Proof.
    intros st inp r st' rest H D. unfold decode in D.
    pose proof (start_state_ok st H) as H0.
    destruct (run (decode_loop (S (length inp)) cfg 0 (start_state st)) inp) as [[[r0 s0]|e| |] rest0] eqn:R;
      inversion D; subst.
    - eapply loop_typed; eassumption.
    - split; [exact H0|]. intros v Hv. discriminate.
    - split; [exact H0|]. intros v Hv. discriminate.
    - split; [exact H0|]. intros v Hv. discriminate.
  Qed.

  (* a whole stream of Decode calls on one Decoder *)
  Theorem decode_all_typed : forall fuel st inp,
    state_ok cfg st ->
    Forall (fun rs => result_ok (fst rs) /\ state_ok cfg (snd rs)) (fst (decode_all fuel cfg st inp)).
  Proof.
    induction fuel as [|f IH]; intros st inp H; cbn [decode_all]; [constructor|].
    destruct (decode cfg st inp) as [[r st'] rest] eqn:D.
    destruct (decode_typed st inp r st' rest H D) as [A B].
    destruct (is_final r rest).
    - cbn. constructor; [split; assumption|constructor].
    - specialize (IH st' rest A). destruct (decode_all f cfg st' rest) as [l stf]. cbn in *.
      constructor; [split; assumption|exact IH].
  Qed.
End Loop.
