(* StreamFacts.v — C11: a Decode call consumes exactly its pickle; what follows it in the stream
   is left untouched; the operand stack and the protocol number do not survive a call. *)
From Coq Require Import Ascii String.
From Coq Require Import List ZArith NArith Bool Lia.
From Coq.Strings Require Import Byte.
From OgRek Require Import Base Value Reader Decoder BaseFacts ReaderFacts DecoderFacts.
Import ListNotations.
Open Scope N_scope.

(* a run that did not end in a failed read never looked at what lies beyond the bytes it consumed *)
Lemma run_extend : forall A (p : prog A) q t a rest,
  run p q = (Ok a, rest) -> run p (q ++ t) = (Ok a, rest ++ t).
Proof.
  intros A p. induction p as [a|e| | |eof k IH|how n k IH|k IH]; intros q t a0 rest R; cbn in *;
    try discriminate.
  - inversion R; subst. reflexivity.
  - destruct q as [|b q']; [discriminate|]. cbn. apply IH. exact R.
  - destruct (take_n q n) as [[x r]|] eqn:T; [|discriminate].
    rewrite (take_n_app_some _ t _ _ _ T). apply IH. exact R.
  - destruct (split_line q) as [[x r]|] eqn:S; [|discriminate].
    rewrite (split_line_app_some _ t _ _ S). apply IH. exact R.
Qed.

(* Decode on a pickle followed by anything: same value, same state, the rest untouched *)
Theorem decode_framing : forall cfg st p v st' t,
  decode cfg st p = ((Ok v, st'), []) -> decode cfg st (p ++ t) = ((Ok v, st'), t).
Proof.
  intros cfg st p v st' t D. unfold decode in *.
  destruct (run (decode_loop (S (length p)) cfg 0 (start_state st)) p) as [rp restp] eqn:R.
  assert (Hrp : rp = Ok (Ok v, st') /\ restp = []).
  { destruct rp as [[r0 s0]|e| |]; inversion D; subst; split; reflexivity. }
  destruct Hrp as [-> ->].
  pose proof (run_extend _ _ _ t _ _ R) as RE. cbn [app] in RE.
  assert (M : run (decode_loop (S (length (p ++ t))) cfg 0 (start_state st)) (p ++ t) = (Ok (Ok v, st'), t)).
  { eapply loop_fuel_mono; [|exact RE|discriminate]. rewrite app_length. lia. }
  rewrite M. reflexivity.
Qed.

(* the operand stack and the protocol number an earlier pickle left behind do not matter *)
Theorem decode_ignores_stack_and_proto : forall cfg st s p inp,
  decode cfg (set_proto (set_stack st s) p) inp = decode cfg st inp.
Proof. intros. destruct st. reflexivity. Qed.

(* a chain of pickles: each one decodes to a value from the state its predecessor left *)
Inductive chain (cfg : dconfig) : dstate -> list bytes -> list (res val * dstate) -> Prop :=
| chain_nil : forall st, chain cfg st [] []
| chain_cons : forall st p ps v st' rs,
    p <> [] -> decode cfg st p = ((Ok v, st'), []) -> chain cfg st' ps rs ->
    chain cfg st (p :: ps) ((Ok v, st') :: rs).

Definition final_state (st : dstate) (rs : list (res val * dstate)) : dstate :=
  last (map snd rs) st.

Lemma last_nonempty_default : forall A (l : list A) x d d', last (x :: l) d = last (x :: l) d'.
Proof.
  intros A l. induction l as [|y t IH]; intros x d d'; [reflexivity|].
  change (last (x :: y :: t) d) with (last (y :: t) d).
  change (last (x :: y :: t) d') with (last (y :: t) d'). apply IH.
Qed.

Lemma decode_empty : forall cfg st, decode cfg st [] = ((Err EEOF, start_state st), []).
Proof. reflexivity. Qed.

(* successive Decode calls on the concatenation return exactly the values of the chain, each
   call consuming exactly through its STOP, and then io.EOF *)
Theorem decode_all_chain : forall cfg ps st rs fuel,
  chain cfg st ps rs -> (length ps < fuel)%nat ->
  fst (decode_all fuel cfg st (concat ps)) = rs ++ [(Err EEOF, start_state (final_state st rs))].
Proof.
  intros cfg ps. induction ps as [|p ps IH]; intros st rs fuel C F; inversion C; subst.
  - destruct fuel as [|f]; [cbn in F; lia|]. cbn [concat decode_all]. rewrite decode_empty. cbn. reflexivity.
  - destruct fuel as [|f]; [cbn in F; lia|]. cbn [concat decode_all].
    match goal with D : decode cfg st p = _ |- _ => rewrite (decode_framing cfg st p v st' (concat ps) D) end.
    cbn [is_final].
    match goal with Ch : chain cfg st' ps _ |- _ => specialize (IH st' _ f Ch ltac:(cbn in F; lia)) end.
    destruct (decode_all f cfg st' (concat ps)) as [l stf]. cbn [fst] in *. rewrite IH.
    cbn [app]. f_equal. f_equal. f_equal. unfold final_state. cbn [map].
    destruct rs0 as [|x xs]; [reflexivity|]. cbn [map snd].
    change (last (st' :: snd x :: map snd xs) st) with (last (snd x :: map snd xs) st).
    rewrite (last_nonempty_default _ (map snd xs) (snd x) st' st). reflexivity.
Qed.
