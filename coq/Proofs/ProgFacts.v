(* ProgFacts.v — Encode's bytes are the assembly of EncProg.program; every instruction belongs to a
   protocol <= the requested one; the program respects the stack discipline and ends with its only
   STOP, one object on the stack. *)
From Coq Require Import Ascii String.
From Coq Require Import List ZArith NArith Bool Lia.
From Coq.Strings Require Import Byte.
From OgRek Require Import Base Utf8 GoStrconv PyQuote Encoder Insn EncProg.
From OgRek Require Import BaseFacts EncoderFacts ExecFacts.
Import ListNotations.
Open Scope N_scope.

(* ---- T1: bytes = assembly ---------------------------------------------------------------------- *)

Lemma wok_wseq_inv : forall p q, wok (wseq p q) -> wok p /\ wok q.
Proof.
  intros p q H. unfold wok in *. rewrite run_w_wseq in H.
  destruct (run_w p None) as [w1 r1]. destruct r1; cbn in H; try discriminate.
  split; [reflexivity|]. destruct (run_w q None) as [w2 r2]. exact H.
Qed.

Definition agrees (p : wprog) (l : list insn) : Prop := wok p -> wout p = asm_all l.

Lemma asm_all_app : forall a b, asm_all (a ++ b) = asm_all a ++ asm_all b.
Proof. intros. unfold asm_all. apply flat_map_app. Qed.

Lemma agrees_seq : forall p q l m, agrees p l -> agrees q m -> agrees (wseq p q) (l ++ m).
Proof.
  intros p q l m Hp Hq W. destruct (wok_wseq_inv p q W) as [Wp Wq].
  rewrite wout_wseq by assumption. rewrite asm_all_app, (Hp Wp), (Hq Wq). reflexivity.
Qed.

Lemma agrees_emit : forall b l, b = asm_all l -> agrees (emit b) l.
Proof. intros b l E _. rewrite wout_emit. exact E. Qed.

Lemma agrees_emit1 : forall b i, b = asm i -> agrees (emit b) [i].
Proof. intros b i E. apply agrees_emit. cbn. rewrite app_nil_r. exact E. Qed.

Lemma agrees_fail : forall e l, agrees (WFail e) l.
Proof. intros e l W. discriminate. Qed.

Lemma agrees_done : agrees WDone [].
Proof. intros _. reflexivity. Qed.

Lemma N2b_mod : forall n, N2b (n mod 256) = N2b n.
Proof. intros n. unfold N2b. rewrite N.mod_mod by lia. reflexivity. Qed.

Lemma Z2b_N2b : forall z, (0 <= z)%Z -> Z2b z = N2b (Z.to_N z).
Proof.
  intros z H. unfold Z2b. rewrite <- (N2b_mod (Z.to_N z)). f_equal.
  rewrite Z2N.inj_mod by lia. reflexivity.
Qed.

Section T1.
  Variable c : econfig.

  Lemma ag_bool : forall b, agrees (enc_bool c b) (p_bool c b).
  Proof.
    intros b. unfold enc_bool, p_bool. destruct (2 <=? e_proto c)%Z; apply agrees_emit1; destruct b; reflexivity.
  Qed.

  Lemma ag_int : forall z, agrees (enc_int c z) (p_int c z).
  Proof.
    intros z. unfold enc_int, p_int.
    destruct ((1 <=? e_proto c)%Z && (0 <=? z)%Z && (z <=? 255)%Z) eqn:E1.
    { apply agrees_emit1. cbn [asm]. apply andb_true_iff in E1. destruct E1 as [E1 _].
      apply andb_true_iff in E1. destruct E1 as [_ E1]. apply Z.leb_le in E1. rewrite Z2b_N2b by lia. reflexivity. }
    destruct ((1 <=? e_proto c)%Z && (0 <=? z)%Z && (z <=? 65535)%Z) eqn:E2.
    { apply agrees_emit1. cbn [asm]. apply andb_true_iff in E2. destruct E2 as [E2 _].
      apply andb_true_iff in E2. destruct E2 as [_ E2]. apply Z.leb_le in E2.
      rewrite !Z2b_N2b by (try apply Z.div_pos; lia).
      rewrite Z2N.inj_div by lia. reflexivity. }
    destruct ((1 <=? e_proto c)%Z && (-2147483648 <=? z)%Z && (z <=? 2147483647)%Z); apply agrees_emit1; reflexivity.
  Qed.

  Lemma ag_uint : forall z, agrees (enc_uint c z) (p_uint c z).
  Proof. intros z. unfold enc_uint, p_uint. destruct (z <=? int64_max)%Z; [apply ag_int|apply agrees_emit1; reflexivity]. Qed.

  Lemma ag_long : forall z, agrees (enc_long z) (p_long z).
  Proof. intros z. apply agrees_emit1. reflexivity. Qed.

  Lemma ag_float : forall f, agrees (enc_float c f) (p_float c f).
  Proof. intros f. unfold enc_float, p_float. destruct (1 <=? e_proto c)%Z; apply agrees_emit1; reflexivity. Qed.

  Lemma agrees_emit2 : forall a s i, a ++ s = asm i -> agrees (wseq (emit a) (emit s)) [i].
  Proof.
    intros a s i E. replace [i] with ([] ++ [i]) by reflexivity.
    intros W. rewrite wout_wseq by apply wok_emit. rewrite !wout_emit. cbn. rewrite app_nil_r. exact E.
  Qed.

  Lemma ag_bytestring : forall s, agrees (enc_bytestring c s) (p_bytestring c s).
  Proof.
    intros s. unfold enc_bytestring, p_bytestring. cbv zeta. destruct (1 <=? e_proto c)%Z.
    - destruct (Nlen s <? 256); apply agrees_emit2; reflexivity.
    - apply agrees_emit1. reflexivity.
  Qed.

  Lemma ag_unicode : forall s, agrees (enc_unicode c s) (p_unicode c s).
  Proof.
    intros s. unfold enc_unicode, p_unicode. cbv zeta. destruct (1 <=? e_proto c)%Z.
    - destruct ((Nlen s <? 256) && (4 <=? e_proto c)%Z); apply agrees_emit2; reflexivity.
    - destruct (pyencode_raw_unicode_escape s); [apply agrees_emit1; reflexivity|apply agrees_fail].
  Qed.

  Lemma ag_string : forall s, agrees (enc_string c s) (p_string c s).
  Proof. intros s. unfold enc_string, p_string. destruct (e_strict c || (3 <=? e_proto c)%Z); [apply ag_unicode|apply ag_bytestring]. Qed.

  Lemma ag_class : forall m n, agrees (enc_class c m n) (p_class c m n).
  Proof.
    intros m n. unfold enc_class, p_class. destruct (4 <=? e_proto c)%Z.
    - apply agrees_seq; [apply ag_string|]. apply agrees_seq; [apply ag_string|]. apply agrees_emit1. reflexivity.
    - destruct (has_lf m || has_lf n); [apply agrees_fail|]. apply agrees_emit1. reflexivity.
  Qed.

  Lemma ag_tuple : forall n items l, agrees items l -> agrees (wrap_tuple c n items) (p_tuple c n l).
  Proof.
    intros n items l H. unfold wrap_tuple, p_tuple.
    destruct ((2 <=? e_proto c)%Z && Nat.leb 1 n && Nat.leb n 3).
    - apply agrees_seq; [exact H|]. apply agrees_emit1. destruct n as [|[|[|n]]]; reflexivity.
    - destruct ((1 <=? e_proto c)%Z && Nat.eqb n 0); [apply agrees_emit1; reflexivity|].
      change (IMark :: l ++ [ITuple]) with ([IMark] ++ l ++ [ITuple]).
      apply agrees_seq; [apply agrees_emit1; reflexivity|]. apply agrees_seq; [exact H|]. apply agrees_emit1. reflexivity.
  Qed.

  Lemma ag_call : forall m n k args l, agrees args l -> agrees (wrap_call c m n k args) (p_call c m n k l).
  Proof.
    intros m n k args l H. unfold wrap_call, p_call.
    apply agrees_seq; [apply ag_class|]. apply agrees_seq; [apply ag_tuple; exact H|]. apply agrees_emit1. reflexivity.
  Qed.

  Lemma ag_bytes : forall s, agrees (enc_bytes c s) (p_bytes c s).
  Proof.
    intros s. unfold enc_bytes, p_bytes. cbv zeta. destruct (3 <=? e_proto c)%Z.
    - destruct (Nlen s <? 256); apply agrees_emit2; reflexivity.
    - apply ag_call. apply agrees_seq; [apply ag_unicode|apply ag_bytestring].
  Qed.

  Lemma ag_bytearray : forall s, agrees (enc_bytearray c s) (p_bytearray c s).
  Proof.
    intros s. unfold enc_bytearray, p_bytearray. destruct (5 <=? e_proto c)%Z.
    - apply agrees_emit2. reflexivity.
    - apply ag_call. apply ag_bytes.
  Qed.

  Lemma ag_ref : forall pid p l, agrees p l -> agrees (enc_ref c pid p) (p_ref c pid l).
  Proof.
    intros pid p l H. unfold enc_ref, p_ref. destruct (e_proto c =? 0)%Z.
    - destruct pid; try apply agrees_fail. destruct ty; try apply agrees_fail.
      destruct (has_lf s); [apply agrees_fail|apply agrees_emit1; reflexivity].
    - apply agrees_seq; [exact H|apply agrees_emit1; reflexivity].
  Qed.

  Theorem ag_enc : forall v, agrees (enc c v) (body c v).
  Proof.
    fix IH 1. intros v.
    destruct v as [ | |b|z|z|f|k|ty s|s|l|l|es|es| |m n|m n args|pid|z|fields|ts ref x]; cbn [enc body].
    - apply agrees_emit1; reflexivity.
    - apply agrees_emit1; reflexivity.
    - apply ag_bool.
    - apply ag_int.
    - apply ag_uint.
    - apply ag_float.
    - apply agrees_fail.
    - destruct ty; [apply ag_string|apply ag_string|apply ag_unicode|apply ag_bytes|apply ag_bytestring].
    - apply ag_bytearray.
    - (* Tuple *) apply ag_tuple. induction l as [|x r IHl]; [apply agrees_done|]. apply agrees_seq; [apply IH|exact IHl].
    - (* List *)
      destruct ((1 <=? e_proto c)%Z && Nat.eqb (length l) 0); [apply agrees_emit1; reflexivity|].
      match goal with |- agrees _ (IMark :: ?x ++ [IList]) => change (IMark :: x ++ [IList]) with ([IMark] ++ x ++ [IList]) end.
      apply agrees_seq; [apply agrees_emit1; reflexivity|]. apply agrees_seq; [|apply agrees_emit1; reflexivity].
      induction l as [|x r IHl]; [apply agrees_done|]. apply agrees_seq; [apply IH|exact IHl].
    - (* Map *)
      destruct ((1 <=? e_proto c)%Z && Nat.eqb (length es) 0); [apply agrees_emit1; reflexivity|].
      match goal with |- agrees _ (IMark :: ?x ++ [IDict]) => change (IMark :: x ++ [IDict]) with ([IMark] ++ x ++ [IDict]) end.
      apply agrees_seq; [apply agrees_emit1; reflexivity|]. apply agrees_seq; [|apply agrees_emit1; reflexivity].
      induction es as [|[k x] r IHl]; [apply agrees_done|].
      apply agrees_seq; [apply IH|]. apply agrees_seq; [apply IH|exact IHl].
    - (* Dict *)
      destruct ((1 <=? e_proto c)%Z && Nat.eqb (length es) 0); [apply agrees_emit1; reflexivity|].
      match goal with |- agrees _ (IMark :: ?x ++ [IDict]) => change (IMark :: x ++ [IDict]) with ([IMark] ++ x ++ [IDict]) end.
      apply agrees_seq; [apply agrees_emit1; reflexivity|]. apply agrees_seq; [|apply agrees_emit1; reflexivity].
      induction es as [|[k x] r IHl]; [apply agrees_done|].
      apply agrees_seq; [apply IH|]. apply agrees_seq; [apply IH|exact IHl].
    - apply agrees_emit1; reflexivity.
    - apply ag_class.
    - (* Call *) apply ag_call. induction args as [|x r IHl]; [apply agrees_done|]. apply agrees_seq; [apply IH|exact IHl].
    - apply ag_ref. apply IH.
    - apply ag_long.
    - (* Struct *)
      match goal with |- agrees _ (IMark :: ?x ++ [IDict]) => change (IMark :: x ++ [IDict]) with ([IMark] ++ x ++ [IDict]) end.
      apply agrees_seq; [apply agrees_emit1; reflexivity|]. apply agrees_seq; [|apply agrees_emit1; reflexivity].
      generalize (existsb (fun f => negb (Nat.eqb (length (sf_tag f)) 0)) fields). intros ut.
      induction fields as [|[nm ex tg x] r IHl]; [apply agrees_done|].
      cbn beta iota zeta.
      destruct (if ut then negb (Nat.eqb (length tg) 0) && negb (tag_later tg r) else ex).
      + apply agrees_seq; [apply ag_string|]. apply agrees_seq; [apply IH|exact IHl].
      + exact IHl.
    - (* Ptr *)
      destruct ts; [destruct ref as [pid|]|]; [apply ag_ref; apply IH|apply IH|apply IH].
  Qed.

  (* Encoder.Encode: when it succeeds, what was written is the assembly of program c v *)
  Theorem encode_is_program : forall v ws,
    run_w (encode c v) None = (ws, EOk) -> concat ws = asm_all (program c v).
  Proof.
    intros v ws H. unfold encode in H.
    destruct (negb ((0 <=? e_proto c)%Z && (e_proto c <=? 5)%Z)) eqn:EP; [discriminate|].
    apply negb_false_iff in EP. apply andb_true_iff in EP. destruct EP as [P0 P5].
    apply Z.leb_le in P0, P5.
    set (pre := if (2 <=? e_proto c)%Z then emit [x80; Z2b (e_proto c)] else WDone) in H.
    assert (A : agrees (wseq pre (wseq (enc c v) (emit [x2e]))) (program c v)).
    { unfold program. apply agrees_seq.
      - unfold pre. destruct (2 <=? e_proto c)%Z; [|apply agrees_done].
        apply agrees_emit1. cbn [asm]. rewrite Z2b_N2b by lia. reflexivity.
      - apply agrees_seq; [apply ag_enc|apply agrees_emit1; reflexivity]. }
    assert (W : wok (wseq pre (wseq (enc c v) (emit [x2e])))) by (unfold wok; rewrite H; reflexivity).
    specialize (A W). unfold wout in A. rewrite H in A. exact A.
  Qed.
End T1.

(* ---- T2: only opcodes of protocols <= the requested one ------------------------------------ *)

Section T2.
  Variable c : econfig.
  Hypothesis P0 : (0 <= e_proto c)%Z.

  Definition within (l : list insn) : Prop := Forall (fun i => (iproto i <= e_proto c)%Z) l.

  Lemma within_app : forall a b, within a -> within b -> within (a ++ b).
  Proof. intros a b Ha Hb. apply Forall_app. split; assumption. Qed.
  Lemma within_one : forall i, (iproto i <= e_proto c)%Z -> within [i].
  Proof. intros i H. constructor; [exact H|constructor]. Qed.
  Lemma within_nil : within [].
  Proof. constructor. Qed.

  Ltac leb_hyp E := let H := fresh "L" in pose proof E as H; apply Z.leb_le in H.

  Lemma wi_bool : forall b, within (p_bool c b).
  Proof.
    intros b. unfold p_bool. destruct (2 <=? e_proto c)%Z eqn:E; apply within_one.
    - apply Z.leb_le in E. destruct b; exact E.
    - exact P0.
  Qed.

  Lemma wi_int : forall z, within (p_int c z).
  Proof.
    intros z. unfold p_int.
    destruct ((1 <=? e_proto c)%Z && (0 <=? z)%Z && (z <=? 255)%Z) eqn:E1.
    { apply within_one. apply andb_true_iff in E1. destruct E1 as [E1 _]. apply andb_true_iff in E1.
      destruct E1 as [E1 _]. apply Z.leb_le in E1. exact E1. }
    destruct ((1 <=? e_proto c)%Z && (0 <=? z)%Z && (z <=? 65535)%Z) eqn:E2.
    { apply within_one. apply andb_true_iff in E2. destruct E2 as [E2 _]. apply andb_true_iff in E2.
      destruct E2 as [E2 _]. apply Z.leb_le in E2. exact E2. }
    destruct ((1 <=? e_proto c)%Z && (-2147483648 <=? z)%Z && (z <=? 2147483647)%Z) eqn:E3.
    { apply within_one. apply andb_true_iff in E3. destruct E3 as [E3 _]. apply andb_true_iff in E3.
      destruct E3 as [E3 _]. apply Z.leb_le in E3. exact E3. }
    apply within_one. exact P0.
  Qed.

  Lemma wi_uint : forall z, within (p_uint c z).
  Proof. intros z. unfold p_uint. destruct (z <=? int64_max)%Z; [apply wi_int|apply within_one; exact P0]. Qed.

  Lemma wi_float : forall f, within (p_float c f).
  Proof.
    intros f. unfold p_float. destruct (1 <=? e_proto c)%Z eqn:E; apply within_one; [apply Z.leb_le in E; exact E|exact P0].
  Qed.

  Lemma wi_bytestring : forall s, within (p_bytestring c s).
  Proof.
    intros s. unfold p_bytestring. destruct (1 <=? e_proto c)%Z eqn:E; apply within_one.
    - apply Z.leb_le in E. destruct (Nlen s <? 256); exact E.
    - exact P0.
  Qed.

  Lemma wi_unicode : forall s, within (p_unicode c s).
  Proof.
    intros s. unfold p_unicode. destruct (1 <=? e_proto c)%Z eqn:E.
    - apply within_one. apply Z.leb_le in E.
      destruct ((Nlen s <? 256) && (4 <=? e_proto c)%Z) eqn:E4; [|exact E].
      apply andb_true_iff in E4. destruct E4 as [_ E4]. apply Z.leb_le in E4. exact E4.
    - destruct (pyencode_raw_unicode_escape s); [apply within_one; exact P0|apply within_nil].
  Qed.

  Lemma wi_string : forall s, within (p_string c s).
  Proof. intros s. unfold p_string. destruct (e_strict c || (3 <=? e_proto c)%Z); [apply wi_unicode|apply wi_bytestring]. Qed.

  Lemma wi_class : forall m n, within (p_class c m n).
  Proof.
    intros m n. unfold p_class. destruct (4 <=? e_proto c)%Z eqn:E.
    - apply within_app; [apply wi_string|]. apply within_app; [apply wi_string|]. apply within_one.
      apply Z.leb_le in E. exact E.
    - apply within_one. exact P0.
  Qed.

  Lemma wi_tuple : forall n l, within l -> within (p_tuple c n l).
  Proof.
    intros n l H. unfold p_tuple.
    destruct ((2 <=? e_proto c)%Z && Nat.leb 1 n && Nat.leb n 3) eqn:E.
    - apply within_app; [exact H|]. apply within_one. apply andb_true_iff in E. destruct E as [E _].
      apply andb_true_iff in E. destruct E as [E _]. apply Z.leb_le in E. destruct n as [|[|[|n]]]; exact E.
    - destruct ((1 <=? e_proto c)%Z && Nat.eqb n 0) eqn:E0.
      + apply within_one. apply andb_true_iff in E0. destruct E0 as [E0 _]. apply Z.leb_le in E0. exact E0.
      + constructor; [exact P0|]. apply within_app; [exact H|apply within_one; exact P0].
  Qed.

  Lemma wi_call : forall m n k l, within l -> within (p_call c m n k l).
  Proof.
    intros m n k l H. unfold p_call. apply within_app; [apply wi_class|].
    apply within_app; [apply wi_tuple; exact H|apply within_one; exact P0].
  Qed.

  Lemma wi_bytes : forall s, within (p_bytes c s).
  Proof.
    intros s. unfold p_bytes. destruct (3 <=? e_proto c)%Z eqn:E.
    - apply within_one. apply Z.leb_le in E. destruct (Nlen s <? 256); exact E.
    - apply wi_call. apply within_app; [apply wi_unicode|apply wi_bytestring].
  Qed.

  Lemma wi_bytearray : forall s, within (p_bytearray c s).
  Proof.
    intros s. unfold p_bytearray. destruct (5 <=? e_proto c)%Z eqn:E.
    - apply within_one. apply Z.leb_le in E. exact E.
    - apply wi_call. apply wi_bytes.
  Qed.

  Lemma wi_ref : forall pid l, within l -> within (p_ref c pid l).
  Proof.
    intros pid l H. unfold p_ref. destruct (e_proto c =? 0)%Z eqn:E.
    - destruct pid; try apply within_nil. destruct ty; try apply within_nil. apply within_one. exact P0.
    - apply within_app; [exact H|]. apply within_one. apply Z.eqb_neq in E. cbn. lia.
  Qed.

  Lemma wi_dictlike : forall l, within l -> forall k,
    within (if (1 <=? e_proto c)%Z && Nat.eqb k 0 then [IEmptyDict] else IMark :: l ++ [IDict]).
  Proof.
    intros l H k. destruct ((1 <=? e_proto c)%Z && Nat.eqb k 0) eqn:E.
    - apply within_one. apply andb_true_iff in E. destruct E as [E _]. apply Z.leb_le in E. exact E.
    - constructor; [exact P0|]. apply within_app; [exact H|apply within_one; exact P0].
  Qed.

  Theorem body_within : forall v, within (body c v).
  Proof.
    fix IH 1. intros v.
    destruct v as [ | |b|z|z|f|k|ty s|s|l|l|es|es| |m n|m n args|pid|z|fields|ts ref x]; cbn [body].
    - apply within_one; exact P0.
    - apply within_one; exact P0.
    - apply wi_bool.
    - apply wi_int.
    - apply wi_uint.
    - apply wi_float.
    - apply within_nil.
    - destruct ty; [apply wi_string|apply wi_string|apply wi_unicode|apply wi_bytes|apply wi_bytestring].
    - apply wi_bytearray.
    - apply wi_tuple. induction l as [|x r IHl]; [apply within_nil|]. apply within_app; [apply IH|exact IHl].
    - destruct ((1 <=? e_proto c)%Z && Nat.eqb (length l) 0) eqn:E.
      + apply within_one. apply andb_true_iff in E. destruct E as [E _]. apply Z.leb_le in E. exact E.
      + constructor; [exact P0|]. apply within_app; [|apply within_one; exact P0].
        clear E. induction l as [|x r IHl]; [apply within_nil|]. apply within_app; [apply IH|exact IHl].
    - apply wi_dictlike. induction es as [|[k x] r IHl]; [apply within_nil|].
      apply within_app; [apply IH|]. apply within_app; [apply IH|exact IHl].
    - apply wi_dictlike. induction es as [|[k x] r IHl]; [apply within_nil|].
      apply within_app; [apply IH|]. apply within_app; [apply IH|exact IHl].
    - apply within_one; exact P0.
    - apply wi_class.
    - apply wi_call. induction args as [|x r IHl]; [apply within_nil|]. apply within_app; [apply IH|exact IHl].
    - apply wi_ref. apply IH.
    - apply within_one; exact P0.
    - constructor; [exact P0|]. apply within_app; [|apply within_one; exact P0].
      generalize (existsb (fun f => negb (Nat.eqb (length (sf_tag f)) 0)) fields). intros ut.
      induction fields as [|[nm ex tg x] r IHl]; [apply within_nil|]. cbn beta iota zeta.
      destruct (if ut then negb (Nat.eqb (length tg) 0) && negb (tag_later tg r) else ex).
      + apply within_app; [apply wi_string|]. apply within_app; [apply IH|exact IHl].
      + exact IHl.
    - destruct ts; [destruct ref as [pid|]|]; [apply wi_ref; apply IH|apply IH|apply IH].
  Qed.

  Theorem program_within : forall v, within (program c v).
  Proof.
    intros v. unfold program. apply within_app.
    - destruct (2 <=? e_proto c)%Z eqn:E; [|apply within_nil]. apply within_one. apply Z.leb_le in E. exact E.
    - apply within_app; [apply body_within|apply within_one; exact P0].
  Qed.
End T2.

(* ---- T3: stack discipline, one STOP, one object --------------------------------------------- *)

Fixpoint sd_seq (prog : list insn) (s : list bool) : option (list bool) :=
  match prog with
  | [] => Some s
  | i :: r => match sd_step i s with Some s' => sd_seq r s' | None => None end
  end.

Lemma sd_seq_app : forall a b s s', sd_seq a s = Some s' -> sd_seq (a ++ b) s = sd_seq b s'.
Proof.
  induction a as [|i r IH]; intros b s s' H; cbn in *.
  - inversion H; reflexivity.
  - destruct (sd_step i s) as [s1|]; [|discriminate]. apply IH. exact H.
Qed.

Lemma sd_run_app : forall a b s s', sd_seq a s = Some s' -> sd_run (a ++ b) s = sd_run b s'.
Proof.
  induction a as [|i r IH]; intros b s s' H; cbn [app sd_seq] in *.
  - inversion H; reflexivity.
  - destruct (sd_step i s) as [s1|] eqn:E; [|discriminate].
    destruct i; try (cbn [sd_run]; rewrite E; apply IH; exact H). discriminate.
Qed.

(* l pushes exactly k objects, whatever is below *)
Definition pushes_k (l : list insn) (k : nat) : Prop :=
  forall s, sd_seq l s = Some (repeat false k ++ s).

Lemma pk_nil : pushes_k [] 0.
Proof. intros s. reflexivity. Qed.

Lemma pk_app : forall a b j k, pushes_k a j -> pushes_k b k -> pushes_k (a ++ b) (k + j).
Proof.
  intros a b j k Ha Hb s. rewrite (sd_seq_app a b s _ (Ha s)). rewrite Hb.
  rewrite repeat_app, <- app_assoc. reflexivity.
Qed.

Lemma pk_one : forall i, (forall s, sd_step i s = Some (false :: s)) -> pushes_k [i] 1.
Proof. intros i H s. cbn. rewrite H. reflexivity. Qed.

Lemma pop_to_mark_repeat : forall k s, pop_to_mark (repeat false k ++ true :: s) = Some s.
Proof. induction k as [|k IH]; intros s; [reflexivity|exact (IH s)]. Qed.

(* MARK items <closer>: one object *)
Lemma pk_marked : forall l k closer,
  (forall s, sd_step closer s = option_map (cons false) (pop_to_mark s)) ->
  pushes_k l k -> pushes_k (IMark :: l ++ [closer]) 1.
Proof.
  intros l k closer Hc Hl s. cbn [sd_seq sd_step].
  rewrite (sd_seq_app l [closer] (true :: s) _ (Hl (true :: s))). cbn [sd_seq].
  rewrite Hc, pop_to_mark_repeat. reflexivity.
Qed.

Section T3.
  Variable c : econfig.

  (* produced : the encoder did not fail on this piece *)
  Definition okpush (p : wprog) (l : list insn) : Prop := wok p -> pushes_k l 1.

  Lemma op_emit1 : forall b i, (forall s, sd_step i s = Some (false :: s)) -> okpush (emit b) [i].
  Proof. intros b i H _. apply pk_one. exact H. Qed.
  Lemma op_fail : forall e l, okpush (WFail e) l.
  Proof. intros e l W. discriminate. Qed.

  Lemma op_bool : forall b, okpush (enc_bool c b) (p_bool c b).
  Proof. intros b. unfold enc_bool, p_bool. destruct (2 <=? e_proto c)%Z; apply op_emit1; destruct b; reflexivity. Qed.

  Lemma op_int : forall z, okpush (enc_int c z) (p_int c z).
  Proof.
    intros z. unfold enc_int, p_int.
    destruct ((1 <=? e_proto c)%Z && (0 <=? z)%Z && (z <=? 255)%Z); [apply op_emit1; reflexivity|].
    destruct ((1 <=? e_proto c)%Z && (0 <=? z)%Z && (z <=? 65535)%Z); [apply op_emit1; reflexivity|].
    destruct ((1 <=? e_proto c)%Z && (-2147483648 <=? z)%Z && (z <=? 2147483647)%Z); apply op_emit1; reflexivity.
  Qed.

  Lemma op_uint : forall z, okpush (enc_uint c z) (p_uint c z).
  Proof. intros z. unfold enc_uint, p_uint. destruct (z <=? int64_max)%Z; [apply op_int|apply op_emit1; reflexivity]. Qed.

  Lemma op_float : forall f, okpush (enc_float c f) (p_float c f).
  Proof. intros f. unfold enc_float, p_float. destruct (1 <=? e_proto c)%Z; apply op_emit1; reflexivity. Qed.

  Lemma pk_leaf : forall i, (forall s, sd_step i s = Some (false :: s)) -> forall p, okpush p [i].
  Proof. intros i H p _. apply pk_one. exact H. Qed.

  Lemma op_bytestring : forall s, okpush (enc_bytestring c s) (p_bytestring c s).
  Proof.
    intros s. unfold p_bytestring. destruct (1 <=? e_proto c)%Z; [destruct (Nlen s <? 256)|]; apply pk_leaf; reflexivity.
  Qed.

  Lemma op_unicode : forall s, okpush (enc_unicode c s) (p_unicode c s).
  Proof.
    intros s. unfold enc_unicode, p_unicode. cbv zeta. destruct (1 <=? e_proto c)%Z.
    - destruct ((Nlen s <? 256) && (4 <=? e_proto c)%Z); apply pk_leaf; reflexivity.
    - destruct (pyencode_raw_unicode_escape s); [apply pk_leaf; reflexivity|apply op_fail].
  Qed.

  Lemma op_string : forall s, okpush (enc_string c s) (p_string c s).
  Proof. intros s. unfold enc_string, p_string. destruct (e_strict c || (3 <=? e_proto c)%Z); [apply op_unicode|apply op_bytestring]. Qed.

  Lemma pk_two_then : forall a b i,
    pushes_k a 1 -> pushes_k b 1 ->
    (forall t, sd_step i (false :: false :: t) = Some (false :: t)) -> pushes_k (a ++ b ++ [i]) 1.
  Proof.
    intros a b i Ha Hb Hi s. rewrite (sd_seq_app a _ s _ (Ha s)). cbn [repeat app].
    rewrite (sd_seq_app b _ _ _ (Hb _)). cbn [repeat app sd_seq]. rewrite Hi. reflexivity.
  Qed.

  Lemma op_class : forall m n, okpush (enc_class c m n) (p_class c m n).
  Proof.
    intros m n. unfold enc_class, p_class. destruct (4 <=? e_proto c)%Z.
    - intros W. apply wok_wseq_inv in W. destruct W as [Wm W]. apply wok_wseq_inv in W. destruct W as [Wn _].
      apply pk_two_then; [exact (op_string m Wm)|exact (op_string n Wn)|reflexivity].
    - destruct (has_lf m || has_lf n); [apply op_fail|apply pk_leaf; reflexivity].
  Qed.

  Lemma op_tuple : forall n items l, (wok items -> pushes_k l n) -> okpush (wrap_tuple c n items) (p_tuple c n l).
  Proof.
    intros n items l H. unfold wrap_tuple, p_tuple.
    destruct ((2 <=? e_proto c)%Z && Nat.leb 1 n && Nat.leb n 3) eqn:E.
    - intros W. apply wok_wseq_inv in W. destruct W as [Wi _]. specialize (H Wi).
      apply andb_true_iff in E. destruct E as [E E3]. apply andb_true_iff in E. destruct E as [_ E1].
      apply Nat.leb_le in E1, E3. intros s. rewrite (sd_seq_app l _ s _ (H s)).
      destruct n as [|[|[|[|n]]]]; try lia; reflexivity.
    - destruct ((1 <=? e_proto c)%Z && Nat.eqb n 0); [apply pk_leaf; reflexivity|].
      intros W. apply wok_wseq_inv in W. destruct W as [_ W]. apply wok_wseq_inv in W. destruct W as [Wi _].
      apply (pk_marked l n ITuple); [reflexivity|exact (H Wi)].
  Qed.

  Lemma op_call : forall m n k args l, (wok args -> pushes_k l k) -> okpush (wrap_call c m n k args) (p_call c m n k l).
  Proof.
    intros m n k args l H. unfold wrap_call, p_call. intros W.
    apply wok_wseq_inv in W. destruct W as [Wc W]. apply wok_wseq_inv in W. destruct W as [Wt _].
    apply pk_two_then; [exact (op_class m n Wc)|exact (op_tuple k args l H Wt)|reflexivity].
  Qed.

  Lemma op_bytes : forall s, okpush (enc_bytes c s) (p_bytes c s).
  Proof.
    intros s. unfold enc_bytes, p_bytes. cbv zeta. destruct (3 <=? e_proto c)%Z.
    - destruct (Nlen s <? 256); apply pk_leaf; reflexivity.
    - apply op_call. intros W. apply wok_wseq_inv in W. destruct W as [Wu Wb].
      apply (pk_app _ _ 1 1); [exact (op_unicode _ Wu)|exact (op_bytestring _ Wb)].
  Qed.

  Lemma op_bytearray : forall s, okpush (enc_bytearray c s) (p_bytearray c s).
  Proof.
    intros s. unfold enc_bytearray, p_bytearray. destruct (5 <=? e_proto c)%Z.
    - apply pk_leaf; reflexivity.
    - apply op_call. apply op_bytes.
  Qed.

  Lemma op_ref : forall pid p l, okpush p l -> okpush (enc_ref c pid p) (p_ref c pid l).
  Proof.
    intros pid p l H. unfold enc_ref, p_ref. destruct (e_proto c =? 0)%Z.
    - destruct pid; try apply op_fail. destruct ty; try apply op_fail.
      destruct (has_lf s); [apply op_fail|apply pk_leaf; reflexivity].
    - intros W. apply wok_wseq_inv in W. destruct W as [Wp _]. specialize (H Wp).
      intros s. rewrite (sd_seq_app l _ s _ (H s)). reflexivity.
  Qed.

  Theorem body_pushes_one : forall v, okpush (enc c v) (body c v).
  Proof.
    fix IH 1. intros v.
    destruct v as [ | |b|z|z|f|k|ty s|s|l|l|es|es| |m n|m n args|pid|z|fields|ts ref x]; cbn [enc body].
    - apply pk_leaf; reflexivity.
    - apply pk_leaf; reflexivity.
    - apply op_bool.
    - apply op_int.
    - apply op_uint.
    - apply op_float.
    - apply op_fail.
    - destruct ty; [apply op_string|apply op_string|apply op_unicode|apply op_bytes|apply op_bytestring].
    - apply op_bytearray.
    - (* Tuple *)
      apply op_tuple. induction l as [|x r IHl]; [intros _; apply pk_nil|].
      intros W. apply wok_wseq_inv in W. destruct W as [Wx Wr].
      replace (length (x :: r)) with (length r + 1)%nat by (cbn [length]; lia). apply pk_app; [exact (IH x Wx)|exact (IHl Wr)].
    - (* List *)
      destruct ((1 <=? e_proto c)%Z && Nat.eqb (length l) 0); [apply pk_leaf; reflexivity|].
      intros W. apply wok_wseq_inv in W. destruct W as [_ W]. apply wok_wseq_inv in W. destruct W as [Wl _].
      apply (pk_marked _ (length l) IList); [reflexivity|]. revert Wl.
      induction l as [|x r IHl]; [intros _; apply pk_nil|].
      intros W. apply wok_wseq_inv in W. destruct W as [Wx Wr].
      replace (length (x :: r)) with (length r + 1)%nat by (cbn [length]; lia). apply pk_app; [exact (IH x Wx)|exact (IHl Wr)].
    - (* Map *)
      destruct ((1 <=? e_proto c)%Z && Nat.eqb (length es) 0); [apply pk_leaf; reflexivity|].
      intros W. apply wok_wseq_inv in W. destruct W as [_ W]. apply wok_wseq_inv in W. destruct W as [Wl _].
      apply (pk_marked _ (2 * length es) IDict); [reflexivity|]. revert Wl.
      induction es as [|[k x] r IHl]; [intros _; apply pk_nil|].
      intros W. apply wok_wseq_inv in W. destruct W as [Wk W]. apply wok_wseq_inv in W. destruct W as [Wx Wr].
      replace (2 * length ((k, x) :: r))%nat with ((2 * length r + 1) + 1)%nat by (cbn [length]; lia).
      apply pk_app; [apply IH; exact Wk|]. apply pk_app; [exact (IH x Wx)|exact (IHl Wr)].
    - (* Dict *)
      destruct ((1 <=? e_proto c)%Z && Nat.eqb (length es) 0); [apply pk_leaf; reflexivity|].
      intros W. apply wok_wseq_inv in W. destruct W as [_ W]. apply wok_wseq_inv in W. destruct W as [Wl _].
      apply (pk_marked _ (2 * length es) IDict); [reflexivity|]. revert Wl.
      induction es as [|[k x] r IHl]; [intros _; apply pk_nil|].
      intros W. apply wok_wseq_inv in W. destruct W as [Wk W]. apply wok_wseq_inv in W. destruct W as [Wx Wr].
      replace (2 * length ((k, x) :: r))%nat with ((2 * length r + 1) + 1)%nat by (cbn [length]; lia).
      apply pk_app; [apply IH; exact Wk|]. apply pk_app; [exact (IH x Wx)|exact (IHl Wr)].
    - apply pk_leaf; reflexivity.
    - apply op_class.
    - (* Call *)
      apply op_call. induction args as [|x r IHl]; [intros _; apply pk_nil|].
      intros W. apply wok_wseq_inv in W. destruct W as [Wx Wr].
      replace (length (x :: r)) with (length r + 1)%nat by (cbn [length]; lia). apply pk_app; [exact (IH x Wx)|exact (IHl Wr)].
    - apply op_ref. apply IH.
    - apply pk_leaf; reflexivity.
    - (* Struct *)
      intros W. apply wok_wseq_inv in W. destruct W as [_ W]. apply wok_wseq_inv in W. destruct W as [Wl _].
      revert Wl. generalize (existsb (fun f => negb (Nat.eqb (length (sf_tag f)) 0)) fields). intros ut Wl.
      assert (X : exists k, pushes_k ((fix p_fields (use_tag : bool) (fs : list sfield) : list insn :=
                   match fs with
                   | [] => []
                   | SField name exported tag x :: t =>
                       let emitted :=
                         if use_tag then negb (Nat.eqb (length tag) 0) && negb (tag_later tag t) else exported in
                       if emitted then p_string c (if use_tag then tag else name) ++ body c x ++ p_fields use_tag t
                       else p_fields use_tag t
                   end) ut fields) k).
      { revert Wl. induction fields as [|[nm ex tg x] r IHl]; [intros _; exists 0%nat; apply pk_nil|].
        cbn beta iota zeta.
        destruct (if ut then negb (Nat.eqb (length tg) 0) && negb (tag_later tg r) else ex).
        - intros W. apply wok_wseq_inv in W. destruct W as [Ws W]. apply wok_wseq_inv in W. destruct W as [Wx Wr].
          destruct (IHl Wr) as [k Hk]. exists ((k + 1) + 1)%nat.
          apply pk_app; [exact (op_string _ Ws)|]. apply pk_app; [exact (IH x Wx)|exact Hk].
        - exact IHl. }
      destruct X as [k Hk]. apply (pk_marked _ k IDict); [reflexivity|exact Hk].
    - destruct ts; [destruct ref as [pid|]|]; [apply op_ref; apply IH|apply IH|apply IH].
  Qed.

  (* the whole output: a well-formed pickle with its only STOP last and one object left *)
  Theorem program_well_formed : forall v ws,
    run_w (encode c v) None = (ws, EOk) -> sd_run (program c v) [] = true.
  Proof.
    intros v ws H. unfold encode in H.
    destruct (negb ((0 <=? e_proto c)%Z && (e_proto c <=? 5)%Z)); [discriminate|].
    assert (W : wok (wseq (if (2 <=? e_proto c)%Z then emit [x80; Z2b (e_proto c)] else WDone)
                          (wseq (enc c v) (emit [x2e])))) by (unfold wok; rewrite H; reflexivity).
    apply wok_wseq_inv in W. destruct W as [_ W]. apply wok_wseq_inv in W. destruct W as [We _].
    pose proof (body_pushes_one v We) as B.
    unfold program.
    assert (P : sd_seq (if (2 <=? e_proto c)%Z then [IProto (Z.to_N (e_proto c))] else []) [] = Some [])
      by (destruct (2 <=? e_proto c)%Z; reflexivity).
    rewrite (sd_run_app _ _ _ _ P). rewrite (sd_run_app _ _ _ _ (B [])). reflexivity.
  Qed.
End T3.

(* ---- PROTO and STOP only frame the program ---------------------------------------------------- *)

Definition is_frame (i : insn) : bool := match i with IProto _ | IStop => true | _ => false end.
Definition noframe (l : list insn) : Prop := Forall (fun i => is_frame i = false) l.

Ltac nf :=
  repeat first
    [ apply Forall_nil
    | assumption
    | apply Forall_cons; [reflexivity|]
    | apply Forall_app; split
    | match goal with |- Forall _ (if ?b then _ else _) => destruct b end
    | match goal with |- Forall _ [if ?b then _ else _] => destruct b end
    | match goal with |- Forall _ (_ ++ [match ?n with _ => _ end]) => destruct n as [|[|[|?]]] end
    | match goal with |- Forall _ (match ?x with _ => _ end) => destruct x end ].

Section NoFrame.
  Variable c : econfig.
  Lemma nf_int : forall z, noframe (p_int c z). Proof. intros. unfold noframe, p_int. nf. Qed.
  Lemma nf_uint : forall z, noframe (p_uint c z). Proof. intros. unfold p_uint. destruct (z <=? int64_max)%Z; [apply nf_int|unfold noframe; nf]. Qed.
  Lemma nf_bytestring : forall s, noframe (p_bytestring c s). Proof. intros. unfold noframe, p_bytestring. nf. Qed.
  Lemma nf_unicode : forall s, noframe (p_unicode c s). Proof. intros. unfold noframe, p_unicode. nf. Qed.
  Lemma nf_string : forall s, noframe (p_string c s).
  Proof. intros. unfold p_string. destruct (e_strict c || (3 <=? e_proto c)%Z); [apply nf_unicode|apply nf_bytestring]. Qed.
  Lemma nf_class : forall m n, noframe (p_class c m n).
  Proof. intros. unfold p_class. destruct (4 <=? e_proto c)%Z; unfold noframe; nf; try apply nf_string. Qed.
  Lemma nf_tuple : forall n l, noframe l -> noframe (p_tuple c n l).
  Proof.
    intros n l H. unfold noframe, p_tuple in *.
    destruct ((2 <=? e_proto c)%Z && Nat.leb 1 n && Nat.leb n 3).
    - apply Forall_app. split; [exact H|]. destruct n as [|[|[|n]]]; (apply Forall_cons; [reflexivity|apply Forall_nil]).
    - destruct ((1 <=? e_proto c)%Z && Nat.eqb n 0); nf.
  Qed.
  Lemma nf_call : forall m n k l, noframe l -> noframe (p_call c m n k l).
  Proof. intros m n k l H. unfold p_call. apply Forall_app. split; [apply nf_class|]. apply Forall_app. split; [apply nf_tuple; exact H|unfold noframe; nf]. Qed.
  Lemma nf_bytes : forall s, noframe (p_bytes c s).
  Proof.
    intros. unfold p_bytes. destruct (3 <=? e_proto c)%Z; [unfold noframe; nf|].
    apply nf_call. apply Forall_app. split; [apply nf_unicode|apply nf_bytestring].
  Qed.
  Lemma nf_bytearray : forall s, noframe (p_bytearray c s).
  Proof. intros. unfold p_bytearray. destruct (5 <=? e_proto c)%Z; [unfold noframe; nf|]. apply nf_call. apply nf_bytes. Qed.
  Lemma nf_ref : forall pid l, noframe l -> noframe (p_ref c pid l).
  Proof.
    intros pid l H. unfold noframe, p_ref in *. destruct (e_proto c =? 0)%Z.
    - destruct pid; try apply Forall_nil. destruct ty; try apply Forall_nil. nf.
    - nf.
  Qed.

  Theorem body_noframe : forall v, noframe (body c v).
  Proof.
    fix IH 1. intros v.
    destruct v as [ | |b|z|z|f|k|ty s|s|l|l|es|es| |m n|m n args|pid|z|fields|ts ref x]; cbn [body].
    - unfold noframe; nf.
    - unfold noframe; nf.
    - unfold noframe, p_bool; nf.
    - apply nf_int.
    - apply nf_uint.
    - unfold noframe, p_float; nf.
    - apply Forall_nil.
    - destruct ty; [apply nf_string|apply nf_string|apply nf_unicode|apply nf_bytes|apply nf_bytestring].
    - apply nf_bytearray.
    - apply nf_tuple. induction l as [|x r IHl]; [apply Forall_nil|]. apply Forall_app. split; [apply IH|exact IHl].
    - destruct ((1 <=? e_proto c)%Z && Nat.eqb (length l) 0); [unfold noframe; nf|].
      apply Forall_cons; [reflexivity|]. apply Forall_app. split; [|unfold noframe; nf].
      induction l as [|x r IHl]; [apply Forall_nil|]. apply Forall_app. split; [apply IH|exact IHl].
    - destruct ((1 <=? e_proto c)%Z && Nat.eqb (length es) 0); [unfold noframe; nf|].
      apply Forall_cons; [reflexivity|]. apply Forall_app. split; [|unfold noframe; nf].
      induction es as [|[k x] r IHl]; [apply Forall_nil|].
      apply Forall_app. split; [apply IH|]. apply Forall_app. split; [apply IH|exact IHl].
    - destruct ((1 <=? e_proto c)%Z && Nat.eqb (length es) 0); [unfold noframe; nf|].
      apply Forall_cons; [reflexivity|]. apply Forall_app. split; [|unfold noframe; nf].
      induction es as [|[k x] r IHl]; [apply Forall_nil|].
      apply Forall_app. split; [apply IH|]. apply Forall_app. split; [apply IH|exact IHl].
    - unfold noframe; nf.
    - apply nf_class.
    - apply nf_call. induction args as [|x r IHl]; [apply Forall_nil|]. apply Forall_app. split; [apply IH|exact IHl].
    - apply nf_ref. apply IH.
    - unfold noframe, p_long; nf.
    - apply Forall_cons; [reflexivity|]. apply Forall_app. split; [|unfold noframe; nf].
      generalize (existsb (fun f => negb (Nat.eqb (length (sf_tag f)) 0)) fields). intros ut.
      induction fields as [|[nm ex tg x] r IHl]; [apply Forall_nil|]. cbn beta iota zeta.
      destruct (if ut then negb (Nat.eqb (length tg) 0) && negb (tag_later tg r) else ex).
      + apply Forall_app. split; [apply nf_string|]. apply Forall_app. split; [apply IH|exact IHl].
      + exact IHl.
    - destruct ts; [destruct ref as [pid|]|]; [apply nf_ref; apply IH|apply IH|apply IH].
  Qed.
End NoFrame.


(* ---- the same induction once more: only these instruction forms are ever emitted ------------------- *)

Definition emitted (i : insn) : bool :=
  match i with
  | INone | INewTrue | INewFalse | IInt _ | IBinint1 _ | IBinint2 _ | IBinint _ | ILong _
  | IBinfloat _ | IFloat _ | IString _ | IShortBinstring _ | IBinstring _ | IUnicode _
  | IShortBinunicode _ | IBinunicode _ | IShortBinbytes _ | IBinbytes _ | IBytearray8 _
  | IMark | ITuple | ITuple1 | ITuple2 | ITuple3 | IEmptyTuple | IEmptyList | IList | IEmptyDict | IDict
  | IGlobal _ _ | IStackGlobal | IReduce | IPersid _ | IBinpersid => true
  | _ => false
  end.
Definition emitted_all (l : list insn) : Prop := Forall (fun i => emitted i = true) l.

Section Emitted.
  Variable c : econfig.
  Lemma em_int : forall z, emitted_all (p_int c z). Proof. intros. unfold emitted_all, p_int. nf. Qed.
  Lemma em_uint : forall z, emitted_all (p_uint c z). Proof. intros. unfold p_uint. destruct (z <=? int64_max)%Z; [apply em_int|unfold emitted_all; nf]. Qed.
  Lemma em_bytestring : forall s, emitted_all (p_bytestring c s). Proof. intros. unfold emitted_all, p_bytestring. nf. Qed.
  Lemma em_unicode : forall s, emitted_all (p_unicode c s). Proof. intros. unfold emitted_all, p_unicode. nf. Qed.
  Lemma em_string : forall s, emitted_all (p_string c s).
  Proof. intros. unfold p_string. destruct (e_strict c || (3 <=? e_proto c)%Z); [apply em_unicode|apply em_bytestring]. Qed.
  Lemma em_class : forall m n, emitted_all (p_class c m n).
  Proof. intros. unfold p_class. destruct (4 <=? e_proto c)%Z; unfold emitted_all; nf; try apply em_string. Qed.
  Lemma em_tuple : forall n l, emitted_all l -> emitted_all (p_tuple c n l).
  Proof.
    intros n l H. unfold emitted_all, p_tuple in *.
    destruct ((2 <=? e_proto c)%Z && Nat.leb 1 n && Nat.leb n 3).
    - apply Forall_app. split; [exact H|]. destruct n as [|[|[|n]]]; (apply Forall_cons; [reflexivity|apply Forall_nil]).
    - destruct ((1 <=? e_proto c)%Z && Nat.eqb n 0); nf.
  Qed.
  Lemma em_call : forall m n k l, emitted_all l -> emitted_all (p_call c m n k l).
  Proof. intros m n k l H. unfold p_call. apply Forall_app. split; [apply em_class|]. apply Forall_app. split; [apply em_tuple; exact H|unfold emitted_all; nf]. Qed.
  Lemma em_bytes : forall s, emitted_all (p_bytes c s).
  Proof.
    intros. unfold p_bytes. destruct (3 <=? e_proto c)%Z; [unfold emitted_all; nf|].
    apply em_call. apply Forall_app. split; [apply em_unicode|apply em_bytestring].
  Qed.
  Lemma em_bytearray : forall s, emitted_all (p_bytearray c s).
  Proof. intros. unfold p_bytearray. destruct (5 <=? e_proto c)%Z; [unfold emitted_all; nf|]. apply em_call. apply em_bytes. Qed.
  Lemma em_ref : forall pid l, emitted_all l -> emitted_all (p_ref c pid l).
  Proof.
    intros pid l H. unfold emitted_all, p_ref in *. destruct (e_proto c =? 0)%Z.
    - destruct pid; try apply Forall_nil. destruct ty; try apply Forall_nil. nf.
    - nf.
  Qed.

  Theorem body_emitted : forall v, emitted_all (body c v).
  Proof.
    fix IH 1. intros v.
    destruct v as [ | |b|z|z|f|k|ty s|s|l|l|es|es| |m n|m n args|pid|z|fields|ts ref x]; cbn [body].
    - unfold emitted_all; nf.
    - unfold emitted_all; nf.
    - unfold emitted_all, p_bool; nf.
    - apply em_int.
    - apply em_uint.
    - unfold emitted_all, p_float; nf.
    - apply Forall_nil.
    - destruct ty; [apply em_string|apply em_string|apply em_unicode|apply em_bytes|apply em_bytestring].
    - apply em_bytearray.
    - apply em_tuple. induction l as [|x r IHl]; [apply Forall_nil|]. apply Forall_app. split; [apply IH|exact IHl].
    - destruct ((1 <=? e_proto c)%Z && Nat.eqb (length l) 0); [unfold emitted_all; nf|].
      apply Forall_cons; [reflexivity|]. apply Forall_app. split; [|unfold emitted_all; nf].
      induction l as [|x r IHl]; [apply Forall_nil|]. apply Forall_app. split; [apply IH|exact IHl].
    - destruct ((1 <=? e_proto c)%Z && Nat.eqb (length es) 0); [unfold emitted_all; nf|].
      apply Forall_cons; [reflexivity|]. apply Forall_app. split; [|unfold emitted_all; nf].
      induction es as [|[k x] r IHl]; [apply Forall_nil|].
      apply Forall_app. split; [apply IH|]. apply Forall_app. split; [apply IH|exact IHl].
    - destruct ((1 <=? e_proto c)%Z && Nat.eqb (length es) 0); [unfold emitted_all; nf|].
      apply Forall_cons; [reflexivity|]. apply Forall_app. split; [|unfold emitted_all; nf].
      induction es as [|[k x] r IHl]; [apply Forall_nil|].
      apply Forall_app. split; [apply IH|]. apply Forall_app. split; [apply IH|exact IHl].
    - unfold emitted_all; nf.
    - apply em_class.
    - apply em_call. induction args as [|x r IHl]; [apply Forall_nil|]. apply Forall_app. split; [apply IH|exact IHl].
    - apply em_ref. apply IH.
    - unfold emitted_all, p_long; nf.
    - apply Forall_cons; [reflexivity|]. apply Forall_app. split; [|unfold emitted_all; nf].
      generalize (existsb (fun f => negb (Nat.eqb (length (sf_tag f)) 0)) fields). intros ut.
      induction fields as [|[nm ex tg x] r IHl]; [apply Forall_nil|]. cbn beta iota zeta.
      destruct (if ut then negb (Nat.eqb (length tg) 0) && negb (tag_later tg r) else ex).
      + apply Forall_app. split; [apply em_string|]. apply Forall_app. split; [apply IH|exact IHl].
      + exact IHl.
    - destruct ts; [destruct ref as [pid|]|]; [apply em_ref; apply IH|apply IH|apply IH].
  Qed.
End Emitted.
