(* RoundTrip.v — C03: what the decoder model reads back from the encoder model's bytes.
   Part 1: leaf opcodes (one lemma per emitted form). *)
From Coq Require Import Ascii String.
From Coq Require Import List ZArith NArith Bool Lia.
From Coq.Strings Require Import Byte.
From OgRek Require Import Base Utf8 GoStrconv PyQuote Float Value PyEq Dict Reader Decoder Typeconv Encoder Norm.
From OgRek Require Import BaseFacts ReaderFacts CodecFacts IntFacts DecoderFacts EncoderFacts ExecFacts Utf8Facts QuoteFacts RueFacts.
Import ListNotations.
Open Scope N_scope.

Lemma erase_not_mark : forall v t, erase v = Some t -> is_mark v = false.
Proof. intros v t H. destruct v; try reflexivity. discriminate. Qed.

(* the decoder configuration matching an encoder configuration's StrictUnicode *)
Definition dcfg_of (c : econfig) (pd : bool) : dconfig := Build_dconfig pd (e_strict c) None.
(* the same with a PersistentLoad hook *)
Definition dcfg_h (c : econfig) (pd : bool) (load : option (N -> val -> load_result)) : dconfig :=
  Build_dconfig pd (e_strict c) load.

(* one pushed value by a leaf instruction: nothing else in the decoder state changes (object ids may
   be consumed) *)
Definition pushes_leaf (cfg : dconfig) (bytes_ : bytes) (t : tval) : Prop :=
  forall i st rest,
    exists i' st' x,
      exec cfg i st (bytes_ ++ rest) i' st' rest /\
      d_stack st' = x :: d_stack st /\ erase x = Some t /\
      d_memo st' = d_memo st /\ d_proto st' = d_proto st /\ d_heap st' = d_heap st /\
      d_lens st' = d_lens st /\ d_stale st' = d_stale st /\ d_log st' = d_log st /\ d_next st <= d_next st' /\
      i' = i + 1.

(* one pushed value: the shape every "encode v" lemma has *)
Definition pushes (cfg : dconfig) (bytes_ : bytes) (t : tval) : Prop :=
  forall i st rest,
    exists i' st' x,
      exec cfg i st (bytes_ ++ rest) i' st' rest /\
      d_stack st' = x :: d_stack st /\ erase x = Some t /\
      d_memo st' = d_memo st /\ d_proto st' = d_proto st /\ d_heap st' = d_heap st.

Lemma pushes_of_leaf : forall cfg b t, pushes_leaf cfg b t -> pushes cfg b t.
Proof.
  intros cfg b t H i st rest. destruct (H i st rest) as [i' [st' [x [E [S [T [M [P [Hh _]]]]]]]]].
  exists i', st', x. repeat split; assumption.
Qed.

(* ---- leaves -------------------------------------------------------------------------------------- *)

Lemma push_none_leaf : forall cfg, pushes_leaf cfg [x4e] TNone.
Proof. intros cfg i st rest. eexists; eexists; eexists. split; [eapply exec_one; reflexivity|repeat split; reflexivity]. Qed.

Lemma push_newbool_leaf : forall cfg (b : bool), pushes_leaf cfg [(if b then x88 else x89)] (TBool b).
Proof.
  intros cfg b i st rest. destruct b; eexists; eexists; eexists;
    (split; [eapply exec_one; reflexivity|repeat split; reflexivity]).
Qed.

Lemma push_textbool_leaf : forall cfg (b : bool),
  pushes_leaf cfg (if b then bs "I01" ++ [x0a] else bs "I00" ++ [x0a]) (TBool b).
Proof.
  intros cfg b i st rest. destruct b; eexists; eexists; eexists;
    (split; [eapply exec_one; reflexivity|repeat split; reflexivity]).
Qed.

Lemma push_binint1_leaf : forall cfg z, (0 <= z <= 255)%Z -> pushes_leaf cfg [x4b; Z2b z] (TInt z).
Proof.
  intros cfg z H i st rest.
  assert (E : Z2b z = N2b (Z.to_N z)).
  { unfold Z2b. rewrite Z.mod_small by lia. reflexivity. }
  rewrite E. eexists; eexists; eexists. split.
  - eapply exec_one; [reflexivity|reflexivity|]. apply binint1_form. lia.
  - rewrite Z2N.id by lia. repeat split; reflexivity.
Qed.

Lemma le_encode_2 : forall n, le_encode 2 n = [N2b n; N2b (n / 256)].
Proof. reflexivity. Qed.

Lemma push_binint2_leaf : forall cfg z, (0 <= z <= 65535)%Z -> pushes_leaf cfg [x4d; Z2b z; Z2b (z / 256)] (TInt z).
Proof.
  intros cfg z H i st rest.
  assert (E : [Z2b z; Z2b (z / 256)] = le_encode 2 (Z.to_N z)).
  { rewrite le_encode_2. unfold Z2b, N2b.
    assert (A : Z.to_N (z mod 256) mod 256 = Z.to_N z mod 256).
    { rewrite N.mod_small; [|pose proof (Z.mod_pos_bound z 256 ltac:(lia)); lia].
      rewrite Z2N.inj_mod by lia. reflexivity. }
    assert (B : Z.to_N ((z / 256) mod 256) mod 256 = (Z.to_N z / 256) mod 256).
    { rewrite N.mod_small; [|pose proof (Z.mod_pos_bound (z / 256) 256 ltac:(lia)); lia].
      rewrite Z2N.inj_mod; [|apply Z.div_pos; lia|lia]. rewrite Z2N.inj_div by lia. reflexivity. }
    rewrite A, B. reflexivity. }
  change [x4d; Z2b z; Z2b (z / 256)] with (x4d :: [Z2b z; Z2b (z / 256)]). rewrite E.
  eexists; eexists; eexists. split.
  - eapply exec_one; [reflexivity|reflexivity|]. apply binint2_form. lia.
  - rewrite Z2N.id by lia. repeat split; reflexivity.
Qed.

Lemma push_binint_leaf : forall cfg z, (-2147483648 <= z <= 2147483647)%Z ->
  pushes_leaf cfg (x4a :: le_encode 4 (Z.to_N (wrap_u 32 z))) (TInt z).
Proof.
  intros cfg z H i st rest. eexists; eexists; eexists. split.
  - cbn [app]. eapply exec_one; [reflexivity|reflexivity|]. apply binint_form. exact H.
  - repeat split; reflexivity.
Qed.

(* INT text: an int64, or a *big.Int when the integer does not fit *)
Lemma push_int_text_leaf : forall cfg z,
  pushes_leaf cfg (x49 :: dec_of_Z z ++ [x0a]) (if in_int64 z then TInt z else TBig z).
Proof.
  intros cfg z i st rest. cbn [app]. rewrite <- app_assoc. cbn [app].
  assert (R : run (handler cfg OInt x49 (i + 1) st) (dec_of_Z z ++ x0a :: rest) =
              (Ok (HOk (if in_int64 z then push (VInt z) st
                        else push (VBig (d_next st) z) (snd (fresh st)))), rest)).
  { cbn [handler run]. rewrite (split_line_exact _ rest (dec_of_Z_no_lf z)).
    destruct (dec_of_Z_not_bool z) as [N0 N1]. rewrite N0, N1, parse_int64_dec_of_Z.
    destruct (in_int64 z); [reflexivity|]. rewrite parse_dec_Z_dec_of_Z. reflexivity. }
  destruct (in_int64 z); (eexists; eexists; eexists; split;
    [eapply exec_one; [reflexivity|reflexivity|exact R]|repeat split; try reflexivity; cbn; lia]).
Qed.

Lemma push_long_text_leaf : forall cfg z, pushes_leaf cfg (x4c :: dec_of_Z z ++ [x4c; x0a]) (TBig z).
Proof.
  intros cfg z i st rest. cbn [app]. rewrite <- app_assoc. cbn [app].
  assert (R : run (handler cfg OLong x4c (i + 1) st) (dec_of_Z z ++ x4c :: x0a :: rest) =
              (Ok (HOk (push (VBig (d_next st) z) (snd (fresh st)))), rest)).
  { cbn [handler run].
    replace (dec_of_Z z ++ x4c :: x0a :: rest) with ((dec_of_Z z ++ [x4c]) ++ x0a :: rest)
      by (rewrite <- app_assoc; reflexivity).
    rewrite split_line_exact.
    2:{ unfold no_lf. rewrite forallb_app. rewrite (dec_of_Z_no_lf z). reflexivity. }
    rewrite lastb_app_one. change (negb (beqb x4c "L")) with false. cbn match.
    rewrite removelast_last, parse_dec_Z_dec_of_Z. reflexivity. }
  eexists; eexists; eexists. split; [eapply exec_one; [reflexivity|reflexivity|exact R]|].
  repeat split; try reflexivity; cbn; lia.
Qed.

Lemma be_encode_decode : forall n v, v < 256 ^ N.of_nat n -> be_decode (be_encode n v) = v.
Proof.
  intros n v H. unfold be_decode, be_encode. rewrite rev_involutive. apply le_encode_decode. exact H.
Qed.

Lemma be_encode_length : forall n v, length (be_encode n v) = n.
Proof. intros. unfold be_encode. rewrite rev_length. apply le_encode_length. Qed.

Lemma push_binfloat_leaf : forall cfg f, f < 2 ^ 64 -> pushes_leaf cfg (x47 :: be_encode 8 f) (TFloat f).
Proof.
  intros cfg f H i st rest. cbn [app].
  assert (R : run (handler cfg OBinfloat x47 (i + 1) st) (be_encode 8 f ++ rest) =
              (Ok (HOk (push (VFloat f) st)), rest)).
  { cbn [handler run]. change 8 with (Nlen (be_encode 8 f)) at 1.
    rewrite take_n_exact. cbn [run ok]. rewrite be_encode_decode by exact H. reflexivity. }
  eexists; eexists; eexists. split; [eapply exec_one; [reflexivity|reflexivity|exact R]|].
  repeat split; try reflexivity; cbn; lia.
Qed.

(* counted payloads: a 1-byte or a 4-byte length, then the bytes *)
Lemma u32le_decode : forall l, l < 4294967296 -> le_decode (u32le l) = l.
Proof.
  intros l H. unfold u32le. rewrite N.mod_small by exact H. apply le_encode_decode. exact H.
Qed.

Lemma run_short : forall A (k : bytes -> prog A) s rest, Nlen s < 256 ->
  run (RdByte EUnexpectedEOF (fun l => RdN ByCopyN (b2N l) k)) (N2b (Nlen s) :: s ++ rest) = run (k s) rest.
Proof.
  intros A k s rest H. cbn [run]. rewrite b2N_N2b by exact H. rewrite take_n_exact. reflexivity.
Qed.

Lemma run_long4 : forall A how (k : bytes -> prog A) s rest, Nlen s < 4294967296 ->
  run (RdN ByReadFull 4 (fun l => RdN how (le_decode l) k)) (u32le (Nlen s) ++ s ++ rest) = run (k s) rest.
Proof.
  intros A how k s rest H. cbn [run].
  change 4 with (Nlen (u32le (Nlen s))) at 1. rewrite take_n_exact. cbn [run].
  rewrite u32le_decode by exact H. rewrite take_n_exact. reflexivity.
Qed.

Definition bytestring_t (cfg : dconfig) (s : bytes) : tval := if c_strict cfg then TBStr s else TStr s.

Lemma push_short_binstring_leaf : forall cfg s, Nlen s < 256 ->
  pushes_leaf cfg (x55 :: N2b (Nlen s) :: s) (bytestring_t cfg s).
Proof.
  intros cfg s H i st rest. cbn [app].
  assert (R : run (handler cfg OShortBinstring x55 (i + 1) st) (N2b (Nlen s) :: s ++ rest) =
              (Ok (HOk (push_bytestring cfg s st)), rest)).
  { cbn [handler]. rewrite run_short by exact H. reflexivity. }
  unfold push_bytestring, bytestring_t in *. destruct (c_strict cfg); (eexists; eexists; eexists; split;
    [eapply exec_one; [reflexivity|reflexivity|exact R]|repeat split; reflexivity]).
Qed.

Lemma push_binstring_leaf : forall cfg s, Nlen s < 4294967296 ->
  pushes_leaf cfg (x54 :: u32le (Nlen s) ++ s) (bytestring_t cfg s).
Proof.
  intros cfg s H i st rest. cbn [app]. rewrite <- app_assoc.
  assert (R : run (handler cfg OBinstring x54 (i + 1) st) (u32le (Nlen s) ++ s ++ rest) =
              (Ok (HOk (push_bytestring cfg s st)), rest)).
  { cbn [handler]. rewrite run_long4 by exact H. reflexivity. }
  unfold push_bytestring, bytestring_t in *. destruct (c_strict cfg); (eexists; eexists; eexists; split;
    [eapply exec_one; [reflexivity|reflexivity|exact R]|repeat split; reflexivity]).
Qed.

Lemma push_short_binunicode_leaf : forall cfg s, Nlen s < 256 ->
  pushes_leaf cfg (x8c :: N2b (Nlen s) :: s) (TStr s).
Proof.
  intros cfg s H i st rest. cbn [app].
  assert (R : run (handler cfg OShortBinunicode x8c (i + 1) st) (N2b (Nlen s) :: s ++ rest) =
              (Ok (HOk (push (VStr s) st)), rest)).
  { cbn [handler]. rewrite run_short by exact H. reflexivity. }
  eexists; eexists; eexists. split; [eapply exec_one; [reflexivity|reflexivity|exact R]|].
  repeat split; try reflexivity; cbn; lia.
Qed.

Lemma push_binunicode_leaf : forall cfg s, Nlen s < 4294967296 ->
  pushes_leaf cfg (x58 :: u32le (Nlen s) ++ s) (TStr s).
Proof.
  intros cfg s H i st rest. cbn [app]. rewrite <- app_assoc.
  assert (R : run (handler cfg OBinunicode x58 (i + 1) st) (u32le (Nlen s) ++ s ++ rest) =
              (Ok (HOk (push (VStr s) st)), rest)).
  { cbn [handler]. rewrite run_long4 by exact H. reflexivity. }
  eexists; eexists; eexists. split; [eapply exec_one; [reflexivity|reflexivity|exact R]|].
  repeat split; try reflexivity; cbn; lia.
Qed.

Lemma push_short_binbytes_leaf : forall cfg s, Nlen s < 256 ->
  pushes_leaf cfg (x43 :: N2b (Nlen s) :: s) (TBytes s).
Proof.
  intros cfg s H i st rest. cbn [app].
  assert (R : run (handler cfg OShortBinbytes x43 (i + 1) st) (N2b (Nlen s) :: s ++ rest) =
              (Ok (HOk (push (VBytes s) st)), rest)).
  { cbn [handler]. rewrite run_short by exact H. reflexivity. }
  eexists; eexists; eexists. split; [eapply exec_one; [reflexivity|reflexivity|exact R]|].
  repeat split; try reflexivity; cbn; lia.
Qed.

Lemma push_binbytes_leaf : forall cfg s, Nlen s < 4294967296 ->
  pushes_leaf cfg (x42 :: u32le (Nlen s) ++ s) (TBytes s).
Proof.
  intros cfg s H i st rest. cbn [app]. rewrite <- app_assoc.
  assert (R : run (handler cfg OBinbytes x42 (i + 1) st) (u32le (Nlen s) ++ s ++ rest) =
              (Ok (HOk (push (VBytes s) st)), rest)).
  { cbn [handler]. rewrite run_long4 by exact H. reflexivity. }
  eexists; eexists; eexists. split; [eapply exec_one; [reflexivity|reflexivity|exact R]|].
  repeat split; try reflexivity; cbn; lia.
Qed.

Lemma push_bytearray8_leaf : forall cfg s, Nlen s < 2 ^ 63 ->
  pushes_leaf cfg (x96 :: le_encode 8 (Nlen s) ++ s) (TBArr s).
Proof.
  intros cfg s H i st rest. cbn [app]. rewrite <- app_assoc.
  assert (R : run (handler cfg OBytearray8 x96 (i + 1) st) (le_encode 8 (Nlen s) ++ s ++ rest) =
              (Ok (HOk (push (VBArr s) st)), rest)).
  { cbn [handler run]. change 8 with (Nlen (le_encode 8 (Nlen s))) at 1. rewrite take_n_exact.
    cbn [run]. rewrite le_encode_decode by (change (256 ^ N.of_nat 8) with (2 ^ 64); lia).
    assert (E : (max_int64_N <? Nlen s) = false) by (apply N.ltb_ge; unfold max_int64_N; lia).
    rewrite E. cbn [run]. rewrite take_n_exact. reflexivity. }
  eexists; eexists; eexists. split; [eapply exec_one; [reflexivity|reflexivity|exact R]|].
  repeat split; try reflexivity; cbn; lia.
Qed.

(* GLOBAL module\nname\n *)
Lemma push_global_leaf : forall cfg m n, no_lf m -> no_lf n ->
  pushes_leaf cfg (x63 :: m ++ [x0a] ++ n ++ [x0a]) (TClass m n).
Proof.
  intros cfg m n Hm Hn i st rest. cbn [app].
  assert (E : (m ++ x0a :: n ++ [x0a]) ++ rest = m ++ x0a :: (n ++ x0a :: rest)).
  { rewrite <- app_assoc. cbn [app]. rewrite <- app_assoc. reflexivity. }
  rewrite E.
  assert (R : run (handler cfg OGlobal x63 (i + 1) st) (m ++ x0a :: n ++ x0a :: rest) =
              (Ok (HOk (push (VClass m n) st)), rest)).
  { cbn [handler run]. rewrite (split_line_exact m _ Hm). cbn [run].
    rewrite (split_line_exact n _ Hn). reflexivity. }
  eexists; eexists; eexists. split; [eapply exec_one; [reflexivity|reflexivity|exact R]|].
  repeat split; try reflexivity; cbn; lia.
Qed.

Lemma push_float_text_leaf : forall cfg t b, no_lf t -> parse_float t = PFok b ->
  pushes_leaf cfg (x46 :: t ++ [x0a]) (TFloat b).
Proof.
  intros cfg t b Hn Hp i st rest. cbn [app]. rewrite <- app_assoc. cbn [app].
  eexists; eexists; eexists. split.
  - eapply exec_one; [reflexivity|reflexivity|]. cbn [handler run]. rewrite (split_line_exact _ rest Hn), Hp. reflexivity.
  - repeat split; try reflexivity; cbn; lia.
Qed.

Lemma push_unicode_text_leaf : forall cfg e u, no_lf e -> pydecode_raw_unicode_escape e = Ok u ->
  pushes_leaf cfg (x56 :: e ++ [x0a]) (TStr u).
Proof.
  intros cfg e u Hn Hp i st rest. cbn [app]. rewrite <- app_assoc. cbn [app].
  eexists; eexists; eexists. split.
  - eapply exec_one; [reflexivity|reflexivity|]. cbn [handler run]. rewrite (split_line_exact _ rest Hn), Hp. reflexivity.
  - repeat split; try reflexivity; cbn; lia.
Qed.

(* protocol 0: S "quoted" LF, the text produced by pyquote *)
Lemma push_string_quoted_leaf : forall cfg isp s,
  pushes_leaf cfg (x53 :: pyquote isp s ++ [x0a]) (bytestring_t cfg s).
Proof.
  intros cfg isp s i st rest. cbn [app]. rewrite <- app_assoc. cbn [app].
  set (body := pyquote_loop isp (length s) s).
  assert (R : run (handler cfg OString x53 (i + 1) st) (pyquote isp s ++ x0a :: rest) =
              (Ok (HOk (push_bytestring cfg s st)), rest)).
  { cbn [handler run]. rewrite (split_line_exact _ rest (nolf_pyquote isp s)).
    unfold pyquote. fold body.
    assert (NE : body ++ [""""%byte] <> []) by (destruct body; discriminate).
    destruct (body ++ [""""%byte]) as [|r0 r'] eqn:Eb; [contradiction|].
    change (negb (beqb """"%byte "'"%byte || beqb """"%byte """"%byte)) with false. cbv iota.
    rewrite <- Eb, lastb_app_one. change (negb (beqb """"%byte """"%byte)) with false. cbv iota.
    rewrite removelast_last. unfold body. rewrite pydecode_string_escape_pyquote_body. reflexivity. }
  unfold push_bytestring in R. unfold bytestring_t.
  destruct (c_strict cfg); (eexists; eexists; eexists; split;
    [eapply exec_one; [reflexivity|reflexivity|exact R]|repeat split; try reflexivity; cbn; lia]).
Qed.

(* the same lemmas in the weaker form used by the round trip *)
Lemma push_none : forall cfg, pushes cfg [x4e] TNone.
Proof. intros. apply pushes_of_leaf. apply push_none_leaf; assumption. Qed.

Lemma push_newbool : forall cfg (b : bool), pushes cfg [(if b then x88 else x89)] (TBool b).
Proof. intros. apply pushes_of_leaf. apply push_newbool_leaf; assumption. Qed.

Lemma push_textbool : forall cfg (b : bool),
  pushes cfg (if b then bs "I01" ++ [x0a] else bs "I00" ++ [x0a]) (TBool b).
Proof. intros. apply pushes_of_leaf. apply push_textbool_leaf; assumption. Qed.

Lemma push_binint1 : forall cfg z, (0 <= z <= 255)%Z -> pushes cfg [x4b; Z2b z] (TInt z).
Proof. intros. apply pushes_of_leaf. apply push_binint1_leaf; assumption. Qed.

Lemma push_binint2 : forall cfg z, (0 <= z <= 65535)%Z -> pushes cfg [x4d; Z2b z; Z2b (z / 256)] (TInt z).
Proof. intros. apply pushes_of_leaf. apply push_binint2_leaf; assumption. Qed.

Lemma push_binint : forall cfg z, (-2147483648 <= z <= 2147483647)%Z ->
  pushes cfg (x4a :: le_encode 4 (Z.to_N (wrap_u 32 z))) (TInt z).
Proof. intros. apply pushes_of_leaf. apply push_binint_leaf; assumption. Qed.

Lemma push_int_text : forall cfg z,
  pushes cfg (x49 :: dec_of_Z z ++ [x0a]) (if in_int64 z then TInt z else TBig z).
Proof. intros. apply pushes_of_leaf. apply push_int_text_leaf; assumption. Qed.

Lemma push_long_text : forall cfg z, pushes cfg (x4c :: dec_of_Z z ++ [x4c; x0a]) (TBig z).
Proof. intros. apply pushes_of_leaf. apply push_long_text_leaf; assumption. Qed.

Lemma push_binfloat : forall cfg f, f < 2 ^ 64 -> pushes cfg (x47 :: be_encode 8 f) (TFloat f).
Proof. intros. apply pushes_of_leaf. apply push_binfloat_leaf; assumption. Qed.

Lemma push_short_binstring : forall cfg s, Nlen s < 256 ->
  pushes cfg (x55 :: N2b (Nlen s) :: s) (bytestring_t cfg s).
Proof. intros. apply pushes_of_leaf. apply push_short_binstring_leaf; assumption. Qed.

Lemma push_binstring : forall cfg s, Nlen s < 4294967296 ->
  pushes cfg (x54 :: u32le (Nlen s) ++ s) (bytestring_t cfg s).
Proof. intros. apply pushes_of_leaf. apply push_binstring_leaf; assumption. Qed.

Lemma push_short_binunicode : forall cfg s, Nlen s < 256 ->
  pushes cfg (x8c :: N2b (Nlen s) :: s) (TStr s).
Proof. intros. apply pushes_of_leaf. apply push_short_binunicode_leaf; assumption. Qed.

Lemma push_binunicode : forall cfg s, Nlen s < 4294967296 ->
  pushes cfg (x58 :: u32le (Nlen s) ++ s) (TStr s).
Proof. intros. apply pushes_of_leaf. apply push_binunicode_leaf; assumption. Qed.

Lemma push_short_binbytes : forall cfg s, Nlen s < 256 ->
  pushes cfg (x43 :: N2b (Nlen s) :: s) (TBytes s).
Proof. intros. apply pushes_of_leaf. apply push_short_binbytes_leaf; assumption. Qed.

Lemma push_binbytes : forall cfg s, Nlen s < 4294967296 ->
  pushes cfg (x42 :: u32le (Nlen s) ++ s) (TBytes s).
Proof. intros. apply pushes_of_leaf. apply push_binbytes_leaf; assumption. Qed.

Lemma push_bytearray8 : forall cfg s, Nlen s < 2 ^ 63 ->
  pushes cfg (x96 :: le_encode 8 (Nlen s) ++ s) (TBArr s).
Proof. intros. apply pushes_of_leaf. apply push_bytearray8_leaf; assumption. Qed.

Lemma push_global : forall cfg m n, no_lf m -> no_lf n ->
  pushes cfg (x63 :: m ++ [x0a] ++ n ++ [x0a]) (TClass m n).
Proof. intros. apply pushes_of_leaf. apply push_global_leaf; assumption. Qed.

(* ---- sequences of pushed values -------------------------------------------------------------------- *)

(* pushes for decoders whose announced protocol (PROTO opcode) is pr: the only piece of decoder
   state an encoder form depends on (the module name of the bytearray builtin) *)
Definition pushes_at (cfg : dconfig) (pr : N) (bytes_ : bytes) (t : tval) : Prop :=
  forall i st rest, d_proto st = pr ->
    exists i' st' x,
      exec cfg i st (bytes_ ++ rest) i' st' rest /\
      d_stack st' = x :: d_stack st /\ erase x = Some t /\
      d_memo st' = d_memo st /\ d_proto st' = d_proto st /\ d_heap st' = d_heap st.

Lemma pushes_any : forall cfg pr b t, pushes cfg b t -> pushes_at cfg pr b t.
Proof. intros cfg pr b t H i st rest _. apply H. Qed.

Definition pushes_many (cfg : dconfig) (pr : N) (bytes_ : bytes) (ts : list tval) : Prop :=
  forall i st rest, d_proto st = pr ->
    exists i' st' xs,
      exec cfg i st (bytes_ ++ rest) i' st' rest /\
      d_stack st' = rev xs ++ d_stack st /\ map_opt erase xs = Some ts /\
      d_memo st' = d_memo st /\ d_proto st' = d_proto st /\ d_heap st' = d_heap st.

Lemma pushes_many_nil : forall cfg pr, pushes_many cfg pr [] [].
Proof.
  intros cfg pr i st rest _. exists i, st, []. split; [apply exec_refl|]. repeat split; reflexivity.
Qed.

Lemma map_opt_app_one : forall xs x ts t,
  map_opt erase xs = Some ts -> erase x = Some t -> map_opt erase (xs ++ [x]) = Some (ts ++ [t]).
Proof.
  induction xs as [|y ys IH]; intros x ts t H Hx; cbn in *.
  - inversion H; subst. rewrite Hx. reflexivity.
  - destruct (erase y) as [ty|]; [|discriminate]. destruct (map_opt erase ys) as [tys|] eqn:E; [|discriminate].
    inversion H; subst. rewrite (IH x tys t eq_refl Hx). reflexivity.
Qed.

Lemma pushes_many_cons : forall cfg pr b t bs ts,
  pushes_at cfg pr b t -> pushes_many cfg pr bs ts -> pushes_many cfg pr (b ++ bs) (t :: ts).
Proof.
  intros cfg pr b t bs ts Hb Hbs i st rest Hpr.
  rewrite <- app_assoc.
  destruct (Hb i st (bs ++ rest) Hpr) as [i1 [st1 [x [E1 [S1 [T1 [M1 [P1 H1]]]]]]]].
  destruct (Hbs i1 st1 rest (eq_trans P1 Hpr)) as [i2 [st2 [xs [E2 [S2 [T2 [M2 [P2 H2]]]]]]]].
  exists i2, st2, (x :: xs). split; [eapply exec_trans; eassumption|].
  repeat split.
  - rewrite S2, S1. cbn [rev]. rewrite <- app_assoc. reflexivity.
  - cbn [map_opt]. rewrite T1, T2. reflexivity.
  - congruence.
  - congruence.
  - congruence.
Qed.

Lemma map_opt_no_mark : forall xs ts, map_opt erase xs = Some ts -> existsb is_mark xs = false.
Proof.
  induction xs as [|x t IH]; intros ts H; [reflexivity|]. cbn in *.
  destruct (erase x) as [tx|] eqn:E; [|discriminate]. destruct (map_opt erase t) as [tt|] eqn:Et; [|discriminate].
  rewrite (erase_not_mark x tx E). cbn. apply (IH tt eq_refl).
Qed.

Lemma existsb_rev : forall A (f : A -> bool) l, existsb f (rev l) = existsb f l.
Proof.
  intros A f l. induction l as [|x t IH]; [reflexivity|]. cbn [rev]. rewrite existsb_app, IH. cbn.
  rewrite orb_false_r. apply orb_comm.
Qed.

Lemma split_mark_app : forall l S, existsb is_mark l = false -> split_mark (l ++ VMark :: S) = Some (l, S).
Proof.
  induction l as [|v t IH]; intros S H; cbn [app split_mark].
  - reflexivity.
  - cbn in H. apply orb_false_iff in H. destruct H as [Hv Ht]. rewrite Hv, (IH S Ht). reflexivity.
Qed.

Lemma erase_class_inv : forall x m n, erase x = Some (TClass m n) -> x = VClass m n.
Proof.
  intros x m n H. destruct x; cbn in H; try discriminate;
    try (match type of H with option_map _ ?e = _ => destruct e; discriminate end).
  inversion H; reflexivity.
Qed.
Lemma erase_str_inv : forall x s, erase x = Some (TStr s) -> x = VStr s.
Proof.
  intros x s H. destruct x; cbn in H; try discriminate;
    try (match type of H with option_map _ ?e = _ => destruct e; discriminate end).
  inversion H; reflexivity.
Qed.
Lemma erase_tuple_inv : forall x ts, erase x = Some (TTuple ts) ->
  exists l, x = VTuple l /\ map_opt erase l = Some ts.
Proof.
  intros x ts H. destruct x; cbn in H; try discriminate;
    try (match type of H with option_map _ ?e = _ => destruct e eqn:E; try discriminate end).
  inversion H; subst. eexists. split; [reflexivity|exact E].
Qed.

(* ---- containers ------------------------------------------------------------------------------------- *)

Lemma push_mark_tuple : forall cfg pr bs ts,
  pushes_many cfg pr bs ts -> pushes_at cfg pr (x28 :: bs ++ [x74]) (TTuple ts).
Proof.
  intros cfg pr bs ts H i st rest Hpr. cbn [app]. rewrite <- app_assoc. cbn [app].
  destruct (H (i + 1) (push VMark st) (x74 :: rest) Hpr) as [i1 [st1 [xs [E1 [S1 [T1 [M1 [P1 H1]]]]]]]].
  pose proof (map_opt_no_mark xs ts T1) as NM.
  assert (SM : split_mark (d_stack st1) = Some (rev xs, d_stack st)).
  { rewrite S1. cbn [push set_stack d_stack]. apply split_mark_app. rewrite existsb_rev. exact NM. }
  eexists; eexists; eexists. split.
  - eapply exec_step; [reflexivity|reflexivity|reflexivity|].
    eapply exec_trans; [exact E1|]. eapply exec_one; [reflexivity|reflexivity|].
    cbn [handler]. rewrite SM. reflexivity.
  - cbn [set_stack d_stack d_memo d_proto d_heap]. rewrite rev_involutive. repeat split; try assumption.
    cbn [erase]. rewrite T1. reflexivity.
Qed.

Lemma push_empty_tuple : forall cfg, pushes cfg [x29] (TTuple []).
Proof. intros cfg i st rest. eexists; eexists; eexists. split; [eapply exec_one; reflexivity|repeat split; reflexivity]. Qed.

Lemma firstn_rev_app : forall A (xs S : list A), firstn (length xs) (rev xs ++ S) = rev xs.
Proof.
  intros. rewrite <- (rev_length xs). rewrite firstn_app, Nat.sub_diag, firstn_all. cbn. apply app_nil_r.
Qed.
Lemma skipn_rev_app : forall A (xs S : list A), skipn (length xs) (rev xs ++ S) = S.
Proof.
  intros. rewrite <- (rev_length xs). rewrite skipn_app, Nat.sub_diag, skipn_all. reflexivity.
Qed.

Lemma map_opt_length : forall xs ts, map_opt erase xs = Some ts -> length xs = length ts.
Proof.
  induction xs as [|x t IH]; intros ts H; cbn in *; [inversion H; reflexivity|].
  destruct (erase x); [|discriminate]. destruct (map_opt erase t) eqn:E; [|discriminate].
  inversion H; subst. cbn. f_equal. apply IH. reflexivity.
Qed.

Lemma push_tuple_n : forall cfg pr bs ts n op,
  (n = 1%nat /\ op = x85) \/ (n = 2%nat /\ op = x86) \/ (n = 3%nat /\ op = x87) ->
  length ts = n -> pushes_many cfg pr bs ts -> pushes_at cfg pr (bs ++ [op]) (TTuple ts).
Proof.
  intros cfg pr bs ts n op Hn Hl H i st rest Hpr. rewrite <- app_assoc. cbn [app].
  destruct (H i st (op :: rest) Hpr) as [i1 [st1 [xs [E1 [S1 [T1 [M1 [P1 H1]]]]]]]].
  pose proof (map_opt_length xs ts T1) as L. pose proof (map_opt_no_mark xs ts T1) as NM.
  assert (R : forall k, k = n ->
            run (tuple_n st1 k) rest = (Ok (HOk (set_stack st1 (VTuple xs :: d_stack st))), rest)).
  { intros k ->. unfold tuple_n. rewrite S1. rewrite <- Hl, <- L.
    rewrite app_length, rev_length.
    assert (Hlt : Nat.ltb (length xs + length (d_stack st)) (length xs) = false) by (apply Nat.ltb_ge; lia).
    rewrite Hlt, firstn_rev_app, skipn_rev_app, existsb_rev, NM, rev_involutive. reflexivity. }
  eexists; eexists; eexists. split.
  - eapply exec_trans; [exact E1|].
    destruct Hn as [[-> ->]|[[-> ->]|[-> ->]]];
      (eapply exec_one; [reflexivity|reflexivity|cbn [handler]; apply R; reflexivity]).
  - cbn [set_stack d_stack d_memo d_proto d_heap]. repeat split; try assumption.
    cbn [erase]. rewrite T1. reflexivity.
Qed.

Lemma push_mark_list : forall cfg pr bs ts,
  pushes_many cfg pr bs ts -> pushes_at cfg pr (x28 :: bs ++ [x6c]) (TList ts).
Proof.
  intros cfg pr bs ts H i st rest Hpr. cbn [app]. rewrite <- app_assoc. cbn [app].
  destruct (H (i + 1) (push VMark st) (x6c :: rest) Hpr) as [i1 [st1 [xs [E1 [S1 [T1 [M1 [P1 H1]]]]]]]].
  pose proof (map_opt_no_mark xs ts T1) as NM.
  assert (SM : split_mark (d_stack st1) = Some (rev xs, d_stack st)).
  { rewrite S1. cbn [push set_stack d_stack]. apply split_mark_app. rewrite existsb_rev. exact NM. }
  eexists; eexists; eexists. split.
  - eapply exec_step; [reflexivity|reflexivity|reflexivity|].
    eapply exec_trans; [exact E1|]. eapply exec_one; [reflexivity|reflexivity|].
    cbn [handler]. rewrite SM. reflexivity.
  - cbn [fresh set_len set_stack d_stack d_memo d_proto d_heap fst snd]. rewrite rev_involutive.
    repeat split; try assumption. cbn [erase]. rewrite T1. reflexivity.
Qed.

Lemma push_empty_list : forall cfg, pushes cfg [x5d] (TList []).
Proof. intros cfg i st rest. eexists; eexists; eexists. split; [eapply exec_one; reflexivity|repeat split; reflexivity]. Qed.

(* class on the stack, then an argument tuple, then REDUCE: a symbolic Call unless the class is one
   of the two callables og-rek translates *)
Definition plain_class (m n : bytes) : Prop :=
  (bytes_eqb m (bs "_codecs") && bytes_eqb n (bs "encode")) = false /\ bytes_eqb n (bs "bytearray") = false.

Lemma push_reduce : forall cfg pr bc m n bt ts,
  plain_class m n -> pushes_at cfg pr bc (TClass m n) -> pushes_at cfg pr bt (TTuple ts) ->
  pushes_at cfg pr (bc ++ bt ++ [x52]) (TCall m n ts).
Proof.
  intros cfg pr bc m n bt ts [PC1 PC2] Hc Ht i st rest Hpr. rewrite <- !app_assoc. cbn [app].
  destruct (Hc i st (bt ++ x52 :: rest) Hpr) as [i1 [st1 [xc [E1 [S1 [T1 [M1 [P1 H1]]]]]]]].
  destruct (Ht i1 st1 (x52 :: rest) (eq_trans P1 Hpr)) as [i2 [st2 [xt [E2 [S2 [T2 [M2 [P2 H2]]]]]]]].
  apply erase_class_inv in T1. subst xc.
  apply erase_tuple_inv in T2. destruct T2 as [l [-> El]].
  eexists; eexists; eexists. split.
  - eapply exec_trans; [exact E1|]. eapply exec_trans; [exact E2|].
    eapply exec_one; [reflexivity|reflexivity|].
    cbn [handler]. rewrite S2, S1. cbv beta iota zeta. unfold do_reduce. rewrite PC1, PC2, andb_false_r. reflexivity.
  - cbn [push set_stack d_stack d_memo d_proto d_heap]. repeat split; try congruence.
    cbn [erase]. rewrite El. reflexivity.
Qed.

Lemma push_binpersid : forall pd su pr bp t,
  pushes_at (Build_dconfig pd su None) pr bp t -> pushes_at (Build_dconfig pd su None) pr (bp ++ [x51]) (TRef t).
Proof.
  intros pd su pr bp t Hp i st rest Hpr. rewrite <- app_assoc. cbn [app].
  destruct (Hp i st (x51 :: rest) Hpr) as [i1 [st1 [x [E1 [S1 [T1 [M1 [P1 H1]]]]]]]].
  eexists; eexists; eexists. split.
  - eapply exec_trans; [exact E1|]. eapply exec_one; [reflexivity|reflexivity|].
    cbn [handler]. rewrite S1, (erase_not_mark x t T1). reflexivity.
  - cbn [push set_stack d_stack d_memo d_proto d_heap]. repeat split; try assumption.
    cbn [erase]. rewrite T1. reflexivity.
Qed.

Lemma push_stack_global : forall cfg pr bm bn m n,
  pushes_at cfg pr bm (TStr m) -> pushes_at cfg pr bn (TStr n) -> pushes_at cfg pr (bm ++ bn ++ [x93]) (TClass m n).
Proof.
  intros cfg pr bm bn m n Hm Hn i st rest Hpr. rewrite <- !app_assoc. cbn [app].
  destruct (Hm i st (bn ++ x93 :: rest) Hpr) as [i1 [st1 [xm [E1 [S1 [T1 [M1 [P1 H1]]]]]]]].
  destruct (Hn i1 st1 (x93 :: rest) (eq_trans P1 Hpr)) as [i2 [st2 [xn [E2 [S2 [T2 [M2 [P2 H2]]]]]]]].
  apply erase_str_inv in T1. subst xm. apply erase_str_inv in T2. subst xn.
  eexists; eexists; eexists. split.
  - eapply exec_trans; [exact E1|]. eapply exec_trans; [exact E2|].
    eapply exec_one; [reflexivity|reflexivity|]. cbn [handler]. rewrite S2, S1. reflexivity.
  - cbn [push set_stack d_stack d_memo d_proto d_heap]. repeat split; congruence.
Qed.

(* ---- the two callables og-rek translates: _codecs.encode(text, 'latin1') and bytearray(bytes) ---- *)

Lemma decode_latin1_l1 : forall s, decode_latin1 (VStr (latin1_to_utf8 s)) = Some s.
Proof.
  intros s. unfold decode_latin1. change (latin1_to_utf8 s) with (l1 s). rewrite utf8_runes_latin1.
  assert (F : forallb (fun r => r <? 256) (map b2N s) = true).
  { apply forallb_forall. intros r Hr. apply in_map_iff in Hr. destruct Hr as [b [<- _]].
    apply N.ltb_lt. apply b2N_lt. }
  cbv zeta. rewrite F. f_equal. rewrite map_map. rewrite <- (map_id s) at 2. apply map_ext. apply N2b_b2N.
Qed.

Lemma erase_bstr_inv : forall x s, erase x = Some (TBStr s) -> x = VBStr s.
Proof.
  intros x s H. destruct x; cbn in H; try discriminate;
    try (match type of H with option_map _ ?e = _ => destruct e; discriminate end).
  inversion H; reflexivity.
Qed.
Lemma erase_bytes_inv : forall x s, erase x = Some (TBytes s) -> x = VBytes s.
Proof.
  intros x s H. destruct x; cbn in H; try discriminate;
    try (match type of H with option_map _ ?e = _ => destruct e; discriminate end).
  inversion H; reflexivity.
Qed.

Lemma map_opt_erase_two : forall l a b, map_opt erase l = Some [a; b] ->
  exists x y, l = [x; y] /\ erase x = Some a /\ erase y = Some b.
Proof.
  intros l a b H. destruct l as [|x [|y [|z r]]]; cbn in H; try discriminate.
  - destruct (erase x); discriminate.
  - destruct (erase x) as [tx|] eqn:Ex; [|discriminate]. destruct (erase y) as [ty|] eqn:Ey; [|discriminate].
    inversion H; subst. exists x, y. repeat split; assumption.
  - destruct (erase x); [|discriminate]. destruct (erase y); [|discriminate]. destruct (erase z); [|discriminate].
    destruct (map_opt erase r); discriminate.
Qed.
Lemma map_opt_erase_one : forall l a, map_opt erase l = Some [a] -> exists x, l = [x] /\ erase x = Some a.
Proof.
  intros l a H. destruct l as [|x [|y r]]; cbn in H; try discriminate.
  - destruct (erase x) as [tx|] eqn:Ex; [|discriminate]. inversion H; subst. exists x. split; [reflexivity|exact Ex].
  - destruct (erase x); [|discriminate]. destruct (erase y); [|discriminate]. destruct (map_opt erase r); discriminate.
Qed.

Lemma push_reduce_codecs : forall cfg pr bc bt u tl data,
  pushes_at cfg pr bc (TClass (bs "_codecs") (bs "encode")) ->
  pushes_at cfg pr bt (TTuple [TStr u; tl]) ->
  tl = TStr (bs "latin1") \/ tl = TBStr (bs "latin1") ->
  decode_latin1 (VStr u) = Some data ->
  pushes_at cfg pr (bc ++ bt ++ [x52]) (TBytes data).
Proof.
  intros cfg pr bc bt u tl data Hc Ht Htl HD i st rest Hpr. rewrite <- !app_assoc. cbn [app].
  destruct (Hc i st (bt ++ x52 :: rest) Hpr) as [i1 [st1 [xc [E1 [S1 [T1 [M1 [P1 H1]]]]]]]].
  destruct (Ht i1 st1 (x52 :: rest) (eq_trans P1 Hpr)) as [i2 [st2 [xt [E2 [S2 [T2 [M2 [P2 H2]]]]]]]].
  apply erase_class_inv in T1. subst xc.
  apply erase_tuple_inv in T2. destruct T2 as [l [-> El]].
  apply map_opt_erase_two in El. destruct El as [x [y [-> [Ex Ey]]]].
  apply erase_str_inv in Ex. subst x.
  assert (SE : string_eq y (bs "latin1") = true).
  { destruct Htl as [-> | ->]; [apply erase_str_inv in Ey|apply erase_bstr_inv in Ey]; subst y; reflexivity. }
  eexists; eexists; eexists. split.
  - eapply exec_trans; [exact E1|]. eapply exec_trans; [exact E2|].
    eapply exec_one; [reflexivity|reflexivity|].
    cbn [handler]. rewrite S2, S1. cbv beta iota zeta. unfold do_reduce.
    rewrite !bytes_eqb_refl. cbn [length Nat.eqb nth andb]. rewrite SE, HD. reflexivity.
  - cbn [push set_stack d_stack d_memo d_proto d_heap]. repeat split; congruence.
Qed.

Lemma pybuiltin_not_codecs : forall pr, bytes_eqb (pybuiltin_module pr) (bs "_codecs") = false.
Proof. intros pr. unfold pybuiltin_module. destruct (pr <=? 2); reflexivity. Qed.

Lemma push_reduce_bytearray : forall cfg pr bc bt data,
  pushes_at cfg pr bc (TClass (pybuiltin_module pr) (bs "bytearray")) ->
  pushes_at cfg pr bt (TTuple [TBytes data]) ->
  pushes_at cfg pr (bc ++ bt ++ [x52]) (TBArr data).
Proof.
  intros cfg pr bc bt data Hc Ht i st rest Hpr. rewrite <- !app_assoc. cbn [app].
  destruct (Hc i st (bt ++ x52 :: rest) Hpr) as [i1 [st1 [xc [E1 [S1 [T1 [M1 [P1 H1]]]]]]]].
  destruct (Ht i1 st1 (x52 :: rest) (eq_trans P1 Hpr)) as [i2 [st2 [xt [E2 [S2 [T2 [M2 [P2 H2]]]]]]]].
  apply erase_class_inv in T1. subst xc.
  apply erase_tuple_inv in T2. destruct T2 as [l [-> El]].
  apply map_opt_erase_one in El. destruct El as [x [-> Ex]].
  apply erase_bytes_inv in Ex. subst x.
  eexists; eexists; eexists. split.
  - eapply exec_trans; [exact E1|]. eapply exec_trans; [exact E2|].
    eapply exec_one; [reflexivity|reflexivity|].
    cbn [handler]. rewrite S2, S1. cbv beta iota zeta. unfold do_reduce.
    rewrite pybuiltin_not_codecs. cbn [andb set_stack d_proto].
    rewrite P2, P1, Hpr, !bytes_eqb_refl. reflexivity.
  - cbn [push set_stack d_stack d_memo d_proto d_heap]. repeat split; congruence.
Qed.

(* ---- Part 3: every encoder function, then the value by structural induction ------------------- *)

Lemma push_binpersid_h : forall pd su load g pr bp t, hook_spec load g ->
  pushes_at (Build_dconfig pd su load) pr bp t -> pushes_at (Build_dconfig pd su load) pr (bp ++ [x51]) (g t).
Proof.
  intros pd su load g pr bp t HL Hp i st rest Hpr. rewrite <- app_assoc. cbn [app].
  destruct (Hp i st (x51 :: rest) Hpr) as [i1 [st1 [x [E1 [S1 [T1 [M1 [P1 H1]]]]]]]].
  destruct load as [f|]; cbn [hook_spec] in HL.
  - destruct (HL (Nlen (d_log (set_stack st1 (d_stack st)))) x t T1) as [[Hf Hg]|[o [Hf Ho]]].
    + eexists; eexists; eexists. split.
      * eapply exec_trans; [exact E1|]. eapply exec_one; [reflexivity|reflexivity|].
        cbn [handler]. rewrite S1, (erase_not_mark x t T1). unfold handle_ref. cbn [c_load]. rewrite Hf. reflexivity.
      * cbn [push add_log set_stack d_stack d_memo d_proto d_heap]. repeat split; try assumption.
        rewrite Hg. cbn [erase]. rewrite T1. reflexivity.
    + eexists; eexists; eexists. split.
      * eapply exec_trans; [exact E1|]. eapply exec_one; [reflexivity|reflexivity|].
        cbn [handler]. rewrite S1, (erase_not_mark x t T1). unfold handle_ref. cbn [c_load]. rewrite Hf. reflexivity.
      * cbn [push add_log set_stack d_stack d_memo d_proto d_heap]. repeat split; assumption.
  - eexists; eexists; eexists. split.
    + eapply exec_trans; [exact E1|]. eapply exec_one; [reflexivity|reflexivity|].
      cbn [handler]. rewrite S1, (erase_not_mark x t T1). reflexivity.
    + cbn [push set_stack d_stack d_memo d_proto d_heap]. repeat split; try assumption.
      rewrite HL. cbn [erase]. rewrite T1. reflexivity.
Qed.

Lemma push_persid_h : forall pd su load g pr s, hook_spec load g -> no_lf s ->
  pushes_at (Build_dconfig pd su load) pr (x50 :: s ++ [x0a]) (g (TStr s)).
Proof.
  intros pd su load g pr s HL Hs i st rest Hpr. cbn [app]. rewrite <- app_assoc. cbn [app].
  destruct load as [f|]; cbn [hook_spec] in HL.
  - destruct (HL (Nlen (d_log st)) (VStr s) (TStr s) eq_refl) as [[Hf Hg]|[o [Hf Ho]]].
    + eexists; eexists; eexists. split.
      * eapply exec_one; [reflexivity|reflexivity|].
        cbn [handler run]. rewrite (split_line_exact s rest Hs). unfold handle_ref. cbn [c_load]. rewrite Hf. reflexivity.
      * cbn [push add_log set_stack d_stack d_memo d_proto d_heap]. repeat split; try reflexivity.
        rewrite Hg. reflexivity.
    + eexists; eexists; eexists. split.
      * eapply exec_one; [reflexivity|reflexivity|].
        cbn [handler run]. rewrite (split_line_exact s rest Hs). unfold handle_ref. cbn [c_load]. rewrite Hf. reflexivity.
      * cbn [push add_log set_stack d_stack d_memo d_proto d_heap]. repeat split; try reflexivity. exact Ho.
  - eexists; eexists; eexists. split.
    + eapply exec_one; [reflexivity|reflexivity|].
      cbn [handler run]. rewrite (split_line_exact s rest Hs). reflexivity.
    + cbn [push set_stack d_stack d_memo d_proto d_heap]. repeat split; try reflexivity.
      rewrite HL. reflexivity.
Qed.

Section RT.
  Variable c : econfig.
  Variable pd : bool.
  Variable load : option (N -> val -> load_result).
  Variable g : tval -> tval.
  Hypothesis HL : hook_spec load g.
  Let cfg := dcfg_h c pd load.

  (* the protocol the decoder has been told by the PROTO opcode Encode emits (none below 2) *)
  Definition dproto_of : N := if (2 <=? e_proto c)%Z then Z.to_N (e_proto c) else 0.
  Let pr := dproto_of.

  Definition good (p : wprog) (t : tval) : Prop := wok p /\ pushes_at cfg pr (wout p) t.
  Definition good_many (p : wprog) (ts : list tval) : Prop := wok p /\ pushes_many cfg pr (wout p) ts.

  Lemma good_emit : forall b t, pushes cfg b t -> good (emit b) t.
  Proof. intros b t H. split; [apply wok_emit|rewrite wout_emit; apply pushes_any; exact H]. Qed.

  Lemma good_emit2 : forall a s t, pushes cfg (a ++ s) t -> good (wseq (emit a) (emit s)) t.
  Proof.
    intros a s t H. split; [apply wok_wseq; apply wok_emit|].
    rewrite wout_wseq by apply wok_emit. rewrite !wout_emit. apply pushes_any. exact H.
  Qed.

  Lemma rt_bool : forall b, good (enc_bool c b) (TBool b).
  Proof.
    intros b. unfold enc_bool. destruct (2 <=? e_proto c)%Z; apply good_emit;
      [apply push_newbool|apply push_textbool].
  Qed.

  Lemma rt_int : forall z, in_int64 z = true -> good (enc_int c z) (TInt z).
  Proof.
    intros z Hz. unfold enc_int.
    destruct ((1 <=? e_proto c)%Z && (0 <=? z)%Z && (z <=? 255)%Z) eqn:E1.
    { apply good_emit. apply push_binint1.
      apply andb_true_iff in E1. destruct E1 as [E1 E3]. apply andb_true_iff in E1. destruct E1 as [_ E2].
      apply Z.leb_le in E2, E3. lia. }
    destruct ((1 <=? e_proto c)%Z && (0 <=? z)%Z && (z <=? 65535)%Z) eqn:E2.
    { apply good_emit. apply push_binint2.
      apply andb_true_iff in E2. destruct E2 as [E2 E4]. apply andb_true_iff in E2. destruct E2 as [_ E3].
      apply Z.leb_le in E3, E4. lia. }
    destruct ((1 <=? e_proto c)%Z && (-2147483648 <=? z)%Z && (z <=? 2147483647)%Z) eqn:E3.
    { apply good_emit. apply push_binint.
      apply andb_true_iff in E3. destruct E3 as [E3 E5]. apply andb_true_iff in E3. destruct E3 as [_ E4].
      apply Z.leb_le in E4, E5. lia. }
    apply good_emit. pose proof (push_int_text cfg z) as P. rewrite Hz in P. exact P.
  Qed.

  Lemma in_int64_small : forall z, (0 <= z <= int64_max)%Z -> in_int64 z = true.
  Proof.
    intros z H. unfold in_int64. apply andb_true_iff. split; apply Z.leb_le; [|lia].
    unfold int64_min. unfold int64_max in H. lia.
  Qed.

  Lemma rt_uint : forall z, (0 <= z)%Z ->
    good (enc_uint c z) (if (z <=? int64_max)%Z then TInt z else TBig z).
  Proof.
    intros z Hz. unfold enc_uint. destruct (z <=? int64_max)%Z eqn:E.
    - apply rt_int. apply in_int64_small. apply Z.leb_le in E. lia.
    - apply good_emit. pose proof (push_int_text cfg z) as P.
      assert (N : in_int64 z = false).
      { unfold in_int64. apply andb_false_iff. right. exact E. }
      rewrite N in P. exact P.
  Qed.

  Lemma rt_long : forall z, good (enc_long z) (TBig z).
  Proof. intros z. apply good_emit. apply push_long_text. Qed.

  Lemma rt_float : forall f, float_fits c f = true -> good (enc_float c f) (TFloat f).
  Proof.
    intros f H. unfold float_fits in H. unfold enc_float. destruct (1 <=? e_proto c)%Z.
    - apply N.ltb_lt in H. apply good_emit. apply push_binfloat. exact H.
    - unfold fmtg_ok in H. destruct (parse_float (e_fmtg c f)) as [b| |] eqn:P; try discriminate.
      apply andb_true_iff in H. destruct H as [Hb Hn]. apply N.eqb_eq in Hb. subst b.
      apply good_emit. apply pushes_of_leaf. apply push_float_text_leaf; [exact Hn|exact P].
  Qed.

  Lemma rt_bytestring : forall s, (1 <= e_proto c)%Z -> Nlen s < 4294967296 ->
    good (enc_bytestring c s) (if e_strict c then TBStr s else TStr s).
  Proof.
    intros s Hp Hl. unfold enc_bytestring. apply Z.leb_le in Hp. rewrite Hp. cbv zeta.
    destruct (Nlen s <? 256) eqn:E.
    - apply good_emit2. apply N.ltb_lt in E. exact (push_short_binstring cfg s E).
    - apply good_emit2. exact (push_binstring cfg s Hl).
  Qed.

  Lemma rt_unicode : forall s, (1 <= e_proto c)%Z -> Nlen s < 4294967296 ->
    good (enc_unicode c s) (TStr s).
  Proof.
    intros s Hp Hl. unfold enc_unicode. apply Z.leb_le in Hp. rewrite Hp. cbv zeta.
    destruct ((Nlen s <? 256) && (4 <=? e_proto c)%Z) eqn:E.
    - apply good_emit2. apply andb_true_iff in E. destruct E as [E _]. apply N.ltb_lt in E.
      exact (push_short_binunicode cfg s E).
    - apply good_emit2. exact (push_binunicode cfg s Hl).
  Qed.

  (* protocol 0 included *)
  Lemma rt_unicode' : forall s, uni_fits c s = true -> good (enc_unicode c s) (TStr s).
  Proof.
    intros s H. unfold uni_fits in H. destruct (1 <=? e_proto c)%Z eqn:Hp.
    - apply Z.leb_le in Hp. unfold len32 in H. apply N.ltb_lt in H. exact (rt_unicode s Hp H).
    - unfold enc_unicode. rewrite Hp. cbv zeta. destruct (pyencode_raw_unicode_escape s) as [e|] eqn:E; [|discriminate].
      destruct (rue_roundtrip s e E) as [D Nl]. apply good_emit. apply pushes_of_leaf.
      apply push_unicode_text_leaf; assumption.
  Qed.

  Lemma rt_bytestring' : forall s, bstr_fits c s = true -> good (enc_bytestring c s) (bstr_t c s).
  Proof.
    intros s H. unfold bstr_fits in H. destruct (1 <=? e_proto c)%Z eqn:Hp.
    - apply Z.leb_le in Hp. unfold len32 in H. apply N.ltb_lt in H. exact (rt_bytestring s Hp H).
    - unfold enc_bytestring. rewrite Hp. cbv zeta. apply good_emit.
      exact (pushes_of_leaf _ _ _ (push_string_quoted_leaf cfg (e_isprint c) s)).
  Qed.

  Lemma rt_string : forall s, (1 <= e_proto c)%Z -> Nlen s < 4294967296 ->
    good (enc_string c s) (TStr s).
  Proof.
    intros s Hp Hl. unfold enc_string. destruct (e_strict c) eqn:Es; cbn [orb].
    - apply rt_unicode; assumption.
    - destruct (3 <=? e_proto c)%Z; [apply rt_unicode; assumption|].
      pose proof (rt_bytestring s Hp Hl) as R. rewrite Es in R. exact R.
  Qed.

  Lemma rt_string' : forall s, str_fits c s = true -> good (enc_string c s) (TStr s).
  Proof.
    intros s H. unfold str_fits in H. unfold enc_string. destruct (e_strict c || (3 <=? e_proto c)%Z) eqn:E.
    - apply rt_unicode'. exact H.
    - apply orb_false_iff in E. destruct E as [Es _]. pose proof (rt_bytestring' s H) as R.
      unfold bstr_t in R. rewrite Es in R. exact R.
  Qed.

  Lemma has_lf_no_lf : forall s, has_lf s = false -> no_lf s.
  Proof.
    intros s H. unfold no_lf. unfold has_lf in H. induction s as [|b t IH]; [reflexivity|].
    cbn in *. apply orb_false_iff in H. destruct H as [Hb Ht]. rewrite Hb. cbn. apply IH. exact Ht.
  Qed.

  Lemma good_seq3 : forall p q r bp bq br t,
    wok p -> wok q -> wok r -> wout p = bp -> wout q = bq -> wout r = br ->
    pushes_at cfg pr (bp ++ bq ++ br) t -> good (wseq p (wseq q r)) t.
  Proof.
    intros p q r bp bq br t Hp Hq Hr Ep Eq Er H. split.
    - apply wok_wseq; [assumption|apply wok_wseq; assumption].
    - rewrite wout_wseq; [|assumption|apply wok_wseq; assumption]. rewrite wout_wseq by assumption.
      rewrite Ep, Eq, Er. exact H.
  Qed.

  Lemma rt_class : forall m n, class_ok c m n = true -> good (enc_class c m n) (TClass m n).
  Proof.
    intros m n H. unfold class_ok in H. unfold enc_class. destruct (4 <=? e_proto c)%Z eqn:E4.
    - apply andb_true_iff in H. destruct H as [Hm Hn]. unfold len32 in *. apply N.ltb_lt in Hm, Hn.
      apply Z.leb_le in E4. assert (Hp : (1 <= e_proto c)%Z) by lia.
      destruct (rt_string m Hp Hm) as [Wm Pm]. destruct (rt_string n Hp Hn) as [Wn Pn].
      apply (good_seq3 _ _ _ _ _ _ _ Wm Wn (wok_emit _) eq_refl eq_refl (wout_emit _)).
      apply push_stack_global; assumption.
    - apply negb_true_iff in H. rewrite H. apply orb_false_iff in H. destruct H as [Hm Hn].
      apply good_emit. apply push_global; apply has_lf_no_lf; assumption.
  Qed.

  Lemma rt_wrap_tuple : forall items ts n, length ts = n -> good_many items ts ->
    good (wrap_tuple c n items) (TTuple ts).
  Proof.
    intros items ts n Hl [W P]. unfold wrap_tuple.
    destruct ((2 <=? e_proto c)%Z && Nat.leb 1 n && Nat.leb n 3) eqn:E.
    { apply andb_true_iff in E. destruct E as [E E3]. apply andb_true_iff in E. destruct E as [_ E1].
      apply Nat.leb_le in E1, E3. split; [apply wok_wseq; [exact W|apply wok_emit]|].
      rewrite wout_wseq; [|exact W|apply wok_emit]. rewrite wout_emit.
      eapply push_tuple_n; [|exact Hl|exact P].
      destruct n as [|[|[|[|n]]]]; try lia; [left|right; left|right; right]; split; reflexivity. }
    destruct ((1 <=? e_proto c)%Z && Nat.eqb n 0) eqn:E0.
    { apply andb_true_iff in E0. destruct E0 as [_ E0]. apply Nat.eqb_eq in E0. subst n.
      destruct ts; [|discriminate]. apply good_emit. apply push_empty_tuple. }
    apply (good_seq3 _ _ _ _ _ _ _ (wok_emit _) W (wok_emit _) (wout_emit _) eq_refl (wout_emit _)).
    cbn [app]. apply push_mark_tuple. exact P.
  Qed.

  Lemma rt_wrap_call : forall m n k args ts,
    class_ok c m n = true -> plain_classb m n = true -> length ts = k -> good_many args ts ->
    good (wrap_call c m n k args) (TCall m n ts).
  Proof.
    intros m n k args ts Hc Hp Hl Ha. unfold wrap_call.
    destruct (rt_class m n Hc) as [Wc Pc]. destruct (rt_wrap_tuple args ts k Hl Ha) as [Wt Pt].
    apply (good_seq3 _ _ _ _ _ _ _ Wc Wt (wok_emit _) eq_refl eq_refl (wout_emit _)).
    apply push_reduce; try assumption.
    unfold plain_classb in Hp. apply andb_true_iff in Hp. destruct Hp as [H1 H2].
    apply negb_true_iff in H1, H2. split; assumption.
  Qed.

  Lemma pybuiltin_agree : pybuiltin_module pr = pybuiltin_mod c.
  Proof.
    unfold pr, dproto_of, pybuiltin_module, pybuiltin_mod.
    destruct (2 <=? e_proto c)%Z eqn:E2; destruct (e_proto c <=? 2)%Z eqn:E3.
    - assert (e_proto c = 2%Z) by lia. rewrite H. reflexivity.
    - assert (L : (Z.to_N (e_proto c) <=? 2) = false) by (apply N.leb_gt; lia). rewrite L. reflexivity.
    - reflexivity.
    - lia.
  Qed.

  Lemma class_ok_small : forall m n, Nlen m < 4294967296 -> Nlen n < 4294967296 ->
    has_lf m = false -> has_lf n = false -> class_ok c m n = true.
  Proof.
    intros m n Lm Ln Hm Hn. unfold class_ok, len32. destruct (4 <=? e_proto c)%Z.
    - apply andb_true_iff. split; apply N.ltb_lt; assumption.
    - rewrite Hm, Hn. reflexivity.
  Qed.

  Lemma rt_bytes : forall s, bytes_ok c s = true -> good (enc_bytes c s) (TBytes s).
  Proof.
    intros s H. unfold bytes_ok in H. unfold enc_bytes. destruct (3 <=? e_proto c)%Z eqn:E3; cbv zeta.
    - unfold len32 in H. apply N.ltb_lt in H. destruct (Nlen s <? 256) eqn:E.
      + apply good_emit2. apply N.ltb_lt in E. exact (push_short_binbytes cfg s E).
      + apply good_emit2. exact (push_binbytes cfg s H).
    - unfold wrap_call.
      assert (CO : class_ok c (bs "_codecs") (bs "encode") = true) by (apply class_ok_small; reflexivity).
      destruct (rt_class _ _ CO) as [Wc Pc].
      destruct (rt_unicode' (latin1_to_utf8 s) H) as [Wu Pu].
      assert (L6 : bstr_fits c (bs "latin1") = true) by (unfold bstr_fits; destruct (1 <=? e_proto c)%Z; reflexivity).
      destruct (rt_bytestring' (bs "latin1") L6) as [Wb Pb]. unfold bstr_t in Pb.
      set (tl := if e_strict c then TBStr (bs "latin1") else TStr (bs "latin1")) in *.
      assert (GM : good_many (wseq (enc_unicode c (latin1_to_utf8 s)) (enc_bytestring c (bs "latin1")))
                             [TStr (latin1_to_utf8 s); tl]).
      { split; [apply wok_wseq; assumption|]. rewrite wout_wseq by assumption.
        apply pushes_many_cons; [exact Pu|].
        rewrite <- (app_nil_r (wout (enc_bytestring c (bs "latin1")))).
        apply pushes_many_cons; [exact Pb|apply pushes_many_nil]. }
      destruct (rt_wrap_tuple _ [TStr (latin1_to_utf8 s); tl] 2%nat eq_refl GM) as [Wt Pt].
      apply (good_seq3 _ _ _ _ _ _ _ Wc Wt (wok_emit _) eq_refl eq_refl (wout_emit _)).
      eapply push_reduce_codecs; [exact Pc|exact Pt| |apply decode_latin1_l1].
      unfold tl. destruct (e_strict c); [right|left]; reflexivity.
  Qed.

  Lemma rt_bytearray : forall s, barr_ok c s = true -> good (enc_bytearray c s) (TBArr s).
  Proof.
    intros s H. unfold barr_ok in H. unfold enc_bytearray. destruct (5 <=? e_proto c)%Z eqn:E5.
    - apply N.ltb_lt in H. apply good_emit2. exact (push_bytearray8 cfg s H).
    - unfold wrap_call.
      assert (CO : class_ok c (pybuiltin_mod c) (bs "bytearray") = true).
      { unfold pybuiltin_mod. destruct (e_proto c <=? 2)%Z; apply class_ok_small; reflexivity. }
      destruct (rt_class _ _ CO) as [Wc Pc]. destruct (rt_bytes s H) as [Wb Pb].
      assert (GM : good_many (enc_bytes c s) [TBytes s]).
      { split; [exact Wb|]. rewrite <- (app_nil_r (wout (enc_bytes c s))).
        apply pushes_many_cons; [exact Pb|apply pushes_many_nil]. }
      destruct (rt_wrap_tuple _ [TBytes s] 1%nat eq_refl GM) as [Wt Pt].
      apply (good_seq3 _ _ _ _ _ _ _ Wc Wt (wok_emit _) eq_refl eq_refl (wout_emit _)).
      apply push_reduce_bytearray; [|exact Pt]. rewrite pybuiltin_agree. exact Pc.
  Qed.

  Lemma rt_ref : forall pid p t, (1 <= e_proto c)%Z -> good p t -> good (enc_ref c pid p) (g t).
  Proof.
    intros pid p t Hp [W P]. unfold enc_ref.
    assert (E : (e_proto c =? 0)%Z = false) by (apply Z.eqb_neq; lia). rewrite E.
    split; [apply wok_wseq; [exact W|apply wok_emit]|].
    rewrite wout_wseq; [|exact W|apply wok_emit]. rewrite wout_emit.
    unfold cfg, dcfg_h in *. apply push_binpersid_h; [exact HL|exact P].
  Qed.

  Definition encl : list rval -> wprog :=
    fix enc_list (l : list rval) : wprog :=
      match l with
      | [] => WDone
      | x :: t => wseq (enc c x) (enc_list t)
      end.

  Lemma rt_list_nil : good_many (encl []) [].
  Proof. change (encl []) with WDone. split; [apply wok_WDone|]. rewrite wout_WDone. apply pushes_many_nil. Qed.

  Lemma rt_list_cons : forall x r tx tr,
    good (enc c x) tx -> good_many (encl r) tr -> good_many (encl (x :: r)) (tx :: tr).
  Proof.
    intros x r tx tr [Wx Px] [Wr Pr]. change (encl (x :: r)) with (wseq (enc c x) (encl r)).
    split; [apply wok_wseq; assumption|]. rewrite wout_wseq by assumption. apply pushes_many_cons; assumption.
  Qed.

  Lemma norm_ref_inv : forall pid o t, norm_ref c pid o = Some t ->
    ((1 <= e_proto c)%Z /\ exists t0, o = Some t0 /\ t = TRef t0) \/
    (e_proto c = 0%Z /\ exists s, pid = RStr SPlain s /\ has_lf s = false /\ t = TRef (TStr s)).
  Proof.
    intros pid o t H. unfold norm_ref in H. destruct (1 <=? e_proto c)%Z eqn:E.
    - apply Z.leb_le in E. left. split; [exact E|]. destruct o as [t0|]; [|discriminate].
      inversion H. exists t0. split; reflexivity.
    - right. destruct pid as [ | |b|z|z|f|k|ty s|s|l|l|es|es| |m n|m n args|pid|z|fields|ts ref x]; try discriminate.
      destruct ty; try discriminate.
      destruct (has_lf s) eqn:L; [discriminate|]. cbn [orb] in H.
      destruct (e_proto c =? 0)%Z eqn:E0; [|discriminate]. apply Z.eqb_eq in E0. inversion H.
      subst t. split; [exact E0|]. exists s. repeat split. exact L.
  Qed.

  Lemma rt_ref0 : forall s p, e_proto c = 0%Z -> has_lf s = false ->
    good (enc_ref c (RStr SPlain s) p) (g (TStr s)).
  Proof.
    intros s p H0 L. unfold enc_ref. rewrite H0, L. cbn [Z.eqb].
    split; [apply wok_emit|rewrite wout_emit]. unfold cfg, dcfg_h. apply push_persid_h; [exact HL|apply has_lf_no_lf; exact L].
  Qed.

  Lemma map_opt_len : forall A B (f : A -> option B) l r, map_opt f l = Some r -> length r = length l.
  Proof.
    intros A B f. induction l as [|x t IH]; intros r H; cbn in H.
    - inversion H. reflexivity.
    - destruct (f x); [|discriminate]. destruct (map_opt f t) eqn:E; [|discriminate].
      inversion H; subst. cbn. f_equal. apply IH. reflexivity.
  Qed.

  (* the value: whatever norm predicts is what the encoder's bytes make the decoder push *)
  Theorem rt_enc : forall v t, norm c v = Some t -> good (enc c v) ((hmap g) t).
  Proof.
    fix IH 1. intros v t H.
    destruct v as [ | |b|z|z|f|k|ty s|s|l|l|es|es| |m n|m n args|pid|z|fields|ts ref x];
      cbn [norm] in H; try discriminate.
    - (* invalid *) inversion H; subst. apply good_emit. apply push_none.
    - (* nil pointer *) inversion H; subst. apply good_emit. apply push_none.
    - inversion H; subst. apply rt_bool.
    - destruct (in_int64 z) eqn:E; [|discriminate]. inversion H; subst. apply rt_int. exact E.
    - destruct (0 <=? z)%Z eqn:E; [|discriminate]. inversion H; subst.
      replace ((hmap g) (if (z <=? int64_max)%Z then TInt z else TBig z))
        with (if (z <=? int64_max)%Z then TInt z else TBig z) by (destruct (z <=? int64_max)%Z; reflexivity).
      apply rt_uint. apply Z.leb_le. exact E.
    - destruct (float_fits c f) eqn:E; [|discriminate]. inversion H; subst. apply rt_float. exact E.
    - (* strings *)
      destruct ty; cbn [enc];
        match type of H with (if ?b then _ else _) = _ => destruct b eqn:E; [|discriminate] end;
        inversion H; subst.
      + apply rt_string'. exact E.
      + apply rt_string'. exact E.
      + apply rt_unicode'. exact E.
      + apply rt_bytes; assumption.
      + replace ((hmap g) (bstr_t c s)) with (bstr_t c s) by (unfold bstr_t; destruct (e_strict c); reflexivity).
        apply rt_bytestring'. exact E.
    - (* bytearray *)
      destruct (barr_ok c s) eqn:E; [|discriminate]. inversion H; subst.
      cbn [enc]. apply rt_bytearray; assumption.
    - (* Tuple *)
      destruct (map_opt (norm c) l) as [ts|] eqn:E; [|discriminate]. inversion H; subst.
      cbn [enc hmap]. change (good (wrap_tuple c (length l) (encl l)) (TTuple (map (hmap g) ts))).
      apply rt_wrap_tuple; [rewrite map_length; apply (map_opt_len _ _ _ _ _ E)|].
      clear H. revert ts E. induction l as [|x r IHl]; intros ts0 E0; cbn in E0;
        [inversion E0; subst; apply rt_list_nil|].
        destruct (norm c x) as [tx|] eqn:Ex; [|discriminate].
        destruct (map_opt (norm c) r) as [tr|] eqn:Er; [|discriminate]. inversion E0; subst.
        cbn [map]. apply rt_list_cons; [apply IH; exact Ex|apply IHl; reflexivity].
    - (* List *)
      destruct (map_opt (norm c) l) as [ts|] eqn:E; [|discriminate]. inversion H; subst.
      cbn [enc hmap]. change (good (if (1 <=? e_proto c)%Z && Nat.eqb (length l) 0 then emit [x5d]
                               else wseq (emit [x28]) (wseq (encl l) (emit [x6c]))) (TList (map (hmap g) ts))).
      assert (G : good_many (encl l) (map (hmap g) ts)).
      { clear H. revert ts E. induction l as [|x r IHl]; intros ts0 E0; cbn in E0;
        [inversion E0; subst; apply rt_list_nil|].
        destruct (norm c x) as [tx|] eqn:Ex; [|discriminate].
        destruct (map_opt (norm c) r) as [tr|] eqn:Er; [|discriminate]. inversion E0; subst.
        cbn [map]. apply rt_list_cons; [apply IH; exact Ex|apply IHl; reflexivity]. }
      destruct ((1 <=? e_proto c)%Z && Nat.eqb (length l) 0) eqn:E0.
      + apply andb_true_iff in E0. destruct E0 as [_ E0]. apply Nat.eqb_eq in E0.
        destruct l; [|discriminate]. cbn in E. inversion E; subst. apply good_emit. apply push_empty_list.
      + destruct G as [W P].
        apply (good_seq3 _ _ _ _ _ _ _ (wok_emit _) W (wok_emit _) (wout_emit _) eq_refl (wout_emit _)).
        cbn [app]. apply push_mark_list. exact P.
    - (* None *) inversion H; subst. apply good_emit. apply push_none.
    - (* Class *) destruct (class_ok c m n) eqn:E; [|discriminate]. inversion H; subst. apply rt_class. exact E.
    - (* Call *)
      destruct (class_ok c m n && plain_classb m n) eqn:E; [|discriminate].
      destruct (map_opt (norm c) args) as [ts|] eqn:Ea; [|discriminate]. inversion H; subst.
      apply andb_true_iff in E. destruct E as [E1 E2].
      cbn [enc hmap]. change (good (wrap_call c m n (length args) (encl args)) (TCall m n (map (hmap g) ts))).
      apply rt_wrap_call; try assumption; [rewrite map_length; apply (map_opt_len _ _ _ _ _ Ea)|].
      clear H. revert ts Ea. induction args as [|x r IHl]; intros ts0 E0; cbn in E0;
        [inversion E0; subst; apply rt_list_nil|].
        destruct (norm c x) as [tx|] eqn:Ex; [|discriminate].
        destruct (map_opt (norm c) r) as [tr|] eqn:Er; [|discriminate]. inversion E0; subst.
        cbn [map]. apply rt_list_cons; [apply IH; exact Ex|apply IHl; reflexivity].
    - (* Ref *)
      apply norm_ref_inv in H. destruct H as [[Hp [t0 [E ->]]]|[H0 [s [-> [L ->]]]]]; cbn [enc hmap].
      + apply rt_ref; [exact Hp|]. apply IH. exact E.
      + apply rt_ref0; assumption.
    - (* big.Int *) inversion H; subst. apply rt_long.
    - (* Ptr *)
      cbn [enc]. destruct ts; [destruct ref as [pid|]|].
      + apply norm_ref_inv in H. destruct H as [[Hp [t0 [E ->]]]|[H0 [s [-> [L ->]]]]]; cbn [hmap].
        * apply rt_ref; [exact Hp|]. apply IH. exact E.
        * apply rt_ref0; assumption.
      + apply IH. exact H.
      + apply IH. exact H.
  Qed.
End RT.

(* ---- Part 4: Encoder.Encode then Decoder.Decode ------------------------------------------------ *)

Lemma output_is_wout : forall p, output p = wout p.
Proof. reflexivity. Qed.

Lemma b2N_Z2b_small : forall z, (0 <= z <= 255)%Z -> b2N (Z2b z) = Z.to_N z.
Proof.
  intros z H. unfold Z2b. rewrite Z.mod_small by lia. apply b2N_N2b. lia.
Qed.

(* For every value in the fragment (norm c v = Some t), every protocol 0..5, every decoder the
   caller may already have used (any prior state st), any PersistentLoad hook that satisfies
   hook_spec, and any bytes following the pickle:
   Encode succeeds, and Decode of its output returns a value whose identity-free content is
   hmap g t - t with every Ref replaced by what the hook makes of it - and leaves exactly the
   following bytes unread. *)
Theorem encode_decode_hooked : forall c pd load g v t st rest,
  hook_spec load g ->
  (0 <= e_proto c <= 5)%Z -> norm c v = Some t ->
  snd (run_w (encode c v) None) = EOk /\
  exists x st',
    decode (dcfg_h c pd load) st (output (encode c v) ++ rest) = ((Ok x, st'), rest) /\
    erase x = Some (hmap g t).
Proof.
  intros c pd load g v t st rest HL Hp Hn.
  destruct (rt_enc c pd load g HL v t Hn) as [W P].
  unfold encode.
  assert (E : negb ((0 <=? e_proto c)%Z && (e_proto c <=? 5)%Z) = false).
  { apply negb_false_iff. apply andb_true_iff. split; apply Z.leb_le; lia. }
  rewrite E.
  set (pre := if (2 <=? e_proto c)%Z then emit [x80; Z2b (e_proto c)] else WDone).
  assert (Wpre : wok pre) by (unfold pre; destruct (2 <=? e_proto c)%Z; [apply wok_emit|apply wok_WDone]).
  assert (Wtail : wok (wseq (enc c v) (emit [x2e]))) by (apply wok_wseq; [exact W|apply wok_emit]).
  split; [exact (wok_wseq _ _ Wpre Wtail)|].
  rewrite output_is_wout, (wout_wseq _ _ Wpre Wtail), (wout_wseq _ _ W (wok_emit _)), wout_emit.
  (* after the optional PROTO prefix the machine is in some state st1 at instruction i1 *)
  assert (X : exists i1 st1,
            exec (dcfg_h c pd load) 0 (start_state st)
                 (wout pre ++ (wout (enc c v) ++ [x2e]) ++ rest) i1 st1
                 ((wout (enc c v) ++ [x2e]) ++ rest) /\ d_stack st1 = [] /\ d_proto st1 = dproto_of c).
  { unfold pre. destruct (2 <=? e_proto c)%Z eqn:E2.
    - rewrite wout_emit. eexists; eexists. split.
      + cbn [app]. eapply exec_one; [reflexivity|reflexivity|].
        cbn [handler run]. rewrite b2N_Z2b_small by lia.
        assert (L : (5 <? Z.to_N (e_proto c)) = false) by (apply N.ltb_ge; lia).
        rewrite L. reflexivity.
      + unfold dproto_of. rewrite E2. split; reflexivity.
    - rewrite wout_WDone. eexists; eexists. split; [apply exec_refl|]. unfold dproto_of. rewrite E2. split; reflexivity. }
  destruct X as [i1 [st1 [X1 [S1 PR1]]]].
  rewrite <- !app_assoc in *.
  destruct (P i1 st1 ([x2e] ++ rest) PR1) as [i2 [st2 [x [E2 [S2 [T2 _]]]]]].
  exists x, (set_stack st2 []). split; [|exact T2].
  eapply exec_decode.
  - eapply exec_trans; [exact X1|exact E2].
  - rewrite S2, S1. reflexivity.
  - exact (erase_not_mark x _ T2).
Qed.

(* without a hook the content is unchanged *)
(* the harness's registry hook meets hook_spec *)
Lemma inv_hook_ok : hook_spec (Some inv_load) inv_g.
Proof.
  intros idx p t E. destruct p; cbn in E; try discriminate;
    try (inversion E; subst; left; split; reflexivity);
    try (match type of E with option_map _ ?e = _ => destruct e eqn:El; [|discriminate] end;
         inversion E; subst; try (left; split; reflexivity)).
  - inversion E; subst. right. eexists. split; reflexivity.
  - right. eexists. split; [reflexivity|]. cbn [inv_g erase]. unfold Nlen.
    rewrite (map_opt_length _ _ El). reflexivity.
Qed.

Lemma hmap_TRef : forall t, hmap TRef t = t.
Proof.
  fix IH 1. intros t.
  assert (L : forall l, map (hmap TRef) l = l).
  { induction l as [|x r IHl]; [reflexivity|]. cbn [map]. rewrite IH, IHl. reflexivity. }
  destruct t; cbn [hmap]; try reflexivity; try (rewrite L; reflexivity).
  rewrite IH. reflexivity.
Qed.

Theorem encode_decode : forall c pd v t st rest,
  (0 <= e_proto c <= 5)%Z -> norm c v = Some t ->
  snd (run_w (encode c v) None) = EOk /\
  exists x st',
    decode (dcfg_of c pd) st (output (encode c v) ++ rest) = ((Ok x, st'), rest) /\
    erase x = Some t.
Proof.
  intros c pd v t st rest Hp Hn.
  destruct (encode_decode_hooked c pd None TRef v t st rest (fun _ => eq_refl) Hp Hn) as [A [x [st' [B C]]]].
  split; [exact A|]. exists x, st'. split; [exact B|]. rewrite hmap_TRef in C. exact C.
Qed.

(* ---- Part 5: re-encoding what Decode returned (C05) ---------------------------------------------- *)

Lemma norm_reify_list : forall c l,
  Forall (fun x => forall t r, erase x = Some t -> reify x = Some r -> fits c t = true -> norm c r = Some t) l ->
  forall ts rs, map_opt erase l = Some ts -> map_opt reify l = Some rs -> forallb (fits c) ts = true ->
  map_opt (norm c) rs = Some ts.
Proof.
  intros c l F. induction F as [|x l Hx F IH]; intros ts rs He Hr Hf; cbn in He, Hr.
  - inversion He; inversion Hr; subst. reflexivity.
  - destruct (erase x) as [tx|] eqn:Ex; [|discriminate].
    destruct (map_opt erase l) as [tl|] eqn:El; [|discriminate].
    destruct (reify x) as [rx|] eqn:Rx; [|discriminate].
    destruct (map_opt reify l) as [rl|] eqn:Rl; [|discriminate].
    inversion He; inversion Hr; subst. cbn in Hf. apply andb_true_iff in Hf. destruct Hf as [F1 F2].
    cbn. rewrite (Hx tx rx eq_refl eq_refl F1), (IH tl rl eq_refl eq_refl F2). reflexivity.
Qed.

Lemma norm_reify : forall c x t r,
  erase x = Some t -> reify x = Some r -> fits c t = true -> norm c r = Some t.
Proof.
  intros c x. induction x as [ |b|z|z|i z|b|a b|s|s|s|s|i l IHl|l IHl|i|i|m n|m n l IHl|p IHp|tg| ] using val_ind';
    intros t r He Hr Hf; cbn in He, Hr; try discriminate.
  - inversion He; inversion Hr; subst. reflexivity.
  - inversion He; inversion Hr; subst. reflexivity.
  - (* VInt *) inversion He; inversion Hr; subst. cbn in Hf |- *. rewrite Hf. reflexivity.
  - inversion He; inversion Hr; subst. reflexivity.
  - (* VFloat *) inversion He; inversion Hr; subst. cbn in Hf |- *. rewrite Hf. reflexivity.
  - (* VStr *) inversion He; inversion Hr; subst. cbn in Hf |- *. rewrite Hf. reflexivity.
  - (* VBStr *) inversion He; inversion Hr; subst. cbn in Hf |- *.
    apply andb_true_iff in Hf. destruct Hf as [Hf Hs]. rewrite Hf. unfold bstr_t. rewrite Hs. reflexivity.
  - (* VBytes *) inversion He; inversion Hr; subst. cbn in Hf |- *. rewrite Hf. reflexivity.
  - (* VBArr *) inversion He; inversion Hr; subst. cbn in Hf |- *. rewrite Hf. reflexivity.
  - (* VList *)
    destruct (map_opt erase l) as [tl|] eqn:El; [|discriminate].
    destruct (map_opt reify l) as [rl|] eqn:Rl; [|discriminate].
    inversion He; inversion Hr; subst. cbn in Hf |- *.
    rewrite (norm_reify_list c l IHl tl rl El Rl Hf). reflexivity.
  - (* VTuple *)
    destruct (map_opt erase l) as [tl|] eqn:El; [|discriminate].
    destruct (map_opt reify l) as [rl|] eqn:Rl; [|discriminate].
    inversion He; inversion Hr; subst. cbn in Hf |- *.
    rewrite (norm_reify_list c l IHl tl rl El Rl Hf). reflexivity.
  - (* VClass *) inversion He; inversion Hr; subst. cbn in Hf |- *. rewrite Hf. reflexivity.
  - (* VCall *)
    destruct (map_opt erase l) as [tl|] eqn:El; [|discriminate].
    destruct (map_opt reify l) as [rl|] eqn:Rl; [|discriminate].
    inversion He; inversion Hr; subst. cbn in Hf |- *.
    apply andb_true_iff in Hf. destruct Hf as [Hc Hl]. rewrite Hc.
    rewrite (norm_reify_list c l IHl tl rl El Rl Hl). reflexivity.
  - (* VRef *)
    destruct (erase p) as [tp|] eqn:Ep; [|discriminate].
    destruct (reify p) as [rp|] eqn:Rp; [|discriminate].
    inversion He; inversion Hr; subst. cbn [fits] in Hf. cbn [norm]. unfold norm_ref.
    destruct (1 <=? e_proto c)%Z eqn:H1.
    + rewrite (IHp tp rp eq_refl eq_refl Hf). reflexivity.
    + destruct tp; try discriminate. apply erase_str_inv in Ep. subst p. cbn in Rp. inversion Rp; subst.
      apply negb_true_iff in Hf. rewrite Hf. reflexivity.
Qed.

(* every erasable value that fits has a reflection (objects made by a PersistentLoad hook do not) *)
Lemma reify_total_list : forall c l,
  Forall (fun x => forall t, erase x = Some t -> fits c t = true -> exists r, reify x = Some r) l ->
  forall ts, map_opt erase l = Some ts -> forallb (fits c) ts = true -> exists rs, map_opt reify l = Some rs.
Proof.
  intros c l F. induction F as [|x l Hx F IH]; intros ts He Hf; cbn in He.
  - exists []. reflexivity.
  - destruct (erase x) as [tx|] eqn:Ex; [|discriminate].
    destruct (map_opt erase l) as [tl|] eqn:El; [|discriminate]. inversion He; subst.
    cbn in Hf. apply andb_true_iff in Hf. destruct Hf as [F1 F2].
    destruct (Hx tx eq_refl F1) as [rx Rx]. destruct (IH tl eq_refl F2) as [rl Rl].
    exists (rx :: rl). cbn. rewrite Rx, Rl. reflexivity.
Qed.

Lemma reify_total : forall c x t, erase x = Some t -> fits c t = true -> exists r, reify x = Some r.
Proof.
  intros c x. induction x as [ |b|z|z|i z|b|a b|s|s|s|s|i l IHl|l IHl|i|i|m n|m n l IHl|p IHp|tg| ] using val_ind';
    intros t He Hf; cbn in He; try discriminate; cbn [reify]; try (eexists; reflexivity).
  - destruct (map_opt erase l) as [tl|] eqn:El; [|discriminate]. inversion He; subst. cbn in Hf.
    destruct (reify_total_list c l IHl tl El Hf) as [rl Rl]. rewrite Rl. eexists; reflexivity.
  - destruct (map_opt erase l) as [tl|] eqn:El; [|discriminate]. inversion He; subst. cbn in Hf.
    destruct (reify_total_list c l IHl tl El Hf) as [rl Rl]. rewrite Rl. eexists; reflexivity.
  - destruct (map_opt erase l) as [tl|] eqn:El; [|discriminate]. inversion He; subst. cbn in Hf.
    apply andb_true_iff in Hf. destruct Hf as [_ Hf].
    destruct (reify_total_list c l IHl tl El Hf) as [rl Rl]. rewrite Rl. eexists; reflexivity.
  - destruct (erase p) as [tp|] eqn:Ep; [|discriminate]. inversion He; subst. cbn [fits] in Hf.
    destruct (1 <=? e_proto c)%Z.
    + destruct (IHp tp eq_refl Hf) as [rp Rp]. rewrite Rp. eexists; reflexivity.
    + destruct tp; try discriminate. apply erase_str_inv in Ep. subst p. eexists; reflexivity.
  - inversion He; subst. discriminate.
Qed.

(* Decode, Encode the result at protocol c, Decode again: the same content.  The second decoder
   may be any decoder (fresh or used), with the same StrictUnicode as the encoder. *)
Theorem decode_encode_decode : forall c pd x t st rest,
  (0 <= e_proto c <= 5)%Z -> erase x = Some t -> fits c t = true ->
  exists r, reify x = Some r /\
    snd (run_w (encode c r) None) = EOk /\
    exists x' st', decode (dcfg_of c pd) st (output (encode c r) ++ rest) = ((Ok x', st'), rest) /\
                   erase x' = erase x.
Proof.
  intros c pd x t st rest Hp He Hf.
  destruct (reify_total c x t He Hf) as [r Hr]. exists r. split; [exact Hr|].
  pose proof (norm_reify c x t r He Hr Hf) as Hn.
  destruct (encode_decode c pd r t st rest Hp Hn) as [W [x' [st' [D E]]]].
  split; [exact W|]. exists x', st'. split; [exact D|]. rewrite E, He. reflexivity.
Qed.

From OgRek Require Import TypingFacts.

Lemma fits_typed_list : forall cfg c l,
  Forall (fun x => forall t, wt cfg x = true -> erase x = Some t -> fits_proto c t = true -> fits c t = true) l ->
  forall ts, forallb (wt cfg) l = true -> map_opt erase l = Some ts ->
             forallb (fits_proto c) ts = true -> forallb (fits c) ts = true.
Proof.
  intros cfg c l F. induction F as [|x l Hx F IH]; intros ts Hw He Hf; cbn in He.
  - inversion He; subst. reflexivity.
  - destruct (erase x) as [tx|] eqn:Ex; [|discriminate].
    destruct (map_opt erase l) as [tl|] eqn:El; [|discriminate]. inversion He; subst.
    cbn in Hw, Hf |- *. apply andb_true_iff in Hw, Hf. destruct Hw as [W1 W2]. destruct Hf as [F1 F2].
    rewrite (Hx tx W1 eq_refl F1), (IH tl W2 eq_refl F2). reflexivity.
Qed.

Lemma fits_typed : forall cfg c x t,
  c_strict cfg = e_strict c -> wt cfg x = true -> erase x = Some t -> fits_proto c t = true -> fits c t = true.
Proof.
  intros cfg c x t Hs. revert t.
  induction x as [ |b|z|z|i z|b|a b|s|s|s|s|i l IHl|l IHl|i|i|m n|m n l IHl|p IHp|tg| ] using val_ind';
    intros t Hw He Hf; cbn in He; try discriminate;
    try (inversion He; subst; cbn in Hf |- *; exact Hf).
  - inversion He; subst. exact Hw.
  - inversion He; subst. cbn in Hw, Hf |- *. rewrite Hf, <- Hs, Hw. reflexivity.
  - destruct (map_opt erase l) as [tl|] eqn:El; [|discriminate]. inversion He; subst.
    cbn in Hw, Hf |- *. eapply fits_typed_list; eassumption.
  - destruct (map_opt erase l) as [tl|] eqn:El; [|discriminate]. inversion He; subst.
    cbn in Hw, Hf |- *. eapply fits_typed_list; eassumption.
  - destruct (map_opt erase l) as [tl|] eqn:El; [|discriminate]. inversion He; subst.
    cbn in Hw, Hf |- *. apply andb_true_iff in Hf. destruct Hf as [Hc Hl]. rewrite Hc.
    eapply fits_typed_list; eassumption.
  - destruct (erase p) as [tp|] eqn:Ep; [|discriminate]. inversion He; subst.
    cbn [wt fits_proto fits] in Hw, Hf |- *. destruct (1 <=? e_proto c)%Z.
    + apply IHp; [exact Hw|reflexivity|exact Hf].
    + exact Hf.
Qed.

(* C05 for the heap-free fragment: whatever Decode returned (first call, any input, any prior
   state satisfying the typing invariant) re-encodes at protocol c and decodes back to the same
   content, provided protocol c has an opcode form the theorem covers for each leaf (fits_proto) *)
Theorem redecode : forall cfg c st0 inp x st1 rest0 t st rest,
  state_ok cfg st0 -> load_ok cfg ->
  decode cfg st0 inp = ((Ok x, st1), rest0) ->
  c_strict cfg = e_strict c -> (0 <= e_proto c <= 5)%Z ->
  erase x = Some t -> fits_proto c t = true ->
  exists r, reify x = Some r /\
    snd (run_w (encode c r) None) = EOk /\
    exists x' st', decode (dcfg_of c (c_pydict cfg)) st (output (encode c r) ++ rest) = ((Ok x', st'), rest) /\
                   erase x' = erase x.
Proof.
  intros cfg c st0 inp x st1 rest0 t st rest Hst Hh D Hs Hp He Hf.
  destruct (decode_typed cfg Hh st0 inp (Ok x) st1 rest0 Hst D) as [_ Rk].
  pose proof (Rk x eq_refl) as Hw.
  apply decode_encode_decode with (t := t); try assumption.
  eapply fits_typed; eassumption.
Qed.
