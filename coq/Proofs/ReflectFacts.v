(* ReflectFacts.v — C05 for results that hold maps and Dicts: the value Decode returned, as the
   encoder's reflection sees it (each map iterated in whatever order the runtime picks), has the
   normal form NormMaps.norm2 predicts only if that normal form is the content of the decoded value
   up to the order of map entries.  Together with RoundTripMaps.encode_decode_maps this closes the
   chain decode -> encode -> decode. *)
From Coq Require Import List ZArith NArith Bool Lia Permutation.
From Coq.Strings Require Import Byte.
From OgRek Require Import Base Float Value PyEq Dict Reader Decoder Encoder Norm NormMaps.
From OgRek Require Import BaseFacts PyEqFacts DictFacts KeyFacts TypingFacts EraseFacts RoundTrip RoundTripMaps.
Import ListNotations.
Open Scope N_scope.

(* ---- the encoder's view of a decoded value ------------------------------------------------------ *)

(* reflects h x r: r is a reflection of x read through heap h; the entries of a map come in any order *)
Inductive reflects (h : heap) : val -> rval -> Prop :=
| rf_leaf : forall x r, reify x = Some r -> reflects h x r
| rf_list : forall lid l rs, Forall2 (reflects h) l rs -> reflects h (VList lid l) (RList rs)
| rf_tuple : forall l rs, Forall2 (reflects h) l rs -> reflects h (VTuple l) (RTuple rs)
| rf_call : forall m n l rs, Forall2 (reflects h) l rs -> reflects h (VCall m n l) (RCall m n rs)
| rf_map : forall id es es' res, heap_get h id = Some (HMap es) -> Permutation es es' ->
    Forall2 (fun e re => reflects h (fst e) (fst re) /\ reflects h (snd e) (snd re)) es' res ->
    reflects h (VMap id) (RMap res)
| rf_dict : forall id es es' res, heap_get h id = Some (HDict es) -> Permutation es es' ->
    Forall2 (fun e re => reflects h (fst e) (fst re) /\ reflects h (snd e) (snd re)) es' res ->
    reflects h (VDict id) (RDict res).

(* content up to the order of map entries (the order is not observable in Go) *)
Inductive contentp (h : heap) : val -> cv -> Prop :=
| cp_leaf : forall x t, erase x = Some t -> contentp h x (CLeaf t)
| cp_list : forall lid l cs, Forall2 (contentp h) l cs -> contentp h (VList lid l) (CList cs)
| cp_tuple : forall l cs, Forall2 (contentp h) l cs -> contentp h (VTuple l) (CTuple cs)
| cp_call : forall m n l cs, Forall2 (contentp h) l cs -> contentp h (VCall m n l) (CCall m n cs)
| cp_map : forall id es es' ces, heap_get h id = Some (HMap es) -> Permutation es es' ->
    Forall2 (fun e ce => contentp h (fst e) (fst ce) /\ contentp h (snd e) (snd ce)) es' ces ->
    contentp h (VMap id) (CMap ces)
| cp_dict : forall id es es' ces, heap_get h id = Some (HDict es) -> Permutation es es' ->
    Forall2 (fun e ce => contentp h (fst e) (fst ce) /\ contentp h (snd e) (snd ce)) es' ces ->
    contentp h (VDict id) (CDict ces).

Definition pairp (h : heap) (e : val * val) (ce : cv * cv) : Prop :=
  contentp h (fst e) (fst ce) /\ contentp h (snd e) (snd ce).

(* exact content is content up to order *)
Lemma content_contentp : forall h x c, content h x c -> contentp h x c.
Proof.
  intros h. fix IH 3. intros x c H.
  assert (L : forall l cs, Forall2 (content h) l cs -> Forall2 (contentp h) l cs).
  { fix go 3. intros l cs F. destruct F as [|a b l' cs' Hab F']; constructor; [apply IH; exact Hab|apply go; exact F']. }
  assert (P : forall es ces,
             Forall2 (fun e ce => content h (fst e) (fst ce) /\ content h (snd e) (snd ce)) es ces ->
             Forall2 (fun e ce => contentp h (fst e) (fst ce) /\ contentp h (snd e) (snd ce)) es ces).
  { fix go 3. intros es ces F. destruct F as [|a b l' cs' [Hk Hv] F']; constructor;
      [split; apply IH; assumption|apply go; exact F']. }
  destruct H as [x t E|lid l cs F|l cs F|m n l cs F|id es ces G F|id es ces G F].
  - apply cp_leaf. exact E.
  - apply cp_list. apply L. exact F.
  - apply cp_tuple. apply L. exact F.
  - apply cp_call. apply L. exact F.
  - eapply cp_map; [exact G|apply Permutation_refl|apply P; exact F].
  - eapply cp_dict; [exact G|apply Permutation_refl|apply P; exact F].
Qed.

Lemma contentp_leaf_inv : forall h x t, contentp h x (CLeaf t) -> erase x = Some t.
Proof. intros h x t H. inversion H; subst. assumption. Qed.

(* ---- heap-free values: norm of the reflection is the erasure, whenever it is defined ------------ *)

Lemma reify_plain_str : forall x s, reify x = Some (RStr SPlain s) -> x = VStr s.
Proof.
  intros x s H. destruct x; cbn in H; try discriminate; try (injection H as <-; reflexivity);
    match type of H with option_map _ ?e = _ => destruct e; discriminate end.
Qed.

Section Leaf.
  Variable cfg : dconfig.
  Variable c : econfig.
  Hypothesis Hs : c_strict cfg = e_strict c.

  Lemma norm_reify_inv_list : forall l,
    Forall (fun x => forall r t, wt cfg x = true -> reify x = Some r -> norm c r = Some t -> erase x = Some t) l ->
    forall rs ts, forallb (wt cfg) l = true -> map_opt reify l = Some rs -> map_opt (norm c) rs = Some ts ->
    map_opt erase l = Some ts.
  Proof.
    intros l F. induction F as [|x l Hx F IH]; intros rs ts Hw Hr Hn; cbn in Hr.
    - injection Hr as <-. cbn in Hn. injection Hn as <-. reflexivity.
    - destruct (reify x) as [rx|] eqn:Rx; [|discriminate].
      destruct (map_opt reify l) as [rl|] eqn:Rl; [|discriminate]. injection Hr as <-.
      cbn in Hn. destruct (norm c rx) as [tx|] eqn:Nx; [|discriminate].
      destruct (map_opt (norm c) rl) as [tl|] eqn:Nl; [|discriminate]. injection Hn as <-.
      cbn in Hw. apply andb_true_iff in Hw. destruct Hw as [W1 W2].
      cbn. rewrite (Hx rx tx W1 eq_refl Nx), (IH rl tl W2 eq_refl Nl). reflexivity.
  Qed.

  Lemma norm_reify_inv : forall x r t,
    wt cfg x = true -> reify x = Some r -> norm c r = Some t -> erase x = Some t.
  Proof.
    induction x as [ |b|z|z|i z|b|a b|s|s|s|s|i l IHl|l IHl|i|i|m n|m n l IHl|p IHp|tg| ] using val_ind';
      intros r t Hw Hr Hn; cbn in Hr; try discriminate.
    - injection Hr as <-. cbn in Hn. injection Hn as <-. reflexivity.
    - injection Hr as <-. cbn in Hn. injection Hn as <-. reflexivity.
    - injection Hr as <-. cbn in Hn. destruct (in_int64 z); [|discriminate]. injection Hn as <-. reflexivity.
    - injection Hr as <-. cbn in Hn. injection Hn as <-. reflexivity.
    - injection Hr as <-. cbn in Hn. destruct (float_fits c b); [|discriminate]. injection Hn as <-. reflexivity.
    - injection Hr as <-. cbn in Hn. destruct (str_fits c s); [|discriminate]. injection Hn as <-. reflexivity.
    - injection Hr as <-. cbn in Hn. destruct (bstr_fits c s); [|discriminate]. injection Hn as <-.
      cbn in Hw. unfold bstr_t. rewrite <- Hs, Hw. reflexivity.
    - injection Hr as <-. cbn in Hn. destruct (bytes_ok c s); [|discriminate]. injection Hn as <-. reflexivity.
    - injection Hr as <-. cbn in Hn. destruct (barr_ok c s); [|discriminate]. injection Hn as <-. reflexivity.
    - destruct (map_opt reify l) as [rl|] eqn:Rl; [|discriminate]. injection Hr as <-. cbn in Hn.
      destruct (map_opt (norm c) rl) as [tl|] eqn:Nl; [|discriminate]. injection Hn as <-.
      cbn in Hw |- *. rewrite (norm_reify_inv_list l IHl rl tl Hw Rl Nl). reflexivity.
    - destruct (map_opt reify l) as [rl|] eqn:Rl; [|discriminate]. injection Hr as <-. cbn in Hn.
      destruct (map_opt (norm c) rl) as [tl|] eqn:Nl; [|discriminate]. injection Hn as <-.
      cbn in Hw |- *. rewrite (norm_reify_inv_list l IHl rl tl Hw Rl Nl). reflexivity.
    - injection Hr as <-. cbn in Hn. destruct (class_ok c m n); [|discriminate]. injection Hn as <-. reflexivity.
    - destruct (map_opt reify l) as [rl|] eqn:Rl; [|discriminate]. injection Hr as <-. cbn in Hn.
      destruct (class_ok c m n && plain_classb m n); [|discriminate].
      destruct (map_opt (norm c) rl) as [tl|] eqn:Nl; [|discriminate]. injection Hn as <-.
      cbn in Hw |- *. rewrite (norm_reify_inv_list l IHl rl tl Hw Rl Nl). reflexivity.
    - destruct (reify p) as [rp|] eqn:Rp; [|discriminate]. injection Hr as <-. cbn [norm] in Hn.
      unfold norm_ref in Hn. cbn [wt] in Hw. destruct (1 <=? e_proto c)%Z.
      + destruct (norm c rp) as [tp|] eqn:Np; [|discriminate]. injection Hn as <-.
        cbn. rewrite (IHp rp tp Hw eq_refl Np). reflexivity.
      + destruct rp as [ | |b|z|z|f|k|ty s|s|l|l|es|es| |m n|m n args|pid|z|fields|ts ref x]; try discriminate.
        destruct ty; try discriminate.
        destruct (has_lf s || negb (e_proto c =? 0)%Z); [discriminate|]. injection Hn as <-.
        rewrite (reify_plain_str p s Rp). reflexivity.
  Qed.
End Leaf.

(* ---- assignments of pairwise unequal keys keep every entry --------------------------------------- *)

(* e1 is stored, e2 comes later: the test cassign makes *)
Definition capart (pd : bool) (e1 e2 : cv * cv) : Prop :=
  if pd then py_eq (ukey (fst e2)) (ukey (fst e1)) = false
  else go_key_eq (ukey (fst e1)) (ukey (fst e2)) = false.

Fixpoint cdistinct (pd : bool) (l : list (cv * cv)) : Prop :=
  match l with
  | [] => True
  | e :: t => Forall (capart pd e) t /\ cdistinct pd t
  end.

Lemma cassign_fresh : forall pd acc k v r,
  Forall (fun e => capart pd e (k, v)) acc -> cassign pd acc k v = Some r -> r = acc ++ [(k, v)].
Proof.
  intros pd acc k v r F A. unfold cassign in A. destruct (cv_key k) as [tk|] eqn:Ek; [|discriminate].
  assert (U : ukey k = unerase tk) by (unfold ukey; rewrite Ek; reflexivity).
  destruct pd.
  - destruct (nf_key (unerase tk)); [|discriminate]. injection A as <-. f_equal.
    induction F as [|e t He Ht IH]; [reflexivity|]. cbn [filter].
    unfold capart in He. cbn [fst] in He. rewrite U in He. rewrite He. cbn [negb]. f_equal. exact IH.
  - destruct (go_unhashable (unerase tk) || has_big tk); [discriminate|]. injection A as <-.
    induction F as [|[k' v'] t He Ht IH]; [reflexivity|]. cbn [app].
    unfold capart in He. cbn [fst] in He. rewrite U in He. rewrite He. f_equal. exact IH.
Qed.

Lemma cdistinct_snoc_inv : forall pd acc x l, cdistinct pd (acc ++ x :: l) ->
  Forall (fun e => capart pd e x) acc /\ cdistinct pd ((acc ++ [x]) ++ l).
Proof.
  intros pd acc x l H. rewrite <- app_assoc. cbn [app]. split; [|exact H].
  induction acc as [|a t IH]; [constructor|]. cbn [app cdistinct] in H. destruct H as [Hf Hd].
  constructor; [|apply IH; exact Hd].
  rewrite Forall_app in Hf. destruct Hf as [_ Hf]. inversion Hf; assumption.
Qed.

Lemma cassign_all_fresh : forall pd l acc ces,
  cdistinct pd (acc ++ l) -> cassign_all pd acc l = Some ces -> ces = acc ++ l.
Proof.
  intros pd. induction l as [|[k v] t IH]; intros acc ces D A; cbn [cassign_all] in A.
  - injection A as <-. rewrite app_nil_r. reflexivity.
  - destruct (cassign pd acc k v) as [acc1|] eqn:A1; [|discriminate].
    destruct (cdistinct_snoc_inv pd acc (k, v) t D) as [Df Dd].
    rewrite (cassign_fresh pd acc k v acc1 Df A1) in A.
    rewrite (IH _ _ Dd A). rewrite <- app_assoc. reflexivity.
Qed.

(* what cassign_all accepted: keys are leaves; in a builtin map without *big.Int inside *)
Definition ckey_ok (pd : bool) (ce : cv * cv) : Prop :=
  exists tk, fst ce = CLeaf tk /\ (pd = false -> has_big tk = false).

Lemma cassign_all_keys : forall pd l acc ces, cassign_all pd acc l = Some ces -> Forall (ckey_ok pd) l.
Proof.
  intros pd. induction l as [|[k v] t IH]; intros acc ces A; [constructor|]. cbn [cassign_all] in A.
  destruct (cassign pd acc k v) as [acc1|] eqn:A1; [|discriminate].
  constructor; [|eapply IH; exact A].
  unfold cassign in A1. destruct (cv_key k) as [tk|] eqn:Ek; [|discriminate].
  destruct k; try discriminate Ek. cbn in Ek. injection Ek as ->. exists tk. split; [reflexivity|].
  intros ->. destruct (go_unhashable (unerase tk) || has_big tk) eqn:E; [discriminate|].
  apply orb_false_iff in E. apply E.
Qed.

(* distinct keys of a heap object give distinct normalised keys *)
Lemma cdistinct_of_heap : forall h pd es ces,
  Forall2 (pairp h) es ces -> Forall (ckey_ok pd) ces ->
  (if pd then distinct es else gdistinct es) -> cdistinct pd ces.
Proof.
  intros h pd es ces F. induction F as [|e ce es ces [Hk _] F IH]; intros K D; [exact I|].
  inversion K as [|? ? [tk [E1 Hb]] K']; subst. rewrite E1 in Hk. pose proof (contentp_leaf_inv _ _ _ Hk) as Ek.
  assert (Dh : (if pd then Forall (apart e) es else Forall (gapart e) es) /\ (if pd then distinct es else gdistinct es)).
  { destruct pd; cbn in D; exact D. }
  destruct Dh as [Dh Dt]. cbn [cdistinct]. split; [|apply IH; assumption].
  clear IH D Dt K. induction F as [|e' ce' es ces [Hk' _] F IH]; [constructor|].
  inversion K' as [|? ? [tk' [E1' Hb']] K'']; subst. rewrite E1' in Hk'.
  pose proof (contentp_leaf_inv _ _ _ Hk') as Ek'.
  constructor.
  - unfold capart, ukey. rewrite E1, E1'. cbn [fst cv_key]. destruct pd.
    + inversion Dh as [|? ? [_ A2] _]; subst. rewrite <- (py_eq_erase (fst e') (fst e) tk' tk Ek' Ek). exact A2.
    + inversion Dh as [|? ? A1 _]; subst. unfold gapart in A1.
      rewrite <- (go_key_eq_erase (fst e) (fst e') tk tk' Ek Ek' (Hb eq_refl)). exact A1.
  - apply IH; [exact K''|]. destruct pd; inversion Dh; assumption.
Qed.

(* ---- the theorem ---------------------------------------------------------------------------------- *)

Section Reflect.
  Variable cfg : dconfig.
  Variable c : econfig.
  Hypothesis Hs : c_strict cfg = e_strict c.
  Variable h : heap.
  Hypothesis Hh : Forall (fun io => obj_ok cfg (snd io)) h.
  Let pd := c_pydict cfg.

  Lemma norm2_unfold_leaf : forall v t, norm c v = Some t -> norm2 c pd TRef v = Some (CLeaf t).
  Proof. intros v t N. rewrite (norm2_leaf c pd TRef v t N). rewrite hmap_TRef. reflexivity. Qed.

  (* heap-free values *)
  Lemma leaf_contentp : forall x r cvl,
    wt cfg x = true -> reify x = Some r -> norm2 c pd TRef r = Some cvl -> contentp h x cvl.
  Proof.
    induction x as [ |b|z|z|i z|b|a b|s|s|s|s|i l IHl|l IHl|i|i|m n|m n l IHl|p IHp|tg| ] using val_ind';
      intros r cvl Hw Hr Hn;
      (destruct (norm c r) as [t|] eqn:N;
       [rewrite (norm2_unfold_leaf r t N) in Hn; injection Hn as <-; apply cp_leaf;
        eapply (norm_reify_inv cfg c Hs); eassumption|]);
      cbn in Hr; try discriminate Hr;
      try (injection Hr as <-; cbn [norm2] in Hn; rewrite N in Hn; discriminate Hn).
    - (* list *)
      destruct (map_opt reify l) as [rl|] eqn:Rl; [|discriminate]. injection Hr as <-.
      cbn [norm2] in Hn. rewrite N in Hn.
      destruct (map_opt (norm2 c pd TRef) rl) as [cs|] eqn:E; [|discriminate]. injection Hn as <-.
      apply cp_list. cbn [wt] in Hw. clear N. revert rl cs Rl E Hw.
      induction IHl as [|x l Hx F IH]; intros rl cs Rl E Hw; cbn in Rl.
      + injection Rl as <-. cbn in E. injection E as <-. constructor.
      + destruct (reify x) as [rx|] eqn:Rx; [|discriminate]. destruct (map_opt reify l) as [rl'|] eqn:Rl'; [|discriminate].
        injection Rl as <-. cbn in E. destruct (norm2 c pd TRef rx) as [cx|] eqn:Ex; [|discriminate].
        destruct (map_opt (norm2 c pd TRef) rl') as [cr|] eqn:Er; [|discriminate]. injection E as <-.
        cbn in Hw. apply andb_true_iff in Hw. destruct Hw as [W1 W2].
        constructor; [eapply Hx; [exact W1|reflexivity|exact Ex]|eapply IH; [reflexivity|exact Er|exact W2]].
    - (* tuple *)
      destruct (map_opt reify l) as [rl|] eqn:Rl; [|discriminate]. injection Hr as <-.
      cbn [norm2] in Hn. rewrite N in Hn.
      destruct (map_opt (norm2 c pd TRef) rl) as [cs|] eqn:E; [|discriminate]. injection Hn as <-.
      apply cp_tuple. cbn [wt] in Hw. clear N. revert rl cs Rl E Hw.
      induction IHl as [|x l Hx F IH]; intros rl cs Rl E Hw; cbn in Rl.
      + injection Rl as <-. cbn in E. injection E as <-. constructor.
      + destruct (reify x) as [rx|] eqn:Rx; [|discriminate]. destruct (map_opt reify l) as [rl'|] eqn:Rl'; [|discriminate].
        injection Rl as <-. cbn in E. destruct (norm2 c pd TRef rx) as [cx|] eqn:Ex; [|discriminate].
        destruct (map_opt (norm2 c pd TRef) rl') as [cr|] eqn:Er; [|discriminate]. injection E as <-.
        cbn in Hw. apply andb_true_iff in Hw. destruct Hw as [W1 W2].
        constructor; [eapply Hx; [exact W1|reflexivity|exact Ex]|eapply IH; [reflexivity|exact Er|exact W2]].
    - (* call *)
      destruct (map_opt reify l) as [rl|] eqn:Rl; [|discriminate]. injection Hr as <-.
      cbn [norm2] in Hn. rewrite N in Hn. destruct (class_ok c m n && plain_classb m n); [|discriminate].
      destruct (map_opt (norm2 c pd TRef) rl) as [cs|] eqn:E; [|discriminate]. injection Hn as <-.
      apply cp_call. cbn [wt] in Hw. clear N. revert rl cs Rl E Hw.
      induction IHl as [|x l Hx F IH]; intros rl cs Rl E Hw; cbn in Rl.
      + injection Rl as <-. cbn in E. injection E as <-. constructor.
      + destruct (reify x) as [rx|] eqn:Rx; [|discriminate]. destruct (map_opt reify l) as [rl'|] eqn:Rl'; [|discriminate].
        injection Rl as <-. cbn in E. destruct (norm2 c pd TRef rx) as [cx|] eqn:Ex; [|discriminate].
        destruct (map_opt (norm2 c pd TRef) rl') as [cr|] eqn:Er; [|discriminate]. injection E as <-.
        cbn in Hw. apply andb_true_iff in Hw. destruct Hw as [W1 W2].
        constructor; [eapply Hx; [exact W1|reflexivity|exact Ex]|eapply IH; [reflexivity|exact Er|exact W2]].
    - (* ref *)
      destruct (reify p) as [rp|]; [|discriminate]. injection Hr as <-.
      cbn [norm2] in Hn. rewrite N in Hn. discriminate Hn.
  Qed.

  (* the normal form of any reflection of a decoded value, when it exists, is the value's content up
     to the order of map entries *)
  Theorem reflect_norm2 : forall x r, reflects h x r -> wt cfg x = true ->
    forall cvl, norm2 c pd TRef r = Some cvl -> contentp h x cvl.
  Proof.
    fix IH 3. intros x r R Hw cvl Hn.
    assert (L : forall l rs, Forall2 (reflects h) l rs -> forallb (wt cfg) l = true ->
                forall cs, map_opt (norm2 c pd TRef) rs = Some cs -> Forall2 (contentp h) l cs).
    { fix go 3. intros l rs F W cs E. destruct F as [|a b l' rs' Hab F'].
      - cbn in E. injection E as <-. constructor.
      - cbn in E. destruct (norm2 c pd TRef b) as [cb|] eqn:Eb; [|discriminate].
        destruct (map_opt (norm2 c pd TRef) rs') as [cr|] eqn:Er; [|discriminate]. injection E as <-.
        cbn in W. apply andb_true_iff in W. destruct W as [W1 W2].
        constructor; [eapply IH; eassumption|eapply go; eassumption]. }
    assert (P : forall es res, Forall2 (fun e re => reflects h (fst e) (fst re) /\ reflects h (snd e) (snd re)) es res ->
                Forall (entry_ok cfg) es ->
                forall cps, npairs c pd TRef res = Some cps -> Forall2 (pairp h) es cps).
    { fix go 3. intros es res F W cps E. destruct F as [|a b es' res' [Hk Hv] F'].
      - cbn in E. injection E as <-. constructor.
      - destruct b as [rk rv]. cbn [npairs] in E. cbn [fst snd] in Hk, Hv.
        destruct (norm2 c pd TRef rk) as [ck|] eqn:Ek; [|discriminate].
        destruct (norm2 c pd TRef rv) as [cx|] eqn:Ex; [|discriminate].
        destruct (npairs c pd TRef res') as [cr|] eqn:Er; [|discriminate]. injection E as <-.
        inversion W as [|? ? [W1 W2] W']; subst.
        constructor; [split; cbn [fst snd]; eapply IH; eassumption|eapply go; eassumption]. }
    destruct R as [x r E|lid l rs F|l rs F|m n l rs F|id es es' res G Pm F|id es es' res G Pm F].
    - eapply leaf_contentp; eassumption.
    - (* list *)
      destruct (norm c (RList rs)) as [t|] eqn:N.
      + (* heap-free after all: rebuild through the leaf lemma is not possible without reify; use norm2's own shape *)
        cbn [norm] in N. destruct (map_opt (norm c) rs) as [ts|] eqn:Ns; [|discriminate]. injection N as <-.
        assert (E2 : map_opt (norm2 c pd TRef) rs = Some (map CLeaf ts)).
        { clear - Ns. revert ts Ns. induction rs as [|a t IHr]; intros ts Ns; cbn in Ns.
          - injection Ns as <-. reflexivity.
          - destruct (norm c a) as [ta|] eqn:Na; [|discriminate]. destruct (map_opt (norm c) t) as [tt|] eqn:Nt; [|discriminate].
            injection Ns as <-. cbn. rewrite (norm2_unfold_leaf a ta Na), (IHr tt eq_refl). reflexivity. }
        pose proof (L l rs F Hw (map CLeaf ts) E2) as F2.
        assert (N' : norm c (RList rs) = Some (TList ts)) by (cbn [norm]; rewrite Ns; reflexivity).
        rewrite (norm2_unfold_leaf _ _ N') in Hn. injection Hn as <-.
        apply cp_leaf. cbn [erase].
        assert (Em : map_opt erase l = Some ts).
        { clear - F2. revert ts F2. induction l as [|a t IHl]; intros ts F2.
          - destruct ts; [reflexivity|inversion F2].
          - destruct ts as [|ta tt]; [inversion F2|]. cbn in F2. inversion F2 as [|? ? ? ? Ha Ht]; subst.
            cbn. rewrite (contentp_leaf_inv _ _ _ Ha), (IHl tt Ht). reflexivity. }
        rewrite Em. reflexivity.
      + cbn [norm2] in Hn. rewrite N in Hn.
        destruct (map_opt (norm2 c pd TRef) rs) as [cs|] eqn:E; [|discriminate]. injection Hn as <-.
        apply cp_list. eapply L; eassumption.
    - (* tuple *)
      destruct (norm c (RTuple rs)) as [t|] eqn:N.
      + cbn [norm] in N. destruct (map_opt (norm c) rs) as [ts|] eqn:Ns; [|discriminate]. injection N as <-.
        assert (E2 : map_opt (norm2 c pd TRef) rs = Some (map CLeaf ts)).
        { clear - Ns. revert ts Ns. induction rs as [|a t IHr]; intros ts Ns; cbn in Ns.
          - injection Ns as <-. reflexivity.
          - destruct (norm c a) as [ta|] eqn:Na; [|discriminate]. destruct (map_opt (norm c) t) as [tt|] eqn:Nt; [|discriminate].
            injection Ns as <-. cbn. rewrite (norm2_unfold_leaf a ta Na), (IHr tt eq_refl). reflexivity. }
        pose proof (L l rs F Hw (map CLeaf ts) E2) as F2.
        assert (N' : norm c (RTuple rs) = Some (TTuple ts)) by (cbn [norm]; rewrite Ns; reflexivity).
        rewrite (norm2_unfold_leaf _ _ N') in Hn. injection Hn as <-.
        apply cp_leaf. cbn [erase].
        assert (Em : map_opt erase l = Some ts).
        { clear - F2. revert ts F2. induction l as [|a t IHl]; intros ts F2.
          - destruct ts; [reflexivity|inversion F2].
          - destruct ts as [|ta tt]; [inversion F2|]. cbn in F2. inversion F2 as [|? ? ? ? Ha Ht]; subst.
            cbn. rewrite (contentp_leaf_inv _ _ _ Ha), (IHl tt Ht). reflexivity. }
        rewrite Em. reflexivity.
      + cbn [norm2] in Hn. rewrite N in Hn.
        destruct (map_opt (norm2 c pd TRef) rs) as [cs|] eqn:E; [|discriminate]. injection Hn as <-.
        apply cp_tuple. eapply L; eassumption.
    - (* call *)
      destruct (norm c (RCall m n rs)) as [t|] eqn:N.
      + cbn [norm] in N. destruct (class_ok c m n && plain_classb m n) eqn:Ck; [|discriminate].
        destruct (map_opt (norm c) rs) as [ts|] eqn:Ns; [|discriminate]. injection N as <-.
        assert (E2 : map_opt (norm2 c pd TRef) rs = Some (map CLeaf ts)).
        { clear - Ns. revert ts Ns. induction rs as [|a t IHr]; intros ts Ns; cbn in Ns.
          - injection Ns as <-. reflexivity.
          - destruct (norm c a) as [ta|] eqn:Na; [|discriminate]. destruct (map_opt (norm c) t) as [tt|] eqn:Nt; [|discriminate].
            injection Ns as <-. cbn. rewrite (norm2_unfold_leaf a ta Na), (IHr tt eq_refl). reflexivity. }
        pose proof (L l rs F Hw (map CLeaf ts) E2) as F2.
        assert (N' : norm c (RCall m n rs) = Some (TCall m n ts)) by (cbn [norm]; rewrite Ck, Ns; reflexivity).
        rewrite (norm2_unfold_leaf _ _ N') in Hn. injection Hn as <-.
        apply cp_leaf. cbn [erase].
        assert (Em : map_opt erase l = Some ts).
        { clear - F2. revert ts F2. induction l as [|a t IHl]; intros ts F2.
          - destruct ts; [reflexivity|inversion F2].
          - destruct ts as [|ta tt]; [inversion F2|]. cbn in F2. inversion F2 as [|? ? ? ? Ha Ht]; subst.
            cbn. rewrite (contentp_leaf_inv _ _ _ Ha), (IHl tt Ht). reflexivity. }
        rewrite Em. reflexivity.
      + cbn [norm2] in Hn. rewrite N in Hn. destruct (class_ok c m n && plain_classb m n); [|discriminate].
        destruct (map_opt (norm2 c pd TRef) rs) as [cs|] eqn:E; [|discriminate]. injection Hn as <-.
        apply cp_call. eapply L; eassumption.
    - (* builtin map *)
      cbn [wt] in Hw. apply negb_true_iff in Hw. fold pd in Hw.
      destruct (heap_get_ok cfg h id (HMap es) Hh G) as [Oe Ok]. cbn in Ok.
      change (dict_of pd (npairs c pd TRef res) = Some cvl) in Hn.
      destruct (dict_of_inv pd _ _ Hn) as [cps [ces [Ep [A ->]]]].
      assert (Oe' : Forall (entry_ok cfg) es') by (eapply Permutation_Forall; eassumption).
      pose proof (P es' res F Oe' cps Ep) as Fp.
      pose proof (cassign_all_keys pd cps [] ces A) as K.
      assert (D : cdistinct pd cps).
      { eapply cdistinct_of_heap; [exact Fp|exact K|]. rewrite Hw. eapply gdistinct_perm; eassumption. }
      rewrite (cassign_all_fresh pd cps [] ces D A). cbn [app]. unfold mk_dict. rewrite Hw.
      eapply cp_map; [exact G|exact Pm|exact Fp].
    - (* Dict *)
      cbn [wt] in Hw. fold pd in Hw.
      destruct (heap_get_ok cfg h id (HDict es) Hh G) as [Oe [On Od]].
      change (dict_of pd (npairs c pd TRef res) = Some cvl) in Hn.
      destruct (dict_of_inv pd _ _ Hn) as [cps [ces [Ep [A ->]]]].
      assert (Oe' : Forall (entry_ok cfg) es') by (eapply Permutation_Forall; eassumption).
      pose proof (P es' res F Oe' cps Ep) as Fp.
      pose proof (cassign_all_keys pd cps [] ces A) as K.
      assert (D : cdistinct pd cps).
      { eapply cdistinct_of_heap; [exact Fp|exact K|]. rewrite Hw. eapply distinct_perm; eassumption. }
      rewrite (cassign_all_fresh pd cps [] ces D A). cbn [app]. unfold mk_dict. rewrite Hw.
      eapply cp_dict; [exact G|exact Pm|exact Fp].
  Qed.
End Reflect.

(* ---- the computed reflection is one ---------------------------------------------------------------- *)

Lemma map_opt_Forall2 : forall A B (f : A -> option B) (R : A -> B -> Prop),
  (forall a b, f a = Some b -> R a b) -> forall l r, map_opt f l = Some r -> Forall2 R l r.
Proof.
  intros A B f R H. induction l as [|x t IH]; intros r E; cbn in E.
  - injection E as <-. constructor.
  - destruct (f x) as [b|] eqn:Ex; [|discriminate]. destruct (map_opt f t) as [bt|] eqn:Et; [|discriminate].
    injection E as <-. constructor; [apply H; exact Ex|apply IH; reflexivity].
Qed.

Theorem reflect_sound : forall fuel ro h v r, reflect fuel ro h v = Some r -> reflects h v r.
Proof.
  induction fuel as [|f IH]; intros ro h v r E; [discriminate|]. cbn [reflect] in E.
  destruct (reify v) as [r0|] eqn:Rv; [injection E as <-; apply rf_leaf; exact Rv|].
  assert (P : forall es res,
    map_opt (fun e : val * val => match reflect f ro h (fst e), reflect f ro h (snd e) with
                                  | Some a, Some b => Some (a, b) | _, _ => None end) es = Some res ->
    Forall2 (fun e re => reflects h (fst e) (fst re) /\ reflects h (snd e) (snd re)) es res).
  { apply map_opt_Forall2. intros e re He.
    destruct (reflect f ro h (fst e)) as [a|] eqn:Ea; [|discriminate].
    destruct (reflect f ro h (snd e)) as [b|] eqn:Eb; [|discriminate]. injection He as <-.
    split; cbn [fst snd]; eapply IH; eassumption. }
  destruct v; try discriminate E.
  - destruct (map_opt (reflect f ro h) l) as [rs|] eqn:El; [|discriminate]. injection E as <-.
    apply rf_list. eapply map_opt_Forall2; [|exact El]. intros a b Hab. eapply IH; exact Hab.
  - destruct (map_opt (reflect f ro h) l) as [rs|] eqn:El; [|discriminate]. injection E as <-.
    apply rf_tuple. eapply map_opt_Forall2; [|exact El]. intros a b Hab. eapply IH; exact Hab.
  - destruct (heap_get h id) as [[es|es]|] eqn:G; try discriminate.
    destruct (map_opt _ (if ro then rev es else es)) as [res|] eqn:Ep; [|discriminate]. injection E as <-.
    eapply rf_map; [exact G| |apply P; exact Ep]. destruct ro; [apply Permutation_rev|apply Permutation_refl].
  - destruct (heap_get h id) as [[es|es]|] eqn:G; try discriminate.
    destruct (map_opt _ (if ro then rev es else es)) as [res|] eqn:Ep; [|discriminate]. injection E as <-.
    eapply rf_dict; [exact G| |apply P; exact Ep]. destruct ro; [apply Permutation_rev|apply Permutation_refl].
  - destruct (map_opt (reflect f ro h) args) as [rs|] eqn:El; [|discriminate]. injection E as <-.
    apply rf_call. eapply map_opt_Forall2; [|exact El]. intros a b Hab. eapply IH; exact Hab.
Qed.
