(* ReaderFacts.v — generic facts about the reader monad: bind, consumption,
   prefix-monotonicity (the heart of C10), structural "cannot panic" predicate (C04). *)
From Coq Require Import Ascii String.
From Coq Require Import List ZArith NArith Bool Lia.
From Coq.Strings Require Import Byte.
From OgRek Require Import Base Reader BaseFacts.
Import ListNotations.
Open Scope N_scope.

(* ---- take_n / split_line ------------------------------------------------------ *)

Lemma take_n_spec : forall l n a r, take_n l n = Some (a, r) -> l = a ++ r /\ N.of_nat (length a) = n.
Proof.
  induction l as [|b t IH]; intros n a r H; cbn in H.
  - destruct (n =? 0) eqn:E; [|discriminate]. inversion H; subst. apply N.eqb_eq in E. split; [reflexivity|cbn; lia].
  - destruct (n =? 0) eqn:E.
    + inversion H; subst. apply N.eqb_eq in E. split; [reflexivity|cbn; lia].
    + destruct (take_n t (N.pred n)) as [[a' r']|] eqn:T; [|discriminate].
      inversion H; subst. apply IH in T. destruct T as [T1 T2]. apply N.eqb_neq in E.
      split; [cbn; f_equal; exact T1|]. cbn [length]. lia.
Qed.

Lemma take_n_app_some : forall q t n a r,
  take_n q n = Some (a, r) -> take_n (q ++ t) n = Some (a, r ++ t).
Proof.
  induction q as [|b q IH]; intros t n a r H; cbn in H.
  - destruct (n =? 0) eqn:E; [|discriminate]. inversion H; subst. cbn.
    destruct t; cbn; rewrite E; reflexivity.
  - cbn. destruct (n =? 0) eqn:E.
    + inversion H; subst. reflexivity.
    + destruct (take_n q (N.pred n)) as [[a' r']|] eqn:T; [|discriminate].
      inversion H; subst. rewrite (IH t _ _ _ T). reflexivity.
Qed.

Lemma take_n_len : forall l n a r, take_n l n = Some (a, r) -> (length r <= length l)%nat.
Proof.
  intros l n a r H. apply take_n_spec in H. destruct H as [H _]. subst. rewrite app_length. lia.
Qed.

Lemma split_line_spec : forall l a r, split_line l = Some (a, r) -> l = a ++ x0a :: r.
Proof.
  induction l as [|b t IH]; intros a r H; cbn in H; [discriminate|].
  destruct (beqb b x0a) eqn:E.
  - inversion H; subst. cbn. f_equal.
    apply beqb_eq in E. exact E.
  - destruct (split_line t) as [[a' r']|] eqn:S; [|discriminate].
    inversion H; subst. cbn. f_equal. apply IH. reflexivity.
Qed.

Lemma split_line_app_some : forall q t a r,
  split_line q = Some (a, r) -> split_line (q ++ t) = Some (a, r ++ t).
Proof.
  induction q as [|b q IH]; intros t a r H; cbn in H; [discriminate|].
  cbn. destruct (beqb b x0a).
  - inversion H; subst. reflexivity.
  - destruct (split_line q) as [[a' r']|] eqn:S; [|discriminate].
    inversion H; subst. rewrite (IH t _ _ eq_refl). reflexivity.
Qed.

Lemma split_line_len : forall l a r, split_line l = Some (a, r) -> (length r < length l)%nat.
Proof.
  intros l a r H. apply split_line_spec in H. subst. rewrite app_length. cbn. lia.
Qed.

(* ---- bind ---------------------------------------------------------------------- *)

Lemma run_bind : forall A B (p : prog A) (f : A -> prog B) inp,
  run (bind p f) inp =
  match run p inp with
  | (Ok a, rest) => run (f a) rest
  | (Err e, rest) => (Err e, rest)
  | (Panic, rest) => (Panic, rest)
  | (OutOfFuel, rest) => (OutOfFuel, rest)
  end.
Proof.
  intros A B p f. induction p as [a|e| | |eof k IH|how n k IH|k IH]; intros inp; cbn; try reflexivity.
  - destruct inp as [|b t]; [reflexivity|apply IH].
  - destruct (take_n inp n) as [[a r]|]; [apply IH|reflexivity].
  - destruct (split_line inp) as [[a r]|]; [apply IH|reflexivity].
Qed.

(* ---- consumption ------------------------------------------------------------------ *)

Lemma run_len : forall A (p : prog A) inp r rest,
  run p inp = (r, rest) -> (length rest <= length inp)%nat.
Proof.
  intros A p. induction p as [a|e| | |eof k IH|how n k IH|k IH]; intros inp r rest H; cbn in H;
    try (inversion H; subst; lia).
  - destruct inp as [|b t]; [inversion H; subst; cbn; lia|].
    apply IH in H. cbn. lia.
  - destruct (take_n inp n) as [[a r']|] eqn:T.
    + apply IH in H. apply take_n_len in T. lia.
    + inversion H; subst. cbn. lia.
  - destruct (split_line inp) as [[a r']|] eqn:S.
    + apply IH in H. apply split_line_len in S. lia.
    + inversion H; subst. cbn. lia.
Qed.

(* ---- structural predicates on programs ----------------------------------------------- *)

(* no Go panic and no model fuel exhaustion on any input *)
Fixpoint nopanic {A} (p : prog A) : Prop :=
  match p with
  | Ret _ | Fail _ => True
  | PanicP | OOF => False
  | RdByte _ k => forall b, nopanic (k b)
  | RdN _ _ k => forall l, nopanic (k l)
  | RdLine k => forall l, nopanic (k l)
  end.

(* every ReadByte inside reports exhausted input as io.ErrUnexpectedEOF *)
Fixpoint ueof_only {A} (p : prog A) : Prop :=
  match p with
  | RdByte eof k => eof = EUnexpectedEOF /\ forall b, ueof_only (k b)
  | RdN _ _ k => forall l, ueof_only (k l)
  | RdLine k => forall l, ueof_only (k l)
  | _ => True
  end.

Definition bad_outcome {A} (r : res A) : Prop := r = Panic \/ r = OutOfFuel.

Lemma nopanic_run : forall A (p : prog A), nopanic p -> forall inp, ~ bad_outcome (fst (run p inp)).
Proof.
  intros A p. induction p as [a|e| | |eof k IH|how n k IH|k IH]; intros H inp; cbn in *;
    try (intros [C|C]; discriminate); try contradiction.
  - destruct inp as [|b t]; cbn; [intros [C|C]; discriminate|apply IH, H].
  - destruct (take_n inp n) as [[a r]|]; cbn; [apply IH, H|intros [C|C]; discriminate].
  - destruct (split_line inp) as [[a r]|]; cbn; [apply IH, H|intros [C|C]; discriminate].
Qed.

Lemma nopanic_bind : forall A B (p : prog A) (f : A -> prog B),
  nopanic p -> (forall a, nopanic (f a)) -> nopanic (bind p f).
Proof.
  intros A B p f. induction p; cbn; intros Hp Hf; auto.
Qed.

Lemma ueof_only_bind : forall A B (p : prog A) (f : A -> prog B),
  ueof_only p -> (forall a, ueof_only (f a)) -> ueof_only (bind p f).
Proof.
  intros A B p f. induction p as [a|e| | |eof k IH|how n k IH|k IH]; cbn; intros Hp Hf; auto.
  destruct Hp as [He Hk]. split; auto.
Qed.

(* ---- prefix-monotonicity ------------------------------------------------------------- *)

(* Running on a prefix q of the input either does exactly the same (the part t that was cut
   off was never looked at), or hits the end of q and reports io.ErrUnexpectedEOF having
   consumed all of q. *)
Lemma run_prefix : forall A (p : prog A), ueof_only p ->
  forall q t r rest, run p (q ++ t) = (r, rest) ->
    (exists rest', run p q = (r, rest') /\ rest = rest' ++ t)
    \/ run p q = (Err EUnexpectedEOF, []).
Proof.
  intros A p. induction p as [a|e| | |eof k IH|how n k IH|k IH]; intros U q t r rest H; cbn in *.
  - inversion H; subst. left. exists q. split; reflexivity.
  - inversion H; subst. left. exists q. split; reflexivity.
  - inversion H; subst. left. exists q. split; reflexivity.
  - inversion H; subst. left. exists q. split; reflexivity.
  - destruct U as [Ue Uk]. subst eof. destruct q as [|b q']; cbn in *.
    + right. reflexivity.
    + apply (IH b (Uk b)) in H. exact H.
  - destruct (take_n q n) as [[a r']|] eqn:T.
    + rewrite (take_n_app_some _ t _ _ _ T) in H. apply (IH a (U a)) in H. exact H.
    + right. reflexivity.
  - destruct (split_line q) as [[a r']|] eqn:S.
    + rewrite (split_line_app_some _ t _ _ S) in H. apply (IH a (U a)) in H. exact H.
    + right. reflexivity.
Qed.
