(* RueFacts.v — pydecodeRawUnicodeEscape undoes pyencodeRawUnicodeEscape on valid UTF-8. *)
From Coq Require Import Ascii String.
From Coq Require Import List ZArith NArith Bool Lia.
From Coq.Strings Require Import Byte.
From Coq Require Import ZifyBool ZifyN ZifyNat.
From OgRek Require Import Base Utf8 GoStrconv PyQuote BaseFacts CodecFacts IntFacts QuoteFacts.
Import ListNotations.
Open Scope N_scope.

(* linear helpers: no division reasoning inside lia *)
Lemma mod_range : forall x m k, m <> 0 -> k * m <= x -> x < k * m + m -> x mod m = x - k * m.
Proof.
  intros x m k Hm H1 H2. symmetry. apply N.mod_unique with (q := k); [lia|]. lia.
Qed.
Lemma div_range : forall x m k, m <> 0 -> k * m <= x -> x < k * m + m -> x / m = k.
Proof.
  intros x m k Hm H1 H2. symmetry. apply N.div_unique with (r := x - k * m); [lia|]. lia.
Qed.

(* ---- utf8_encode on a rune given by its digits ------------------------------------------------------ *)

Lemma enc2 : forall a0 a1, 2 <= a0 < 32 -> a1 < 64 ->
  utf8_encode (a0 * 64 + a1) = [N2b (192 + a0); N2b (128 + a1)] /\ valid_rune (a0 * 64 + a1) = true.
Proof.
  intros a0 a1 A0 A1. set (r := a0 * 64 + a1) in *.
  assert (Rr : 128 <= r < 2048) by (unfold r; lia).
  assert (Q1 : r / 64 = a0) by (apply div_range; unfold r; lia).
  assert (Q2 : r mod 64 = a1) by (rewrite (mod_range r 64 a0); unfold r; lia).
  unfold utf8_encode, valid_rune, is_surrogate, in_range, max_rune.
  assert (E1 : (r <? 128) = false) by (apply N.ltb_ge; lia).
  assert (E2 : (r <? 2048) = true) by (apply N.ltb_lt; lia). rewrite E1, E2, Q1, Q2. split; [reflexivity|].
  apply andb_true_iff. split; [apply N.leb_le; lia|]. apply negb_true_iff. apply andb_false_iff. left. apply N.leb_gt. lia.
Qed.

Lemma enc3 : forall a0 a1 a2, a0 < 16 -> a1 < 64 -> a2 < 64 ->
  2048 <= a0 * 4096 + a1 * 64 + a2 -> ~ (55296 <= a0 * 4096 + a1 * 64 + a2 <= 57343) ->
  utf8_encode (a0 * 4096 + a1 * 64 + a2) = [N2b (224 + a0); N2b (128 + a1); N2b (128 + a2)]
  /\ valid_rune (a0 * 4096 + a1 * 64 + a2) = true.
Proof.
  intros a0 a1 a2 A0 A1 A2 Lo NS. set (r := a0 * 4096 + a1 * 64 + a2) in *.
  assert (Hi : r < 65536) by (unfold r; lia).
  assert (Q1 : r / 4096 = a0) by (apply div_range; unfold r; lia).
  assert (Q2 : (r / 64) mod 64 = a1).
  { rewrite (div_range r 64 (a0 * 64 + a1)) by (unfold r; lia). rewrite (mod_range _ 64 a0) by lia. lia. }
  assert (Q3 : r mod 64 = a2) by (rewrite (mod_range r 64 (a0 * 64 + a1)); unfold r; lia).
  assert (V : valid_rune r = true).
  { unfold valid_rune, is_surrogate, in_range, max_rune. apply andb_true_iff. split; [apply N.leb_le; lia|].
    apply negb_true_iff. apply andb_false_iff. destruct (N.le_gt_cases 55296 r); [right; apply N.leb_gt; lia|left; apply N.leb_gt; lia]. }
  split; [|exact V]. unfold utf8_encode. rewrite V.
  assert (E1 : (r <? 128) = false) by (apply N.ltb_ge; lia).
  assert (E2 : (r <? 2048) = false) by (apply N.ltb_ge; lia).
  assert (E3 : (r <? 65536) = true) by (apply N.ltb_lt; lia). rewrite E1, E2, E3, Q1, Q2, Q3. reflexivity.
Qed.

Lemma enc4 : forall a0 a1 a2 a3, a0 < 8 -> a1 < 64 -> a2 < 64 -> a3 < 64 ->
  65536 <= a0 * 262144 + a1 * 4096 + a2 * 64 + a3 <= 1114111 ->
  utf8_encode (a0 * 262144 + a1 * 4096 + a2 * 64 + a3) =
    [N2b (240 + a0); N2b (128 + a1); N2b (128 + a2); N2b (128 + a3)]
  /\ valid_rune (a0 * 262144 + a1 * 4096 + a2 * 64 + a3) = true.
Proof.
  intros a0 a1 a2 a3 A0 A1 A2 A3 Lr. set (r := a0 * 262144 + a1 * 4096 + a2 * 64 + a3) in *.
  assert (Q1 : r / 262144 = a0) by (apply div_range; unfold r; lia).
  assert (Q2 : (r / 4096) mod 64 = a1).
  { rewrite (div_range r 4096 (a0 * 64 + a1)) by (unfold r; lia). rewrite (mod_range _ 64 a0) by lia. lia. }
  assert (Q3 : (r / 64) mod 64 = a2).
  { rewrite (div_range r 64 (a0 * 4096 + a1 * 64 + a2)) by (unfold r; lia).
    rewrite (mod_range _ 64 (a0 * 64 + a1)) by lia. lia. }
  assert (Q4 : r mod 64 = a3) by (rewrite (mod_range r 64 (a0 * 4096 + a1 * 64 + a2)); unfold r; lia).
  assert (V : valid_rune r = true).
  { unfold valid_rune, is_surrogate, in_range, max_rune. apply andb_true_iff. split; [apply N.leb_le; lia|].
    apply negb_true_iff. apply andb_false_iff. right. apply N.leb_gt. lia. }
  split; [|exact V]. unfold utf8_encode. rewrite V.
  assert (E1 : (r <? 128) = false) by (apply N.ltb_ge; lia).
  assert (E2 : (r <? 2048) = false) by (apply N.ltb_ge; lia).
  assert (E3 : (r <? 65536) = false) by (apply N.ltb_ge; lia). rewrite E1, E2, E3, Q1, Q2, Q3, Q4. reflexivity.
Qed.

Lemma N2b_off : forall k x, k <= x -> x < 256 -> N2b (k + (x - k)) = N2b x.
Proof. intros k x H1 H2. f_equal. lia. Qed.

(* ---- utf8_encode undoes utf8_decode on a valid sequence -------------------------------------------- *)

Lemma utf8_encode_decode : forall s r w, utf8_decode s = (r, w) -> (r <> rune_error \/ w <> 1%nat) -> s <> [] ->
  utf8_encode r = firstn w s /\ valid_rune r = true.
Proof.
  intros s r w H Hv Hs. destruct s as [|b0 t]; [contradiction|].
  unfold utf8_decode in H. destruct (utf8_first (b2N b0)) as [[sz lo] hi] eqn:F.
  pose proof (b2N_lt b0) as B0.
  assert (Bad : (rune_error, 1%nat) = (r, w) -> False).
  { intros E. inversion E; subst. destruct Hv as [X|X]; apply X; reflexivity. }
  destruct (utf8_first_cases _ _ _ _ F) as [[-> B]|[->|[[-> [B L]]|[[-> [B [L [Lh L']]]]|[-> [B [L [Lh L']]]]]]]].
  - change (1 =? 1) with true in H. cbv iota in H. inversion H; subst. cbn [firstn].
    unfold utf8_encode, valid_rune, is_surrogate, in_range, max_rune.
    assert (E : (b2N b0 <? 128) = true) by (apply N.ltb_lt; exact B). rewrite E, N2b_b2N. split; [reflexivity|].
    apply andb_true_iff. split; [apply N.leb_le; lia|]. apply negb_true_iff. apply andb_false_iff. left. apply N.leb_gt. lia.
  - change (0 =? 1) with false in H. change (0 =? 0) with true in H. cbv iota in H. exfalso. exact (Bad H).
  - change (2 =? 1) with false in H. change (2 =? 0) with false in H. change (2 =? 2) with true in H. cbv iota in H.
    destruct t as [|b1 t1]; [exfalso; exact (Bad H)|].
    destruct (negb (in_range lo hi (b2N b1))) eqn:R1; [exfalso; exact (Bad H)|].
    inversion H; subst. apply negb_false_iff in R1. unfold in_range in R1. apply andb_true_iff in R1.
    destruct R1 as [Rlo Rhi]. apply N.leb_le in Rlo, Rhi. pose proof (b2N_lt b1) as B1.
    assert (Hi : hi <= 191).
    { unfold utf8_first in F. destruct (b2N b0 <? 128); [inversion F; lia|]. destruct (b2N b0 <? 194); [inversion F; lia|].
      destruct (b2N b0 <? 224) eqn:Q; [inversion F; lia|]. apply N.ltb_ge in Q. lia. }
    rewrite (mod_range (b2N b0) 32 6) by lia. rewrite (mod_range (b2N b1) 64 2) by lia.
    destruct (enc2 (b2N b0 - 6 * 32) (b2N b1 - 2 * 64) ltac:(lia) ltac:(lia)) as [E V].
    rewrite E, V. cbn [firstn]. change (6 * 32) with 192. change (2 * 64) with 128.
    rewrite !N2b_off by lia. rewrite !N2b_b2N. split; reflexivity.
  - change (3 =? 1) with false in H. change (3 =? 0) with false in H. change (3 =? 2) with false in H.
    change (3 =? 3) with true in H. cbv iota in H.
    destruct t as [|b1 t1]; [exfalso; exact (Bad H)|].
    destruct (negb (in_range lo hi (b2N b1))) eqn:R1; [exfalso; exact (Bad H)|].
    destruct t1 as [|b2 t2]; [exfalso; exact (Bad H)|].
    destruct (negb (in_range 128 191 (b2N b2))) eqn:R2; [exfalso; exact (Bad H)|].
    inversion H; subst. apply negb_false_iff in R1, R2. unfold in_range in R1, R2.
    apply andb_true_iff in R1, R2. destruct R1 as [Rlo Rhi]. destruct R2 as [Rlo2 Rhi2].
    apply N.leb_le in Rlo, Rhi, Rlo2, Rhi2.
    assert (Sur : b2N b0 = 237 -> hi = 159).
    { intros E. unfold utf8_first in F. rewrite E in F. cbn in F. inversion F. reflexivity. }
    rewrite (mod_range (b2N b0) 16 14) by lia. rewrite (mod_range (b2N b1) 64 2) by lia.
    rewrite (mod_range (b2N b2) 64 2) by lia.
    change (14 * 16) with 224. change (2 * 64) with 128.
    set (a0 := b2N b0 - 224). set (a1 := b2N b1 - 128). set (a2 := b2N b2 - 128).
    assert (A0 : a0 < 16) by (unfold a0; lia). assert (A1 : a1 < 64) by (unfold a1; lia). assert (A2 : a2 < 64) by (unfold a2; lia).
    assert (Lo : 2048 <= a0 * 4096 + a1 * 64 + a2).
    { unfold a0, a1. destruct (N.eq_dec (b2N b0) 224) as [E|E]; [specialize (L' E)|]; lia. }
    assert (NS : ~ (55296 <= a0 * 4096 + a1 * 64 + a2 <= 57343)).
    { unfold a0, a1. destruct (N.eq_dec (b2N b0) 237) as [E|E]; [specialize (Sur E)|]; lia. }
    destruct (enc3 a0 a1 a2 A0 A1 A2 Lo NS) as [E V]. rewrite E, V. cbn [firstn]. unfold a0, a1, a2.
    rewrite !N2b_off by lia. rewrite !N2b_b2N. split; reflexivity.
  - change (4 =? 1) with false in H. change (4 =? 0) with false in H. change (4 =? 2) with false in H.
    change (4 =? 3) with false in H. cbv iota in H.
    destruct t as [|b1 t1]; [exfalso; exact (Bad H)|].
    destruct (negb (in_range lo hi (b2N b1))) eqn:R1; [exfalso; exact (Bad H)|].
    destruct t1 as [|b2 t2]; [exfalso; exact (Bad H)|].
    destruct (negb (in_range 128 191 (b2N b2))) eqn:R2; [exfalso; exact (Bad H)|].
    destruct t2 as [|b3 t3]; [exfalso; exact (Bad H)|].
    destruct (negb (in_range 128 191 (b2N b3))) eqn:R3; [exfalso; exact (Bad H)|].
    inversion H; subst. apply negb_false_iff in R1, R2, R3. unfold in_range in R1, R2, R3.
    apply andb_true_iff in R1, R2, R3. destruct R1 as [Rlo Rhi]. destruct R2 as [Rlo2 Rhi2]. destruct R3 as [Rlo3 Rhi3].
    apply N.leb_le in Rlo, Rhi, Rlo2, Rhi2, Rlo3, Rhi3.
    assert (Top : b2N b0 = 244 -> hi = 143).
    { intros E. unfold utf8_first in F. rewrite E in F. cbn in F. inversion F. reflexivity. }
    rewrite (mod_range (b2N b0) 8 30) by lia. rewrite (mod_range (b2N b1) 64 2) by lia.
    rewrite (mod_range (b2N b2) 64 2) by lia. rewrite (mod_range (b2N b3) 64 2) by lia.
    change (30 * 8) with 240. change (2 * 64) with 128.
    set (a0 := b2N b0 - 240). set (a1 := b2N b1 - 128). set (a2 := b2N b2 - 128). set (a3 := b2N b3 - 128).
    assert (A0 : a0 < 8) by (unfold a0; lia). assert (A1 : a1 < 64) by (unfold a1; lia).
    assert (A2 : a2 < 64) by (unfold a2; lia). assert (A3 : a3 < 64) by (unfold a3; lia).
    assert (Lr : 65536 <= a0 * 262144 + a1 * 4096 + a2 * 64 + a3 <= 1114111).
    { unfold a0, a1. destruct (N.eq_dec (b2N b0) 240) as [E|E]; [specialize (L' E)|];
        (destruct (N.eq_dec (b2N b0) 244) as [E'|E']; [specialize (Top E')|]); lia. }
    destruct (enc4 a0 a1 a2 a3 A0 A1 A2 A3 Lr) as [E V]. rewrite E, V. cbn [firstn]. unfold a0, a1, a2, a3.
    rewrite !N2b_off by lia. rewrite !N2b_b2N. split; reflexivity.
Qed.

(* ---- \uXXXX and \UXXXXXXXX read back -------------------------------------------------------------- *)

Lemma hex_value_digits4 : forall d3 d2 d1 d0 t acc, d3 < 16 -> d2 < 16 -> d1 < 16 -> d0 < 16 ->
  hex_value 4 ([hexdigit d3; hexdigit d2; hexdigit d1; hexdigit d0] ++ t) acc =
  Some (acc * 65536 + d3 * 4096 + d2 * 256 + d1 * 16 + d0, t).
Proof.
  intros d3 d2 d1 d0 t acc H3 H2 H1 H0. cbn [app hex_value].
  rewrite !unhex_hexdigit by assumption. f_equal. f_equal. lia.
Qed.

Lemma hex4_digits : forall r, r < 65536 ->
  exists d3 d2 d1 d0, d3 < 16 /\ d2 < 16 /\ d1 < 16 /\ d0 < 16 /\
    r = d3 * 4096 + d2 * 256 + d1 * 16 + d0 /\ hex4 r = [hexdigit d3; hexdigit d2; hexdigit d1; hexdigit d0].
Proof.
  intros r H.
  exists (r / 4096), ((r / 256) mod 16), ((r / 16) mod 16), (r mod 16).
  assert (D0 : r = 16 * (r / 16) + r mod 16) by (apply N.div_mod; lia).
  assert (D1 : r / 16 = 16 * (r / 16 / 16) + (r / 16) mod 16) by (apply N.div_mod; lia).
  assert (D2 : r / 16 / 16 = 16 * (r / 16 / 16 / 16) + (r / 16 / 16) mod 16) by (apply N.div_mod; lia).
  rewrite !N.div_div in D1, D2 by lia. change (16 * 16) with 256 in *. change (256 * 16) with 4096 in *.
  assert (M0 : r mod 16 < 16) by (apply N.mod_lt; lia).
  assert (M1 : (r / 16) mod 16 < 16) by (apply N.mod_lt; lia).
  assert (M2 : (r / 256) mod 16 < 16) by (apply N.mod_lt; lia).
  assert (M3 : r / 4096 < 16) by (apply N.div_lt_upper_bound; lia).
  repeat split; try assumption; [lia|].
  unfold hex4. rewrite (N.mod_small (r / 4096) 16) by exact M3. reflexivity.
Qed.

Lemma hex_value_hex4 : forall r t acc, r < 65536 -> hex_value 4 (hex4 r ++ t) acc = Some (acc * 65536 + r, t).
Proof.
  intros r t acc H. destruct (hex4_digits r H) as [d3 [d2 [d1 [d0 [H3 [H2 [H1 [H0 [Er Eh]]]]]]]]].
  rewrite Eh, hex_value_digits4 by assumption. f_equal. f_equal. lia.
Qed.

Lemma hex_value_hex8 : forall r t, r < 4294967296 -> hex_value 8 (hex8 r ++ t) 0 = Some (r, t).
Proof.
  intros r t H. unfold hex8. rewrite <- app_assoc.
  assert (Hq : r / 65536 < 65536) by (apply N.div_lt_upper_bound; lia).
  assert (Hm : r mod 65536 < 65536) by (apply N.mod_lt; lia).
  destruct (hex4_digits (r / 65536) Hq) as [d3 [d2 [d1 [d0 [H3 [H2 [H1 [H0 [Er Eh]]]]]]]]].
  destruct (hex4_digits (r mod 65536) Hm) as [e3 [e2 [e1 [e0 [G3 [G2 [G1 [G0 [Fr Fh]]]]]]]]].
  rewrite Eh, Fh. cbn [app hex_value]. rewrite !unhex_hexdigit by assumption. f_equal. f_equal.
  pose proof (N.div_mod r 65536 ltac:(lia)). lia.
Qed.

Lemma unquote_u4 : forall r t, r < 65536 -> valid_rune r = true ->
  unquote_char ("\"%byte :: "u"%byte :: hex4 r ++ t) = Some (r, t).
Proof.
  intros r t H V. unfold unquote_char. change (negb (beqb "\"%byte "\"%byte)) with false. cbv iota.
  change (b2N "u"%byte) with 117.
  change (117 =? 97) with false. change (117 =? 98) with false. change (117 =? 102) with false.
  change (117 =? 110) with false. change (117 =? 114) with false. change (117 =? 116) with false.
  change (117 =? 118) with false. change (117 =? 120) with false. change (117 =? 117) with true. cbv iota.
  rewrite hex_value_hex4 by exact H. cbn [N.mul N.add]. rewrite V. reflexivity.
Qed.

Lemma unquote_U8 : forall r t, r < 4294967296 -> valid_rune r = true ->
  unquote_char ("\"%byte :: "U"%byte :: hex8 r ++ t) = Some (r, t).
Proof.
  intros r t H V. unfold unquote_char. change (negb (beqb "\"%byte "\"%byte)) with false. cbv iota.
  change (b2N "U"%byte) with 85.
  change (85 =? 97) with false. change (85 =? 98) with false. change (85 =? 102) with false.
  change (85 =? 110) with false. change (85 =? 114) with false. change (85 =? 116) with false.
  change (85 =? 118) with false. change (85 =? 120) with false. change (85 =? 117) with false.
  change (85 =? 85) with true. cbv iota.
  rewrite hex_value_hex8 by exact H. rewrite V. reflexivity.
Qed.

(* ---- the decoder loop ------------------------------------------------------------------------------- *)

Lemma rue_nil : forall f ne, rue_decode_loop f ne [] = Ok [].
Proof. destruct f; reflexivity. Qed.

Lemma rue_fuel_mono : forall f ne s l, rue_decode_loop f ne s = Ok l ->
  forall f', (f <= f')%nat -> rue_decode_loop f' ne s = Ok l.
Proof.
  induction f as [|f IH]; intros ne s l H f' Hf.
  - destruct s; [|cbn in H; discriminate]. cbn in H. inversion H; subst. apply rue_nil.
  - destruct s as [|c t]; [cbn in H; inversion H; subst; apply rue_nil|].
    destruct f' as [|f']; [lia|]. cbn [rue_decode_loop] in H |- *.
    assert (K : forall r ne0 rest,
              match rue_decode_loop f ne0 rest with Ok l0 => Ok (r :: l0) | e => e end = Ok l ->
              match rue_decode_loop f' ne0 rest with Ok l0 => Ok (r :: l0) | e => e end = Ok l).
    { intros r ne0 rest HK. destruct (rue_decode_loop f ne0 rest) as [l0| | |] eqn:E; try discriminate.
      rewrite (IH ne0 rest l0 E f' ltac:(lia)). exact HK. }
    destruct (negb (beqb c "\"%byte)); [apply K; exact H|].
    destruct t as [|c1 t1]; [apply K; exact H|].
    destruct ((ne + 1) mod 2 =? 0); [apply K; exact H|].
    destruct (beqb c1 "u"%byte || beqb c1 "U"%byte); [|apply K; exact H].
    destruct (unquote_char (c :: c1 :: t1)) as [[r tail]|]; [apply K; exact H|exact H].
Qed.

Lemma rue_step_plain : forall f ne c t l, beqb c "\"%byte = false -> rue_decode_loop f 0 t = Ok l ->
  rue_decode_loop (S f) ne (c :: t) = Ok (b2N c :: l).
Proof. intros f ne c t l Hc H. cbn [rue_decode_loop]. rewrite Hc. cbn [negb]. rewrite H. reflexivity. Qed.

Lemma rue_step_u4 : forall f r t l, r < 65536 -> valid_rune r = true -> rue_decode_loop f 0 t = Ok l ->
  rue_decode_loop (S f) 0 ("\"%byte :: "u"%byte :: hex4 r ++ t) = Ok (r :: l).
Proof.
  intros f r t l Hr V H. cbn [rue_decode_loop]. change (negb (beqb "\"%byte "\"%byte)) with false. cbv iota.
  change ((0 + 1) mod 2 =? 0) with false. cbv iota.
  change (beqb "u"%byte "u"%byte || beqb "u"%byte "U"%byte) with true. cbv iota.
  rewrite (unquote_u4 r t Hr V), H. reflexivity.
Qed.

Lemma rue_step_U8 : forall f r t l, r < 4294967296 -> valid_rune r = true -> rue_decode_loop f 0 t = Ok l ->
  rue_decode_loop (S f) 0 ("\"%byte :: "U"%byte :: hex8 r ++ t) = Ok (r :: l).
Proof.
  intros f r t l Hr V H. cbn [rue_decode_loop]. change (negb (beqb "\"%byte "\"%byte)) with false. cbv iota.
  change ((0 + 1) mod 2 =? 0) with false. cbv iota.
  change (beqb "U"%byte "u"%byte || beqb "U"%byte "U"%byte) with true. cbv iota.
  rewrite (unquote_U8 r t Hr V), H. reflexivity.
Qed.

(* ---- the round trip ----------------------------------------------------------------------------------- *)

(* the runes of a valid string, as the encoder walks them *)
Fixpoint runes_of (fuel : nat) (s : bytes) : list N :=
  match fuel with
  | O => []
  | S f => match s with
           | [] => []
           | _ => let '(r, w) := utf8_decode s in r :: runes_of f (skipn w s)
           end
  end.

Lemma rue_round : forall fuel s e, (length s <= fuel)%nat -> rue_encode_loop fuel s = Some e ->
  (forall F, (length e <= F)%nat -> rue_decode_loop F 0 e = Ok (runes_of fuel s)) /\
  flat_map utf8_encode (runes_of fuel s) = s /\ IntFacts.no_lf e.
Proof.
  induction fuel as [|f IH]; intros s e Hl H.
  - destruct s; [|cbn in Hl; lia]. cbn in H. inversion H; subst. repeat split. intros F _. apply rue_nil.
  - destruct s as [|c0 t0].
    { cbn in H. inversion H; subst. repeat split. intros F _. apply rue_nil. }
    cbn [rue_encode_loop runes_of] in H |- *. set (s := c0 :: t0) in *. assert (Hs : s <> []) by discriminate.
    destruct (utf8_decode s) as [r w] eqn:D.
    pose proof (utf8_decode_width_pos s Hs) as Wp. rewrite D in Wp. cbn [snd] in Wp.
    pose proof (utf8_decode_width_le s r w D) as Wl.
    destruct ((r =? rune_error) && Nat.eqb w 1) eqn:Bad; [discriminate|].
    assert (Hv : r <> rune_error \/ w <> 1%nat).
    { apply andb_false_iff in Bad. destruct Bad as [B|B]; [left; apply N.eqb_neq; exact B|right; apply Nat.eqb_neq; exact B]. }
    destruct (utf8_encode_decode s r w D Hv Hs) as [Enc V].
    set (rest := skipn w s) in *.
    assert (Lr : (length rest <= f)%nat) by (unfold rest; rewrite skipn_length; lia).
    destruct (rue_encode_loop f rest) as [e'|] eqn:Er; [|discriminate].
    destruct (IH rest e' Lr Er) as [Dec [Fm Nl]]. inversion H; subst e. clear H.
    assert (Rmax : r < 4294967296).
    { unfold valid_rune, max_rune in V. apply andb_true_iff in V. destruct V as [V _]. apply N.leb_le in V. lia. }
    split; [|split].
    + (* decoding *)
      intros F HF. rewrite app_length in HF.
      pose proof (Dec (length e') (Nat.le_refl _)) as HB.
      destruct ((r =? 92) || (r =? 10)) eqn:E1.
      { apply orb_true_iff in E1. destruct E1 as [E|E]; apply N.eqb_eq in E; subst r.
        - change (bs "\u00" ++ [hexdigit (92 / 16); hexdigit (92 mod 16)]) with ("\"%byte :: "u"%byte :: hex4 92) in *.
          eapply rue_fuel_mono; [apply (rue_step_u4 (length e') 92 e' _ ltac:(lia) V HB)|cbn in HF |- *; lia].
        - change (bs "\u00" ++ [hexdigit (10 / 16); hexdigit (10 mod 16)]) with ("\"%byte :: "u"%byte :: hex4 10) in *.
          eapply rue_fuel_mono; [apply (rue_step_u4 (length e') 10 e' _ ltac:(lia) V HB)|cbn in HF |- *; lia]. }
      apply orb_false_iff in E1. destruct E1 as [E92 E10]. apply N.eqb_neq in E92, E10.
      destruct (65536 <=? r) eqn:E2.
      { change (bs "\U" ++ hex8 r) with ("\"%byte :: "U"%byte :: hex8 r) in *. cbn [app] in HF |- *.
        eapply rue_fuel_mono; [apply (rue_step_U8 (length e') r e' _ Rmax V HB)|cbn [length] in HF; lia]. }
      apply N.leb_gt in E2.
      destruct (256 <=? r) eqn:E3.
      { change (bs "\u" ++ hex4 r) with ("\"%byte :: "u"%byte :: hex4 r) in *. cbn [app] in HF |- *.
        eapply rue_fuel_mono; [apply (rue_step_u4 (length e') r e' _ E2 V HB)|cbn [length] in HF; lia]. }
      apply N.leb_gt in E3. cbn [app] in HF |- *.
      assert (Hc : beqb (N2b r) "\"%byte = false).
      { unfold beqb. rewrite b2N_N2b by lia. apply N.eqb_neq. exact E92. }
      pose proof (rue_step_plain (length e') 0 (N2b r) e' _ Hc HB) as St. rewrite b2N_N2b in St by lia.
      eapply rue_fuel_mono; [exact St|cbn [length] in HF; lia].
    + (* the runes re-encode to the string *)
      cbn [flat_map]. rewrite Fm, Enc. apply firstn_skipn.
    + (* no line feed in the output *)
      apply nolf_app; [|exact Nl].
      destruct ((r =? 92) || (r =? 10)) eqn:E1.
      { apply orb_true_iff in E1. destruct E1 as [E|E]; apply N.eqb_eq in E; subst r; reflexivity. }
      apply orb_false_iff in E1. destruct E1 as [E92 E10]. apply N.eqb_neq in E92, E10.
      assert (HexNl : forall d, d < 16 -> b2N (hexdigit d) <> 10) by (intros d Hd; pose proof (hexdigit_high d Hd); lia).
      assert (H4 : forall x, nolf (hex4 x)).
      { intros x. unfold hex4. repeat (apply nolf_cons; [apply HexNl; apply N.mod_lt; lia|]). reflexivity. }
      destruct (65536 <=? r).
      { change (bs "\U" ++ hex8 r) with ("\"%byte :: "U"%byte :: hex8 r).
        apply nolf_cons; [cbv; discriminate|]. apply nolf_cons; [cbv; discriminate|]. unfold hex8. apply nolf_app; apply H4. }
      destruct (256 <=? r) eqn:E3.
      { change (bs "\u" ++ hex4 r) with ("\"%byte :: "u"%byte :: hex4 r).
        apply nolf_cons; [cbv; discriminate|]. apply nolf_cons; [cbv; discriminate|]. apply H4. }
      apply N.leb_gt in E3. apply nolf_cons; [|reflexivity]. rewrite b2N_N2b by exact E3. exact E10.
Qed.

Theorem rue_roundtrip : forall s e, pyencode_raw_unicode_escape s = Some e ->
  pydecode_raw_unicode_escape e = Ok s /\ IntFacts.no_lf e.
Proof.
  intros s e H. unfold pyencode_raw_unicode_escape in H.
  destruct (rue_round (length s) s e (Nat.le_refl _) H) as [Dec [Fm Nl]]. split; [|exact Nl].
  unfold pydecode_raw_unicode_escape. rewrite (Dec (length e) (Nat.le_refl _)), Fm. reflexivity.
Qed.
