(* LiftFacts.v — on programs without memo / DUP / POP / mutation opcodes the heap machine PyVM2 loads
   an object graph that unfolds to the tree the memo-free machine PyVM loads.  Used to carry the C01
   theorem (encoder program -> documented Python value) over to PyVM2 and, through the C06
   simulation, to Decode(Encode(v)). *)
From Coq Require Import Ascii String.
From Coq Require Import List ZArith NArith Bool Lia.
From Coq.Strings Require Import Byte.
From OgRek Require Import Base Utf8 GoStrconv PyQuote Float Value PyEq Decoder Insn PyVM PyVM2.
From OgRek Require Import BaseFacts.
Import ListNotations.
Open Scope N_scope.

Section Unfold.
  Variable h : list (N * qobj).

  (* q unfolds to the tree p *)
  Fixpoint U (p : pv) (q : qv) {struct p} : Prop :=
    let Ul := fix Ul (l : list pv) (ql : list qv) {struct l} : Prop :=
      match l, ql with
      | [], [] => True
      | a :: t, b :: t' => U a b /\ Ul t t'
      | _, _ => False
      end in
    let Ut := fix Ut (l : list (pv * pv)) (ql : list (qv * qv)) {struct l} : Prop :=
      match l, ql with
      | [], [] => True
      | (k, v) :: t, (k', v') :: t' => U k k' /\ U v v' /\ Ut t t'
      | _, _ => False
      end in
    match p, q with
    | PNone, QNone => True
    | PBool a, QBool b => a = b
    | PInt a, QInt b => a = b
    | PFloat a, QFloat b => a = b
    | PUni a, QUni b => a = b
    | PStr a, QStr b => a = b
    | PBytes a, QBytes b => a = b
    | PBArr a, QBArr b => a = b
    | PTuple l, QTuple ql => Ul l ql
    | PList l, QRef id => exists ql, qheap_get h id = Some (OList ql) /\ Ul l ql
    | PDict tr, QRef id => exists qtr, qheap_get h id = Some (ODict qtr) /\ Ut tr qtr
    | PGlobal m n, QGlobal m' n' => m = m' /\ n = n'
    | PCall f a, QCall qf qa => U f qf /\ Ul a qa
    | PPers x, QPers y => U x y
    | _, _ => False
    end.

  Definition Ul : list pv -> list qv -> Prop :=
    fix Ul (l : list pv) (ql : list qv) {struct l} : Prop :=
      match l, ql with
      | [], [] => True
      | a :: t, b :: t' => U a b /\ Ul t t'
      | _, _ => False
      end.
  Definition Ut : list (pv * pv) -> list (qv * qv) -> Prop :=
    fix Ut (l : list (pv * pv)) (ql : list (qv * qv)) {struct l} : Prop :=
      match l, ql with
      | [], [] => True
      | (k, v) :: t, (k', v') :: t' => U k k' /\ U v v' /\ Ut t t'
      | _, _ => False
      end.

  Lemma Ul_Forall2 : forall l ql, Ul l ql <-> Forall2 U l ql.
  Proof.
    induction l as [|a t IH]; intros ql; destruct ql as [|b t'].
    - split; intros _; [constructor|exact I].
    - split; intros H; [contradiction|inversion H].
    - split; intros H; [contradiction|inversion H].
    - change (Ul (a :: t) (b :: t')) with (U a b /\ Ul t t'). split.
      + intros [H1 H2]. constructor; [exact H1|apply IH; exact H2].
      + intros H. inversion H; subst. split; [assumption|apply IH; assumption].
  Qed.

  Definition Upair (kv : pv * pv) (kq : qv * qv) : Prop := U (fst kv) (fst kq) /\ U (snd kv) (snd kq).
  Lemma Ut_Forall2 : forall l ql, Ut l ql <-> Forall2 Upair l ql.
  Proof.
    induction l as [|[k v] t IH]; intros ql; destruct ql as [|[k' v'] t'].
    - split; intros _; [constructor|exact I].
    - split; intros H; [contradiction|inversion H].
    - split; intros H; [contradiction|inversion H].
    - change (Ut ((k, v) :: t) ((k', v') :: t')) with (U k k' /\ U v v' /\ Ut t t'). split.
      + intros [H1 [H2 H3]]. constructor; [split; assumption|apply IH; exact H3].
      + intros H. inversion H as [|? ? ? ? [H1 H2] H3]; subst. split; [exact H1|]. split; [exact H2|apply IH; exact H3].
  Qed.

  Lemma U_tuple : forall l ql, U (PTuple l) (QTuple ql) <-> Forall2 U l ql.
  Proof. intros. rewrite <- Ul_Forall2. reflexivity. Qed.
  Lemma U_list : forall l id, U (PList l) (QRef id) <-> exists ql, qheap_get h id = Some (OList ql) /\ Forall2 U l ql.
  Proof.
    intros l id. change (U (PList l) (QRef id)) with (exists ql, qheap_get h id = Some (OList ql) /\ Ul l ql).
    split; intros [ql [H1 H2]]; exists ql; (split; [exact H1|]); apply Ul_Forall2; exact H2.
  Qed.
  Lemma U_dict : forall tr id, U (PDict tr) (QRef id) <-> exists qtr, qheap_get h id = Some (ODict qtr) /\ Forall2 Upair tr qtr.
  Proof.
    intros tr id. change (U (PDict tr) (QRef id)) with (exists qtr, qheap_get h id = Some (ODict qtr) /\ Ut tr qtr).
    split; intros [ql [H1 H2]]; exists ql; (split; [exact H1|]); apply Ut_Forall2; exact H2.
  Qed.
  Lemma U_call : forall f a qf qa, U (PCall f a) (QCall qf qa) <-> U f qf /\ Forall2 U a qa.
  Proof.
    intros. change (U (PCall f a) (QCall qf qa)) with (U f qf /\ Ul a qa). rewrite Ul_Forall2. reflexivity.
  Qed.
End Unfold.

(* ---- induction over Python trees --------------------------------------------------------------------- *)
Section pv_ind'.
  Variable P : pv -> Prop.
  Hypothesis HNone : P PNone.
  Hypothesis HBool : forall b, P (PBool b).
  Hypothesis HInt : forall z, P (PInt z).
  Hypothesis HFloat : forall b, P (PFloat b).
  Hypothesis HUni : forall s, P (PUni s).
  Hypothesis HStr : forall s, P (PStr s).
  Hypothesis HBytes : forall s, P (PBytes s).
  Hypothesis HBArr : forall s, P (PBArr s).
  Hypothesis HTuple : forall l, Forall P l -> P (PTuple l).
  Hypothesis HList : forall l, Forall P l -> P (PList l).
  Hypothesis HDict : forall tr, Forall (fun kv => P (fst kv) /\ P (snd kv)) tr -> P (PDict tr).
  Hypothesis HGlobal : forall m n, P (PGlobal m n).
  Hypothesis HCall : forall f a, P f -> Forall P a -> P (PCall f a).
  Hypothesis HPers : forall p, P p -> P (PPers p).

  Fixpoint pv_ind' (v : pv) : P v :=
    let fix go (l : list pv) : Forall P l :=
      match l with
      | [] => Forall_nil P
      | x :: t => Forall_cons x (pv_ind' x) (go t)
      end in
    let fix gop (l : list (pv * pv)) : Forall (fun kv => P (fst kv) /\ P (snd kv)) l :=
      match l with
      | [] => Forall_nil _
      | (k, x) :: t => Forall_cons (k, x) (conj (pv_ind' k) (pv_ind' x)) (gop t)
      end in
    match v with
    | PNone => HNone | PBool b => HBool b | PInt z => HInt z | PFloat b => HFloat b
    | PUni s => HUni s | PStr s => HStr s | PBytes s => HBytes s | PBArr s => HBArr s
    | PTuple l => HTuple l (go l)
    | PList l => HList l (go l)
    | PDict tr => HDict tr (gop tr)
    | PGlobal m n => HGlobal m n
    | PCall f a => HCall f a (pv_ind' f) (go a)
    | PPers p => HPers p (pv_ind' p)
    end.
End pv_ind'.

Definition hsub (h h' : list (N * qobj)) : Prop := forall id o, qheap_get h id = Some o -> qheap_get h' id = Some o.

Lemma Forall2_mono_Forall' : forall A B (P Q : A -> B -> Prop) l l',
  Forall (fun a => forall x, P a x -> Q a x) l -> Forall2 P l l' -> Forall2 Q l l'.
Proof.
  intros A B P Q l l' F H. induction H as [|a x l l' Hax Hl IH]; [constructor|].
  inversion F; subst. constructor; [auto|apply IH; assumption].
Qed.

Lemma U_mono : forall h h', hsub h h' -> forall p q, U h p q -> U h' p q.
Proof.
  intros h h' Hs p. induction p as [ |b|z|b|s|s|s|s|l IH|l IH|tr IH|m n|f a IHf IHa|p IHp] using pv_ind';
    intros q H; destruct q; try exact H; try contradiction.
  - apply U_tuple in H. apply U_tuple. eapply Forall2_mono_Forall'; eassumption.
  - apply U_list in H. destruct H as [ql [Hg F]]. apply U_list. exists ql. split; [apply Hs; exact Hg|].
    eapply Forall2_mono_Forall'; eassumption.
  - apply U_dict in H. destruct H as [qtr [Hg F]]. apply U_dict. exists qtr. split; [apply Hs; exact Hg|].
    eapply Forall2_mono_Forall'; [|exact F]. eapply Forall_impl; [|exact IH].
    intros [k v] [Hk Hv] [k' v'] [U1 U2]. split; [apply Hk; exact U1|apply Hv; exact U2].
  - apply U_call in H. destruct H as [Hf Ha]. apply U_call. split; [apply IHf; exact Hf|].
    eapply Forall2_mono_Forall'; eassumption.
  - cbn in H |- *. apply IHp. exact H.
Qed.

(* hashable trees: the same key on both machines *)
Lemma U_key : forall h p q k, U h p q -> pv_key p = Some k -> q_key q = Some k.
Proof.
  intros h p. induction p as [ |b|z|b|s|s|s|s|l IH|l IH|tr IH|m n|f a IHf IHa|p IHp] using pv_ind';
    intros q k H Hk; destruct q; try contradiction; cbn in H, Hk; try discriminate; subst; try exact Hk.
  - (* tuple *)
    change (U h (PTuple l) (QTuple l0)) in H. apply U_tuple in H. cbn [q_key].
    destruct (map_opt pv_key l) as [ks|] eqn:K; [|discriminate]. inversion Hk; subst.
    assert (M : map_opt q_key l0 = Some ks).
    { clear Hk. revert l0 ks H K. induction IH as [|a t Ha Ft IHt]; intros l0 ks H K.
      - inversion H; subst. cbn in K. inversion K. reflexivity.
      - inversion H as [|? x0 ? t0 Hax Ht]; subst. cbn in K.
        destruct (pv_key a) as [ka|] eqn:Ka; [|discriminate]. destruct (map_opt pv_key t) as [kt|] eqn:Kt; [|discriminate].
        inversion K; subst. cbn. rewrite (Ha x0 ka Hax eq_refl), (IHt t0 kt Ht eq_refl). reflexivity. }
    rewrite M. reflexivity.
  - destruct H; subst. exact Hk.
  - (* call *)
    destruct f; try discriminate. change (U h (PCall (PGlobal m n) a) (QCall q args)) in H. apply U_call in H.
    destruct H as [Hf Ha]. destruct q; try contradiction. cbn in Hf. destruct Hf; subst. cbn [q_key].
    destruct (map_opt pv_key a) as [ks|] eqn:K; [|discriminate]. inversion Hk; subst.
    assert (M : map_opt q_key args = Some ks).
    { clear Hk. revert args ks Ha K. induction IHa as [|a0 t Ha0 Ft IHt]; intros l0 ks H K.
      - inversion H; subst. cbn in K. inversion K. reflexivity.
      - inversion H as [|? x0 ? t0 Hax Ht]; subst. cbn in K.
        destruct (pv_key a0) as [ka|] eqn:Ka; [|discriminate]. destruct (map_opt pv_key t) as [kt|] eqn:Kt; [|discriminate].
        inversion K; subst. cbn. rewrite (Ha0 x0 ka Hax eq_refl), (IHt t0 kt Ht eq_refl). reflexivity. }
    rewrite M. reflexivity.
  - (* pers *)
    destruct (pv_key p) as [kp|] eqn:Kp; [|discriminate]. inversion Hk; subst. cbn [q_key].
    rewrite (IHp q kp H eq_refl). reflexivity.
Qed.

(* ---- one instruction ----------------------------------------------------------------------------- *)

Definition irel (h : list (N * qobj)) (a : pitem) (b : qitem) : Prop :=
  match a, b with
  | PMark, QMark => True
  | PObj p, QObj q => U h p q
  | _, _ => False
  end.
Definition SU (h : list (N * qobj)) : list pitem -> list qitem -> Prop := Forall2 (irel h).

Lemma SU_mono : forall h h' s qs, hsub h h' -> SU h s qs -> SU h' s qs.
Proof.
  intros h h' s qs Hs F. induction F as [|a b s qs Hab F IH]; constructor; [|exact IH].
  destruct a, b; try exact Hab; try contradiction. eapply U_mono; eassumption.
Qed.

Lemma pop_mark_rel : forall h s qs, SU h s qs -> forall acc qacc l t,
  Forall2 (U h) acc qacc -> ppop_mark s acc = Some (l, t) ->
  exists ql qt, qpop_mark qs qacc = Some (ql, qt) /\ Forall2 (U h) l ql /\ SU h t qt.
Proof.
  intros h s qs F. induction F as [|a b s qs Hab F IH]; intros acc qacc l t Fa H; cbn in H; [discriminate|].
  destruct a as [|p]; destruct b as [|q]; try contradiction.
  - inversion H; subst. exists qacc, qs. cbn. repeat split; assumption.
  - cbn. apply (IH (p :: acc) (q :: qacc) l t); [constructor; assumption|exact H].
Qed.

(* leaf values contain no list or dict *)
Fixpoint flatv (v : pv) : bool :=
  match v with
  | PList _ | PDict _ => false
  | PTuple l => forallb flatv l
  | PCall f a => flatv f && forallb flatv a
  | PPers p => flatv p
  | _ => true
  end.

Lemma U_inj : forall h v, flatv v = true -> U h v (inj v).
Proof.
  intros h v. induction v as [ |b|z|b|s|s|s|s|l IH|l IH|tr IH|m n|f a IHf IHa|p IHp] using pv_ind';
    intros Hf; cbn in Hf |- *; try reflexivity; try discriminate.
  - change (U h (PTuple l) (QTuple (map inj l))). apply U_tuple.
    induction IH as [|a t Ha Ft IHt]; [constructor|]. cbn in Hf. apply andb_true_iff in Hf. destruct Hf as [H1 H2].
    cbn [map]. constructor; [apply Ha; exact H1|apply IHt; exact H2].
  - split; reflexivity.
  - apply andb_true_iff in Hf. destruct Hf as [H1 H2].
    change (U h (PCall f a) (QCall (inj f) (map inj a))). apply U_call. split; [apply IHf; exact H1|].
    clear IHf H1. induction IHa as [|a0 t Ha Ft IHt]; [constructor|]. cbn in H2. apply andb_true_iff in H2.
    destruct H2 as [G1 G2]. cbn [map]. constructor; [apply Ha; exact G1|apply IHt; exact G2].
  - apply IHp. exact Hf.
Qed.

(* a leaf instruction pushes a flat value and does not look at the stack *)
Lemma leaf_push : forall pr i s s', is_leaf i = true -> pstep pr i s = Some s' ->
  exists v, pstep pr i [] = Some [PObj v] /\ s' = PObj v :: s /\ flatv v = true.
Proof.
  intros pr i s s' L H. destruct i; try discriminate L; cbn [pstep push1] in H |- *;
    repeat match type of H with
           | context [if ?c then _ else _] => destruct c
           | context [match ?x with _ => _ end] => destruct x
           end;
    try discriminate; inversion H; subst; eexists; (split; [reflexivity|split; reflexivity]).
Qed.

Lemma pd_of_items_acc : forall items acc tr, pd_of_items items acc = Some tr ->
  exists tr', tr = acc ++ tr' /\ pd_of_items items [] = Some tr'.
Proof.
  intros items. remember (length items) as n eqn:Hn. revert items Hn.
  induction n as [n IH] using lt_wf_ind. intros items Hn acc tr H.
  destruct items as [|k [|v t]]; cbn in H.
  - inversion H; subst. exists []. rewrite app_nil_r. split; reflexivity.
  - discriminate.
  - unfold pd_set in H. destruct (pv_key k) eqn:K; [|discriminate].
    destruct (IH (length t) ltac:(subst n; cbn; lia) t eq_refl _ _ H) as [tr1 [E1 P1]].
    cbn [pd_of_items]. unfold pd_set. rewrite K. cbn [app].
    destruct (pd_of_items t [(k, v)]) as [tr2|] eqn:P2.
    + destruct (IH (length t) ltac:(subst n; cbn; lia) t eq_refl _ _ P2) as [tr3 [E3 P3]].
      rewrite P1 in P3. inversion P3; subst tr3. exists ((k, v) :: tr1). subst. rewrite <- app_assoc. split; reflexivity.
    + exfalso.
      (* pd_of_items succeeds from any accumulator if it does from one *)
      assert (G : forall its a1 a2 r, pd_of_items its a1 = Some r -> pd_of_items its a2 <> None).
      { clear. intros its. remember (length its) as m eqn:Hm. revert its Hm.
        induction m as [m IHm] using lt_wf_ind. intros its Hm a1 a2 r Hr.
        destruct its as [|k0 [|v0 t0]]; cbn in Hr |- *; try discriminate.
        unfold pd_set in *. destruct (pv_key k0); [|discriminate].
        eapply (IHm (length t0)); [subst m; cbn; lia|reflexivity|exact Hr]. }
      exact (G t _ _ _ P1 P2).
Qed.

Lemma pairs_rel : forall h n items qitems tr, (length items <= n)%nat ->
  Forall2 (U h) items qitems -> pd_of_items items [] = Some tr ->
  exists qtr, q_pairs qitems = Some qtr /\ Forall2 (Upair h) tr qtr.
Proof.
  intros h. induction n as [|n IH]; intros items qitems tr Hl F H.
  - destruct items; [|cbn in Hl; lia]. inversion F; subst. cbn in H. inversion H; subst. exists []. split; [reflexivity|constructor].
  - destruct items as [|k [|v t]].
    + inversion F; subst. cbn in H. inversion H; subst. exists []. split; [reflexivity|constructor].
    + cbn in H. discriminate.
    + inversion F as [|? qk ? qt1 Hk F1]; subst. inversion F1 as [|? qv0 ? qt Hv F2]; subst.
      cbn [pd_of_items] in H. unfold pd_set in H. destruct (pv_key k) as [kk|] eqn:K; [|discriminate]. cbn [app] in H.
      destruct (pd_of_items_acc _ _ _ H) as [tr' [E P]]. subst tr.
      destruct (IH t qt tr' ltac:(cbn in Hl; lia) F2 P) as [qtr [Q Fq]].
      exists ((qk, qv0) :: qtr). cbn [q_pairs]. unfold q_hashable. rewrite (U_key _ _ _ _ Hk K), Q.
      split; [reflexivity|]. constructor; [split; assumption|exact Fq].
Qed.

Lemma U_uni_inv : forall h s q, U h (PUni s) q -> q = QUni s.
Proof. intros h s q H. destruct q; try contradiction. cbn in H. subst. reflexivity. Qed.

Lemma U_text : forall h p q t, U h p q -> is_text p t = q_is_text q t.
Proof.
  intros h p q t H. destruct p; destruct q; try contradiction; try reflexivity; cbn in H |- *; subst; reflexivity.
Qed.

Lemma call_rel : forall h pr f qf args qargs r, U h f qf -> Forall2 (U h) args qargs ->
  py_call pr f args = Some r -> exists qr, q_call pr qf qargs = Some qr /\ U h r qr.
Proof.
  intros h pr f qf args qargs r Hf Fa H. unfold py_call in H. destruct f; try discriminate.
  destruct qf; try contradiction. cbn in Hf. destruct Hf; subst m0 n0. unfold q_call.
  assert (Len : length args = length qargs) by (clear - Fa; induction Fa; cbn; congruence).
  assert (T1 : forall t, is_text (nth 1 args PNone) t = q_is_text (nth 1 qargs QNone) t).
  { intros t. destruct args as [|a0 [|a1 ar]]; destruct qargs as [|x0 [|x1 xr]]; try discriminate Len; try reflexivity.
    inversion Fa as [|? ? ? ? _ Fa1]; subst. inversion Fa1 as [|? ? ? ? H1 _]; subst. cbn [nth]. eapply U_text. exact H1. }
  rewrite <- Len, <- T1.
  destruct (bytes_eqb m (bs "_codecs") && bytes_eqb n (bs "encode") && Nat.eqb (length args) 2
            && is_text (nth 1 args PNone) (bs "latin1")) eqn:Cc.
  - destruct args as [|a0 ar]; [cbn in Cc; rewrite andb_false_r in Cc; discriminate|].
    destruct qargs as [|x0 xr]; [discriminate Len|]. inversion Fa as [|? ? ? ? H0 _]; subst. cbn [nth] in H |- *.
    destruct a0; try discriminate. apply U_uni_inv in H0. subst x0.
    destruct (utf8_valid s && forallb (fun r0 => r0 <? 256) (utf8_runes s)); [|discriminate]. inversion H; subst.
    eexists. split; [reflexivity|reflexivity].
  - destruct (bytes_eqb m (if pr <=? 2 then bs "__builtin__" else bs "builtins") && bytes_eqb n (bs "bytearray")) eqn:Cb.
    + destruct args as [|a0 [|a1 ar]]; destruct qargs as [|x0 [|x1 xr]]; try discriminate Len; try discriminate H.
      * inversion Fa as [|? ? ? ? H0 _]; subst. destruct a0; try discriminate. inversion H; subst.
        destruct x0; try contradiction. cbn in H0. subst. eexists. split; reflexivity.
      * (* PyVM has no two-argument form *) destruct a0; discriminate.
    + inversion H; subst. eexists. split; [reflexivity|]. apply U_call. split; [cbn; split; reflexivity|exact Fa].
Qed.

(* the instructions of memo-free programs *)
Definition is_simple (i : insn) : bool :=
  is_leaf i ||
  match i with
  | IMark | ITuple | ITuple1 | ITuple2 | ITuple3 | IEmptyList | IList | IEmptyDict | IDict
  | IStackGlobal | IReduce | IBinpersid => true
  | _ => false
  end.

Definition hbound (st : qstate) : Prop := forall id o, qheap_get (q_heap st) id = Some o -> id < q_next st.

Lemma qheap_get_set_same' : forall h id o, qheap_get (qheap_set h id o) id = Some o.
Proof.
  induction h as [|[i o'] t IH]; intros id o; cbn.
  - rewrite N.eqb_refl. reflexivity.
  - destruct (i =? id) eqn:E; cbn; rewrite E; [reflexivity|apply IH].
Qed.
Lemma qheap_get_set_other' : forall h id o j, j <> id -> qheap_get (qheap_set h id o) j = qheap_get h j.
Proof.
  induction h as [|[i o'] t IH]; intros id o j H; cbn.
  - assert (E : (id =? j) = false) by (apply N.eqb_neq; congruence). rewrite E. reflexivity.
  - destruct (i =? id) eqn:E; cbn.
    + apply N.eqb_eq in E. subst i. assert (E2 : (id =? j) = false) by (apply N.eqb_neq; congruence). rewrite E2. reflexivity.
    + destruct (i =? j); [reflexivity|apply IH; exact H].
Qed.

Lemma qnew_facts : forall st o s, hbound st ->
  hsub (q_heap st) (q_heap (qnew st o s)) /\ hbound (qnew st o s) /\
  qheap_get (q_heap (qnew st o s)) (q_next st) = Some o.
Proof.
  intros st o s Hb. unfold hbound in *. cbn [qnew q_heap q_next]. split; [|split].
  - intros id o' H. rewrite qheap_get_set_other'; [exact H|]. specialize (Hb id o' H). lia.
  - intros id o' H. destruct (N.eq_dec id (q_next st)) as [->|Ne]; [lia|].
    rewrite qheap_get_set_other' in H by exact Ne. specialize (Hb id o' H). lia.
  - apply qheap_get_set_same'.
Qed.

Lemma hsub_refl : forall h, hsub h h.
Proof. intros h id o H. exact H. Qed.

Lemma SU_cons_inv : forall h a s qs, SU h (a :: s) qs -> exists b qt, qs = b :: qt /\ irel h a b /\ SU h s qt.
Proof. intros h a s qs F. inversion F as [|x y l l' Hxy Hl]; subst. exists y, l'. repeat split; assumption. Qed.

Lemma SU_obj_inv : forall h p s qs, SU h (PObj p :: s) qs -> exists q qt, qs = QObj q :: qt /\ U h p q /\ SU h s qt.
Proof.
  intros h p s qs F. destruct (SU_cons_inv _ _ _ _ F) as [b [qt [E [Hab St]]]]. destruct b as [|q]; [contradiction|].
  exists q, qt. repeat split; assumption.
Qed.

Lemma lift_step : forall i pr s s' qst,
  is_simple i = true -> pstep pr i s = Some s' ->
  SU (q_heap qst) s (q_stack qst) -> q_proto qst = pr -> hbound qst ->
  exists qst', qstep i qst = Some qst' /\ SU (q_heap qst') s' (q_stack qst') /\
               hsub (q_heap qst) (q_heap qst') /\ q_proto qst' = pr /\ hbound qst' /\ q_memo qst' = q_memo qst.
Proof.
  intros i pr s s' qst Hi H S Hp Hb. unfold qstep. unfold is_simple in Hi.
  destruct (is_leaf i) eqn:L.
  { destruct (leaf_push pr i s s' L H) as [v [E [Es Fv]]]. rewrite Hp, E. subst s'.
    exists (qpush (inj v) qst). split; [reflexivity|]. cbn [qpush qset_stack q_stack q_heap q_proto q_next q_memo].
    split; [constructor; [apply U_inj; exact Fv|exact S]|]. split; [apply hsub_refl|]. repeat split; assumption. }
  cbn [orb] in Hi. cbv zeta.
  destruct i; try discriminate Hi; try discriminate L; cbn [pstep push1] in H.
  - (* MARK *) inversion H; subst. eexists. split; [reflexivity|]. cbn. split; [constructor; [exact I|exact S]|].
    split; [apply hsub_refl|]. repeat split; assumption.
  - (* TUPLE *)
    destruct (ppop_mark s []) as [[l t]|] eqn:Pm; [|discriminate]. inversion H; subst.
    destruct (pop_mark_rel _ _ _ S [] [] l t (Forall2_nil _) Pm) as [ql [qt [Q [Fl St]]]]. rewrite Q.
    eexists. split; [reflexivity|]. cbn. split; [constructor; [apply U_tuple; exact Fl|exact St]|].
    split; [apply hsub_refl|]. repeat split; assumption.
  - (* TUPLE1 *)
    destruct s as [|[|a] t]; try discriminate. inversion H; subst.
    destruct (SU_obj_inv _ _ _ _ S) as [qa [qt [E1 [Ha St]]]]. rewrite E1.
    eexists. split; [reflexivity|]. cbn. split; [constructor; [apply U_tuple; constructor; [exact Ha|constructor]|exact St]|].
    split; [apply hsub_refl|]. repeat split; assumption.
  - (* TUPLE2 *)
    destruct s as [|[|b] [|[|a] t]]; try discriminate. inversion H; subst.
    destruct (SU_obj_inv _ _ _ _ S) as [qb [qt1 [E1 [Hb' St1]]]]. destruct (SU_obj_inv _ _ _ _ St1) as [qa [qt [E2 [Ha St]]]].
    subst qt1. rewrite E1.
    eexists. split; [reflexivity|]. cbn.
    split; [constructor; [apply U_tuple; constructor; [exact Ha|constructor; [exact Hb'|constructor]]|exact St]|].
    split; [apply hsub_refl|]. repeat split; assumption.
  - (* TUPLE3 *)
    destruct s as [|[|c] [|[|b] [|[|a] t]]]; try discriminate. inversion H; subst.
    destruct (SU_obj_inv _ _ _ _ S) as [qc [qt2 [E1 [Hc St2]]]]. destruct (SU_obj_inv _ _ _ _ St2) as [qb [qt1 [E2 [Hb' St1]]]].
    destruct (SU_obj_inv _ _ _ _ St1) as [qa [qt [E3 [Ha St]]]]. subst qt2 qt1.
    rewrite E1. eexists. split; [reflexivity|]. cbn.
    split; [constructor; [apply U_tuple; constructor; [exact Ha|constructor; [exact Hb'|constructor; [exact Hc|constructor]]]|exact St]|].
    split; [apply hsub_refl|]. repeat split; assumption.
  - (* EMPTY_LIST *)
    inversion H; subst. destruct (qnew_facts qst (OList []) (q_stack qst) Hb) as [Hs [Hb' Hg]].
    eexists. split; [reflexivity|]. split.
    + cbn [qnew q_stack]. constructor; [|eapply SU_mono; eassumption].
      cbn [irel]. apply U_list. exists []. split; [exact Hg|constructor].
    + split; [exact Hs|]. repeat split; try assumption; reflexivity.
  - (* LIST *)
    destruct (ppop_mark s []) as [[l t]|] eqn:Pm; [|discriminate]. inversion H; subst.
    destruct (pop_mark_rel _ _ _ S [] [] l t (Forall2_nil _) Pm) as [ql [qt [Q [Fl St]]]]. rewrite Q.
    destruct (qnew_facts qst (OList ql) qt Hb) as [Hs [Hb' Hg]].
    eexists. split; [reflexivity|]. split.
    + cbn [qnew q_stack]. constructor; [|eapply SU_mono; eassumption].
      cbn [irel]. apply U_list. exists ql. split; [exact Hg|].
      eapply Forall2_mono_Forall'; [|exact Fl]. apply Forall_forall. intros a _ x Hx. eapply U_mono; eassumption.
    + split; [exact Hs|]. repeat split; try assumption; reflexivity.
  - (* EMPTY_DICT *)
    inversion H; subst. destruct (qnew_facts qst (ODict []) (q_stack qst) Hb) as [Hs [Hb' Hg]].
    eexists. split; [reflexivity|]. split.
    + cbn [qnew q_stack]. constructor; [|eapply SU_mono; eassumption].
      cbn [irel]. apply U_dict. exists []. split; [exact Hg|constructor].
    + split; [exact Hs|]. repeat split; try assumption; reflexivity.
  - (* DICT *)
    destruct (ppop_mark s []) as [[l t]|] eqn:Pm; [|discriminate].
    destruct (pd_of_items l []) as [tr|] eqn:Pd; [|discriminate]. inversion H; subst.
    destruct (pop_mark_rel _ _ _ S [] [] l t (Forall2_nil _) Pm) as [ql [qt [Q [Fl St]]]]. rewrite Q.
    destruct (pairs_rel _ (length l) l ql tr (Nat.le_refl _) Fl Pd) as [qtr [Qp Ft]]. rewrite Qp.
    destruct (qnew_facts qst (ODict qtr) qt Hb) as [Hs [Hb' Hg]].
    eexists. split; [reflexivity|]. split.
    + cbn [qnew q_stack]. constructor; [|eapply SU_mono; eassumption].
      cbn [irel]. apply U_dict. exists qtr. split; [exact Hg|].
      eapply Forall2_mono_Forall'; [|exact Ft]. apply Forall_forall. intros [k v] _ [k' v'] [H1 H2].
      split; eapply U_mono; eassumption.
    + split; [exact Hs|]. repeat split; try assumption; reflexivity.
  - (* STACK_GLOBAL *)
    destruct s as [|[|[]] [|[|[]] t]]; try discriminate. inversion H; subst.
    destruct (SU_obj_inv _ _ _ _ S) as [qn [qt1 [E1 [Hn St1]]]]. destruct (SU_obj_inv _ _ _ _ St1) as [qm [qt [E2 [Hm St]]]].
    subst qt1. apply U_uni_inv in Hn, Hm. subst qn qm. rewrite E1.
    eexists. split; [reflexivity|]. cbn. split; [constructor; [split; reflexivity|exact St]|].
    split; [apply hsub_refl|]. repeat split; assumption.
  - (* REDUCE *)
    destruct s as [|[|[]] [|[|f] t]]; try discriminate.
    destruct (py_call pr f l) as [r|] eqn:Pc; [|discriminate]. inversion H; subst.
    destruct (SU_obj_inv _ _ _ _ S) as [qargs [qt1 [E1 [Hargs St1]]]]. destruct (SU_obj_inv _ _ _ _ St1) as [qf [qt [E2 [Hf St]]]].
    subst qt1. destruct qargs; try contradiction. apply U_tuple in Hargs.
    destruct (call_rel _ _ _ _ _ _ _ Hf Hargs Pc) as [qr [Qc Ur]]. rewrite E1, Qc.
    eexists. split; [reflexivity|]. cbn. split; [constructor; [exact Ur|exact St]|].
    split; [apply hsub_refl|]. repeat split; assumption.
  - (* BINPERSID *)
    destruct s as [|[|p] t]; try discriminate. inversion H; subst.
    destruct (SU_obj_inv _ _ _ _ S) as [qp [qt [E1 [Hp' St]]]]. rewrite E1.
    eexists. split; [reflexivity|]. cbn. split; [constructor; [exact Hp'|exact St]|].
    split; [apply hsub_refl|]. repeat split; assumption.
Qed.

(* ---- whole programs ----------------------------------------------------------------------------------- *)

Definition prog_ok (i : insn) : bool := is_simple i || match i with IStop | IProto _ => true | _ => false end.

Lemma prun_simple : forall i pr prog s, is_simple i = true ->
  prun pr (i :: prog) s = match pstep pr i s with Some s' => prun pr prog s' | None => None end.
Proof. intros i pr prog s H. destruct i; try discriminate H; reflexivity. Qed.
Lemma qrun_simple : forall i prog st, is_simple i = true ->
  qrun (i :: prog) st = match qstep i st with Some st' => qrun prog st' | None => None end.
Proof. intros i prog st H. destruct i; try discriminate H; reflexivity. Qed.

Theorem lift_run : forall prog pr s qst x,
  forallb prog_ok prog = true -> prun pr prog s = Some x ->
  SU (q_heap qst) s (q_stack qst) -> q_proto qst = pr -> hbound qst ->
  exists q qst', qrun prog qst = Some (q, qst') /\ U (q_heap qst') x q /\ q_memo qst' = q_memo qst.
Proof.
  induction prog as [|i prog IH]; intros pr s qst x Hok H S Hp Hb; [discriminate|].
  cbn [forallb] in Hok. apply andb_true_iff in Hok. destruct Hok as [Hi Hok].
  unfold prog_ok in Hi. destruct (is_simple i) eqn:Hs.
  - rewrite (prun_simple i pr prog s Hs) in H. destruct (pstep pr i s) as [s1|] eqn:Hs1; [|discriminate].
    destruct (lift_step i pr s s1 qst Hs Hs1 S Hp Hb) as [qst1 [Q [S1 [_ [P1 [B1 M1]]]]]].
    rewrite (qrun_simple i prog qst Hs), Q. destruct (IH pr s1 qst1 x Hok H S1 P1 B1) as [q [qst' [R [Ux Mm]]]].
    exists q, qst'. split; [exact R|]. split; [exact Ux|congruence].
  - cbn [orb] in Hi. destruct i; try discriminate Hi.
    + (* PROTO *)
      cbn [prun] in H. cbn [qrun]. match type of H with (if ?cc then _ else _) = _ => destruct cc eqn:E; [|discriminate] end.
      destruct (IH _ s {| q_stack := q_stack qst; q_memo := q_memo qst; q_heap := q_heap qst; q_next := q_next qst; q_proto := p |}
                   x Hok H S eq_refl Hb) as [q [qst' [R [Ux Mm]]]].
      exists q, qst'. split; [exact R|]. split; [exact Ux|exact Mm].
    + (* STOP *)
      cbn [prun] in H. cbn [qrun]. destruct s as [|[|v] t]; try discriminate. inversion H; subst.
      destruct (SU_obj_inv _ _ _ _ S) as [q [qt [E [Uq St]]]]. rewrite E.
      exists q, (qset_stack qst qt). split; [reflexivity|]. split; [exact Uq|reflexivity].
Qed.

Theorem lift_load : forall prog x, forallb prog_ok prog = true -> pyload prog = Some x ->
  exists q qst, qload prog = Some (q, qst) /\ U (q_heap qst) x q.
Proof.
  intros prog x Hok H. unfold pyload in H. unfold qload.
  destruct (lift_run prog 0 [] q_init x Hok H ltac:(constructor) eq_refl ltac:(intros id o Hg; discriminate Hg))
    as [q [qst [R [Ux _]]]].
  exists q, qst. split; assumption.
Qed.
