(* GoStrconv.v — the parts of Go's strconv / math/big / fmt that og-rek calls,
   modelled by what they do on the value at hand:
     ParseInt(s,10,64), big.Int.SetString(s,10), ParseFloat(s,64) (exact, correctly
     rounded, decimal + hex + inf/nan), UnquoteChar(s,0) on the escapes og-rek lets
     through, QuoteRune for control runes, fmt %d.
   Definitions only. *)
From Coq Require Import Ascii String.
From Coq Require Import List ZArith NArith Bool.
From Coq.Strings Require Import Byte.
From OgRek Require Import Base Utf8.
Import ListNotations.
Open Scope N_scope.

(* ---- integers --------------------------------------------------------- *)

(* syntax shared by ParseInt(base 10) and SetString(base 10): [+-]?[0-9]+ *)
Definition split_sign (s : bytes) : bool * bytes :=
  match s with
  | b :: t => if beqb b "-"%byte then (true, t)
              else if beqb b "+"%byte then (false, t) else (false, s)
  | [] => (false, [])
  end.

Definition parse_dec_Z (s : bytes) : option Z :=
  match split_sign s with
  | (neg, ds) =>
      match ds with
      | [] => None
      | _ => if forallb is_digit ds
             then Some (if neg then (- Z.of_N (dec_value ds))%Z else Z.of_N (dec_value ds))
             else None
      end
  end.

Inductive parse_int_res := PIok (z : Z) | PIrange | PIsyntax.

Fixpoint digit_prefix (s : bytes) : bytes :=
  match s with
  | c :: t => if is_digit c then c :: digit_prefix t else []
  | [] => []
  end.

(* strconv.ParseInt(s, 10, 64).  ParseUint scans left to right: an invalid character is a
   syntax error unless the digits before it already overflowed uint64 (range error first). *)
Definition parse_int64 (s : bytes) : parse_int_res :=
  match split_sign s with
  | (neg, ds) =>
      match ds with
      | [] => PIsyntax
      | _ =>
          let pre := digit_prefix ds in
          if Nat.eqb (length pre) (length ds) then
            let z := if neg then (- Z.of_N (dec_value ds))%Z else Z.of_N (dec_value ds) in
            if in_int64 z then PIok z else PIrange
          else if (18446744073709551615 <? dec_value pre) then PIrange else PIsyntax
      end
  end.

(* ---- floats ----------------------------------------------------------- *)

(* shift right keeping a sticky bit in bit 0 *)
Definition shr_sticky (m : N) (s : N) : N :=
  let q := N.shiftr m s in
  if N.shiftl q s =? m then q else N.lor q 1.

Definition f64_inf_bits (neg : bool) : N :=
  (if neg then 9223372036854775808 else 0) + 9218868437227405312.
Definition f64_nan_bits : N := 9221120237041090561.   (* math.NaN(): 0x7FF8000000000001 *)

(* Correctly rounded (nearest-even) float64 of  m * 2^e (+ epsilon if sticky).
   Returns (bits, overflow). *)
Definition round_to_f64 (neg : bool) (m : N) (e : Z) (sticky : bool) : N * bool :=
  let sign := if neg then 9223372036854775808 else 0 in
  if m =? 0 then (sign, false) else
  let b := (Z.of_N (N.log2 m) + 1)%Z in              (* bit length *)
  (* normalise to exactly 55 bits *)
  let '(m1, e1) :=
    if (55 <? b)%Z then (shr_sticky m (Z.to_N (b - 55)%Z), (e + (b - 55))%Z)
    else (N.shiftl m (Z.to_N (55 - b)%Z), (e - (55 - b))%Z) in
  let m1 := if sticky then N.lor m1 1 else m1 in
  (* denormalise *)
  let '(m2, e2) :=
    if (e1 <? -1076)%Z then
      let s := Z.min (-1076 - e1)%Z 60%Z in (shr_sticky m1 (Z.to_N s), (-1076)%Z)
    else (m1, e1) in
  (* round on the two bottom bits *)
  let r := N.lor (N.land m2 3) (N.land (N.shiftr m2 2) 1) in
  let m3 := N.shiftr m2 2 in
  let m4 := if r =? 3 then m3 + 1 else m3 in
  let e4 := (e2 + 2)%Z in
  let '(m5, e5) := if m4 =? 9007199254740992 then (N.shiftr m4 1, (e4 + 1)%Z) else (m4, e4) in
  if m5 <? 4503599627370496 then (sign + m5, false)      (* denormal or zero *)
  else
    let biased := (e5 + 52 + 1023)%Z in
    if (2046 <? biased)%Z then (f64_inf_bits neg, true)
    else (sign + Z.to_N biased * 4503599627370496 + (m5 - 4503599627370496), false).

(* nearest float64 of the positive rational p/q *)
Definition round_ratio_f64 (neg : bool) (p q : N) : N * bool :=
  if p =? 0 then round_to_f64 neg 0 0%Z false else
  let lp := Z.of_N (N.log2 p) in
  let lq := Z.of_N (N.log2 q) in
  let s := Z.to_N (Z.max 0 (58 + lq - lp))%Z in
  let num := N.shiftl p s in
  let m := num / q in
  let sticky := negb (m * q =? num) in
  round_to_f64 neg m (- Z.of_N s)%Z sticky.

Definition lower (b : byte) : byte :=
  let n := b2N b in if (65 <=? n) && (n <=? 90) then N2b (n + 32) else b.

Fixpoint common_prefix_ci (s t : bytes) : nat :=
  match s, t with
  | a :: s', b :: t' => if beqb (lower a) b then S (common_prefix_ci s' t') else O
  | _, _ => O
  end.

(* strconv.special: Some (bits, consumed) *)
Definition pf_special (s : bytes) : option (N * nat) :=
  let inf_case (neg : bool) (nsign : nat) (r : bytes) :=
    let n := common_prefix_ci r (bs "infinity") in
    let n := if Nat.ltb 3 n && Nat.ltb n 8 then 3%nat else n in
    if Nat.eqb n 3 || Nat.eqb n 8 then Some (f64_inf_bits neg, (nsign + n)%nat) else None in
  match s with
  | [] => None
  | c :: t =>
      if beqb c "+"%byte then inf_case false 1%nat t
      else if beqb c "-"%byte then inf_case true 1%nat t
      else if beqb (lower c) "i"%byte then inf_case false 0%nat s
      else if beqb (lower c) "n"%byte then
        if Nat.eqb (common_prefix_ci s (bs "nan")) 3 then Some (f64_nan_bits, 3%nat) else None
      else None
  end.

(* strconv.underscoreOK *)
Inductive usaw := SawStart | SawDigit | SawUnder | SawOther.
Fixpoint underscore_ok_loop (hex : bool) (saw : usaw) (s : bytes) : bool :=
  match s with
  | [] => match saw with SawUnder => false | _ => true end
  | c :: t =>
      let lc := b2N (lower c) in
      if is_digit c || (hex && (97 <=? lc) && (lc <=? 102)) then underscore_ok_loop hex SawDigit t
      else if beqb c "_"%byte then
        match saw with SawDigit => underscore_ok_loop hex SawUnder t | _ => false end
      else match saw with SawUnder => false | _ => underscore_ok_loop hex SawOther t end
  end.
Definition underscore_ok (s : bytes) : bool :=
  let s := match s with
           | c :: t => if beqb c "-"%byte || beqb c "+"%byte then t else s
           | [] => s end in
  match s with
  | z :: x :: t =>
      let lx := lower x in
      if beqb z "0"%byte && (beqb lx "b"%byte || beqb lx "o"%byte || beqb lx "x"%byte)
      then underscore_ok_loop (beqb lx "x"%byte) SawDigit t
      else underscore_ok_loop false SawStart s
  | _ => underscore_ok_loop false SawStart s
  end.

(* state of readFloat's digit loop *)
Record rf_state := {
  rf_mant : N;        (* all significant digits, as an integer in the base *)
  rf_nd : Z;          (* number of significant digits *)
  rf_dp : Z;          (* decimal point position *)
  rf_sawdot : bool;
  rf_sawdigits : bool;
  rf_under : bool }.

(* returns the state and the unconsumed rest *)
Fixpoint rf_digits (hex : bool) (st : rf_state) (s : bytes) : rf_state * bytes :=
  match s with
  | [] => (st, [])
  | c :: t =>
      let lc := b2N (lower c) in
      if beqb c "_"%byte then
        rf_digits hex {| rf_mant := rf_mant st; rf_nd := rf_nd st; rf_dp := rf_dp st;
                         rf_sawdot := rf_sawdot st; rf_sawdigits := rf_sawdigits st;
                         rf_under := true |} t
      else if beqb c "."%byte then
        if rf_sawdot st then (st, s)
        else rf_digits hex {| rf_mant := rf_mant st; rf_nd := rf_nd st; rf_dp := rf_nd st;
                              rf_sawdot := true; rf_sawdigits := rf_sawdigits st;
                              rf_under := rf_under st |} t
      else if is_digit c then
        if beqb c "0"%byte && (rf_nd st =? 0)%Z then
          rf_digits hex {| rf_mant := rf_mant st; rf_nd := rf_nd st; rf_dp := (rf_dp st - 1)%Z;
                           rf_sawdot := rf_sawdot st; rf_sawdigits := true;
                           rf_under := rf_under st |} t
        else
          rf_digits hex {| rf_mant := rf_mant st * (if hex then 16 else 10) + digit_val c;
                           rf_nd := (rf_nd st + 1)%Z; rf_dp := rf_dp st;
                           rf_sawdot := rf_sawdot st; rf_sawdigits := true;
                           rf_under := rf_under st |} t
      else if hex && (97 <=? lc) && (lc <=? 102) then
        rf_digits hex {| rf_mant := rf_mant st * 16 + (lc - 87);
                         rf_nd := (rf_nd st + 1)%Z; rf_dp := rf_dp st;
                         rf_sawdot := rf_sawdot st; rf_sawdigits := true;
                         rf_under := rf_under st |} t
      else (st, s)
  end.

(* exponent digits with Go's clamp: if e < 10000 { e = e*10 + d } *)
Fixpoint rf_exp_digits (e : Z) (under : bool) (s : bytes) : Z * bool * bytes :=
  match s with
  | [] => (e, under, [])
  | c :: t =>
      if beqb c "_"%byte then rf_exp_digits e true t
      else if is_digit c then
        rf_exp_digits (if (e <? 10000)%Z then (e * 10 + Z.of_N (digit_val c))%Z else e) under t
      else (e, under, s)
  end.

Inductive pf_res := PFok (bits : N) | PFrange | PFsyntax.

(* strconv.ParseFloat(s, 64) *)
Definition parse_float (s : bytes) : pf_res :=
  match pf_special s with
  | Some (bits, n) => if Nat.eqb n (length s) then PFok bits else PFsyntax
  | None =>
      match split_sign s with
      | (neg, r0) =>
          let '(hex, r1) :=
            match r0 with
            | z :: x :: c :: t =>
                if beqb z "0"%byte && beqb (lower x) "x"%byte then (true, c :: t) else (false, r0)
            | _ => (false, r0)
            end in
          let st0 := {| rf_mant := 0; rf_nd := 0%Z; rf_dp := 0%Z; rf_sawdot := false;
                        rf_sawdigits := false; rf_under := false |} in
          match rf_digits hex st0 r1 with
          | (st, r2) =>
              if negb (rf_sawdigits st) then PFsyntax else
              let dp0 := if rf_sawdot st then rf_dp st else rf_nd st in
              let dp1 := if hex then (dp0 * 4)%Z else dp0 in
              let expchar := if hex then "p"%byte else "e"%byte in
              (* optional exponent *)
              let exp_part : option (Z * bool * bytes) :=
                match r2 with
                | c :: t =>
                    if beqb (lower c) expchar then
                      match t with
                      | [] => None
                      | sg :: t' =>
                          let '(esign, ds) :=
                            if beqb sg "+"%byte then (1%Z, t')
                            else if beqb sg "-"%byte then ((-1)%Z, t') else (1%Z, t) in
                          match ds with
                          | d :: _ =>
                              if is_digit d then
                                match rf_exp_digits 0 (rf_under st) ds with
                                | (e, u, rest) => Some ((dp1 + e * esign)%Z, u, rest)
                                end
                              else None
                          | [] => None
                          end
                      end
                    else if hex then None else Some (dp1, rf_under st, r2)
                | [] => if hex then None else Some (dp1, rf_under st, r2)
                end in
              match exp_part with
              | None => PFsyntax
              | Some (dp, under, rest) =>
                  let consumed := firstn (length s - length rest) s in
                  if under && negb (underscore_ok consumed) then PFsyntax
                  else
                    match rest with
                    | _ :: _ => PFsyntax          (* trailing garbage *)
                    | [] =>
                        let m := rf_mant st in
                        if m =? 0 then PFok (fst (round_to_f64 neg 0 0%Z false))
                        else if hex then
                          (* value = m * 2^(dp - 4*nd) *)
                          match round_to_f64 neg m (dp - 4 * rf_nd st)%Z false with
                          | (bits, ovf) => if ovf then PFrange else PFok bits
                          end
                        else if (310 <? dp)%Z then PFrange
                        else if (dp <? -330)%Z then PFok (fst (round_to_f64 neg 0 0%Z false))
                        else
                          let k := (dp - rf_nd st)%Z in
                          match (if (0 <=? k)%Z
                                 then round_to_f64 neg (m * 10 ^ Z.to_N k) 0%Z false
                                 else round_ratio_f64 neg m (10 ^ Z.to_N (- k))) with
                          | (bits, ovf) => if ovf then PFrange else PFok bits
                          end
                    end
              end
          end
      end
  end.

(* ---- UnquoteChar(s, 0) for s = '\\' :: c :: ...  ------------------------- *)

Fixpoint hex_value (n : nat) (s : bytes) (acc : N) : option (N * bytes) :=
  match n with
  | O => Some (acc, s)
  | S n' =>
      match s with
      | [] => None
      | c :: t => match unhex c with
                  | Some x => hex_value n' t (acc * 16 + x)
                  | None => None
                  end
      end
  end.

Definition is_octal (b : byte) : bool := let n := b2N b in (48 <=? n) && (n <=? 55).

(* None = strconv.ErrSyntax; Some (rune, tail) *)
Definition unquote_char (s : bytes) : option (N * bytes) :=
  match s with
  | bsl :: c :: t =>
      if negb (beqb bsl "\"%byte) then None    (* callers only pass backslash-led input *)
      else
      let n := b2N c in
      if n =? 97 then Some (7, t)              (* \a *)
      else if n =? 98 then Some (8, t)         (* \b *)
      else if n =? 102 then Some (12, t)       (* \f *)
      else if n =? 110 then Some (10, t)       (* \n *)
      else if n =? 114 then Some (13, t)       (* \r *)
      else if n =? 116 then Some (9, t)        (* \t *)
      else if n =? 118 then Some (11, t)       (* \v *)
      else if n =? 120 then hex_value 2 t 0    (* \xHH: single byte, possibly not UTF-8 *)
      else if n =? 117 then                    (* \uHHHH *)
        match hex_value 4 t 0 with
        | Some (v, t') => if valid_rune v then Some (v, t') else None
        | None => None
        end
      else if n =? 85 then                     (* \UHHHHHHHH *)
        match hex_value 8 t 0 with
        | Some (v, t') => if valid_rune v then Some (v, t') else None
        | None => None
        end
      else if is_octal c then
        match t with
        | d1 :: d2 :: t' =>
            if is_octal d1 && is_octal d2 then
              let v := (n - 48) * 64 + (b2N d1 - 48) * 8 + (b2N d2 - 48) in
              if 255 <? v then None else Some (v, t')
            else None
        | _ => None
        end
      else if n =? 92 then Some (92, t)        (* \\ *)
      else None                                 (* quotes (quote = 0) and everything else *)
  | _ => None
  end.

(* strconv.QuoteRune(r) without the surrounding quotes, for r < ' ' *)
Definition quote_ctrl (r : N) : bytes :=
  if r =? 7 then bs "\a" else if r =? 8 then bs "\b" else if r =? 12 then bs "\f"
  else if r =? 10 then bs "\n" else if r =? 13 then bs "\r" else if r =? 9 then bs "\t"
  else if r =? 11 then bs "\v"
  else "\"%byte :: "x"%byte :: hex_of_byte (N2b r).

(* strconv.IsPrint on ASCII; above ASCII it is an oracle (table dumped from Go) *)
Definition is_print_with (hi : N -> bool) (r : N) : bool :=
  if r <? 128 then (32 <=? r) && (r <? 127) else hi r.
