(* Base.v — bytes, outcomes, little/big endian codecs, hex, decimal text.
   Definitions only (no proofs): the model must still run when a proof breaks. *)
From Coq Require Import Ascii String.
From Coq Require Import List ZArith NArith Bool.
From Coq.Strings Require Import Byte.
Import ListNotations.
Open Scope N_scope.

Definition bytes := list byte.

Definition b2N (b : byte) : N := Byte.to_N b.
Definition N2b (n : N) : byte :=
  match Byte.of_N (n mod 256) with Some b => b | None => x00 end.
Definition b2Z (b : byte) : Z := Z.of_N (b2N b).
Definition Z2b (z : Z) : byte := N2b (Z.to_N (z mod 256)).

Definition beqb (a b : byte) : bool := N.eqb (b2N a) (b2N b).

Fixpoint bytes_eqb (a b : bytes) : bool :=
  match a, b with
  | [], [] => true
  | x :: a', y :: b' => beqb x y && bytes_eqb a' b'
  | _, _ => false
  end.

(* lexicographic comparison, used only to canonicalise dumps *)
Fixpoint bytes_leb (a b : bytes) : bool :=
  match a, b with
  | [], _ => true
  | _ :: _, [] => false
  | x :: a', y :: b' =>
      if N.ltb (b2N x) (b2N y) then true
      else if N.ltb (b2N y) (b2N x) then false
      else bytes_leb a' b'
  end.

Definition bs (s : string) : bytes := list_byte_of_string s.
Arguments bs s%string_scope.

(* ---- outcomes ------------------------------------------------------- *)

(* decoder-side error classes (never message text) *)
Inductive err : Type :=
| EEOF                       (* io.EOF *)
| EUnexpectedEOF             (* io.ErrUnexpectedEOF *)
| EOpcode (b : byte) (pos : N)   (* OpcodeError{Key,Pos} *)
| EBadVersion                (* ErrInvalidPickleVersion *)
| EUnderflow                 (* errStackUnderflow *)
| ENoMarker                  (* errNoMarker *)
| EMarkUse                   (* errNoMarkUse *)
| ESyntax                    (* strconv.ErrSyntax returned bare *)
| ENumError                  (* *strconv.NumError *)
| EOther.                    (* any fmt.Errorf error *)

(* three-way outcome: "never panics" must be a statement, not an artefact of totality *)
Inductive res (A : Type) : Type :=
| Ok (a : A)
| Err (e : err)
| Panic
| OutOfFuel.
Arguments Ok {A} a.
Arguments Err {A} e.
Arguments Panic {A}.
Arguments OutOfFuel {A}.

Definition err_eqb (a b : err) : bool :=
  match a, b with
  | EEOF, EEOF | EUnexpectedEOF, EUnexpectedEOF | EBadVersion, EBadVersion
  | EUnderflow, EUnderflow | ENoMarker, ENoMarker | EMarkUse, EMarkUse
  | ESyntax, ESyntax | ENumError, ENumError | EOther, EOther => true
  | EOpcode b p, EOpcode b' p' => beqb b b' && N.eqb p p'
  | _, _ => false
  end.

(* ---- little / big endian -------------------------------------------- *)

Fixpoint le_decode (l : bytes) : N :=
  match l with
  | [] => 0
  | b :: t => b2N b + 256 * le_decode t
  end.

Definition be_decode (l : bytes) : N := le_decode (rev l).

Fixpoint le_encode (n : nat) (v : N) : bytes :=
  match n with
  | O => []
  | S n' => N2b v :: le_encode n' (v / 256)
  end.

Definition be_encode (n : nat) (v : N) : bytes := rev (le_encode n v).

(* Go conversions with their wrap-around *)
Definition wrap_u (bits : N) (z : Z) : Z := (z mod (Z.of_N (2 ^ bits)))%Z.
Definition wrap_s (bits : N) (z : Z) : Z :=
  let m := Z.of_N (2 ^ bits) in
  let r := (z mod m)%Z in
  if Z.ltb r (m / 2)%Z then r else (r - m)%Z.

Definition int64_min : Z := (- 9223372036854775808)%Z.
Definition int64_max : Z := 9223372036854775807%Z.
Definition in_int64 (z : Z) : bool := Z.leb int64_min z && Z.leb z int64_max.
Definition uint64_max : Z := 18446744073709551615%Z.
Definition in_uint64 (z : Z) : bool := Z.leb 0 z && Z.leb z uint64_max.

(* ---- hex ------------------------------------------------------------- *)

Definition hexdigit (n : N) : byte :=
  if N.ltb n 10 then N2b (48 + n) else N2b (87 + n).   (* '0'.. / 'a'.. *)

Definition hex_of_byte (b : byte) : bytes :=
  [hexdigit (b2N b / 16); hexdigit (b2N b mod 16)].

Definition hex_of_bytes (l : bytes) : bytes := flat_map hex_of_byte l.

(* value of a hex digit, both cases (strconv.unhex) *)
Definition unhex (b : byte) : option N :=
  let n := b2N b in
  if (48 <=? n) && (n <=? 57) then Some (n - 48)
  else if (97 <=? n) && (n <=? 102) then Some (n - 87)
  else if (65 <=? n) && (n <=? 70) then Some (n - 55)
  else None.

(* ---- decimal --------------------------------------------------------- *)

Definition is_digit (b : byte) : bool :=
  let n := b2N b in (48 <=? n) && (n <=? 57).

Definition digit_val (b : byte) : N := b2N b - 48.

(* value of a run of decimal digits, most significant first *)
Fixpoint dec_value_acc (l : bytes) (acc : N) : N :=
  match l with
  | [] => acc
  | b :: t => dec_value_acc t (10 * acc + digit_val b)
  end.
Definition dec_value (l : bytes) : N := dec_value_acc l 0.

(* decimal text of a natural number; fuel = number of digits bound *)
Fixpoint dec_digits_fuel (fuel : nat) (n : N) (acc : bytes) : bytes :=
  match fuel with
  | O => acc
  | S f =>
      let acc' := N2b (48 + n mod 10) :: acc in
      if n / 10 =? 0 then acc' else dec_digits_fuel f (n / 10) acc'
  end.
Definition dec_of_N (n : N) : bytes :=
  dec_digits_fuel (S (N.to_nat (N.log2 n))) n [].
Definition dec_of_Z (z : Z) : bytes :=
  match z with
  | Z0 => dec_of_N 0
  | Zpos p => dec_of_N (Npos p)
  | Zneg p => "-"%byte :: dec_of_N (Npos p)
  end.

(* hexadecimal text of a number, linear in its size (dumps of huge integers) *)
Fixpoint pos_bits (p : positive) : list bool :=
  match p with
  | xH => [true]
  | xO q => false :: pos_bits q
  | xI q => true :: pos_bits q
  end.
Definition bit_val (b : bool) (w : N) : N := if b then w else 0.
Fixpoint hex_of_bits (l : list bool) (acc : bytes) : bytes :=
  match l with
  | b0 :: b1 :: b2 :: b3 :: t =>
      hex_of_bits t (hexdigit (bit_val b0 1 + bit_val b1 2 + bit_val b2 4 + bit_val b3 8) :: acc)
  | [] => acc
  | b0 :: t =>
      hexdigit (bit_val b0 1 + bit_val (nth 0 t false) 2 + bit_val (nth 1 t false) 4) :: acc
  end.
Definition hex_of_N (n : N) : bytes :=
  match n with N0 => [hexdigit 0] | Npos p => hex_of_bits (pos_bits p) [] end.
Definition hex_of_Z (z : Z) : bytes :=
  match z with
  | Z0 => hex_of_N 0
  | Zpos p => hex_of_N (Npos p)
  | Zneg p => "-"%byte :: hex_of_N (Npos p)
  end.

(* ---- small list helpers ---------------------------------------------- *)

(* split off exactly n elements, n : N so that huge counts never become a nat *)
Fixpoint take_n (l : bytes) (n : N) : option (bytes * bytes) :=
  if n =? 0 then Some ([], l)
  else match l with
       | [] => None
       | b :: t =>
           match take_n t (N.pred n) with
           | Some (a, r) => Some (b :: a, r)
           | None => None
           end
       end.

(* split at the first LF: (line without LF, rest after LF) *)
Fixpoint split_line (l : bytes) : option (bytes * bytes) :=
  match l with
  | [] => None
  | b :: t =>
      if beqb b x0a then Some ([], t)
      else match split_line t with
           | Some (a, r) => Some (b :: a, r)
           | None => None
           end
  end.

Definition Nlen {A} (l : list A) : N := N.of_nat (length l).

Fixpoint lastb (l : bytes) : option byte :=
  match l with
  | [] => None
  | [b] => Some b
  | _ :: t => lastb t
  end.
