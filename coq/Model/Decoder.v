(* Decoder.v — the pickle machine of ogorek.go, opcode by opcode.  Definitions only. *)
From Coq Require Import Ascii String.
From Coq Require Import List ZArith NArith Bool.
From Coq.Strings Require Import Byte.
From OgRek Require Import Base Utf8 GoStrconv PyQuote Float Value PyEq Dict Reader.
Import ListNotations.
Open Scope N_scope.

(* ---- configuration and state ------------------------------------------------ *)

Inductive load_result := LNil | LObj (v : val) | LErr.

Record dconfig := {
  c_pydict : bool;
  c_strict : bool;
  (* PersistentLoad: None = not set; Some f: f call_index pid *)
  c_load : option (N -> val -> load_result) }.

Record dstate := {
  d_stack : list val;                 (* top of stack first *)
  d_memo : list (bytes * val);        (* Go map[string]any *)
  d_heap : heap;
  d_next : N;                         (* next allocation / list identity *)
  d_proto : N;                        (* protocol seen in the last PROTO *)
  d_log : list val;                   (* Refs handed to PersistentLoad, most recent first *)
  d_lens : list (N * N);              (* ghost: current length of each Python list *)
  d_stale : bool }.                   (* ghost: an append went through a stale view *)

Definition init_state : dstate :=
  {| d_stack := []; d_memo := []; d_heap := []; d_next := 0; d_proto := 0;
     d_log := []; d_lens := []; d_stale := false |}.

Definition set_stack (st : dstate) (s : list val) : dstate :=
  {| d_stack := s; d_memo := d_memo st; d_heap := d_heap st; d_next := d_next st;
     d_proto := d_proto st; d_log := d_log st; d_lens := d_lens st; d_stale := d_stale st |}.
Definition push (v : val) (st : dstate) : dstate := set_stack st (v :: d_stack st).
Definition set_memo (st : dstate) (m : list (bytes * val)) : dstate :=
  {| d_stack := d_stack st; d_memo := m; d_heap := d_heap st; d_next := d_next st;
     d_proto := d_proto st; d_log := d_log st; d_lens := d_lens st; d_stale := d_stale st |}.
Definition set_heap (st : dstate) (h : heap) : dstate :=
  {| d_stack := d_stack st; d_memo := d_memo st; d_heap := h; d_next := d_next st;
     d_proto := d_proto st; d_log := d_log st; d_lens := d_lens st; d_stale := d_stale st |}.
Definition set_proto (st : dstate) (p : N) : dstate :=
  {| d_stack := d_stack st; d_memo := d_memo st; d_heap := d_heap st; d_next := d_next st;
     d_proto := p; d_log := d_log st; d_lens := d_lens st; d_stale := d_stale st |}.
Definition fresh (st : dstate) : N * dstate :=
  (d_next st,
   {| d_stack := d_stack st; d_memo := d_memo st; d_heap := d_heap st; d_next := d_next st + 1;
      d_proto := d_proto st; d_log := d_log st; d_lens := d_lens st; d_stale := d_stale st |}).
Definition add_log (st : dstate) (r : val) : dstate :=
  {| d_stack := d_stack st; d_memo := d_memo st; d_heap := d_heap st; d_next := d_next st;
     d_proto := d_proto st; d_log := r :: d_log st; d_lens := d_lens st; d_stale := d_stale st |}.
Definition set_len (st : dstate) (lid len : N) (stale : bool) : dstate :=
  {| d_stack := d_stack st; d_memo := d_memo st; d_heap := d_heap st; d_next := d_next st;
     d_proto := d_proto st; d_log := d_log st;
     d_lens := (lid, len) :: filter (fun p => negb (fst p =? lid)) (d_lens st);
     d_stale := d_stale st || stale |}.

Fixpoint assoc_N (l : list (N * N)) (k : N) : option N :=
  match l with
  | [] => None
  | (i, x) :: t => if i =? k then Some x else assoc_N t k
  end.
Definition cur_len (st : dstate) (lid : N) : N :=
  match assoc_N (d_lens st) lid with Some n => n | None => 0 end.

(* handler outcome: the state is returned on failure too (SETITEMS mutates then may fail) *)
Inductive hout := HOk (st : dstate) | HErr (st : dstate) (e : err).

Definition ok (st : dstate) : prog hout := Ret (HOk st).
Definition fail (st : dstate) (e : err) : prog hout := Ret (HErr st e).

(* ---- memo -------------------------------------------------------------------- *)

Fixpoint memo_get (m : list (bytes * val)) (k : bytes) : option val :=
  match m with
  | [] => None
  | (k', v) :: t => if bytes_eqb k' k then Some v else memo_get t k
  end.
Fixpoint memo_set (m : list (bytes * val)) (k : bytes) (v : val) : list (bytes * val) :=
  match m with
  | [] => [(k, v)]
  | (k', v') :: t => if bytes_eqb k' k then (k', v) :: t else (k', v') :: memo_set t k v
  end.

(* strconv.Itoa of a non-negative number *)
Definition itoa (n : N) : bytes := dec_of_N n.

Definition is_mark (v : val) : bool := match v with VMark => true | _ => false end.

(* d.marker(): items above the topmost mark (top first) and the stack below the mark *)
Fixpoint split_mark (s : list val) : option (list val * list val) :=
  match s with
  | [] => None
  | v :: t =>
      if is_mark v then Some ([], t)
      else match split_mark t with
           | Some (a, b) => Some (v :: a, b)
           | None => None
           end
  end.

(* memoTop *)
Definition memo_top (st : dstate) (key : bytes) : prog hout :=
  match d_stack st with
  | [] => fail st EUnderflow
  | v :: _ => if is_mark v then fail st EMarkUse
              else ok (set_memo st (memo_set (d_memo st) key v))
  end.

(* ---- decodeLong ---------------------------------------------------------------- *)

(* as the code computes it: sum of bytes shifted, then for negatives subtract one, flip the
   bytes big.Int.Bytes() returns, negate *)
Definition decode_long (data : bytes) : Z :=
  match data with
  | [] => 0%Z
  | _ =>
      let v := le_decode data in
      let negative := match lastb data with Some b => 127 <? b2N b | None => false end in
      if negative then
        let d1 := v - 1 in
        let bsb := big_bytes (Z.of_N d1) in
        let flipped := map (fun b => N2b (255 - b2N b)) bsb in
        (- Z.of_N (be_decode flipped))%Z
      else Z.of_N v
  end.

(* ---- pieces of handlers ---------------------------------------------------------- *)

Definition push_bytestring (cfg : dconfig) (s : bytes) (st : dstate) : dstate :=
  if c_strict cfg then push (VBStr s) st else push (VStr s) st.

(* AsString / stringEQ *)
Definition string_eq (v : val) (y : bytes) : bool :=
  match v with
  | VStr s | VBStr s => bytes_eqb s y
  | _ => false
  end.

(* decodeLatin1Bytes: None = error *)
Definition decode_latin1 (v : val) : option bytes :=
  match v with
  | VStr s =>
      let rs := utf8_runes s in
      if forallb (fun r => r <? 256) rs then Some (map N2b rs) else None
  | _ => None
  end.

Definition pybuiltin_module (proto : N) : bytes :=
  if proto <=? 2 then bs "__builtin__" else bs "builtins".

(* handleCall + the fallback to a symbolic Call *)
Definition do_reduce (st : dstate) (m n : bytes) (argv : list val) : prog hout :=
  let symbolic := ok (push (VCall m n argv) st) in
  if bytes_eqb m (bs "_codecs") && bytes_eqb n (bs "encode")
     && Nat.eqb (length argv) 2 && string_eq (nth 1 argv VNone) (bs "latin1") then
    match decode_latin1 (nth 0 argv VNone) with
    | Some data => ok (push (VBytes data) st)
    | None => fail st EOther
    end
  else if bytes_eqb m (pybuiltin_module (d_proto st)) && bytes_eqb n (bs "bytearray") then
    match argv with
    | [a] => match a with
             | VBytes data => ok (push (VBArr data) st)
             | _ => fail st EOther
             end
    | [a; b] =>
        if string_eq b (bs "latin-1") then
          match decode_latin1 a with
          | Some data => ok (push (VBArr data) st)
          | None => fail st EOther
          end
        else symbolic
    | _ => symbolic
    end
  else symbolic.

(* handleRef *)
Definition handle_ref (cfg : dconfig) (st : dstate) (pid : val) : prog hout :=
  let ref := VRef pid in
  match c_load cfg with
  | None => ok (push ref st)
  | Some f =>
      let st1 := add_log st ref in
      match f (Nlen (d_log st)) pid with
      | LErr => fail st1 EOther
      | LNil => ok (push ref st1)
      | LObj o => ok (push o st1)
      end
  end.

(* mapTryAssign / dictTryAssign on the heap object id; None = key rejected *)
Definition try_assign (h : heap) (m : val) (k v : val) : option heap :=
  match m with
  | VMap id =>
      match heap_get h id with
      | Some (HMap es) =>
          if go_unhashable k then None else Some (heap_set h id (HMap (gomap_assign es k v)))
      | _ => None
      end
  | VDict id =>
      match heap_get h id with
      | Some (HDict es) =>
          match dict_set choose_first k v es with
          | Some es' => Some (heap_set h id (HDict es'))
          | None => None
          end
      | _ => None
      end
  | _ => None
  end.

(* assign pairs k1 v1 k2 v2 ... in order; stops at the first rejected key, keeping the
   assignments already made *)
Fixpoint assign_pairs (h : heap) (m : val) (items : list val) : heap * bool :=
  match items with
  | k :: v :: t =>
      match try_assign h m k v with
      | Some h' => assign_pairs h' m t
      | None => (h, false)
      end
  | _ => (h, true)
  end.

Definition new_dict_obj (cfg : dconfig) (st : dstate) : val * dstate :=
  let '(id, st1) := fresh st in
  if c_pydict cfg then (VDict id, set_heap st1 (heap_set (d_heap st1) id (HDict [])))
  else (VMap id, set_heap st1 (heap_set (d_heap st1) id (HMap []))).

(* ---- opcodes ----------------------------------------------------------------------- *)

Inductive opcode :=
| OMark | OStop | OPop | OPopMark | ODup | OFloat | OInt | OBinint | OBinint1 | OLong
| OBinint2 | ONone | OPersid | OBinpersid | OReduce | OString | OBinstring | OShortBinstring
| OUnicode | OBinunicode | OAppend | OBuild | OGlobal | ODict | OEmptyDict | OAppends | OGet
| OBinget | OInst | OLong1 | ONewfalse | ONewtrue | OLongBinget | OList | OEmptyList | OObj
| OPut | OBinput | OLongBinput | OSetitem | OTuple | OTuple1 | OTuple2 | OTuple3
| OEmptyTuple | OSetitems | OBinfloat | OBinbytes | OShortBinbytes | OFrame
| OShortBinunicode | OStackGlobal | OMemoize | OBytearray8 | ONextBuffer | OReadonlyBuffer
| OProto.

Definition opcode_of_N (n : N) : option opcode :=
  match n with
  | 40 => Some OMark | 46 => Some OStop | 48 => Some OPop | 49 => Some OPopMark
  | 50 => Some ODup | 70 => Some OFloat | 73 => Some OInt | 74 => Some OBinint
  | 75 => Some OBinint1 | 76 => Some OLong | 77 => Some OBinint2 | 78 => Some ONone
  | 80 => Some OPersid | 81 => Some OBinpersid | 82 => Some OReduce | 83 => Some OString
  | 84 => Some OBinstring | 85 => Some OShortBinstring | 86 => Some OUnicode
  | 88 => Some OBinunicode | 97 => Some OAppend | 98 => Some OBuild | 99 => Some OGlobal
  | 100 => Some ODict | 125 => Some OEmptyDict | 101 => Some OAppends | 103 => Some OGet
  | 104 => Some OBinget | 105 => Some OInst | 138 => Some OLong1 | 137 => Some ONewfalse
  | 136 => Some ONewtrue | 106 => Some OLongBinget | 108 => Some OList | 93 => Some OEmptyList
  | 111 => Some OObj | 112 => Some OPut | 113 => Some OBinput | 114 => Some OLongBinput
  | 115 => Some OSetitem | 116 => Some OTuple | 133 => Some OTuple1 | 134 => Some OTuple2
  | 135 => Some OTuple3 | 41 => Some OEmptyTuple | 117 => Some OSetitems | 71 => Some OBinfloat
  | 66 => Some OBinbytes | 67 => Some OShortBinbytes | 149 => Some OFrame
  | 140 => Some OShortBinunicode | 147 => Some OStackGlobal | 148 => Some OMemoize
  | 150 => Some OBytearray8 | 151 => Some ONextBuffer | 152 => Some OReadonlyBuffer
  | 128 => Some OProto
  | _ => None
  end.
Definition opcode_of_byte (b : byte) : option opcode := opcode_of_N (b2N b).

Definition tuple_n (st : dstate) (n : nat) : prog hout :=
  let s := d_stack st in
  if Nat.ltb (length s) n then fail st EUnderflow
  else
    let items := firstn n s in
    if existsb is_mark items then fail st EMarkUse
    else ok (set_stack st (VTuple (rev items) :: skipn n s)).

Definition max_int64_N : N := 9223372036854775807.

(* one opcode; key/insn only serve the unimplemented-opcode error *)
Definition handler (cfg : dconfig) (op : opcode) (key : byte) (insn : N) (st : dstate)
  : prog hout :=
  match op with
  | OMark => ok (push VMark st)
  | OStop => ok st                                           (* handled by the loop *)
  | OPop =>
      match d_stack st with
      | [] => fail st EUnderflow
      | _ :: t => ok (set_stack st t)
      end
  | OPopMark | OBuild | OInst | OObj => fail st (EOpcode key insn)   (* errNotImplemented *)
  | ODup =>
      match d_stack st with
      | [] => fail st EUnderflow
      | v :: _ => ok (push v st)
      end
  | OFloat =>
      RdLine (fun line =>
        match parse_float line with
        | PFok bits => ok (push (VFloat bits) st)
        | _ => fail st ENumError
        end)
  | OInt =>
      RdLine (fun line =>
        if bytes_eqb line (bs "00") then ok (push (VBool false) st)
        else if bytes_eqb line (bs "01") then ok (push (VBool true) st)
        else match parse_int64 line with
             | PIok z => ok (push (VInt z) st)
             | PIsyntax => fail st ENumError
             | PIrange =>
                 match parse_dec_Z line with
                 | Some z => let '(id, st1) := fresh st in ok (push (VBig id z) st1)
                 | None => fail st EOther
                 end
             end)
  | OBinint =>
      RdN ByReadFull 4 (fun b => ok (push (VInt (wrap_s 32 (Z.of_N (le_decode b)))) st))
  | OBinint1 => RdByte EUnexpectedEOF (fun b => ok (push (VInt (b2Z b)) st))
  | OBinint2 => RdN ByReadFull 2 (fun b => ok (push (VInt (Z.of_N (le_decode b))) st))
  | OLong =>
      RdLine (fun line =>
        match lastb line with
        | None => fail st EUnexpectedEOF
        | Some c =>
            if negb (beqb c "L"%byte) then fail st EUnexpectedEOF
            else match parse_dec_Z (removelast line) with
                 | Some z => let '(id, st1) := fresh st in ok (push (VBig id z) st1)
                 | None => fail st EOther
                 end
        end)
  | OLong1 =>
      RdByte EUnexpectedEOF (fun n =>
        RdN ByByteLoop (b2N n) (fun data =>
          let '(id, st1) := fresh st in ok (push (VBig id (decode_long data)) st1)))
  | ONone => ok (push VNone st)
  | ONewtrue => ok (push (VBool true) st)
  | ONewfalse => ok (push (VBool false) st)
  | OPersid => RdLine (fun pid => handle_ref cfg st (VStr pid))
  | OBinpersid =>
      match d_stack st with
      | [] => fail st EUnderflow
      | v :: t => if is_mark v then fail (set_stack st t) EMarkUse
                  else handle_ref cfg (set_stack st t) v
      end
  | OReduce =>
      match d_stack st with
      | xargs :: xclass :: t =>
          let st1 := set_stack st t in
          match xargs with
          | VTuple argv =>
              match xclass with
              | VClass m n => do_reduce st1 m n argv
              | _ => fail st1 EOther
              end
          | _ => fail st1 EOther
          end
      | _ => fail st EUnderflow
      end
  | OString =>
      RdLine (fun line =>
        match line with
        | q :: rest1 =>
            match rest1 with
            | [] => fail st EUnexpectedEOF                      (* len(line) < 2 *)
            | _ =>
                if negb (beqb q "'"%byte || beqb q """"%byte) then fail st EOther
                else match lastb rest1 with
                     | Some e =>
                         if negb (beqb e q) then fail st EUnexpectedEOF
                         else match pydecode_string_escape (removelast rest1) with
                              | Ok s => ok (push_bytestring cfg s st)
                              | Err e' => fail st e'
                              | Panic => PanicP
                              | OutOfFuel => OOF
                              end
                     | None => fail st EUnexpectedEOF
                     end
            end
        | [] => fail st EUnexpectedEOF
        end)
  | OBinstring =>
      RdN ByReadFull 4 (fun l => RdN ByCopyN (le_decode l) (fun s => ok (push_bytestring cfg s st)))
  | OShortBinstring =>
      RdByte EUnexpectedEOF (fun l => RdN ByCopyN (b2N l) (fun s => ok (push_bytestring cfg s st)))
  | OBinbytes =>
      RdN ByReadFull 4 (fun l => RdN ByCopyN (le_decode l) (fun s => ok (push (VBytes s) st)))
  | OShortBinbytes =>
      RdByte EUnexpectedEOF (fun l => RdN ByCopyN (b2N l) (fun s => ok (push (VBytes s) st)))
  | OUnicode =>
      RdLine (fun line =>
        match pydecode_raw_unicode_escape line with
        | Ok s => ok (push (VStr s) st)
        | Err e => fail st e
        | Panic => PanicP
        | OutOfFuel => OOF
        end)
  | OBinunicode =>
      RdN ByReadFull 4 (fun l => RdN ByByteLoop (le_decode l) (fun s => ok (push (VStr s) st)))
  | OShortBinunicode =>
      RdByte EUnexpectedEOF (fun l => RdN ByCopyN (b2N l) (fun s => ok (push (VStr s) st)))
  | OAppend =>
      match d_stack st with
      | v :: l :: t =>
          let st1 := set_stack st (l :: t) in
          if is_mark v then fail st1 EMarkUse
          else match l with
               | VList lid items =>
                   let n := Nlen items in
                   let st2 := set_len st1 lid (n + 1) (negb (n =? cur_len st1 lid)) in
                   ok (set_stack st2 (VList lid (items ++ [v]) :: t))
               | _ => fail st1 EOther
               end
      | _ => fail st EUnderflow
      end
  | OAppends =>
      match split_mark (d_stack st) with
      | None => fail st ENoMarker
      | Some (above, below) =>
          match below with
          | [] => fail st EUnderflow
          | l :: t =>
              match l with
              | VList lid items =>
                  match above with
                  | [] => ok (set_stack st (l :: t))
                  | _ =>
                      let n := Nlen items in
                      let st1 := set_len st lid (n + Nlen above) (negb (n =? cur_len st lid)) in
                      ok (set_stack st1 (VList lid (items ++ rev above) :: t))
                  end
              | _ => fail st EOther
              end
          end
      end
  | OGlobal => RdLine (fun m => RdLine (fun n => ok (push (VClass m n) st)))
  | ODict =>
      match split_mark (d_stack st) with
      | None => fail st ENoMarker
      | Some (above, below) =>
          if Nat.odd (length above) then fail st EOther
          else
            let '(m, st1) := new_dict_obj cfg st in
            match assign_pairs (d_heap st1) m (rev above) with
            | (h, true) => ok (set_stack (set_heap st1 h) (m :: below))
            | (_, false) => fail st EOther
            end
      end
  | OEmptyDict => let '(m, st1) := new_dict_obj cfg st in ok (push m st1)
  | OGet =>
      RdLine (fun line =>
        match memo_get (d_memo st) line with
        | Some v => ok (push v st)
        | None => fail st EOther
        end)
  | OBinget =>
      RdByte EUnexpectedEOF (fun b =>
        match memo_get (d_memo st) (itoa (b2N b)) with
        | Some v => ok (push v st)
        | None => fail st EOther
        end)
  | OLongBinget =>
      RdN ByReadFull 4 (fun b =>
        match memo_get (d_memo st) (itoa (le_decode b)) with
        | Some v => ok (push v st)
        | None => fail st EOther
        end)
  | OList =>
      match split_mark (d_stack st) with
      | None => fail st ENoMarker
      | Some (above, below) =>
          let '(lid, st1) := fresh st in
          let st2 := set_len st1 lid (Nlen above) false in
          ok (set_stack st2 (VList lid (rev above) :: below))
      end
  | OEmptyList =>
      let '(lid, st1) := fresh st in ok (push (VList lid []) (set_len st1 lid 0 false))
  | OTuple =>
      match split_mark (d_stack st) with
      | None => fail st ENoMarker
      | Some (above, below) => ok (set_stack st (VTuple (rev above) :: below))
      end
  | OEmptyTuple => ok (push (VTuple []) st)
  | OTuple1 => tuple_n st 1
  | OTuple2 => tuple_n st 2
  | OTuple3 => tuple_n st 3
  | OPut => RdLine (fun line => memo_top st line)
  | OBinput => RdByte EUnexpectedEOF (fun b => memo_top st (itoa (b2N b)))
  | OLongBinput => RdN ByReadFull 4 (fun b => memo_top st (itoa (le_decode b)))
  | OMemoize => memo_top st (itoa (Nlen (d_memo st)))
  | OSetitem =>
      match d_stack st with
      | v :: k :: m :: t =>
          let st1 := set_stack st (m :: t) in
          if is_mark k || is_mark v then fail st1 EMarkUse
          else match m with
               | VMap _ | VDict _ =>
                   match try_assign (d_heap st1) m k v with
                   | Some h => ok (set_heap st1 h)
                   | None => fail st1 EOther
                   end
               | _ => fail st1 EOther
               end
      | _ => fail st EUnderflow
      end
  | OSetitems =>
      match split_mark (d_stack st) with
      | None => fail st ENoMarker
      | Some (above, below) =>
          match below with
          | [] => fail st EUnderflow
          | m :: t =>
              if Nat.odd (length above) then fail st EOther
              else match m with
                   | VMap _ | VDict _ =>
                       match assign_pairs (d_heap st) m (rev above) with
                       | (h, true) => ok (set_stack (set_heap st h) (m :: t))
                       | (h, false) => fail (set_heap st h) EOther
                       end
                   | _ => fail st EOther
                   end
          end
      end
  | OBinfloat => RdN ByReadFull 8 (fun b => ok (push (VFloat (be_decode b)) st))
  | OFrame => RdN ByReadFull 8 (fun _ => ok st)
  | OStackGlobal =>
      match d_stack st with
      | xname :: xmodule :: t =>
          let st1 := set_stack st t in
          match xname with
          | VStr name =>
              match xmodule with
              | VStr module => ok (push (VClass module name) st1)
              | _ => fail st1 EOther
              end
          | _ => fail st1 EOther
          end
      | _ => fail st EUnderflow
      end
  | OBytearray8 =>
      RdN ByReadFull 8 (fun l =>
        let n := le_decode l in
        if max_int64_N <? n then fail st EOther
        else RdN ByCopyN n (fun s => ok (push (VBArr s) st)))
  | ONextBuffer | OReadonlyBuffer => fail st EOther
  | OProto =>
      RdByte EUnexpectedEOF (fun v =>
        if 5 <? b2N v then fail st EBadVersion else ok (set_proto st (b2N v)))
  end.

(* ---- Decode ---------------------------------------------------------------------------- *)

(* result of one Decode call: value or error, and the decoder state afterwards *)
Definition dresult := (res val * dstate)%type.

Definition is_stop (op : opcode) : bool := match op with OStop => true | _ => false end.

(* d.popUser() at STOP *)
Definition pop_user (st : dstate) : dresult :=
  match d_stack st with
  | [] => (Err EUnderflow, st)
  | v :: t => if is_mark v then (Err EMarkUse, set_stack st t) else (Ok v, set_stack st t)
  end.

Fixpoint decode_loop (fuel : nat) (cfg : dconfig) (insn : N) (st : dstate) : prog dresult :=
  match fuel with
  | O => OOF
  | S f =>
      RdByte (if insn =? 0 then EEOF else EUnexpectedEOF) (fun key =>
        let insn' := insn + 1 in
        match opcode_of_byte key with
        | None => Ret (Err (EOpcode key insn'), st)
        | Some op =>
            if is_stop op then Ret (pop_user st)
            else
              bind (handler cfg op key insn' st) (fun o =>
                match o with
                | HOk st' => decode_loop f cfg insn' st'
                | HErr st' e => Ret (Err e, st')
                end)
        end)
  end.

(* Decode(): a fresh operand stack and protocol 0 at the start of every call (as
   CPython's load() does); memo, heap and the reader position persist *)
Definition start_state (st : dstate) : dstate := set_proto (set_stack st []) 0.

Definition decode (cfg : dconfig) (st : dstate) (inp : bytes) : dresult * bytes :=
  let st0 := start_state st in
  match run (decode_loop (S (length inp)) cfg 0 st0) inp with
  | (Ok r, rest) => (r, rest)
  | (Err e, rest) => ((Err e, st0), rest)          (* a read failed inside a handler *)
  | (Panic, rest) => ((Panic, st0), rest)
  | (OutOfFuel, rest) => ((OutOfFuel, st0), rest)
  end.

(* successive Decode calls on one Decoder until io.EOF (or until the model gives up:
   Panic / OutOfFuel) *)
Definition is_final (r : res val) (rest : bytes) : bool :=
  match r with
  | Err EEOF => true
  | Panic | OutOfFuel => true
  | _ => false
  end.

Fixpoint decode_all (fuel : nat) (cfg : dconfig) (st : dstate) (inp : bytes)
  : list (res val * dstate) * dstate :=
  match fuel with
  | O => ([], st)
  | S f =>
      match decode cfg st inp with
      | ((r, st'), rest) =>
          if is_final r rest then ([(r, st')], st')
          else let '(l, stf) := decode_all f cfg st' rest in ((r, st') :: l, stf)
      end
  end.
Definition decode_stream (cfg : dconfig) (inp : bytes) : list (res val * dstate) :=
  fst (decode_all (S (S (length inp))) cfg init_state inp).

(* ghost: does the value still contain a view of a list that was extended elsewhere? *)
Fixpoint has_stale_fuel (fuel : nat) (st : dstate) (path : list N) (v : val) : bool :=
  match fuel with
  | O => false
  | S f =>
      let any := existsb (has_stale_fuel f st path) in
      match v with
      | VList lid l => negb (Nlen l =? cur_len st lid) || any l
      | VTuple l | VCall _ _ l => any l
      | VRef p => has_stale_fuel f st path p
      | VMap id | VDict id =>
          if existsb (N.eqb id) path then false else
          match heap_get (d_heap st) id with
          | Some (HMap es) | Some (HDict es) =>
              existsb (fun kv => has_stale_fuel f st (id :: path) (fst kv)
                                 || has_stale_fuel f st (id :: path) (snd kv)) es
          | None => false
          end
      | _ => false
      end
  end.
Definition stale_fuel : nat := N.to_nat 100000.       (* a constant: built once *)
Definition has_stale (st : dstate) (v : val) : bool := has_stale_fuel stale_fuel st [] v.
