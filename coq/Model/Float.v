(* Float.v — float64 as its bit pattern; exact value as m * 2^e in Z. Definitions only. *)
From Coq Require Import Ascii String.
From Coq Require Import List ZArith NArith Bool.
From OgRek Require Import Base.
Import ListNotations.
Open Scope N_scope.

Definition two52 : N := 4503599627370496.
Definition two63 : N := 9223372036854775808.

Definition f_sign (b : N) : bool := two63 <=? b mod (2 * two63).
Definition f_exp (b : N) : N := (b / two52) mod 2048.
Definition f_mant (b : N) : N := b mod two52.

Definition f_is_nan (b : N) : bool := (f_exp b =? 2047) && negb (f_mant b =? 0).
Definition f_is_inf (b : N) : bool := (f_exp b =? 2047) && (f_mant b =? 0).
Definition f_is_zero (b : N) : bool := (f_exp b =? 0) && (f_mant b =? 0).
Definition f_is_finite (b : N) : bool := negb (f_exp b =? 2047).

(* exact value of a finite float: (m, e) with value m * 2^e, m signed *)
Definition f_exact (b : N) : option (Z * Z) :=
  if negb (f_is_finite b) then None
  else
    let m := if f_exp b =? 0 then f_mant b else two52 + f_mant b in
    let e := if f_exp b =? 0 then (-1074)%Z else (Z.of_N (f_exp b) - 1075)%Z in
    Some ((if f_sign b then - Z.of_N m else Z.of_N m)%Z, e).

(* Some z iff the float is finite and its value is the integer z *)
Definition f_int_value (b : N) : option Z :=
  match f_exact b with
  | None => None
  | Some (m, e) =>
      if (0 <=? e)%Z then Some (m * 2 ^ e)%Z
      else
        let d := (2 ^ (- e))%Z in
        if (m mod d =? 0)%Z then Some (m / d)%Z else None
  end.

(* IEEE == on bit patterns *)
Definition f_eq (a b : N) : bool :=
  if f_is_nan a || f_is_nan b then false
  else if f_is_zero a && f_is_zero b then true
  else a =? b.

(* exact comparison of two finite-or-infinite non-NaN floats by value: equality only *)
(* (covered by f_eq since distinct bit patterns of non-NaN non-zero floats differ in value) *)

(* float64(float32 bits): exact widening *)
Definition f32_to_f64 (b : N) : N :=
  let s := (b / 2147483648) mod 2 in
  let e := (b / 8388608) mod 256 in
  let m := b mod 8388608 in
  let sign := s * two63 in
  if e =? 255 then
    (* Inf / NaN; the conversion instruction quiets a signalling NaN (sets the top fraction bit) *)
    sign + 2047 * two52 + m * 536870912 + (if (m =? 0) || (4194304 <=? m) then 0 else 2251799813685248)
  else if e =? 0 then
    if m =? 0 then sign
    else
      (* subnormal float32: value m * 2^-149; normalise *)
      let l := N.log2 m in                       (* m in [2^l, 2^(l+1)) *)
      let e64 := l + 1023 - 149 in               (* biased exponent *)
      let frac := (m - 2 ^ l) * 2 ^ (52 - l) in
      sign + e64 * two52 + frac
  else sign + (e + 896) * two52 + m * 536870912.

(* Go: float64(int64 z) / float64(uint64 z) — nearest even *)
Definition Z_abs_N (z : Z) : N := Z.to_N (Z.abs z).
