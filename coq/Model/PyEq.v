(* PyEq.v — mirrors dict.go: kindOf, equal (the eq_* matrix), hash (as the tree of what is
   written into maphash);  py_eq is the SPECIFICATION (Python's ==).  Definitions only. *)
From Coq Require Import Ascii String.
From Coq Require Import List ZArith NArith Bool.
From Coq.Strings Require Import Byte.
From OgRek Require Import Base Float Value.
Import ListNotations.
Open Scope N_scope.

(* ---- helpers on exact values ------------------------------------------- *)

Fixpoint ctz_pos (p : positive) : N :=
  match p with xO q => 1 + ctz_pos q | _ => 0 end.
Definition ctz (n : N) : N := match n with N0 => 0 | Npos p => ctz_pos p end.

(* big.Int.Float64() with accuracy Exact: Some bits iff z is exactly representable *)
Definition Z_to_f64_exact (z : Z) : option N :=
  if (z =? 0)%Z then Some 0 else
  let a := Z.to_N (Z.abs z) in
  let l := N.log2 a in                         (* a in [2^l, 2^(l+1)) *)
  let t := ctz a in                            (* index of lowest set bit *)
  let sign := if (z <? 0)%Z then two63 else 0 in
  if (53 <=? l - t) then None                  (* needs more than 53 significant bits *)
  else if 1023 <? l then None                  (* overflows float64 *)
  else
    let frac := if l <=? 52 then (a - 2 ^ l) * 2 ^ (52 - l) else (a - 2 ^ l) / 2 ^ (l - 52) in
    Some (sign + (l + 1023) * two52 + frac).

(* ---- kinds (dict.go: kind / kindOf) -------------------------------------- *)

Inductive kind := KBool | KInt | KUint | KFloat | KComplex | KBigInt
                | KSlice | KMap | KStruct | KPointer | KOther.

Definition kind_rank (k : kind) : N :=
  match k with
  | KBool => 0 | KInt => 1 | KUint => 2 | KFloat => 3 | KComplex => 4 | KBigInt => 5
  | KSlice => 6 | KMap => 7 | KStruct => 8 | KPointer => 9 | KOther => 10
  end.

Definition kind_of (v : val) : kind :=
  match v with
  | VBool _ => KBool
  | VInt _ => KInt
  | VUint _ => KUint
  | VFloat _ => KFloat
  | VComplex _ _ => KComplex
  | VBig _ _ => KBigInt
  | VBArr _ | VList _ _ | VTuple _ => KSlice
  | VMap _ => KMap
  | VNone | VClass _ _ | VCall _ _ _ | VRef _ | VUser _ | VDict _ | VMark => KStruct
  | VStr _ | VBStr _ | VBytes _ => KOther
  end.

Definition bint (b : bool) : Z := if b then 1%Z else 0%Z.

(* ---- the equality matrix -------------------------------------------------- *)

Definition eq_Int_Uint (a b : Z) : bool := (0 <=? a)%Z && (a =? b)%Z.

(* exact: the float must be integral, inside the integer type's range, and equal *)
Definition eq_Int_Float (a : Z) (b : N) : bool :=
  match f_int_value b with
  | Some z => in_int64 z && (z =? a)%Z
  | None => false
  end.
Definition eq_Uint_Float (a : Z) (b : N) : bool :=
  match f_int_value b with
  | Some z => in_uint64 z && (z =? a)%Z
  | None => false
  end.
Definition f_is_zero_eq (b : N) : bool := f_eq b 0.          (* imag(c) == 0 *)
Definition eq_Int_Complex (a : Z) (re im : N) : bool := f_is_zero_eq im && eq_Int_Float a re.
Definition eq_Uint_Complex (a : Z) (re im : N) : bool := f_is_zero_eq im && eq_Uint_Float a re.
Definition eq_Int_BigInt (a b : Z) : bool := in_int64 b && (a =? b)%Z.
Definition eq_Uint_BigInt (a b : Z) : bool := in_uint64 b && (a =? b)%Z.
Definition eq_Float_BigInt (a : N) (b : Z) : bool :=
  match Z_to_f64_exact b with
  | Some bf => f_eq a bf
  | None => false
  end.
Definition eq_Float_Complex (a re im : N) : bool := f_eq a re && f_is_zero_eq im.
Definition eq_Complex_BigInt (re im : N) (b : Z) : bool := f_is_zero_eq im && eq_Float_BigInt re b.

(* numeric part of equal, after the kind ordering ak <= bk *)
Definition eq_num_ordered (a b : val) : bool :=
  match a, b with
  | VBool x, VBool y => (bint x =? bint y)%Z
  | VBool x, VInt y => (bint x =? y)%Z
  | VBool x, VUint y => eq_Int_Uint (bint x) y
  | VBool x, VFloat y => eq_Int_Float (bint x) y
  | VBool x, VComplex re im => eq_Int_Complex (bint x) re im
  | VBool x, VBig _ y => eq_Int_BigInt (bint x) y
  | VInt x, VInt y => (x =? y)%Z
  | VInt x, VUint y => eq_Int_Uint x y
  | VInt x, VFloat y => eq_Int_Float x y
  | VInt x, VComplex re im => eq_Int_Complex x re im
  | VInt x, VBig _ y => eq_Int_BigInt x y
  | VUint x, VUint y => (x =? y)%Z
  | VUint x, VFloat y => eq_Uint_Float x y
  | VUint x, VComplex re im => eq_Uint_Complex x re im
  | VUint x, VBig _ y => eq_Uint_BigInt x y
  | VFloat x, VFloat y => f_eq x y
  | VFloat x, VComplex re im => eq_Float_Complex x re im
  | VFloat x, VBig _ y => eq_Float_BigInt x y
  | VComplex r1 i1, VComplex r2 i2 => f_eq r1 r2 && f_eq i1 i2
  | VComplex re im, VBig _ y => eq_Complex_BigInt re im y
  | VBig _ x, VBig _ y => (x =? y)%Z
  | _, _ => false
  end.

Definition is_stringish (v : val) : bool :=
  match v with VStr _ | VBStr _ | VBytes _ => true | _ => false end.

(* numeric comparison with the kind ordering (a is numeric) *)
Definition eq_num (a b : val) : bool :=
  if is_stringish b then false
  else if N.leb (kind_rank (kind_of a)) (kind_rank (kind_of b))
       then eq_num_ordered a b else eq_num_ordered b a.

Definition slice_items (v : val) : option (list val) :=
  match v with
  | VTuple l => Some l
  | VList _ l => Some l
  | VBArr s => Some (map (fun b => VUint (b2Z b)) s)
  | _ => None
  end.

(* equal(xa, xb).  Maps and Dicts compared BY CONTENT are outside the model (they are
   unhashable, so no Dict operation ever reaches that code): the model answers false. *)
Fixpoint go_equal (a b : val) {struct a} : bool :=
  let all2 := all2 go_equal in
  match a with
  | VStr x => match b with VStr y | VBStr y => bytes_eqb x y | _ => false end
  | VBStr x => match b with VStr y | VBStr y | VBytes y => bytes_eqb x y | _ => false end
  | VBytes x => match b with VBStr y | VBytes y => bytes_eqb x y | _ => false end
  | VTuple l1 =>
      match slice_items b with Some l2 => all2 l1 l2 | None => false end
  | VList _ l1 =>
      match slice_items b with Some l2 => all2 l1 l2 | None => false end
  | VBArr s =>
      match b with
      | VBArr s' => bytes_eqb s s'
      | VTuple l2 | VList _ l2 =>
          (fix cmp (bl : bytes) (l : list val) : bool :=
             match bl, l with
             | [], [] => true
             | x :: t1, y :: t2 => eq_num (VUint (b2Z x)) y && cmp t1 t2
             | _, _ => false
             end) s l2
      | _ => false
      end
  | VNone => match b with VNone => true | _ => false end
  | VMark => match b with VMark => true | _ => false end
  | VUser s => match b with VUser t => s =? t | _ => false end
  | VClass m n => match b with VClass m' n' => bytes_eqb m m' && bytes_eqb n n' | _ => false end
  | VCall m n l1 =>
      match b with
      | VCall m' n' l2 => bytes_eqb m m' && bytes_eqb n n' && all2 l1 l2
      | _ => false
      end
  | VRef p => match b with VRef q => go_equal p q | _ => false end
  | VMap _ | VDict _ => false
  | VBool _ | VInt _ | VUint _ | VFloat _ | VComplex _ _ | VBig _ _ => eq_num a b
  end.

(* ---- hash: what is fed to maphash ------------------------------------------ *)

(* HS s: maphash.String(seed, s).  HN parts: Hash.Write* calls then Sum64, where a part is
   either raw bytes (HB) or the 8-byte hash of a sub-object under the same seed (HS / HN). *)
Inductive hin : Type :=
| HS (s : bytes)
| HB (b : bytes)
| HN (parts : list hin).

Definition u64be (z : Z) : bytes := be_encode 8 (Z.to_N (wrap_u 64 z)).

(* hash_Float *)
Definition hash_float (f : N) : bytes :=
  match f_int_value f with
  | Some z => if in_int64 z || in_uint64 z then u64be z else be_encode 8 f
  | None => be_encode 8 f
  end.

(* big.Int.Bytes(): absolute value, big endian, minimal *)
Fixpoint N_bytes_be_fuel (fuel : nat) (n : N) (acc : bytes) : bytes :=
  match fuel with
  | O => acc
  | S f => if n =? 0 then acc else N_bytes_be_fuel f (n / 256) (N2b n :: acc)
  end.
Definition big_bytes (z : Z) : bytes :=
  let a := Z.to_N (Z.abs z) in N_bytes_be_fuel (S (N.to_nat (N.log2 a))) a [].

(* None = panic "unhashable type: ..." *)
Fixpoint go_hash (v : val) : option hin :=
  let parts := fun l => map_opt go_hash l in
  match v with
  | VStr s | VBStr s | VBytes s => Some (HS s)
  | VBool b => Some (HN [HB (u64be (bint b))])
  | VInt z => Some (HN [HB (u64be z)])
  | VUint z => Some (HN [HB (u64be z)])
  | VFloat f => Some (HN [HB (hash_float f)])
  | VComplex re im =>
      Some (HN (HB (hash_float re) :: if f_is_zero_eq im then [] else [HB (hash_float im)]))
  | VBig _ z =>
      if in_int64 z || in_uint64 z then Some (HN [HB (u64be z)])
      else match Z_to_f64_exact z with
           | Some f => Some (HN [HB (hash_float f)])
           | None => Some (HN [HB (bs "bigInt"); HB (big_bytes z)])
           end
  | VTuple l =>
      match parts l with Some ps => Some (HN (HB (bs "tuple") :: ps)) | None => None end
  | VNone => Some (HN [HB (bs "None")])
  | VMark => Some (HN [HB (bs "mark")])
  | VUser t => Some (HN [HB (bs "UserObj"); HN [HB (u64be (Z.of_N t))]])
  | VClass m n => Some (HN [HB (bs "Class"); HS m; HS n])
  | VCall m n l =>
      match parts l with
      | Some ps => Some (HN [HB (bs "Call");
                             HN [HB (bs "Class"); HS m; HS n];
                             HN (HB (bs "tuple") :: ps)])
      | None => None
      end
  | VRef p => match go_hash p with Some h => Some (HN [HB (bs "Ref"); h]) | None => None end
  | VBArr _ | VList _ _ | VMap _ | VDict _ => None
  end.

Fixpoint hin_eqb (a b : hin) {struct a} : bool :=
  match a, b with
  | HS x, HS y => bytes_eqb x y
  | HB x, HB y => bytes_eqb x y
  | HN l1, HN l2 => all2 hin_eqb l1 l2
  | _, _ => false
  end.

Definition hashable (v : val) : bool := match go_hash v with Some _ => true | None => false end.

(* maphash.String(seed,s) == Write(s);Sum64: HS s and HW [PB s] are the same hash *)
Definition hin_norm (h : hin) : hin := match h with HS s => HN [HB s] | _ => h end.
Definition hash_same (a b : val) : bool :=
  match go_hash a, go_hash b with
  | Some x, Some y => hin_eqb (hin_norm x) (hin_norm y)
  | _, _ => false
  end.

(* ---- SPECIFICATION: Python's == on the same universe ------------------------ *)

(* a real: NaN, +-Inf, or the dyadic rational m * 2^e *)
Inductive rnum := RNaN | RInf (neg : bool) | RFin (m e : Z).

Definition rnum_of_float (b : N) : rnum :=
  if f_is_nan b then RNaN
  else if f_is_inf b then RInf (f_sign b)
  else match f_exact b with Some (m, e) => RFin m e | None => RNaN end.

Definition rnum_eqb (x y : rnum) : bool :=
  match x, y with
  | RInf a, RInf b => Bool.eqb a b
  | RFin m1 e1, RFin m2 e2 =>
      let e := Z.min e1 e2 in
      (m1 * 2 ^ (e1 - e) =? m2 * 2 ^ (e2 - e))%Z
  | _, _ => false
  end.

(* Python number = complex with exact parts *)
Definition pynum_of (v : val) : option (rnum * rnum) :=
  match v with
  | VBool b => Some (RFin (bint b) 0, RFin 0 0)
  | VInt z | VUint z | VBig _ z => Some (RFin z 0, RFin 0 0)
  | VFloat f => Some (rnum_of_float f, RFin 0 0)
  | VComplex re im => Some (rnum_of_float re, rnum_of_float im)
  | _ => None
  end.

Fixpoint py_eq (a b : val) {struct a} : bool :=
  let all2 := all2 py_eq in
  match a, b with
  (* text / bytes: str <> bytes; a Python-2 str equals both *)
  | VStr x, VStr y | VStr x, VBStr y | VBStr x, VStr y | VBStr x, VBStr y
  | VBStr x, VBytes y | VBytes x, VBStr y | VBytes x, VBytes y => bytes_eqb x y
  | VTuple l1, VTuple l2 => all2 l1 l2
  | VNone, VNone => true
  | VUser s, VUser t => s =? t
  | VClass m n, VClass m' n' => bytes_eqb m m' && bytes_eqb n n'
  | VCall m n l1, VCall m' n' l2 => bytes_eqb m m' && bytes_eqb n n' && all2 l1 l2
  | VRef p, VRef q => py_eq p q
  | _, _ =>
      match pynum_of a, pynum_of b with
      | Some (r1, i1), Some (r2, i2) => rnum_eqb r1 r2 && rnum_eqb i1 i2
      | _, _ => false
      end
  end.

(* ---- well-formed hashable keys (the domain of the C07 / C08 theorems) --------------------- *)

(* the hashable keys (well-formed: Go integers in their type's range, floats as 64-bit patterns).
   The name is historical: the predicate once excluded floats. *)
Definition wfb (f : N) : bool := (f <? 18446744073709551616)%N.
Fixpoint nf_key (v : val) : bool :=
  match v with
  | VNone | VBool _ | VStr _ | VBStr _ | VBytes _ | VClass _ _ | VUser _ | VBig _ _ => true
  | VInt z => in_int64 z
  | VUint z => in_uint64 z
  | VFloat f => wfb f
  | VComplex re im => wfb re && wfb im
  | VTuple l => forallb nf_key l
  | VCall _ _ l => forallb nf_key l
  | VRef p => nf_key p
  | _ => false
  end.

