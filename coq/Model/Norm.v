(* Norm.v — what Decode(Encode(v)) is documented to give: identity-free values (tval), the erasure
   of decoded values into them, and the normal form norm c v the round-trip theorem predicts.
   Definitions only; the theorem is Proofs/RoundTrip.v, the statement Props/C03.v.  norm is also
   extracted and compared with the implementation's Decode(Encode(v)) on every run. *)
From Coq Require Import Ascii String.
From Coq Require Import List ZArith NArith Bool.
From Coq.Strings Require Import Byte.
From OgRek Require Import Base GoStrconv PyQuote Value Decoder Encoder.
Import ListNotations.
Open Scope N_scope.

(* ---- values without identities: what a caller can observe of a decoded value ----------------- *)

Inductive tval : Type :=
| TNone | TBool (b : bool) | TInt (z : Z) | TBig (z : Z) | TFloat (bits : N)
| TStr (s : bytes) | TBStr (s : bytes) | TBytes (s : bytes) | TBArr (s : bytes)
| TList (l : list tval) | TTuple (l : list tval)
| TClass (m n : bytes) | TCall (m n : bytes) (l : list tval) | TRef (p : tval)
| TUser (tag : N).   (* an application object returned by PersistentLoad *)

Fixpoint erase (v : val) : option tval :=
  match v with
  | VNone => Some TNone
  | VBool b => Some (TBool b)
  | VInt z => Some (TInt z)
  | VBig _ z => Some (TBig z)
  | VFloat b => Some (TFloat b)
  | VStr s => Some (TStr s)
  | VBStr s => Some (TBStr s)
  | VBytes s => Some (TBytes s)
  | VBArr s => Some (TBArr s)
  | VList _ l => option_map TList (map_opt erase l)
  | VTuple l => option_map TTuple (map_opt erase l)
  | VClass m n => Some (TClass m n)
  | VCall m n l => option_map (TCall m n) (map_opt erase l)
  | VRef p => option_map TRef (erase p)
  | VUser t => Some (TUser t)
  | _ => None
  end.

(* a representative decoded value (all identities 0), for printing with Value.dump *)
Fixpoint unerase (t : tval) : val :=
  match t with
  | TNone => VNone
  | TBool b => VBool b
  | TInt z => VInt z
  | TBig z => VBig 0 z
  | TFloat b => VFloat b
  | TStr s => VStr s
  | TBStr s => VBStr s
  | TBytes s => VBytes s
  | TBArr s => VBArr s
  | TList l => VList 0 (map unerase l)
  | TTuple l => VTuple (map unerase l)
  | TClass m n => VClass m n
  | TCall m n l => VCall m n (map unerase l)
  | TRef p => VRef (unerase p)
  | TUser t => VUser t
  end.

(* ---- the normal form ------------------------------------------------------------------------------- *)

Definition plain_classb (m n : bytes) : bool :=
  negb (bytes_eqb m (bs "_codecs") && bytes_eqb n (bs "encode")) && negb (bytes_eqb n (bs "bytearray")).

Section Norm.
  Variable c : econfig.

  Definition len32 (s : bytes) : bool := Nlen s <? 4294967296.

  (* protocol-0 float: the text fmt's %g produced (oracle e_fmtg) must read back as the same bits *)
  Definition fmtg_ok (f : N) : bool :=
    match parse_float (e_fmtg c f) with
    | PFok b => (b =? f) && forallb (fun x => negb (beqb x x0a)) (e_fmtg c f)
    | _ => false
    end.
  Definition float_fits (f : N) : bool := if (1 <=? e_proto c)%Z then f <? 2 ^ 64 else fmtg_ok f.

  (* text written with a unicode opcode: binary forms, or at protocol 0 V + raw-unicode-escape, which
     exists exactly for valid UTF-8 (otherwise Encode returns the documented error) *)
  Definition uni_fits (s : bytes) : bool :=
    if (1 <=? e_proto c)%Z then len32 s
    else match pyencode_raw_unicode_escape s with Some _ => true | None => false end.
  (* text written with a Python-2 str opcode: binary forms, or at protocol 0 S + pyquote *)
  Definition bstr_fits (s : bytes) : bool := if (1 <=? e_proto c)%Z then len32 s else true.
  (* a Go string: unicode under StrictUnicode or protocol >= 3, Python-2 str otherwise *)
  Definition str_fits (s : bytes) : bool :=
    if e_strict c || (3 <=? e_proto c)%Z then uni_fits s else bstr_fits s.
  Definition bstr_t (s : bytes) : tval := if e_strict c then TBStr s else TStr s.

  Definition class_ok (m n : bytes) : bool :=
    if (4 <=? e_proto c)%Z then len32 m && len32 n else negb (has_lf m || has_lf n).

  (* Bytes: BINBYTES from protocol 3; below, _codecs.encode(text, 'latin1') in binary forms *)
  Definition bytes_ok (s : bytes) : bool :=
    if (3 <=? e_proto c)%Z then len32 s else uni_fits (latin1_to_utf8 s).
  (* []byte: BYTEARRAY8 at protocol 5; below, bytearray(Bytes) *)
  Definition barr_ok (s : bytes) : bool :=
    if (5 <=? e_proto c)%Z then Nlen s <? 2 ^ 63 else bytes_ok s.

  (* a persistent reference: from protocol 1 the id is any value (BINPERSID); at protocol 0 only a
     single-line string id has a form (P<id>\n, read back as a string) *)
  Definition norm_ref (pid : rval) (tp : option tval) : option tval :=
    if (1 <=? e_proto c)%Z then option_map TRef tp
    else match pid with
         | RStr SPlain s => if has_lf s || negb (e_proto c =? 0)%Z then None else Some (TRef (TStr s))
         | _ => None
         end.

  (* None = outside the fragment the theorem covers (not: an error) *)
  Fixpoint norm (v : rval) : option tval :=
    match v with
    | RInvalid | RNilPtr | RNone => Some TNone
    | RBool b => Some (TBool b)
    | RInt z => if in_int64 z then Some (TInt z) else None
    | RUint z => if (0 <=? z)%Z then Some (if (z <=? int64_max)%Z then TInt z else TBig z) else None
    | RFloat f => if float_fits f then Some (TFloat f) else None
    | RStr SPlain s | RStr SNamed s => if str_fits s then Some (TStr s) else None
    | RStr SUnicode s => if uni_fits s then Some (TStr s) else None
    | RStr SByteString s => if bstr_fits s then Some (bstr_t s) else None
    | RStr SBytes s => if bytes_ok s then Some (TBytes s) else None
    | RByteSeq s => if barr_ok s then Some (TBArr s) else None
    | RTuple l => option_map TTuple (map_opt norm l)
    | RList l => option_map TList (map_opt norm l)
    | RClass m n => if class_ok m n then Some (TClass m n) else None
    | RCall m n l =>
        if class_ok m n && plain_classb m n then option_map (TCall m n) (map_opt norm l) else None
    | RRef pid => norm_ref pid (norm pid)
    | RBig z => Some (TBig z)
    | RPtr to_struct ref x =>
        match to_struct, ref with
        | true, Some pid => norm_ref pid (norm pid)
        | _, _ => norm x
        end
    | _ => None
    end.
End Norm.

(* ---- re-encoding a decoded value (C05) ---------------------------------------------------------- *)

(* the Go value Decode returned, as the encoder's reflection sees it.  None: values that live in
   the heap (maps, Dicts) or come from a PersistentLoad hook - outside the theorem's fragment *)
Fixpoint reify (v : val) : option rval :=
  match v with
  | VNone => Some RNone
  | VBool b => Some (RBool b)
  | VInt z => Some (RInt z)
  | VBig _ z => Some (RBig z)
  | VFloat b => Some (RFloat b)
  | VStr s => Some (RStr SPlain s)
  | VBStr s => Some (RStr SByteString s)
  | VBytes s => Some (RStr SBytes s)
  | VBArr s => Some (RByteSeq s)
  | VList _ l => option_map RList (map_opt reify l)
  | VTuple l => option_map RTuple (map_opt reify l)
  | VClass m n => Some (RClass m n)
  | VCall m n l => option_map (RCall m n) (map_opt reify l)
  | VRef p => option_map RRef (reify p)
  | _ => None
  end.

(* what protocol c can carry without one of the documented limitations or a form the theorem
   does not cover yet (the conditions mirror norm's) *)
Fixpoint fits (c : econfig) (t : tval) : bool :=
  match t with
  | TNone | TBool _ | TBig _ => true
  | TInt z => in_int64 z
  | TFloat f => float_fits c f
  | TStr s => str_fits c s
  | TBStr s => bstr_fits c s && e_strict c
  | TBytes s => bytes_ok c s
  | TBArr s => barr_ok c s
  | TList l => forallb (fits c) l
  | TTuple l => forallb (fits c) l
  | TClass m n => class_ok c m n
  | TCall m n l => class_ok c m n && plain_classb m n && forallb (fits c) l
  | TRef p => if (1 <=? e_proto c)%Z then fits c p else match p with TStr s => negb (has_lf s || negb (e_proto c =? 0)%Z) | _ => false end
  | TUser _ => false
  end.

(* fits without the two conditions every decoded value meets by typing (C16): ints are int64 and
   ByteString only occurs under StrictUnicode *)
Fixpoint fits_proto (c : econfig) (t : tval) : bool :=
  match t with
  | TNone | TBool _ | TBig _ | TInt _ => true
  | TFloat f => float_fits c f
  | TStr s => str_fits c s
  | TBStr s => bstr_fits c s
  | TBytes s => bytes_ok c s
  | TBArr s => barr_ok c s
  | TList l => forallb (fits_proto c) l
  | TTuple l => forallb (fits_proto c) l
  | TClass m n => class_ok c m n
  | TCall m n l => class_ok c m n && plain_classb m n && forallb (fits_proto c) l
  | TRef p => if (1 <=? e_proto c)%Z then fits_proto c p else match p with TStr s => negb (has_lf s || negb (e_proto c =? 0)%Z) | _ => false end
  | TUser _ => false
  end.

(* ---- PersistentLoad hooks (C18) -------------------------------------------------------------------- *)

(* what a PersistentLoad hook does to the value that would otherwise be Ref{id}: described on
   identity-free values by g.  Without a hook g = TRef; with a hook f it must return an object for
   every id, with content g (content of id) - e.g. the inverse of the encoder's PersistentRef *)
Definition hook_spec (load : option (N -> val -> load_result)) (g : tval -> tval) : Prop :=
  match load with
  | None => forall t, g t = TRef t
  | Some f => forall idx p t, erase p = Some t ->
                (f idx p = LNil /\ g t = TRef t) \/ (exists o, f idx p = LObj o /\ erase o = Some (g t))
  end.


(* the content Decode returns for a value whose hook-free content is t: every Ref replaced by what
   the hook makes of it, innermost first *)
Fixpoint hmap (g : tval -> tval) (t : tval) : tval :=
  match t with
  | TList l => TList (map (hmap g) l)
  | TTuple l => TTuple (map (hmap g) l)
  | TCall m n l => TCall m n (map (hmap g) l)
  | TRef p => g (hmap g p)
  | _ => t
  end.

(* the hook the harness installs in the implementation and in the extracted model for the
   inverse-hooks runs: an application object registry keyed by string ids and tuple ids (the tag
   is a function of the id only - that is what "PersistentLoad inverts PersistentRef" needs);
   other ids are kept as Refs *)
Definition tag_of_string (s : bytes) : N := fold_left (fun a b => (a * 31 + b2N b) mod 1000003) s 0.
Definition inv_load (idx : N) (p : val) : load_result :=
  match p with
  | VStr s => LObj (VUser (tag_of_string s))
  | VTuple l => LObj (VUser (2000000 + Nlen l))
  | _ => LNil
  end.
Definition inv_g (t : tval) : tval :=
  match t with
  | TStr s => TUser (tag_of_string s)
  | TTuple l => TUser (2000000 + Nlen l)
  | _ => TRef t
  end.
