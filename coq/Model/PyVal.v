(* PyVal.v — SPECIFICATION: the Python value the documented type table (doc.go, encode.go) assigns
   to a Go value, per protocol and StrictUnicode setting.  None = outside the fragment
   Proofs/PyFacts.v covers (not: an error).  Definitions only. *)
From Coq Require Import Ascii String.
From Coq Require Import List ZArith NArith Bool.
From Coq.Strings Require Import Byte.
From OgRek Require Import Base Utf8 PyQuote Value Encoder Norm Insn PyVM.
Import ListNotations.
Open Scope N_scope.

Section PyVal.
  Variable c : econfig.

  (* text written with a unicode opcode *)
  Definition uni_ok (s : bytes) : bool :=
    if (1 <=? e_proto c)%Z then len32 s && utf8_valid s
    else match pyencode_raw_unicode_escape s with Some _ => true | None => false end.   (* V form *)
  Definition pv_unicode (s : bytes) : option pv := if uni_ok s then Some (PUni s) else None.
  (* text written with a Python-2 str opcode *)
  Definition pv_bytestring (s : bytes) : option pv :=
    if (1 <=? e_proto c)%Z then (if Nlen s <? 2147483648 then Some (PStr s) else None)
    else Some (PStr s).                      (* protocol 0: S + pyquote, any length *)
  (* Go string: unicode under StrictUnicode or protocol >= 3, Python-2 str otherwise *)
  Definition pv_string (s : bytes) : option pv :=
    if e_strict c || (3 <=? e_proto c)%Z then pv_unicode s else pv_bytestring s.

  Definition pv_bytes (s : bytes) : option pv := if bytes_ok c s then Some (PBytes s) else None.
  Definition pv_bytearray (s : bytes) : option pv := if barr_ok c s then Some (PBArr s) else None.

  Definition pv_class_ok (m n : bytes) : bool :=
    if (4 <=? e_proto c)%Z then uni_ok m && uni_ok n
    else PyVM.no_lf m && PyVM.no_lf n && utf8_valid m && utf8_valid n.

  Definition pv_ref (pid : rval) (pidv : option pv) : option pv :=
    if (e_proto c =? 0)%Z then
      match pid with
      | RStr SPlain s => if PyVM.no_lf s && ascii_only s then Some (PPers (PUni s)) else None
      | _ => None
      end
    else option_map PPers pidv.

  Fixpoint pyval_of (v : rval) : option pv :=
    let flat := fix flat (es : list (rval * rval)) : option (list pv) :=
      match es with
      | [] => Some []
      | (k, x) :: t =>
          match pyval_of k, pyval_of x, flat t with
          | Some pk, Some px, Some r => Some (pk :: px :: r)
          | _, _, _ => None
          end
      end in
    let fflat := fix fflat (use_tag : bool) (fs : list sfield) : option (list pv) :=
      match fs with
      | [] => Some []
      | SField name exported tag x :: t =>
          let emitted :=
            if use_tag then negb (Nat.eqb (length tag) 0) && negb (tag_later tag t) else exported in
          if emitted then
            match pv_string (if use_tag then tag else name), pyval_of x, fflat use_tag t with
            | Some pk, Some px, Some r => Some (pk :: px :: r)
            | _, _, _ => None
            end
          else fflat use_tag t
      end in
    let dict_of := fun (items : option (list pv)) =>
      match items with
      | Some l => option_map PDict (pd_of_items l [])
      | None => None
      end in
    match v with
    | RInvalid | RNilPtr | RNone => Some PNone
    | RBool b => Some (PBool b)
    | RInt z => Some (PInt z)
    | RUint z => if (0 <=? z)%Z then Some (PInt z) else None
    | RBig z => Some (PInt z)
    | RFloat f =>
        if (1 <=? e_proto c)%Z then (if f <? 2 ^ 64 then Some (PFloat f) else None)
        else match float_text (e_fmtg c f) with        (* protocol 0: the %g text must mean f *)
             | Some b => if b =? f then Some (PFloat f) else None
             | None => None
             end
    | RStr SPlain s | RStr SNamed s => pv_string s
    | RStr SUnicode s => pv_unicode s
    | RStr SByteString s => pv_bytestring s
    | RStr SBytes s => pv_bytes s
    | RByteSeq s => pv_bytearray s
    | RTuple l => option_map PTuple (map_opt pyval_of l)
    | RList l => option_map PList (map_opt pyval_of l)
    | RMap es => dict_of (flat es)
    | RDict es => dict_of (flat es)
    | RStruct fs => dict_of (fflat (existsb (fun f => negb (Nat.eqb (length (sf_tag f)) 0)) fs) fs)
    | RClass m n => if pv_class_ok m n then Some (PGlobal m n) else None
    | RCall m n args =>
        if pv_class_ok m n && plain_classb m n then
          option_map (PCall (PGlobal m n)) (map_opt pyval_of args)
        else None
    | RRef pid => pv_ref pid (pyval_of pid)
    | RPtr to_struct ref x =>
        match to_struct, ref with
        | true, Some pid => pv_ref pid (pyval_of pid)
        | _, _ => pyval_of x
        end
    | RUnsup _ => None
    end.
End PyVal.
