(* PyVM2.v — SPECIFICATION: CPython's unpickler on instruction lists over every opcode og-rek's
   Decode implements, memo and mutation opcodes included.  Lists and dicts are objects in a heap
   (QRef id), so an object reached through the memo or DUP is the very object later opcodes extend;
   a dict is the trace of assignments made to it (PyVM.pd_merge-style merging gives what Python
   keeps).  Classes and persistent ids are symbolic, the two documented callables are evaluated, as
   in harness/py/pyref.py, with which this machine is compared on every run.  Where CPython's own
   text parsing is involved the machine accepts canonical forms only (it is stricter than CPython).
   Definitions only. *)
From Coq Require Import Ascii String.
From Coq Require Import List ZArith NArith Bool.
From Coq.Strings Require Import Byte.
From OgRek Require Import Base Utf8 GoStrconv PyQuote Float Value PyEq Decoder Insn PyVM.
Import ListNotations.
Open Scope N_scope.

Inductive qv : Type :=
| QNone | QBool (b : bool) | QInt (z : Z) | QFloat (bits : N)
| QUni (s : bytes) | QStr (s : bytes) | QBytes (s : bytes) | QBArr (s : bytes)
| QTuple (l : list qv)
| QRef (id : N)                              (* a list or a dict: the object itself *)
| QGlobal (m n : bytes) | QCall (f : qv) (args : list qv) | QPers (pid : qv).

Inductive qobj := OList (l : list qv) | ODict (trace : list (qv * qv)).
Inductive qitem := QMark | QObj (v : qv).

Record qstate := {
  q_stack : list qitem;
  q_memo : list (N * qv);
  q_heap : list (N * qobj);
  q_next : N;
  q_proto : N }.

Definition q_init : qstate := {| q_stack := []; q_memo := []; q_heap := []; q_next := 0; q_proto := 0 |}.

Definition qset_stack (st : qstate) (s : list qitem) : qstate :=
  {| q_stack := s; q_memo := q_memo st; q_heap := q_heap st; q_next := q_next st; q_proto := q_proto st |}.
Definition qpush (v : qv) (st : qstate) : qstate := qset_stack st (QObj v :: q_stack st).

Fixpoint qheap_get (h : list (N * qobj)) (id : N) : option qobj :=
  match h with
  | [] => None
  | (i, o) :: t => if i =? id then Some o else qheap_get t id
  end.
Fixpoint qheap_set (h : list (N * qobj)) (id : N) (o : qobj) : list (N * qobj) :=
  match h with
  | [] => [(id, o)]
  | (i, o') :: t => if i =? id then (i, o) :: t else (i, o') :: qheap_set t id o
  end.

(* leaf values come from the memo-free machine *)
Fixpoint inj (v : pv) : qv :=
  match v with
  | PNone => QNone | PBool b => QBool b | PInt z => QInt z | PFloat f => QFloat f
  | PUni s => QUni s | PStr s => QStr s | PBytes s => QBytes s | PBArr s => QBArr s
  | PTuple l => QTuple (map inj l)
  | PGlobal m n => QGlobal m n
  | PCall f a => QCall (inj f) (map inj a)
  | PPers p => QPers (inj p)
  | PList _ | PDict _ => QNone             (* no leaf instruction produces one *)
  end.

Definition is_leaf (i : insn) : bool :=
  match i with
  | INone | INewTrue | INewFalse | IInt _ | IBinint1 _ | IBinint2 _ | IBinint _ | ILong _
  | IBinfloat _ | IFloat _ | IString _ | IShortBinstring _ | IBinstring _ | IUnicode _
  | IShortBinunicode _ | IBinunicode _ | IShortBinbytes _ | IBinbytes _ | IBytearray8 _
  | IEmptyTuple | IGlobal _ _ | IPersid _ => true
  | _ => false
  end.

(* dict keys: lists and dicts (QRef) and bytearrays are unhashable *)
Fixpoint q_key (v : qv) : option val :=
  match v with
  | QNone => Some VNone
  | QBool b => Some (VBool b)
  | QInt z => Some (if in_int64 z then VInt z else VBig 0 z)
  | QFloat f => Some (VFloat f)
  | QUni s => Some (VStr s)
  | QStr s => Some (VBStr s)
  | QBytes s => Some (VBytes s)
  | QTuple l => option_map VTuple (map_opt q_key l)
  | QGlobal m n => Some (VClass m n)
  | QCall (QGlobal m n) args => option_map (VCall m n) (map_opt q_key args)
  | QPers p => option_map VRef (q_key p)
  | _ => None
  end.
Definition q_hashable (v : qv) : bool := match q_key v with Some _ => true | None => false end.

Fixpoint qpop_mark (s : list qitem) (acc : list qv) : option (list qv * list qitem) :=
  match s with
  | [] => None
  | QMark :: t => Some (acc, t)
  | QObj v :: t => qpop_mark t (v :: acc)
  end.

(* items k v k v ... -> assignments; None: odd count or an unhashable key *)
Fixpoint q_pairs (items : list qv) : option (list (qv * qv)) :=
  match items with
  | [] => Some []
  | k :: v :: t =>
      if q_hashable k then match q_pairs t with Some r => Some ((k, v) :: r) | None => None end
      else None
  | _ => None
  end.

Definition q_is_text (v : qv) (t : bytes) : bool :=
  match v with QUni s | QStr s => bytes_eqb s t | _ => false end.

Definition q_call (proto : N) (f : qv) (args : list qv) : option qv :=
  match f with
  | QGlobal m n =>
      if bytes_eqb m (bs "_codecs") && bytes_eqb n (bs "encode") && Nat.eqb (length args) 2
         && q_is_text (nth 1 args QNone) (bs "latin1") then
        match nth 0 args QNone with
        | QUni u =>
            let rs := utf8_runes u in
            if utf8_valid u && forallb (fun r => r <? 256) rs then Some (QBytes (map N2b rs)) else None
        | _ => None
        end
      else if bytes_eqb m (if proto <=? 2 then bs "__builtin__" else bs "builtins")
              && bytes_eqb n (bs "bytearray") then
        match args with
        | [QBytes b] => Some (QBArr b)
        | [_] => None
        | [a; b] =>
            if q_is_text b (bs "latin-1") then
              match a with
              | QUni u =>
                  let rs := utf8_runes u in
                  if utf8_valid u && forallb (fun r => r <? 256) rs then Some (QBArr (map N2b rs)) else None
              | _ => None
              end
            else Some (QCall f args)
        | _ => Some (QCall f args)
        end
      else Some (QCall f args)
  | _ => None
  end.

Fixpoint qmemo_get (m : list (N * qv)) (k : N) : option qv :=
  match m with
  | [] => None
  | (k', v) :: t => if k' =? k then Some v else qmemo_get t k
  end.
Fixpoint qmemo_set (m : list (N * qv)) (k : N) (v : qv) : list (N * qv) :=
  match m with
  | [] => [(k, v)]
  | (k', v') :: t => if k' =? k then (k', v) :: t else (k', v') :: qmemo_set t k v
  end.

Definition qmemo_top (st : qstate) (k : N) : option qstate :=
  match q_stack st with
  | QObj v :: _ =>
      Some {| q_stack := q_stack st; q_memo := qmemo_set (q_memo st) k v; q_heap := q_heap st;
              q_next := q_next st; q_proto := q_proto st |}
  | _ => None
  end.
Definition qget (st : qstate) (k : N) : option qstate :=
  match qmemo_get (q_memo st) k with Some v => Some (qpush v st) | None => None end.

(* a new object on top of stack s *)
Definition qnew (st : qstate) (o : qobj) (s : list qitem) : qstate :=
  {| q_stack := QObj (QRef (q_next st)) :: s; q_memo := q_memo st;
     q_heap := qheap_set (q_heap st) (q_next st) o; q_next := q_next st + 1; q_proto := q_proto st |}.
(* object id now is o; stack s *)
Definition qmutate (st : qstate) (id : N) (o : qobj) (s : list qitem) : qstate :=
  {| q_stack := s; q_memo := q_memo st; q_heap := qheap_set (q_heap st) id o;
     q_next := q_next st; q_proto := q_proto st |}.

(* canonical decimal of a memo index *)
Definition memo_index (t : bytes) : option N :=
  match parse_dec_Z t with
  | Some z => if (0 <=? z)%Z && bytes_eqb t (dec_of_N (Z.to_N z)) then Some (Z.to_N z) else None
  | None => None
  end.

Definition qstep (i : insn) (st : qstate) : option qstate :=
  if is_leaf i then
    match pstep (q_proto st) i [] with
    | Some [PObj v] => Some (qpush (inj v) st)
    | _ => None
    end
  else
  let s := q_stack st in
  match i with
  | IMark => Some (qset_stack st (QMark :: s))
  | ITuple => match qpop_mark s [] with Some (l, t) => Some (qset_stack st (QObj (QTuple l) :: t)) | None => None end
  | ITuple1 => match s with QObj a :: t => Some (qset_stack st (QObj (QTuple [a]) :: t)) | _ => None end
  | ITuple2 => match s with QObj b :: QObj a :: t => Some (qset_stack st (QObj (QTuple [a; b]) :: t)) | _ => None end
  | ITuple3 => match s with QObj c :: QObj b :: QObj a :: t =>
                 Some (qset_stack st (QObj (QTuple [a; b; c]) :: t)) | _ => None end
  | IEmptyList => Some (qnew st (OList []) s)
  | IList => match qpop_mark s [] with Some (l, t) => Some (qnew st (OList l) t) | None => None end
  | IEmptyDict => Some (qnew st (ODict []) s)
  | IDict =>
      match qpop_mark s [] with
      | Some (l, t) => match q_pairs l with Some tr => Some (qnew st (ODict tr) t) | None => None end
      | None => None
      end
  | IStackGlobal =>
      match s with
      | QObj (QUni n) :: QObj (QUni m) :: t => Some (qset_stack st (QObj (QGlobal m n) :: t))
      | _ => None
      end
  | IReduce =>
      match s with
      | QObj (QTuple args) :: QObj f :: t =>
          match q_call (q_proto st) f args with Some r => Some (qset_stack st (QObj r :: t)) | None => None end
      | _ => None
      end
  | IBinpersid => match s with QObj p :: t => Some (qset_stack st (QObj (QPers p) :: t)) | _ => None end
  | IPut t => match memo_index t with Some k => qmemo_top st k | None => None end
  | IBinput n => qmemo_top st (n mod 256)
  | ILongBinput n => qmemo_top st (n mod 4294967296)
  | IMemoize => qmemo_top st (Nlen (q_memo st))
  | IGet t => match memo_index t with Some k => qget st k | None => None end
  | IBinget n => qget st (n mod 256)
  | ILongBinget n => qget st (n mod 4294967296)
  | IDup => match s with QObj v :: _ => Some (qpush v st) | _ => None end
  | IPop => match s with _ :: t => Some (qset_stack st t) | [] => None end
  | IAppend =>
      match s with
      | QObj x :: QObj (QRef id) :: t =>
          match qheap_get (q_heap st) id with
          | Some (OList l) => Some (qmutate st id (OList (l ++ [x])) (QObj (QRef id) :: t))
          | _ => None
          end
      | _ => None
      end
  | IAppends =>
      match qpop_mark s [] with
      | Some (items, QObj (QRef id) :: t) =>
          match qheap_get (q_heap st) id with
          | Some (OList l) => Some (qmutate st id (OList (l ++ items)) (QObj (QRef id) :: t))
          | _ => None
          end
      | _ => None
      end
  | ISetitem =>
      match s with
      | QObj v :: QObj k :: QObj (QRef id) :: t =>
          match qheap_get (q_heap st) id with
          | Some (ODict tr) =>
              if q_hashable k then Some (qmutate st id (ODict (tr ++ [(k, v)])) (QObj (QRef id) :: t)) else None
          | _ => None
          end
      | _ => None
      end
  | ISetitems =>
      match qpop_mark s [] with
      | Some (items, QObj (QRef id) :: t) =>
          match qheap_get (q_heap st) id, q_pairs items with
          | Some (ODict tr), Some new => Some (qmutate st id (ODict (tr ++ new)) (QObj (QRef id) :: t))
          | _, _ => None
          end
      | _ => None
      end
  | ILong1 d => if Nlen d <? 256 then Some (qpush (QInt (decode_long d)) st) else None
  | IFrame _ => Some st
  | _ => None                       (* PROTO, STOP: handled by qrun *)
  end.

Fixpoint qrun (prog : list insn) (st : qstate) : option (qv * qstate) :=
  match prog with
  | [] => None
  | IStop :: _ =>
      match q_stack st with
      | QObj v :: t => Some (v, qset_stack st t)
      | _ => None
      end
  | IProto p :: r =>
      if p <=? 5 then
        qrun r {| q_stack := q_stack st; q_memo := q_memo st; q_heap := q_heap st;
                  q_next := q_next st; q_proto := p |}
      else None
  | i :: r => match qstep i st with Some st' => qrun r st' | None => None end
  end.

Definition qload (prog : list insn) : option (qv * qstate) := qrun prog q_init.

(* the object graph below v as a tree (None: deeper than fuel, e.g. cyclic) *)
Fixpoint unfold (fuel : nat) (h : list (N * qobj)) (v : qv) : option pv :=
  match fuel with
  | O => None
  | S f =>
      match v with
      | QNone => Some PNone | QBool b => Some (PBool b) | QInt z => Some (PInt z)
      | QFloat b => Some (PFloat b) | QUni s => Some (PUni s) | QStr s => Some (PStr s)
      | QBytes s => Some (PBytes s) | QBArr s => Some (PBArr s)
      | QTuple l => option_map PTuple (map_opt (unfold f h) l)
      | QRef id =>
          match qheap_get h id with
          | Some (OList l) => option_map PList (map_opt (unfold f h) l)
          | Some (ODict tr) =>
              option_map PDict
                (map_opt (fun kv => match unfold f h (fst kv), unfold f h (snd kv) with
                                    | Some k, Some x => Some (k, x)
                                    | _, _ => None
                                    end) tr)
          | None => None
          end
      | QGlobal m n => Some (PGlobal m n)
      | QCall g a =>
          match unfold f h g, map_opt (unfold f h) a with
          | Some g', Some a' => Some (PCall g' a')
          | _, _ => None
          end
      | QPers p => option_map PPers (unfold f h p)
      end
  end.

(* ---- successive load() calls on one Unpickler: it keeps its memo and objects between calls and
   starts each call with an empty stack and protocol 0 (C11) ------------------------------------- *)
Definition qrestart (pst : qstate) : qstate :=
  {| q_stack := []; q_memo := q_memo pst; q_heap := q_heap pst; q_next := q_next pst; q_proto := 0 |}.

(* the values of successive load() calls, each with the machine state it left *)
Fixpoint qload_all (progs : list (list insn)) (pst : qstate) : option (list (qv * qstate)) :=
  match progs with
  | [] => Some []
  | p :: r =>
      match qrun p (qrestart pst) with
      | Some (x, pst') =>
          match qload_all r pst' with Some xs => Some ((x, pst') :: xs) | None => None end
      | None => None
      end
  end.

