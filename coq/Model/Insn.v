(* Insn.v — pickle programs as instruction lists: the instructions the encoder can emit, their
   byte form (asm), the protocol that introduced each opcode, and the pickle machine's stack
   discipline over {mark, object}.  The table (first byte of asm, iproto, stack effect) is compared
   with CPython's pickletools.opcodes on every run.  Definitions only. *)
From Coq Require Import Ascii String.
From Coq Require Import List ZArith NArith Bool.
From Coq.Strings Require Import Byte.
From OgRek Require Import Base.
Import ListNotations.
Open Scope N_scope.

Inductive insn : Type :=
| INone | INewTrue | INewFalse
| IInt (text : bytes)                 (* I text LF       (also the protocol-0 booleans I01 / I00) *)
| IBinint1 (n : N)                    (* K u8 *)
| IBinint2 (n : N)                    (* M u16 little endian *)
| IBinint (n : N)                     (* J i32 little endian, n = the unsigned reading *)
| ILong (text : bytes)                (* L text L LF *)
| IBinfloat (bits : N)                (* G 8 bytes big endian *)
| IFloat (text : bytes)               (* F text LF *)
| IString (quoted : bytes)            (* S quoted LF *)
| IShortBinstring (s : bytes)         (* U u8 bytes *)
| IBinstring (s : bytes)              (* T u32 bytes *)
| IUnicode (escaped : bytes)          (* V raw-unicode-escape LF *)
| IShortBinunicode (s : bytes)        (* 0x8c u8 utf-8 *)
| IBinunicode (s : bytes)             (* X u32 utf-8 *)
| IShortBinbytes (s : bytes)          (* C u8 bytes *)
| IBinbytes (s : bytes)               (* B u32 bytes *)
| IBytearray8 (s : bytes)             (* 0x96 u64 bytes *)
| IMark | ITuple | ITuple1 | ITuple2 | ITuple3 | IEmptyTuple
| IEmptyList | IList | IEmptyDict | IDict
| IGlobal (m n : bytes)               (* c module LF name LF *)
| IStackGlobal | IReduce
| IPersid (text : bytes)              (* P text LF *)
| IBinpersid
| IProto (p : N)
| IStop
(* instructions only a decoder meets (the encoder emits none of them) *)
| IPut (text : bytes)                 (* p text LF *)
| IBinput (n : N)                     (* q u8 *)
| ILongBinput (n : N)                 (* r u32 *)
| IMemoize                            (* 0x94 *)
| IGet (text : bytes)                 (* g text LF *)
| IBinget (n : N)                     (* h u8 *)
| ILongBinget (n : N)                 (* j u32 *)
| IDup | IPop | IAppend | IAppends | ISetitem | ISetitems
| ILong1 (data : bytes)               (* 0x8a u8 two's complement little endian *)
| IFrame (n : N).                     (* 0x95 u64 *)

Definition u32 (n : N) : bytes := le_encode 4 (n mod 4294967296).

Definition asm (i : insn) : bytes :=
  match i with
  | INone => [x4e] | INewTrue => [x88] | INewFalse => [x89]
  | IInt t => x49 :: t ++ [x0a]
  | IBinint1 n => [x4b; N2b n]
  | IBinint2 n => [x4d; N2b n; N2b (n / 256)]
  | IBinint n => x4a :: le_encode 4 n
  | ILong t => x4c :: t ++ [x4c; x0a]
  | IBinfloat b => x47 :: be_encode 8 b
  | IFloat t => x46 :: t ++ [x0a]
  | IString q => x53 :: q ++ [x0a]
  | IShortBinstring s => x55 :: N2b (Nlen s) :: s
  | IBinstring s => x54 :: u32 (Nlen s) ++ s
  | IUnicode e => x56 :: e ++ [x0a]
  | IShortBinunicode s => x8c :: N2b (Nlen s) :: s
  | IBinunicode s => x58 :: u32 (Nlen s) ++ s
  | IShortBinbytes s => x43 :: N2b (Nlen s) :: s
  | IBinbytes s => x42 :: u32 (Nlen s) ++ s
  | IBytearray8 s => x96 :: le_encode 8 (Nlen s) ++ s
  | IMark => [x28] | ITuple => [x74] | ITuple1 => [x85] | ITuple2 => [x86] | ITuple3 => [x87]
  | IEmptyTuple => [x29] | IEmptyList => [x5d] | IList => [x6c] | IEmptyDict => [x7d] | IDict => [x64]
  | IGlobal m n => x63 :: m ++ [x0a] ++ n ++ [x0a]
  | IStackGlobal => [x93] | IReduce => [x52]
  | IPersid t => x50 :: t ++ [x0a]
  | IBinpersid => [x51]
  | IProto p => [x80; N2b p]
  | IStop => [x2e]
  | IPut t => x70 :: t ++ [x0a]
  | IBinput n => [x71; N2b n]
  | ILongBinput n => x72 :: le_encode 4 n
  | IMemoize => [x94]
  | IGet t => x67 :: t ++ [x0a]
  | IBinget n => [x68; N2b n]
  | ILongBinget n => x6a :: le_encode 4 n
  | IDup => [x32] | IPop => [x30] | IAppend => [x61] | IAppends => [x65]
  | ISetitem => [x73] | ISetitems => [x75]
  | ILong1 d => x8a :: N2b (Nlen d) :: d
  | IFrame n => x95 :: le_encode 8 n
  end.

Definition asm_all (l : list insn) : bytes := flat_map asm l.

(* the pickle protocol that introduced the opcode (pickletools: opcode.proto) *)
Definition iproto (i : insn) : Z :=
  match i with
  | INone | IInt _ | ILong _ | IFloat _ | IString _ | IUnicode _ | IMark | ITuple | IList | IDict
  | IGlobal _ _ | IReduce | IPersid _ | IStop
  | IPut _ | IGet _ | IDup | IPop | IAppend | ISetitem => 0
  | IBinint1 _ | IBinint2 _ | IBinint _ | IBinfloat _ | IShortBinstring _ | IBinstring _
  | IBinunicode _ | IEmptyTuple | IEmptyList | IEmptyDict | IBinpersid
  | IBinput _ | ILongBinput _ | IBinget _ | ILongBinget _ | IAppends | ISetitems => 1
  | INewTrue | INewFalse | ITuple1 | ITuple2 | ITuple3 | IProto _ | ILong1 _ => 2
  | IShortBinbytes _ | IBinbytes _ => 3
  | IShortBinunicode _ | IStackGlobal | IMemoize | IFrame _ => 4
  | IBytearray8 _ => 5
  end%Z.

(* ---- stack discipline: true = mark, false = any object ------------------------------------ *)

Fixpoint pop_to_mark (s : list bool) : option (list bool) :=
  match s with
  | [] => None
  | true :: t => Some t
  | false :: t => pop_to_mark t
  end.

(* None = stack underflow, a mark where an object is needed, or no mark where one is needed *)
Definition sd_step (i : insn) (s : list bool) : option (list bool) :=
  match i with
  | INone | INewTrue | INewFalse | IInt _ | IBinint1 _ | IBinint2 _ | IBinint _ | ILong _
  | IBinfloat _ | IFloat _ | IString _ | IShortBinstring _ | IBinstring _ | IUnicode _
  | IShortBinunicode _ | IBinunicode _ | IShortBinbytes _ | IBinbytes _ | IBytearray8 _
  | IEmptyTuple | IEmptyList | IEmptyDict | IGlobal _ _ | IPersid _
  | IGet _ | IBinget _ | ILongBinget _ | ILong1 _ => Some (false :: s)
  | IMark => Some (true :: s)
  | ITuple | IList | IDict => option_map (cons false) (pop_to_mark s)
  | ITuple1 | IBinpersid => match s with false :: t => Some (false :: t) | _ => None end
  | ITuple2 | IStackGlobal | IReduce => match s with false :: false :: t => Some (false :: t) | _ => None end
  | ITuple3 => match s with false :: false :: false :: t => Some (false :: t) | _ => None end
  | IProto _ | IFrame _ => Some s
  | IPut _ | IBinput _ | ILongBinput _ | IMemoize => match s with false :: _ => Some s | _ => None end
  | IDup => match s with false :: t => Some (false :: false :: t) | _ => None end
  | IPop => match s with false :: t => Some t | _ => None end
  | IAppend => match s with false :: false :: t => Some (false :: t) | _ => None end
  | ISetitem => match s with false :: false :: false :: t => Some (false :: t) | _ => None end
  | IAppends | ISetitems =>
      match pop_to_mark s with Some (false :: t) => Some (false :: t) | _ => None end
  | IStop => None                       (* STOP ends the program: handled by sd_run *)
  end.

(* a well-formed pickle: every instruction applies, STOP occurs exactly once, last, with exactly
   one object on the stack *)
Fixpoint sd_run (prog : list insn) (s : list bool) : bool :=
  match prog with
  | [] => false
  | IStop :: rest => match rest, s with [], [false] => true | _, _ => false end
  | i :: rest => match sd_step i s with Some s' => sd_run rest s' | None => false end
  end.
