(* NormMaps.v — the normal form of Norm.v extended to values that hold maps, Dicts and structs:
   what Decode(Encode(v)) returns, as content without identities, when the result has heap objects.
   Definitions only; the theorem is Proofs/RoundTripMaps.v, the statement Props/C03.v.  norm2 is
   extracted and compared with the implementation's Decode(Encode(v)) on every run. *)
From Coq Require Import Ascii String.
From Coq Require Import List ZArith NArith Bool.
From Coq.Strings Require Import Byte.
From OgRek Require Import Base Float Value PyEq Dict Decoder Encoder Norm.
Import ListNotations.
Open Scope N_scope.

(* content of a decoded value: a heap-free part is a tval (CLeaf); containers that hold a map or
   Dict somewhere below are spelled out; a map / Dict is the list of its entries in the order the
   object holds them *)
Inductive cv : Type :=
| CLeaf (t : tval)
| CList (l : list cv)
| CTuple (l : list cv)
| CCall (m n : bytes) (l : list cv)
| CMap (es : list (cv * cv))
| CDict (es : list (cv * cv)).

(* a key must be heap-free *)
Definition cv_key (k : cv) : option tval := match k with CLeaf t => Some t | _ => None end.

(* *big.Int keys of a builtin map compare by pointer: outside this normal form *)
Fixpoint has_big (t : tval) : bool :=
  match t with
  | TBig _ => true
  | TList l | TTuple l | TCall _ _ l => existsb has_big l
  | TRef p => has_big p
  | _ => false
  end.

Definition ukey (k : cv) : val := match cv_key k with Some t => unerase t | None => VMark end.

(* one assignment d[k] = v on the entry list; None = the key is rejected (Decode returns an error)
   or lies outside this normal form *)
Definition cassign (pd : bool) (es : list (cv * cv)) (k v : cv) : option (list (cv * cv)) :=
  match cv_key k with
  | None => None
  | Some tk =>
      let uk := unerase tk in
      if pd then
        (* Dict: Python equality; every entry with an equal key goes, the new one is appended *)
        if nf_key uk then Some (filter (fun e => negb (py_eq uk (ukey (fst e)))) es ++ [(k, v)]) else None
      else
        (* builtin map: Go interface equality; the entry is replaced in place *)
        if go_unhashable uk || has_big tk then None
        else Some ((fix asg (l : list (cv * cv)) : list (cv * cv) :=
                      match l with
                      | [] => [(k, v)]
                      | (k', v') :: r => if go_key_eq (ukey k') uk then (k, v) :: r else (k', v') :: asg r
                      end) es)
  end.

Fixpoint cassign_all (pd : bool) (es : list (cv * cv)) (ps : list (cv * cv)) : option (list (cv * cv)) :=
  match ps with
  | [] => Some es
  | (k, v) :: t => match cassign pd es k v with Some es' => cassign_all pd es' t | None => None end
  end.

Definition mk_dict (pd : bool) (es : list (cv * cv)) : cv := if pd then CDict es else CMap es.

Section Norm2.
  Variable c : econfig.
  Variable pd : bool.
  Variable g : tval -> tval.       (* what a PersistentLoad hook makes of a reference (Norm.hmap) *)

  Fixpoint norm2 (v : rval) : option cv :=
    let pairs := fix pairs (es : list (rval * rval)) : option (list (cv * cv)) :=
      match es with
      | [] => Some []
      | (k, x) :: t =>
          match norm2 k, norm2 x, pairs t with
          | Some a, Some b, Some r => Some ((a, b) :: r)
          | _, _, _ => None
          end
      end in
    let fields := fix fields (use_tag : bool) (fs : list sfield) : option (list (cv * cv)) :=
      match fs with
      | [] => Some []
      | SField name exported tag x :: t =>
          let emitted :=
            if use_tag then negb (Nat.eqb (length tag) 0) && negb (tag_later tag t) else exported in
          if emitted then
            match norm c (RStr SPlain (if use_tag then tag else name)), norm2 x, fields use_tag t with
            | Some tk, Some b, Some r => Some ((CLeaf (hmap g tk), b) :: r)
            | _, _, _ => None
            end
          else fields use_tag t
      end in
    let dict_of := fun (ps : option (list (cv * cv))) =>
      match ps with
      | Some l => option_map (mk_dict pd) (cassign_all pd [] l)
      | None => None
      end in
    match norm c v with
    | Some t => Some (CLeaf (hmap g t))          (* no map, Dict or struct inside: Norm.norm *)
    | None =>
        match v with
        | RTuple l => option_map CTuple (map_opt norm2 l)
        | RList l => option_map CList (map_opt norm2 l)
        | RCall m n l =>
            if class_ok c m n && plain_classb m n then option_map (CCall m n) (map_opt norm2 l) else None
        | RMap es => dict_of (pairs es)
        | RDict es => dict_of (pairs es)
        | RStruct fs =>
            dict_of (fields (existsb (fun f => negb (Nat.eqb (length (sf_tag f)) 0)) fs) fs)
        | RPtr to_struct ref x =>
            match to_struct, ref with
            | true, Some _ => None
            | _, _ => norm2 x
            end
        | _ => None
        end
    end.
End Norm2.

(* ---- the encoder's view of a decoded value, computed (C05) ---------------------------------------- *)

(* one reflection of v through heap h: maps and Dicts are iterated in stored order, or in reverse
   (Go's runtime picks any order; Proofs/ReflectFacts.v proves the choice does not matter).
   fuel bounds the nesting depth: None for cyclic / too deep values, which have no finite pickle *)
Fixpoint reflect (fuel : nat) (rev_order : bool) (h : heap) (v : val) : option rval :=
  match fuel with
  | O => None
  | S f =>
      match reify v with
      | Some r => Some r
      | None =>
          let pair := fun (e : val * val) =>
            match reflect f rev_order h (fst e), reflect f rev_order h (snd e) with
            | Some a, Some b => Some (a, b)
            | _, _ => None
            end in
          let order := fun (es : list (val * val)) => if rev_order then rev es else es in
          match v with
          | VList _ l => option_map RList (map_opt (reflect f rev_order h) l)
          | VTuple l => option_map RTuple (map_opt (reflect f rev_order h) l)
          | VCall m n l => option_map (RCall m n) (map_opt (reflect f rev_order h) l)
          | VMap id =>
              match heap_get h id with
              | Some (HMap es) => option_map RMap (map_opt pair (order es))
              | _ => None
              end
          | VDict id =>
              match heap_get h id with
              | Some (HDict es) => option_map RDict (map_opt pair (order es))
              | _ => None
              end
          | _ => None
          end
      end
  end.
