(* Dict.v — mirrors Dict.Get_/Set/Del/Len/Iter of dict.go on top of a contract-level model
   of gomap.Map (entries + a choice among matching entries);  RefDict is the SPECIFICATION.
   Definitions only. *)
From Coq Require Import Ascii String.
From Coq Require Import List ZArith NArith Bool.
From Coq.Strings Require Import Byte.
From OgRek Require Import Base Float Value PyEq.
Import ListNotations.
Open Scope N_scope.

Definition entries := list (val * val).

(* gomap finds an entry when the hashes agree and equal() says yes *)
Definition gm_match (k : val) (e : val * val) : bool := hash_same k (fst e) && go_equal k (fst e).

(* which of several matching entries gomap meets first depends on bucket/slot order:
   a choice function over the (non-empty) list of candidate positions *)
Definition chooser := list nat -> nat.
Definition choose_first : chooser := fun l => hd O l.

Fixpoint match_positions (k : val) (es : entries) (i : nat) : list nat :=
  match es with
  | [] => []
  | e :: t => if gm_match k e then i :: match_positions k t (S i) else match_positions k t (S i)
  end.

Definition gm_find_pos (ch : chooser) (k : val) (es : entries) : option nat :=
  match match_positions k es O with
  | [] => None
  | ps => let p := ch ps in if existsb (Nat.eqb p) ps then Some p else Some (hd O ps)
  end.

Fixpoint remove_nth {A} (n : nat) (l : list A) : list A :=
  match l, n with
  | [], _ => []
  | _ :: t, O => t
  | x :: t, S n' => x :: remove_nth n' t
  end.

Fixpoint set_nth_val (n : nat) (v : val) (l : entries) : entries :=
  match l, n with
  | [], _ => []
  | (k, _) :: t, O => (k, v) :: t
  | x :: t, S n' => x :: set_nth_val n' v t
  end.

(* gomap.Map operations, after the key has been hashed *)
Definition gm_get (ch : chooser) (k : val) (es : entries) : option val :=
  match gm_find_pos ch k es with
  | Some p => match nth_error es p with Some e => Some (snd e) | None => None end
  | None => None
  end.
Definition gm_delete (ch : chooser) (k : val) (es : entries) : entries :=
  match gm_find_pos ch k es with Some p => remove_nth p es | None => es end.
Definition gm_set (ch : chooser) (k v : val) (es : entries) : entries :=
  match gm_find_pos ch k es with
  | Some p => set_nth_val p v es        (* existing entry: value replaced, key kept *)
  | None => es ++ [(k, v)]
  end.

(* Dict API.  None = panic "unhashable type: ..." (contents untouched). *)
Definition dict_get (ch : chooser) (k : val) (es : entries) : option (option val) :=
  if hashable k then Some (gm_get ch k es) else None.

(* the Del loop: Delete(key); Get_(key); repeat while found *)
Fixpoint dict_del_loop (fuel : nat) (ch : chooser) (k : val) (es : entries) : entries :=
  match fuel with
  | O => es
  | S f =>
      let es' := gm_delete ch k es in
      match gm_get ch k es' with
      | Some _ => dict_del_loop f ch k es'
      | None => es'
      end
  end.
Definition dict_del (ch : chooser) (k : val) (es : entries) : option entries :=
  if hashable k then Some (dict_del_loop (S (length es)) ch k es) else None.

Definition dict_set (ch : chooser) (k v : val) (es : entries) : option entries :=
  match dict_del ch k es with
  | Some es' => Some (gm_set ch k v es')
  | None => None
  end.

Definition dict_len (es : entries) : nat := length es.

(* ---- SPECIFICATION: a reference dictionary under Python equality ----------- *)

Definition ref_remove (k : val) (es : entries) : entries :=
  filter (fun e => negb (py_eq k (fst e))) es.
Definition ref_set (k v : val) (es : entries) : entries := ref_remove k es ++ [(k, v)].
Definition ref_del (k : val) (es : entries) : entries := ref_remove k es.
(* most recently set entry with an equal key (entries are kept in set order) *)
Definition ref_get (k : val) (es : entries) : option val :=
  match filter (fun e => py_eq k (fst e)) (rev es) with
  | e :: _ => Some (snd e)
  | [] => None
  end.

(* histories *)
Inductive dop := OpSet (k v : val) | OpDel (k : val) | OpGet (k : val).
