(* PyVM.v — SPECIFICATION: CPython's unpickler on instruction lists that contain no memo or DUP
   opcode (the encoder never emits one), where no object can be reached twice and Python values
   are therefore trees.  Classes and persistent ids stay symbolic, as in the reference unpickler of
   harness/py/pyref.py, with which this machine is compared on every run.  Definitions only.

   Where CPython's own parsing is involved (INT / LONG / FLOAT text, STRING quoting, UNICODE
   escapes) the machine is deliberately STRICTER than CPython: it accepts the canonical forms only.
   Whenever it succeeds CPython succeeds with the same value; that inclusion is what the run-time
   comparison checks. *)
From Coq Require Import Ascii String.
From Coq Require Import List ZArith NArith Bool.
From Coq.Strings Require Import Byte.
From OgRek Require Import Base Utf8 GoStrconv PyQuote Float Value PyEq Insn.
Import ListNotations.
Open Scope N_scope.

Inductive pv : Type :=
| PNone | PBool (b : bool) | PInt (z : Z) | PFloat (bits : N)
| PUni (s : bytes)                       (* unicode text (its UTF-8) *)
| PStr (s : bytes)                       (* Python-2 str *)
| PBytes (s : bytes) | PBArr (s : bytes)
| PTuple (l : list pv) | PList (l : list pv)
| PDict (trace : list (pv * pv))         (* every assignment d[k] = v made so far, in order *)
| PGlobal (m n : bytes) | PCall (f : pv) (args : list pv) | PPers (pid : pv).

Inductive pitem := PMark | PObj (v : pv).

(* ---- dict keys: Python equality, through the universe PyEq.py_eq is defined on ----------- *)

Fixpoint pv_key (v : pv) : option val :=
  match v with
  | PNone => Some VNone
  | PBool b => Some (VBool b)
  | PInt z => Some (if in_int64 z then VInt z else VBig 0 z)
  | PFloat f => Some (VFloat f)
  | PUni s => Some (VStr s)
  | PStr s => Some (VBStr s)
  | PBytes s => Some (VBytes s)
  | PTuple l => option_map VTuple (map_opt pv_key l)
  | PGlobal m n => Some (VClass m n)
  | PCall (PGlobal m n) args => option_map (VCall m n) (map_opt pv_key args)
  | PPers p => option_map VRef (pv_key p)
  | _ => None                              (* list, dict, bytearray: unhashable *)
  end.

Definition pv_eq (a b : pv) : bool :=
  match pv_key a, pv_key b with
  | Some x, Some y => py_eq x y
  | _, _ => false
  end.

(* d[k] = v : the first equal key keeps its place and gets the value *)
Fixpoint pd_assign (es : list (pv * pv)) (k v : pv) : list (pv * pv) :=
  match es with
  | [] => [(k, v)]
  | (k0, v0) :: t => if pv_eq k0 k then (k0, v) :: t else (k0, v0) :: pd_assign t k v
  end.

(* what the dict holds after a trace of assignments *)
Definition pd_merge (trace : list (pv * pv)) : list (pv * pv) :=
  fold_left (fun es kv => pd_assign es (fst kv) (snd kv)) trace [].

(* one assignment recorded; None: the key is unhashable (TypeError) *)
Definition pd_set (trace : list (pv * pv)) (k v : pv) : option (list (pv * pv)) :=
  match pv_key k with Some _ => Some (trace ++ [(k, v)]) | None => None end.

(* items in stack order above the mark (top first) -> the dict; None: odd count or unhashable key *)
Fixpoint pd_of_items (items : list pv) (acc : list (pv * pv)) : option (list (pv * pv)) :=
  match items with
  | [] => Some acc
  | k :: v :: t => match pd_set acc k v with Some acc' => pd_of_items t acc' | None => None end
  | _ => None
  end.

(* ---- the stack ---------------------------------------------------------------------------------- *)

Fixpoint ppop_mark (s : list pitem) (acc : list pv) : option (list pv * list pitem) :=
  match s with
  | [] => None
  | PMark :: t => Some (acc, t)
  | PObj v :: t => ppop_mark t (v :: acc)        (* acc ends up bottom-first *)
  end.

Definition ascii_only (s : bytes) : bool := forallb (fun b => b2N b <? 128) s.
Definition no_lf (s : bytes) : bool := forallb (fun b => negb (beqb b x0a)) s.

Definition is_text (v : pv) (t : bytes) : bool :=
  match v with PUni s | PStr s => bytes_eqb s t | _ => false end.

(* REDUCE: the two callables the documentation translates, symbolic otherwise *)
Definition py_call (proto : N) (f : pv) (args : list pv) : option pv :=
  match f with
  | PGlobal m n =>
      if bytes_eqb m (bs "_codecs") && bytes_eqb n (bs "encode") && Nat.eqb (length args) 2
         && is_text (nth 1 args PNone) (bs "latin1") then
        match nth 0 args PNone with
        | PUni u =>
            let rs := utf8_runes u in
            if utf8_valid u && forallb (fun r => r <? 256) rs then Some (PBytes (map N2b rs)) else None
        | _ => None
        end
      else if bytes_eqb m (if proto <=? 2 then bs "__builtin__" else bs "builtins")
              && bytes_eqb n (bs "bytearray") then
        match args with
        | [PBytes b] => Some (PBArr b)
        | _ => None                      (* the other bytearray forms: not needed here *)
        end
      else Some (PCall f args)
  | _ => None
  end.

Definition push1 (v : pv) (s : list pitem) : option (list pitem) := Some (PObj v :: s).

(* decimal integer text as CPython's pickler writes it: no sign for zero, no leading zeros, no '+' *)
Definition int_text (t : bytes) : option Z :=
  match parse_dec_Z t with
  | Some z => if bytes_eqb t (dec_of_Z z) then Some z else None
  | None => None
  end.

(* float text: decimal digits, sign, point, exponent - or inf / nan spelled in lower case *)
Definition float_char (b : byte) : bool :=
  is_digit b || beqb b "+"%byte || beqb b "-"%byte || beqb b "."%byte || beqb b "e"%byte || beqb b "E"%byte.
Definition float_text (t : bytes) : option N :=
  if forallb float_char t || bytes_eqb t (bs "inf") || bytes_eqb t (bs "-inf") || bytes_eqb t (bs "nan")
     || bytes_eqb t (bs "+Inf") || bytes_eqb t (bs "-Inf") || bytes_eqb t (bs "NaN") then   (* fmt's %g spellings *)
    match parse_float t with PFok b => Some b | _ => None end
  else None.

Definition pstep (proto : N) (i : insn) (s : list pitem) : option (list pitem) :=
  match i with
  | INone => push1 PNone s
  | INewTrue => push1 (PBool true) s
  | INewFalse => push1 (PBool false) s
  | IInt t =>
      if bytes_eqb t (bs "00") then push1 (PBool false) s
      else if bytes_eqb t (bs "01") then push1 (PBool true) s
      else match int_text t with Some z => push1 (PInt z) s | None => None end
  | IBinint1 n => push1 (PInt (Z.of_N (n mod 256))) s
  | IBinint2 n => push1 (PInt (Z.of_N (n mod 65536))) s
  | IBinint n =>
      let u := n mod 4294967296 in
      push1 (PInt (if u <? 2147483648 then Z.of_N u else (Z.of_N u - 4294967296)%Z)) s
  | ILong t => match int_text t with Some z => push1 (PInt z) s | None => None end
  | IBinfloat b => push1 (PFloat (b mod 2 ^ 64)) s
  | IFloat t => match float_text t with Some b => push1 (PFloat b) s | None => None end
  | IString q =>
      match q with
      | q0 :: r =>
          match lastb r with
          | Some q1 =>
              if beqb q0 q1 && (beqb q0 "'"%byte || beqb q0 """"%byte) && no_lf q then
                match pydecode_string_escape (removelast r) with
                | Ok b => push1 (PStr b) s
                | _ => None
                end
              else None
          | None => None
          end
      | [] => None
      end
  | IShortBinstring b => if Nlen b <? 256 then push1 (PStr b) s else None
  | IBinstring b => if Nlen b <? 2147483648 then push1 (PStr b) s else None
  | IUnicode e =>
      match pydecode_raw_unicode_escape e with
      | Ok u => if no_lf e then push1 (PUni u) s else None
      | _ => None
      end
  | IShortBinunicode u => if (Nlen u <? 256) && utf8_valid u then push1 (PUni u) s else None
  | IBinunicode u => if (Nlen u <? 4294967296) && utf8_valid u then push1 (PUni u) s else None
  | IShortBinbytes b => if Nlen b <? 256 then push1 (PBytes b) s else None
  | IBinbytes b => if Nlen b <? 4294967296 then push1 (PBytes b) s else None
  | IBytearray8 b => if Nlen b <? 2 ^ 63 then push1 (PBArr b) s else None
  | IMark => Some (PMark :: s)
  | ITuple => match ppop_mark s [] with Some (l, t) => push1 (PTuple l) t | None => None end
  | ITuple1 => match s with PObj a :: t => push1 (PTuple [a]) t | _ => None end
  | ITuple2 => match s with PObj b :: PObj a :: t => push1 (PTuple [a; b]) t | _ => None end
  | ITuple3 => match s with PObj c :: PObj b :: PObj a :: t => push1 (PTuple [a; b; c]) t | _ => None end
  | IEmptyTuple => push1 (PTuple []) s
  | IEmptyList => push1 (PList []) s
  | IList => match ppop_mark s [] with Some (l, t) => push1 (PList l) t | None => None end
  | IEmptyDict => push1 (PDict []) s
  | IDict =>
      match ppop_mark s [] with
      | Some (l, t) => match pd_of_items l [] with Some es => push1 (PDict es) t | None => None end
      | None => None
      end
  | IGlobal m n =>
      if no_lf m && no_lf n && utf8_valid m && utf8_valid n then push1 (PGlobal m n) s else None
  | IStackGlobal =>
      match s with
      | PObj (PUni n) :: PObj (PUni m) :: t => push1 (PGlobal m n) t
      | _ => None
      end
  | IReduce =>
      match s with
      | PObj (PTuple args) :: PObj f :: t =>
          match py_call proto f args with Some r => push1 r t | None => None end
      | _ => None
      end
  | IPersid t => if no_lf t && ascii_only t then push1 (PPers (PUni t)) s else None
  | IBinpersid => match s with PObj p :: t => push1 (PPers p) t | _ => None end
  | IProto _ => None                     (* handled by prun *)
  | IStop => None                        (* handled by prun *)
  | _ => None                            (* memo / DUP / POP / mutation: Model/PyVM2.v *)
  end.

(* instructions other than PROTO / STOP under a fixed announced protocol *)
Fixpoint pseq (proto : N) (prog : list insn) (s : list pitem) : option (list pitem) :=
  match prog with
  | [] => Some s
  | i :: r => match pstep proto i s with Some s' => pseq proto r s' | None => None end
  end.

(* load(): the object on top of the stack when STOP is reached *)
Fixpoint prun (proto : N) (prog : list insn) (s : list pitem) : option pv :=
  match prog with
  | [] => None
  | IStop :: _ => match s with PObj v :: _ => Some v | _ => None end
  | IProto p :: r => if p <=? 5 then prun p r s else None
  | i :: r => match pstep proto i s with Some s' => prun proto r s' | None => None end
  end.

Definition pyload (prog : list insn) : option pv := prun 0 prog [].
