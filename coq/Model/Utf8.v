(* Utf8.v — Go's utf8.DecodeRuneInString and rune -> UTF-8 (string([]rune)). *)
From Coq Require Import Ascii String.
From Coq Require Import List ZArith NArith Bool.
From Coq.Strings Require Import Byte.
From OgRek Require Import Base.
Import ListNotations.
Open Scope N_scope.

Definition rune_error : N := 65533.  (* U+FFFD *)
Definition max_rune : N := 1114111.  (* U+10FFFF *)

Definition in_range (lo hi x : N) : bool := (lo <=? x) && (x <=? hi).

(* (size, lo, hi) of the second byte for a lead byte; size 0 = invalid lead, 1 = ASCII *)
Definition utf8_first (s0 : N) : N * N * N :=
  if s0 <? 128 then (1, 0, 0)
  else if s0 <? 194 then (0, 0, 0)              (* 0x80..0xC1 *)
  else if s0 <? 224 then (2, 128, 191)          (* 0xC2..0xDF *)
  else if s0 =? 224 then (3, 160, 191)          (* 0xE0 *)
  else if s0 <? 237 then (3, 128, 191)          (* 0xE1..0xEC *)
  else if s0 =? 237 then (3, 128, 159)          (* 0xED *)
  else if s0 <? 240 then (3, 128, 191)          (* 0xEE..0xEF *)
  else if s0 =? 240 then (4, 144, 191)          (* 0xF0 *)
  else if s0 <? 244 then (4, 128, 191)          (* 0xF1..0xF3 *)
  else if s0 =? 244 then (4, 128, 143)          (* 0xF4 *)
  else (0, 0, 0).

(* utf8.DecodeRuneInString: (rune, width); width 0 iff input empty *)
Definition utf8_decode (s : bytes) : N * nat :=
  match s with
  | [] => (rune_error, 0%nat)
  | b0 :: t =>
      let s0 := b2N b0 in
      match utf8_first s0 with
      | (sz, lo, hi) =>
          if sz =? 1 then (s0, 1%nat)
          else if sz =? 0 then (rune_error, 1%nat)
          else
            match t with
            | [] => (rune_error, 1%nat)
            | b1 :: t1 =>
                let s1 := b2N b1 in
                if negb (in_range lo hi s1) then (rune_error, 1%nat)
                else if sz =? 2 then ((s0 mod 32) * 64 + s1 mod 64, 2%nat)
                else
                  match t1 with
                  | [] => (rune_error, 1%nat)
                  | b2 :: t2 =>
                      let s2 := b2N b2 in
                      if negb (in_range 128 191 s2) then (rune_error, 1%nat)
                      else if sz =? 3 then
                        ((s0 mod 16) * 4096 + (s1 mod 64) * 64 + s2 mod 64, 3%nat)
                      else
                        match t2 with
                        | [] => (rune_error, 1%nat)
                        | b3 :: _ =>
                            let s3 := b2N b3 in
                            if negb (in_range 128 191 s3) then (rune_error, 1%nat)
                            else ((s0 mod 8) * 262144 + (s1 mod 64) * 4096
                                  + (s2 mod 64) * 64 + s3 mod 64, 4%nat)
                        end
                  end
            end
      end
  end.

Definition is_surrogate (r : N) : bool := in_range 55296 57343 r.
(* utf8.ValidRune *)
Definition valid_rune (r : N) : bool := (r <=? max_rune) && negb (is_surrogate r).

(* utf8.AppendRune / string(rune): invalid runes become U+FFFD *)
Definition utf8_encode (r : N) : bytes :=
  if r <? 128 then [N2b r]
  else if r <? 2048 then [N2b (192 + r / 64); N2b (128 + r mod 64)]
  else if negb (valid_rune r) then [xef; xbf; xbd]
  else if r <? 65536 then
    [N2b (224 + r / 4096); N2b (128 + (r / 64) mod 64); N2b (128 + r mod 64)]
  else
    [N2b (240 + r / 262144); N2b (128 + (r / 4096) mod 64);
     N2b (128 + (r / 64) mod 64); N2b (128 + r mod 64)].

(* whole-string validity (utf8.ValidString), by repeated decoding; fuel = length *)
Fixpoint utf8_valid_fuel (fuel : nat) (s : bytes) : bool :=
  match fuel with
  | O => match s with [] => true | _ => false end
  | S f =>
      match s with
      | [] => true
      | _ =>
          match utf8_decode s with
          | (r, w) =>
              if (r =? rune_error) && Nat.eqb w 1 then false
              else utf8_valid_fuel f (skipn w s)
          end
      end
  end.
Definition utf8_valid (s : bytes) : bool := utf8_valid_fuel (length s) s.

(* runes of a string as `for _, r := range s` yields them *)
Fixpoint utf8_runes_fuel (fuel : nat) (s : bytes) : list N :=
  match fuel with
  | O => []
  | S f =>
      match s with
      | [] => []
      | _ => match utf8_decode s with
             | (r, w) => r :: utf8_runes_fuel f (skipn w s)
             end
      end
  end.
Definition utf8_runes (s : bytes) : list N := utf8_runes_fuel (length s) s.
