(* EncProg.v — the instruction list Encode's output consists of (Proofs/ProgFacts.v proves that
   the bytes of Model/Encoder.v are exactly asm_all of it).  Definitions only. *)
From Coq Require Import Ascii String.
From Coq Require Import List ZArith NArith Bool.
From Coq.Strings Require Import Byte.
From OgRek Require Import Base Utf8 GoStrconv PyQuote Encoder Insn.
Import ListNotations.
Open Scope N_scope.

Section Prog.
  Variable c : econfig.

  Definition p_bool (b : bool) : list insn :=
    if (2 <=? e_proto c)%Z then [if b then INewTrue else INewFalse]
    else [IInt (if b then bs "01" else bs "00")].

  Definition p_int (i : Z) : list insn :=
    if (1 <=? e_proto c)%Z && (0 <=? i)%Z && (i <=? 255)%Z then [IBinint1 (Z.to_N i)]
    else if (1 <=? e_proto c)%Z && (0 <=? i)%Z && (i <=? 65535)%Z then [IBinint2 (Z.to_N i)]
    else if (1 <=? e_proto c)%Z && (-2147483648 <=? i)%Z && (i <=? 2147483647)%Z then
      [IBinint (Z.to_N (wrap_u 32 i))]
    else [IInt (fmt_d i)].

  Definition p_uint (u : Z) : list insn :=
    if (u <=? int64_max)%Z then p_int u else [IInt (fmt_d u)].

  Definition p_long (z : Z) : list insn := [ILong (fmt_d z)].

  Definition p_float (f : N) : list insn :=
    if (1 <=? e_proto c)%Z then [IBinfloat f] else [IFloat (e_fmtg c f)].

  Definition p_bytestring (s : bytes) : list insn :=
    if (1 <=? e_proto c)%Z then [if Nlen s <? 256 then IShortBinstring s else IBinstring s]
    else [IString (pyquote (e_isprint c) s)].

  Definition p_unicode (s : bytes) : list insn :=
    if (1 <=? e_proto c)%Z then
      [if (Nlen s <? 256) && (4 <=? e_proto c)%Z then IShortBinunicode s else IBinunicode s]
    else match pyencode_raw_unicode_escape s with
         | Some u => [IUnicode u]
         | None => []
         end.

  Definition p_string (s : bytes) : list insn :=
    if e_strict c || (3 <=? e_proto c)%Z then p_unicode s else p_bytestring s.

  Definition p_class (m n : bytes) : list insn :=
    if (4 <=? e_proto c)%Z then p_string m ++ p_string n ++ [IStackGlobal]
    else [IGlobal m n].

  Definition p_tuple (n : nat) (items : list insn) : list insn :=
    if (2 <=? e_proto c)%Z && Nat.leb 1 n && Nat.leb n 3 then
      items ++ [match n with 1%nat => ITuple1 | 2%nat => ITuple2 | _ => ITuple3 end]
    else if (1 <=? e_proto c)%Z && Nat.eqb n 0 then [IEmptyTuple]
    else IMark :: items ++ [ITuple].

  Definition p_call (m n : bytes) (nargs : nat) (args : list insn) : list insn :=
    p_class m n ++ p_tuple nargs args ++ [IReduce].

  Definition p_bytes (s : bytes) : list insn :=
    if (3 <=? e_proto c)%Z then [if Nlen s <? 256 then IShortBinbytes s else IBinbytes s]
    else p_call (bs "_codecs") (bs "encode") 2 (p_unicode (latin1_to_utf8 s) ++ p_bytestring (bs "latin1")).

  Definition p_bytearray (s : bytes) : list insn :=
    if (5 <=? e_proto c)%Z then [IBytearray8 s]
    else p_call (pybuiltin_mod c) (bs "bytearray") 1 (p_bytes s).

  Definition p_ref (pid : rval) (pid_prog : list insn) : list insn :=
    if (e_proto c =? 0)%Z then
      match pid with
      | RStr SPlain s => [IPersid s]
      | _ => []
      end
    else pid_prog ++ [IBinpersid].

  Fixpoint body (v : rval) : list insn :=
    let p_pairs := fix p_pairs (es : list (rval * rval)) : list insn :=
      match es with
      | [] => []
      | (k, x) :: t => body k ++ body x ++ p_pairs t
      end in
    let p_list := fix p_list (l : list rval) : list insn :=
      match l with
      | [] => []
      | x :: t => body x ++ p_list t
      end in
    let p_fields := fix p_fields (use_tag : bool) (fs : list sfield) : list insn :=
      match fs with
      | [] => []
      | SField name exported tag x :: t =>
          let emitted :=
            if use_tag then negb (Nat.eqb (length tag) 0) && negb (tag_later tag t) else exported in
          if emitted then
            p_string (if use_tag then tag else name) ++ body x ++ p_fields use_tag t
          else p_fields use_tag t
      end in
    let dict_like := fun (es : list (rval * rval)) =>
      if (1 <=? e_proto c)%Z && Nat.eqb (length es) 0 then [IEmptyDict]
      else IMark :: p_pairs es ++ [IDict] in
    match v with
    | RInvalid | RNilPtr => [INone]
    | RBool b => p_bool b
    | RInt z => p_int z
    | RUint z => p_uint z
    | RFloat f => p_float f
    | RUnsup k => []
    | RStr SPlain s | RStr SNamed s => p_string s
    | RStr SUnicode s => p_unicode s
    | RStr SBytes s => p_bytes s
    | RStr SByteString s => p_bytestring s
    | RByteSeq s => p_bytearray s
    | RTuple l => p_tuple (length l) (p_list l)
    | RList l =>
        if (1 <=? e_proto c)%Z && Nat.eqb (length l) 0 then [IEmptyList]
        else IMark :: p_list l ++ [IList]
    | RMap es => dict_like es
    | RDict es => dict_like es
    | RNone => [INone]
    | RClass m n => p_class m n
    | RCall m n args => p_call m n (length args) (p_list args)
    | RRef pid => p_ref pid (body pid)
    | RBig z => p_long z
    | RStruct fs =>
        let use_tag := existsb (fun f => negb (Nat.eqb (length (sf_tag f)) 0)) fs in
        IMark :: p_fields use_tag fs ++ [IDict]
    | RPtr to_struct ref x =>
        match to_struct, ref with
        | true, Some pid => p_ref pid (body pid)
        | _, _ => body x
        end
    end.

  (* the whole pickle *)
  Definition program (v : rval) : list insn :=
    (if (2 <=? e_proto c)%Z then [IProto (Z.to_N (e_proto c))] else []) ++ body v ++ [IStop].
End Prog.
