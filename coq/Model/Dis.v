(* Dis.v — a disassembler from bytes to Insn.insn (canonical argument layouts).  It needs no trust:
   wherever it is used its answer prog is accepted only when Insn.asm_all prog gives the bytes back.
   Definitions only. *)
From Coq Require Import Ascii String.
From Coq Require Import List ZArith NArith Bool.
From Coq.Strings Require Import Byte.
From OgRek Require Import Base Insn.
Import ListNotations.
Open Scope N_scope.

Definition rd_line (inp : bytes) : option (bytes * bytes) := split_line inp.
Definition rd_n (n : N) (inp : bytes) : option (bytes * bytes) := take_n inp n.
Definition rd_counted (w : N) (inp : bytes) : option (bytes * bytes) :=
  match rd_n w inp with
  | Some (l, r) => rd_n (le_decode l) r
  | None => None
  end.

Definition dis1 (inp : bytes) : option (insn * bytes) :=
  match inp with
  | [] => None
  | op :: r =>
      let line f := match rd_line r with Some (l, r') => Some (f l, r') | None => None end in
      let fixed w f := match rd_n w r with Some (l, r') => Some (f (le_decode l), r') | None => None end in
      let counted w f := match rd_counted w r with Some (l, r') => Some (f l, r') | None => None end in
      match b2N op with
      | 78 => Some (INone, r) | 136 => Some (INewTrue, r) | 137 => Some (INewFalse, r)
      | 73 => line IInt
      | 75 => fixed 1 IBinint1 | 77 => fixed 2 IBinint2 | 74 => fixed 4 IBinint
      | 76 => match rd_line r with
              | Some (l, r') => match lastb l with
                                | Some c => if beqb c x4c then Some (ILong (removelast l), r') else None
                                | None => None
                                end
              | None => None
              end
      | 71 => match rd_n 8 r with Some (l, r') => Some (IBinfloat (be_decode l), r') | None => None end
      | 70 => line IFloat
      | 83 => line IString
      | 85 => counted 1 IShortBinstring | 84 => counted 4 IBinstring
      | 86 => line IUnicode
      | 140 => counted 1 IShortBinunicode | 88 => counted 4 IBinunicode
      | 67 => counted 1 IShortBinbytes | 66 => counted 4 IBinbytes
      | 150 => counted 8 IBytearray8
      | 40 => Some (IMark, r) | 116 => Some (ITuple, r) | 133 => Some (ITuple1, r) | 134 => Some (ITuple2, r)
      | 135 => Some (ITuple3, r) | 41 => Some (IEmptyTuple, r) | 93 => Some (IEmptyList, r) | 108 => Some (IList, r)
      | 125 => Some (IEmptyDict, r) | 100 => Some (IDict, r)
      | 99 => match rd_line r with
              | Some (m, r1) => match rd_line r1 with Some (n, r2) => Some (IGlobal m n, r2) | None => None end
              | None => None
              end
      | 147 => Some (IStackGlobal, r) | 82 => Some (IReduce, r)
      | 80 => line IPersid | 81 => Some (IBinpersid, r)
      | 128 => fixed 1 IProto
      | 46 => Some (IStop, r)
      | 112 => line IPut | 113 => fixed 1 IBinput | 114 => fixed 4 ILongBinput | 148 => Some (IMemoize, r)
      | 103 => line IGet | 104 => fixed 1 IBinget | 106 => fixed 4 ILongBinget
      | 50 => Some (IDup, r) | 48 => Some (IPop, r) | 97 => Some (IAppend, r) | 101 => Some (IAppends, r)
      | 115 => Some (ISetitem, r) | 117 => Some (ISetitems, r)
      | 138 => counted 1 ILong1
      | 149 => fixed 8 IFrame
      | _ => None
      end
  end.

(* instructions up to and including the first STOP; the bytes after it *)
Fixpoint dis_loop (fuel : nat) (inp : bytes) : option (list insn * bytes) :=
  match fuel with
  | O => None
  | S f =>
      match dis1 inp with
      | Some (IStop, r) => Some ([IStop], r)
      | Some (i, r) => match dis_loop f r with Some (l, r') => Some (i :: l, r') | None => None end
      | None => None
      end
  end.

Definition dis (inp : bytes) : option (list insn * bytes) :=
  match dis_loop (S (length inp)) inp with
  | Some (prog, rest) => if bytes_eqb (asm_all prog ++ rest) inp then Some (prog, rest) else None
  | None => None
  end.
