(* Bufio.v — L1: the reader programs of Model/Reader.v run against a model of bufio.Reader (buffer of
   bsz bytes, pending error, fill / ReadByte / Read / ReadSlice as in Go's bufio), io.ReadFull
   (io.ReadAtLeast), io.CopyN into a bytes.Buffer (LimitedReader + Buffer.ReadFrom, the size of each
   request left to an arbitrary function) and og-rek's own readLine loop over bufio.ErrBufferFull,
   reading from a source that delivers the input in arbitrary chunks - some of them possibly empty -
   the last one possibly together with io.EOF.  Proofs/BufioFacts.v shows that the outcome equals the L0 run on the concatenation.
   Definitions only. *)
From Coq Require Import Ascii String.
From Coq Require Import List ZArith NArith Bool.
From Coq.Strings Require Import Byte.
From OgRek Require Import Base Reader.
Import ListNotations.

Record bst := {
  b_buf : bytes;            (* unread bytes in the buffer: buf[r:w] *)
  b_err : bool;             (* pending io.EOF from the underlying Read *)
  b_src : list bytes;       (* what the underlying Reader will still deliver, one Read result each *)
  b_eofw : bool }.          (* the last Read result comes together with io.EOF *)

Definition with_buf (st : bst) (b : bytes) : bst :=
  {| b_buf := b; b_err := b_err st; b_src := b_src st; b_eofw := b_eofw st |}.
Definition clear_err (st : bst) : bst :=
  {| b_buf := b_buf st; b_err := false; b_src := b_src st; b_eofw := b_eofw st |}.

(* the whole remaining input *)
Definition absl (st : bst) : bytes := b_buf st ++ concat (b_src st).

Definition is_nil {A} (l : list A) : bool := match l with [] => true | _ => false end.

(* Read results of length 0 without an error: every consumer in og-rek's reading stack answers
   (0, nil) by reading again - bufio.fill (giving up with io.ErrNoProgress after 100 in a row, which
   is not modelled: sources are taken to have shorter runs, no_long_runs), io.ReadAtLeast and
   bytes.Buffer.ReadFrom (without a limit) - so an empty result is folded into the Read that follows *)
Fixpoint skip_empty (src : list bytes) : list bytes :=
  match src with
  | [] :: t => skip_empty t
  | _ => src
  end.

Fixpoint run_len (src : list bytes) : nat :=          (* leading empty results *)
  match src with [] :: t => S (run_len t) | _ => O end.
Fixpoint no_long_runs (src : list bytes) : Prop :=
  match src with
  | [] => True
  | _ :: t => (run_len src < 100)%nat /\ no_long_runs t
  end.

(* rd.Read(p), len(p) = room >= 1: (data, err = io.EOF?, remaining source) *)
Definition src_read (room : nat) (src0 : list bytes) (eofw : bool) : bytes * bool * list bytes :=
  match skip_empty src0 with
  | [] => ([], true, [])
  | d :: t =>
      if Nat.leb (length d) room then (d, is_nil t && eofw, t)
      else (firstn room d, false, skipn room d :: t)
  end.

Section Bufio.
  Variable bsz : nat.                       (* len(b.buf): 4096 for bufio.NewReader *)

  (* b.fill(), called with len(buf) < bsz: reads until something arrives (src_read skips empty results) *)
  Definition fill (st : bst) : bst :=
    let '(d, e, src') := src_read (bsz - length (b_buf st)) (b_src st) (b_eofw st) in
    {| b_buf := b_buf st ++ d; b_err := e; b_src := src'; b_eofw := b_eofw st |}.

  Inductive outcome (A : Type) := Got (a : A) | Failed | Stalled.
  Arguments Got {A} a. Arguments Failed {A}. Arguments Stalled {A}.

  (* ReadByte *)
  Fixpoint readbyte_loop (fuel : nat) (st : bst) : outcome byte * bst :=
    match b_buf st with
    | c :: t => (Got c, with_buf st t)
    | [] =>
        if b_err st then (Failed, clear_err st)
        else match fuel with
             | O => (Stalled, st)
             | S f => readbyte_loop f (fill st)
             end
    end.
  Definition readbyte (st : bst) : outcome byte * bst := readbyte_loop 2 st.

  (* Read(p), len(p) = k >= 1: (bytes copied, error returned?, state) *)
  Definition bread (k : nat) (st : bst) : bytes * bool * bst :=
    match b_buf st with
    | [] =>
        if b_err st then ([], true, clear_err st)
        else if Nat.leb bsz k then
          (* large read, empty buffer: directly into p *)
          let '(d, e, src') := src_read k (b_src st) (b_eofw st) in
          (d, e, {| b_buf := []; b_err := false; b_src := src'; b_eofw := b_eofw st |})
        else
          (* one read into the buffer *)
          let '(d, e, src') := src_read bsz (b_src st) (b_eofw st) in
          match d with
          | [] => ([], e, {| b_buf := []; b_err := false; b_src := src'; b_eofw := b_eofw st |})
          | _ => (firstn k d, false, {| b_buf := skipn k d; b_err := e; b_src := src'; b_eofw := b_eofw st |})
          end
    | b => (firstn k b, false, with_buf st (skipn k b))
    end.

  (* io.ReadAtLeast / LimitedReader + Buffer.ReadFrom: read until `need` bytes have arrived or an
     error; ask need = the size of the next request, 1 <= ask need <= need *)
  Fixpoint readn_loop (fuel : nat) (ask : N -> nat) (need : N) (acc : bytes) (st : bst)
    : outcome bytes * bst :=
    if N.eqb need 0 then (Got acc, st)
    else match fuel with
         | O => (Stalled, st)
         | S f =>
             let '(d, e, st') := bread (ask need) st in
             let need' := (need - N.of_nat (length d))%N in
             if e then ((if N.eqb need' 0 then Got (acc ++ d) else Failed), st')
             else readn_loop f ask need' (acc ++ d) st'
         end.
  Definition readn (ask : N -> nat) (n : N) (st : bst) : outcome bytes * bst :=
    readn_loop (length (absl st) + 2) ask n [] st.

  (* ReadSlice of LF *)
  Inductive slice_status := SliceOk | SliceEOF | SliceFull.
  Fixpoint index_lf (l : bytes) : option nat :=
    match l with
    | [] => None
    | b :: t => if beqb b x0a then Some O else option_map S (index_lf t)
    end.
  Fixpoint readslice_loop (fuel : nat) (st : bst) : option (bytes * slice_status) * bst :=
    match index_lf (b_buf st) with
    | Some i => (Some (firstn (S i) (b_buf st), SliceOk), with_buf st (skipn (S i) (b_buf st)))
    | None =>
        if b_err st then (Some (b_buf st, SliceEOF), clear_err (with_buf st []))
        else if Nat.leb bsz (length (b_buf st)) then (Some (b_buf st, SliceFull), with_buf st [])
        else match fuel with
             | O => (None, st)
             | S f => readslice_loop f (fill st)
             end
    end.
  Definition readslice (st : bst) : option (bytes * slice_status) * bst :=
    readslice_loop (length (concat (b_src st)) + 2) st.

  (* Decoder.readLine *)
  Fixpoint readline_loop (fuel : nat) (acc : bytes) (st : bst) : outcome bytes * bst :=
    match fuel with
    | O => (Stalled, st)
    | S f =>
        match readslice st with
        | (None, st') => (Stalled, st')
        | (Some (data, SliceFull), st') => readline_loop f (acc ++ data) st'
        | (Some (data, SliceOk), st') =>
            let line := acc ++ data in
            (Got (match lastb line with Some b => if beqb b x0a then removelast line else line | None => line end), st')
        | (Some (data, SliceEOF), st') => (Failed, st')
        end
    end.
  Definition readline (st : bst) : outcome bytes * bst :=
    readline_loop (length (absl st) + 2) [] st.

  (* n times ReadByte (loadBinUnicode's loop) *)
  Fixpoint readbytes_loop (fuel : nat) (need : N) (acc : bytes) (st : bst) : outcome bytes * bst :=
    if N.eqb need 0 then (Got acc, st)
    else match fuel with
         | O => (Stalled, st)
         | S f =>
             match readbyte st with
             | (Got b, st') => readbytes_loop f (N.pred need) (acc ++ [b]) st'
             | (Failed, st') => (Failed, st')
             | (Stalled, st') => (Stalled, st')
             end
         end.
  Definition readbytes (n : N) (st : bst) : outcome bytes * bst :=
    readbytes_loop (length (absl st) + 1) n [] st.

  (* ---- the reader programs over this machine ------------------------------------------------ *)
  Variable ask_full : N -> nat.           (* io.ReadFull: the whole remainder *)
  Variable ask_copy : N -> nat.           (* io.CopyN: whatever room the bytes.Buffer has *)

  Fixpoint run1 {A} (p : prog A) (st : bst) : res A * bst :=
    match p with
    | Ret a => (Ok a, st)
    | Fail e => (Err e, st)
    | PanicP => (Panic, st)
    | OOF => (OutOfFuel, st)
    | RdByte eof k =>
        match readbyte st with
        | (Got b, st') => run1 (k b) st'
        | (Failed, st') => (Err eof, st')
        | (Stalled, st') => (OutOfFuel, st')
        end
    | RdN how n k =>
        match (match how with
               | ByReadFull => readn ask_full n st
               | ByCopyN => readn ask_copy n st
               | ByByteLoop => readbytes n st
               end) with
        | (Got a, st') => run1 (k a) st'
        | (Failed, st') => (Err EUnexpectedEOF, st')
        | (Stalled, st') => (OutOfFuel, st')
        end
    | RdLine k =>
        match readline st with
        | (Got l, st') => run1 (k l) st'
        | (Failed, st') => (Err EUnexpectedEOF, st')
        | (Stalled, st') => (OutOfFuel, st')
        end
    end.
End Bufio.
