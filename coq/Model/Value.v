(* Value.v — universe of Go values handled by Decode / Dict, heap objects for the
   reference types (builtin map, Dict), Go map-key identity, canonical dump.
   Definitions only. *)
From Coq Require Import Ascii String.
From Coq Require Import List ZArith NArith Bool.
From Coq.Strings Require Import Byte.
From OgRek Require Import Base Float.
Import ListNotations.
Open Scope N_scope.

Inductive val : Type :=
| VNone
| VBool (b : bool)
| VInt (z : Z)                 (* int, int8..int64 after reflect's Int() *)
| VUint (z : Z)                (* uint, uint8..uint64 after reflect's Uint() *)
| VBig (id : N) (z : Z)        (* *big.Int; id = allocation identity *)
| VFloat (bits : N)            (* float64 bit pattern (float32 widened) *)
| VComplex (re im : N)         (* complex128 as two float64 bit patterns *)
| VStr (s : bytes)             (* string *)
| VBStr (s : bytes)            (* ByteString *)
| VBytes (s : bytes)           (* Bytes *)
| VBArr (s : bytes)            (* []byte *)
| VList (lid : N) (l : list val)   (* []any; lid = ghost identity of the Python list *)
| VTuple (l : list val)
| VMap (id : N)                (* map[any]any, reference into the heap *)
| VDict (id : N)               (* Dict, reference into the heap *)
| VClass (m n : bytes)
| VCall (m n : bytes) (args : list val)
| VRef (pid : val)
| VUser (tag : N)              (* an object returned by PersistentLoad *)
| VMark.                       (* the decoder's stack marker *)

(* the induction principle Coq generates ignores the nested lists; this one does not *)
Section val_ind'.
  Variable P : val -> Prop.
  Hypothesis HNone : P VNone.
  Hypothesis HBool : forall b, P (VBool b).
  Hypothesis HInt : forall z, P (VInt z).
  Hypothesis HUint : forall z, P (VUint z).
  Hypothesis HBig : forall i z, P (VBig i z).
  Hypothesis HFloat : forall b, P (VFloat b).
  Hypothesis HComplex : forall a b, P (VComplex a b).
  Hypothesis HStr : forall s, P (VStr s).
  Hypothesis HBStr : forall s, P (VBStr s).
  Hypothesis HBytes : forall s, P (VBytes s).
  Hypothesis HBArr : forall s, P (VBArr s).
  Hypothesis HList : forall i l, Forall P l -> P (VList i l).
  Hypothesis HTuple : forall l, Forall P l -> P (VTuple l).
  Hypothesis HMap : forall i, P (VMap i).
  Hypothesis HDict : forall i, P (VDict i).
  Hypothesis HClass : forall m n, P (VClass m n).
  Hypothesis HCall : forall m n l, Forall P l -> P (VCall m n l).
  Hypothesis HRef : forall p, P p -> P (VRef p).
  Hypothesis HUser : forall t, P (VUser t).
  Hypothesis HMark : P VMark.

  Fixpoint val_ind' (v : val) : P v :=
    let fix go (l : list val) : Forall P l :=
      match l with
      | [] => Forall_nil P
      | x :: t => Forall_cons x (val_ind' x) (go t)
      end in
    match v with
    | VNone => HNone | VBool b => HBool b | VInt z => HInt z | VUint z => HUint z
    | VBig i z => HBig i z | VFloat b => HFloat b | VComplex a b => HComplex a b
    | VStr s => HStr s | VBStr s => HBStr s | VBytes s => HBytes s | VBArr s => HBArr s
    | VList i l => HList i l (go l)
    | VTuple l => HTuple l (go l)
    | VMap i => HMap i | VDict i => HDict i
    | VClass m n => HClass m n
    | VCall m n l => HCall m n l (go l)
    | VRef p => HRef p (val_ind' p)
    | VUser t => HUser t
    | VMark => HMark
    end.
End val_ind'.

(* ---- heap -------------------------------------------------------------- *)

Inductive hobj : Type :=
| HMap (es : list (val * val))      (* builtin map: entries, insertion order (unobservable) *)
| HDict (es : list (val * val)).    (* Dict: entries, insertion order (unobservable) *)

Definition heap := list (N * hobj).

Fixpoint heap_get (h : heap) (id : N) : option hobj :=
  match h with
  | [] => None
  | (i, o) :: t => if i =? id then Some o else heap_get t id
  end.

Fixpoint heap_set (h : heap) (id : N) (o : hobj) : heap :=
  match h with
  | [] => [(id, o)]
  | (i, o') :: t => if i =? id then (i, o) :: t else (i, o') :: heap_set t id o
  end.

(* ---- list helpers usable under nested recursion (the function stays outside the fix) ---- *)
Section All2.
  Variable A : Type.
  Variable f : A -> A -> bool.
  Fixpoint all2 (l1 l2 : list A) : bool :=
    match l1, l2 with
    | [], [] => true
    | x :: t1, y :: t2 => f x y && all2 t1 t2
    | _, _ => false
    end.
End All2.
Arguments all2 {A} f l1 l2.

Section MapOpt.
  Variables A B : Type.
  Variable f : A -> option B.
  Fixpoint map_opt (l : list A) : option (list B) :=
    match l with
    | [] => Some []
    | x :: t =>
        match f x, map_opt t with
        | Some y, Some ys => Some (y :: ys)
        | _, _ => None
        end
    end.
End MapOpt.
Arguments map_opt {A B} f l.

(* ---- structural equality (used for ghost bookkeeping and tests) -------- *)

Fixpoint val_eqb (a b : val) {struct a} : bool :=
  let list_eqb := all2 val_eqb in
  match a, b with
  | VNone, VNone => true
  | VBool x, VBool y => Bool.eqb x y
  | VInt x, VInt y => Z.eqb x y
  | VUint x, VUint y => Z.eqb x y
  | VBig i x, VBig j y => (i =? j) && Z.eqb x y
  | VFloat x, VFloat y => x =? y
  | VComplex x1 x2, VComplex y1 y2 => (x1 =? y1) && (x2 =? y2)
  | VStr x, VStr y => bytes_eqb x y
  | VBStr x, VBStr y => bytes_eqb x y
  | VBytes x, VBytes y => bytes_eqb x y
  | VBArr x, VBArr y => bytes_eqb x y
  | VList i x, VList j y => (i =? j) && list_eqb x y
  | VTuple x, VTuple y => list_eqb x y
  | VMap i, VMap j => i =? j
  | VDict i, VDict j => i =? j
  | VClass m n, VClass m' n' => bytes_eqb m m' && bytes_eqb n n'
  | VCall m n x, VCall m' n' y => bytes_eqb m m' && bytes_eqb n n' && list_eqb x y
  | VRef p, VRef q => val_eqb p q
  | VUser s, VUser t => s =? t
  | VMark, VMark => true
  | _, _ => false
  end.

(* ---- Go map-key semantics for interface keys ---------------------------- *)

(* runtime panics "hash of unhashable type" exactly on these *)
Fixpoint go_unhashable (v : val) : bool :=
  match v with
  | VBArr _ | VList _ _ | VTuple _ | VMap _ | VCall _ _ _ => true
  | VRef p => go_unhashable p
  | _ => false
  end.

(* interface == on hashable dynamic values: same dynamic type and == *)
Fixpoint go_key_eq (a b : val) : bool :=
  match a, b with
  | VNone, VNone => true
  | VBool x, VBool y => Bool.eqb x y
  | VInt x, VInt y => Z.eqb x y
  | VUint x, VUint y => Z.eqb x y
  | VBig i _, VBig j _ => i =? j                 (* pointer identity *)
  | VFloat x, VFloat y => f_eq x y               (* NaN never equal, +0 == -0 *)
  | VComplex x1 x2, VComplex y1 y2 => f_eq x1 y1 && f_eq x2 y2
  | VStr x, VStr y => bytes_eqb x y
  | VBStr x, VBStr y => bytes_eqb x y
  | VBytes x, VBytes y => bytes_eqb x y
  | VDict i, VDict j => i =? j                   (* struct holding one pointer *)
  | VClass m n, VClass m' n' => bytes_eqb m m' && bytes_eqb n n'
  | VRef p, VRef q => go_key_eq p q
  | VUser s, VUser t => s =? t
  | VMark, VMark => true
  | _, _ => false
  end.

(* m[key] = value on a builtin map with interface keys: the value is replaced and so is the
   stored key (the runtime updates keys of types where equal keys can differ: +0 / -0) *)
Fixpoint gomap_assign (es : list (val * val)) (k v : val) : list (val * val) :=
  match es with
  | [] => [(k, v)]
  | (k', v') :: t => if go_key_eq k' k then (k, v) :: t else (k', v') :: gomap_assign t k v
  end.

(* ---- canonical dump ------------------------------------------------------ *)

Fixpoint insert_sorted (x : bytes) (l : list bytes) : list bytes :=
  match l with
  | [] => [x]
  | y :: t => if bytes_leb x y then x :: l else y :: insert_sorted x t
  end.
Definition sort_bytes (l : list bytes) : list bytes := fold_right insert_sorted [] l.

Definition sp : byte := " "%byte.
Fixpoint join_sp (l : list bytes) : bytes :=
  match l with
  | [] => []
  | [x] => x
  | x :: t => x ++ sp :: join_sp t
  end.

Fixpoint index_of (id : N) (path : list N) (k : N) : option N :=
  match path with
  | [] => None
  | i :: t => if i =? id then Some k else index_of id t (k + 1)
  end.

(* fuel bounds the number of heap dereferences along one path *)
Fixpoint dump (fuel : nat) (h : heap) (path : list N) (v : val) {struct fuel} : bytes :=
  match fuel with
  | O => bs "FUEL"
  | S f =>
      let dl := fun l => flat_map (fun x => sp :: dump f h path x) l in
      let dobj := fun (tag : string) (id : N) =>
        match index_of id path 0 with
        | Some k => "^"%byte :: dec_of_N k
        | None =>
            let es := match heap_get h id with
                      | Some (HMap es) => es | Some (HDict es) => es | None => [] end in
            let items := map (fun kv => dump f h (id :: path) (fst kv) ++ sp ::
                                        dump f h (id :: path) (snd kv)) es in
            bs tag ++ flat_map (fun it => sp :: it) (sort_bytes items) ++ bs " }"
        end in
      match v with
      | VNone => bs "N"
      | VBool true => bs "T"
      | VBool false => bs "F"
      | VInt z => bs "i:" ++ dec_of_Z z
      | VUint z => bs "u:" ++ dec_of_Z z
      | VBig _ z => bs "L:" ++ hex_of_Z z
      | VFloat b => bs "f:" ++ hex_of_bytes (be_encode 8 b)
      | VComplex a b => bs "x:" ++ hex_of_bytes (be_encode 8 a) ++ bs "," ++ hex_of_bytes (be_encode 8 b)
      | VStr s => bs "s:" ++ hex_of_bytes s
      | VBStr s => bs "z:" ++ hex_of_bytes s
      | VBytes s => bs "b:" ++ hex_of_bytes s
      | VBArr s => bs "a:" ++ hex_of_bytes s
      | VList _ l => bs "l[" ++ dl l ++ bs " ]"
      | VTuple l => bs "t(" ++ dl l ++ bs " )"
      | VMap id => dobj "m{"%string id
      | VDict id => dobj "d{"%string id
      | VClass m n => bs "g:" ++ hex_of_bytes m ++ bs ":" ++ hex_of_bytes n
      | VCall m n l => bs "C( g:" ++ hex_of_bytes m ++ bs ":" ++ hex_of_bytes n ++ bs " t(" ++ dl l ++ bs " ) )"
      | VRef p => bs "R( " ++ dump f h path p ++ bs " )"
      | VUser t => bs "U:" ++ dec_of_N t
      | VMark => bs "MARK"
      end
  end.

(* number of dump calls the value needs, counted down from a budget (0 = budget exhausted);
   mirrors dump's traversal so that both harness sides cut off at the same point *)
Fixpoint visit_budget (fuel : nat) (h : heap) (path : list N) (v : val) (budget : N) {struct fuel} : N :=
  match fuel with
  | O => 0
  | S f =>
      if budget =? 0 then 0 else
      let b1 := budget - 1 in
      let vl := fun l b => fold_left (fun acc x => visit_budget f h path x acc) l b in
      let vobj := fun (id : N) =>
        match index_of id path 0 with
        | Some _ => b1
        | None =>
            let es := match heap_get h id with
                      | Some (HMap es) => es | Some (HDict es) => es | None => [] end in
            fold_left (fun acc kv => visit_budget f h (id :: path) (snd kv)
                                       (visit_budget f h (id :: path) (fst kv) acc)) es b1
        end in
      match v with
      | VList _ l | VTuple l | VCall _ _ l => vl l b1
      | VMap id | VDict id => vobj id
      | VRef p => visit_budget f h path p b1
      | _ => b1
      end
  end.

Definition dump_fuel : nat := N.to_nat 100000.
Definition dump_val (h : heap) (v : val) : bytes := dump dump_fuel h [] v.

Definition dump_budget : N := 100000.
(* None = more than dump_budget nodes *)
Definition dump_val_capped (h : heap) (v : val) : option bytes :=
  if visit_budget dump_fuel h [] v dump_budget =? 0 then None else Some (dump_val h v).
