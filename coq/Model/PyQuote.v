(* PyQuote.v — mirrors pyquote.go: pyquote, pydecodeStringEscape,
   pyencodeRawUnicodeEscape, pydecodeRawUnicodeEscape.  Definitions only. *)
From Coq Require Import Ascii String.
From Coq Require Import List ZArith NArith Bool.
From Coq.Strings Require Import Byte.
From OgRek Require Import Base Utf8 GoStrconv.
Import ListNotations.
Open Scope N_scope.

Definition hex_escape (b : byte) : bytes := "\"%byte :: "x"%byte :: hex_of_byte b.

(* pyquote: result INCLUDING the surrounding double quotes.
   isp is strconv.IsPrint above ASCII (oracle). *)
Fixpoint pyquote_loop (isp : N -> bool) (fuel : nat) (s : bytes) : bytes :=
  match fuel with
  | O => []
  | S f =>
      match s with
      | [] => []
      | _ =>
          match utf8_decode s with
          | (r, w) =>
              let chunk := firstn w s in
              let out :=
                if r =? rune_error then flat_map hex_escape chunk
                else if (r =? 92) || (r =? 34) then ["\"%byte; N2b r]
                else if is_print_with isp r then chunk
                else if r <? 32 then quote_ctrl r
                else flat_map hex_escape chunk in
              out ++ pyquote_loop isp f (skipn w s)
          end
      end
  end.

Definition pyquote (isp : N -> bool) (s : bytes) : bytes :=
  """"%byte :: pyquote_loop isp (length s) s ++ [""""%byte].

(* pydecodeStringEscape.  Err ESyntax = strconv.ErrSyntax; Panic = the
   "non-byte escaped rune" panic. *)
Fixpoint pyunescape_loop (fuel : nat) (s : bytes) : res bytes :=
  match fuel with
  | O => match s with [] => Ok [] | _ => OutOfFuel end
  | S f =>
      match s with
      | [] => Ok []
      | _ =>
          match utf8_decode s with
          | (r, w) =>
              if negb (r =? 92) then
                match pyunescape_loop f (skipn w s) with
                | Ok t => Ok (firstn w s ++ t)
                | e => e
                end
              else
                match s with
                | _ :: c :: t =>
                    let n := b2N c in
                    let cont (out : bytes) (rest : bytes) :=
                      match pyunescape_loop f rest with
                      | Ok t' => Ok (out ++ t')
                      | e => e
                      end in
                    if n =? 10 then cont [] t                      (* backslash LF *)
                    else if n =? 92 then cont ["\"%byte] t          (* backslash backslash *)
                    else if (n =? 39) || (n =? 34) then cont [c] t  (* backslash-quote *)
                    else if (n =? 98) || (n =? 102) || (n =? 116) || (n =? 110) || (n =? 114)
                            || (n =? 118) || (n =? 97) || is_octal c || (n =? 120) then
                      match unquote_char s with
                      | None => Err ESyntax
                      | Some (v, tail) =>
                          if 255 <? v then Panic
                          else cont [N2b v] tail
                      end
                    else cont ["\"%byte] (c :: t)                   (* \c: keep \, do not skip c *)
                | _ => Err ESyntax                                   (* len(s) < 2 *)
                end
          end
      end
  end.

Definition pydecode_string_escape (s : bytes) : res bytes := pyunescape_loop (length s) s.

(* pyencodeRawUnicodeEscape: None = errPyRawUnicodeEscapeInvalidUTF8 *)
Definition hex4 (r : N) : bytes :=
  [hexdigit ((r / 4096) mod 16); hexdigit ((r / 256) mod 16);
   hexdigit ((r / 16) mod 16); hexdigit (r mod 16)].
Definition hex8 (r : N) : bytes := hex4 (r / 65536) ++ hex4 (r mod 65536).

Fixpoint rue_encode_loop (fuel : nat) (s : bytes) : option bytes :=
  match fuel with
  | O => Some []
  | S f =>
      match s with
      | [] => Some []
      | _ =>
          match utf8_decode s with
          | (r, w) =>
              (* width 1 tells an invalid byte from a valid U+FFFD (width 3) *)
              if (r =? rune_error) && Nat.eqb w 1 then None
              else
                let out :=
                  if (r =? 92) || (r =? 10) then
                    bs "\u00" ++ [hexdigit (r / 16); hexdigit (r mod 16)]
                  else if 65536 <=? r then bs "\U" ++ hex8 r
                  else if 256 <=? r then bs "\u" ++ hex4 r
                  else [N2b r] in
                match rue_encode_loop f (skipn w s) with
                | Some t => Some (out ++ t)
                | None => None
                end
          end
      end
  end.
Definition pyencode_raw_unicode_escape (s : bytes) : option bytes :=
  rue_encode_loop (length s) s.

(* pydecodeRawUnicodeEscape: runes, then string(out) *)
Fixpoint rue_decode_loop (fuel : nat) (nescape : N) (s : bytes) : res (list N) :=
  match fuel with
  | O => match s with [] => Ok [] | _ => OutOfFuel end
  | S f =>
      match s with
      | [] => Ok []
      | c :: t =>
          let cont (r : N) (ne : N) (rest : bytes) :=
            match rue_decode_loop f ne rest with
            | Ok l => Ok (r :: l)
            | e => e
            end in
          if negb (beqb c "\"%byte) then cont (b2N c) 0 t
          else
            let ne := nescape + 1 in
            match t with
            | [] => cont 92 ne t
            | c1 :: _ =>
                if ne mod 2 =? 0 then cont 92 ne t
                else if beqb c1 "u"%byte || beqb c1 "U"%byte then
                  match unquote_char s with
                  | None => Err ESyntax
                  | Some (r, tail) => cont r 0 tail
                  end
                else cont 92 ne t
            end
      end
  end.

Definition pydecode_raw_unicode_escape (s : bytes) : res bytes :=
  match rue_decode_loop (length s) 0 s with
  | Ok rs => Ok (flat_map utf8_encode rs)
  | Err e => Err e
  | Panic => Panic
  | OutOfFuel => OutOfFuel
  end.
