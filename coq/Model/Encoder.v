(* Encoder.v — encode.go, function by function.  The encoder is a sequence of Write calls
   ending in success, an error, or a panic (writer monad without continuations).
   Definitions only. *)
From Coq Require Import Ascii String.
From Coq Require Import List ZArith NArith Bool.
From Coq.Strings Require Import Byte.
From OgRek Require Import Base Utf8 GoStrconv PyQuote Float.
Import ListNotations.
Open Scope N_scope.

(* ---- what Encode is handed: the reflect-level view of a Go value ----------------------- *)

(* SPlain: Go's string; SNamed: any other named string type (encodes like string) *)
Inductive strty := SPlain | SNamed | SUnicode | SBytes | SByteString.
(* kinds the encoder rejects; the TypeError names the kind *)
Inductive unsup := UChan | UFunc | UComplex64 | UComplex128 | UUintptr | UUnsafePointer.

Inductive rval : Type :=
| RInvalid                                   (* nil interface: reflect.Invalid *)
| RNilPtr                                    (* typed nil pointer: Elem() is the zero Value *)
| RBool (b : bool)
| RInt (z : Z)                               (* int, int8..int64: rv.Int() *)
| RUint (z : Z)                              (* uint, uint8..uint64: rv.Uint() *)
| RFloat (bits : N)                          (* float32 widened / float64 *)
| RUnsup (k : unsup)
| RStr (ty : strty) (s : bytes)              (* kind String; ty: which of og-rek's string types *)
| RByteSeq (s : bytes)                       (* slice or array whose element kind is uint8 *)
| RTuple (l : list rval)                     (* ogórek.Tuple *)
| RList (l : list rval)                      (* any other slice / array *)
| RMap (es : list (rval * rval))             (* builtin map, in the order MapRange yields *)
| RDict (es : list (rval * rval))            (* ogórek.Dict, in the order Iter yields *)
| RNone
| RClass (m n : bytes)
| RCall (m n : bytes) (args : list rval)
| RRef (pid : rval)
| RBig (z : Z)                               (* big.Int (by value or behind a pointer) *)
| RStruct (fields : list sfield)             (* any other struct *)
| RPtr (to_struct : bool) (ref : option rval) (v : rval)
      (* non-nil pointer; to_struct: pointee kind is Struct (PersistentRef is consulted);
         ref: Some pid = what PersistentRef answers for it *)
with sfield : Type :=
| SField (name : bytes) (exported : bool) (tag : bytes) (v : rval).

Definition sf_name (f : sfield) := match f with SField n _ _ _ => n end.
Definition sf_exported (f : sfield) := match f with SField _ e _ _ => e end.
Definition sf_tag (f : sfield) := match f with SField _ _ t _ => t end.
Definition sf_val (f : sfield) := match f with SField _ _ _ v => v end.

(* ---- outcome: the Write calls, then how Encode ended ------------------------------------- *)

Inductive eerr :=
| ETypeErr (k : unsup) | EP0Unicode | EP0Persid | EP0123Global | EBadProto.

Inductive wprog : Type :=
| WDone                               (* Encode returns nil *)
| WFail (e : eerr)                    (* Encode returns an error of its own *)
| WPanic
| WWrite (b : bytes) (k : wprog).     (* one w.Write(b); continue if it succeeded *)

Fixpoint wseq (p q : wprog) : wprog :=
  match p with
  | WDone => q
  | WFail e => WFail e
  | WPanic => WPanic
  | WWrite b k => WWrite b (wseq k q)
  end.

Definition emit (b : bytes) : wprog := WWrite b WDone.

Fixpoint wseq_all (l : list wprog) : wprog :=
  match l with
  | [] => WDone
  | p :: t => wseq p (wseq_all t)
  end.

Record econfig := {
  e_proto : Z;
  e_strict : bool;
  e_isprint : N -> bool;          (* oracle: strconv.IsPrint above ASCII *)
  e_fmtg : N -> bytes }.          (* oracle: fmt %g of a float64 given by its bits *)

(* ---- leaves ---------------------------------------------------------------------------- *)

Definition u32le (n : N) : bytes := le_encode 4 (n mod 4294967296).     (* uint32(l) wraps *)

Definition enc_bool (c : econfig) (b : bool) : wprog :=
  if (2 <=? e_proto c)%Z then emit [if b then x88 else x89]
  else emit (if b then bs "I01" ++ [x0a] else bs "I00" ++ [x0a]).

Definition fmt_d (z : Z) : bytes := dec_of_Z z.

Definition enc_int (c : econfig) (i : Z) : wprog :=
  if (1 <=? e_proto c)%Z && (0 <=? i)%Z && (i <=? 255)%Z then emit [x4b; Z2b i]
  else if (1 <=? e_proto c)%Z && (0 <=? i)%Z && (i <=? 65535)%Z then emit [x4d; Z2b i; Z2b (i / 256)]
  else if (1 <=? e_proto c)%Z && (-2147483648 <=? i)%Z && (i <=? 2147483647)%Z then
    emit (x4a :: le_encode 4 (Z.to_N (wrap_u 32 i)))
  else emit (x49 :: fmt_d i ++ [x0a]).

Definition enc_uint (c : econfig) (u : Z) : wprog :=
  if (u <=? int64_max)%Z then enc_int c u else emit (x49 :: fmt_d u ++ [x0a]).

Definition enc_long (z : Z) : wprog := emit (x4c :: fmt_d z ++ [x4c; x0a]).

Definition enc_float (c : econfig) (f : N) : wprog :=
  if (1 <=? e_proto c)%Z then emit (x47 :: be_encode 8 f)
  else emit (x46 :: e_fmtg c f ++ [x0a]).

Definition enc_bytestring (c : econfig) (s : bytes) : wprog :=
  let l := Nlen s in
  if (1 <=? e_proto c)%Z then
    wseq (if l <? 256 then emit [x55; N2b l] else emit (x54 :: u32le l)) (emit s)
  else emit (x53 :: pyquote (e_isprint c) s ++ [x0a]).

Definition enc_unicode (c : econfig) (s : bytes) : wprog :=
  let l := Nlen s in
  if (1 <=? e_proto c)%Z then
    wseq (if (l <? 256) && (4 <=? e_proto c)%Z then emit [x8c; N2b l] else emit (x58 :: u32le l))
         (emit s)
  else match pyencode_raw_unicode_escape s with
       | Some u => emit (x56 :: u ++ [x0a])
       | None => WFail EP0Unicode
       end.

Definition enc_string (c : econfig) (s : bytes) : wprog :=
  if e_strict c || (3 <=? e_proto c)%Z then enc_unicode c s else enc_bytestring c s.

Definition has_lf (s : bytes) : bool := existsb (fun b => beqb b x0a) s.

Definition enc_class (c : econfig) (m n : bytes) : wprog :=
  if (4 <=? e_proto c)%Z then wseq (enc_string c m) (wseq (enc_string c n) (emit [x93]))
  else if has_lf m || has_lf n then WFail EP0123Global
  else emit (x63 :: m ++ [x0a] ++ n ++ [x0a]).

Definition pybuiltin_mod (c : econfig) : bytes :=
  if (e_proto c <=? 2)%Z then bs "__builtin__" else bs "builtins".

(* rune(byt[i]) for every byte, then UTF-8 *)
Definition latin1_to_utf8 (s : bytes) : bytes := flat_map (fun b => utf8_encode (b2N b)) s.

(* struct tags: Go map tag -> LAST field index carrying it; emitted in map (arbitrary) order.
   The model emits them in order of the last occurrence. *)
Fixpoint tag_later (t : bytes) (fs : list sfield) : bool :=
  match fs with
  | [] => false
  | f :: r => bytes_eqb (sf_tag f) t || tag_later t r
  end.
Fixpoint tagged_fields (fs : list sfield) : list sfield :=
  match fs with
  | [] => []
  | f :: r =>
      match sf_tag f with
      | [] => tagged_fields r
      | t => if tag_later t r then tagged_fields r else f :: tagged_fields r
      end
  end.

(* ---- the recursive encoder ------------------------------------------------------------- *)

Section Enc.
  Variable c : econfig.

  (* encodeTuple around already-encoded elements *)
  Definition wrap_tuple (n : nat) (items : wprog) : wprog :=
    if (2 <=? e_proto c)%Z && Nat.leb 1 n && Nat.leb n 3 then
      wseq items (emit [match n with 1%nat => x85 | 2%nat => x86 | _ => x87 end])
    else if (1 <=? e_proto c)%Z && Nat.eqb n 0 then emit [x29]
    else wseq (emit [x28]) (wseq items (emit [x74])).

  Definition wrap_call (m n : bytes) (nargs : nat) (args : wprog) : wprog :=
    wseq (enc_class c m n) (wseq (wrap_tuple nargs args) (emit [x52])).

  Definition enc_bytes (s : bytes) : wprog :=
    let l := Nlen s in
    if (3 <=? e_proto c)%Z then
      wseq (if l <? 256 then emit [x43; N2b l] else emit (x42 :: u32le l)) (emit s)
    else
      (* _codecs.encode(unicode(latin1), ByteString("latin1")) *)
      wrap_call (bs "_codecs") (bs "encode") 2
        (wseq (enc_unicode c (latin1_to_utf8 s)) (enc_bytestring c (bs "latin1"))).

  Definition enc_bytearray (s : bytes) : wprog :=
    if (5 <=? e_proto c)%Z then
      wseq (emit (x96 :: le_encode 8 (Nlen s))) (emit s)
    else wrap_call (pybuiltin_mod c) (bs "bytearray") 1 (enc_bytes s).

  (* encodeRef: pid_enc is the encoding of pid (used at protocol >= 1) *)
  Definition enc_ref (pid : rval) (pid_enc : wprog) : wprog :=
    if (e_proto c =? 0)%Z then
      match pid with
      | RStr SPlain s => if has_lf s then WFail EP0Persid else emit (x50 :: s ++ [x0a])
      | _ => WFail EP0Persid
      end
    else wseq pid_enc (emit [x51]).

  Fixpoint enc (v : rval) : wprog :=
    let enc_pairs := fix enc_pairs (es : list (rval * rval)) : wprog :=
      match es with
      | [] => WDone
      | (k, x) :: t => wseq (enc k) (wseq (enc x) (enc_pairs t))
      end in
    let enc_list := fix enc_list (l : list rval) : wprog :=
      match l with
      | [] => WDone
      | x :: t => wseq (enc x) (enc_list t)
      end in
    let enc_fields := fix enc_fields (use_tag : bool) (fs : list sfield) : wprog :=
      match fs with
      | [] => WDone
      | SField name exported tag x :: t =>
          let emitted :=
            if use_tag then negb (Nat.eqb (length tag) 0) && negb (tag_later tag t) else exported in
          if emitted then
            wseq (enc_string c (if use_tag then tag else name)) (wseq (enc x) (enc_fields use_tag t))
          else enc_fields use_tag t
      end in
    let dict_like := fun (es : list (rval * rval)) =>
      if (1 <=? e_proto c)%Z && Nat.eqb (length es) 0 then emit [x7d]
      else wseq (emit [x28]) (wseq (enc_pairs es) (emit [x64])) in
    match v with
    | RInvalid | RNilPtr => emit [x4e]
    | RBool b => enc_bool c b
    | RInt z => enc_int c z
    | RUint z => enc_uint c z
    | RFloat f => enc_float c f
    | RUnsup k => WFail (ETypeErr k)
    | RStr SPlain s | RStr SNamed s => enc_string c s
    | RStr SUnicode s => enc_unicode c s
    | RStr SBytes s => enc_bytes s
    | RStr SByteString s => enc_bytestring c s
    | RByteSeq s => enc_bytearray s
    | RTuple l => wrap_tuple (length l) (enc_list l)
    | RList l =>
        if (1 <=? e_proto c)%Z && Nat.eqb (length l) 0 then emit [x5d]
        else wseq (emit [x28]) (wseq (enc_list l) (emit [x6c]))
    | RMap es => dict_like es
    | RDict es => dict_like es
    | RNone => emit [x4e]
    | RClass m n => enc_class c m n
    | RCall m n args => wrap_call m n (length args) (enc_list args)
    | RRef pid => enc_ref pid (enc pid)
    | RBig z => enc_long z
    | RStruct fs =>
        (* getStructTags: tags are used as soon as one field carries one *)
        let use_tag := existsb (fun f => negb (Nat.eqb (length (sf_tag f)) 0)) fs in
        wseq (emit [x28]) (wseq (enc_fields use_tag fs) (emit [x64]))
    | RPtr to_struct ref x =>
        match to_struct, ref with
        | true, Some pid => enc_ref pid (enc pid)
        | _, _ => enc x
        end
    end.

  (* Encoder.Encode *)
  Definition encode (v : rval) : wprog :=
    if negb ((0 <=? e_proto c)%Z && (e_proto c <=? 5)%Z) then WFail EBadProto
    else wseq (if (2 <=? e_proto c)%Z then emit [x80; Z2b (e_proto c)] else WDone)
              (wseq (enc v) (emit [x2e])).
End Enc.

(* ---- running against a Writer ------------------------------------------------------------- *)

Inductive eres := EOk | EErr (e : eerr) | EWriteErr | EPanic.

(* fail_at = Some k: the k-th Write call (0-based) fails; returns the Write calls attempted *)
Fixpoint run_w (p : wprog) (fail_at : option nat) : list bytes * eres :=
  match p with
  | WDone => ([], EOk)
  | WFail e => ([], EErr e)
  | WPanic => ([], EPanic)
  | WWrite b k =>
      match fail_at with
      | Some O => ([b], EWriteErr)
      | Some (S n) => let '(ws, r) := run_w k (Some n) in (b :: ws, r)
      | None => let '(ws, r) := run_w k None in (b :: ws, r)
      end
  end.

Definition output (p : wprog) : bytes := concat (fst (run_w p None)).
