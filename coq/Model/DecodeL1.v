(* DecodeL1.v — Decoder.Decode and successive Decode calls with the reader programs run on the bufio
   machine of Model/Bufio.v instead of a flat byte string.  Definitions only. *)
From Coq Require Import List ZArith NArith Bool.
From Coq.Strings Require Import Byte.
From OgRek Require Import Base Value Reader Bufio Decoder.
Import ListNotations.

Section L1.
  Variable bsz : nat.
  Variable ask_full ask_copy : N -> nat.

  Definition decode1 (cfg : dconfig) (st : dstate) (b : bst) : dresult * bst :=
    let st0 := start_state st in
    match run1 bsz ask_full ask_copy (decode_loop (S (length (absl b))) cfg 0 st0) b with
    | (Ok r, b') => (r, b')
    | (Err e, b') => ((Err e, st0), b')
    | (Panic, b') => ((Panic, st0), b')
    | (OutOfFuel, b') => ((OutOfFuel, st0), b')
    end.

  Fixpoint decode_all1 (fuel : nat) (cfg : dconfig) (st : dstate) (b : bst)
    : list (res val * dstate) * dstate :=
    match fuel with
    | O => ([], st)
    | S f =>
        match decode1 cfg st b with
        | ((r, st'), b') =>
            if is_final r (absl b') then ([(r, st')], st')
            else let '(l, stf) := decode_all1 f cfg st' b' in ((r, st') :: l, stf)
        end
    end.
End L1.
