(* Reader.v — the decoder is written in a free monad over the four ways ogorek.go
   takes bytes from its bufio.Reader.  L0 semantics: the whole remaining input is a
   byte list.  Definitions only. *)
From Coq Require Import Ascii String.
From Coq Require Import List ZArith NArith Bool.
From Coq.Strings Require Import Byte.
From OgRek Require Import Base.
Import ListNotations.
Open Scope N_scope.

(* how a counted read is performed in the Go source (same result at L0) *)
Inductive rdkind := ByReadFull | ByCopyN | ByByteLoop.

Inductive prog (A : Type) : Type :=
| Ret (a : A)
| Fail (e : err)                                (* the handler returns an error *)
| PanicP                                        (* a Go panic *)
| OOF                                           (* model fuel exhausted *)
| RdByte (eof : err) (k : byte -> prog A)       (* d.r.ReadByte(); eof = error on exhausted input *)
| RdN (how : rdkind) (n : N) (k : bytes -> prog A)   (* exactly n bytes *)
| RdLine (k : bytes -> prog A).                 (* d.readLine(): through LF, LF removed *)
Arguments Ret {A} a.
Arguments Fail {A} e.
Arguments PanicP {A}.
Arguments OOF {A}.
Arguments RdByte {A} eof k.
Arguments RdN {A} how n k.
Arguments RdLine {A} k.

Fixpoint bind {A B} (p : prog A) (f : A -> prog B) : prog B :=
  match p with
  | Ret a => f a
  | Fail e => Fail e
  | PanicP => PanicP
  | OOF => OOF
  | RdByte eof k => RdByte eof (fun b => bind (k b) f)
  | RdN how n k => RdN how n (fun bs => bind (k bs) f)
  | RdLine k => RdLine (fun l => bind (k l) f)
  end.

Notation "x <- p ;; q" := (bind p (fun x => q)) (at level 61, p at next level, right associativity).

(* L0: run on a byte list; returns the outcome and the unconsumed input.
   Inside an opcode handler every short read surfaces as io.ErrUnexpectedEOF
   (io.EOF from ReadByte/CopyN/ReadSlice is mapped by Decode; io.ReadFull returns
   ErrUnexpectedEOF itself, or EOF which is mapped). *)
Fixpoint run {A} (p : prog A) (inp : bytes) : res A * bytes :=
  match p with
  | Ret a => (Ok a, inp)
  | Fail e => (Err e, inp)
  | PanicP => (Panic, inp)
  | OOF => (OutOfFuel, inp)
  | RdByte eof k =>
      match inp with
      | [] => (Err eof, [])
      | b :: t => run (k b) t
      end
  | RdN _ n k =>
      match take_n inp n with
      | Some (a, r) => run (k a) r
      | None => (Err EUnexpectedEOF, [])
      end
  | RdLine k =>
      match split_line inp with
      | Some (l, r) => run (k l) r
      | None => (Err EUnexpectedEOF, [])
      end
  end.
