(* Typeconv.v — mirrors typeconv.go: AsInt64, AsBytes, AsString.  Definitions only. *)
From Coq Require Import Ascii String.
From Coq Require Import List ZArith NArith Bool.
From OgRek Require Import Base Value.
Import ListNotations.

(* None = error *)
Definition as_int64 (v : val) : option Z :=
  match v with
  | VInt z => Some z
  | VBig _ z => if in_int64 z then Some z else None
  | _ => None
  end.

Definition as_bytes (v : val) : option bytes :=
  match v with
  | VBytes s | VBStr s => Some s
  | _ => None
  end.

Definition as_string (v : val) : option bytes :=
  match v with
  | VStr s | VBStr s => Some s
  | _ => None
  end.
