(* C02 — Decoder yields the documented Go value for every CPython-produced pickle. *)
From Coq Require Import List ZArith NArith Bool.
From Coq.Strings Require Import Byte.
From OgRek Require Import Base Value Reader Decoder Insn Dis PyVM PyVM2 DecoderFacts ExecFacts SimFacts.
Import ListNotations.

(* There is no model of CPython's picklers here (they memoise by object identity; the run-time check
   uses the real C pickler, the pure-Python pickler and pickletools.optimize instead).  What is proved
   is stronger in one direction and weaker in another: C02_any_pickle_partial holds for EVERY byte
   string that disassembles (Dis.dis: canonical argument layouts, re-assembled and compared, so the
   disassembler needs no trust) into a program the CPython machine PyVM2.qload answers on - CPython's
   own output at protocols 0..5 is among them (the run-time comparison finds the machine answering
   on ~95% of it and always agreeing with CPython) - and says that Decode then returns the related Go
   value (C06: same numbers, text, bytes and structure in every PyDict / StrictUnicode mode; an
   object emitted once and fetched from the memo afterwards is related to the same Python object at
   every place it occurs), or the documented map-key error in default mode, or - the recorded
   finding - a shared list was extended after it had been memoised (`_partial`). *)
Theorem C02_any_pickle_partial : forall pd su inp prog rest x pstf,
  dis inp = Some (prog, rest) -> qload prog = Some (x, pstf) ->
  let cfg := Build_dconfig pd su None in
  (exists v st' b' after,
      decode cfg init_state inp = ((Ok v, st'), after) /\
      R pd su b' (q_heap pstf) v x /\ Core pd su b' st' pstf /\ d_stale st' = false)
  \/ (exists i' st' inp', exec cfg 0 (start_state init_state) inp i' st' inp' /\ d_stale st' = true)
  \/ (pd = false /\ exists e st' after, decode cfg init_state inp = ((Err e, st'), after)).
Proof.
  intros pd su inp prog rest x pstf D Q cfg.
  assert (E : asm_all prog ++ rest = inp).
  { unfold dis in D. destruct (dis_loop (S (length inp)) inp) as [[p r]|]; [|discriminate].
    destruct (bytes_eqb (asm_all p ++ r) inp) eqn:B; [|discriminate]. inversion D; subst.
    apply BaseFacts.bytes_eqb_eq. exact B. }
  rewrite <- E. apply decode_sim. exact Q.
Qed.
Print Assumptions C02_any_pickle_partial.

(* CPython 3.11's own pickles (C pickler) of
     s = [1, 2]; d = {1: s, 'k': (None, True, 2.5, b'xy')}; [s, d, d, 2**70, -5, 'text']
   at protocols 0, 2 and 4: they disassemble, and the CPython machine loads the object. *)
Definition cpython_pickle_p0 : bytes :=
  [x28; x6c; x70; x30; x0a; x28; x6c; x70; x31; x0a; x49; x31; x0a; x61; x49; x32; x0a; x61; x61; x28; x64; x70; x32; x0a; x49; x31; x0a; x67; x31; x0a; x73; x56; x6b; x0a; x70; x33; x0a; x28; x4e; x49; x30; x31; x0a; x46; x32; x2e; x35; x0a; x63; x5f; x63; x6f; x64; x65; x63; x73; x0a; x65; x6e; x63; x6f; x64; x65; x0a; x70; x34; x0a; x28; x56; x78; x79; x0a; x70; x35; x0a; x56; x6c; x61; x74; x69; x6e; x31; x0a; x70; x36; x0a; x74; x70; x37; x0a; x52; x70; x38; x0a; x74; x70; x39; x0a; x73; x61; x67; x32; x0a; x61; x4c; x31; x31; x38; x30; x35; x39; x31; x36; x32; x30; x37; x31; x37; x34; x31; x31; x33; x30; x33; x34; x32; x34; x4c; x0a; x61; x49; x2d; x35; x0a; x61; x56; x74; x65; x78; x74; x0a; x70; x31; x30; x0a; x61; x2e].
Definition cpython_pickle_p2 : bytes :=
  [x80; x02; x5d; x71; x00; x28; x5d; x71; x01; x28; x4b; x01; x4b; x02; x65; x7d; x71; x02; x28; x4b; x01; x68; x01; x58; x01; x00; x00; x00; x6b; x71; x03; x28; x4e; x88; x47; x40; x04; x00; x00; x00; x00; x00; x00; x63; x5f; x63; x6f; x64; x65; x63; x73; x0a; x65; x6e; x63; x6f; x64; x65; x0a; x71; x04; x58; x02; x00; x00; x00; x78; x79; x71; x05; x58; x06; x00; x00; x00; x6c; x61; x74; x69; x6e; x31; x71; x06; x86; x71; x07; x52; x71; x08; x74; x71; x09; x75; x68; x02; x8a; x09; x00; x00; x00; x00; x00; x00; x00; x00; x40; x4a; xfb; xff; xff; xff; x58; x04; x00; x00; x00; x74; x65; x78; x74; x71; x0a; x65; x2e].
Definition cpython_pickle_p4 : bytes :=
  [x80; x04; x95; x45; x00; x00; x00; x00; x00; x00; x00; x5d; x94; x28; x5d; x94; x28; x4b; x01; x4b; x02; x65; x7d; x94; x28; x4b; x01; x68; x01; x8c; x01; x6b; x94; x28; x4e; x88; x47; x40; x04; x00; x00; x00; x00; x00; x00; x43; x02; x78; x79; x94; x74; x94; x75; x68; x02; x8a; x09; x00; x00; x00; x00; x00; x00; x00; x00; x40; x4a; xfb; xff; xff; xff; x8c; x04; x74; x65; x78; x74; x94; x65; x2e].

Definition expected : pv :=
  let s := PList [PInt 1; PInt 2] in
  let d := PDict [(PInt 1, s); (PUni [x6b], PTuple [PNone; PBool true; PFloat 4612811918334230528; PBytes [x78; x79]])] in
  PList [s; d; d; PInt 1180591620717411303424; PInt (-5); PUni [x74; x65; x78; x74]].

Definition loads (inp : bytes) : option pv :=
  match dis inp with
  | Some (prog, _) => match qload prog with Some (v, st) => unfold 60 (q_heap st) v | None => None end
  | None => None
  end.

Example C02_cpython_pickles :
  loads cpython_pickle_p0 = Some expected /\ loads cpython_pickle_p2 = Some expected /\ loads cpython_pickle_p4 = Some expected.
Proof. vm_compute. repeat split; reflexivity. Qed.
