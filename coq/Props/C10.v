(* C10 — Truncated input is always io.ErrUnexpectedEOF, exhausted input is io.EOF. *)
From Coq Require Import List NArith.
From Coq.Strings Require Import Byte.
From OgRek Require Import Base Value Reader Decoder DecoderFacts.
Import ListNotations.

(* For every configuration, every decoder state, every pickle p that Decode accepts
   (consuming exactly p) and every proper prefix q of p: Decode on q returns no value and
   io.EOF when q is empty, io.ErrUnexpectedEOF otherwise, having consumed all of q. *)
Theorem C10_truncation :
  forall cfg st p v st',
    decode cfg st p = ((Ok v, st'), []) ->
    forall q t, p = q ++ t -> t <> [] ->
    exists st'', decode cfg st q =
      ((Err (if is_nil q then EEOF else EUnexpectedEOF), st''), []).
Proof. exact decode_truncated. Qed.
Print Assumptions C10_truncation.

(* non-vacuity: a concrete pickle meets the hypothesis (BININT1 1, STOP) *)
Example C10_nonvacuous :
  exists v st', decode (Build_dconfig false false None) init_state
                       [x4b; x01; x2e] = ((Ok v, st'), []).
Proof. eexists. eexists. vm_compute. reflexivity. Qed.
