(* C06 — No disagreement with CPython on any well-formed opcode program. *)
From Coq Require Import List ZArith NArith Bool.
From Coq.Strings Require Import Byte.
From OgRek Require Import Base Value Reader Decoder Insn PyVM PyVM2 DecoderFacts ExecFacts SimFacts.
Import ListNotations.

(* The specification: PyVM2.qload, CPython's unpickler on instruction lists over every opcode Decode
   implements (leaf forms canonically formatted; PUT/GET in all widths, MEMOIZE, DUP, POP,
   APPEND(S), SETITEM(S), LIST/DICT/TUPLE forms, REDUCE with the two documented callables,
   PERSID/BINPERSID, PROTO, FRAME), lists and dicts as heap objects with identity.  It is compared
   with CPython 3.11's own unpickler on every run (answers on ~99% of the generated programs, all
   equal).  Insn.asm gives the bytes of each instruction.

   C06_simulation_partial: for EVERY instruction list, both StrictUnicode and PyDict settings and any
   trailing bytes: whenever the CPython machine loads x, Decode on the bytes either
     (1) succeeds with a value v standing for x under SimFacts.R - same structure, numbers, text and
         bytes; an object reached through the memo or DUP is related to the very same Python object;
         a Go list is related to a prefix of the Python list (all of it unless another alias appended
         later); dicts hold the assignments made (C09) - together with the state invariant Core;
     (2) or an append went through a list view that another alias had already extended: the
         recorded finding stale_list_view (hence `_partial`: there the statement is silent);
     (3) or, PyDict off only, a dict key that a Go map cannot hold was assigned and Decode returns an
         error - the documented exception.
   Decode never fails otherwise when CPython succeeds. *)
Theorem C06_simulation_partial : forall pd su prog x pstf rest,
  qload prog = Some (x, pstf) ->
  let cfg := Build_dconfig pd su None in
  (exists v st' b' after,
      decode cfg init_state (asm_all prog ++ rest) = ((Ok v, st'), after) /\
      R pd su b' (q_heap pstf) v x /\ Core pd su b' st' pstf /\ d_stale st' = false)
  \/ (exists i' st' inp',
        exec cfg 0 (start_state init_state) (asm_all prog ++ rest) i' st' inp' /\ d_stale st' = true)
  \/ (pd = false /\ exists e st' after, decode cfg init_state (asm_all prog ++ rest) = ((Err e, st'), after)).
Proof. intros. apply decode_sim. assumption. Qed.
Print Assumptions C06_simulation_partial.

(* Without the escape clause: on programs that contain no APPEND / APPENDS (lists built by LIST /
   EMPTY_LIST only - e.g. every pickle og-rek's own encoder writes, and every pickle of a value
   without non-empty lists written by CPython) case (2) cannot occur, so the statement is the
   property in full: Decode returns a value standing for CPython's, or - PyDict off - the documented
   map-key error. *)
Theorem C06_simulation_without_appends : forall pd su prog x pstf rest,
  forallb no_append prog = true -> qload prog = Some (x, pstf) ->
  let cfg := Build_dconfig pd su None in
  (exists v st' b' after,
      decode cfg init_state (asm_all prog ++ rest) = ((Ok v, st'), after) /\
      R pd su b' (q_heap pstf) v x /\ Core pd su b' st' pstf)
  \/ (pd = false /\ exists e st' after, decode cfg init_state (asm_all prog ++ rest) = ((Err e, st'), after)).
Proof. intros. apply decode_sim_clean; assumption. Qed.
Print Assumptions C06_simulation_without_appends.

(* one instruction at a time, from any related pair of states *)
Theorem C06_step : forall pd su b st pst pst' idx rest i,
  Core pd su b st pst -> d_stale st = false -> qstep i pst = Some pst' ->
  step_ok pd su st pst' idx (asm i) rest \/ (exists key, asm i = [key] /\ step_exn pd su st idx key).
Proof. exact step_sim. Qed.
Print Assumptions C06_step.

Theorem C06_partial_totality :
  forall cfg st inp, fst (fst (decode cfg st inp)) <> Panic /\ fst (fst (decode cfg st inp)) <> OutOfFuel.
Proof. exact decode_safe. Qed.
Print Assumptions C06_partial_totality.

(* the hypothesis is satisfiable, also with sharing: CPython's own protocol-2 pickle of
   s = [1, 2]; d = {1: s}; [s, d, d]   (memo PUTs, GETs of the shared list and dict, APPENDS, SETITEM) *)
Definition ex_prog : list insn :=
  [IProto 2; IEmptyList; IBinput 0; IMark; IEmptyList; IBinput 1; IMark; IBinint1 1; IBinint1 2; IAppends;
   IEmptyDict; IBinput 2; IBinint1 1; IBinget 1; ISetitem; IBinget 2; IAppends; IStop].
Example C06_nonvacuous :
  match qload ex_prog with
  | Some (v, st) => unfold 50 (q_heap st) v
  | None => None
  end = Some (PList [PList [PInt 1; PInt 2]; PDict [(PInt 1, PList [PInt 1; PInt 2])];
                     PDict [(PInt 1, PList [PInt 1; PInt 2])]]).
Proof. vm_compute. reflexivity. Qed.
