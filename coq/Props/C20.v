(* C20 — Separate Encoders/Decoders and shared read-only values are concurrency-safe.

   PARTIAL by nature: Go's scheduler, memory model and race detector are not expressible in an
   executable Gallina model.  What is proved is the static premise on which instance-disjointness
   rests: og-rek has no mutable package-level state.  Gen/Globals.v is regenerated from the
   source tree on every run (tools/genfacts: go/parser + go/types), so a new package-level cache
   or scratch buffer breaks this theorem; the dynamic part of the check (implrun built with
   -race: N goroutines with own Encoders/Decoders, or all reading one decoded value) then
   searches for a concrete failing run. *)
From Coq Require Import Ascii String List NArith Bool.
From OgRek Require Import Globals.
Import ListNotations.
Open Scope string_scope.

(* a package-level variable is immutable shared state if it is an error value created once by
   errors.New and never assigned, address-taken or used as a method receiver afterwards *)
Definition immutable (g : gvar) : bool :=
  String.eqb (g_init g) "errors.New" && N.eqb (g_writes g) 0 && N.eqb (g_addrs g) 0.

Theorem C20_no_mutable_package_state : forallb immutable globals = true.
Proof. vm_compute. reflexivity. Qed.
Print Assumptions C20_no_mutable_package_state.

(* every global, by name, satisfies the predicate (the form used by the instance-disjointness
   argument in DESIGN.md section 5, C20) *)
Corollary C20_globals_immutable : forall g, In g globals -> immutable g = true.
Proof. apply forallb_forall. exact C20_no_mutable_package_state. Qed.
