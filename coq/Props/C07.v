(* C07 — Dict key lookup follows Python equality exactly and deterministically. *)
From Coq Require Import Ascii String.
From Coq Require Import List ZArith NArith Bool.
From OgRek Require Import Base Float Value PyEq Dict PyEqFacts DictFacts.
Import ListNotations.

(* The property, in full: for all hashable keys a b (nf_key: well-formed values of every hashable
   type - bool, every Go integer type, *big.Int, float64 / float32 widened, complex, the three string
   kinds, Tuples, None, Class, Call, Ref, application objects; floats as 64-bit patterns incl. NaN,
   +-Inf, +-0, subnormals),
     go_equal a b = py_eq a b   (Python's ==: numbers by exact mathematical value, str <> bytes,
                                  a Python-2 str equal to both, tuples element-wise),
     go_equal a b = true -> both feed the same bytes to maphash (any seed, any hash function),
   and a Dict holding a finds it under b iff py_eq, for every slot order (seed independence).
   The numeric part rests on Proofs/FloatFacts.v: IEEE == on bit patterns is equality of the exact
   values m * 2^e; an integer equals a float iff the float is integral with that value; big.Int's
   exact conversion (log2 / trailing-zero test, fraction field) yields the float of the same value
   or fails exactly when no float has it; hash_Float maps equal numbers to equal bytes. *)

Theorem C07_equal_is_py_eq :
  forall a b, nf_key a = true -> nf_key b = true -> go_equal a b = py_eq a b.
Proof. exact go_equal_py_eq_nf. Qed.
Print Assumptions C07_equal_is_py_eq.

(* equal keys feed identical input to maphash, for every seed and every hash function *)
Theorem C07_hash_respects_equal :
  forall a b, nf_key a = true -> nf_key b = true -> go_equal a b = true -> hash_same a b = true.
Proof.
  intros a b Ha Hb E. apply hash_agree_same. apply hash_respects_equal_nf; assumption.
Qed.
Print Assumptions C07_hash_respects_equal.

(* seed / slot-order independence: the chooser ch is universally quantified *)
Theorem C07_lookup :
  forall ch a b v, nf_key a = true -> nf_key b = true ->
  exists es, dict_set ch a v [] = Some es /\
             dict_get ch b es = Some (if py_eq b a then Some v else None).
Proof. exact lookup_follows_py_eq. Qed.
Print Assumptions C07_lookup.

(* non-vacuity and the documented equalities, by computation *)
Example C07_examples :
  nf_key (VTuple [VInt 1; VBStr (bs "a")]) = true /\
  nf_key (VTuple [VFloat 4607182418800017408%N; VComplex 0%N 9223372036854775808%N]) = true /\   (* (1.0, complex(0,-0.0)) *)
  py_eq (VInt 1) (VBig 0%N 1) = true /\ py_eq (VBool true) (VUint 1) = true /\
  py_eq (VStr (bs "a")) (VBytes (bs "a")) = false /\
  py_eq (VBStr (bs "a")) (VStr (bs "a")) = true /\ py_eq (VBStr (bs "a")) (VBytes (bs "a")) = true /\
  py_eq (VInt 9007199254740993) (VFloat 4845873199050653696%N) = false /\   (* 2^53+1 vs 2^53 *)
  py_eq (VUint 9223372036854775808) (VFloat 4890909195324358656%N) = true.  (* 2^63 *)
Proof. vm_compute. repeat split. Qed.
