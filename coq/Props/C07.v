(* C07 — Dict key lookup follows Python equality exactly and deterministically. *)
From Coq Require Import Ascii String.
From Coq Require Import List ZArith NArith Bool.
From OgRek Require Import Base Float Value PyEq Dict PyEqFacts DictFacts.
Import ListNotations.

(* FULL STATEMENT (the property): for all hashable keys a b,
     go_equal a b = py_eq a b,   go_equal a b = true -> equal hash input,
   and a Dict holding a finds it under b iff py_eq.
   PROVED BELOW for the keys whose numeric components are integers of any Go integer type
   or *big.Int, bool, the three string kinds, Tuples, None, Class, Call, Ref (predicate
   nf_key).  Keys with float32/float64/complex components are NOT covered by these theorems
   yet: for them the property is decided by the correspondence run only (boundary lattice of
   about 10^5 ordered pairs against the model and against CPython's ==).  Hence _partial. *)

Theorem C07_equal_is_py_eq_partial :
  forall a b, nf_key a = true -> nf_key b = true -> go_equal a b = py_eq a b.
Proof. exact go_equal_py_eq_nf. Qed.
Print Assumptions C07_equal_is_py_eq_partial.

(* equal keys feed identical input to maphash, for every seed and every hash function *)
Theorem C07_hash_respects_equal_partial :
  forall a b, nf_key a = true -> nf_key b = true -> go_equal a b = true -> hash_same a b = true.
Proof.
  intros a b Ha Hb E. apply hash_agree_same. apply hash_respects_equal_nf; assumption.
Qed.
Print Assumptions C07_hash_respects_equal_partial.

(* seed / slot-order independence: the chooser ch is universally quantified *)
Theorem C07_lookup_partial :
  forall ch a b v, nf_key a = true -> nf_key b = true ->
  exists es, dict_set ch a v [] = Some es /\
             dict_get ch b es = Some (if py_eq b a then Some v else None).
Proof. exact lookup_follows_py_eq. Qed.
Print Assumptions C07_lookup_partial.

(* non-vacuity and the documented equalities, by computation *)
Example C07_examples :
  nf_key (VTuple [VInt 1; VBStr (bs "a")]) = true /\
  py_eq (VInt 1) (VBig 0%N 1) = true /\ py_eq (VBool true) (VUint 1) = true /\
  py_eq (VStr (bs "a")) (VBytes (bs "a")) = false /\
  py_eq (VBStr (bs "a")) (VStr (bs "a")) = true /\ py_eq (VBStr (bs "a")) (VBytes (bs "a")) = true /\
  py_eq (VInt 9007199254740993) (VFloat 4845873199050653696%N) = false /\   (* 2^53+1 vs 2^53 *)
  py_eq (VUint 9223372036854775808) (VFloat 4890909195324358656%N) = true.  (* 2^63 *)
Proof. vm_compute. repeat split. Qed.
