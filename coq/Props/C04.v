(* C04 — Decode is total and resource-safe on arbitrary bytes. *)
From Coq Require Import List NArith.
From Coq.Strings Require Import Byte.
From OgRek Require Import Base Value Reader Decoder DecoderFacts.
Import ListNotations.
Open Scope N_scope.

(* Never a panic; and the instruction loop, given fuel (length of input + 1), never runs
   out: every iteration consumes at least one byte, so Decode cannot loop without
   consuming input. *)
Theorem C04_no_panic_and_progress :
  forall cfg st inp,
    fst (fst (decode cfg st inp)) <> Panic /\ fst (fst (decode cfg st inp)) <> OutOfFuel.
Proof. exact decode_safe. Qed.
Print Assumptions C04_no_panic_and_progress.

(* whatever a handler does, it never hands back more input than it was given *)
Theorem C04_consumption :
  forall A (p : prog A) inp r rest, run p inp = (r, rest) -> (length rest <= length inp)%nat.
Proof. exact ReaderFacts.run_len. Qed.
Print Assumptions C04_consumption.

(* an opcode byte outside the dispatch table is an OpcodeError carrying that byte and the
   instruction index, wherever in the stream it is met *)
Theorem C04_unknown_opcode :
  forall f cfg insn st b rest,
    ~ In (b2N b) supported_bytes ->
    run (decode_loop (S f) cfg insn st) (b :: rest) = (Ok (Err (EOpcode b (insn + 1)), st), rest).
Proof.
  intros. apply loop_unknown_opcode. apply opcode_of_byte_none_iff. assumption.
Qed.
Print Assumptions C04_unknown_opcode.

Theorem C04_not_implemented_opcode :
  forall f cfg insn st b op rest,
    opcode_of_byte b = Some op -> not_implemented op = true ->
    run (decode_loop (S f) cfg insn st) (b :: rest) = (Ok (Err (EOpcode b (insn + 1)), st), rest).
Proof. exact loop_not_implemented. Qed.
Print Assumptions C04_not_implemented_opcode.

Theorem C04_bad_protocol :
  forall f cfg insn st v rest,
    5 < b2N v ->
    run (decode_loop (S f) cfg insn st) (x80 :: v :: rest) = (Ok (Err EBadVersion, st), rest).
Proof. exact loop_bad_proto. Qed.
Print Assumptions C04_bad_protocol.

(* ---- facts regenerated from the og-rek source on every run (tools/genfacts: Gen/Consts.v, Gen/Sites.v) -- *)
From Coq Require Import String Bool Lia ZifyN ZifyNat.
From OgRek Require Consts Sites.

(* The model's dispatch table is the source's: a byte is dispatched by the model (opcode_of_N) to
   the opcode named n exactly when the source declares the constant n with that byte value and the
   switch in Decoder.Decode has a case for n.  All 256 bytes, by computation. *)
Definition op_go_name (op : opcode) : string :=
  match op with
  | OMark => "opMark" | OStop => "opStop" | OPop => "opPop" | OPopMark => "opPopMark" | ODup => "opDup"
  | OFloat => "opFloat" | OInt => "opInt" | OBinint => "opBinint" | OBinint1 => "opBinint1" | OLong => "opLong"
  | OBinint2 => "opBinint2" | ONone => "opNone" | OPersid => "opPersid" | OBinpersid => "opBinpersid"
  | OReduce => "opReduce" | OString => "opString" | OBinstring => "opBinstring" | OShortBinstring => "opShortBinstring"
  | OUnicode => "opUnicode" | OBinunicode => "opBinunicode" | OAppend => "opAppend" | OBuild => "opBuild"
  | OGlobal => "opGlobal" | ODict => "opDict" | OEmptyDict => "opEmptyDict" | OAppends => "opAppends" | OGet => "opGet"
  | OBinget => "opBinget" | OInst => "opInst" | OLong1 => "opLong1" | ONewfalse => "opNewfalse" | ONewtrue => "opNewtrue"
  | OLongBinget => "opLongBinget" | OList => "opList" | OEmptyList => "opEmptyList" | OObj => "opObj" | OPut => "opPut"
  | OBinput => "opBinput" | OLongBinput => "opLongBinput" | OSetitem => "opSetitem" | OTuple => "opTuple"
  | OTuple1 => "opTuple1" | OTuple2 => "opTuple2" | OTuple3 => "opTuple3" | OEmptyTuple => "opEmptyTuple"
  | OSetitems => "opSetitems" | OBinfloat => "opBinfloat" | OBinbytes => "opBinbytes" | OShortBinbytes => "opShortBinbytes"
  | OFrame => "opFrame" | OShortBinunicode => "opShortBinUnicode" | OStackGlobal => "opStackGlobal"
  | OMemoize => "opMemoize" | OBytearray8 => "opBytearray8" | ONextBuffer => "opNextBuffer"
  | OReadonlyBuffer => "opReadOnlyBuffer" | OProto => "opProto"
  end%string.

Definition source_dispatches (b : N) : option string :=
  match filter (fun nb => (snd nb =? b) && existsb (String.eqb (fst nb)) Sites.dispatch) Consts.op_consts with
  | [(n, _)] => Some n
  | _ => None
  end.

Definition dispatch_agrees (b : N) : bool :=
  match opcode_of_N b, source_dispatches b with
  | Some op, Some n => String.eqb (op_go_name op) n
  | None, None => true
  | _, _ => false
  end.

Theorem C04_dispatch_table_is_the_sources :
  forall b, b < 256 -> dispatch_agrees b = true.
Proof.
  assert (H : forallb dispatch_agrees (map N.of_nat (seq 0 256)) = true) by (vm_compute; reflexivity).
  intros b Hb. rewrite forallb_forall in H. apply H. apply in_map_iff. exists (N.to_nat b).
  split; [apply Nnat.N2Nat.id|]. apply in_seq. lia.
Qed.
Print Assumptions C04_dispatch_table_is_the_sources.

(* Memory: no allocation on the decoding side is sized by a number read from the input.  Every
   make(T, n) / Buffer.Grow(n) in a function reachable from the decoder's entry points (every method of
   Decoder, NewDecoder*; package call graph by go/types, any mention of a function counts) has a size that is a constant, the length of something
   that already exists, a single byte (<= 255), or a variable capped by a constant in the same
   function (`if x > CONST { x = CONST }`: the 64 KiB preallocation cap of BINSTRING / BINBYTES /
   BYTEARRAY8).  Payloads are then read with io.CopyN into a growing buffer, i.e. memory follows
   the bytes actually delivered.  (A statement about the source's allocation sites, regenerated
   on every run; the run-time half is the allocation envelope measured on the implementation.) *)
Definition site_ok (a : Sites.asite) : bool :=
  existsb (String.eqb (Sites.a_class a)) ["const"; "lenof"; "bytesized"; "capped"]%string.

Theorem C04_no_allocation_sized_by_input : forallb site_ok Sites.alloc_sites = true.
Proof. vm_compute. reflexivity. Qed.
Print Assumptions C04_no_allocation_sized_by_input.
