(* C04 — Decode is total and resource-safe on arbitrary bytes. *)
From Coq Require Import List NArith.
From Coq.Strings Require Import Byte.
From OgRek Require Import Base Value Reader Decoder DecoderFacts.
Import ListNotations.
Open Scope N_scope.

(* Never a panic; and the instruction loop, given fuel (length of input + 1), never runs
   out: every iteration consumes at least one byte, so Decode cannot loop without
   consuming input. *)
Theorem C04_no_panic_and_progress :
  forall cfg st inp,
    fst (fst (decode cfg st inp)) <> Panic /\ fst (fst (decode cfg st inp)) <> OutOfFuel.
Proof. exact decode_safe. Qed.
Print Assumptions C04_no_panic_and_progress.

(* whatever a handler does, it never hands back more input than it was given *)
Theorem C04_consumption :
  forall A (p : prog A) inp r rest, run p inp = (r, rest) -> (length rest <= length inp)%nat.
Proof. exact ReaderFacts.run_len. Qed.
Print Assumptions C04_consumption.

(* an opcode byte outside the dispatch table is an OpcodeError carrying that byte and the
   instruction index, wherever in the stream it is met *)
Theorem C04_unknown_opcode :
  forall f cfg insn st b rest,
    ~ In (b2N b) supported_bytes ->
    run (decode_loop (S f) cfg insn st) (b :: rest) = (Ok (Err (EOpcode b (insn + 1)), st), rest).
Proof.
  intros. apply loop_unknown_opcode. apply opcode_of_byte_none_iff. assumption.
Qed.
Print Assumptions C04_unknown_opcode.

Theorem C04_not_implemented_opcode :
  forall f cfg insn st b op rest,
    opcode_of_byte b = Some op -> not_implemented op = true ->
    run (decode_loop (S f) cfg insn st) (b :: rest) = (Ok (Err (EOpcode b (insn + 1)), st), rest).
Proof. exact loop_not_implemented. Qed.
Print Assumptions C04_not_implemented_opcode.

Theorem C04_bad_protocol :
  forall f cfg insn st v rest,
    5 < b2N v ->
    run (decode_loop (S f) cfg insn st) (x80 :: v :: rest) = (Ok (Err EBadVersion, st), rest).
Proof. exact loop_bad_proto. Qed.
Print Assumptions C04_bad_protocol.
