(* C12 — Encoder uses only opcodes of the requested protocol and emits one framed pickle. *)
From Coq Require Import List ZArith NArith Bool.
From Coq.Strings Require Import Byte.
From OgRek Require Import Base Encoder EncoderFacts.
Import ListNotations.

(* a protocol outside 0..5 is rejected with an error before anything is written, whatever the
   value and the Writer *)
Theorem C12_bad_protocol :
  forall c v fa, (e_proto c < 0 \/ 5 < e_proto c)%Z -> run_w (encode c v) fa = ([], EErr EBadProto).
Proof. exact encode_bad_protocol. Qed.
Print Assumptions C12_bad_protocol.

(* framing: a successful output is  [PROTO p iff p >= 2]  body  STOP *)
Theorem C12_framing_partial :
  forall c v ws,
    run_w (encode c v) None = (ws, EOk) ->
    exists body, concat ws = (if (2 <=? e_proto c)%Z then [x80; Z2b (e_proto c)] else []) ++ body ++ [x2e].
Proof. exact encode_framing. Qed.
Print Assumptions C12_framing_partial.

(* NOT YET PROVED (hence _partial): that `body` disassembles into opcodes introduced in protocol
   <= p with a balanced stack and no further STOP.  That part of the property is decided on
   every run by scanning the implementation's and the model's output with CPython's pickletools
   (opcode table, dis) and by loading protocol <= 2 output under Python 2.7. *)
