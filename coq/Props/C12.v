(* C12 — Encoder uses only opcodes of the requested protocol and emits one framed pickle. *)
From Coq Require Import List ZArith NArith Bool.
From Coq.Strings Require Import Byte.
From OgRek Require Import Base Encoder Insn EncProg EncoderFacts ProgFacts.
Import ListNotations.

(* a protocol outside 0..5 is rejected with an error before anything is written, whatever the
   value and the Writer *)
Theorem C12_bad_protocol :
  forall c v fa, (e_proto c < 0 \/ 5 < e_proto c)%Z -> run_w (encode c v) fa = ([], EErr EBadProto).
Proof. exact encode_bad_protocol. Qed.
Print Assumptions C12_bad_protocol.

(* Whenever Encode succeeds, for every value and configuration, what it wrote is - byte for byte -
   the assembly of an instruction list  program c v  (Insn.asm gives each instruction's bytes) that
     - is  [PROTO p exactly when p >= 2] ++ body ++ [STOP]  with no PROTO or STOP inside body,
     - uses only opcodes introduced in a protocol <= p (Insn.iproto: the pickletools table),
     - respects the stack discipline of the pickle machine over {mark, object} (Insn.sd_step: the
       pickletools stack effects), reaching STOP with exactly one object.
   Insn.asm / iproto / sd_step are compared with CPython's pickletools.opcodes on every run. *)
Theorem C12_conformance :
  forall c v ws,
    run_w (encode c v) None = (ws, EOk) ->
    concat ws = asm_all (program c v) /\
    program c v = (if (2 <=? e_proto c)%Z then [IProto (Z.to_N (e_proto c))] else []) ++ body c v ++ [IStop] /\
    Forall (fun i => is_frame i = false) (body c v) /\
    Forall (fun i => (iproto i <= e_proto c)%Z) (program c v) /\
    sd_run (program c v) [] = true.
Proof.
  intros c v ws H. split; [exact (encode_is_program c v ws H)|]. split; [reflexivity|].
  split; [apply body_noframe|]. split; [|exact (program_well_formed c v ws H)].
  apply program_within. unfold encode in H.
  destruct ((0 <=? e_proto c)%Z && (e_proto c <=? 5)%Z) eqn:E; [|discriminate].
  apply andb_true_iff in E. destruct E as [E _]. apply Z.leb_le. exact E.
Qed.
Print Assumptions C12_conformance.

(* framing at the byte level (kept from the earlier development; a corollary of the above) *)
Theorem C12_framing :
  forall c v ws,
    run_w (encode c v) None = (ws, EOk) ->
    exists body, concat ws = (if (2 <=? e_proto c)%Z then [x80; Z2b (e_proto c)] else []) ++ body ++ [x2e].
Proof. exact encode_framing. Qed.
Print Assumptions C12_framing.
