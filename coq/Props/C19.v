(* C19 — Integer and string helpers are independent of the pickle representation. *)
From Coq Require Import List ZArith NArith Bool.
From OgRek Require Import Base Value Typeconv.
Import ListNotations.

(* by result type: AsString accepts exactly string and ByteString, AsBytes exactly Bytes and
   ByteString, returning the payload unchanged; AsInt64 accepts int64 and in-range *big.Int *)
Theorem C19_helpers_by_type :
  forall v,
    (as_string v = match v with VStr s | VBStr s => Some s | _ => None end) /\
    (as_bytes v = match v with VBytes s | VBStr s => Some s | _ => None end) /\
    (as_int64 v = match v with
                  | VInt z => Some z
                  | VBig _ z => if in_int64 z then Some z else None
                  | _ => None end).
Proof. intros v. repeat split. Qed.
Print Assumptions C19_helpers_by_type.
