(* C19 — Integer and string helpers are independent of the pickle representation. *)
From Coq Require Import List ZArith NArith Bool.
From Coq.Strings Require Import Byte.
From OgRek Require Import Base GoStrconv Value Reader Decoder Typeconv IntFacts.
Import ListNotations.
Open Scope N_scope.

(* ---- integers: whichever opcode carries the integer z, AsInt64 of the decoded value is z when z
        fits in int64 and an error otherwise (as_int64_ok v z) -------------------------------------- *)

(* decodeLong, as the code computes it (shift-and-add, subtract one, flip big.Int.Bytes(),
   negate), IS the little-endian two's-complement value - for byte strings of every length *)
Theorem C19_decode_long : forall data, decode_long data = twos_complement data.
Proof. exact decode_long_spec. Qed.
Print Assumptions C19_decode_long.

(* INT text and LONG text: for every integer z, of any size *)
Theorem C19_int_text : forall cfg key insn st z rest,
  exists v st', run (handler cfg OInt key insn st) (dec_of_Z z ++ x0a :: rest) = (Ok (HOk (push v st')), rest)
                /\ as_int64_ok v z.
Proof. exact int_text_form. Qed.
Print Assumptions C19_int_text.

Theorem C19_long_text : forall cfg key insn st z rest,
  exists v st', run (handler cfg OLong key insn st) (dec_of_Z z ++ x4c :: x0a :: rest) = (Ok (HOk (push v st')), rest)
                /\ as_int64_ok v z.
Proof. exact long_text_form. Qed.
Print Assumptions C19_long_text.

(* BININT1, BININT2, BININT: every integer each can carry *)
Theorem C19_binint1 : forall cfg key insn st n rest, n < 256 ->
  run (handler cfg OBinint1 key insn st) (N2b n :: rest) = (Ok (HOk (push (VInt (Z.of_N n)) st)), rest).
Proof. exact binint1_form. Qed.
Theorem C19_binint2 : forall cfg key insn st n rest, n < 65536 ->
  run (handler cfg OBinint2 key insn st) (le_encode 2 n ++ rest) = (Ok (HOk (push (VInt (Z.of_N n)) st)), rest).
Proof. exact binint2_form. Qed.
Theorem C19_binint : forall cfg key insn st z rest, (-2147483648 <= z <= 2147483647)%Z ->
  run (handler cfg OBinint key insn st) (le_encode 4 (Z.to_N (wrap_u 32 z)) ++ rest)
  = (Ok (HOk (push (VInt z) st)), rest).
Proof. exact binint_form. Qed.
Print Assumptions C19_binint.

(* LONG1 with any payload of up to 255 bytes (the length byte is unsigned) *)
Theorem C19_long1 : forall cfg key insn st data rest, Nlen data < 256 ->
  exists st', run (handler cfg OLong1 key insn st) (N2b (Nlen data) :: data ++ rest)
              = (Ok (HOk (push (VBig (d_next st) (twos_complement data)) st')), rest)
              /\ as_int64_ok (VBig (d_next st) (twos_complement data)) (twos_complement data).
Proof. exact long1_form. Qed.
Print Assumptions C19_long1.

(* ---- helpers, by result type ----------------------------------------------------------------------- *)
Theorem C19_helpers_by_type :
  forall v,
    (as_string v = match v with VStr s | VBStr s => Some s | _ => None end) /\
    (as_bytes v = match v with VBytes s | VBStr s => Some s | _ => None end) /\
    (as_int64 v = match v with
                  | VInt z => Some z
                  | VBig _ z => if in_int64 z then Some z else None
                  | _ => None end).
Proof. intros v. repeat split. Qed.
Print Assumptions C19_helpers_by_type.

(* PyDict mode: int64 and *big.Int of one integer are the same Dict key: C07_equal_is_py_eq
   and C07_hash_respects_equal (Props/C07.v) cover VInt z / VBig z. *)

(* which payload opcode yields which result type is the content of the decoder model (handler);
   the payload-preservation half for the nine string opcodes is part of the round-trip work (C03)
   and is decided by the run: payloads x 9 opcodes x StrictUnicode. *)
