(* C09 — Dict opcodes build Python's dict in PyDict mode and a plain Go map otherwise. *)
From Coq Require Import List ZArith NArith Bool.
From Coq.Strings Require Import Byte.
From OgRek Require Import Base Value PyEq Dict Reader Decoder Insn PyVM PyVM2 DecoderFacts DictFacts ExecFacts SimFacts.
Import ListNotations.

(* C09_dict_result_partial: for every instruction list whose result under the CPython machine is a
   dict object with assignment trace tr (DICT, SETITEM, SETITEMS in any mixture, through the memo or
   not), Decode returns - unless outcome (2) or (3) of C06 applies - the map / Dict object g whose
   entries are exactly what assigning the related keys and values vtr, in CPython's order, produces:
     PyDict on : Dict.Set applied to vtr in order (obj_assign on HDict = Dict.dict_set); by the C08
                 refinement theorem (DictFacts.history_refines) that is the reference dictionary
                 under Python equality: one entry per key class, the last value per class;
     PyDict off: the builtin map after m[k] = v for each pair (Value.gomap_assign, Go key identity),
                 and if a key cannot be a Go map key Decode fails with an error (outcome 3) rather
                 than dropping the entry.
   `_partial` for the same reason as C06 (outcome 2, the recorded finding). *)
Theorem C09_dict_result_partial : forall pd su prog id tr pstf rest,
  qload prog = Some (QRef id, pstf) -> qheap_get (q_heap pstf) id = Some (ODict tr) ->
  let cfg := Build_dconfig pd su None in
  (exists g st' b' after vtr o,
      decode cfg init_state (asm_all prog ++ rest) = ((Ok (dict_val pd g), st'), after) /\
      Forall2 (pair_rel pd su b' (q_heap pstf)) vtr tr /\
      obj_assign_all (empty_obj pd) vtr = Some o /\ heap_get (d_heap st') g = Some o)
  \/ (exists i' st' inp',
        exec cfg 0 (start_state init_state) (asm_all prog ++ rest) i' st' inp' /\ d_stale st' = true)
  \/ (pd = false /\ exists e st' after, decode cfg init_state (asm_all prog ++ rest) = ((Err e, st'), after)).
Proof. intros pd su prog id tr pstf rest H Hg. exact (decode_sim_dict pd su prog id tr pstf rest H Hg). Qed.
Print Assumptions C09_dict_result_partial.

(* in PyDict mode an assignment is never rejected when CPython accepts the key *)
Theorem C09_pydict_accepts : forall vtr o, kind_ok true o ->
  Forall (fun kv => hashable (fst kv) = true) vtr -> exists o', obj_assign_all o vtr = Some o'.
Proof. intros vtr o K F. exact (dict_assign_all_ok true vtr o eq_refl K F). Qed.
Print Assumptions C09_pydict_accepts.

(* keys that collide under Python equality: 1, 1.0, True -> one entry in PyDict mode *)
Example C09_collision :
  match obj_assign_all (HDict []) [(VInt 1, VStr [x61]); (VFloat 4607182418800017408, VStr [x62]); (VBool true, VStr [x63])] with
  | Some (HDict es) => map snd es
  | _ => []
  end = [VStr [x63]].
Proof. vm_compute. reflexivity. Qed.
(* ... and three entries in a builtin map *)
Example C09_go_identity :
  match obj_assign_all (HMap []) [(VInt 1, VStr [x61]); (VFloat 4607182418800017408, VStr [x62]); (VBool true, VStr [x63])] with
  | Some (HMap es) => length es
  | _ => 0%nat
  end = 3%nat.
Proof. vm_compute. reflexivity. Qed.
