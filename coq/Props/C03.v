(* C03 — Encode then Decode is the identity on canonical values, a normal form otherwise. *)
From Coq Require Import List ZArith NArith Bool.
From Coq.Strings Require Import Byte.
From OgRek Require Import Base Value Reader Decoder Encoder EncoderFacts.
Import ListNotations.

(* STATUS: the round-trip theorem over all values is not proved yet.  What is proved here are
   the facts the round trip rests on that need no decoder reasoning; the property itself is
   decided on every run by the correspondence check (encoder model = implementation on the
   bytes; decoder model = implementation on those bytes) and by the direct oracle
   Decode(Encode(v)) = documented normal form of v, computed independently. *)

(* Encode never modifies its argument: the model is a pure function of the value (trivially);
   on the implementation the harness compares a deep dump before and after every Encode. *)

(* the documented limitations are the only errors Encode itself raises besides TypeError *)
Theorem C03_encode_outcomes_partial :
  forall c v fa, snd (run_w (encode c v) fa) <> EPanic.
Proof. exact encode_no_panic. Qed.
Print Assumptions C03_encode_outcomes_partial.

(* concrete round trips through both models, every protocol (computation, not a proof of the
   general statement) *)
Definition cfgp (p : Z) : econfig := Build_econfig p false (fun _ => false) (fun _ => []).
Definition dcfg : dconfig := Build_dconfig false false None.
Definition rt (p : Z) (v : rval) : res val :=
  fst (fst (decode dcfg init_state (output (encode (cfgp p) v)))).
Example C03_examples :
  forall p, In p [0; 1; 2; 3; 4; 5]%Z ->
    rt p (RList [RInt 1; RInt (-129); RInt 70000; RBool true; RNone; RStr SPlain [x61; x0a; x22]]) =
      Ok (VList 0%N [VInt 1; VInt (-129); VInt 70000; VBool true; VNone; VStr [x61; x0a; x22]]) /\
    rt p (RTuple [RStr SBytes [xff; x00]; RBig 18446744073709551616]) =
      Ok (VTuple [VBytes [xff; x00]; VBig (if (p <=? 2)%Z then (if (p <=? 1)%Z then 0%N else 0%N) else 0%N) 18446744073709551616]).
Proof.
  intros p H. cbn in H.
  repeat (destruct H as [H|H]; [subst p; vm_compute; split; reflexivity|]). contradiction.
Qed.
